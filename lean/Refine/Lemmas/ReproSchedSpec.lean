import Refine.Lemmas.ReproSchedNative

/-!
  The common value of all schedules is the one of `Refine.Model.Comm.p2pExchange` (the order-free matcher C17's
  theorems are about): with the messages delivered in posting order and the receives completed in posted order the
  operational exchange IS `recvPosted`, when at most one message per (source, dest, tag) is in flight and the receives
  of a rank name pairwise distinct (source, tag).
-/
namespace Refine.Model.ReproSched
open Refine.Model.Comm Refine.Lemmas.Comm

variable {α : Type}

/-- deposit one matched pair -/
def dep (b : List α) (pr : Rcv × Env α) : List α := writeAt b pr.1.off.toNat pr.2.data

theorem complete_range : ∀ (pairs : List (Rcv × Env α)) (buf : List α),
    complete pairs (List.range pairs.length) buf = pairs.foldl dep buf
  | [], _ => rfl
  | x :: xs, buf => by
    rw [complete_eq_foldl, List.length_cons, List.range_succ_eq_map, List.foldl_cons, List.foldl_map]
    have h0 : depositStep (x :: xs) buf 0 = dep buf x := rfl
    have hs : (fun b i => depositStep (x :: xs) b (Nat.succ i)) = depositStep xs := by
      funext b i; simp [depositStep]
    rw [h0, hs, ← complete_eq_foldl, complete_range xs]
    rfl

def envOf (r : Nat) (m : Msg α) : Env α := ⟨(r : Int), m.dest, m.tag, m.data⟩

/-- the first message of the canonical mailbox with a given (source, tag) carries the data `findMsg` finds -/
theorem head_filter_allMsgsFrom (me s t : Int) : ∀ (w : World (Posted α)) (r0 : Nat),
    ((((allMsgsFrom r0 w).filter fun m => m.dest == me).filter (hasKey s t)).head?).map (·.data) =
      if s < (r0 : Int) then none else
        match w[(s - (r0 : Int)).toNat]? with
        | none => none
        | some p => (p.msgs.find? fun m => m.dest == me && m.tag == t).map (·.data)
  | [], r0 => by
    simp only [allMsgsFrom, List.filter_nil, List.head?_nil, Option.map_none, List.getElem?_nil]
    split <;> rfl
  | p :: ps, r0 => by
    have ih := head_filter_allMsgsFrom me s t ps (r0 + 1)
    simp only [allMsgsFrom, List.filter_append, List.head?_append]
    -- the block of rank r0
    have hblock : ((msgsOf r0 p).filter fun m => m.dest == me).filter (hasKey s t) =
        if s = (r0 : Int) then (p.msgs.filter fun m => m.dest == me && m.tag == t).map (envOf r0) else [] := by
      unfold msgsOf
      rw [List.filter_filter, List.filter_map]
      by_cases hs : s = (r0 : Int)
      · rw [if_pos hs]
        congr 1
        apply List.filter_congr
        intro m _
        simp [hasKey, hs, Bool.and_comm]
      · rw [if_neg hs]
        rw [List.map_eq_nil_iff, List.filter_eq_nil_iff]
        intro m _
        simp only [Function.comp, hasKey, Bool.and_eq_true, beq_iff_eq, not_and]
        intro h1 _
        omega
    rw [hblock]
    by_cases hlt : s < (r0 : Int)
    · have h1 : ¬ s = (r0 : Int) := by omega
      have h2 : s < ((r0 + 1 : Nat) : Int) := by omega
      rw [if_neg h1, if_pos hlt]
      rw [if_pos h2] at ih
      simp only [List.head?_nil, Option.none_or]
      exact ih
    · rw [if_neg hlt]
      by_cases hs : s = (r0 : Int)
      · rw [if_pos hs]
        have h2 : s < ((r0 + 1 : Nat) : Int) := by omega
        rw [if_pos h2] at ih
        have h0 : (s - (r0 : Int)).toNat = 0 := by omega
        rw [h0, List.getElem?_cons_zero]
        simp only []
        rw [List.head?_map, List.head?_filter]
        cases hf : p.msgs.find? (fun m => m.dest == me && m.tag == t) with
        | some m => simp [envOf]
        | none =>
          simp only [Option.map_none, Option.none_or]
          exact ih
      · rw [if_neg hs]
        have h2 : ¬ s < ((r0 + 1 : Nat) : Int) := by omega
        rw [if_neg h2] at ih
        have hidx : (s - (r0 : Int)).toNat = (s - ((r0 + 1 : Nat) : Int)).toNat + 1 := by omega
        rw [hidx, List.getElem?_cons_succ]
        simp only [List.head?_nil, Option.none_or]
        exact ih

theorem head_mailbox_findMsg (w : World (Posted α)) (me : Int) (rq : Rcv) :
    (((mailbox (allMsgs w) me).filter (hasKey rq.source rq.tag)).head?).map (·.data) =
      (findMsg w me rq).map (·.data) := by
  unfold mailbox allMsgs findMsg
  rw [head_filter_allMsgsFrom me rq.source rq.tag w 0]
  simp only [Int.natCast_zero, Int.sub_zero]
  split
  · rfl
  · cases w[rq.source.toNat]? <;> rfl

/-- posted-order matching against a mailbox that has the canonical per-key subsequences, followed by posted-order
    deposits, is `recvPosted` -/
theorem matchRecvs_eq_recvPosted (w : World (Posted α)) (me : Int) : ∀ (rcvs : List Rcv) (mb' : List (Env α)) (buf : List α),
    (∀ rq ∈ rcvs, mb'.filter (hasKey rq.source rq.tag) = (mailbox (allMsgs w) me).filter (hasKey rq.source rq.tag)) →
    (rcvs.map fun rq => (rq.source, rq.tag)).Nodup →
    (matchRecvs mb' rcvs).map (fun pairs => pairs.foldl dep buf) = recvPosted w me rcvs buf
  | [], _, _, _, _ => rfl
  | rq :: rqs, mb', buf, hf, hn => by
    have hkey := hf rq (List.mem_cons_self ..)
    have hC := head_mailbox_findMsg w me rq
    rw [← hkey] at hC
    rw [List.map_cons, List.nodup_cons] at hn
    unfold matchRecvs recvPosted
    cases ht : takeFirst rq.source rq.tag mb' with
    | none =>
      have := (takeFirst_none_iff _ _ mb').1 ht
      rw [this] at hC
      simp only [List.head?_nil, Option.map_none] at hC
      cases hfm : findMsg w me rq with
      | none => rfl
      | some m0 => rw [hfm] at hC; simp at hC
    | some r =>
      obtain ⟨m, mb''⟩ := r
      obtain ⟨h1, h2⟩ := takeFirst_some _ _ mb' ht
      rw [h1] at hC
      simp only [List.head?_cons, Option.map_some] at hC
      cases hfm : findMsg w me rq with
      | none => rw [hfm] at hC; simp at hC
      | some m0 =>
        rw [hfm] at hC
        simp only [Option.map_some, Option.some.injEq] at hC
        simp only []
        rw [← hC]
        by_cases hc : (m.data.length : Int) ≤ rq.cnt
        · simp only [hc, if_true, Option.map_map]
          have ih := matchRecvs_eq_recvPosted w me rqs mb'' (writeAt buf rq.off.toNat m.data) (by
            intro rq' hrq'
            have hne : (rq'.source, rq'.tag) ≠ (rq.source, rq.tag) := by
              intro heq
              apply hn.1
              rw [← heq]
              exact List.mem_map_of_mem (f := fun rq => (rq.source, rq.tag)) hrq'
            rw [h2 _ _ hne]
            exact hf rq' (List.mem_cons_of_mem _ hrq')) hn.2
          rw [← ih]
          congr 1
        · simp only [hc, if_false]
          rfl

/-- with delivery in posting order and completion in posted order the operational receive is `recvPosted` -/
theorem recvSched_canonical (w : World (Posted α)) (me : Int) (rcvs : List Rcv) (buf : List α)
    (hn : (rcvs.map fun rq => (rq.source, rq.tag)).Nodup) :
    recvSched (allMsgs w) (List.range rcvs.length) me rcvs buf = recvPosted w me rcvs buf := by
  unfold recvSched
  rw [← matchRecvs_eq_recvPosted w me rcvs (mailbox (allMsgs w) me) buf (fun _ _ => rfl) hn]
  cases hm : matchRecvs (mailbox (allMsgs w) me) rcvs with
  | none => rfl
  | some pairs =>
    simp only [Option.map_some]
    have hlen : pairs.length = rcvs.length := by
      have := (matchRecvs_fst rcvs _ hm).1
      rw [← this, List.length_map]
    rw [← hlen, complete_range]

/-- the canonical schedule of a world -/
def canonOrder (w : World (Posted α)) (r : Nat) : List Nat :=
  List.range ((w[r]?.map fun p => p.rcvs.length).getD 0)

theorem p2pSched_canonical (w : World (Posted α))
    (hr : ∀ p ∈ w, (p.rcvs.map fun rq => (rq.source, rq.tag)).Nodup) :
    p2pSched (allMsgs w) (canonOrder w) w = p2pExchange w := by
  unfold p2pSched p2pExchange
  apply allSome_congr
  apply List.ext_getElem?
  intro r
  simp only [List.getElem?_mapIdx]
  cases hp : w[r]? with
  | none => rfl
  | some p =>
    simp only [Option.map_some]
    congr 1
    have hc : canonOrder w r = List.range p.rcvs.length := by simp [canonOrder, hp]
    rw [hc, recvSched_canonical w (r : Int) p.rcvs p.buf (hr p (List.mem_of_getElem? hp))]

/-- any delivery permutation, any completion permutations: the exchange is `p2pExchange` (C17's matcher) -/
theorem p2pSched_eq_p2pExchange (w : World (Posted α)) (a : List (Env α)) (c : Nat → List Nat)
    (ha : a.Perm (allMsgs w)) (hc : ∀ r, (c r).Perm (canonOrder w r))
    (hmsg : ∀ p ∈ w, (p.msgs.map fun m => (m.dest, m.tag)).Nodup)
    (hr : ∀ p ∈ w, (p.rcvs.map fun rq => (rq.source, rq.tag)).Nodup)
    (hok : ∀ p ∈ w, RecvsOk p.buf.length p.rcvs) :
    p2pSched a c w = p2pExchange w := by
  rw [← p2pSched_canonical w hr]
  exact p2pSched_congr w a (allMsgs w) c (canonOrder w) (fifoEq_of_perm_nodup ha (allMsgs_nodup w hmsg)) hc hok

/-- the same for blocking loops (completion in posted order): no condition on the buffer regions -/
theorem p2pSched_eq_p2pExchange_blocking (w : World (Posted α)) (a : List (Env α))
    (ha : a.Perm (allMsgs w))
    (hmsg : ∀ p ∈ w, (p.msgs.map fun m => (m.dest, m.tag)).Nodup)
    (hr : ∀ p ∈ w, (p.rcvs.map fun rq => (rq.source, rq.tag)).Nodup) :
    p2pSched a (canonOrder w) w = p2pExchange w := by
  rw [← p2pSched_canonical w hr]
  exact p2pSched_congr_arrival w a (allMsgs w) (canonOrder w) (fifoEq_of_perm_nodup ha (allMsgs_nodup w hmsg))

theorem canonOrder_eq_getD (w : World (Posted α)) (r : Nat) :
    canonOrder w r = List.range ((w.getD r ⟨Comm.Status.ok, [], [], []⟩).rcvs.length) := by
  unfold canonOrder
  rw [List.getD_eq_getElem?_getD]
  cases w[r]? <;> rfl

theorem nativeRecvs_source (ty : RefType) (np maxTag rank n : Int) :
    ∀ (sizes : List Int) (part off : Int),
      (∀ rq ∈ (nativeRecvs ty np maxTag rank n part off sizes).2, part ≤ rq.source) ∧
      (nativeRecvs ty np maxTag rank n part off sizes).2.Pairwise (fun a b => a.source < b.source)
  | [], part, off => by simp [nativeRecvs]
  | sz :: rest, part, off => by
    obtain ⟨ih1, ih2⟩ := nativeRecvs_source ty np maxTag rank n rest (part + 1) (off + n * sz)
    unfold nativeRecvs
    by_cases hsz : 0 < sz
    · simp only [hsz, if_true]
      by_cases htag : (decide (0 ≤ np * rank + part) && decide (np * rank + part ≤ maxTag)) = true
      · simp only [htag, Bool.not_true, Bool.false_eq_true, if_false]
        by_cases hty : ty.nativeOk = true
        · simp only [hty, Bool.not_true, Bool.false_eq_true, if_false]
          constructor
          · intro m hm
            rw [List.mem_cons] at hm
            rcases hm with rfl | hm
            · exact Int.le_refl _
            · have := ih1 m hm; omega
          · rw [List.pairwise_cons]
            refine ⟨?_, ih2⟩
            intro m hm
            have := ih1 m hm
            show part < m.source
            omega
        · simp [hty]
      · simp [htag]
    · simp only [hsz, if_false]
      constructor
      · intro m hm
        have := ih1 m hm; omega
      · exact ih2

/-- the receives of one rank in the native all-to-all name pairwise distinct (source, tag) -/
theorem nativePost_rcvs_nodup (ty : RefType) (np maxTag rank n : Int) (a : A2A α) :
    ((nativePost ty np maxTag rank n a).rcvs.map fun rq => (rq.source, rq.tag)).Nodup := by
  rcases (nativePost_cases ty np maxTag rank n a).2.1 with h | h
  · rw [h]; simp
  · rw [h]
    exact nodup_map_of_pairwise_lt _ (fun rq : Rcv => rq.source) (fun a b hab => (Prod.mk.inj hab).1) _
      (nativeRecvs_source ty np maxTag rank n a.recvSize 0 0).2

/-! ### the rank-0 loops -/

theorem zipIdx_drop_pairwise {β : Type} (l : List β) (k : Nat) :
    ((l.zipIdx).drop k).Pairwise (fun a b => a.2 ≠ b.2) := by
  have h0 : (l.zipIdx).Pairwise (fun a b => a.2 ≠ b.2) := by
    have := List.nodup_range' (s := 0) (n := l.length) (step := 1)
    rw [← List.zipIdx_map_snd 0 l] at this
    unfold List.Nodup at this
    rw [List.pairwise_map] at this
    exact this
  exact h0.sublist (List.drop_sublist k _)

theorem nodup_map_of_pairwise_ne {β γ : Type} (g : β → γ) (f : β → Nat) (hg : ∀ a b, g a = g b → f a = f b)
    (l : List β) (h : l.Pairwise (fun a b => f a ≠ f b)) : (l.map g).Nodup := by
  unfold List.Nodup
  rw [List.pairwise_map]
  apply h.imp
  intro a b hab heq
  exact hab (hg a b heq)

theorem scatterPosted_msgs_nodup [Inhabited α] (ty : RefType) (maxTag : Int) (chunks : List (List α)) :
    ∀ p ∈ scatterPosted ty maxTag chunks, (p.msgs.map fun m => (m.dest, m.tag)).Nodup := by
  intro p hp
  unfold scatterPosted at hp
  rw [List.mem_mapIdx] at hp
  obtain ⟨i, hi, rfl⟩ := hp
  simp only []
  split
  · have hs := postAll_sublist ty maxTag (fun (m : Msg α) => m.tag)
      (((chunks.zipIdx).drop 1).map fun (cp : List α × Nat) => (⟨(cp.2 : Int), (cp.2 : Int), cp.1⟩ : Msg α))
    apply (hs.map _).nodup
    rw [List.map_map]
    apply nodup_map_of_pairwise_ne _ (fun cp : List α × Nat => cp.2) _ _ (zipIdx_drop_pairwise chunks 1)
    intro a b heq
    exact Int.ofNat.inj (Prod.mk.inj heq).1
  · simp

theorem scatterPosted_rcvs_nodup [Inhabited α] (ty : RefType) (maxTag : Int) (chunks : List (List α)) :
    ∀ p ∈ scatterPosted ty maxTag chunks, (p.rcvs.map fun rq => (rq.source, rq.tag)).Nodup := by
  intro p hp
  unfold scatterPosted at hp
  rw [List.mem_mapIdx] at hp
  obtain ⟨i, hi, rfl⟩ := hp
  simp only []
  split
  · simp
  · have hs := postAll_sublist ty maxTag (fun (q : Rcv) => q.tag) [⟨0, (i : Int), 0, (chunks[i].length : Int)⟩]
    exact ((hs.map _).nodup (by simp))

theorem gatherPosted_msgs_nodup [Inhabited α] (ty : RefType) (maxTag : Int) (w : World (List α)) :
    ∀ p ∈ gatherPosted ty maxTag w, (p.msgs.map fun m => (m.dest, m.tag)).Nodup := by
  intro p hp
  unfold gatherPosted at hp
  rw [List.mem_mapIdx] at hp
  obtain ⟨i, hi, rfl⟩ := hp
  simp only []
  split
  · simp
  · have hs := postAll_sublist ty maxTag (fun (m : Msg α) => m.tag) [⟨0, (i : Int), w[i]⟩]
    exact ((hs.map _).nodup (by simp))

theorem gatherPosted_rcvs_nodup [Inhabited α] (ty : RefType) (maxTag : Int) (w : World (List α)) :
    ∀ p ∈ gatherPosted ty maxTag w, (p.rcvs.map fun rq => (rq.source, rq.tag)).Nodup := by
  intro p hp
  unfold gatherPosted at hp
  rw [List.mem_mapIdx] at hp
  obtain ⟨i, hi, rfl⟩ := hp
  simp only []
  split
  · have hs := postAll_sublist ty maxTag (fun (q : Rcv) => q.tag)
      (((((w.map fun c => (c.length : Int)).zip (displs (w.map fun c => (c.length : Int)))).zipIdx).drop 1).map
        fun (x : (Int × Int) × Nat) => (⟨(x.2 : Int), (x.2 : Int), x.1.2, x.1.1⟩ : Rcv))
    apply (hs.map _).nodup
    rw [List.map_map]
    apply nodup_map_of_pairwise_ne _ (fun x : (Int × Int) × Nat => x.2) _ _ (zipIdx_drop_pairwise _ 1)
    intro a b heq
    exact Int.ofNat.inj (Prod.mk.inj heq).1
  · simp

end Refine.Model.ReproSched
