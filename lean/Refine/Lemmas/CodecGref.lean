import Refine.Lemmas.CodecBytes
import Mathlib.Tactic.IntervalCases

/-! `(REF_INT)(double)i = i` for every 32-bit `i`: the geometry `gref` travels as a double -/
namespace Refine.Lemmas.Codec
open Refine.Model.Meshb

theorem d2i_i2d_pos_aux (s m e : Nat) (hs : s ≤ 1) (he : e ≤ 30) (h1 : 2 ^ e ≤ m) (h2 : m < 2 ^ (e + 1)) :
    let n := s * 2 ^ 63 + (e + 1023) * 2 ^ 52 + (m * 2 ^ (52 - e) - 2 ^ 52)
    n < 2 ^ 64 ∧ n / 2 ^ 63 = s ∧ (n / 2 ^ 52) % 2048 = e + 1023 ∧
      (2 ^ 52 + n % 2 ^ 52) / 2 ^ (52 - (e + 1023 - 1023)) = m := by
  interval_cases e <;> (norm_num at h1 h2 ⊢; omega)

theorem d2i_i2d {x : Int} (h : int32 x) : d2i (i2d x) = x := by
  obtain ⟨lo, hi⟩ := h
  by_cases hx0 : x = 0
  · subst hx0; decide
  · by_cases hmin : x = -(2 ^ 31 : Int)
    · subst hmin; decide
    · unfold i2d
      rw [if_neg hx0]
      dsimp only
      have hm0 : x.natAbs ≠ 0 := by omega
      have hm : x.natAbs < 2 ^ 31 := by omega
      have he : x.natAbs.log2 ≤ 30 := by
        have := (Nat.log2_lt hm0 (k := 31)).2 hm; omega
      have h1 := Nat.log2_self_le hm0
      have h2 := Nat.lt_log2_self (n := x.natAbs)
      have hs : (if x < 0 then 1 else 0 : Nat) ≤ 1 := by split <;> omega
      obtain ⟨a1, a2, a3, a4⟩ := d2i_i2d_pos_aux (if x < 0 then 1 else 0) x.natAbs x.natAbs.log2 hs he h1 h2
      unfold d2i
      have htn : (UInt64.ofNat ((if x < 0 then 1 else 0) * 2 ^ 63 + (x.natAbs.log2 + 1023) * 2 ^ 52 +
          (x.natAbs * 2 ^ (52 - x.natAbs.log2) - 2 ^ 52))).toNat =
          (if x < 0 then 1 else 0) * 2 ^ 63 + (x.natAbs.log2 + 1023) * 2 ^ 52 +
          (x.natAbs * 2 ^ (52 - x.natAbs.log2) - 2 ^ 52) := by
        rw [UInt64.toNat_ofNat']
        exact Nat.mod_eq_of_lt (by simpa using a1)
      dsimp only
      rw [htn, a2, a3, a4]
      rw [if_neg (by omega), if_neg (by omega)]
      clear a1 a2 a3 a4 htn h1 h2 he hs
      by_cases hneg : x < 0
      · rw [if_pos hneg, if_pos rfl]; omega
      · rw [if_neg hneg, if_neg (by norm_num)]; omega

end Refine.Lemmas.Codec
