import Refine.Model.Shufflin
import Mathlib.Data.List.Nodup
import Mathlib.Data.List.Perm.Basic

/-!
  Lemmas for `Refine/Props/C06Shufflin.lean`, part 1: the per-rank receive loops of `ref_migrate_shufflin`
  (`recvNode`, `addGhosts`, `recvCell`) on tables whose entries agree with the new partition `P` (and, for the vertices a
  rank owns, with the payload `Y`): each loop is an "insert when the key is absent".
-/
namespace Refine.Lemmas.Shufflin
open Refine.Model.Dist Refine.Model.Shufflin
open Refine.Model.Comm (World allSome)

/-! ### insert-if-absent -/

section Ins
variable {α κ : Type} [DecidableEq κ]

/-- append `x` unless an entry with the same key is present -/
def ins (key : α → κ) (acc : List α) (x : α) : List α :=
  if key x ∈ acc.map key then acc else acc ++ [x]

theorem mem_ins (key : α → κ) (acc : List α) (x y : α) :
    y ∈ ins key acc x → y ∈ acc ∨ y = x := by
  unfold ins; split
  · intro h; exact Or.inl h
  · intro h; rcases List.mem_append.mp h with h | h
    · exact Or.inl h
    · exact Or.inr (by simpa using h)

theorem subset_ins (key : α → κ) (acc : List α) (x : α) : ∀ y ∈ acc, y ∈ ins key acc x := by
  intro y hy; unfold ins; split
  · exact hy
  · exact List.mem_append_left _ hy

theorem keys_ins (key : α → κ) (acc : List α) (x : α) (k : κ) :
    k ∈ (ins key acc x).map key ↔ k ∈ acc.map key ∨ k = key x := by
  unfold ins; split
  · rename_i h
    constructor
    · intro hk; exact Or.inl hk
    · rintro (hk | rfl)
      · exact hk
      · exact h
  · simp [List.map_append, List.mem_append]

theorem nodup_ins (key : α → κ) (acc : List α) (x : α) (h : (acc.map key).Nodup) :
    ((ins key acc x).map key).Nodup := by
  unfold ins; split
  · exact h
  · rename_i hx
    rw [List.map_append, List.nodup_append]
    refine ⟨h, by simp, ?_⟩
    intro a ha b hb
    simp at hb
    subst hb
    intro hab; exact hx (hab ▸ ha)

theorem mem_foldl_ins (key : α → κ) (xs : List α) : ∀ (acc : List α) (y : α),
    y ∈ xs.foldl (ins key) acc → y ∈ acc ∨ y ∈ xs := by
  induction xs with
  | nil => intro acc y h; exact Or.inl h
  | cons x xs ih =>
    intro acc y h
    rw [List.foldl_cons] at h
    rcases ih _ _ h with h | h
    · rcases mem_ins key acc x y h with h | h
      · exact Or.inl h
      · exact Or.inr (h ▸ List.mem_cons_self)
    · exact Or.inr (List.mem_cons_of_mem _ h)

theorem subset_foldl_ins (key : α → κ) (xs : List α) : ∀ (acc : List α), ∀ y ∈ acc, y ∈ xs.foldl (ins key) acc := by
  induction xs with
  | nil => intro acc y h; exact h
  | cons x xs ih =>
    intro acc y h
    rw [List.foldl_cons]
    exact ih _ y (subset_ins key acc x y h)

theorem keys_foldl_ins (key : α → κ) (xs : List α) : ∀ (acc : List α) (k : κ),
    k ∈ (xs.foldl (ins key) acc).map key ↔ k ∈ acc.map key ∨ k ∈ xs.map key := by
  induction xs with
  | nil => intro acc k; simp
  | cons x xs ih =>
    intro acc k
    rw [List.foldl_cons, ih, keys_ins, List.map_cons, List.mem_cons]
    tauto

theorem nodup_foldl_ins (key : α → κ) (xs : List α) : ∀ (acc : List α), (acc.map key).Nodup →
    ((xs.foldl (ins key) acc).map key).Nodup := by
  induction xs with
  | nil => intro acc h; exact h
  | cons x xs ih =>
    intro acc h
    rw [List.foldl_cons]
    exact ih _ (nodup_ins key acc x h)

theorem foldl_congr_mem {β : Type} (f g : β → α → β) (xs : List α) (Inv : β → Prop)
    (hstep : ∀ b, Inv b → ∀ x ∈ xs, f b x = g b x ∧ Inv (g b x)) :
    ∀ b, Inv b → xs.foldl f b = xs.foldl g b ∧ Inv (xs.foldl g b) := by
  induction xs with
  | nil => intro b hb; exact ⟨rfl, hb⟩
  | cons x xs ih =>
    intro b hb
    rw [List.foldl_cons, List.foldl_cons]
    obtain ⟨h1, h2⟩ := hstep b hb x List.mem_cons_self
    rw [h1]
    exact ih (fun b hb y hy => hstep b hb y (List.mem_cons_of_mem _ hy)) _ h2

end Ins

/-! ### vertex tables -/

theorem hasGlob_iff (nodes : List DNode) (g : Int) : hasGlob nodes g = true ↔ g ∈ nodes.map (·.glob) := by
  unfold hasGlob
  rw [List.any_eq_true]
  constructor
  · rintro ⟨x, hx, hg⟩
    exact List.mem_map.mpr ⟨x, hx, by simpa using hg⟩
  · intro h
    obtain ⟨x, hx, rfl⟩ := List.mem_map.mp h
    exact ⟨x, hx, by simp⟩

/-- every entry carries the new part of its global; the entries with part `me` carry the payload of their global -/
def Table (P : Int → Int) (Y : Int → List Nat) (me : Nat) (nodes : List DNode) : Prop :=
  (nodes.map (·.glob)).Nodup ∧ ∀ nd ∈ nodes, nd.part = P nd.glob ∧ (nd.part = (me : Int) → nd.payload = Y nd.glob)

/-- every entry is the canonical copy `⟨g, P g, Y g⟩` of its global -/
def Canon (P : Int → Int) (Y : Int → List Nat) (nodes : List DNode) : Prop :=
  ∀ nd ∈ nodes, nd.part = P nd.glob ∧ nd.payload = Y nd.glob

theorem find_glob {nodes : List DNode} (hnd : (nodes.map (·.glob)).Nodup) {nd : DNode} (h : nd ∈ nodes) :
    nodes.find? (fun x => x.glob == nd.glob) = some nd := by
  induction nodes with
  | nil => cases h
  | cons a rest ih =>
    rw [List.map_cons, List.nodup_cons] at hnd
    rw [List.find?_cons]
    rcases List.mem_cons.mp h with rfl | h
    · simp
    · have : (a.glob == nd.glob) = false := by
        simp only [beq_eq_false_iff_ne, ne_eq]
        intro he
        exact hnd.1 (he ▸ List.mem_map_of_mem h)
      rw [this]
      exact ih hnd.2 h

/-- `recvNode` on a canonical table, for a canonical received copy whose part is this rank: insert-if-absent -/
theorem recvNode_eq (P : Int → Int) (Y : Int → List Nat) (me : Nat) (nodes : List DNode) (nd : DNode)
    (hc : Canon P Y nodes) (hp : nd.part = (me : Int)) (hq : nd.part = P nd.glob) (hy : nd.payload = Y nd.glob) :
    recvNode me nodes nd = ins (·.glob) nodes nd := by
  unfold recvNode ins
  by_cases h : hasGlob nodes nd.glob = true
  · have h' : nd.glob ∈ nodes.map (·.glob) := (hasGlob_iff _ _).mp h
    simp only [h, if_true, h']
    conv_rhs => rw [← List.map_id nodes]
    apply List.map_congr_left
    intro x hx
    by_cases hg : (x.glob == nd.glob) = true
    · have hg' : x.glob = nd.glob := by simpa using hg
      obtain ⟨h1, h2⟩ := hc x hx
      simp only [hg, if_true, id]
      cases x with
      | mk g p y =>
        simp only [DNode.mk.injEq, true_and]
        simp only at h1 h2 hg'
        exact ⟨by rw [h1, hg', ← hq, hp], by rw [h2, hg', ← hy]⟩
    · simp [hg]
  · have h' : nd.glob ∉ nodes.map (·.glob) := fun hm => h ((hasGlob_iff _ _).mpr hm)
    simp only [h, h', if_false]
    congr 2
    cases nd with
    | mk g p y => simp only at hp; simp [hp]

theorem canon_ins (P : Int → Int) (Y : Int → List Nat) (nodes : List DNode) (nd : DNode)
    (hc : Canon P Y nodes) (hq : nd.part = P nd.glob) (hy : nd.payload = Y nd.glob) :
    Canon P Y (ins (·.glob) nodes nd) := by
  intro x hx
  rcases mem_ins _ _ _ _ hx with h | rfl
  · exact hc x h
  · exact ⟨hq, hy⟩

/-- the receive loop of `ref_migrate_shufflin_node` on a canonical table -/
theorem foldl_recvNode (P : Int → Int) (Y : Int → List Nat) (me : Nat) (rs : List DNode)
    (hrs : ∀ nd ∈ rs, nd.part = (me : Int) ∧ nd.part = P nd.glob ∧ nd.payload = Y nd.glob)
    (nodes : List DNode) (hc : Canon P Y nodes) :
    rs.foldl (recvNode me) nodes = rs.foldl (ins (·.glob)) nodes ∧ Canon P Y (rs.foldl (ins (·.glob)) nodes) :=
  foldl_congr_mem (recvNode me) (ins (·.glob)) rs (Canon P Y)
    (fun b hb x hx => ⟨recvNode_eq P Y me b x hb (hrs x hx).1 (hrs x hx).2.1 (hrs x hx).2.2,
      canon_ins P Y b x hb (hrs x hx).2.1 (hrs x hx).2.2⟩) nodes hc


/-! ### `ref_cell_add_many_global`, first loop -/

theorem table_append (P : Int → Int) (Y : Int → List Nat) (me : Nat) (nodes : List DNode) (g p : Int)
    (ht : Table P Y me nodes) (hg : g ∉ nodes.map (·.glob)) (hp : p = P g) (hne : p ≠ (me : Int)) :
    Table P Y me (nodes ++ [⟨g, p, []⟩]) := by
  refine ⟨?_, ?_⟩
  · rw [List.map_append, List.nodup_append]
    refine ⟨ht.1, by simp, ?_⟩
    intro a ha b hb
    simp at hb; subst hb
    intro hab; exact hg (hab ▸ ha)
  · intro nd hnd
    rcases List.mem_append.mp hnd with h | h
    · exact ht.2 nd h
    · simp at h; subst h
      exact ⟨hp, fun h => absurd h hne⟩

/-- one `(global, part)` pair of a received cell in the `ref_node_add_many` loop -/
def ghostStep (me : Nat) (ns : List DNode) (gp : Int × Int) : List DNode :=
  if gp.2 == (me : Int) || hasGlob ns gp.1 then ns else ns ++ [⟨gp.1, gp.2, []⟩]

theorem ghostStep_spec (P : Int → Int) (Y : Int → List Nat) (me : Nat) (ns : List DNode) (gp : Int × Int)
    (ht : Table P Y me ns) (hp : gp.2 = P gp.1) :
    Table P Y me (ghostStep me ns gp) ∧
    ∀ g, g ∈ (ghostStep me ns gp).map (·.glob) ↔ g ∈ ns.map (·.glob) ∨ (g = gp.1 ∧ gp.2 ≠ (me : Int)) := by
  unfold ghostStep
  by_cases h1 : gp.2 = (me : Int)
  · simp only [h1, beq_self_eq_true, Bool.true_or, if_true]
    exact ⟨ht, fun g => by simp⟩
  · by_cases h2 : hasGlob ns gp.1 = true
    · have h2' := (hasGlob_iff _ _).mp h2
      have hb : (gp.2 == (me : Int)) = false := by simpa using h1
      simp only [hb, h2, Bool.or_true, if_true]
      refine ⟨ht, fun g => ⟨fun h => Or.inl h, ?_⟩⟩
      rintro (h | ⟨rfl, _⟩)
      · exact h
      · exact h2'
    · have h2' : gp.1 ∉ ns.map (·.glob) := fun hm => h2 ((hasGlob_iff _ _).mpr hm)
      have hb : (gp.2 == (me : Int)) = false := by simpa using h1
      have h2f : hasGlob ns gp.1 = false := by simpa using h2
      simp only [hb, h2f, Bool.or_false, Bool.false_eq_true, if_false]
      refine ⟨table_append P Y me ns gp.1 gp.2 ht h2' hp h1, fun g => ?_⟩
      simp only [List.map_append, List.mem_append, List.map_cons, List.map_nil, List.mem_singleton]
      constructor
      · rintro (h | h)
        · exact Or.inl h
        · exact Or.inr ⟨h, h1⟩
      · rintro (h | ⟨h, _⟩)
        · exact Or.inl h
        · exact Or.inr h

/-- folding a step that keeps an invariant and adds keys described by `A` -/
theorem foldl_keys {β : Type} (step : List DNode → β → List DNode) (Inv : List DNode → Prop) (good : β → Prop)
    (A : β → Int → Prop)
    (h : ∀ ns b, Inv ns → good b → Inv (step ns b) ∧
      ∀ g, g ∈ (step ns b).map (·.glob) ↔ g ∈ ns.map (·.glob) ∨ A b g) :
    ∀ (xs : List β) (ns : List DNode), Inv ns → (∀ b ∈ xs, good b) →
      Inv (xs.foldl step ns) ∧
      ∀ g, g ∈ (xs.foldl step ns).map (·.glob) ↔ g ∈ ns.map (·.glob) ∨ ∃ b ∈ xs, A b g := by
  intro xs
  induction xs with
  | nil => intro ns hi _; exact ⟨hi, fun g => by simp⟩
  | cons x xs ih =>
    intro ns hi hg
    rw [List.foldl_cons]
    obtain ⟨h1, h2⟩ := h ns x hi (hg x List.mem_cons_self)
    obtain ⟨h3, h4⟩ := ih _ h1 (fun b hb => hg b (List.mem_cons_of_mem _ hb))
    refine ⟨h3, fun g => ?_⟩
    rw [h4, h2]
    constructor
    · rintro ((h | h) | ⟨b, hb, h⟩)
      · exact Or.inl h
      · exact Or.inr ⟨x, List.mem_cons_self, h⟩
      · exact Or.inr ⟨b, List.mem_cons_of_mem _ hb, h⟩
    · rintro (h | ⟨b, hb, h⟩)
      · exact Or.inl (Or.inl h)
      · rcases List.mem_cons.mp hb with rfl | hb
        · exact Or.inl (Or.inr h)
        · exact Or.inr ⟨b, hb, h⟩

/-- a message as a rank whose table agrees with `P` builds it -/
def MsgOk (P : Int → Int) (m : CellMsg) : Prop := m.parts = m.cell.nodes.map P

theorem addGhosts_eq (me : Nat) (nodes : List DNode) (m : CellMsg) :
    addGhosts me nodes m = (m.cell.nodes.zip m.parts).foldl (ghostStep me) nodes := rfl

theorem zip_map_self (P : Int → Int) (vs : List Int) : vs.zip (vs.map P) = vs.map fun v => (v, P v) := by
  induction vs with
  | nil => rfl
  | cons a rest ih => simp [ih]

theorem addGhosts_spec (P : Int → Int) (Y : Int → List Nat) (me : Nat) (ns : List DNode) (m : CellMsg)
    (ht : Table P Y me ns) (hm : MsgOk P m) :
    Table P Y me (addGhosts me ns m) ∧
    ∀ g, g ∈ (addGhosts me ns m).map (·.glob) ↔
      g ∈ ns.map (·.glob) ∨ (g ∈ m.cell.nodes ∧ P g ≠ (me : Int)) := by
  rw [addGhosts_eq, hm, zip_map_self]
  obtain ⟨h1, h2⟩ := foldl_keys (ghostStep me) (Table P Y me) (fun gp => gp.2 = P gp.1)
    (fun gp g => g = gp.1 ∧ gp.2 ≠ (me : Int)) (fun ns b hi hb => ghostStep_spec P Y me ns b hi hb)
    (m.cell.nodes.map fun v => (v, P v)) ns ht (by
      intro b hb; obtain ⟨v, _, rfl⟩ := List.mem_map.mp hb; rfl)
  refine ⟨h1, fun g => ?_⟩
  rw [h2]
  constructor
  · rintro (h | ⟨b, hb, rfl, hne⟩)
    · exact Or.inl h
    · obtain ⟨v, hv, rfl⟩ := List.mem_map.mp hb
      exact Or.inr ⟨hv, hne⟩
  · rintro (h | ⟨hv, hne⟩)
    · exact Or.inl h
    · exact Or.inr ⟨(g, P g), List.mem_map.mpr ⟨g, hv, rfl⟩, rfl, hne⟩

theorem foldl_addGhosts_spec (P : Int → Int) (Y : Int → List Nat) (me : Nat) (msgs : List CellMsg)
    (ns : List DNode) (ht : Table P Y me ns) (hm : ∀ m ∈ msgs, MsgOk P m) :
    Table P Y me (msgs.foldl (addGhosts me) ns) ∧
    ∀ g, g ∈ (msgs.foldl (addGhosts me) ns).map (·.glob) ↔
      g ∈ ns.map (·.glob) ∨ ∃ m ∈ msgs, g ∈ m.cell.nodes ∧ P g ≠ (me : Int) :=
  foldl_keys (addGhosts me) (Table P Y me) (MsgOk P) (fun m g => g ∈ m.cell.nodes ∧ P g ≠ (me : Int))
    (fun ns b hi hb => addGhosts_spec P Y me ns b hi hb) msgs ns ht hm

/-! ### `ref_cell_add_many_global`, second loop -/

theorem setPart_id (P : Int → Int) (nodes : List DNode) (g : Int) (h : ∀ nd ∈ nodes, nd.part = P nd.glob) :
    setPart nodes g (P g) = nodes := by
  unfold setPart
  conv_rhs => rw [← List.map_id nodes]
  apply List.map_congr_left
  intro x hx
  by_cases hg : (x.glob == g) = true
  · have hg' : x.glob = g := by simpa using hg
    simp only [hg, if_true, id]
    cases x with
    | mk a b c => simp only at hg'; simp only [DNode.mk.injEq, true_and, and_true]; have := h _ hx; simp only at this; rw [← hg', this]
  · simp [hg]

theorem foldl_setPart_id (P : Int → Int) (nodes : List DNode) (h : ∀ nd ∈ nodes, nd.part = P nd.glob)
    (vs : List Int) : (vs.zip (vs.map P)).foldl (fun ns gp => setPart ns gp.1 gp.2) nodes = nodes := by
  rw [zip_map_self]
  induction vs with
  | nil => rfl
  | cons v rest ih => rw [List.map_cons, List.foldl_cons, setPart_id P nodes v h]; exact ih

theorem sameVerts_refl (c : DCell) : sameVerts c c = true := by
  unfold sameVerts
  simp

/-- two cells of the set `S` in one group with the same vertex set are equal (what `ref_cell_with` relies on) -/
def Uniq (S : DCell → Prop) : Prop :=
  ∀ x y, S x → S y → x.group = y.group → sameVerts x y = true → x = y

theorem hasCellWith_iff (S : DCell → Prop) (hu : Uniq S) (cells : List DCell) (c : DCell)
    (hcs : ∀ x ∈ cells, S x) (hc : S c) : hasCellWith cells c = true ↔ c ∈ cells.map id := by
  unfold hasCellWith
  rw [List.any_eq_true, List.map_id]
  constructor
  · rintro ⟨x, hx, h⟩
    simp only [Bool.and_eq_true, beq_iff_eq] at h
    have := hu x c (hcs x hx) hc h.1 h.2
    exact this ▸ hx
  · intro h
    exact ⟨c, h, by simp [sameVerts_refl]⟩

theorem recvCell_eq (P : Int → Int) (S : DCell → Prop) (hu : Uniq S) (nodes : List DNode) (cells : List DCell)
    (m : CellMsg) (hparts : ∀ nd ∈ nodes, nd.part = P nd.glob) (hm : MsgOk P m)
    (hpres : ∀ v ∈ m.cell.nodes, v ∈ nodes.map (·.glob)) (hcs : ∀ x ∈ cells, S x) (hc : S m.cell) :
    recvCell (some (nodes, cells)) m = some (nodes, ins id cells m.cell) := by
  unfold recvCell
  have hall : m.cell.nodes.all (hasGlob nodes) = true := by
    rw [List.all_eq_true]; intro v hv; exact (hasGlob_iff _ _).mpr (hpres v hv)
  simp only [hall, if_true]
  rw [hm, foldl_setPart_id P nodes hparts]
  congr 2
  unfold ins
  by_cases h : hasCellWith cells m.cell = true
  · have := (hasCellWith_iff S hu cells m.cell hcs hc).mp h
    simp only [h, if_true]; rw [if_pos (by simpa using this)]
  · have h' : ¬ m.cell ∈ cells.map id := fun hm' => h ((hasCellWith_iff S hu cells m.cell hcs hc).mpr hm')
    have hf : hasCellWith cells m.cell = false := by simpa using h
    simp only [hf, Bool.false_eq_true, if_false]; rw [if_neg (by simpa using h')]

theorem foldl_recvCell (P : Int → Int) (S : DCell → Prop) (hu : Uniq S) (nodes : List DNode)
    (hparts : ∀ nd ∈ nodes, nd.part = P nd.glob) (msgs : List CellMsg)
    (hm : ∀ m ∈ msgs, MsgOk P m ∧ S m.cell ∧ ∀ v ∈ m.cell.nodes, v ∈ nodes.map (·.glob)) :
    ∀ (cells : List DCell), (∀ x ∈ cells, S x) →
      msgs.foldl recvCell (some (nodes, cells)) = some (nodes, (msgs.map (·.cell)).foldl (ins id) cells) := by
  induction msgs with
  | nil => intro cells _; rfl
  | cons m rest ih =>
    intro cells hcs
    obtain ⟨h1, h2, h3⟩ := hm m List.mem_cons_self
    rw [List.foldl_cons, recvCell_eq P S hu nodes cells m hparts h1 h3 hcs h2, List.map_cons, List.foldl_cons]
    apply ih (fun m' hm' => hm m' (List.mem_cons_of_mem _ hm'))
    intro x hx
    rcases mem_ins id cells m.cell x hx with h | rfl
    · exact hcs x h
    · exact h2

end Refine.Lemmas.Shufflin
