import Refine.Model.DistIds
import Refine.Lemmas.NodeIds
import Refine.Lemmas.Dist
import Refine.Lemmas.DistSync
import Refine.Props.C06
import Mathlib.Data.List.Nodup

/-!
  Lemmas for `Refine/Props/C06Ids.lean`: the LOCAL (unshifted) id invariant `IdInvL`, that it implies the
  invariant `IdInv` needed by `sync_bijection`, that the four local operations of `Refine.Model.DistIds` preserve
  it on any rank, and that `syncGlobals` re-establishes it.
-/
namespace Refine.Lemmas.DistIds
open Refine.Model.Dist Refine.Model.NodeIds Refine.Model.DistIds Refine.Lemmas.Dist Refine.Lemmas.DistSync
open Refine.Model.Comm (World)

/-! ## the local id invariant -/

/-- the unused ids of rank `r` (`[]` for a rank out of range) -/
def _root_.Refine.Lemmas.Dist.IdWorld.unusedOf (w : IdWorld) (r : Nat) : List Int := w.unused.getD r []

/-- The id invariant in LOCAL (unshifted) ids, the Lean form of `id_invariant` in `checks/streams_dist.py`:
    per rank the live ids and the unused ids are duplicate-free, disjoint, inside `[0, old + k_r)` and cover the
    rank's fresh interval `[old, old + k_r)`; every shared id in `[0, old)` is live on at least one rank or sits in
    exactly one rank's unused list, never both. -/
structure IdInvL (A : IdWorld) : Prop where
  old_nonneg : 0 ≤ A.old
  len_live : A.live.length = A.k.length
  len_unused : A.unused.length = A.k.length
  live_nodup : ∀ r, (A.liveOf r).Nodup
  unused_nodup : ∀ r, (A.unusedOf r).Nodup
  disj : ∀ r g, g ∈ A.liveOf r → g ∉ A.unusedOf r
  live_range : ∀ r g, g ∈ A.liveOf r → 0 ≤ g ∧ g < A.old + (A.kOf r : Nat)
  unused_range : ∀ r g, g ∈ A.unusedOf r → 0 ≤ g ∧ g < A.old + (A.kOf r : Nat)
  fresh_cov : ∀ r g, A.old ≤ g → g < A.old + (A.kOf r : Nat) → g ∈ A.liveOf r ∨ g ∈ A.unusedOf r
  old_cov : ∀ g, 0 ≤ g → g < A.old → (∃ r, g ∈ A.liveOf r) ∨ (∃ r, g ∈ A.unusedOf r)
  old_excl : ∀ g r q, g < A.old → g ∈ A.unusedOf r → g ∉ A.liveOf q
  old_uniq : ∀ g r q, g < A.old → g ∈ A.unusedOf r → g ∈ A.unusedOf q → r = q

theorem mem_shiftedUnused (A : IdWorld) (u : Int) :
    u ∈ A.shiftedUnused ↔ ∃ r g, g ∈ A.unusedOf r ∧ shiftId A.old (A.off r) g = u := by
  unfold IdWorld.shiftedUnused IdWorld.unusedOf
  simp only [List.mem_flatten, List.mem_mapIdx]
  constructor
  · rintro ⟨l, ⟨i, hi, rfl⟩, hu⟩
    obtain ⟨g, hg, rfl⟩ := List.mem_map.1 hu
    exact ⟨i, g, by simpa [List.getD_eq_getElem?_getD, hi] using hg, rfl⟩
  · rintro ⟨r, g, hg, rfl⟩
    by_cases hr : r < A.unused.length
    · refine ⟨_, ⟨r, hr, rfl⟩, List.mem_map.2 ⟨g, ?_, rfl⟩⟩
      simpa [List.getD_eq_getElem?_getD, hr] using hg
    · simp [List.getD_eq_getElem?_getD, List.getElem?_eq_none (Nat.le_of_not_gt hr)] at hg

theorem nodup_flatten_of_getElem {α : Type} (L : List (List α)) (h1 : ∀ i (h : i < L.length), (L[i]).Nodup)
    (h2 : ∀ i j (hi : i < L.length) (hj : j < L.length), i < j → ∀ x ∈ L[i], x ∉ L[j]) :
    L.flatten.Nodup := by
  rw [List.nodup_flatten]
  refine ⟨fun l hl => ?_, ?_⟩
  · obtain ⟨i, hi, rfl⟩ := List.mem_iff_getElem.1 hl
    exact h1 i hi
  · rw [List.pairwise_iff_getElem]
    intro i j hi hj hij x hx hx'
    exact h2 i j hi hj hij x hx hx'

/-- prefix sums of the fresh-id counts -/
def pre (k : List Nat) (r : Nat) : Nat := ((List.range r).map fun q => k.getD q 0).sum

theorem pre_succ (k : List Nat) (m : Nat) : pre k (m + 1) = pre k m + k.getD m 0 := by
  simp [pre, List.range_succ]

theorem exists_block (k : List Nat) : ∀ m n, n < pre k m → ∃ r, pre k r ≤ n ∧ n < pre k r + k.getD r 0 := by
  intro m
  induction m with
  | zero => intro n h; simp [pre] at h
  | succ m ih =>
    intro n h
    rw [pre_succ] at h
    by_cases h' : n < pre k m
    · exact ih n h'
    · exact ⟨m, by omega, by omega⟩

theorem pre_length (k : List Nat) : pre k k.length = k.sum := by
  unfold pre
  rw [range_getD_sum, List.take_length]

theorem off_eq_pre (A : IdWorld) (r : Nat) : A.off r = ((pre A.k r : Nat) : Int) := rfl

theorem shiftId_injective (old off : Int) (hoff : 0 ≤ off) {g g' : Int}
    (h : shiftId old off g = shiftId old off g') : g = g' := by
  rcases lt_trichotomy g g' with hlt | heq | hgt
  · have := shiftId_strictMono old off hoff g g' hlt; omega
  · exact heq
  · have := shiftId_strictMono old off hoff g' g hgt; omega

/-- two local ids whose shifted values coincide are the same number, and either a shared id or on the same rank -/
theorem shift_eq_cases (A : IdWorld) (r q : Nat) (g g' : Int) (hg : g < A.old + (A.kOf r : Nat))
    (hg' : g' < A.old + (A.kOf q : Nat))
    (heq : shiftId A.old (A.off r) g = shiftId A.old (A.off q) g') : g = g' ∧ (g < A.old ∨ r = q) := by
  have hr := off_nonneg A r
  have hq := off_nonneg A q
  by_cases h1 : g ≥ A.old
  · by_cases h2 : g' ≥ A.old
    · rcases Nat.lt_trichotomy r q with hlt | he | hgt
      · have := shift_disjoint A.old A.kOf r q hlt g g' ⟨h1, hg⟩ ⟨h2, hg'⟩
        have e1 : A.off r = (((List.range r).map A.kOf).sum : Nat) := rfl
        have e2 : A.off q = (((List.range q).map A.kOf).sum : Nat) := rfl
        rw [← e1, ← e2] at this
        omega
      · subst he
        exact ⟨shiftId_injective _ _ hr heq, Or.inr rfl⟩
      · have := shift_disjoint A.old A.kOf q r hgt g' g ⟨h2, hg'⟩ ⟨h1, hg⟩
        have e1 : A.off r = (((List.range r).map A.kOf).sum : Nat) := rfl
        have e2 : A.off q = (((List.range q).map A.kOf).sum : Nat) := rfl
        rw [← e1, ← e2] at this
        omega
    · simp only [shiftId, h1, h2, if_true, if_false] at heq; omega
  · by_cases h2 : g' ≥ A.old
    · simp only [shiftId, h1, h2, if_true, if_false] at heq; omega
    · simp only [shiftId, h1, h2, if_false] at heq
      exact ⟨heq, Or.inl (by omega)⟩

/-- **`IdInvL → IdInv`**: the local invariant gives the (shifted) invariant `sync_bijection` needs: the shifted
    fresh intervals `[old + off r, old + off r + k_r)` are pairwise disjoint and cover `[old, M)`. -/
theorem IdInvL.toIdInv {A : IdWorld} (h : IdInvL A) : IdInv A := by
  have hmem := mem_shiftedUnused A
  refine ⟨h.old_nonneg, h.live_range, ?_, ?_, ?_, ?_⟩
  · -- the shifted unused ids are pairwise distinct
    unfold IdWorld.shiftedUnused
    apply nodup_flatten_of_getElem
    · intro i hi
      simp only [List.getElem_mapIdx]
      have hi' : i < A.unused.length := by simpa using hi
      have hn := h.unused_nodup i
      simp only [IdWorld.unusedOf, List.getD_eq_getElem?_getD, List.getElem?_eq_getElem hi',
        Option.getD_some] at hn
      exact hn.map_on fun x _ y _ hxy => shiftId_injective _ _ (off_nonneg A i) hxy
    · intro i j hi hj hij x hx hx'
      have hi' : i < A.unused.length := by simpa using hi
      have hj' : j < A.unused.length := by simpa using hj
      simp only [List.getElem_mapIdx] at hx hx'
      obtain ⟨g, hg, rfl⟩ := List.mem_map.1 hx
      obtain ⟨g', hg', he⟩ := List.mem_map.1 hx'
      have hgu : g ∈ A.unusedOf i := by
        simpa [IdWorld.unusedOf, List.getD_eq_getElem?_getD, hi'] using hg
      have hgu' : g' ∈ A.unusedOf j := by
        simpa [IdWorld.unusedOf, List.getD_eq_getElem?_getD, hj'] using hg'
      obtain ⟨hgg, hc⟩ := shift_eq_cases A j i g' g (h.unused_range j g' hgu').2 (h.unused_range i g hgu).2 he
      subst hgg
      rcases hc with hc | hc
      · have := h.old_uniq g' i j hc hgu hgu'; omega
      · omega
  · intro u hu
    obtain ⟨r, g, hg, rfl⟩ := (hmem u).1 hu
    have h1 := h.unused_range r g hg
    have h2 := off_add_le A r
    have h3 := off_nonneg A r
    have h4 := h.old_nonneg
    unfold shiftId IdWorld.M
    split <;> constructor <;> omega
  · intro r g hg hu
    obtain ⟨q, g', hg', he⟩ := (hmem _).1 hu
    obtain ⟨hgg, hc⟩ := shift_eq_cases A q r g' g (h.unused_range q g' hg').2 (h.live_range r g hg).2 he
    subst hgg
    rcases hc with hc | hc
    · exact h.old_excl g' q r hc hg' hg
    · subst hc; exact h.disj q g' hg hg'
  · intro x hx0 hxM hxU
    by_cases hlo : x < A.old
    · rcases h.old_cov x hx0 hlo with ⟨r, hr⟩ | ⟨r, hr⟩
      · exact ⟨r, x, hr, by simp [shiftId]; omega⟩
      · exfalso
        exact hxU ((hmem x).2 ⟨r, x, hr, by simp [shiftId]; omega⟩)
    · have hn : (x - A.old).toNat < pre A.k A.k.length := by
        rw [pre_length]
        unfold IdWorld.M at hxM
        omega
      obtain ⟨r, hr1, hr2⟩ := exists_block A.k _ _ hn
      have hoff := off_eq_pre A r
      have hk : A.kOf r = A.k.getD r 0 := rfl
      have hsh : shiftId A.old (A.off r) (x - A.off r) = x := by
        unfold shiftId
        have : x - A.off r ≥ A.old := by omega
        simp only [this, if_true]; omega
      rcases h.fresh_cov r (x - A.off r) (by omega) (by omega) with hl | hu
      · exact ⟨r, _, hl, hsh⟩
      · exfalso
        exact hxU ((hmem x).2 ⟨r, _, hu, hsh⟩)

/-! ## a rank-local change of an `IdWorld` -/

/-- If `A'` differs from `A` on rank `r` only, `IdInvL A'` follows from `IdInvL A` and the obligations on rank `r`:
    the per-rank clauses for the new lists, every shared id that rank `r` held (live or unused) is still held by
    rank `r` or live elsewhere, a shared id in the new unused list of `r` is held by nobody else, and a shared id
    in the new live list of `r` is in nobody else's unused list. -/
theorem IdInvL.update {A A' : IdWorld} (h : IdInvL A) (r : Nat)
    (hold : A'.old = A.old) (hlk : A'.live.length = A'.k.length) (hlu : A'.unused.length = A'.k.length)
    (hoL : ∀ q, q ≠ r → A'.liveOf q = A.liveOf q) (hoU : ∀ q, q ≠ r → A'.unusedOf q = A.unusedOf q)
    (hoK : ∀ q, q ≠ r → A'.kOf q = A.kOf q)
    (nodupL : (A'.liveOf r).Nodup) (nodupU : (A'.unusedOf r).Nodup)
    (disj : ∀ g, g ∈ A'.liveOf r → g ∉ A'.unusedOf r)
    (rangeL : ∀ g, g ∈ A'.liveOf r → 0 ≤ g ∧ g < A.old + (A'.kOf r : Nat))
    (rangeU : ∀ g, g ∈ A'.unusedOf r → 0 ≤ g ∧ g < A.old + (A'.kOf r : Nat))
    (fresh : ∀ g, A.old ≤ g → g < A.old + (A'.kOf r : Nat) → g ∈ A'.liveOf r ∨ g ∈ A'.unusedOf r)
    (cov : ∀ g, 0 ≤ g → g < A.old → (g ∈ A.liveOf r ∨ g ∈ A.unusedOf r) →
      g ∈ A'.liveOf r ∨ g ∈ A'.unusedOf r ∨ ∃ q, q ≠ r ∧ g ∈ A.liveOf q)
    (exclU : ∀ g, g < A.old → g ∈ A'.unusedOf r → ∀ q, q ≠ r → g ∉ A.liveOf q ∧ g ∉ A.unusedOf q)
    (exclL : ∀ g, g < A.old → g ∈ A'.liveOf r → ∀ q, q ≠ r → g ∉ A.unusedOf q) : IdInvL A' := by
  refine ⟨by rw [hold]; exact h.old_nonneg, hlk, hlu, ?_, ?_, ?_, ?_, ?_, ?_, ?_, ?_, ?_⟩
  · intro q
    by_cases hq : q = r
    · subst hq; exact nodupL
    · rw [hoL q hq]; exact h.live_nodup q
  · intro q
    by_cases hq : q = r
    · subst hq; exact nodupU
    · rw [hoU q hq]; exact h.unused_nodup q
  · intro q g
    by_cases hq : q = r
    · subst hq; exact disj g
    · rw [hoL q hq, hoU q hq]; exact h.disj q g
  · intro q g
    by_cases hq : q = r
    · subst hq; rw [hold]; exact rangeL g
    · rw [hoL q hq, hoK q hq, hold]; exact h.live_range q g
  · intro q g
    by_cases hq : q = r
    · subst hq; rw [hold]; exact rangeU g
    · rw [hoU q hq, hoK q hq, hold]; exact h.unused_range q g
  · intro q g
    by_cases hq : q = r
    · subst hq; rw [hold]; exact fresh g
    · rw [hoL q hq, hoU q hq, hoK q hq, hold]; exact h.fresh_cov q g
  · intro g h0 hlt
    rw [hold] at hlt
    have key : ∀ q, (g ∈ A.liveOf q ∨ g ∈ A.unusedOf q) → (∃ q, g ∈ A'.liveOf q) ∨ (∃ q, g ∈ A'.unusedOf q) := by
      intro q hq
      by_cases hqr : q = r
      · subst hqr
        rcases cov g h0 hlt hq with h1 | h1 | ⟨p, hp, h1⟩
        · exact Or.inl ⟨q, h1⟩
        · exact Or.inr ⟨q, h1⟩
        · exact Or.inl ⟨p, by rw [hoL p hp]; exact h1⟩
      · rcases hq with h1 | h1
        · exact Or.inl ⟨q, by rw [hoL q hqr]; exact h1⟩
        · exact Or.inr ⟨q, by rw [hoU q hqr]; exact h1⟩
    rcases h.old_cov g h0 hlt with ⟨q, hq⟩ | ⟨q, hq⟩
    · exact key q (Or.inl hq)
    · exact key q (Or.inr hq)
  · intro g p q hlt hu hl
    rw [hold] at hlt
    by_cases hp : p = r
    · subst hp
      by_cases hq : q = p
      · subst hq; exact disj g hl hu
      · rw [hoL q hq] at hl
        exact (exclU g hlt hu q hq).1 hl
    · rw [hoU p hp] at hu
      by_cases hq : q = r
      · subst hq
        exact exclL g hlt hl p hp hu
      · rw [hoL q hq] at hl
        exact h.old_excl g p q hlt hu hl
  · intro g p q hlt hu hu'
    rw [hold] at hlt
    by_cases hp : p = r
    · by_cases hq : q = r
      · rw [hp, hq]
      · subst hp
        rw [hoU q hq] at hu'
        exact absurd hu' (exclU g hlt hu q hq).2
    · by_cases hq : q = r
      · subst hq
        rw [hoU p hp] at hu
        exact absurd hu (exclU g hlt hu' p hp).2
      · rw [hoU p hp] at hu
        rw [hoU q hq] at hu'
        exact h.old_uniq g p q hlt hu hu'

/-! ## accessors of `absWorld` -/

theorem mem_unusedArr (s : NodeIds) (g : Int) : g ∈ unusedArr s ↔ g ∈ s.unusedStk := by
  simp [unusedArr]

theorem liveOf_abs_some {old : Int} {w : World NodeIds} {q : Nat} {s : NodeIds} (h : w[q]? = some s) :
    (absWorld old w).liveOf q = s.keys := by
  simp [IdWorld.liveOf, absWorld, List.getD_eq_getElem?_getD, List.getElem?_map, h]

theorem liveOf_abs_none {old : Int} {w : World NodeIds} {q : Nat} (h : w[q]? = none) :
    (absWorld old w).liveOf q = [] := by
  simp [IdWorld.liveOf, absWorld, List.getD_eq_getElem?_getD, List.getElem?_map, h]

theorem unusedOf_abs_some {old : Int} {w : World NodeIds} {q : Nat} {s : NodeIds} (h : w[q]? = some s) :
    (absWorld old w).unusedOf q = unusedArr s := by
  simp [IdWorld.unusedOf, absWorld, List.getD_eq_getElem?_getD, List.getElem?_map, h]

theorem unusedOf_abs_none {old : Int} {w : World NodeIds} {q : Nat} (h : w[q]? = none) :
    (absWorld old w).unusedOf q = [] := by
  simp [IdWorld.unusedOf, absWorld, List.getD_eq_getElem?_getD, List.getElem?_map, h]

theorem kOf_abs_some {old : Int} {w : World NodeIds} {q : Nat} {s : NodeIds} (h : w[q]? = some s) :
    (absWorld old w).kOf q = (newNodes s).toNat := by
  simp [IdWorld.kOf, absWorld, List.getD_eq_getElem?_getD, List.getElem?_map, h]

theorem kOf_abs_none {old : Int} {w : World NodeIds} {q : Nat} (h : w[q]? = none) :
    (absWorld old w).kOf q = 0 := by
  simp [IdWorld.kOf, absWorld, List.getD_eq_getElem?_getD, List.getElem?_map, h]

theorem getElem?_set_ne' {w : World NodeIds} {r q : Nat} (s' : NodeIds) (h : q ≠ r) :
    (w.set r s')[q]? = w[q]? := by
  rw [List.getElem?_set]; simp [Ne.symm h]

theorem getElem?_set_self' {w : World NodeIds} {r : Nat} (s' : NodeIds) (h : r < w.length) :
    (w.set r s')[r]? = some s' := by
  rw [List.getElem?_set]; simp [h]

/-- what `IdInvL (absWorld old w)` says about one rank, in terms of the fields of its `NodeIds` -/
theorem rank_facts {old : Int} {w : World NodeIds} (hI : IdInvL (absWorld old w)) {r : Nat} {s : NodeIds}
    (hr : w[r]? = some s) (ho : s.oldN = old) (hn : old ≤ s.newN) :
    s.unusedStk.Nodup ∧ (∀ g, g ∈ s.keys → g ∉ s.unusedStk) ∧ (∀ g, g ∈ s.keys → 0 ≤ g ∧ g < s.newN) ∧
    (∀ g, g ∈ s.unusedStk → 0 ≤ g ∧ g < s.newN) ∧
    (∀ g, old ≤ g → g < s.newN → g ∈ s.keys ∨ g ∈ s.unusedStk) := by
  have hk : (absWorld old w).old + (((absWorld old w).kOf r : Nat) : Int) = s.newN := by
    rw [kOf_abs_some hr]
    show old + _ = _
    unfold newNodes
    omega
  have h1 := hI.unused_nodup r
  have h2 := hI.disj r
  have h3 := hI.live_range r
  have h4 := hI.unused_range r
  have h5 := hI.fresh_cov r
  rw [hk] at h3 h4 h5
  rw [unusedOf_abs_some hr] at h1 h2 h4 h5
  rw [liveOf_abs_some hr] at h2 h3 h5
  refine ⟨?_, ?_, h3, ?_, ?_⟩
  · simpa [unusedArr] using h1
  · intro g hg; have := h2 g hg; simpa [mem_unusedArr] using this
  · intro g hg; exact h4 g ((mem_unusedArr s g).2 hg)
  · intro g hg1 hg2
    rcases h5 g hg1 hg2 with h | h
    · exact Or.inl h
    · exact Or.inr ((mem_unusedArr s g).1 h)

/-- the world-level form of `IdInvL.update`: rank `r` of `w` is replaced by `s'` -/
theorem absWorld_update {old : Int} {w : World NodeIds} (hI : IdInvL (absWorld old w)) {r : Nat} {s : NodeIds}
    (hr : w[r]? = some s) (s' : NodeIds) (hn' : old ≤ s'.newN) (ho' : s'.oldN = old)
    (nodupL : s'.keys.Nodup) (nodupU : s'.unusedStk.Nodup)
    (disj : ∀ g, g ∈ s'.keys → g ∉ s'.unusedStk)
    (rangeL : ∀ g, g ∈ s'.keys → 0 ≤ g ∧ g < s'.newN)
    (rangeU : ∀ g, g ∈ s'.unusedStk → 0 ≤ g ∧ g < s'.newN)
    (fresh : ∀ g, old ≤ g → g < s'.newN → g ∈ s'.keys ∨ g ∈ s'.unusedStk)
    (cov : ∀ g, 0 ≤ g → g < old → (g ∈ s.keys ∨ g ∈ s.unusedStk) →
      g ∈ s'.keys ∨ g ∈ s'.unusedStk ∨ ∃ q, q ≠ r ∧ g ∈ (absWorld old w).liveOf q)
    (exclU : ∀ g, g < old → g ∈ s'.unusedStk → ∀ q, q ≠ r →
      g ∉ (absWorld old w).liveOf q ∧ g ∉ (absWorld old w).unusedOf q)
    (exclL : ∀ g, g < old → g ∈ s'.keys → ∀ q, q ≠ r → g ∉ (absWorld old w).unusedOf q) :
    IdInvL (absWorld old (w.set r s')) := by
  have hrl : r < w.length := by
    rcases List.getElem?_eq_some_iff.1 hr with ⟨h, _⟩; exact h
  have hself := getElem?_set_self' (w := w) s' hrl
  have hk : old + ((((absWorld old (w.set r s')).kOf r : Nat)) : Int) = s'.newN := by
    rw [kOf_abs_some hself]
    unfold newNodes
    omega
  have hAold : (absWorld old w).old = old := rfl
  apply IdInvL.update (A' := absWorld old (w.set r s')) hI r rfl (by simp [absWorld]) (by simp [absWorld])
  · intro q hq
    cases hw : w[q]? with
    | none => rw [liveOf_abs_none hw, liveOf_abs_none (by rw [getElem?_set_ne' s' hq]; exact hw)]
    | some t => rw [liveOf_abs_some hw, liveOf_abs_some (by rw [getElem?_set_ne' s' hq]; exact hw)]
  · intro q hq
    cases hw : w[q]? with
    | none => rw [unusedOf_abs_none hw, unusedOf_abs_none (by rw [getElem?_set_ne' s' hq]; exact hw)]
    | some t => rw [unusedOf_abs_some hw, unusedOf_abs_some (by rw [getElem?_set_ne' s' hq]; exact hw)]
  · intro q hq
    cases hw : w[q]? with
    | none => rw [kOf_abs_none hw, kOf_abs_none (by rw [getElem?_set_ne' s' hq]; exact hw)]
    | some t => rw [kOf_abs_some hw, kOf_abs_some (by rw [getElem?_set_ne' s' hq]; exact hw)]
  · rw [liveOf_abs_some hself]; exact nodupL
  · rw [unusedOf_abs_some hself]; simpa [unusedArr] using nodupU
  · rw [liveOf_abs_some hself, unusedOf_abs_some hself]
    intro g hg; rw [mem_unusedArr]; exact disj g hg
  · rw [liveOf_abs_some hself, hAold, hk]; exact rangeL
  · rw [unusedOf_abs_some hself, hAold, hk]
    intro g hg; exact rangeU g ((mem_unusedArr _ _).1 hg)
  · rw [liveOf_abs_some hself, unusedOf_abs_some hself, hAold, hk]
    intro g h1 h2
    rcases fresh g h1 h2 with h | h
    · exact Or.inl h
    · exact Or.inr ((mem_unusedArr _ _).2 h)
  · rw [liveOf_abs_some hself, unusedOf_abs_some hself, liveOf_abs_some hr, unusedOf_abs_some hr, hAold]
    intro g h0 h1 h2
    rw [mem_unusedArr] at h2 ⊢
    exact cov g h0 h1 h2
  · rw [unusedOf_abs_some hself, hAold]
    intro g h1 h2
    exact exclU g h1 ((mem_unusedArr _ _).1 h2)
  · rw [liveOf_abs_some hself, hAold]
    exact exclL

/-! ## per-rank facts about the literal `NodeIds` functions -/

theorem keys_nodup {s : NodeIds} (h : NodeInv s) : s.keys.Nodup :=
  h.srt.sorted.imp fun hab => Int.ne_of_lt hab

theorem mem_keys_iff_live {s : NodeIds} (h : NodeInv s) {g : Int} : g ∈ s.keys ↔ s.liveSlot g ≠ none := by
  rw [mem_keys_iff h]
  constructor
  · rintro ⟨v, hv⟩ hn
    rw [(liveSlot_eq_some_iff h).2 hv] at hn
    cases hn
  · intro hn
    cases hl : s.liveSlot g with
    | none => exact absurd hl hn
    | some v => exact ⟨v, (liveSlot_eq_some_iff h).1 hl⟩

theorem add_keys {s : NodeIds} (h : NodeInv s) {g : Int} (hg : 0 ≤ g) (x : Int) :
    x ∈ (s.add g).2.2.keys ↔ x = g ∨ x ∈ s.keys := by
  rw [mem_keys_iff_live (add_NodeInv h hg).2, add_live h hg, mem_keys_iff_live h]
  split
  · rename_i hx; simp [hx]
  · rename_i hx; simp [hx]

theorem add_fields (s : NodeIds) (g : Int) :
    (s.add g).2.2.unusedStk = s.unusedStk ∧ (s.add g).2.2.newN = s.newN ∧ (s.add g).2.2.oldN = s.oldN := by
  by_cases hg : g < 0
  · rw [Refine.Model.NodeIds.add_neg hg]; exact ⟨rfl, rfl, rfl⟩
  · have hg' : 0 ≤ g := by omega
    cases hm : NodeIds.searchGlob s.keys g with
    | some loc => rw [add_hit hg' hm]; exact ⟨rfl, rfl, rfl⟩
    | none => rw [add_miss hg' hm]; simp

theorem remove_keys {s : NodeIds} (h : NodeInv s) {node : Int} (hv : s.validSlot node = true) (x : Int) :
    x ∈ (s.remove node).2.keys ↔ x ≠ s.global.getD node.toNat (-1) ∧ x ∈ s.keys := by
  rw [mem_keys_iff_live (remove_NodeInv h hv).2, remove_live h hv, mem_keys_iff_live h]
  split
  · rename_i hx; exact ⟨fun h => absurd rfl h, fun h => absurd hx h.1⟩
  · rename_i hx; exact ⟨fun h => ⟨hx, h⟩, fun h => h.2⟩

theorem rwg_fields {s : NodeIds} (h : NodeInv s) {node : Int} (hv : s.validSlot node = true) :
    (s.removeWithoutGlobal node).2.global = s.global.set node.toNat s.blank ∧
    (s.removeWithoutGlobal node).2.unusedStk = s.unusedStk ∧
    (s.removeWithoutGlobal node).2.newN = s.newN ∧ (s.removeWithoutGlobal node).2.oldN = s.oldN := by
  obtain ⟨_, hv2⟩ := validSlot_iff.1 hv
  obtain ⟨loc, hloc, _, _⟩ := search_valid h hv2
  rw [removeWithoutGlobal_eq hv hloc]
  simp [NodeIds.freeSlot]

theorem rwg_keys {s : NodeIds} (h : NodeInv s) {node : Int} (hv : s.validSlot node = true) (x : Int) :
    x ∈ (s.removeWithoutGlobal node).2.keys ↔ x ≠ s.global.getD node.toNat (-1) ∧ x ∈ s.keys := by
  obtain ⟨_, hv2⟩ := validSlot_iff.1 hv
  have h' := (removeWithoutGlobal_NodeInv h hv).2
  rw [mem_keys_iff_live h', freed_live h h' hv2 (rwg_fields h hv).1 x, mem_keys_iff_live h]
  split
  · rename_i hx; exact ⟨fun h => absurd rfl h, fun h => absurd hx h.1⟩
  · rename_i hx; exact ⟨fun h => ⟨hx, h⟩, fun h => h.2⟩

theorem globalOf_valid {s : NodeIds} {node : Int} (hv : s.validSlot node = true) :
    s.globalOf node = s.global.getD node.toNat (-1) := by
  simp [NodeIds.globalOf, hv]

theorem slot_mem_keys {s : NodeIds} (h : NodeInv s) {node : Int} (hv : s.validSlot node = true) :
    s.global.getD node.toNat (-1) ∈ s.keys :=
  (mem_keys_iff h).2 ⟨node.toNat, (validSlot_iff.1 hv).2, rfl⟩

theorem nextGlobal_nil' {s : NodeIds} (hu : s.unusedStk = []) (hn : s.newN ≠ -1) :
    s.nextGlobal = (.ok, s.newN, { s with newN := s.newN + 1 }) := by
  rw [nextGlobal_nil hu]
  simp [NodeIds.effNew, hn]

/-! ## the concrete invariant and the local steps -/

/-- the invariant carried along a history, for a given `old_n_global` -/
def WorldInvAt (old : Int) (w : World NodeIds) : Prop :=
  (∀ s ∈ w, s.oldN = old ∧ old ≤ s.newN ∧ NodeInv s) ∧ IdInvL (absWorld old w)

/-- **the invariant carried along a history**: every rank has the same `old_n_global = old ≤ new_n_global` and
    satisfies the `ref_node` structure invariant `NodeInv`; the abstraction of the world (fresh-id counts, live
    ids = `sorted_global`, unused ids) satisfies the local id invariant `IdInvL`. -/
def WorldInv (w : World NodeIds) : Prop := ∃ old, WorldInvAt old w

theorem getElem?_mem' {w : World NodeIds} {r : Nat} {s : NodeIds} (h : w[r]? = some s) : s ∈ w := by
  rcases List.getElem?_eq_some_iff.1 h with ⟨hl, rfl⟩
  exact List.getElem_mem hl

/-- shared ids in the unused list of rank `r` are held by nobody else -/
theorem othersU {old : Int} {w : World NodeIds} (hI : IdInvL (absWorld old w)) {r : Nat} {s : NodeIds}
    (hr : w[r]? = some s) (x : Int) (hlt : x < old) (hx : x ∈ s.unusedStk) (q : Nat) (hq : q ≠ r) :
    x ∉ (absWorld old w).liveOf q ∧ x ∉ (absWorld old w).unusedOf q := by
  have hxu : x ∈ (absWorld old w).unusedOf r := by
    rw [unusedOf_abs_some hr, mem_unusedArr]; exact hx
  exact ⟨hI.old_excl x r q hlt hxu, fun hx' => hq (hI.old_uniq x r q hlt hxu hx').symm⟩

/-- shared ids live on rank `r` are in nobody's unused list -/
theorem othersL {old : Int} {w : World NodeIds} (hI : IdInvL (absWorld old w)) {r : Nat} {s : NodeIds}
    (hr : w[r]? = some s) (x : Int) (hlt : x < old) (hx : x ∈ s.keys) (q : Nat) :
    x ∉ (absWorld old w).unusedOf q := by
  have hxl : x ∈ (absWorld old w).liveOf r := by rw [liveOf_abs_some hr]; exact hx
  exact fun hx' => hI.old_excl x q r hlt hx' hxl

theorem WorldInvAt_set {old : Int} {w : World NodeIds} (h : WorldInvAt old w) {r : Nat} (s' : NodeIds)
    (hN : NodeInv s') (ho' : s'.oldN = old) (hn' : old ≤ s'.newN)
    (hI' : IdInvL (absWorld old (w.set r s'))) : WorldInvAt old (w.set r s') := by
  refine ⟨?_, hI'⟩
  intro t ht
  rcases List.mem_or_eq_of_mem_set ht with ht | rfl
  · exact h.1 t ht
  · exact ⟨ho', hn', hN⟩

/-- `ref_node_next_global` then `ref_node_add` of the returned id on rank `r`: both calls succeed, the invariant is
    preserved, the returned slot is valid and holds the returned id, and if that id is a shared one nobody else
    has it live (it came from this rank's unused list). -/
theorem addFresh_core {old : Int} {w : World NodeIds} (h : WorldInvAt old w) {r : Nat} {s : NodeIds}
    (hr : w[r]? = some s) :
    s.nextGlobal.1 = .ok ∧ (s.nextGlobal.2.2.add s.nextGlobal.2.1).1 = .ok ∧
    WorldInvAt old (w.set r (s.nextGlobal.2.2.add s.nextGlobal.2.1).2.2) ∧
    (s.nextGlobal.2.2.add s.nextGlobal.2.1).2.2.validSlot ((s.nextGlobal.2.2.add s.nextGlobal.2.1).2.1 : Int) = true ∧
    (s.nextGlobal.2.2.add s.nextGlobal.2.1).2.2.global.getD (s.nextGlobal.2.2.add s.nextGlobal.2.1).2.1 (-1)
      = s.nextGlobal.2.1 ∧
    (s.nextGlobal.2.1 < old → ∀ q, q ≠ r → s.nextGlobal.2.1 ∉ (absWorld old w).liveOf q) := by
  obtain ⟨ho, hn, hN⟩ := h.1 s (getElem?_mem' hr)
  have hI := h.2
  have hold0 : 0 ≤ old := hI.old_nonneg
  obtain ⟨hU, hD, hRL, hRU, hF⟩ := rank_facts hI hr ho hn
  -- the slot facts, once `NodeInv` of the pre-`add` state and `0 ≤ g` are known
  have slot : ∀ (s1 : NodeIds) (g : Int), NodeInv s1 → 0 ≤ g →
      (s1.add g).2.2.validSlot ((s1.add g).2.1 : Int) = true ∧
      (s1.add g).2.2.global.getD (s1.add g).2.1 (-1) = g := by
    intro s1 g h1 hg
    have hl := add_live h1 hg g
    rw [if_pos rfl] at hl
    have := (liveSlot_eq_some_iff (add_NodeInv h1 hg).2).1 hl
    exact ⟨validSlot_of_getD (by rw [this.2]; exact hg), this.2⟩
  cases hu : s.unusedStk with
  | cons g rest =>
    rw [nextGlobal_cons hu]
    simp only []
    rw [hu] at hU hD hRU hF
    have h1 : NodeInv { s with unusedStk := rest } := hN.congr rfl rfl rfl rfl
    have hg0 : 0 ≤ g := (hRU g (by simp)).1
    have hK := add_keys h1 hg0
    obtain ⟨fU, fN, fO⟩ := add_fields { s with unusedStk := rest } g
    have hN' := (add_NodeInv h1 hg0)
    have hgu : g ∈ s.unusedStk := by rw [hu]; simp
    refine ⟨by trivial, hN'.1, ?_, (slot _ g h1 hg0).1, (slot _ g h1 hg0).2, ?_⟩
    · apply WorldInvAt_set h _ hN'.2 (by rw [fO]; exact ho) (by rw [fN]; exact hn)
      apply absWorld_update hI hr _ (by rw [fN]; exact hn) (by rw [fO]; exact ho) (keys_nodup hN'.2)
      · rw [fU]; exact (List.nodup_cons.1 hU).2
      · intro x hx
        rw [fU]
        rcases (hK x).1 hx with rfl | hx
        · exact (List.nodup_cons.1 hU).1
        · exact fun hm => hD x hx (List.mem_cons_of_mem _ hm)
      · intro x hx
        rw [fN]
        rcases (hK x).1 hx with rfl | hx
        · exact hRU x (by simp)
        · exact hRL x hx
      · intro x hx
        rw [fU] at hx; rw [fN]
        exact hRU x (List.mem_cons_of_mem _ hx)
      · intro x hx1 hx2
        rw [fN] at hx2; rw [fU]
        rcases hF x hx1 hx2 with hx | hx
        · exact Or.inl ((hK x).2 (Or.inr hx))
        · rcases List.mem_cons.1 hx with rfl | hx
          · exact Or.inl ((hK x).2 (Or.inl rfl))
          · exact Or.inr hx
      · intro x _ _ hx
        rw [fU]
        rcases hx with hx | hx
        · exact Or.inl ((hK x).2 (Or.inr hx))
        · rw [hu] at hx
          rcases List.mem_cons.1 hx with rfl | hx
          · exact Or.inl ((hK x).2 (Or.inl rfl))
          · exact Or.inr (Or.inl hx)
      · intro x hlt hx q hq
        rw [fU] at hx
        exact othersU hI hr x hlt (by rw [hu]; exact List.mem_cons_of_mem _ hx) q hq
      · intro x hlt hx q hq
        rcases (hK x).1 hx with rfl | hx
        · exact (othersU hI hr x hlt hgu q hq).2
        · exact othersL hI hr x hlt hx q
    · intro hlt q hq
      exact (othersU hI hr g hlt hgu q hq).1
  | nil =>
    have hne : s.newN ≠ -1 := by omega
    rw [nextGlobal_nil' hu hne]
    simp only []
    rw [hu] at hF
    have h1 : NodeInv { s with newN := s.newN + 1 } := hN.congr rfl rfl rfl rfl
    have hg0 : 0 ≤ s.newN := by omega
    have hK := add_keys h1 hg0
    obtain ⟨fU, fN, fO⟩ := add_fields { s with newN := s.newN + 1 } s.newN
    have hN' := (add_NodeInv h1 hg0)
    replace fU := fU.trans hu
    replace fN : _ = s.newN + 1 := fN
    refine ⟨by trivial, hN'.1, ?_, (slot _ _ h1 hg0).1, (slot _ _ h1 hg0).2, ?_⟩
    · apply WorldInvAt_set h _ hN'.2 (by rw [fO]; exact ho) (by rw [fN]; omega)
      apply absWorld_update hI hr _ (by rw [fN]; omega) (by rw [fO]; exact ho) (keys_nodup hN'.2)
      · rw [fU]; exact List.nodup_nil
      · intro x _; rw [fU]; simp
      · intro x hx
        rw [fN]
        rcases (hK x).1 hx with rfl | hx
        · omega
        · have := hRL x hx; omega
      · intro x hx; rw [fU] at hx; simp at hx
      · intro x hx1 hx2
        rw [fN] at hx2
        by_cases hxe : x = s.newN
        · exact Or.inl ((hK x).2 (Or.inl hxe))
        · rcases hF x hx1 (by omega) with hx | hx
          · exact Or.inl ((hK x).2 (Or.inr hx))
          · simp at hx
      · intro x _ _ hx
        rcases hx with hx | hx
        · exact Or.inl ((hK x).2 (Or.inr hx))
        · rw [hu] at hx; simp at hx
      · intro x _ hx; rw [fU] at hx; simp at hx
      · intro x hlt hx q _
        rcases (hK x).1 hx with rfl | hx
        · omega
        · exact othersL hI hr x hlt hx q
    · intro hlt; omega

/-- `ref_node_remove(node)` on rank `r`, under the ownership guard: the slot is valid and, if its id is a shared
    id, no other rank has it live -/
theorem remove_core {old : Int} {w : World NodeIds} (h : WorldInvAt old w) {r : Nat} {s : NodeIds}
    (hr : w[r]? = some s) {node : Int} (hv : s.validSlot node = true)
    (hguard : s.global.getD node.toNat (-1) < old → ∀ q, q ≠ r →
      s.global.getD node.toNat (-1) ∉ (absWorld old w).liveOf q) :
    WorldInvAt old (w.set r (s.remove node).2) := by
  obtain ⟨ho, hn, hN⟩ := h.1 s (getElem?_mem' hr)
  have hI := h.2
  obtain ⟨hU, hD, hRL, hRU, hF⟩ := rank_facts hI hr ho hn
  have hN' := (remove_NodeInv hN hv).2
  obtain ⟨_, _, _, fU, fN, fO⟩ := remove_fields hN hv
  have hK := remove_keys hN hv
  have hgk := slot_mem_keys hN hv
  generalize s.global.getD node.toNat (-1) = g at *
  apply WorldInvAt_set h _ hN' (by rw [fO]; exact ho) (by rw [fN]; exact hn)
  apply absWorld_update hI hr _ (by rw [fN]; exact hn) (by rw [fO]; exact ho) (keys_nodup hN')
  · rw [fU]; exact List.nodup_cons.2 ⟨hD g hgk, hU⟩
  · intro x hx
    rw [fU]
    obtain ⟨hxg, hx⟩ := (hK x).1 hx
    intro hm
    rcases List.mem_cons.1 hm with hm | hm
    · exact hxg hm
    · exact hD x hx hm
  · intro x hx; rw [fN]; exact hRL x ((hK x).1 hx).2
  · intro x hx
    rw [fU] at hx; rw [fN]
    rcases List.mem_cons.1 hx with rfl | hx
    · exact hRL x hgk
    · exact hRU x hx
  · intro x hx1 hx2
    rw [fN] at hx2; rw [fU]
    by_cases hxg : x = g
    · exact Or.inr (by rw [hxg]; simp)
    · rcases hF x hx1 hx2 with hx | hx
      · exact Or.inl ((hK x).2 ⟨hxg, hx⟩)
      · exact Or.inr (List.mem_cons_of_mem _ hx)
  · intro x _ _ hx
    rw [fU]
    by_cases hxg : x = g
    · exact Or.inr (Or.inl (by rw [hxg]; simp))
    · rcases hx with hx | hx
      · exact Or.inl ((hK x).2 ⟨hxg, hx⟩)
      · exact Or.inr (Or.inl (List.mem_cons_of_mem _ hx))
  · intro x hlt hx q hq
    rw [fU] at hx
    rcases List.mem_cons.1 hx with rfl | hx
    · exact ⟨hguard hlt q hq, othersL hI hr x hlt hgk q⟩
    · exact othersU hI hr x hlt hx q hq
  · intro x hlt hx q _
    exact othersL hI hr x hlt ((hK x).1 hx).2 q

/-- `ref_node_remove_without_global(node)` on rank `r`, under the ghost guard: the slot is valid, its id is a
    shared id and some other rank has it live -/
theorem removeWithoutGlobal_core {old : Int} {w : World NodeIds} (h : WorldInvAt old w) {r : Nat} {s : NodeIds}
    (hr : w[r]? = some s) {node : Int} (hv : s.validSlot node = true)
    (hlt : s.global.getD node.toNat (-1) < old)
    (hex : ∃ q, q ≠ r ∧ s.global.getD node.toNat (-1) ∈ (absWorld old w).liveOf q) :
    WorldInvAt old (w.set r (s.removeWithoutGlobal node).2) := by
  obtain ⟨ho, hn, hN⟩ := h.1 s (getElem?_mem' hr)
  have hI := h.2
  obtain ⟨hU, hD, hRL, hRU, hF⟩ := rank_facts hI hr ho hn
  have hN' := (removeWithoutGlobal_NodeInv hN hv).2
  obtain ⟨_, fU, fN, fO⟩ := rwg_fields hN hv
  have hK := rwg_keys hN hv
  generalize s.global.getD node.toNat (-1) = g at *
  apply WorldInvAt_set h _ hN' (by rw [fO]; exact ho) (by rw [fN]; exact hn)
  apply absWorld_update hI hr _ (by rw [fN]; exact hn) (by rw [fO]; exact ho) (keys_nodup hN')
  · rw [fU]; exact hU
  · intro x hx; rw [fU]; exact hD x ((hK x).1 hx).2
  · intro x hx; rw [fN]; exact hRL x ((hK x).1 hx).2
  · intro x hx; rw [fU] at hx; rw [fN]; exact hRU x hx
  · intro x hx1 hx2
    rw [fN] at hx2; rw [fU]
    rcases hF x hx1 hx2 with hx | hx
    · exact Or.inl ((hK x).2 ⟨by omega, hx⟩)
    · exact Or.inr hx
  · intro x _ _ hx
    rw [fU]
    rcases hx with hx | hx
    · by_cases hxg : x = g
      · subst hxg; exact Or.inr (Or.inr hex)
      · exact Or.inl ((hK x).2 ⟨hxg, hx⟩)
    · exact Or.inr (Or.inl hx)
  · intro x hlt' hx q hq
    rw [fU] at hx
    exact othersU hI hr x hlt' hx q hq
  · intro x hlt' hx q _
    exact othersL hI hr x hlt' ((hK x).1 hx).2 q

/-! ## one event of a history (local ops) -/

theorem liveOf_set_ne {old : Int} {w : World NodeIds} {r q : Nat} (s' : NodeIds) (hq : q ≠ r) :
    (absWorld old (w.set r s')).liveOf q = (absWorld old w).liveOf q := by
  cases hw : w[q]? with
  | none => rw [liveOf_abs_none hw, liveOf_abs_none (by rw [getElem?_set_ne' s' hq]; exact hw)]
  | some t => rw [liveOf_abs_some hw, liveOf_abs_some (by rw [getElem?_set_ne' s' hq]; exact hw)]

theorem liveElsewhere_iff (old : Int) (w : World NodeIds) (r : Nat) (g : Int) :
    liveElsewhere w r g = true ↔ ∃ q, q ≠ r ∧ g ∈ (absWorld old w).liveOf q := by
  unfold liveElsewhere
  rw [List.any_eq_true]
  constructor
  · rintro ⟨q, _, hp⟩
    simp only [Bool.and_eq_true, decide_eq_true_eq] at hp
    obtain ⟨hne, hm⟩ := hp
    cases hw : w[q]? with
    | none => rw [hw] at hm; simp at hm
    | some t =>
      rw [hw] at hm
      exact ⟨q, hne, by rw [liveOf_abs_some hw]; simpa using hm⟩
  · rintro ⟨q, hne, hm⟩
    cases hw : w[q]? with
    | none => rw [liveOf_abs_none hw] at hm; simp at hm
    | some t =>
      rw [liveOf_abs_some hw] at hm
      have hq : q < w.length := (List.getElem?_eq_some_iff.1 hw).1
      refine ⟨q, List.mem_range.2 hq, ?_⟩
      simp [hne, hw, hm]

/-- every enabled local op on any rank preserves the invariant (with the same `old_n_global`) -/
theorem op_step {old : Int} {w : World NodeIds} (h : WorldInvAt old w) (r : Nat) (o : LocalOp)
    (hen : enabled w (.op r o) = true) : WorldInvAt old (stepWorld w (.op r o)) := by
  unfold enabled at hen
  cases hr : w[r]? with
  | none => simp [hr] at hen
  | some s =>
    simp only [hr] at hen
    simp only [stepWorld, hr]
    obtain ⟨ho, hn, hN⟩ := h.1 s (getElem?_mem' hr)
    cases o with
    | addFresh =>
      obtain ⟨h1, _, h3, _⟩ := addFresh_core h hr
      simp only [stepRank, h1, ne_eq, not_true_eq_false, if_false]
      exact h3
    | remove node =>
      simp only [Bool.and_eq_true, Bool.or_eq_true, decide_eq_true_eq, Bool.not_eq_true'] at hen
      obtain ⟨hv, hg⟩ := hen
      rw [globalOf_valid hv, ho] at hg
      apply remove_core h hr hv
      intro hlt q hq hm
      rcases hg with hg | hg
      · omega
      · have := (liveElsewhere_iff old w r _).2 ⟨q, hq, hm⟩
        rw [this] at hg
        cases hg
    | removeWithoutGlobal node =>
      simp only [Bool.and_eq_true, decide_eq_true_eq] at hen
      obtain ⟨⟨hv, hlt⟩, hle⟩ := hen
      rw [globalOf_valid hv] at hlt hle
      rw [ho] at hlt
      exact removeWithoutGlobal_core h hr hv hlt ((liveElsewhere_iff old w r _).1 hle)
    | trial =>
      obtain ⟨h1, h2, h3, h4, h5, h6⟩ := addFresh_core h hr
      simp only [stepRank, h1, h2, ne_eq, not_true_eq_false, if_false]
      have hrl : r < w.length := (List.getElem?_eq_some_iff.1 hr).1
      have hr2 := getElem?_set_self' (w := w) (s.nextGlobal.2.2.add s.nextGlobal.2.1).2.2 hrl
      have := remove_core h3 hr2 h4 (by
        rw [Int.toNat_natCast, h5]
        intro hlt q hq
        rw [liveOf_set_ne _ hq]
        exact h6 hlt q hq)
      rw [List.set_set] at this
      exact this

/-! ## `ref_node_synchronize_globals` re-establishes the invariant -/

theorem worldInvAt_syncInv {old : Int} {w : World NodeIds} (h : WorldInvAt old w) : SyncInv old w :=
  ⟨fun s hs => (h.1 s hs).1, fun s hs => by have := h.1 s hs; omega,
   fun s hs => (h.1 s hs).2.2.srt.sorted.imp fun hab => Int.le_of_lt hab, h.2.toIdInv⟩

theorem writeBack_length (es : List (Int × Nat)) : ∀ g : List Int, (writeBack g es).length = g.length := by
  induction es with
  | nil => intro g; rfl
  | cons e es ih =>
    intro g
    show (writeBack (g.set e.2 e.1) es).length = _
    rw [ih]; simp

theorem slots_nodup {s : NodeIds} (h : NodeInv s) : (s.sorted.map (·.2)).Nodup := by
  have hk : (s.sorted.map (·.1)).Nodup := keys_nodup h
  have hs : s.sorted.Nodup := List.Nodup.of_map _ hk
  apply hs.map_on
  intro p hp p' hp' he
  obtain ⟨h1, _⟩ := h.srt.sound p hp
  obtain ⟨h1', _⟩ := h.srt.sound p' hp'
  refine Prod.ext ?_ he
  rw [← h1, ← h1', he]

theorem isChain_of_agree {g g' : List Int} {b : Int} {l : List Nat} (h : IsChain g b l)
    (hlen : g'.length = g.length) (hag : ∀ i, i ∈ l → g'.getD i (-1) = g.getD i (-1)) : IsChain g' b l := by
  induction h with
  | nil => exact .nil
  | @cons i l hi hn _ ih =>
    have e := hag i (by simp)
    have := ih (fun j hj => hag j (by simp [hj]))
    rw [← e] at this
    exact .cons (by omega) (by rw [e]; exact hn) this

theorem countP_of_sign : ∀ (g g' : List Int), g'.length = g.length →
    (∀ i, i < g.length → (0 ≤ g'.getD i (-1) ↔ 0 ≤ g.getD i (-1))) →
    g'.countP (fun x => decide (0 ≤ x)) = g.countP (fun x => decide (0 ≤ x)) := by
  intro g
  induction g with
  | nil => intro g' hl _; cases g' with
    | nil => rfl
    | cons _ _ => simp at hl
  | cons a t ih =>
    intro g' hl hs
    cases g' with
    | nil => simp at hl
    | cons a' t' =>
      have h0 := hs 0 (by simp)
      simp only [List.getD_cons_zero] at h0
      have ht := ih t' (by simpa using hl) (fun i hi => by
        have := hs (i + 1) (by simp; omega)
        simpa using this)
      rw [List.countP_cons, List.countP_cons, ht]
      by_cases ha : 0 ≤ a
      · simp [ha, h0.2 ha]
      · have : ¬ 0 ≤ a' := fun h => ha (h0.1 h)
        simp [ha, this]

theorem map_getD_neg (l : List Int) (f : Int → Int) (v : Nat) (hf : ∀ x, x < 0 → f x = x)
    (h : l.getD v (-1) < 0) : (l.map f).getD v (-1) = l.getD v (-1) := by
  simp only [List.getD_eq_getElem?_getD, List.getElem?_map] at h ⊢
  cases hl : l[v]? with
  | none => rfl
  | some x =>
    rw [hl] at h
    simp only [Option.getD_some] at h
    simp [hf x h]

theorem finalRank_keys (A : IdWorld) (r : Nat) (s : NodeIds) :
    (finalRank A r s).keys = s.keys.map (A.newId r) := by
  simp [NodeIds.keys, finalRank, List.map_map, Function.comp_def]

/-- the closed-form post-state of one rank satisfies the `ref_node` structure invariant again: the free list is
    untouched, `sorted_global` is still strictly increasing (`newId` is strictly monotone on the rank's live ids) and
    `global[sorted_local[i]] = sorted_global[i]` after the write-back -/
theorem finalRank_NodeInv (A : IdWorld) (r : Nat) (s : NodeIds) (hN : NodeInv s)
    (hmono : ∀ g g', g ∈ s.keys → g' ∈ s.keys → g < g' → A.newId r g < A.newId r g')
    (hnn : ∀ g, g ∈ s.keys → 0 ≤ A.newId r g) : NodeInv (finalRank A r s) := by
  have hlen : (finalRank A r s).global.length = s.global.length := by
    simp [finalRank, writeBack_length]
  have hnd : ((s.sorted.map fun (e : Int × Nat) => (A.newId r e.1, e.2)).map (·.2)).Nodup := by
    rw [List.map_map]; exact slots_nodup hN
  have hneg : ∀ v, s.global.getD v (-1) < 0 →
      (finalRank A r s).global.getD v (-1) = s.global.getD v (-1) := by
    intro v hv
    show (writeBack _ _).getD v (-1) = _
    rw [writeBack_getD_not_mem]
    · exact map_getD_neg _ _ v (fun x hx => by simp; omega) hv
    · rw [List.map_map]
      intro hm
      obtain ⟨p, hp, rfl⟩ := List.mem_map.1 hm
      have := hN.srt.sound p hp
      simp only [Function.comp] at hv
      omega
  have hpos : ∀ v, 0 ≤ s.global.getD v (-1) →
      (finalRank A r s).global.getD v (-1) = A.newId r (s.global.getD v (-1)) := by
    intro v hv
    show (writeBack _ _).getD v (-1) = _
    apply writeBack_getD _ _ _ hnd
    · exact List.mem_map.2 ⟨_, hN.srt.complete v hv, rfl⟩
    · simpa using lt_length_of_getD_nonneg hv
  have hkey : ∀ v, 0 ≤ s.global.getD v (-1) → s.global.getD v (-1) ∈ s.keys := fun v hv =>
    (mem_keys_iff hN).2 ⟨v, hv, rfl⟩
  have hsign : ∀ v, (0 ≤ (finalRank A r s).global.getD v (-1) ↔ 0 ≤ s.global.getD v (-1)) := by
    intro v
    by_cases hv : 0 ≤ s.global.getD v (-1)
    · rw [hpos v hv]; exact ⟨fun _ => hv, fun _ => hnn _ (hkey v hv)⟩
    · rw [hneg v (by omega)]
  obtain ⟨⟨l, hc, hlnd, hmem⟩, hcount⟩ := hN.free
  refine ⟨⟨⟨l, ?_, hlnd, ?_⟩, ?_⟩, ⟨?_, ?_, ?_, ?_⟩⟩
  · exact isChain_of_agree hc hlen fun i hi => hneg i (hc.neg_of_mem i hi)
  · intro i hi
    have hi' : i < s.max := by simpa [NodeIds.max, hlen] using hi
    rw [hmem i hi']
    have := hsign i
    constructor <;> intro h <;> omega
  · show s.n = _
    rw [hcount]
    exact (countP_of_sign _ _ hlen fun i _ => hsign i).symm
  · rw [finalRank_keys, List.pairwise_map]
    have := hN.srt.sorted
    apply List.Pairwise.imp_of_mem _ this
    intro a b ha hb hab
    exact hmono a b ha hb hab
  · intro p' hp'
    obtain ⟨p, hp, rfl⟩ := List.mem_map.1 hp'
    obtain ⟨h1, h2⟩ := hN.srt.sound p hp
    simp only []
    rw [hpos p.2 (by rw [h1]; exact h2), h1]
    exact ⟨rfl, hnn _ (List.mem_map.2 ⟨p, hp, rfl⟩)⟩
  · intro v hv
    have hv' := (hsign v).1 hv
    rw [hpos v hv']
    exact List.mem_map.2 ⟨_, hN.srt.complete v hv', rfl⟩
  · show (s.sorted.map _).length = s.n
    rw [List.length_map]; exact hN.srt.len

theorem final_getElem? (A : IdWorld) (w : World NodeIds) (q : Nat) :
    (w.mapIdx fun r s => finalRank A r s)[q]? = (w[q]?).map (finalRank A q) := by
  rw [List.getElem?_mapIdx]

theorem liveOf_final (old N : Int) (w : World NodeIds) (q : Nat) :
    (absWorld N (w.mapIdx fun r s => finalRank (absWorld old w) r s)).liveOf q
      = ((absWorld old w).liveOf q).map ((absWorld old w).newId q) := by
  cases hw : w[q]? with
  | none =>
    rw [liveOf_abs_none hw, liveOf_abs_none (by rw [final_getElem?, hw]; rfl)]; rfl
  | some s =>
    rw [liveOf_abs_some hw, liveOf_abs_some (s := finalRank (absWorld old w) q s) (by rw [final_getElem?, hw]; rfl),
      finalRank_keys]

theorem unusedOf_final (old N : Int) (w : World NodeIds) (q : Nat) :
    (absWorld N (w.mapIdx fun r s => finalRank (absWorld old w) r s)).unusedOf q = [] := by
  cases hw : w[q]? with
  | none => rw [unusedOf_abs_none (by rw [final_getElem?, hw]; rfl)]
  | some s =>
    rw [unusedOf_abs_some (s := finalRank (absWorld old w) q s) (by rw [final_getElem?, hw]; rfl)]
    rfl

theorem kOf_final (old : Int) (w : World NodeIds) (q : Nat) :
    (absWorld (absWorld old w).N (w.mapIdx fun r s => finalRank (absWorld old w) r s)).kOf q = 0 := by
  cases hw : w[q]? with
  | none => rw [kOf_abs_none (by rw [final_getElem?, hw]; rfl)]
  | some s =>
    rw [kOf_abs_some (s := finalRank (absWorld old w) q s) (by rw [final_getElem?, hw]; rfl)]
    simp [newNodes, finalRank]

theorem N_nonneg {A : IdWorld} (h : IdInv A) : 0 ≤ A.N := by
  have hM : 0 ≤ A.M := by
    have := h.old_nonneg
    unfold IdWorld.M; omega
  have := nodup_length_le A.shiftedUnused 0 A.M hM h.unused_nodup h.unused_range
  unfold IdWorld.N
  omega

/-- **sync re-establishes the invariant**: after `ref_node_synchronize_globals` the world satisfies the invariant
    with `old_n_global = N`, no fresh and no unused ids -/
theorem sync_core {old : Int} {w : World NodeIds} (h : WorldInvAt old w) :
    WorldInvAt (absWorld old w).N (syncGlobals w) := by
  have hS := worldInvAt_syncInv h
  have hB := Refine.Props.C06.newId_bijection (absWorld old w) hS.inv
  obtain ⟨b1, _, _, _, b5, b6⟩ := hB
  rw [syncGlobals_eq old w hS]
  have hN0 := N_nonneg hS.inv
  constructor
  · intro s' hs'
    obtain ⟨i, hi, rfl⟩ := List.mem_iff_getElem.1 hs'
    have hi' : i < w.length := by simpa using hi
    simp only [List.getElem_mapIdx]
    have hwi : w[i]? = some w[i] := List.getElem?_eq_getElem hi'
    have hl : (absWorld old w).liveOf i = (w[i]).keys := liveOf_abs_some hwi
    refine ⟨rfl, le_refl _, ?_⟩
    apply finalRank_NodeInv _ _ _ (h.1 _ (List.getElem_mem hi')).2.2
    · intro g g' hg hg' hlt
      exact b1 i g g' (by rw [hl]; exact hg) (by rw [hl]; exact hg') hlt
    · intro g hg
      exact (b5 i g (by rw [hl]; exact hg)).1
  · have hu := unusedOf_final old (absWorld old w).N w
    have hk := kOf_final old w
    have hl := liveOf_final old (absWorld old w).N w
    refine ⟨hN0, by simp [absWorld], by simp [absWorld], ?_, ?_, ?_, ?_, ?_, ?_, ?_, ?_, ?_⟩
    · intro q
      cases hw : w[q]? with
      | none => rw [liveOf_abs_none (by rw [final_getElem?, hw]; rfl)]; exact List.nodup_nil
      | some s =>
        rw [hl q, List.Nodup, List.pairwise_map]
        have hsrt := (h.1 s (getElem?_mem' hw)).2.2.srt.sorted
        rw [liveOf_abs_some hw]
        apply List.Pairwise.imp_of_mem _ hsrt
        intro a b ha hb hab
        have := b1 q a b (by rw [liveOf_abs_some hw]; exact ha) (by rw [liveOf_abs_some hw]; exact hb) hab
        omega
    · intro q; rw [hu q]; exact List.nodup_nil
    · intro q g _; rw [hu q]; simp
    · intro q g hg
      rw [hl q] at hg
      obtain ⟨g0, hg0, rfl⟩ := List.mem_map.1 hg
      rw [hk q]
      have := b5 q g0 hg0
      refine ⟨this.1, ?_⟩
      show _ < (absWorld old w).N + ((0 : Nat) : Int)
      simpa using this.2
    · intro q g hg; rw [hu q] at hg; simp at hg
    · intro q g h1 h2
      rw [hk q] at h2
      exfalso
      have : (absWorld (absWorld old w).N (w.mapIdx fun r s => finalRank (absWorld old w) r s)).old
          = (absWorld old w).N := rfl
      rw [this] at h1 h2
      simp at h2
      omega
    · intro g h0 hlt
      obtain ⟨r, g0, hg0, he⟩ := b6 g h0 hlt
      exact Or.inl ⟨r, by rw [hl r]; exact List.mem_map.2 ⟨g0, hg0, he⟩⟩
    · intro g p q _ hu'; rw [hu p] at hu'; simp at hu'
    · intro g p q _ hu'; rw [hu p] at hu'; simp at hu'

/-! ## histories -/

theorem step_inv {w : World NodeIds} (e : Event) (h : WorldInv w) (hen : enabled w e = true) :
    WorldInv (stepWorld w e) := by
  obtain ⟨old, h⟩ := h
  cases e with
  | op r o => exact ⟨old, op_step h r o hen⟩
  | sync => exact ⟨_, sync_core h⟩

theorem run_inv (hist : List Event) : ∀ (w : World NodeIds), WorldInv w → enabledAll hist w = true →
    WorldInv (run hist w) := by
  induction hist with
  | nil => intro w h _; exact h
  | cons e es ih =>
    intro w h hen
    simp only [enabledAll, Bool.and_eq_true] at hen
    exact ih (stepWorld w e) (step_inv e h hen.1) hen.2

theorem run_append (a b : List Event) (w : World NodeIds) : run (a ++ b) w = run b (run a w) := by
  simp [run, List.foldl_append]

/-! ## what the caller sees after `ref_node_synchronize_globals` -/

theorem newId_inj {A : IdWorld} (h : IdInv A) {r q : Nat} {g g' : Int} (hg : g ∈ A.liveOf r)
    (hg' : g' ∈ A.liveOf q) (he : A.newId r g = A.newId q g') : g = g' ∧ (g < A.old ∨ r = q) := by
  have hx := h.live_not_unused r g hg
  have hy := h.live_not_unused q g' hg'
  have : shiftId A.old (A.off r) g = shiftId A.old (A.off q) g' := by
    unfold IdWorld.newId at he
    rcases lt_trichotomy (shiftId A.old (A.off r) g) (shiftId A.old (A.off q) g') with hlt | heq | hgt
    · have := elim_strictMono _ h.unused_nodup _ _ hx hlt; omega
    · exact heq
    · have := elim_strictMono _ h.unused_nodup _ _ hy hgt; omega
  exact shift_eq_cases A r q g g' (h.live_range r g hg).2 (h.live_range q g' hg').2 this

/-- after the call, the slot `l` that held old id `g` on rank `r` holds `newId r g` -/
theorem sync_slot {old : Int} {w : World NodeIds} (h : WorldInvAt old w) {r : Nat} {s s' : NodeIds}
    (hr : w[r]? = some s) (hs' : (syncGlobals w)[r]? = some s') {g : Int} {l : Nat} (hm : (g, l) ∈ s.sorted) :
    s'.global.getD l (-1) = (absWorld old w).newId r g := by
  have hS := worldInvAt_syncInv h
  have hN := (h.1 s (getElem?_mem' hr)).2.2
  rw [syncGlobals_eq old w hS, final_getElem?, hr] at hs'
  simp only [Option.map_some, Option.some.injEq] at hs'
  subst hs'
  show (writeBack _ _).getD l (-1) = _
  apply writeBack_getD
  · rw [List.map_map]; exact slots_nodup hN
  · exact List.mem_map.2 ⟨(g, l), hm, rfl⟩
  · obtain ⟨h1, h2⟩ := hN.srt.sound (g, l) hm
    simpa using lt_length_of_getD_nonneg (g := s.global) (v := l) (by rw [h1]; exact h2)

/-- the post-condition of `ref_node_synchronize_globals` on a world satisfying the invariant (the C06 sentence) -/
theorem sync_post {old : Int} {w : World NodeIds} (h : WorldInvAt old w) :
    0 ≤ (absWorld old w).N ∧ (syncGlobals w).length = w.length ∧
    (∀ s ∈ syncGlobals w, s.oldN = (absWorld old w).N ∧ s.newN = (absWorld old w).N ∧ s.unusedStk = [] ∧
      NodeInv s ∧ ∀ g ∈ s.keys, 0 ≤ g ∧ g < (absWorld old w).N) ∧
    (∀ g, 0 ≤ g → g < (absWorld old w).N → ∃ s ∈ syncGlobals w, g ∈ s.keys) ∧
    (∀ (r q : Nat) (s t s' t' : NodeIds) (g g' : Int) (l l' : Nat), w[r]? = some s → w[q]? = some t →
      (syncGlobals w)[r]? = some s' → (syncGlobals w)[q]? = some t' → (g, l) ∈ s.sorted → (g', l') ∈ t.sorted →
      (s'.global.getD l (-1) = t'.global.getD l' (-1) ↔ g = g' ∧ (g < old ∨ r = q))) := by
  have hS := worldInvAt_syncInv h
  have hpost := sync_core h
  have hB := Refine.Props.C06.newId_bijection (absWorld old w) hS.inv
  have heq := syncGlobals_eq old w hS
  refine ⟨N_nonneg hS.inv, by rw [heq]; simp, ?_, ?_, ?_⟩
  · intro s' hs'
    obtain ⟨h1, h2, h3⟩ := hpost.1 s' hs'
    have hs'' := hs'
    rw [heq] at hs''
    obtain ⟨i, hi, he⟩ := List.mem_iff_getElem.1 hs''
    have hi' : i < w.length := by simpa using hi
    simp only [List.getElem_mapIdx] at he
    subst he
    refine ⟨rfl, rfl, rfl, h3, ?_⟩
    intro g hg
    rw [finalRank_keys] at hg
    obtain ⟨g0, hg0, rfl⟩ := List.mem_map.1 hg
    exact hB.2.2.2.2.1 i g0 (by rw [liveOf_abs_some (List.getElem?_eq_getElem hi')]; exact hg0)
  · intro g h0 hlt
    obtain ⟨r, g0, hg0, he⟩ := hB.2.2.2.2.2 g h0 hlt
    cases hw : w[r]? with
    | none => rw [liveOf_abs_none hw] at hg0; simp at hg0
    | some s =>
      rw [liveOf_abs_some hw] at hg0
      refine ⟨finalRank (absWorld old w) r s, ?_, ?_⟩
      · rw [heq]
        apply List.mem_of_getElem? (i := r)
        rw [final_getElem?, hw]; rfl
      · rw [finalRank_keys]; exact List.mem_map.2 ⟨g0, hg0, he⟩
  · intro r q s t s' t' g g' l l' hr hq hs' ht' hm hm'
    rw [sync_slot h hr hs' hm, sync_slot h hq ht' hm']
    have hg : g ∈ (absWorld old w).liveOf r := by
      rw [liveOf_abs_some hr]; exact List.mem_map.2 ⟨_, hm, rfl⟩
    have hg' : g' ∈ (absWorld old w).liveOf q := by
      rw [liveOf_abs_some hq]; exact List.mem_map.2 ⟨_, hm', rfl⟩
    constructor
    · intro he
      exact newId_inj hS.inv hg hg' he
    · rintro ⟨rfl, hc⟩
      rcases hc with hc | rfl
      · exact hB.2.1 r q g hc
      · rfl

end Refine.Lemmas.DistIds
