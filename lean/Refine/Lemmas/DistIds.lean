import Refine.Model.DistIds
import Refine.Lemmas.NodeIds
import Refine.Lemmas.Dist
import Refine.Lemmas.DistSync
import Mathlib.Data.List.Nodup

/-!
  Lemmas for `Refine/Props/C06Ids.lean`: the LOCAL (unshifted) id invariant `IdInvL`, that it implies the
  invariant `IdInv` needed by `sync_bijection`, that the four local operations of `Refine.Model.DistIds` preserve
  it on any rank, and that `syncGlobals` re-establishes it.
-/
namespace Refine.Lemmas.DistIds
open Refine.Model.Dist Refine.Model.NodeIds Refine.Model.DistIds Refine.Lemmas.Dist Refine.Lemmas.DistSync
open Refine.Model.Comm (World)

/-! ## the local id invariant -/

/-- the unused ids of rank `r` (`[]` for a rank out of range) -/
def _root_.Refine.Lemmas.Dist.IdWorld.unusedOf (w : IdWorld) (r : Nat) : List Int := w.unused.getD r []

/-- The id invariant in LOCAL (unshifted) ids, the Lean form of `id_invariant` in `checks/streams_dist.py`:
    per rank the live ids and the unused ids are duplicate-free, disjoint, inside `[0, old + k_r)` and cover the
    rank's fresh interval `[old, old + k_r)`; every shared id in `[0, old)` is live on at least one rank or sits in
    exactly one rank's unused list, never both. -/
structure IdInvL (A : IdWorld) : Prop where
  old_nonneg : 0 ≤ A.old
  len_live : A.live.length = A.k.length
  len_unused : A.unused.length = A.k.length
  live_nodup : ∀ r, (A.liveOf r).Nodup
  unused_nodup : ∀ r, (A.unusedOf r).Nodup
  disj : ∀ r g, g ∈ A.liveOf r → g ∉ A.unusedOf r
  live_range : ∀ r g, g ∈ A.liveOf r → 0 ≤ g ∧ g < A.old + (A.kOf r : Nat)
  unused_range : ∀ r g, g ∈ A.unusedOf r → 0 ≤ g ∧ g < A.old + (A.kOf r : Nat)
  fresh_cov : ∀ r g, A.old ≤ g → g < A.old + (A.kOf r : Nat) → g ∈ A.liveOf r ∨ g ∈ A.unusedOf r
  old_cov : ∀ g, 0 ≤ g → g < A.old → (∃ r, g ∈ A.liveOf r) ∨ (∃ r, g ∈ A.unusedOf r)
  old_excl : ∀ g r q, g < A.old → g ∈ A.unusedOf r → g ∉ A.liveOf q
  old_uniq : ∀ g r q, g < A.old → g ∈ A.unusedOf r → g ∈ A.unusedOf q → r = q

theorem mem_shiftedUnused (A : IdWorld) (u : Int) :
    u ∈ A.shiftedUnused ↔ ∃ r g, g ∈ A.unusedOf r ∧ shiftId A.old (A.off r) g = u := by
  unfold IdWorld.shiftedUnused IdWorld.unusedOf
  simp only [List.mem_flatten, List.mem_mapIdx]
  constructor
  · rintro ⟨l, ⟨i, hi, rfl⟩, hu⟩
    obtain ⟨g, hg, rfl⟩ := List.mem_map.1 hu
    exact ⟨i, g, by simpa [List.getD_eq_getElem?_getD, hi] using hg, rfl⟩
  · rintro ⟨r, g, hg, rfl⟩
    by_cases hr : r < A.unused.length
    · refine ⟨_, ⟨r, hr, rfl⟩, List.mem_map.2 ⟨g, ?_, rfl⟩⟩
      simpa [List.getD_eq_getElem?_getD, hr] using hg
    · simp [List.getD_eq_getElem?_getD, List.getElem?_eq_none (Nat.le_of_not_gt hr)] at hg

theorem nodup_flatten_of_getElem {α : Type} (L : List (List α)) (h1 : ∀ i (h : i < L.length), (L[i]).Nodup)
    (h2 : ∀ i j (hi : i < L.length) (hj : j < L.length), i < j → ∀ x ∈ L[i], x ∉ L[j]) :
    L.flatten.Nodup := by
  rw [List.nodup_flatten]
  refine ⟨fun l hl => ?_, ?_⟩
  · obtain ⟨i, hi, rfl⟩ := List.mem_iff_getElem.1 hl
    exact h1 i hi
  · rw [List.pairwise_iff_getElem]
    intro i j hi hj hij x hx hx'
    exact h2 i j hi hj hij x hx hx'

/-- prefix sums of the fresh-id counts -/
def pre (k : List Nat) (r : Nat) : Nat := ((List.range r).map fun q => k.getD q 0).sum

theorem pre_succ (k : List Nat) (m : Nat) : pre k (m + 1) = pre k m + k.getD m 0 := by
  simp [pre, List.range_succ]

theorem exists_block (k : List Nat) : ∀ m n, n < pre k m → ∃ r, pre k r ≤ n ∧ n < pre k r + k.getD r 0 := by
  intro m
  induction m with
  | zero => intro n h; simp [pre] at h
  | succ m ih =>
    intro n h
    rw [pre_succ] at h
    by_cases h' : n < pre k m
    · exact ih n h'
    · exact ⟨m, by omega, by omega⟩

theorem pre_length (k : List Nat) : pre k k.length = k.sum := by
  unfold pre
  rw [range_getD_sum, List.take_length]

theorem off_eq_pre (A : IdWorld) (r : Nat) : A.off r = ((pre A.k r : Nat) : Int) := rfl

theorem shiftId_injective (old off : Int) (hoff : 0 ≤ off) {g g' : Int}
    (h : shiftId old off g = shiftId old off g') : g = g' := by
  rcases lt_trichotomy g g' with hlt | heq | hgt
  · have := shiftId_strictMono old off hoff g g' hlt; omega
  · exact heq
  · have := shiftId_strictMono old off hoff g' g hgt; omega

/-- two local ids whose shifted values coincide are the same number, and either a shared id or on the same rank -/
theorem shift_eq_cases (A : IdWorld) (r q : Nat) (g g' : Int) (hg : g < A.old + (A.kOf r : Nat))
    (hg' : g' < A.old + (A.kOf q : Nat))
    (heq : shiftId A.old (A.off r) g = shiftId A.old (A.off q) g') : g = g' ∧ (g < A.old ∨ r = q) := by
  have hr := off_nonneg A r
  have hq := off_nonneg A q
  by_cases h1 : g ≥ A.old
  · by_cases h2 : g' ≥ A.old
    · rcases Nat.lt_trichotomy r q with hlt | he | hgt
      · have := shift_disjoint A.old A.kOf r q hlt g g' ⟨h1, hg⟩ ⟨h2, hg'⟩
        have e1 : A.off r = (((List.range r).map A.kOf).sum : Nat) := rfl
        have e2 : A.off q = (((List.range q).map A.kOf).sum : Nat) := rfl
        rw [← e1, ← e2] at this
        omega
      · subst he
        exact ⟨shiftId_injective _ _ hr heq, Or.inr rfl⟩
      · have := shift_disjoint A.old A.kOf q r hgt g' g ⟨h2, hg'⟩ ⟨h1, hg⟩
        have e1 : A.off r = (((List.range r).map A.kOf).sum : Nat) := rfl
        have e2 : A.off q = (((List.range q).map A.kOf).sum : Nat) := rfl
        rw [← e1, ← e2] at this
        omega
    · simp only [shiftId, h1, h2, if_true, if_false] at heq; omega
  · by_cases h2 : g' ≥ A.old
    · simp only [shiftId, h1, h2, if_true, if_false] at heq; omega
    · simp only [shiftId, h1, h2, if_false] at heq
      exact ⟨heq, Or.inl (by omega)⟩

/-- **`IdInvL → IdInv`**: the local invariant gives the (shifted) invariant `sync_bijection` needs: the shifted
    fresh intervals `[old + off r, old + off r + k_r)` are pairwise disjoint and cover `[old, M)`. -/
theorem IdInvL.toIdInv {A : IdWorld} (h : IdInvL A) : IdInv A := by
  have hmem := mem_shiftedUnused A
  refine ⟨h.old_nonneg, h.live_range, ?_, ?_, ?_, ?_⟩
  · -- the shifted unused ids are pairwise distinct
    unfold IdWorld.shiftedUnused
    apply nodup_flatten_of_getElem
    · intro i hi
      simp only [List.getElem_mapIdx]
      have hi' : i < A.unused.length := by simpa using hi
      have hn := h.unused_nodup i
      simp only [IdWorld.unusedOf, List.getD_eq_getElem?_getD, List.getElem?_eq_getElem hi',
        Option.getD_some] at hn
      exact hn.map_on fun x _ y _ hxy => shiftId_injective _ _ (off_nonneg A i) hxy
    · intro i j hi hj hij x hx hx'
      have hi' : i < A.unused.length := by simpa using hi
      have hj' : j < A.unused.length := by simpa using hj
      simp only [List.getElem_mapIdx] at hx hx'
      obtain ⟨g, hg, rfl⟩ := List.mem_map.1 hx
      obtain ⟨g', hg', he⟩ := List.mem_map.1 hx'
      have hgu : g ∈ A.unusedOf i := by
        simpa [IdWorld.unusedOf, List.getD_eq_getElem?_getD, hi'] using hg
      have hgu' : g' ∈ A.unusedOf j := by
        simpa [IdWorld.unusedOf, List.getD_eq_getElem?_getD, hj'] using hg'
      obtain ⟨hgg, hc⟩ := shift_eq_cases A j i g' g (h.unused_range j g' hgu').2 (h.unused_range i g hgu).2 he
      subst hgg
      rcases hc with hc | hc
      · have := h.old_uniq g' i j hc hgu hgu'; omega
      · omega
  · intro u hu
    obtain ⟨r, g, hg, rfl⟩ := (hmem u).1 hu
    have h1 := h.unused_range r g hg
    have h2 := off_add_le A r
    have h3 := off_nonneg A r
    have h4 := h.old_nonneg
    unfold shiftId IdWorld.M
    split <;> constructor <;> omega
  · intro r g hg hu
    obtain ⟨q, g', hg', he⟩ := (hmem _).1 hu
    obtain ⟨hgg, hc⟩ := shift_eq_cases A q r g' g (h.unused_range q g' hg').2 (h.live_range r g hg).2 he
    subst hgg
    rcases hc with hc | hc
    · exact h.old_excl g' q r hc hg' hg
    · subst hc; exact h.disj q g' hg hg'
  · intro x hx0 hxM hxU
    by_cases hlo : x < A.old
    · rcases h.old_cov x hx0 hlo with ⟨r, hr⟩ | ⟨r, hr⟩
      · exact ⟨r, x, hr, by simp [shiftId]; omega⟩
      · exfalso
        exact hxU ((hmem x).2 ⟨r, x, hr, by simp [shiftId]; omega⟩)
    · have hn : (x - A.old).toNat < pre A.k A.k.length := by
        rw [pre_length]
        unfold IdWorld.M at hxM
        omega
      obtain ⟨r, hr1, hr2⟩ := exists_block A.k _ _ hn
      have hoff := off_eq_pre A r
      have hk : A.kOf r = A.k.getD r 0 := rfl
      have hsh : shiftId A.old (A.off r) (x - A.off r) = x := by
        unfold shiftId
        have : x - A.off r ≥ A.old := by omega
        simp only [this, if_true]; omega
      rcases h.fresh_cov r (x - A.off r) (by omega) (by omega) with hl | hu
      · exact ⟨r, _, hl, hsh⟩
      · exfalso
        exact hxU ((hmem x).2 ⟨r, _, hu, hsh⟩)

end Refine.Lemmas.DistIds
