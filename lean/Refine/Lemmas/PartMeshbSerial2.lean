import Refine.Lemmas.PartMeshbSerial

/-! the parallel reader's parse against `decodeMeshbWith`, section by section -/
namespace Refine.Lemmas.PartMeshb
open Refine.Model.Meshb Refine.Model.PartMeshb Refine.Lemmas.Codec
open Refine.Gen.PartMacros

theorem tell_eq_len {bs r r' : Bytes} (h : tell bs r = tell bs r') : r.length = r'.length := by
  unfold tell at h; omega

/-- one cell group: the serial reader's cells are the stored forms of the parallel reader's cells, in file order -/
theorem group_rel {cfg : Cfg} {cm v np : Nat} {bs : Bytes} {kp : KeyPos} {ci : CellInfo} {N : Int}
    (hp : ci.isPyr = true → ci.nodePer = 5) (hN31 : N < 2 ^ 31) {chs : List (List Cell)} {cs : List (List Int)}
    (h1 : kwSectionL v bs kp ci.kw [] (fun n => rdCellSection cfg cm v np ci N n) = .ok chs)
    (h2 : kwSection v bs kp ci.kw [] (fun n => rdCells cfg v ci N n.toNat) = .ok cs) :
    cs = chs.flatten.map (norm ci) := by
  unfold kwSectionL at h1
  unfold kwSection at h2
  cases hj : jump v bs kp ci.kw with
  | error e => simp [hj] at h1
  | ok o =>
    cases o with
    | none =>
      simp only [hj] at h1 h2
      injection h1 with h1; injection h2 with h2
      subst h1 h2; rfl
    | some q =>
      obtain ⟨next, s0⟩ := q
      simp only [hj] at h1 h2
      cases hl : rdLong v s0 with
      | error e => simp [hl] at h1
      | ok ql =>
      obtain ⟨n64, s1⟩ := ql
      simp only [hl] at h1
      rw [rdLong_rdInt hl] at h2
      simp only at h2
      cases hfit : countFits n64 s1 with
      | false => simp [hfit] at h1
      | true =>
      simp only [hfit, Bool.not_true, Bool.false_eq_true, if_false] at h1
      cases hb1 : rdCellSection cfg cm v np ci N n64 s1 with
      | error e => simp [hb1] at h1
      | ok qb1 =>
      obtain ⟨chs', r⟩ := qb1
      simp only [hb1] at h1
      cases hb2 : rdCells cfg v ci N (wrap32 n64).toNat s1 with
      | error e => simp [hb2] at h2
      | ok qb2 =>
      obtain ⟨cs', r'⟩ := qb2
      simp only [hb2] at h2
      split at h1
      · rename_i hn1
        split at h2
        · rename_i hn2
          injection h1 with h1; injection h2 with h2
          subst h1 h2
          -- the records
          unfold rdCellSection at hb1
          simp only at hb1
          split at hb1
          · simp at hb1
          · split at hb1
            · simp at hb1
            · obtain ⟨raws, hr, hgood, hflat⟩ := rdCellChunks_recs _ _ _ _ _ _ hb1
              simp only [List.reverse_nil, List.flatten_nil, List.nil_append] at hflat
              have c1 := (rdRecsS_consume _ hr).2
              have c2 := rdCells_consume _ hb2
              have hlen : r.length = r'.length := tell_eq_len (hn1.symm.trans hn2)
              have hK : 0 < (ci.nodePer + 1) * intSize v := by
                unfold intSize; split <;> positivity
              have hcount : raws.length = (wrap32 n64).toNat := by
                have : raws.length * ((ci.nodePer + 1) * intSize v) =
                    (wrap32 n64).toNat * ((ci.nodePer + 1) * intSize v) := by omega
                exact Nat.eq_of_mul_eq_mul_right hK this
              rw [hcount] at hr
              obtain ⟨e, _⟩ := rdCells_of_recs _ hr hb2
              rw [e, hflat, List.map_map]
              apply List.map_congr_left
              intro raw hraw
              simp only [Function.comp]
              exact (norm_cellOfRaw hp hN31 (hgood raw hraw).1 (hgood raw hraw).2).symm
        · simp at h2
      · simp at h1

theorem groups_rel {cfg : Cfg} {cm v np : Nat} {bs : Bytes} {kp : KeyPos} {N : Int} (hN31 : N < 2 ^ 31) :
    ∀ (cis : List CellInfo) {gs : List (List (List Cell))} {cs : List (List (List Int))},
      (∀ ci ∈ cis, ci.isPyr = true → ci.nodePer = 5) →
      rdCellGroupsP cfg cm v np bs kp N cis = .ok gs → rdCellGroups cfg v bs kp N cis = .ok cs →
      cs = (cis.zip gs).map fun x => x.2.flatten.map (norm x.1) := by
  intro cis
  induction cis with
  | nil =>
    intro gs cs _ h1 h2
    simp [rdCellGroupsP] at h1; simp [rdCellGroups] at h2
    subst h1 h2; rfl
  | cons ci cis ih =>
    intro gs cs hp h1 h2
    unfold rdCellGroupsP at h1
    unfold rdCellGroups at h2
    cases a1 : kwSectionL v bs kp ci.kw [] (fun n => rdCellSection cfg cm v np ci N n) with
    | error e => simp [a1] at h1
    | ok g =>
    simp only [a1] at h1
    cases a2 : rdCellGroupsP cfg cm v np bs kp N cis with
    | error e => simp [a2] at h1
    | ok gs' =>
    simp only [a2] at h1
    cases b1 : kwSection v bs kp ci.kw [] (fun n => rdCells cfg v ci N n.toNat) with
    | error e => simp [b1] at h2
    | ok c =>
    simp only [b1] at h2
    cases b2 : rdCellGroups cfg v bs kp N cis with
    | error e => simp [b2] at h2
    | ok cs' =>
    simp only [b2] at h2
    injection h1 with h1; injection h2 with h2
    subst h1 h2
    rw [group_rel (hp ci List.mem_cons_self) hN31 a1 b1,
      ih (fun c hc => hp c (List.mem_cons_of_mem _ hc)) a2 b2]
    rfl

/-- the dimension both readers saw -/
theorem parse_twod {cfg : Cfg} {np cm : Nat} {bs : Bytes} {p : Parsed} (h : parseWith cfg np cm bs = .ok p) :
    ∃ v kp n1 s1 dim s2, header cfg bs = .ok (v, kp) ∧ jump v bs kp 3 = .ok (some (n1, s1)) ∧
      rdI32 s1 = .ok (dim, s2) ∧ p.twod = decide (dim = 2) ∧
      ∃ next s0 s, jump v bs kp 4 = .ok (some (next, s0)) ∧ rdLong v s0 = .ok (p.nnode, s) ∧
        ∃ r, rdBlocks v p.twod (blockCounts p.nnode np) s = .ok (p.blocks, r) := by
  unfold parseWith at h
  cases h0 : header cfg bs with
  | error e => simp [h0] at h
  | ok p0 =>
  obtain ⟨v, kp⟩ := p0
  simp only [h0] at h
  cases h1 : jump v bs kp 3 with
  | error e => simp [h1] at h
  | ok o1 =>
  cases o1 with
  | none => simp [h1] at h
  | some q1 =>
  obtain ⟨n1, s1⟩ := q1
  simp only [h1] at h
  cases h2 : rdI32 s1 with
  | error e => simp [h2] at h
  | ok q2 =>
  obtain ⟨dim, s2⟩ := q2
  simp only [h2] at h
  cases h3 : jump v bs kp 4 with
  | error e => simp [h3] at h
  | ok o3 =>
  cases o3 with
  | none => simp [h3] at h
  | some q3 =>
  obtain ⟨next, s3⟩ := q3
  simp only [h3] at h
  cases h4 : rdLong v s3 with
  | error e => simp [h4] at h
  | ok q4 =>
  obtain ⟨nnode, s4⟩ := q4
  simp only [h4] at h
  cases h5 : rdBlocks v (decide (dim = 2)) (blockCounts nnode np) s4 with
  | error e => simp [h5] at h
  | ok q5 =>
  obtain ⟨blocks, s5⟩ := q5
  simp only [h5] at h
  split at h
  · simp at h
  · cases h6 : rdCellGroupsP cfg cm v np bs kp nnode cellInfos with
    | error e => simp [h6] at h
    | ok groups =>
    simp only [h6] at h
    cases h7 : rdGeomTypesP cfg cm v np bs kp [0, 1, 2] with
    | error e => simp [h7] at h
    | ok geoms =>
    simp only [h7] at h
    cases h8 : rdCad cfg v bs kp with
    | error e => simp [h8] at h
    | ok cad =>
    simp only [h8] at h
    injection h with h
    subst h
    exact ⟨v, kp, n1, s1, dim, s2, rfl, h1, h2, rfl, next, s3, s4, h3, h4, s5, h5⟩

theorem decode_twod {cfg : Cfg} {bs : Bytes} {m : MeshFile} (h : decodeMeshbWith cfg bs = .ok m) :
    ∃ v kp n1 s1 dim s2, header cfg bs = .ok (v, kp) ∧ jump v bs kp 3 = .ok (some (n1, s1)) ∧
      rdI32 s1 = .ok (dim, s2) ∧ m.twod = decide (dim = 2) := by
  unfold decodeMeshbWith at h
  cases h1 : header cfg bs with
  | error e => simp [h1] at h
  | ok p1 =>
  obtain ⟨v, kp⟩ := p1
  simp only [h1] at h
  cases h2 : jump v bs kp 3 with
  | error e => simp [h2] at h
  | ok o2 =>
  cases o2 with
  | none => simp [h2] at h
  | some p2 =>
  obtain ⟨n2, s2⟩ := p2
  simp only [h2] at h
  cases h3 : rdI32 s2 with
  | error e => simp [h3] at h
  | ok p3 =>
  obtain ⟨dim, s3⟩ := p3
  simp only [h3] at h
  split at h
  · simp at h
  · cases h4 : jump v bs kp 4 with
    | error e => simp [h4] at h
    | ok o4 =>
    cases o4 with
    | none => simp [h4] at h
    | some p4 =>
    obtain ⟨next, s0⟩ := p4
    simp only [h4] at h
    cases h5 : rdInt v s0 with
    | error e => simp [h5] at h
    | ok p5 =>
    obtain ⟨nnode, s⟩ := p5
    simp only [h5] at h
    cases h6 : rdVerts v (decide (dim = 2)) nnode.toNat s with
    | error e => simp [h6] at h
    | ok p6 =>
    obtain ⟨nodes, s'⟩ := p6
    simp only [h6] at h
    split at h
    · simp at h
    · cases h7 : rdCellGroups cfg v bs kp nnode cellInfos with
      | error e => simp [h7] at h
      | ok cells =>
      simp only [h7] at h
      cases h8 : rdGeomTypes cfg v bs kp nnode [0, 1, 2] [] with
      | error e => simp [h8] at h
      | ok geoms =>
      simp only [h8] at h
      cases h9 : rdCad cfg v bs kp with
      | error e => simp [h9] at h
      | ok cad =>
      simp only [h9] at h
      injection h with h
      subst h
      exact ⟨v, kp, n2, s2, dim, s3, rfl, h2, h3, rfl⟩

theorem blocks_total {np : Nat} {p : Parsed} (hnp : 1 ≤ np) (hp : ParsedOK np p) :
    p.blocks.flatten.length = p.nnode.toNat := by
  have h := congrArg List.length (blocks_concat hnp hp np (le_refl _))
  have hn := Refine.Props.C07.first_np p.nnode (np : Int) hp.nn (by omega)
  have hf : firstOf p.nnode np np = p.nnode := hn
  rw [hf, List.length_map, List.length_range, List.length_flatMap] at h
  rw [flatten_eq_flatMap_range, hp.blocks.1, List.length_flatMap, ← h]
  congr 1
  apply List.map_congr_left
  intro r _
  simp

/-- **what rank 0 of the parallel reader reads is what the serial reader reads**, when both accept the file, the
    file has `double` coordinates (version ≥ 2) and `1 ≤ nnode < 2^31` -/
theorem parse_eq_serial {cfg : Cfg} {np cm : Nat} {bs : Bytes} {p : Parsed} {m : MeshFile} (hnp : 1 ≤ np)
    (h1 : parseWith cfg np cm bs = .ok p) (h2 : decodeMeshbWith cfg bs = .ok m) (hp : ParsedOK np p)
    (hN31 : p.nnode < 2 ^ 31) (hv : ∀ v kp, header cfg bs = .ok (v, kp) → 2 ≤ v) :
    p.twod = m.twod ∧ p.blocks.flatten = m.nodes ∧ p.cad = m.cad ∧
    m.cells = (cellInfos.zip p.groups).map fun x => x.2.flatten.map (norm x.1) := by
  obtain ⟨v, kp, n1, s1, dim, s2, a0, a1, a2, a3, next, s0, s, a4, a5, r, a6⟩ := parse_twod h1
  obtain ⟨v', kp', n1', s1', dim', s2', b0, b1, b2, b3⟩ := decode_twod h2
  rw [a0] at b0
  injection b0 with b0
  injection b0 with e1 e2
  subst e1 e2
  rw [a1] at b1
  injection b1 with b1
  injection b1 with b1
  injection b1 with e1 e2
  subst e1 e2
  rw [a2] at b2
  injection b2 with b2
  injection b2 with e1 e2
  subst e1 e2
  have htw : p.twod = m.twod := by rw [a3, b3]
  obtain ⟨v', kp', next', s0', nnode, s', s'', c0, c1, c2, c3, c4, _, c6⟩ := decode_inv h2
  rw [a0] at c0
  injection c0 with c0
  injection c0 with e1 e2
  subst e1 e2
  rw [a4] at c1
  injection c1 with c1
  injection c1 with c1
  injection c1 with e1 e2
  subst e1 e2
  rw [rdLong_rdInt a5] at c2
  injection c2 with c2
  injection c2 with e1 e2
  subst e2
  have hNw : wrap32 p.nnode = p.nnode := wrap32_of_range _ (by
    have := hp.nn
    have : (2 : Int) ^ 31 = 2147483648 := by norm_num
    omega)
  rw [hNw] at e1
  subst e1
  obtain ⟨_, _, _, _, _, _, d2, _, d4⟩ := parse_inv h1
  obtain ⟨v'', kp'', s3, r3, d0, _, d2, _, d4⟩ := parse_inv h1
  rw [a0] at d0
  injection d0 with d0
  injection d0 with e1 e2
  subst e1 e2
  refine ⟨htw, ?_, ?_, ?_⟩
  · have hb := rdBlocks_flatten _ a6
    rw [blocks_total hnp hp, rdVertsD_eq_rdVerts (hv v kp a0), htw, c3] at hb
    injection hb with hb
    injection hb with hb _
    exact hb.symm
  · rw [d4] at c6
    injection c6 with c6
  · exact groups_rel hN31 cellInfos cellInfos_pyr d2 c4

end Refine.Lemmas.PartMeshb
