import Refine.Model.Formats
import Refine.Lemmas.UgridC20

/-! what the token-level readers of `Refine.Model.Formats` guarantee about an accepted file -/
namespace Refine.Lemmas.Formats
open Refine.Model.Formats
open Refine.Model.Meshb (Status Vertex Cfg adjAdd adjAddAll)
open Refine.Model.Ugrid (Kind)

/-! ### counted readers return what was counted -/

theorem rdDs_length {k : Nat} {ts r : List Tok} {xs : List Int} (h : rdDs k ts = .ok (xs, r)) : xs.length = k := by
  induction k generalizing ts xs r with
  | zero => simp [rdDs] at h; simp [h.1]
  | succ k ih =>
    simp only [rdDs] at h
    cases h1 : rdD ts with
    | error e => simp [h1] at h
    | ok p =>
      obtain ⟨x, ts'⟩ := p
      simp only [h1] at h
      cases h2 : rdDs k ts' with
      | error e => simp [h2] at h
      | ok q =>
        obtain ⟨ys, r'⟩ := q
        simp only [h2, Except.ok.injEq, Prod.mk.injEq] at h
        rw [← h.1, List.length_cons, ih h2]

theorem rdLfs_length {k : Nat} {ts r : List Tok} {xs : List UInt64} (h : rdLfs k ts = .ok (xs, r)) : xs.length = k := by
  induction k generalizing ts xs r with
  | zero => simp [rdLfs] at h; simp [h.1]
  | succ k ih =>
    simp only [rdLfs] at h
    cases h1 : rdLf ts with
    | error e => simp [h1] at h
    | ok p =>
      obtain ⟨x, ts'⟩ := p
      simp only [h1] at h
      cases h2 : rdLfs k ts' with
      | error e => simp [h2] at h
      | ok q =>
        obtain ⟨ys, r'⟩ := q
        simp only [h2, Except.ok.injEq, Prod.mk.injEq] at h
        rw [← h.1, List.length_cons, ih h2]

theorem rdVerts3_length {n : Nat} {ts r : List Tok} {vs : List Vertex} (h : rdVerts3 n ts = .ok (vs, r)) :
    vs.length = n := by
  induction n generalizing ts vs r with
  | zero => simp [rdVerts3] at h; simp [h.1]
  | succ n ih =>
    simp only [rdVerts3] at h
    cases h1 : rdLfs 3 ts with
    | error e => simp [h1] at h
    | ok p =>
      obtain ⟨f, ts'⟩ := p
      simp only [h1] at h
      cases h2 : rdVerts3 n ts' with
      | error e => simp [h2] at h
      | ok q =>
        obtain ⟨ws, r'⟩ := q
        simp only [h2, Except.ok.injEq, Prod.mk.injEq] at h
        rw [← h.1, List.length_cons, ih h2]

theorem rdVerts2_length {n : Nat} {ts r : List Tok} {vs : List Vertex} (h : rdVerts2 n ts = .ok (vs, r)) :
    vs.length = n := by
  induction n generalizing ts vs r with
  | zero => simp [rdVerts2] at h; simp [h.1]
  | succ n ih =>
    simp only [rdVerts2] at h
    cases h1 : rdLfs 2 ts with
    | error e => simp [h1] at h
    | ok p =>
      obtain ⟨f, ts'⟩ := p
      simp only [h1] at h
      cases h2 : rdVerts2 n ts' with
      | error e => simp [h2] at h
      | ok q =>
        obtain ⟨ws, r'⟩ := q
        simp only [h2, Except.ok.injEq, Prod.mk.injEq] at h
        rw [← h.1, List.length_cons, ih h2]

theorem rdVertsSurf_length {n : Nat} {ts r : List Tok} {vs : List Vertex} (h : rdVertsSurf n ts = .ok (vs, r)) :
    vs.length = n := by
  induction n generalizing ts vs r with
  | zero => simp [rdVertsSurf] at h; simp [h.1]
  | succ n ih =>
    simp only [rdVertsSurf] at h
    cases h1 : rdLfs 3 ts with
    | error e => simp [h1] at h
    | ok p =>
      obtain ⟨f, ts'⟩ := p
      simp only [h1] at h
      cases h3 : skipLine 0 ts' with
      | none => simp [h3] at h
      | some ts'' =>
        simp only [h3] at h
        cases h2 : rdVertsSurf n ts'' with
        | error e => simp [h2] at h
        | ok q =>
          obtain ⟨ws, r'⟩ := q
          simp only [h2, Except.ok.injEq, Prod.mk.injEq] at h
          rw [← h.1, List.length_cons, ih h2]

/-! ### indices -/

/-- `rdIdx` returns `k` values; with the test switched on, each is in `1..nnode` -/
theorem rdIdx_ok {chk : Bool} {nnode : Int} {k : Nat} {ts r : List Tok} {xs : List Int}
    (h : rdIdx chk nnode k ts = .ok (xs, r)) :
    xs.length = k ∧ (chk = true → ∀ x ∈ xs, 1 ≤ x ∧ x ≤ nnode) := by
  induction k generalizing ts xs r with
  | zero => simp [rdIdx] at h; simp [h.1]
  | succ k ih =>
    simp only [rdIdx] at h
    cases h1 : rdD ts with
    | error e => simp [h1] at h
    | ok p =>
      obtain ⟨x, ts'⟩ := p
      simp only [h1] at h
      split at h
      · simp [fail] at h
      · rename_i hx
        cases h2 : rdIdx chk nnode k ts' with
        | error e => simp [h2] at h
        | ok q =>
          obtain ⟨ys, r'⟩ := q
          simp only [h2, Except.ok.injEq, Prod.mk.injEq] at h
          obtain ⟨hl, hr⟩ := ih h2
          refine ⟨by rw [← h.1, List.length_cons, hl], fun hc y hy => ?_⟩
          rw [← h.1] at hy
          simp only [List.mem_cons] at hy
          rcases hy with rfl | hy
          · by_contra hcon
            exact hx ⟨hc, hcon⟩
          · exact hr hc y hy

/-- `addCell1`: the cell is the row minus one followed by the id slot, and every node is ≥ 0 -/
theorem addCell1_ok {raw tail c : List Int} (h : addCell1 raw tail = .ok c) :
    c = raw.map (· - 1) ++ tail ∧ ∀ x ∈ raw, 1 ≤ x := by
  unfold addCell1 at h
  split at h
  · simp [ub] at h
  · cases ha : adjAddAll Cfg.faithful (raw.map (· - 1)) with
    | error e => simp [ha] at h
    | ok u =>
      simp only [ha, Except.ok.injEq] at h
      have hnn := Refine.Lemmas.Ugrid.adjAddAll_nonneg ha
      refine ⟨h.symm, fun x hx => ?_⟩
      have := hnn (x - 1) (List.mem_map.mpr ⟨x, hx, rfl⟩)
      omega

theorem addCell0_ok {nodes tail c : List Int} (h : addCell0 nodes tail = .ok c) :
    c = nodes ++ tail ∧ ∀ x ∈ nodes, 0 ≤ x := by
  unfold addCell0 at h
  cases ha : adjAddAll Cfg.faithful nodes with
  | error e => simp [ha] at h
  | ok u =>
    simp only [ha, Except.ok.injEq] at h
    exact ⟨h.symm, Refine.Lemmas.Ugrid.adjAddAll_nonneg ha⟩

/-- the node part of a cell: its first `per` entries, all in `[lo, hi)` -/
def nodesIn (per : Nat) (lo hi : Int) (c : List Int) : Prop :=
  per ≤ c.length ∧ ∀ x ∈ c.take per, lo ≤ x ∧ x < hi

/-- what `rdCells1` returns: `n` cells; the nodes of every cell are ≥ 0, and below `nnode` when the test is on -/
theorem rdCells1_ok {chk : Bool} {nnode : Int} {per extra keep : Nat} {e : Bool} {n : Nat} {ts r : List Tok}
    {cs : List (List Int)} (h : rdCells1 chk nnode per extra keep e n ts = .ok (cs, r)) :
    cs.length = n ∧ (∀ c ∈ cs, per ≤ c.length ∧ ∀ x ∈ c.take per, 0 ≤ x) ∧
      (chk = true → ∀ c ∈ cs, nodesIn per 0 nnode c) := by
  induction n generalizing ts cs r with
  | zero => simp [rdCells1] at h; simp [h.1, nodesIn]
  | succ n ih =>
    simp only [rdCells1] at h
    cases h1 : rdIdx chk nnode per ts with
    | error e => simp [h1] at h
    | ok p =>
      obtain ⟨raw, ts1⟩ := p
      simp only [h1] at h
      cases h2 : rdDs extra ts1 with
      | error e => simp [h2] at h
      | ok p2 =>
        obtain ⟨ex, ts2⟩ := p2
        simp only [h2] at h
        cases h3 : addCell1 raw (if e then [-1] else ex.take keep) with
        | error e => simp [h3] at h
        | ok c =>
          simp only [h3] at h
          cases h4 : rdCells1 chk nnode per extra keep e n ts2 with
          | error e => simp [h4] at h
          | ok p4 =>
            obtain ⟨cs', r'⟩ := p4
            simp only [h4, Except.ok.injEq, Prod.mk.injEq] at h
            obtain ⟨hlen, hidx⟩ := rdIdx_ok h1
            obtain ⟨hc, hpos⟩ := addCell1_ok h3
            obtain ⟨il, inn, ichk⟩ := ih h4
            have hrawlen : (raw.map (· - 1)).length = per := by simp [hlen]
            have htake : c.take per = raw.map (· - 1) := by
              rw [hc, List.take_append_of_le_length (by omega), List.take_of_length_le (by omega)]
            have hcl : per ≤ c.length := by rw [hc]; simp; omega
            refine ⟨by rw [← h.1, List.length_cons, il], ?_, ?_⟩
            · intro d hd
              rw [← h.1] at hd
              simp only [List.mem_cons] at hd
              rcases hd with rfl | hd
              · refine ⟨hcl, fun x hx => ?_⟩
                rw [htake] at hx
                obtain ⟨y, hy, rfl⟩ := List.mem_map.mp hx
                have := hpos y hy
                omega
              · exact inn d hd
            · intro hchk d hd
              rw [← h.1] at hd
              simp only [List.mem_cons] at hd
              rcases hd with rfl | hd
              · refine ⟨hcl, fun x hx => ?_⟩
                rw [htake] at hx
                obtain ⟨y, hy, rfl⟩ := List.mem_map.mp hx
                have := hidx hchk y hy
                omega
              · exact ichk hchk d hd

/-- writing the ids into the id slot keeps the nodes of every cell -/
theorem setIds_nodes {per : Nat} {cs : List (List Int)} {ids : List Int} {lo hi : Int}
    (h : ∀ c ∈ cs, nodesIn per lo hi c) : ∀ c ∈ setIds per cs ids, nodesIn per lo hi c := by
  induction cs generalizing ids with
  | nil => cases ids <;> simp [setIds]
  | cons c cs ih =>
    cases ids with
    | nil => simpa [setIds] using h
    | cons t ts =>
      intro d hd
      simp only [setIds, List.mem_cons] at hd
      rcases hd with rfl | hd
      · obtain ⟨hl, hx⟩ := h c (by simp)
        have ht : (c.take per ++ [t]).take per = c.take per := by
          rw [List.take_append_of_le_length (by simp; omega), List.take_of_length_le (by simp)]
        exact ⟨by simp; omega, by rw [ht]; exact hx⟩
      · exact ih (fun c hc => h c (by simp [hc])) d hd

theorem setIds_length {per : Nat} {cs : List (List Int)} {ids : List Int} : (setIds per cs ids).length = cs.length := by
  induction cs generalizing ids with
  | nil => cases ids <;> simp [setIds]
  | cons c cs ih => cases ids <;> simp [setIds, ih]

/-- `cellsInRange` from `nodesIn` -/
theorem cellsInRange_of {n : Int} {per : Nat} {cs : List (List Int)} (h : ∀ c ∈ cs, nodesIn per 0 n c) :
    cellsInRange n per cs = true := by
  unfold cellsInRange
  rw [List.all_eq_true]
  intro c hc
  rw [List.all_eq_true]
  intro x hx
  exact decide_eq_true ((h c hc).2 x hx)

theorem map_append_nodes {per : Nat} {lo hi : Int} {cs : List (List Int)} {t : List Int}
    (h : ∀ c ∈ cs, nodesIn per lo hi c) : ∀ c ∈ cs.map (· ++ t), nodesIn per lo hi c := by
  intro d hd
  obtain ⟨c, hc, rfl⟩ := List.mem_map.mp hd
  obtain ⟨hl, hx⟩ := h c hc
  refine ⟨by simp; omega, ?_⟩
  rw [List.take_append_of_le_length hl]
  exact hx

end Refine.Lemmas.Formats
