import Refine.Model.PhysDist
import Refine.Lemmas.Comm
import Refine.Lemmas.PartLemmas
import Refine.Lemmas.DistGhostFull
import Refine.Props.C17

/-!
  The query exchange of `ref_phys_wall_distance` (`Refine.Model.PhysDist.wallDistParWith`): destinations are ranks,
  the `a_next` pack is the bucket layout, the first `ref_mpi_alltoallv` delivers every query to its destination, the
  second one returns the answers in the bucket layout of the ASKING rank, and the second `a_next` walk (`collect`)
  puts every answer on the vertex that asked.
-/
namespace Refine.Lemmas.PhysDist
open Refine Refine.Model Refine.Model.Geom Refine.Model.PhysDist
open Refine.Model.Comm Refine.Lemmas.Comm

set_option linter.unusedSectionVars false

variable {α : Type} [Inhabited α]

/-! ## vocabulary -/

/-- the three scalars of a point, as sent -/
def item (p : V3 α) : List α := [p.x, p.y, p.z]

/-- a received item as a point -/
def unitem (l : List α) : V3 α := ⟨l.getD 0 default, l.getD 1 default, l.getD 2 default⟩

theorem unitem_item (p : V3 α) : unitem (item p) = p := by
  cases p; rfl

/-- the queries that leave rank `me`, as `(destination, item)` pairs in node order -/
def pairsOf (me : Nat) (pl : List (Int × V3 α)) : List (Nat × List α) :=
  (sentOf me pl).map fun p => (p.1.toNat, item p.2)

/-- all ranks -/
def pairsW (w : World (PRank α)) : World (List (Nat × List α)) :=
  w.mapIdx fun me r => pairsOf me (plan w.length me r)

theorem pairsW_length (w : World (PRank α)) : (pairsW w).length = w.length := by simp [pairsW]

/-! ## destinations are ranks -/

theorem plan_dest_range (np me : Nat) (hnp : 1 ≤ np) (r : PRank α) :
    ∀ p ∈ plan np me r, 0 ≤ p.1 ∧ p.1 < (np : Int) := by
  intro p hp
  unfold plan at hp
  simp only [List.mem_mapIdx] at hp
  obtain ⟨k, hk, rfl⟩ := hp
  simp only
  have hk' : k < nbalance np (r.nodes.filter fun nd => nd.part == (me : Int)).length := by
    simp only [List.length_take] at hk
    omega
  have h := Refine.Lemmas.Part.implicit_bracket
    (nbalance np (r.nodes.filter fun nd => nd.part == (me : Int)).length : Int) (np : Int) (k : Int)
    (by omega) (by omega) (by omega) (by omega)
  exact ⟨h.1, h.2.1⟩

theorem pairsOf_dest (np me : Nat) (hnp : 1 ≤ np) (r : PRank α) :
    ∀ x ∈ pairsOf me (plan np me r), x.1 < np := by
  intro x hx
  simp only [pairsOf, sentOf, List.mem_map, List.mem_filter] at hx
  obtain ⟨p, ⟨hp, _⟩, rfl⟩ := hx
  have := plan_dest_range np me hnp r p hp
  simp only
  omega

theorem pairsOf_item (me : Nat) (pl : List (Int × V3 α)) : ∀ x ∈ pairsOf me pl, x.2.length = 3 := by
  intro x hx
  simp only [pairsOf, List.mem_map] at hx
  obtain ⟨p, _, rfl⟩ := hx
  rfl

theorem pairsW_dest (w : World (PRank α)) : ∀ pairs ∈ pairsW w, ∀ x ∈ pairs, x.1 < (pairsW w).length := by
  intro pairs hp x hx
  rw [pairsW_length]
  simp only [pairsW, List.mem_mapIdx] at hp
  obtain ⟨me, hme, rfl⟩ := hp
  exact pairsOf_dest w.length me (by omega) _ x hx

theorem pairsW_item (w : World (PRank α)) : ∀ pairs ∈ pairsW w, ∀ x ∈ pairs, x.2.length = 3 := by
  intro pairs hp x hx
  simp only [pairsW, List.mem_mapIdx] at hp
  obtain ⟨me, _, rfl⟩ := hp
  exact pairsOf_item me _ x hx

/-- the model's `Blind` of a rank is `blindOf` of its pairs -/
theorem blindOfPlan_eq (np me : Nat) (hnp : 1 ≤ np) (r : PRank α) :
    blindOfPlan me (plan np me r) = blindOf (pairsOf me (plan np me r)) := by
  unfold blindOfPlan blindOf pairsOf
  have hnn : ∀ p ∈ sentOf me (plan np me r), ((p.1.toNat : Nat) : Int) = p.1 := by
    intro p hp
    have := plan_dest_range np me hnp r p (List.mem_filter.mp hp).1
    omega
  congr 1
  · rw [List.map_map]
    apply List.map_congr_left
    intro p hp
    exact (hnn p hp).symm
  · rw [List.map_map, List.flatMap_def]
    rfl

theorem blinds_eq (w : World (PRank α)) :
    ((w.mapIdx fun me r => plan w.length me r).mapIdx fun me pl => blindOfPlan me pl) = (pairsW w).map blindOf := by
  apply List.ext_getElem
  · simp [pairsW]
  · intro me h1 h2
    have hme : me < w.length := by simpa using h1
    simp only [List.getElem_mapIdx, List.getElem_map, pairsW]
    exact blindOfPlan_eq w.length me (by omega) _

/-! ## points and items -/

theorem pts_items (its : List (List α)) (h : ∀ it ∈ its, it.length = 3) : pts its.flatten = its.map unitem := by
  induction its with
  | nil => rfl
  | cons it rest ih =>
    have h3 := h it List.mem_cons_self
    match it, h3 with
    | [a, b, c], _ =>
      simp only [List.flatten_cons, List.cons_append, List.nil_append, pts, List.map_cons]
      rw [ih (fun it hit => h it (List.mem_cons_of_mem _ hit))]
      rfl

/-! ## the first `ref_mpi_alltoallv`: every query reaches its destination -/

/-- `a_size` of every rank -/
def aSizesW (pw : World (List (Nat × List α))) : World (List Int) :=
  (pw.map blindOf).map fun b => countDest pw.length b.proc

theorem exch1 (pw : World (List (Nat × List α)))
    (hd : ∀ pairs ∈ pw, ∀ x ∈ pairs, x.1 < pw.length) (hi : ∀ pairs ∈ pw, ∀ x ∈ pairs, x.2.length = 3)
    (hsend : ∀ pairs ∈ pw, (3 : Int) * pairs.length ≤ Comm.INT_MAX)
    (hrecv : ∀ r, r < pw.length → (3 : Int) * (delivered r pw).length ≤ Comm.INT_MAX) :
    alltoallv false RefType.dbl 0 3
        (((pw.map blindOf).zip (mpiAlltoall (aSizesW pw))).map fun x => blindArgs 3 pw.length x.1 x.2)
      = some ((List.range pw.length).map fun r => (Comm.Status.ok, (delivered r pw).flatten)) := by
  unfold aSizesW
  rw [blindArgs_world 3 pw hd hi]
  have hnp : (blindBlocks pw).length = pw.length := by simp [blindBlocks]
  have h := Refine.Props.C17.alltoallv_spec (α := α) RefType.dbl rfl 0 3 (blindBlocks pw)
    (fun r => List.replicate (3 * (delivered r pw).length) default)
    (blindBlocks_items 3 pw hi)
    (by
      intro r hr
      rw [countsI_column_sum pw r (by omega)]
      simp)
    (by
      intro b hb
      simp only [blindBlocks, List.mem_map] at hb
      obtain ⟨pairs, hp, rfl⟩ := hb
      rw [countsI_blindRow pw.length pairs (hd pairs hp)]
      exact hsend pairs hp)
    (by
      intro r hr
      rw [countsI_column_sum pw r (by omega)]
      exact hrecv r (by omega))
  rw [hnp] at h
  simp only [Nat.cast_ofNat] at h
  rw [h]
  congr 1
  apply List.map_congr_left
  intro r hr
  rw [column_blindBlocks pw r (List.mem_range.mp hr), delivered, List.flatMap_def]

/-! ## the second `ref_mpi_alltoallv`: the answers travel back in the bucket layout of the asking rank -/

theorem flatten_flatten_singletons {β γ δ : Type} (L : List β) (f : β → List γ) (g : β → γ → δ) :
    ((L.map fun r => (f r).map fun it => [g r it]).flatten).flatten = L.flatMap fun r => (f r).map (g r) := by
  induction L with
  | nil => rfl
  | cons r rs ih =>
    simp only [List.map_cons, List.flatten_cons, List.flatten_append, List.flatMap_cons, ih,
      Refine.Lemmas.DistGhostFull.flatten_map_singleton]

/-- `blocks2[r][s]`: the answers rank `r` returns to rank `s` (one scalar per query) -/
def blocks2 (A : Nat → List α → α) (pw : World (List (Nat × List α))) : List (List (List (List α))) :=
  (List.range pw.length).map fun r => pw.map fun pairs => (bucket r pairs).map fun it => [A r it]

theorem blocks2_length (A : Nat → List α → α) (pw : World (List (Nat × List α))) :
    (blocks2 A pw).length = pw.length := by simp [blocks2]

theorem column_blocks2 (A : Nat → List α → α) (pw : World (List (Nat × List α))) (s : Nat) (hs : s < pw.length) :
    column s (blocks2 A pw) = (List.range pw.length).map fun r => (bucket r pw[s]).map fun it => [A r it] := by
  simp only [column, blocks2, List.map_map, Function.comp_def]
  apply List.map_congr_left
  intro r _
  rw [Refine.Lemmas.DistGhostFull.getD_lt _ _ (by simpa using hs), List.getElem_map]

/-- the arguments of the second exchange as the model forms them -/
def args2W (A : Nat → List α → α) (pw : World (List (Nat × List α))) : World (A2A α) :=
  (((List.range pw.length).map fun r => (delivered r pw).map (A r)).zip
      ((aSizesW pw).zip (mpiAlltoall (aSizesW pw)))).map fun x =>
    ⟨x.1, x.2.2, List.replicate (isum x.2.1).toNat default, x.2.1⟩

theorem aSizesW_getElem (pw : World (List (Nat × List α))) (hd : ∀ pairs ∈ pw, ∀ x ∈ pairs, x.1 < pw.length)
    (s : Nat) (hs : s < pw.length) (h : s < (aSizesW pw).length) :
    (aSizesW pw)[s] = countsI ((List.range pw.length).map fun q => bucket q pw[s]) := by
  simp only [aSizesW, List.getElem_map]
  exact countDest_blindOf pw.length pw[s] (hd _ (List.getElem_mem hs))

theorem args2W_eq (A : Nat → List α → α) (pw : World (List (Nat × List α)))
    (hd : ∀ pairs ∈ pw, ∀ x ∈ pairs, x.1 < pw.length) :
    args2W A pw = a2aWorld (blocks2 A pw) (fun s => List.replicate (pw.getD s []).length default) := by
  apply List.ext_getElem
  · simp [args2W, aSizesW, mpiAlltoall, a2aWorld, blocks2]
  · intro s h1 h2
    have hs : s < pw.length := by simpa [a2aWorld, blocks2] using h2
    have hsa : s < (aSizesW pw).length := by simp [aSizesW, hs]
    simp only [args2W, a2aWorld, List.getElem_map, List.getElem_zip, List.getElem_mapIdx, List.getElem_range]
    have hB : (mpiAlltoall (aSizesW pw))[s]'(by simp [mpiAlltoall, aSizesW, hs])
        = countsI (column s (blindBlocks pw)) := by
      simp only [mpiAlltoall, List.getElem_map, List.getElem_range, aSizesW, List.map_map, Function.comp_def]
      exact bSize_blind pw hd s hs
    have hA := aSizesW_getElem pw hd s hs hsa
    have hAsum : isum (aSizesW pw)[s] = (pw[s].length : Int) := by
      rw [hA, isum_eq_sum, countsI_blindRow pw.length pw[s] (hd _ (List.getElem_mem hs))]
    rw [hB, hA] at *
    rw [hAsum]
    simp only [Int.toNat_natCast, Refine.Lemmas.DistGhostFull.getD_lt _ _ hs]
    congr 1
    · -- send buffer
      simp only [blocks2, List.getElem_map, List.getElem_range, List.map_map, Function.comp_def, delivered,
        List.flatMap_def, List.map_flatten]
      congr 1
      apply List.map_congr_left
      intro pairs _
      simp [Refine.Lemmas.DistGhostFull.flatten_map_singleton]
    · -- send sizes
      rw [column_blindBlocks pw s hs]
      simp [blocks2, countsI, List.map_map, Function.comp_def]
    · -- receive sizes
      rw [column_blocks2 A pw s hs]
      simp [countsI, List.map_map, Function.comp_def]

theorem exch2 (A : Nat → List α → α) (pw : World (List (Nat × List α)))
    (hd : ∀ pairs ∈ pw, ∀ x ∈ pairs, x.1 < pw.length)
    (hsend : ∀ pairs ∈ pw, (pairs.length : Int) ≤ Comm.INT_MAX)
    (hrecv : ∀ r, r < pw.length → ((delivered r pw).length : Int) ≤ Comm.INT_MAX) :
    alltoallv false RefType.dbl 0 1 (args2W A pw)
      = some ((List.range pw.length).map fun s =>
          (Comm.Status.ok, (List.range pw.length).flatMap fun q => (bucket q (pw.getD s [])).map (A q))) := by
  rw [args2W_eq A pw hd]
  have h := Refine.Props.C17.alltoallv_spec (α := α) RefType.dbl rfl 0 1 (blocks2 A pw)
    (fun s => List.replicate (pw.getD s []).length default)
    (by
      intro b hb blk hblk it hit
      simp only [blocks2, List.mem_map] at hb
      obtain ⟨r, _, rfl⟩ := hb
      simp only [List.mem_map] at hblk
      obtain ⟨pairs, _, rfl⟩ := hblk
      simp only [List.mem_map] at hit
      obtain ⟨x, _, rfl⟩ := hit
      rfl)
    (by
      intro s hs
      rw [blocks2_length] at hs
      rw [column_blocks2 A pw s hs, Refine.Lemmas.DistGhostFull.getD_lt _ _ hs]
      have := countsI_blindRow pw.length pw[s] (hd _ (List.getElem_mem hs))
      simp only [countsI, List.map_map, Function.comp_def, List.length_map] at this ⊢
      simp [this])
    (by
      intro b hb
      simp only [blocks2, List.mem_map] at hb
      obtain ⟨r, hr, rfl⟩ := hb
      have hr' := List.mem_range.mp hr
      have : (countsI (pw.map fun pairs => (bucket r pairs).map fun it => [A r it])).sum
          = ((delivered r pw).length : Int) := by
        have := countsI_column_sum pw r hr'
        rw [column_blindBlocks pw r hr'] at this
        simpa [countsI, List.map_map, Function.comp_def] using this
      rw [this]
      simpa using hrecv r hr')
    (by
      intro s hs
      rw [blocks2_length] at hs
      rw [column_blocks2 A pw s hs]
      have := countsI_blindRow pw.length pw[s] (hd _ (List.getElem_mem hs))
      simp only [countsI, List.map_map, Function.comp_def, List.length_map] at this ⊢
      rw [this]
      simpa using hsend _ (List.getElem_mem hs))
  rw [blocks2_length] at h
  simp only [Nat.cast_one] at h
  rw [h]
  congr 1
  apply List.map_congr_left
  intro s hs
  have hs' := List.mem_range.mp hs
  rw [column_blocks2 A pw s hs', Refine.Lemmas.DistGhostFull.getD_lt _ _ hs']
  rw [flatten_flatten_singletons (List.range pw.length) (fun r => bucket r pw[s]) A]

/-- the two exchanges with the rank count as a separate name (`np = pw.length`) -/
theorem exch1_np (np : Nat) (pw : World (List (Nat × List α))) (hnp : pw.length = np)
    (hd : ∀ pairs ∈ pw, ∀ x ∈ pairs, x.1 < np) (hi : ∀ pairs ∈ pw, ∀ x ∈ pairs, x.2.length = 3)
    (hsend : ∀ pairs ∈ pw, (3 : Int) * pairs.length ≤ Comm.INT_MAX)
    (hrecv : ∀ r, r < np → (3 : Int) * (delivered r pw).length ≤ Comm.INT_MAX) :
    alltoallv false RefType.dbl 0 3
        (((pw.map blindOf).zip (mpiAlltoall ((pw.map blindOf).map fun b => countDest np b.proc))).map
          fun x => blindArgs 3 np x.1 x.2)
      = some ((List.range np).map fun r => (Comm.Status.ok, (delivered r pw).flatten)) := by
  subst hnp
  exact exch1 pw hd hi hsend hrecv

theorem exch2_np (np : Nat) (A : Nat → List α → α) (pw : World (List (Nat × List α))) (hnp : pw.length = np)
    (hd : ∀ pairs ∈ pw, ∀ x ∈ pairs, x.1 < np)
    (hsend : ∀ pairs ∈ pw, (pairs.length : Int) ≤ Comm.INT_MAX)
    (hrecv : ∀ r, r < np → ((delivered r pw).length : Int) ≤ Comm.INT_MAX) :
    alltoallv false RefType.dbl 0 1
        ((((List.range np).map fun r => (delivered r pw).map (A r)).zip
            (((pw.map blindOf).map fun b => countDest np b.proc).zip
              (mpiAlltoall ((pw.map blindOf).map fun b => countDest np b.proc)))).map fun x =>
          (⟨x.1, x.2.2, List.replicate (isum x.2.1).toNat default, x.2.1⟩ : A2A α))
      = some ((List.range np).map fun s =>
          (Comm.Status.ok, (List.range np).flatMap fun q => (bucket q (pw.getD s [])).map (A q))) := by
  subst hnp
  exact exch2 A pw hd hsend hrecv

/-! ## reading the answers back: the second `a_next` walk -/

/-- the answers rank `me` expects from rank `q`, in the order it sent the queries -/
def valsFrom (A : Nat → List α → α) (me : Nat) (todo : List (Int × V3 α)) (q : Nat) : List α :=
  (bucket q (pairsOf me todo)).map (A q)

theorem pairsOf_cons_sent (me : Nat) (p : Int) (x : V3 α) (rest : List (Int × V3 α)) (h : (p == (me : Int)) = false) :
    pairsOf me ((p, x) :: rest) = (p.toNat, item x) :: pairsOf me rest := by
  have : (p != (me : Int)) = true := by simp only [bne, h, Bool.not_false]
  simp [pairsOf, sentOf, List.filter_cons, this]

theorem pairsOf_cons_stay (me : Nat) (p : Int) (x : V3 α) (rest : List (Int × V3 α)) (h : (p == (me : Int)) = true) :
    pairsOf me ((p, x) :: rest) = pairsOf me rest := by
  have : (p != (me : Int)) = false := by simp only [bne, h, Bool.not_true]
  simp [pairsOf, sentOf, List.filter_cons, this]

theorem getD_segData (np p : Nat) (hp : p < np) (f h : Nat → List α) (v : α) (tl : List α) (hh : h p = v :: tl)
    (d : α) :
    (segData np f h).getD (((List.range p).flatMap fun q => f q ++ h q).length + (f p).length) d = v := by
  rw [segData_split np p hp f h, hh]
  have e : (List.range p).flatMap (fun q => f q ++ h q) ++ (f p ++ v :: tl)
        ++ (List.range' (p + 1) (np - p - 1)).flatMap (fun q => f q ++ h q)
      = ((List.range p).flatMap (fun q => f q ++ h q) ++ f p)
        ++ (v :: (tl ++ (List.range' (p + 1) (np - p - 1)).flatMap (fun q => f q ++ h q))) := by
    simp only [List.append_assoc, List.cons_append]
  rw [e, List.getD_eq_getElem?_getD, List.getElem?_append_right (by simp)]
  simp

structure CollectInv (np : Nat) (D : List α) (f h : Nat → List α) (aNext : List Int) : Prop where
  len : aNext.length = np
  nonneg : ∀ p, p < np → 0 ≤ aNext.getD p 0
  next : ∀ p, p < np →
    (aNext.getD p 0).toNat = ((List.range p).flatMap (fun q => f q ++ h q)).length + (f p).length
  data : D = segData np f h

theorem collect_inv (np me : Nat) (A : Nat → List α → α) (own : V3 α → α) (D : List α)
    (pl : List (Int × V3 α)) (hrange : ∀ p ∈ pl, 0 ≤ p.1 ∧ p.1 < (np : Int))
    (f : Nat → List α) (aNext : List Int) (inv : CollectInv np D f (valsFrom A me pl) aNext) :
    collect me D own pl aNext
      = pl.map fun p => if p.1 == (me : Int) then own p.2 else A p.1.toNat (item p.2) := by
  induction pl generalizing f aNext with
  | nil => rfl
  | cons px rest ih =>
    obtain ⟨p, x⟩ := px
    have hr := hrange (p, x) List.mem_cons_self
    simp only at hr
    have hrest : ∀ p ∈ rest, 0 ≤ p.1 ∧ p.1 < (np : Int) := fun q hq => hrange q (List.mem_cons_of_mem _ hq)
    by_cases hme : (p == (me : Int)) = true
    · -- stationary: nothing is read
      simp only [collect, hme, if_true, List.map_cons]
      congr 1
      apply ih hrest f aNext
      have hv : valsFrom A me ((p, x) :: rest) = valsFrom A me rest := by
        funext q
        simp only [valsFrom, pairsOf_cons_stay me p x rest hme]
      rw [hv] at inv
      exact inv
    · have hme' : (p == (me : Int)) = false := by simpa using hme
      have hq0 : p.toNat < np := by omega
      have hhead : valsFrom A me ((p, x) :: rest) p.toNat
          = A p.toNat (item x) :: valsFrom A me rest p.toNat := by
        simp only [valsFrom, pairsOf_cons_sent me p x rest hme', bucket_cons_self, List.map_cons]
      have hother : ∀ q, q ≠ p.toNat → valsFrom A me ((p, x) :: rest) q = valsFrom A me rest q := by
        intro q hq
        simp only [valsFrom, pairsOf_cons_sent me p x rest hme', bucket_cons_ne p.toNat q hq]
      simp only [collect, hme', Bool.false_eq_true, if_false, List.map_cons]
      congr 1
      · rw [inv.next p.toNat hq0, inv.data]
        exact getD_segData np p.toNat hq0 f _ _ _ hhead default
      · apply ih hrest (upd f p.toNat (f p.toNat ++ [A p.toNat (item x)])) (incrAt aNext p.toNat)
        have hseg : ∀ q, (upd f p.toNat (f p.toNat ++ [A p.toNat (item x)]) q ++ valsFrom A me rest q)
            = (f q ++ valsFrom A me ((p, x) :: rest) q) := by
          intro q
          by_cases hq : q = p.toNat
          · subst hq
            simp only [upd, if_true, hhead, List.append_assoc, List.singleton_append]
          · simp only [upd, hq, if_false, hother q hq]
        refine ⟨by rw [length_incrAt]; exact inv.len, ?_, ?_, ?_⟩
        · intro q hq
          rw [incrAt_getD aNext p.toNat q (by rw [inv.len]; exact hq0)]
          have h1 := inv.nonneg p.toNat hq0
          have h2 := inv.nonneg q hq
          split <;> omega
        · intro q hq
          rw [incrAt_getD aNext p.toNat q (by rw [inv.len]; exact hq0)]
          have hpre : ((List.range q).flatMap fun q' =>
                upd f p.toNat (f p.toNat ++ [A p.toNat (item x)]) q' ++ valsFrom A me rest q').length
              = ((List.range q).flatMap fun q' => f q' ++ valsFrom A me ((p, x) :: rest) q').length := by
            apply prefLen_congr
            intro q' _
            rw [hseg q']
          rw [hpre]
          have hn := inv.next q hq
          by_cases hqp : q = p.toNat
          · subst hqp
            have h0 := inv.nonneg p.toNat hq
            simp only [if_true, upd, List.length_append, List.length_singleton]
            omega
          · simp only [hqp, if_false, upd]
            exact hn
        · rw [inv.data]
          unfold segData
          apply flatMap_congr'
          intro q _
          exact (hseg q).symm

theorem collect_spec (np me : Nat) (A : Nat → List α → α) (own : V3 α → α)
    (pl : List (Int × V3 α)) (hrange : ∀ p ∈ pl, 0 ≤ p.1 ∧ p.1 < (np : Int)) :
    collect me ((List.range np).flatMap fun q => (bucket q (pairsOf me pl)).map (A q)) own pl
        (displs (countDest np ((pairsOf me pl).map fun x => (x.1 : Int))))
      = pl.map fun p => if p.1 == (me : Int) then own p.2 else A p.1.toNat (item p.2) := by
  have hd : ∀ x ∈ pairsOf me pl, x.1 < np := by
    intro x hx
    simp only [pairsOf, sentOf, List.mem_map, List.mem_filter] at hx
    obtain ⟨p, ⟨hp, _⟩, rfl⟩ := hx
    have := hrange p hp
    simp only
    omega
  let c : Nat → Nat := fun q => (bucket q (pairsOf me pl)).length
  have hnext : ∀ p, p < np →
      (displs (countDest np ((pairsOf me pl).map fun x => (x.1 : Int)))).getD p 0 = (prefSum c p : Int) := by
    intro p hp
    rw [countDest_eq np (pairsOf me pl) hd]
    unfold displs
    rw [displsFrom_getD 0 _ p (by simpa using hp), ← List.map_take, List.take_range, Nat.min_eq_left (by omega),
      sum_range_cast c p]
    omega
  apply collect_inv np me A own _ pl hrange (fun _ => [])
  refine ⟨?_, ?_, ?_, ?_⟩
  · simp [displs, length_displsFrom, countDest, foldl_incrAt_length]
  · intro p hp; rw [hnext p hp]; omega
  · intro p hp
    rw [hnext p hp]
    simp only [List.nil_append, List.length_nil, Nat.add_zero, Int.toNat_natCast, List.length_flatMap, valsFrom,
      List.length_map]
    rfl
  · simp only [segData, List.nil_append, valsFrom]

end Refine.Lemmas.PhysDist
