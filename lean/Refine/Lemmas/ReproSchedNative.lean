import Refine.Lemmas.ReproSched

/-!
  Discharging the hypotheses of `p2pSched_congr` for the posted worlds refine actually builds:
  * at most one message per (source, dest, tag): `allMsgs_nodup` from "every rank's sends go to distinct
    (dest, tag)", shown for `ref_mpi_alltoallv_native` (`nativeSends_dest_increasing`);
  * the receives of `ref_mpi_alltoallv_native` address pairwise disjoint regions inside the receive buffer
    (`nativeRecvs_ok`).
-/
namespace Refine.Model.ReproSched
open Refine.Model.Comm Refine.Lemmas.Comm

variable {α : Type}

theorem allMsgsFrom_src (r : Nat) : ∀ (w : World (Posted α)) (r0 : Nat), r0 = r → ∀ m ∈ allMsgsFrom r0 w, (r : Int) ≤ m.src := by
  intro w
  induction w generalizing r with
  | nil => intro _ _ m hm; simp [allMsgsFrom] at hm
  | cons p ps ih =>
    intro r0 hr m hm
    subst hr
    simp only [allMsgsFrom, List.mem_append] at hm
    rcases hm with hm | hm
    · simp only [msgsOf, List.mem_map] at hm
      obtain ⟨x, _, rfl⟩ := hm
      exact Int.le_refl _
    · have := ih (r0 + 1) (r0 + 1) rfl m hm
      omega

/-- at most one message per (source, dest, tag) when every rank's sends have distinct (dest, tag) -/
theorem allMsgsFrom_nodup : ∀ (w : World (Posted α)) (r : Nat),
    (∀ p ∈ w, (p.msgs.map fun m => (m.dest, m.tag)).Nodup) → ((allMsgsFrom r w).map key3).Nodup
  | [], _, _ => by simp [allMsgsFrom]
  | p :: ps, r, h => by
    simp only [allMsgsFrom, List.map_append]
    rw [List.nodup_append]
    refine ⟨?_, allMsgsFrom_nodup ps (r + 1) (fun q hq => h q (List.mem_cons_of_mem _ hq)), ?_⟩
    · have hp := h p (List.mem_cons_self ..)
      have : (msgsOf r p).map key3 = (p.msgs.map fun m => (m.dest, m.tag)).map fun dt => ((r : Int), dt.1, dt.2) := by
        unfold msgsOf
        rw [List.map_map, List.map_map]
        rfl
      rw [this]
      apply hp.map
      intro a b hab heq
      apply hab
      have h1 := (Prod.mk.inj heq).2
      exact Prod.ext (Prod.mk.inj h1).1 (Prod.mk.inj h1).2
    · intro a ha b hb hab
      rw [List.mem_map] at ha hb
      obtain ⟨x, hx, rfl⟩ := ha
      obtain ⟨y, hy, rfl⟩ := hb
      simp only [msgsOf, List.mem_map] at hx
      obtain ⟨m, _, rfl⟩ := hx
      have := allMsgsFrom_src (r + 1) ps (r + 1) rfl y hy
      simp only [key3, Prod.mk.injEq] at hab
      omega

theorem allMsgs_nodup (w : World (Posted α)) (h : ∀ p ∈ w, (p.msgs.map fun m => (m.dest, m.tag)).Nodup) :
    ((allMsgs w).map key3).Nodup := allMsgsFrom_nodup w 0 h

/-! ### `ref_mpi_alltoallv_native` -/

theorem nativeSends_dest (ty : RefType) (np maxTag rank n : Int) (send : List α) :
    ∀ (sizes : List Int) (part off : Int),
      (∀ m ∈ (nativeSends ty np maxTag rank n send part off sizes).2, part ≤ m.dest) ∧
      (nativeSends ty np maxTag rank n send part off sizes).2.Pairwise (fun a b => a.dest < b.dest)
  | [], part, off => by simp [nativeSends]
  | sz :: rest, part, off => by
    obtain ⟨ih1, ih2⟩ := nativeSends_dest ty np maxTag rank n send rest (part + 1) (off + n * sz)
    unfold nativeSends
    by_cases hsz : 0 < sz
    · simp only [hsz, if_true]
      by_cases htag : (decide (0 ≤ np * part + rank) && decide (np * part + rank ≤ maxTag)) = true
      · simp only [htag, Bool.not_true, Bool.false_eq_true, if_false]
        by_cases hty : ty.nativeOk = true
        · simp only [hty, Bool.not_true, Bool.false_eq_true, if_false]
          constructor
          · intro m hm
            rw [List.mem_cons] at hm
            rcases hm with rfl | hm
            · exact Int.le_refl _
            · have := ih1 m hm; omega
          · rw [List.pairwise_cons]
            refine ⟨?_, ih2⟩
            intro m hm
            have := ih1 m hm
            show part < m.dest
            omega
        · simp [hty]
      · simp [htag]
    · simp only [hsz, if_false]
      constructor
      · intro m hm
        have := ih1 m hm; omega
      · exact ih2

theorem nodup_map_of_pairwise_lt {β γ : Type} (g : β → γ) (f : β → Int) (hg : ∀ a b, g a = g b → f a = f b)
    (l : List β) (h : l.Pairwise (fun a b => f a < f b)) : (l.map g).Nodup := by
  unfold List.Nodup
  rw [List.pairwise_map]
  apply h.imp
  intro a b hab heq
  have := hg a b heq
  omega

theorem nativePost_cases (ty : RefType) (np maxTag rank n : Int) (a : A2A α) :
    (nativePost ty np maxTag rank n a).buf = a.recv ∧
    ((nativePost ty np maxTag rank n a).rcvs = [] ∨
      (nativePost ty np maxTag rank n a).rcvs = (nativeRecvs ty np maxTag rank n 0 0 a.recvSize).2) ∧
    ((nativePost ty np maxTag rank n a).msgs = [] ∨
      (nativePost ty np maxTag rank n a).msgs = (nativeSends ty np maxTag rank n a.send 0 0 a.sendSize).2) := by
  unfold nativePost
  split_ifs <;> simp <;> split_ifs <;> simp

/-- the sends of one rank in the native all-to-all go to pairwise distinct (dest, tag) -/
theorem nativePost_msgs_nodup (ty : RefType) (np maxTag rank n : Int) (a : A2A α) :
    ((nativePost ty np maxTag rank n a).msgs.map fun m => (m.dest, m.tag)).Nodup := by
  rcases (nativePost_cases ty np maxTag rank n a).2.2 with h | h
  · rw [h]; simp
  · rw [h]
    exact nodup_map_of_pairwise_lt _ (fun m : Msg α => m.dest) (fun a b hab => (Prod.mk.inj hab).1) _
      (nativeSends_dest ty np maxTag rank n a.send a.sendSize 0 0).2

theorem sum_nonneg' : ∀ (l : List Int), (∀ s ∈ l, 0 ≤ s) → 0 ≤ l.sum
  | [], _ => by simp
  | x :: xs, h => by
    rw [List.sum_cons]
    have := h x (List.mem_cons_self ..)
    have := sum_nonneg' xs (fun s hs => h s (List.mem_cons_of_mem _ hs))
    omega

theorem nativeRecvs_ok (ty : RefType) (np maxTag rank n : Int) (hn : 0 ≤ n) :
    ∀ (sizes : List Int) (part off : Int), 0 ≤ off → (∀ s ∈ sizes, 0 ≤ s) →
      (∀ rq ∈ (nativeRecvs ty np maxTag rank n part off sizes).2,
        off ≤ rq.off ∧ 0 ≤ rq.cnt ∧ rq.off + rq.cnt ≤ off + n * sizes.sum) ∧
      (nativeRecvs ty np maxTag rank n part off sizes).2.Pairwise (fun a b => a.off + a.cnt ≤ b.off)
  | [], part, off, _, _ => by simp [nativeRecvs]
  | sz :: rest, part, off, hoff, hs => by
    have hsz0 : 0 ≤ sz := hs sz (List.mem_cons_self ..)
    have hrest : ∀ s ∈ rest, 0 ≤ s := fun s h => hs s (List.mem_cons_of_mem _ h)
    have hmul : 0 ≤ n * sz := Int.mul_nonneg hn hsz0
    have hsum : 0 ≤ n * rest.sum := Int.mul_nonneg hn (sum_nonneg' rest hrest)
    obtain ⟨ih1, ih2⟩ := nativeRecvs_ok ty np maxTag rank n hn rest (part + 1) (off + n * sz) (by omega) hrest
    have hexp : n * (sz :: rest).sum = n * sz + n * rest.sum := by rw [List.sum_cons, Int.mul_add]
    unfold nativeRecvs
    by_cases hsz : 0 < sz
    · simp only [hsz, if_true]
      by_cases htag : (decide (0 ≤ np * rank + part) && decide (np * rank + part ≤ maxTag)) = true
      · simp only [htag, Bool.not_true, Bool.false_eq_true, if_false]
        by_cases hty : ty.nativeOk = true
        · simp only [hty, Bool.not_true, Bool.false_eq_true, if_false]
          constructor
          · intro rq hrq
            rw [List.mem_cons] at hrq
            rcases hrq with rfl | hrq
            · refine ⟨Int.le_refl _, hmul, ?_⟩
              show off + n * sz ≤ off + n * (sz :: rest).sum
              omega
            · obtain ⟨a, b, c⟩ := ih1 rq hrq
              refine ⟨by omega, b, by omega⟩
          · rw [List.pairwise_cons]
            refine ⟨?_, ih2⟩
            intro rq hrq
            obtain ⟨a, _, _⟩ := ih1 rq hrq
            show off + n * sz ≤ rq.off
            exact a
        · simp [hty]
      · simp [htag]
    · simp only [hsz, if_false]
      constructor
      · intro rq hrq
        obtain ⟨a, b, c⟩ := ih1 rq hrq
        refine ⟨by omega, b, by omega⟩
      · exact ih2

/-- the posted receives of one rank of the native all-to-all satisfy `RecvsOk` for its receive buffer -/
theorem nativePost_recvsOk (ty : RefType) (np maxTag rank n : Int) (hn : 0 ≤ n) (a : A2A α)
    (hs : ∀ s ∈ a.recvSize, 0 ≤ s) (hlen : n * a.recvSize.sum ≤ (a.recv.length : Int)) :
    RecvsOk (nativePost ty np maxTag rank n a).buf.length (nativePost ty np maxTag rank n a).rcvs := by
  obtain ⟨hbuf, hr, _⟩ := nativePost_cases ty np maxTag rank n a
  rw [hbuf]
  rcases hr with hr | hr
  · rw [hr]; exact ⟨by simp, List.Pairwise.nil⟩
  · rw [hr]
    obtain ⟨h1, h2⟩ := nativeRecvs_ok ty np maxTag rank n hn a.recvSize 0 0 (Int.le_refl 0) hs
    refine ⟨?_, h2.imp (fun h => Or.inl h)⟩
    intro rq hrq
    obtain ⟨x, y, z⟩ := h1 rq hrq
    refine ⟨x, y, ?_⟩
    omega

/-! ### permutations produced by the driver's pseudo-random schedules -/

theorem permOf_perm (seed n : Nat) : (permOf seed n).Perm (List.range n) :=
  Refine.Model.Sort.shuffle_perm n _

theorem filterMap_getElem?_range {β : Type} : ∀ (l : List β), (List.range l.length).filterMap (fun i => l[i]?) = l
  | [] => rfl
  | x :: xs => by
    rw [List.length_cons, List.range_succ_eq_map, List.filterMap_cons]
    simp only [List.getElem?_cons_zero, List.filterMap_map]
    congr 1
    have : ((fun i => (x :: xs)[i]?) ∘ Nat.succ) = fun i => xs[i]? := by funext i; simp
    rw [this]; exact filterMap_getElem?_range xs

/-- the driver's `shuffled` list is a permutation of the list -/
theorem shuffled_perm {β : Type} (seed : Nat) (l : List β) : (shuffled seed l).Perm l := by
  unfold shuffled
  have := (permOf_perm seed l.length).filterMap (fun i => l[i]?)
  rw [filterMap_getElem?_range] at this
  exact this

end Refine.Model.ReproSched
