import Refine.Lemmas.InterpLocateGeoStages
import Refine.Lemmas.GeomReal

/-!
  Two concrete worlds on which `ref_interp_locate` (the model `Refine.Model.InterpLocate.locate`, at `ℝ`) is evaluated
  step by step, used by the non-vacuity examples of `Props/C11Locate.lean`:

  * 2-D: one donor triangle (0,0) (1,0) (0,1) whose corner 0 is a geometry node; one receptor geometry node at
    (1/4, 1/4).  Stage 1 seeds it from the cell around donor corner 0 with weights (1/2, 1/4, 1/4) and the 4th slot 0.
  * 3-D: the unit tet with corner 0 a geometry node; one receptor geometry node at (1/4, 1/4, 1/4): weights
    (1/4, 1/4, 1/4, 1/4).
  One rank; every function of the staging is evaluated (both `ref_mpi_allconcat`s, the nearest-corner loop,
  `ref_mpi_allminwho`, the selection around the corner, the four blind sends, the acceptance test, the empty agent
  sweep, the empty tree stage).
-/
set_option linter.unusedSimpArgs false

namespace Refine.Lemmas.InterpLocate.Ex
open Refine Refine.Model.Geom Refine.Model.Search Refine.Model.Interp Refine.Model.InterpLocate Refine.Model.Comm
open Refine.Lemmas.InterpLocate Refine.ScalarReal Refine.Gen Refine.GeomReal

/-- one donor triangle (0,0) (1,0) (0,1), all on rank 0; its corner 0 is a geometry node -/
noncomputable def dr0 : DonorR ℝ :=
  { d := ⟨true, [⟨0, 0, 0⟩, ⟨1, 0, 0⟩, ⟨0, 1, 0⟩], [(0, ⟨0, 1, 2, 0⟩)], []⟩, glob := [0, 1, 2], part := [0, 0, 0],
    around := [[0], [0], [0]], geom := [0] }

/-- a receptor with the single geometry node (1/4, 1/4) -/
noncomputable def rc0 : RecvR ℝ := { xyz := [⟨4⁻¹, 4⁻¹, 0⟩], glob := [0], part := [0], nbrs := [[]], geom := [0] }

noncomputable def s0 : Search ℝ := ⟨0, 0, .nil⟩

theorem bary_q : baryOf dr0.d ⟨0, 1, 2, 0⟩ ⟨4⁻¹, 4⁻¹, 0⟩ = (St.ok, ⟨2⁻¹, 4⁻¹, 4⁻¹, 0⟩) := by
  simp only [baryOf, dr0, if_true, Donor.pt, List.getD_cons_zero, List.getD_cons_succ]
  unfold bary3
  simp only [triNormal, V3.sub, cross, add_eq, sub_eq, mul_eq, div_eq, lit0_eq]
  norm_num [divisible_iff']

theorem cell0 : dr0.d.cellAt 0 = some ⟨0, 1, 2, 0⟩ := by simp [Donor.cellAt, dr0]

theorem exh : exhaustiveAround dr0 0 ⟨4⁻¹, 4⁻¹, 0⟩ = (.ok, 0, ⟨2⁻¹, 4⁻¹, 4⁻¹, 0⟩) := by
  have ha : dr0.around.getD 0 [] = [0] := by simp [dr0]
  have htw : dr0.d.twod = true := rfl
  simp only [exhaustiveAround, ha, enclosingInList, inListFold, cell0, bary_q, bestInit, minBary, htw, if_true]
  simp [refEmpty, cell0, bary_q]

theorem exch1 (x : Located ℝ) (hd : x.dest = 0) :
    exchangeLocated [[x]] = .ok [[(x.node, x.cell, x.proc, x.bary)]] := by
  obtain ⟨d, n, c, p, ⟨s0, s1, s2, s3⟩⟩ := x
  simp only at hd
  subst hd
  simp [exchangeLocated, blindItems, blindsend, RefType.ild, slice, chunks, INT_MAX, Slots.toList, Slots.ofList, refEmpty]

theorem exch0 : exchangeLocated ([[]] : World (List (Located ℝ))) = .ok [[]] := by
  simp [exchangeLocated, blindItems, blindsend, RefType.ild, slice, chunks, INT_MAX]

theorem recv_accept :
    geomRecv 0 rc0 (RankSt.create 1 1) [(0, 0, 0, (⟨some 2⁻¹, some 4⁻¹, some 4⁻¹, some 0⟩ : Slots ℝ))] =
      .ok ⟨[0], [0], [⟨some 2⁻¹, some 4⁻¹, some 4⁻¹, some 0⟩], [false], [1], Agents.create, 1, 1, 0, 0, 0, 0, 0, 0⟩ := by
  have hacc : geomAccept (⟨some 2⁻¹, some 4⁻¹, some 4⁻¹, some 0⟩ : Slots ℝ) = true := by
    simp only [geomAccept, InterpConsts.geomAcceptStrict, geomTol, InterpConsts.geomAcceptUsesInside, if_true, Slots.all,
      Option.map_some, Option.getD_some, insideTol, lit, InterpConsts.inside, ofDec_eq, Bool.and_eq_true, lt_iff]
    norm_num
  simp [geomRecv, hacc, RankSt.create, RankSt.cellOf, RankSt.baryOf, refEmpty, RankSt.store, InterpConsts.geomCopy,
    Slots.copyN, pushOntoQueue, RecvR.owned, rc0]

theorem geom1 : geomStage [dr0] [rc0] [RankSt.create 1 1] =
    .ok [⟨[0], [0], [⟨some 2⁻¹, some 4⁻¹, some 4⁻¹, some 0⟩], [false], [1], Agents.create, 1, 1, 0, 0, 0, 0, 0, 0⟩] := by
  have hg : dr0.geom = [0] := rfl
  have hp0 : dr0.d.pt 0 = ⟨0, 0, 0⟩ := by simp [Donor.pt, dr0]
  simp [geomStage, concatItems, allconcat, allgatherv, RefType.id, RefType.mpiOk, RefType.ild, xyzItems,
    nodeItems, rc0, RecvR.pt, writeAt, chunks, zipTargets, v3OfList, isum, bind, Except.bind, sourceOf, allminwho,
    nearestGeom, List.mapIdx, List.mapIdx.go, geomSends, geomSends.go, hg, hp0, refEmpty, exh, collect, Except.map,
    storeBary_twod, exch1, show dr0.d.twod = true from rfl]
  have := recv_accept
  simp only [rc0] at this
  rw [this]
  simp [collect, Except.map, pure, Except.pure, sumAll]

noncomputable def st1 : RankSt ℝ :=
  ⟨[0], [0], [⟨some 2⁻¹, some 4⁻¹, some 4⁻¹, some 0⟩], [false], [1], Agents.create, 1, 1, 0, 0, 0, 0, 0, 0⟩

theorem proc1 : processAgents [dr0] [rc0] [st1] = .ok [st1] := by
  have hna : nAgents [st1] = 0 := by simp [nAgents, st1, Agents.n, Agents.create]
  have hs : sweeps [dr0] [rc0] sweepFuel [st1] = .ok [st1] := by
    show sweeps [dr0] [rc0] (99999 + 1) [st1] = _
    simp [sweeps, hna]
  simp only [processAgents, bind, Except.bind, hs]
  simp [sumAll, List.mapIdx, List.mapIdx.go, rc0, st1, pure, Except.pure, RecvR.owned]

theorem tree1 : treeLoop [dr0] [s0] [rc0] InterpConsts.locateTries false (1e-12 : ℝ) [st1] = .ok ([st1], 1e-12) := by
  show treeLoop [dr0] [s0] [rc0] (11 + 1) false (1e-12 : ℝ) [st1] = _
  have htg : treeTargets 0 rc0 st1 = [] := by
    simp [treeTargets, rc0, st1, RecvR.owned, RankSt.cellOf, refEmpty]
  simp only [treeLoop, Bool.false_eq_true, if_false]
  have hts : treeStage [dr0] [s0] [rc0] (1e-12 : ℝ) [st1] = .ok ([st1], false) := by
    simp [treeStage, List.mapIdx, List.mapIdx.go, htg, concatItems, allconcat, allgatherv, RefType.id, RefType.mpiOk,
      RefType.ild, xyzItems, nodeItems, writeAt, chunks, zipTargets, isum, bind, Except.bind, sourceOf, allminwho,
      collect, Except.map, treeSends, treeSends.go, exch0, treeRecv, sumAll, pure, Except.pure]
  rw [hts]
  simp

/-- `ref_interp_locate` on the 2-D world: the receptor node is located by stage 1 in cell 0 of rank 0 with weights
    (1/2, 1/4, 1/4) and the 4th slot 0 -/
theorem locate1 : locate [dr0] [s0] [rc0] (1e-12 : ℝ) [RankSt.create 1 1] = .ok ([st1], 1e-12) := by
  have h1 : geomStage [dr0] [rc0] [RankSt.create 1 1] = .ok [st1] := geom1
  simp only [locate, bind, Except.bind, h1, proc1, tree1]

theorem cellIds1 : CellIdsOK [dr0] := by
  intro dr hdr p hp
  simp only [List.mem_singleton] at hdr
  subst hdr
  simp only [dr0, List.mem_singleton] at hp
  subst hp
  simp [refEmpty]

theorem ghost1 : GhostOK [rc0] := by
  intro r r' rc rc' i i' h1 h2 hl
  have e1 : rc = rc0 := by
    cases r with
    | zero => simpa using h1.symm
    | succ k => simp at h1
  have e2 : rc' = rc0 := by
    cases r' with
    | zero => simpa using h2.symm
    | succ k => simp at h2
  subst e1 e2
  have hi' := localOf_lt hl
  simp only [rc0, List.length_singleton, Nat.lt_one_iff] at hi'
  subst hi'
  cases i with
  | zero => rfl
  | succ k =>
    simp [localOf, rc0] at hl

/-! ## the 3-D world -/

/-- the unit tet, all on rank 0; its corner 0 is a geometry node -/
noncomputable def dr3 : DonorR ℝ :=
  { d := ⟨false, [⟨0, 0, 0⟩, ⟨1, 0, 0⟩, ⟨0, 1, 0⟩, ⟨0, 0, 1⟩], [(0, ⟨0, 1, 2, 3⟩)], []⟩, glob := [0, 1, 2, 3],
    part := [0, 0, 0, 0], around := [[0], [0], [0], [0]], geom := [0] }

/-- a receptor with the single geometry node (1/4, 1/4, 1/4) -/
noncomputable def rc3 : RecvR ℝ := { xyz := [⟨4⁻¹, 4⁻¹, 4⁻¹⟩], glob := [0], part := [0], nbrs := [[]], geom := [0] }

theorem bary_q3 : baryOf dr3.d ⟨0, 1, 2, 3⟩ ⟨4⁻¹, 4⁻¹, 4⁻¹⟩ = (St.ok, ⟨4⁻¹, 4⁻¹, 4⁻¹, 4⁻¹⟩) := by
  simp only [baryOf, dr3, Bool.false_eq_true, if_false, Donor.pt, List.getD_cons_zero, List.getD_cons_succ]
  unfold bary4
  simp only [tetDet, add_eq, sub_eq, mul_eq, div_eq]
  norm_num [divisible_iff']

theorem cell3 : dr3.d.cellAt 0 = some ⟨0, 1, 2, 3⟩ := by simp [Donor.cellAt, dr3]

theorem exh3 : exhaustiveAround dr3 0 ⟨4⁻¹, 4⁻¹, 4⁻¹⟩ = (.ok, 0, ⟨4⁻¹, 4⁻¹, 4⁻¹, 4⁻¹⟩) := by
  have ha : dr3.around.getD 0 [] = [0] := by simp [dr3]
  have htw : dr3.d.twod = false := rfl
  simp only [exhaustiveAround, ha, enclosingInList, inListFold, cell3, bary_q3, bestInit, minBary, htw]
  simp [refEmpty, cell3, bary_q3]

noncomputable def st3 : RankSt ℝ :=
  ⟨[0], [0], [⟨some 4⁻¹, some 4⁻¹, some 4⁻¹, some 4⁻¹⟩], [false], [1], Agents.create, 1, 1, 0, 0, 0, 0, 0, 0⟩

theorem recv_accept3 :
    geomRecv 0 rc3 (RankSt.create 1 1) [(0, 0, 0, (⟨some 4⁻¹, some 4⁻¹, some 4⁻¹, some 4⁻¹⟩ : Slots ℝ))] = .ok st3 := by
  have hacc : geomAccept (⟨some 4⁻¹, some 4⁻¹, some 4⁻¹, some 4⁻¹⟩ : Slots ℝ) = true := by
    simp only [geomAccept, InterpConsts.geomAcceptStrict, geomTol, InterpConsts.geomAcceptUsesInside, if_true, Slots.all,
      Option.map_some, Option.getD_some, insideTol, lit, InterpConsts.inside, ofDec_eq, Bool.and_eq_true, lt_iff]
    norm_num
  simp [geomRecv, hacc, RankSt.create, RankSt.cellOf, RankSt.baryOf, refEmpty, RankSt.store, InterpConsts.geomCopy,
    Slots.copyN, pushOntoQueue, RecvR.owned, rc3, st3]

theorem geom3 : geomStage [dr3] [rc3] [RankSt.create 1 1] = .ok [st3] := by
  have hg : dr3.geom = [0] := rfl
  have hp0 : dr3.d.pt 0 = ⟨0, 0, 0⟩ := by simp [Donor.pt, dr3]
  simp [geomStage, concatItems, allconcat, allgatherv, RefType.id, RefType.mpiOk, RefType.ild, xyzItems,
    nodeItems, rc3, RecvR.pt, writeAt, chunks, zipTargets, v3OfList, isum, bind, Except.bind, sourceOf, allminwho,
    nearestGeom, List.mapIdx, List.mapIdx.go, geomSends, geomSends.go, hg, hp0, refEmpty, exh3, collect, Except.map,
    storeBary_3d, exch1, show dr3.d.twod = false from rfl]
  have := recv_accept3
  simp only [rc3] at this
  rw [this]
  simp [collect, Except.map, pure, Except.pure, sumAll, st3]

theorem proc3 : processAgents [dr3] [rc3] [st3] = .ok [st3] := by
  have hna : nAgents [st3] = 0 := by simp [nAgents, st3, Agents.n, Agents.create]
  have hs : sweeps [dr3] [rc3] sweepFuel [st3] = .ok [st3] := by
    show sweeps [dr3] [rc3] (99999 + 1) [st3] = _
    simp [sweeps, hna]
  simp only [processAgents, bind, Except.bind, hs]
  simp [sumAll, List.mapIdx, List.mapIdx.go, rc3, st3, pure, Except.pure, RecvR.owned]

theorem tree3 : treeLoop [dr3] [s0] [rc3] InterpConsts.locateTries false (1e-12 : ℝ) [st3] = .ok ([st3], 1e-12) := by
  show treeLoop [dr3] [s0] [rc3] (11 + 1) false (1e-12 : ℝ) [st3] = _
  have htg : treeTargets 0 rc3 st3 = [] := by
    simp [treeTargets, rc3, st3, RecvR.owned, RankSt.cellOf, refEmpty]
  simp only [treeLoop, Bool.false_eq_true, if_false]
  have hts : treeStage [dr3] [s0] [rc3] (1e-12 : ℝ) [st3] = .ok ([st3], false) := by
    simp [treeStage, List.mapIdx, List.mapIdx.go, htg, concatItems, allconcat, allgatherv, RefType.id, RefType.mpiOk,
      RefType.ild, xyzItems, nodeItems, writeAt, chunks, zipTargets, isum, bind, Except.bind, sourceOf, allminwho,
      collect, Except.map, treeSends, treeSends.go, exch0, treeRecv, sumAll, pure, Except.pure]
  rw [hts]
  simp

/-- `ref_interp_locate` on the 3-D world: the receptor node is located by stage 1 in cell 0 of rank 0 with weights
    (1/4, 1/4, 1/4, 1/4) -/
theorem locate3 : locate [dr3] [s0] [rc3] (1e-12 : ℝ) [RankSt.create 1 1] = .ok ([st3], 1e-12) := by
  simp only [locate, bind, Except.bind, geom3, proc3, tree3]

theorem cellIds3 : CellIdsOK [dr3] := by
  intro dr hdr p hp
  simp only [List.mem_singleton] at hdr
  subst hdr
  simp only [dr3, List.mem_singleton] at hp
  subst hp
  simp [refEmpty]

theorem ghost3 : GhostOK [rc3] := by
  intro r r' rc rc' i i' h1 h2 hl
  have e1 : rc = rc3 := by
    cases r with
    | zero => simpa using h1.symm
    | succ k => simp at h1
  have e2 : rc' = rc3 := by
    cases r' with
    | zero => simpa using h2.symm
    | succ k => simp at h2
  subst e1 e2
  have hi' := localOf_lt hl
  simp only [rc3, List.length_singleton, Nat.lt_one_iff] at hi'
  subst hi'
  cases i with
  | zero => rfl
  | succ k =>
    simp [localOf, rc3] at hl

end Refine.Lemmas.InterpLocate.Ex
