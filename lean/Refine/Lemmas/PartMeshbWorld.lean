import Refine.Lemmas.PartMeshbPlace
import Refine.Props.C07

/-! the parallel meshb reader from the first vertex block to the last ghost coordinate: `distribute` in closed form -/
namespace Refine.Lemmas.PartMeshb
open Refine.Model.Meshb Refine.Model.PartMeshb
open Refine.Model.Comm (World)
open Refine.Gen.PartMacros

/-! ### one group, all groups -/

theorem placeGroup_ok {N : Int} {np : Nat} {V : Int → Vertex} {O : Nat → List PNode} {G : Nat → Nat → List Cell}
    {w : World PRank} (hW : WorldIs N np V O G w) (hnp : 1 ≤ np) (k : Nat) (ci : CellInfo)
    (hk : cellInfos[k]? = some ci) (chs : List (List Cell)) (hdist : Distinct ci chs.flatten)
    (hok : ∀ ch ∈ chs, ∀ c ∈ ch, CellOK ci N c) (hG : ∀ r, r < np → G k r = []) :
    ∃ w', placeGroup N np ci k chs w = .ok w' ∧
      WorldIs N np V O (setG G k fun r => (finalRaw N np ci r chs.flatten).map (norm ci)) w' := by
  obtain ⟨w1, h1, hW1⟩ := placeChunks_ok (V := V) (O := O) hnp k ci hk chs [] G w hW (by simpa using hdist) hok
    (by intro r hr; rw [hG r hr]; simp [directRaw])
  simp only [List.nil_append] at hW1
  obtain ⟨w2, h2, hW2⟩ := shufflinCell_ok hW1 hnp k ci hk chs.flatten hdist
    (by intro c hc; obtain ⟨ch, hch, hcc⟩ := List.mem_flatten.1 hc; exact hok ch hch c hcc)
    (by intro r _; simp [setG])
  rw [setG_setG] at hW2
  exact ⟨w2, by simp [placeGroup, h1, h2], hW2⟩

/-- the cells of every group on every rank after `placeGroups` over the list `gl` of (group info, group index, chunks) -/
def finalG (N : Int) (np : Nat) (gl : List (CellInfo × Nat × List (List Cell))) (G : Nat → Nat → List Cell) :
    Nat → Nat → List Cell :=
  fun j r => match gl.find? (fun t => t.2.1 == j) with
    | some t => (finalRaw N np t.1 r t.2.2.flatten).map (norm t.1)
    | none => G j r

theorem placeGroups_ok {N : Int} {np : Nat} {V : Int → Vertex} {O : Nat → List PNode} (hnp : 1 ≤ np) :
    ∀ (gl : List (CellInfo × Nat × List (List Cell))) (G : Nat → Nat → List Cell) (w : World PRank),
      WorldIs N np V O G w →
      (∀ t ∈ gl, cellInfos[t.2.1]? = some t.1 ∧ (∀ ch ∈ t.2.2, ∀ c ∈ ch, CellOK t.1 N c) ∧
        Distinct t.1 t.2.2.flatten ∧ ∀ r, r < np → G t.2.1 r = []) →
      (gl.map (·.2.1)).Nodup →
      ∃ w', placeGroups N np gl w = .ok w' ∧ WorldIs N np V O (finalG N np gl G) w' := by
  intro gl
  induction gl with
  | nil =>
    intro G w hW _ _
    have : finalG N np [] G = G := by funext j r; simp [finalG]
    exact ⟨w, rfl, by rw [this]; exact hW⟩
  | cons t gl ih =>
    intro G w hW ht hnd
    obtain ⟨ci, k, chs⟩ := t
    obtain ⟨hk, hok, hdist, hG⟩ := ht (ci, k, chs) List.mem_cons_self
    simp only at hk hok hdist hG
    obtain ⟨w1, h1, hW1⟩ := placeGroup_ok hW hnp k ci hk chs hdist hok hG
    rw [List.map_cons, List.nodup_cons] at hnd
    obtain ⟨w2, h2, hW2⟩ := ih _ w1 hW1 (by
      intro t' ht'
      obtain ⟨a, b, c, d⟩ := ht t' (List.mem_cons_of_mem _ ht')
      refine ⟨a, b, c, ?_⟩
      intro r hr
      have hne : t'.2.1 ≠ k := by
        intro e
        exact hnd.1 (List.mem_map.2 ⟨t', ht', e⟩)
      simp only [setG, if_neg hne]
      exact d r hr) hnd.2
    refine ⟨w2, by simp [placeGroups, h1, h2], ?_⟩
    have : finalG N np gl (setG G k fun r => (finalRaw N np ci r chs.flatten).map (norm ci)) =
        finalG N np ((ci, k, chs) :: gl) G := by
      funext j r
      unfold finalG
      rw [List.find?_cons]
      by_cases hj : k = j
      · subst hj
        have hnone : gl.find? (fun t => t.2.1 == k) = none := by
          rw [List.find?_eq_none]
          intro t' ht' hb
          exact hnd.1 (List.mem_map.2 ⟨t', ht', by simpa using hb⟩)
        simp [hnone, setG]
      · have : ((ci, k, chs).2.1 == j) = false := by simpa using hj
        rw [this]
        cases hf : gl.find? (fun t => t.2.1 == j) with
        | none => simp [setG, Ne.symm hj]
        | some t' => rfl
    rw [this] at hW2
    exact hW2

theorem getD_of_lt {α : Type} (l : List α) (i : Nat) (h : i < l.length) (d : α) : l.getD i d = l[i] := by
  simp [List.getD_eq_getElem?_getD, h]

/-! ### the vertex blocks -/

/-- the first global of part `p` -/
abbrev firstOf (N : Int) (np : Nat) (p : Nat) : Int := ref_part_first N (np : Int) (p : Int)

/-- the blocks rank 0 read are the blocks of the implicit partition -/
def BlocksOK (N : Int) (np : Nat) (blocks : List (List Vertex)) : Prop :=
  blocks.length = np ∧ ∀ r, r < np → ((blocks.getD r []).length : Int) = firstOf N np (r + 1) - firstOf N np r

/-- the coordinates of vertex `g` in the file, through the blocks -/
def vertexOf (N : Int) (np : Nat) (blocks : List (List Vertex)) (g : Int) : Vertex :=
  (blocks.getD (imp N np g).toNat []).getD (g - firstOf N np (imp N np g).toNat).toNat default

theorem first_succ_cast (N : Int) (np r : Nat) : firstOf N np (r + 1) = ref_part_first N (np : Int) ((r : Int) + 1) := by
  unfold firstOf; push_cast; rfl

theorem block_bounds {N : Int} {np : Nat} (hN : 1 ≤ N) (hnp : 1 ≤ np) (r : Nat) (hr : r < np) :
    0 ≤ firstOf N np r ∧ firstOf N np r ≤ firstOf N np (r + 1) ∧ firstOf N np (r + 1) ≤ N := by
  have h0 := Refine.Props.C07.first_zero N (np : Int) hN (by omega)
  have hn := Refine.Props.C07.first_np N (np : Int) hN (by omega)
  have m1 := Refine.Props.C07.first_mono N (np : Int) 0 (r : Int) hN (by omega) (by omega)
  have m2 := Refine.Props.C07.first_mono N (np : Int) (r : Int) ((r : Int) + 1) hN (by omega) (by omega)
  have m3 := Refine.Props.C07.first_mono N (np : Int) ((r : Int) + 1) (np : Int) hN (by omega) (by omega)
  rw [first_succ_cast]
  unfold firstOf
  omega

theorem imp_of_block {N : Int} {np : Nat} (hN : 1 ≤ N) (hnp : 1 ≤ np) (r : Nat) (hr : r < np) (g : Int)
    (h1 : firstOf N np r ≤ g) (h2 : g < firstOf N np (r + 1)) : imp N np g = (r : Int) := by
  obtain ⟨b0, _, b2⟩ := block_bounds hN hnp r hr
  rw [first_succ_cast] at h2
  exact (Refine.Props.C07.implicit_unique N (np : Int) g (r : Int) hN (by omega) (by omega)
    (by rw [first_succ_cast] at b2; omega) h1 h2).symm

theorem block_of_imp {N : Int} {np : Nat} (hN : 1 ≤ N) (hnp : 1 ≤ np) (r : Nat) (g : Int) (h0 : 0 ≤ g) (h1 : g < N)
    (hi : imp N np g = (r : Int)) : firstOf N np r ≤ g ∧ g < firstOf N np (r + 1) := by
  obtain ⟨_, _, a, b⟩ := Refine.Props.C07.implicit_spec N (np : Int) g hN (by omega) h0 h1
  rw [first_succ_cast]
  unfold firstOf
  unfold imp at hi
  rw [hi] at a b
  exact ⟨a, b⟩

theorem ownedNodes_base {N : Int} {np : Nat} (hN : 1 ≤ N) (hnp : 1 ≤ np) (r : Nat) (block : List Vertex) :
    ownedNodes N np r block = block.zipIdx.map fun vi =>
      ({ glob := firstOf N np r + (vi.2 : Int), part := (r : Int), xyz := some vi.1 } : PNode) := by
  unfold ownedNodes
  by_cases h : r = 0
  · subst h
    have h0 := Refine.Props.C07.first_zero N (np : Int) hN (by omega)
    simp only [if_true]
    unfold firstOf
    simp only [Nat.cast_zero]
    rw [h0]
  · simp only [if_neg h]

theorem mem_ownedNodes {N : Int} {np : Nat} (hN : 1 ≤ N) (hnp : 1 ≤ np) (r : Nat) (block : List Vertex) (n : PNode) :
    n ∈ ownedNodes N np r block ↔ ∃ i, ∃ h : i < block.length,
      n = { glob := firstOf N np r + (i : Int), part := (r : Int), xyz := some block[i] } := by
  rw [ownedNodes_base hN hnp, List.mem_map]
  constructor
  · rintro ⟨⟨v, i⟩, hvi, rfl⟩
    obtain ⟨h, e⟩ := List.mem_zipIdx_iff_getElem?.1 hvi |> fun h => (List.getElem?_eq_some_iff.1 h)
    exact ⟨i, h, by simp [e]⟩
  · rintro ⟨i, h, rfl⟩
    exact ⟨(block[i], i), List.mem_zipIdx_iff_getElem?.2 (List.getElem?_eq_getElem h), rfl⟩

/-- the world `ref_part_node` leaves -/
theorem initWorld_is {N : Int} {np : Nat} (hN : 1 ≤ N) (hnp : 1 ≤ np) (blocks : List (List Vertex))
    (hb : BlocksOK N np blocks) :
    WorldIs N np (vertexOf N np blocks) (fun r => ownedNodes N np r (blocks.getD r [])) (fun _ _ => [])
      (initWorld N np blocks) := by
  have hget : ∀ r, r < np → (initWorld N np blocks).getD r default =
      { nGlobal := N, nodes := ownedNodes N np r (blocks.getD r []), cells := List.replicate 16 [], geoms := [],
        cad := [] } := by
    intro r hr
    unfold initWorld
    rw [List.getD_eq_getElem?_getD, List.getElem?_map, List.getElem?_range hr]
    rfl
  have hgrp : ∀ r, r < np → ∀ j, ((initWorld N np blocks).getD r default).group j = [] := by
    intro r hr j
    rw [hget r hr]
    simp only [PRank.group, List.getD_eq_getElem?_getD]
    rw [List.getElem?_replicate]
    split <;> rfl
  refine ⟨by simp [initWorld], ?_, hgrp, ?_, ?_⟩
  · intro r hr
    obtain ⟨b0, b1, b2⟩ := block_bounds hN hnp r hr
    have hlen := hb.2 r hr
    have hmem := fun n => mem_ownedNodes hN hnp r (blocks.getD r []) n
    constructor
    · intro n hn
      rw [hget r hr] at hn
      obtain ⟨i, hi, rfl⟩ := (hmem n).1 hn
      have hi' : (i : Int) < firstOf N np (r + 1) - firstOf N np r := by rw [← hlen]; exact_mod_cast hi
      refine ⟨by simp only; omega, by simp only; omega, ?_⟩
      simp only
      exact (imp_of_block hN hnp r hr _ (by omega) (by omega)).symm
    · rw [hget r hr]
      simp only
      rw [ownedNodes_base hN hnp, List.map_map]
      have : (fun n : PNode => n.glob) ∘ (fun vi : Vertex × Nat =>
          ({ glob := firstOf N np r + (vi.2 : Int), part := (r : Int), xyz := some vi.1 } : PNode)) =
          fun vi => firstOf N np r + (vi.2 : Int) := rfl
      rw [this]
      have h2 : (blocks.getD r []).zipIdx.map (fun vi => firstOf N np r + (vi.2 : Int)) =
          ((blocks.getD r []).zipIdx.map (·.2)).map fun (i : Nat) => firstOf N np r + (i : Int) := by
        rw [List.map_map]; rfl
      rw [h2, List.zipIdx_map_snd]
      apply List.Nodup.map
      · intro a b hab; simp only at hab; omega
      · exact List.nodup_range' ..
    · intro g h0 h1 hi
      obtain ⟨a, b⟩ := block_of_imp hN hnp r g h0 h1 hi
      rw [has_iff, hget r hr]
      have hidx : (g - firstOf N np r).toNat < (blocks.getD r []).length := by
        have : ((g - firstOf N np r).toNat : Int) < ((blocks.getD r []).length : Int) := by
          rw [hlen, Int.toNat_of_nonneg (by omega)]; omega
        exact_mod_cast this
      refine ⟨_, (hmem _).2 ⟨(g - firstOf N np r).toNat, hidx, rfl⟩, ?_⟩
      simp only
      rw [Int.toNat_of_nonneg (by omega)]; omega
    · intro n hn _
      rw [hget r hr] at hn
      obtain ⟨i, hi, rfl⟩ := (hmem n).1 hn
      have hi' : (i : Int) < firstOf N np (r + 1) - firstOf N np r := by rw [← hlen]; exact_mod_cast hi
      simp only
      have himp := imp_of_block hN hnp r hr (firstOf N np r + (i : Int)) (by omega) (by omega)
      unfold vertexOf
      rw [himp]
      simp only [Int.toNat_natCast]
      have : (firstOf N np r + (i : Int) - firstOf N np r).toNat = i := by
        have : firstOf N np r + (i : Int) - firstOf N np r = (i : Int) := by ring
        rw [this]; simp
      rw [this]
      congr 1
      exact (getD_of_lt _ _ hi _).symm
    · rw [hget r hr]; simp
    · intro k ci _ c hc
      rw [hgrp r hr k] at hc
      simp at hc
    · intro n hn hp
      rw [hget r hr] at hn
      obtain ⟨i, hi, rfl⟩ := (hmem n).1 hn
      simp at hp
  · intro r hr
    rw [hget r hr]
    simp only
    rw [List.filter_eq_self]
    intro n hn
    obtain ⟨i, hi, rfl⟩ := (mem_ownedNodes hN hnp r _ n).1 hn
    simp
  · intro r hr
    rw [hget r hr]
    exact ⟨rfl, rfl, rfl⟩

end Refine.Lemmas.PartMeshb
