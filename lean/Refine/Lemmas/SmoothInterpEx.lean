import Refine.Lemmas.SmoothInterpBetween

/-!
  A concrete one-dimensional background for the non-vacuity examples of `Props/C05Smooth.lean` / `Props/C13Smooth.lean`:
  positions are integers, background cell `c` is the point `c` (cells 0..10), the weights of `x` are `7 x`, the
  interpolated metric of donor `(c, b)` is `c + b`.  Positions outside `0..10` are outside the background: the
  walk is lost and the sequential search finds nothing (`REF_NOT_FOUND`).
-/
namespace Refine.Lemmas.SmoothInterp.Ex
open Refine.Model.SmoothInterp Refine.Lemmas.SmoothInterp

def inBg (x : Int) : Bool := decide (0 ≤ x) && decide (x ≤ 10)

def bg : Bg Int Int Int where
  rank := 0
  para := false
  valid := fun c => inBg c
  walk := fun p _ x => if inBg x then .enclosing x p (7 * x) else .lost
  seq := fun x => if inBg x then .found x (7 * x) else .none
  interp := fun c b => some (c + b)

def D (x c b : Int) : Prop := inBg x = true ∧ c = x ∧ b = 7 * x

def live : Cfg := ⟨true, true⟩

theorem live_live : Live live := ⟨rfl, rfl⟩

theorem inBg_ne_empty {x : Int} (h : inBg x = true) : x ≠ EMPTY := by
  intro e; subst e; revert h; decide

theorem sound : Sound bg D where
  walk_donor := by
    intro p c x c' p' b h
    simp only [bg] at h
    split at h
    · rename_i hx
      simp only [WalkOut.enclosing.injEq] at h
      obtain ⟨rfl, _, rfl⟩ := h
      exact ⟨hx, rfl, rfl⟩
    · cases h
  walk_part := by
    intro p c x c' p' b h
    simp only [bg] at h
    split at h
    · simp only [WalkOut.enclosing.injEq] at h
      exact h.2.1.symm
    · cases h
  seq_donor := by
    intro x c b h
    simp only [bg] at h
    split at h
    · rename_i hx
      simp only [SeqOut.found.injEq] at h
      obtain ⟨rfl, rfl⟩ := h
      exact ⟨hx, rfl, rfl⟩
    · cases h
  seq_nonempty := by
    intro x c b h
    simp only [bg] at h
    split at h
    · rename_i hx
      simp only [SeqOut.found.injEq] at h
      obtain ⟨rfl, _⟩ := h
      exact inBg_ne_empty hx
    · cases h
  valid_nonempty := by decide

theorem total : Total bg D where
  serial := rfl
  seq_complete := by
    intro x c b h
    refine ⟨x, 7 * x, ?_, inBg_ne_empty h.1⟩
    simp only [bg, h.1, if_true]

/-- the vertex sits at 2, located in cell 2 with weights 14 and metric 16 -/
def s0 : NodeSt Int Int Int := { xyz := 2, cell := 2, part := 0, bary := 14, met := 16 }

theorem s0_fresh : Fresh bg D s0 := ⟨by decide, rfl, ⟨by decide, rfl, rfl⟩, rfl⟩

/-- first trial far outside the background, then 6, then 3, then closer -/
def trial : Nat → Int
  | 0 => 100
  | 1 => 6
  | 2 => 3
  | _ => 2

/-- rejects the first located try (6), accepts positions up to 4 -/
def guards : Guards Int Int Int := { allowed := fun _ _ => true, accept := fun _ s => decide (s.xyz ≤ 4) }

/-- rejects everything -/
def rejectAll : Guards Int Int Int := { allowed := fun _ _ => true, accept := fun _ _ => false }

end Refine.Lemmas.SmoothInterp.Ex
