import Refine.Lemmas.PartMeshbGather

/-! what rank 0 of the parallel reader takes from a file is what the serial reader `decodeMeshbWith` takes from it
    (vertices, cells per group, CAD bytes), whenever both accept the file -/
namespace Refine.Lemmas.PartMeshb
open Refine.Model.Meshb Refine.Model.PartMeshb Refine.Lemmas.Codec
open Refine.Gen.PartMacros

/-! ### integers: `ref_part_meshb_long` against `ref_import_meshb_int` -/

theorem toSigned32_range (n : Nat) (h : n < 2 ^ 32) : -2147483648 ≤ toSigned 32 n ∧ toSigned 32 n < 2147483648 := by
  unfold toSigned
  norm_num at h ⊢
  split <;> omega

theorem wrap32_toSigned64 (n : Nat) (h : n < 2 ^ 64) : wrap32 (toSigned 64 n) = toSigned 32 (n % 2 ^ 32) := by
  unfold wrap32 ofSigned
  congr 1
  unfold toSigned
  norm_num at h ⊢
  split <;> omega

theorem rdLong_rdInt {v : Nat} {s r : Bytes} {b : Int} (h : rdLong v s = .ok (b, r)) :
    rdInt v s = .ok (wrap32 b, r) := by
  unfold rdLong at h
  unfold rdInt
  by_cases hv : v < 4
  · rw [if_pos hv] at h ⊢
    rw [h]
    unfold rdI32 at h
    cases h' : rdU 4 s with
    | error e => simp [h'] at h
    | ok q =>
      obtain ⟨n, r'⟩ := q
      simp only [h'] at h
      injection h with h
      injection h with h1 h2
      obtain ⟨a, _, hl, hn⟩ := rdU_ok h'
      have hlt : n < 2 ^ 32 := by
        have := decLE_lt a
        rw [hl] at this
        rw [hn]; norm_num at this ⊢; exact this
      rw [← h1, wrap32_of_range _ (toSigned32_range n hlt)]
  · rw [if_neg hv] at h ⊢
    cases h' : rdU 8 s with
    | error e => simp [h'] at h
    | ok q =>
      obtain ⟨n, r'⟩ := q
      simp only [h'] at h ⊢
      injection h with h
      injection h with h1 h2
      obtain ⟨a, _, hl, hn⟩ := rdU_ok h'
      have hlt : n < 2 ^ 64 := by
        have := decLE_lt a
        rw [hl] at this
        rw [hn]; norm_num at this ⊢; exact this
      rw [← h1, ← h2, wrap32_toSigned64 n hlt]

theorem rdLong_error {v : Nat} {s : Bytes} {e : Status} (h : rdLong v s = .error e) : rdInt v s = .error e := by
  unfold rdLong at h
  unfold rdInt
  by_cases hv : v < 4
  · rw [if_pos hv] at h ⊢; exact h
  · rw [if_neg hv] at h ⊢
    cases h' : rdU 8 s with
    | error e' => simp only [h'] at h ⊢; exact h
    | ok q => obtain ⟨n, r'⟩ := q; simp [h'] at h

theorem rdLongs_rdInts {v : Nat} : ∀ (k : Nat) {s r : Bytes} {raw : List Int},
    rdLongs v k s = .ok (raw, r) → rdInts v k s = .ok (raw.map wrap32, r) := by
  intro k
  induction k with
  | zero => intro s r raw h; simp [rdLongs] at h; obtain ⟨rfl, rfl⟩ := h; rfl
  | succ k ih =>
    intro s r raw h
    unfold rdLongs at h
    cases h1 : rdLong v s with
    | error e => simp [h1] at h
    | ok p1 =>
    obtain ⟨x, s1⟩ := p1
    simp only [h1] at h
    cases h2 : rdLongs v k s1 with
    | error e => simp [h2] at h
    | ok p2 =>
    obtain ⟨xs, s2⟩ := p2
    simp only [h2] at h
    injection h with h
    injection h with hx hr
    subst hx hr
    unfold rdInts
    rw [rdLong_rdInt h1]
    simp only
    rw [ih h2]
    rfl

theorem rdLongs_len {v : Nat} : ∀ (k : Nat) {s r : Bytes} {raw : List Int},
    rdLongs v k s = .ok (raw, r) → s.length = k * intSize v + r.length := by
  intro k s r raw h
  exact (rdInts_len (rdLongs_rdInts k h)).2

/-! ### vertices -/

theorem rdVertD_step {v : Nat} (hv : 2 ≤ v) (twod : Bool) (s : Bytes) :
    rdVertD v twod s =
      match rdReal v s with
      | .error e => .error e
      | .ok (x, s) =>
      match rdReal v s with
      | .error e => .error e
      | .ok (y, s) =>
      match (if twod then (.ok (0, s) : Except Status (UInt64 × Bytes)) else rdReal v s) with
      | .error e => .error e
      | .ok (z, s) =>
      match rdInt v s with
      | .error e => .error e
      | .ok (_, s) => .ok (⟨x, y, z⟩, s) := by
  have hreal : ∀ t, rdReal v t = rdF64 t := by
    intro t; unfold rdReal; rw [if_neg (by omega)]
  unfold rdVertD
  simp only [hreal]
  cases h1 : rdF64 s with
  | error e => rfl
  | ok p1 =>
  obtain ⟨x, s1⟩ := p1
  simp only
  cases h2 : rdF64 s1 with
  | error e => rfl
  | ok p2 =>
  obtain ⟨y, s2⟩ := p2
  simp only
  cases h3 : (if twod then (.ok (0, s2) : Except Status (UInt64 × Bytes)) else rdF64 s2) with
  | error e => rfl
  | ok p3 =>
  obtain ⟨z, s3⟩ := p3
  simp only
  rw [if_pos (by omega)]
  cases h4 : rdLong v s3 with
  | error e => rw [rdLong_error h4]
  | ok p4 =>
    obtain ⟨b, s4⟩ := p4
    rw [rdLong_rdInt h4]

/-- for versions ≥ 2 (`double` coordinates) `ref_part_node` and `ref_import_meshb` read the same vertex records -/
theorem rdVertsD_eq_rdVerts {v : Nat} (hv : 2 ≤ v) (twod : Bool) : ∀ (n : Nat) (s : Bytes),
    rdVertsD v twod n s = rdVerts v twod n s := by
  intro n
  induction n with
  | zero => intro s; rfl
  | succ n ih =>
    intro s
    unfold rdVertsD rdVerts
    rw [rdVertD_step hv]
    cases h1 : rdReal v s with
    | error e => rfl
    | ok p1 =>
    obtain ⟨x, s1⟩ := p1
    simp only
    cases h2 : rdReal v s1 with
    | error e => rfl
    | ok p2 =>
    obtain ⟨y, s2⟩ := p2
    simp only
    cases h3 : (if twod then (.ok (0, s2) : Except Status (UInt64 × Bytes)) else rdReal v s2) with
    | error e => rfl
    | ok p3 =>
    obtain ⟨z, s3⟩ := p3
    simp only
    cases h4 : rdInt v s3 with
    | error e => rfl
    | ok p4 =>
    obtain ⟨b, s4⟩ := p4
    simp only
    rw [ih s4]
    cases rdVerts v twod n s4 with
    | error e => rfl
    | ok q => rfl

theorem rdVertsD_append {v : Nat} {twod : Bool} : ∀ (a b : Nat) {s s1 s2 : Bytes} {xs ys : List Vertex},
    rdVertsD v twod a s = .ok (xs, s1) → rdVertsD v twod b s1 = .ok (ys, s2) →
    rdVertsD v twod (a + b) s = .ok (xs ++ ys, s2) := by
  intro a
  induction a with
  | zero =>
    intro b s s1 s2 xs ys h1 h2
    simp [rdVertsD] at h1
    obtain ⟨rfl, rfl⟩ := h1
    simpa using h2
  | succ a ih =>
    intro b s s1 s2 xs ys h1 h2
    unfold rdVertsD at h1
    cases hv : rdVertD v twod s with
    | error e => simp [hv] at h1
    | ok p1 =>
    obtain ⟨x, t⟩ := p1
    simp only [hv] at h1
    cases hr : rdVertsD v twod a t with
    | error e => simp [hr] at h1
    | ok p2 =>
    obtain ⟨xs', t'⟩ := p2
    simp only [hr] at h1
    injection h1 with h1
    injection h1 with hx ht
    subst hx ht
    have := ih b hr h2
    rw [show a + 1 + b = (a + b) + 1 by omega]
    unfold rdVertsD
    rw [hv]
    simp only
    rw [this]
    rfl

theorem rdBlocks_flatten {v : Nat} {twod : Bool} : ∀ (counts : List Int) {s r : Bytes} {blocks : List (List Vertex)},
    rdBlocks v twod counts s = .ok (blocks, r) →
    rdVertsD v twod (blocks.flatten.length) s = .ok (blocks.flatten, r) := by
  intro counts
  induction counts with
  | nil => intro s r blocks h; simp [rdBlocks] at h; obtain ⟨rfl, rfl⟩ := h; rfl
  | cons c cs ih =>
    intro s r blocks h
    unfold rdBlocks at h
    cases h1 : rdVertsD v twod c.toNat s with
    | error e => simp [h1] at h
    | ok p1 =>
    obtain ⟨b, s1⟩ := p1
    simp only [h1] at h
    cases h2 : rdBlocks v twod cs s1 with
    | error e => simp [h2] at h
    | ok p2 =>
    obtain ⟨bs, s2⟩ := p2
    simp only [h2] at h
    injection h with h
    injection h with hx hr
    subst hx hr
    have hb : b.length = c.toNat := rdVertsD_length h1
    rw [List.flatten_cons, List.length_append, hb]
    exact rdVertsD_append _ _ h1 (ih h2)

/-! ### cell records -/

/-- `n` records of `k` integers, plainly recursive -/
def rdRecsS (v k : Nat) : Nat → P (List (List Int))
  | 0, s => .ok ([], s)
  | n + 1, s =>
    match rdLongs v k s with
    | .error e => .error e
    | .ok (r, s) =>
    match rdRecsS v k n s with
    | .error e => .error e
    | .ok (rs, s) => .ok (r :: rs, s)

theorem rdRecsAcc_eq {v k : Nat} : ∀ (n : Nat) (s : Bytes) (acc : List (List Int)),
    rdRecsAcc v k n s acc =
      match rdRecsS v k n s with
      | .error e => .error e
      | .ok (rs, r) => .ok (acc.reverse ++ rs, r) := by
  intro n
  induction n with
  | zero => intro s acc; simp [rdRecsAcc, rdRecsS]
  | succ n ih =>
    intro s acc
    unfold rdRecsAcc rdRecsS
    cases h1 : rdLongs v k s with
    | error e => rfl
    | ok p1 =>
      obtain ⟨x, s1⟩ := p1
      simp only
      rw [ih]
      cases h2 : rdRecsS v k n s1 with
      | error e => rfl
      | ok p2 => obtain ⟨rs, s2⟩ := p2; simp

theorem rdRecs_eq {v k n : Nat} {s r : Bytes} {rs : List (List Int)} (h : rdRecs v k n s = .ok (rs, r)) :
    rdRecsS v k n s = .ok (rs, r) := by
  unfold rdRecs at h
  rw [rdRecsAcc_eq] at h
  cases h2 : rdRecsS v k n s with
  | error e => simp [h2] at h
  | ok p2 => obtain ⟨rs', s2⟩ := p2; simp only [h2] at h; simpa using h

theorem rdRecsS_append {v k : Nat} : ∀ (a b : Nat) {s s1 s2 : Bytes} {xs ys : List (List Int)},
    rdRecsS v k a s = .ok (xs, s1) → rdRecsS v k b s1 = .ok (ys, s2) →
    rdRecsS v k (a + b) s = .ok (xs ++ ys, s2) := by
  intro a
  induction a with
  | zero =>
    intro b s s1 s2 xs ys h1 h2
    simp [rdRecsS] at h1
    obtain ⟨rfl, rfl⟩ := h1
    simpa using h2
  | succ a ih =>
    intro b s s1 s2 xs ys h1 h2
    unfold rdRecsS at h1
    cases hv : rdLongs v k s with
    | error e => simp [hv] at h1
    | ok p1 =>
    obtain ⟨x, t⟩ := p1
    simp only [hv] at h1
    cases hr : rdRecsS v k a t with
    | error e => simp [hr] at h1
    | ok p2 =>
    obtain ⟨xs', t'⟩ := p2
    simp only [hr] at h1
    injection h1 with h1
    injection h1 with hx ht
    subst hx ht
    have := ih b hr h2
    rw [show a + 1 + b = (a + b) + 1 by omega]
    unfold rdRecsS
    rw [hv]
    simp only
    rw [this]
    rfl

theorem rdRecsS_consume {v k : Nat} : ∀ (n : Nat) {s r : Bytes} {rs : List (List Int)},
    rdRecsS v k n s = .ok (rs, r) → rs.length = n ∧ s.length = n * (k * intSize v) + r.length := by
  intro n
  induction n with
  | zero => intro s r rs h; simp [rdRecsS] at h; obtain ⟨rfl, rfl⟩ := h; simp
  | succ n ih =>
    intro s r rs h
    unfold rdRecsS at h
    cases hv : rdLongs v k s with
    | error e => simp [hv] at h
    | ok p1 =>
    obtain ⟨x, t⟩ := p1
    simp only [hv] at h
    cases hr : rdRecsS v k n t with
    | error e => simp [hr] at h
    | ok p2 =>
    obtain ⟨xs', t'⟩ := p2
    simp only [hr] at h
    injection h with h
    injection h with hx ht
    subst hx ht
    obtain ⟨a, b⟩ := ih hr
    have c := rdLongs_len k hv
    refine ⟨by simp [a], ?_⟩
    rw [c, b]; ring

/-- what the chunk loop read: some number of records in a row, none with a bad index, converted -/
theorem rdCellChunks_recs {v : Nat} {ci : CellInfo} {N chunk ncell : Int} :
    ∀ (fuel : Nat) (nread : Int) (s r : Bytes) (acc chunks : List (List Cell)),
      rdCellChunks v ci N chunk ncell fuel nread s acc = .ok (chunks, r) →
      ∃ raws, rdRecsS v (ci.nodePer + 1) raws.length s = .ok (raws, r) ∧
        (∀ raw ∈ raws, raw.length = ci.nodePer + 1 ∧ rawBad ci N raw = false) ∧
        chunks.flatten = acc.reverse.flatten ++ raws.map (cellOfRaw ci) := by
  intro fuel
  induction fuel with
  | zero =>
    intro nread s r acc chunks h
    unfold rdCellChunks at h
    split at h
    · simp at h
    · injection h with h; injection h with h1 h2; subst h1 h2
      exact ⟨[], rfl, by simp, by simp⟩
  | succ fuel ih =>
    intro nread s r acc chunks h
    unfold rdCellChunks at h
    split at h
    · simp only at h
      split at h
      · simp at h
      · split at h
        · simp at h
        · cases h1 : readChunk v ci N (sectionSize chunk ncell nread).toNat s with
          | error e => simp [h1] at h
          | ok p1 =>
          obtain ⟨cells, s1⟩ := p1
          simp only [h1] at h
          obtain ⟨raws2, hr2, hb2, hf2⟩ := ih _ _ _ _ _ h
          -- the chunk itself
          unfold readChunk at h1
          split at h1
          · simp at h1
          · cases h3 : rdRecs v (ci.nodePer + 1) (sectionSize chunk ncell nread).toNat s with
            | error e => simp [h3] at h1
            | ok p3 =>
            obtain ⟨raws1, s3⟩ := p3
            simp only [h3] at h1
            split at h1
            · simp at h1
            · rename_i hany
              injection h1 with h1
              injection h1 with hc hs
              subst hc hs
              have hS := rdRecs_eq h3
              obtain ⟨hl1, hk1⟩ := rdRecs_spec h3
              refine ⟨raws1 ++ raws2, ?_, ?_, ?_⟩
              · rw [List.length_append]
                have := (rdRecsS_consume _ hS).1
                rw [← this] at hS
                exact rdRecsS_append _ _ hS hr2
              · intro raw hraw
                rcases List.mem_append.1 hraw with hraw | hraw
                · refine ⟨hk1 raw hraw, ?_⟩
                  by_contra hb
                  exact hany (List.any_eq_true.2 ⟨raw, hraw, by simpa using hb⟩)
                · exact hb2 raw hraw
              · rw [hf2]
                simp [List.map_append]
    · injection h with h; injection h with h1 h2; subst h1 h2
      exact ⟨[], rfl, by simp, by simp⟩

/-- the cell the serial reader stores for a record -/
def serialCell (ci : CellInfo) (raw : List Int) : List Int :=
  recordNodes ci raw ++ (if ci.lastId then raw.drop ci.nodePer else [])

theorem cellOfRecord_eq {cfg : Cfg} {ci : CellInfo} {nnode : Int} {raw c : List Int}
    (h : cellOfRecord cfg ci nnode raw = .ok c) : c = serialCell ci raw := by
  unfold cellOfRecord at h
  split at h
  · simp at h
  · split at h
    · simp at h
    · cases h2 : adjAddAll cfg (recordNodes ci raw) with
      | error e => simp [h2] at h
      | ok u =>
        simp only [h2] at h
        injection h with h
        exact h.symm

/-- a record that passed the parallel reader's range check: the stored form of its cell is the serial reader's cell
    for the same bytes (`int` truncation of the longs included) -/
theorem norm_cellOfRaw {ci : CellInfo} {N : Int} {raw : List Int} (hp : ci.isPyr = true → ci.nodePer = 5)
    (hN31 : N < 2 ^ 31) (hlen : raw.length = ci.nodePer + 1) (hok : rawBad ci N raw = false) :
    norm ci (cellOfRaw ci raw) = serialCell ci (raw.map wrap32) := by
  have hin : ∀ x ∈ raw.take ci.nodePer, wrap32 x = x := by
    intro x hx
    have : badIndex N x = false := by
      by_contra hb
      have : rawBad ci N raw = true := List.any_eq_true.2 ⟨x, hx, by simpa using hb⟩
      simp [this] at hok
    simp only [badIndex, decide_eq_false_iff_not] at this
    apply wrap32_of_range
    have : (2 : Int) ^ 31 = 2147483648 := by norm_num
    omega
  have htake : (raw.map wrap32).take ci.nodePer = raw.take ci.nodePer := by
    rw [← List.map_take]
    conv_rhs => rw [← List.map_id (raw.take ci.nodePer)]
    apply List.map_congr_left
    intro x hx; exact hin x hx
  have hnl : (cellOfRaw ci raw).take ci.nodePer =
      (if ci.isPyr then permute Refine.Gen.PyrPerm.partMeshb ((raw.take ci.nodePer).map fun x => x - 1)
       else (raw.take ci.nodePer).map fun x => x - 1) ∧
      (cellOfRaw ci raw).drop ci.nodePer = (if ci.lastId then (raw.drop ci.nodePer).take 1 else []) := by
    unfold cellOfRaw
    have hl : (if ci.isPyr then permute Refine.Gen.PyrPerm.partMeshb ((raw.take ci.nodePer).map fun x => x - 1)
        else (raw.take ci.nodePer).map fun x => x - 1).length = ci.nodePer := by
      by_cases hpy : ci.isPyr = true
      · simp [hpy, permute, Refine.Gen.PyrPerm.partMeshb, hp hpy]
      · simp [hpy, hlen]
    simp only
    exact ⟨List.take_left' hl, List.drop_left' hl⟩
  unfold norm serialCell recordNodes
  rw [hnl.1, hnl.2, htake]
  have hperm : Refine.Gen.PyrPerm.importMeshb = Refine.Gen.PyrPerm.partMeshb := rfl
  rw [hperm]
  congr 1
  by_cases hid : ci.lastId = true
  · simp only [hid, if_true]
    rw [← List.map_drop]
    have : (raw.drop ci.nodePer).take 1 = raw.drop ci.nodePer := by
      apply List.take_of_length_le
      simp [hlen]
    rw [this]
  · simp [hid]

theorem rdCells_consume {cfg : Cfg} {v : Nat} {ci : CellInfo} {nnode : Int} : ∀ (n : Nat) {s r : Bytes}
    {cs : List (List Int)}, rdCells cfg v ci nnode n s = .ok (cs, r) →
    s.length = n * ((ci.nodePer + 1) * intSize v) + r.length := by
  intro n
  induction n with
  | zero => intro s r cs h; simp [rdCells] at h; obtain ⟨rfl, rfl⟩ := h; simp
  | succ n ih =>
    intro s r cs h
    unfold rdCells at h
    cases h1 : rdInts v (ci.nodePer + 1) s with
    | error e => simp [h1] at h
    | ok p1 =>
    obtain ⟨raw, s1⟩ := p1
    simp only [h1] at h
    cases h2 : cellOfRecord cfg ci nnode raw with
    | error e => simp [h2] at h
    | ok c =>
    simp only [h2] at h
    cases h3 : rdCells cfg v ci nnode n s1 with
    | error e => simp [h3] at h
    | ok p3 =>
    obtain ⟨cs', s3⟩ := p3
    simp only [h3] at h
    injection h with h
    injection h with hx hr
    subst hx hr
    have a := (rdInts_len h1).2
    have b := ih h3
    rw [a, b]; ring

/-- the serial reader on the same records -/
theorem rdCells_of_recs {cfg : Cfg} {v : Nat} {ci : CellInfo} {nnode : Int} : ∀ (n : Nat) {s r r' : Bytes}
    {raws cs : List (List Int)}, rdRecsS v (ci.nodePer + 1) n s = .ok (raws, r) →
    rdCells cfg v ci nnode n s = .ok (cs, r') →
    cs = raws.map (fun raw => serialCell ci (raw.map wrap32)) ∧ r' = r := by
  intro n
  induction n with
  | zero =>
    intro s r r' raws cs h1 h2
    simp [rdRecsS] at h1; simp [rdCells] at h2
    obtain ⟨rfl, rfl⟩ := h1
    obtain ⟨rfl, rfl⟩ := h2
    simp
  | succ n ih =>
    intro s r r' raws cs h1 h2
    unfold rdRecsS at h1
    cases hv : rdLongs v (ci.nodePer + 1) s with
    | error e => simp [hv] at h1
    | ok p1 =>
    obtain ⟨x, t⟩ := p1
    simp only [hv] at h1
    cases hr : rdRecsS v (ci.nodePer + 1) n t with
    | error e => simp [hr] at h1
    | ok p2 =>
    obtain ⟨xs', t'⟩ := p2
    simp only [hr] at h1
    injection h1 with h1
    injection h1 with hx ht
    subst hx ht
    unfold rdCells at h2
    rw [rdLongs_rdInts _ hv] at h2
    simp only at h2
    cases h3 : cellOfRecord cfg ci nnode (x.map wrap32) with
    | error e => simp [h3] at h2
    | ok c =>
    simp only [h3] at h2
    cases h4 : rdCells cfg v ci nnode n t with
    | error e => simp [h4] at h2
    | ok p4 =>
    obtain ⟨cs', t4⟩ := p4
    simp only [h4] at h2
    injection h2 with h2
    injection h2 with hc hr'
    subst hc hr'
    obtain ⟨a, b⟩ := ih hr h4
    rw [cellOfRecord_eq h3, a, b]
    simp

end Refine.Lemmas.PartMeshb
