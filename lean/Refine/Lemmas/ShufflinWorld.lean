import Refine.Lemmas.Shufflin
import Refine.Lemmas.Comm

/-!
  Lemmas for `Refine/Props/C06Shufflin.lean`, part 2: the world level — what is sent to whom, the invariant carried through
  the node phase and the sixteen cell phases, and the cells every rank ends up with.
-/
namespace Refine.Lemmas.ShufflinWorld
open Refine.Model.Dist Refine.Model.Shufflin Refine.Lemmas.Shufflin
open Refine.Model.Comm (World allSome)

/-! ### list plumbing -/

theorem mapIdx_congr' {α β : Type} (w : List α) (f g : Nat → α → β)
    (h : ∀ q s, w[q]? = some s → f q s = g q s) : w.mapIdx f = w.mapIdx g := by
  apply List.ext_getElem?
  intro i
  rw [List.getElem?_mapIdx, List.getElem?_mapIdx]
  cases hi : w[i]? with
  | none => rfl
  | some s => simp only [Option.map_some]; rw [h i s hi]

theorem allSome_mapIdx_some {α β : Type} (w : List α) (f : Nat → α → Option β) (g : Nat → α → β)
    (h : ∀ q s, w[q]? = some s → f q s = some (g q s)) : allSome (w.mapIdx f) = some (w.mapIdx g) := by
  have : w.mapIdx f = (w.mapIdx g).map some := by
    apply List.ext_getElem?
    intro i
    rw [List.getElem?_mapIdx, List.getElem?_map, List.getElem?_mapIdx]
    cases hi : w[i]? with
    | none => rfl
    | some s => simp only [Option.map_some]; rw [h i s hi]
  rw [this]
  exact Refine.Lemmas.Comm.allSome_map_some _

/-- membership in `(w.zipIdx.map fun sr => if sr.2 == q then [] else F sr.1).flatten` -/
theorem mem_sent {α β : Type} (w : List α) (q : Nat) (F : α → List β) (x : β) :
    x ∈ (w.zipIdx.map fun sr => if sr.2 == q then [] else F sr.1).flatten ↔
      ∃ r s, w[r]? = some s ∧ r ≠ q ∧ x ∈ F s := by
  rw [List.mem_flatten]
  constructor
  · rintro ⟨l, hl, hx⟩
    obtain ⟨sr, hsr, rfl⟩ := List.mem_map.mp hl
    rw [List.mem_zipIdx_iff_getElem?] at hsr
    by_cases hq : (sr.2 == q) = true
    · simp [hq] at hx
    · simp only [hq, Bool.false_eq_true, if_false] at hx
      exact ⟨sr.2, sr.1, hsr, by simpa using hq, hx⟩
  · rintro ⟨r, s, hs, hne, hx⟩
    refine ⟨F s, List.mem_map.mpr ⟨(s, r), ?_, ?_⟩, hx⟩
    · rw [List.mem_zipIdx_iff_getElem?]; exact hs
    · have : (r == q) = false := by simpa using hne
      simp [this]

/-! ### what a rank reads in its own table -/

theorem partOf_eq (P : Int → Int) (Y : Int → List Nat) (me : Nat) (s : RankState) (ht : Table P Y me s.nodes)
    (v : Int) (hv : v ∈ s.nodes.map (·.glob)) : s.partOf v = some (P v) := by
  obtain ⟨nd, hnd, rfl⟩ := List.mem_map.mp hv
  unfold RankState.partOf
  rw [find_glob ht.1 hnd]
  simp [(ht.2 nd hnd).1]

theorem cellPartsOn_eq (P : Int → Int) (Y : Int → List Nat) (me : Nat) (s : RankState) (ht : Table P Y me s.nodes)
    (c : DCell) (hc : ∀ v ∈ c.nodes, v ∈ s.nodes.map (·.glob)) : cellPartsOn s c = c.nodes.map P := by
  unfold cellPartsOn
  apply List.map_congr_left
  intro v hv
  rw [partOf_eq P Y me s ht v (hc v hv)]; rfl

theorem keepCell_iff (P : Int → Int) (Y : Int → List Nat) (me : Nat) (nodes : List DNode) (ht : Table P Y me nodes)
    (c : DCell) (hc : ∀ v ∈ c.nodes, v ∈ nodes.map (·.glob)) :
    keepCell me nodes c = true ↔ ∃ v ∈ c.nodes, P v = (me : Int) := by
  unfold keepCell
  rw [List.any_eq_true]
  constructor
  · rintro ⟨v, hv, h⟩
    refine ⟨v, hv, ?_⟩
    obtain ⟨nd, hnd, rfl⟩ := List.mem_map.mp (hc v hv)
    rw [find_glob ht.1 hnd] at h
    have : nd.part = (me : Int) := by simpa using h
    rw [← (ht.2 nd hnd).1]; exact this
  · rintro ⟨v, hv, h⟩
    refine ⟨v, hv, ?_⟩
    obtain ⟨nd, hnd, rfl⟩ := List.mem_map.mp (hc v hv)
    rw [find_glob ht.1 hnd]
    simp [(ht.2 nd hnd).1, h]

/-! ### the invariant -/

/-- `S`: the cells of the global mesh; `Vg`: its vertices -/
structure WInv (P : Int → Int) (Y : Int → List Nat) (S : DCell → Prop) (Vg : Int → Prop) (w : World RankState) :
    Prop where
  table : ∀ (q : Nat) (s : RankState), w[q]? = some s → Table P Y q s.nodes
  known : ∀ (q : Nat) (s : RankState), w[q]? = some s → ∀ nd ∈ s.nodes, Vg nd.glob
  cellsS : ∀ (q : Nat) (s : RankState), w[q]? = some s →
    ∀ c ∈ s.cells, S c ∧ ∀ v ∈ c.nodes, v ∈ s.nodes.map (·.glob)
  cellsNd : ∀ (q : Nat) (s : RankState), w[q]? = some s → s.cells.Nodup
  owner : ∀ g, Vg g → ∀ (q : Nat) (s : RankState), w[q]? = some s → P g = (q : Int) → g ∈ s.nodes.map (·.glob)

/-- cell `c` is stored by some rank -/
def AllC (w : World RankState) (c : DCell) : Prop := ∃ (r : Nat) (s : RankState), w[r]? = some s ∧ c ∈ s.cells

/-- what one rank looks like after `ref_migrate_shufflin_cell` for group `g` -/
def phaseRank (w : World RankState) (g q : Nat) (s : RankState) : RankState :=
  let msgs := cellsSentTo w g q
  let nodes1 := msgs.foldl (addGhosts q) s.nodes
  { s with nodes := nodes1,
           cells := ((msgs.map (·.cell)).foldl (ins id) s.cells).filter
             fun c => c.group != g || keepCell q nodes1 c }

theorem mem_cellsSentTo (w : World RankState) (g q : Nat) (m : CellMsg) :
    m ∈ cellsSentTo w g q ↔ ∃ r s, w[r]? = some s ∧ r ≠ q ∧ ∃ c ∈ s.cells, c.group = g ∧
      (q : Int) ∈ cellPartsOn s c ∧ m = ⟨c, cellPartsOn s c⟩ := by
  unfold cellsSentTo
  rw [mem_sent w q (fun s => (s.cells.filter fun c => c.group == g && (cellPartsOn s c).contains (q : Int)).map
        fun c => ⟨c, cellPartsOn s c⟩) m]
  constructor
  · rintro ⟨r, s, hs, hne, hm⟩
    obtain ⟨c, hc, rfl⟩ := List.mem_map.mp hm
    rw [List.mem_filter] at hc
    simp only [Bool.and_eq_true, beq_iff_eq, List.contains_eq_mem, decide_eq_true_eq] at hc
    exact ⟨r, s, hs, hne, c, hc.1, hc.2.1, hc.2.2, rfl⟩
  · rintro ⟨r, s, hs, hne, c, hc, hg, hq, rfl⟩
    refine ⟨r, s, hs, hne, List.mem_map.mpr ⟨c, ?_, rfl⟩⟩
    rw [List.mem_filter]
    simp only [Bool.and_eq_true, beq_iff_eq, List.contains_eq_mem, decide_eq_true_eq]
    exact ⟨hc, hg, hq⟩

section Phase
variable (P : Int → Int) (Y : Int → List Nat) (S : DCell → Prop) (Vg : Int → Prop)
variable (hu : Uniq S) (hS : ∀ c, S c → ∀ v ∈ c.nodes, Vg v)

include hu hS in
/-- one rank of one cell phase, under the invariant -/
theorem phaseRank_spec (w : World RankState) (hw : WInv P Y S Vg w) (g q : Nat) (s : RankState)
    (hs : w[q]? = some s) :
    cellPhaseRank q g s (cellsSentTo w g q) = some (phaseRank w g q s) ∧
    Table P Y q (phaseRank w g q s).nodes ∧
    (∀ x, x ∈ (phaseRank w g q s).nodes.map (·.glob) ↔
      x ∈ s.nodes.map (·.glob) ∨ ∃ m ∈ cellsSentTo w g q, x ∈ m.cell.nodes ∧ P x ≠ (q : Int)) ∧
    (∀ m ∈ cellsSentTo w g q, S m.cell ∧ m.cell.group = g ∧ (∃ v ∈ m.cell.nodes, P v = (q : Int)) ∧
      ∀ v ∈ m.cell.nodes, v ∈ (phaseRank w g q s).nodes.map (·.glob)) := by
  have ht := hw.table q s hs
  -- the messages
  have hmsg : ∀ m ∈ cellsSentTo w g q, MsgOk P m ∧ S m.cell ∧ m.cell.group = g ∧
      ∃ v ∈ m.cell.nodes, P v = (q : Int) := by
    intro m hm
    obtain ⟨r, t, ht', _, c, hc, hg, hq, rfl⟩ := (mem_cellsSentTo w g q m).mp hm
    have hcs := hw.cellsS r t ht' c hc
    have hparts := cellPartsOn_eq P Y r t (hw.table r t ht') c hcs.2
    refine ⟨hparts, hcs.1, hg, ?_⟩
    rw [hparts] at hq
    obtain ⟨v, hv, hpv⟩ := List.mem_map.mp hq
    exact ⟨v, hv, hpv⟩
  obtain ⟨hT1, hG1⟩ := foldl_addGhosts_spec P Y q (cellsSentTo w g q) s.nodes ht (fun m hm => (hmsg m hm).1)
  have hpres : ∀ m ∈ cellsSentTo w g q, ∀ v ∈ m.cell.nodes,
      v ∈ ((cellsSentTo w g q).foldl (addGhosts q) s.nodes).map (·.glob) := by
    intro m hm v hv
    rw [hG1]
    by_cases hp : P v = (q : Int)
    · exact Or.inl (hw.owner v (hS m.cell (hmsg m hm).2.1 v hv) q s hs hp)
    · exact Or.inr ⟨m, hm, hv, hp⟩
  have hfold := foldl_recvCell P S hu ((cellsSentTo w g q).foldl (addGhosts q) s.nodes)
    (fun nd hnd => (hT1.2 nd hnd).1) (cellsSentTo w g q)
    (fun m hm => ⟨(hmsg m hm).1, (hmsg m hm).2.1, hpres m hm⟩) s.cells (fun x hx => (hw.cellsS q s hs x hx).1)
  refine ⟨?_, hT1, hG1, fun m hm => ⟨(hmsg m hm).2.1, (hmsg m hm).2.2.1, (hmsg m hm).2.2.2, hpres m hm⟩⟩
  unfold cellPhaseRank
  rw [hfold]
  rfl


/-- the world after `ref_migrate_shufflin_cell` for group `g` -/
def phaseWorld (w : World RankState) (g : Nat) : World RankState := w.mapIdx fun q s => phaseRank w g q s

theorem phaseWorld_get (w : World RankState) (g q : Nat) (s' : RankState) (h : (phaseWorld w g)[q]? = some s') :
    ∃ s, w[q]? = some s ∧ s' = phaseRank w g q s := by
  unfold phaseWorld at h
  rw [List.getElem?_mapIdx] at h
  cases hq : w[q]? with
  | none => rw [hq] at h; cases h
  | some s => rw [hq] at h; exact ⟨s, rfl, by simpa using h.symm⟩

include hu hS in
theorem cellPhase_eq (w : World RankState) (hw : WInv P Y S Vg w) (g : Nat) :
    cellPhase g w = some (phaseWorld w g) := by
  unfold cellPhase phaseWorld
  exact allSome_mapIdx_some w _ _ (fun q s hs => (phaseRank_spec P Y S Vg hu hS w hw g q s hs).1)

include hu hS in
/-- the cells of one rank after the phase of group `g` -/
theorem phase_cells (w : World RankState) (hw : WInv P Y S Vg w) (g q : Nat) (s : RankState) (hs : w[q]? = some s)
    (c : DCell) :
    c ∈ (phaseRank w g q s).cells ↔
      if c.group = g then (AllC w c ∧ ∃ v ∈ c.nodes, P v = (q : Int)) else c ∈ s.cells := by
  obtain ⟨_, hT, hG, hM⟩ := phaseRank_spec P Y S Vg hu hS w hw g q s hs
  have hmem : c ∈ ((cellsSentTo w g q).map (·.cell)).foldl (ins id) s.cells ↔
      c ∈ s.cells ∨ c ∈ (cellsSentTo w g q).map (·.cell) := by
    have := keys_foldl_ins (id : DCell → DCell) ((cellsSentTo w g q).map (·.cell)) s.cells c
    simpa [List.map_id] using this
  show c ∈ List.filter _ _ ↔ _
  rw [List.mem_filter, hmem]
  by_cases hg : c.group = g
  · rw [if_pos hg]
    have hne : (c.group != g) = false := by simp [hg]
    rw [hne, Bool.false_or]
    constructor
    · rintro ⟨hc, hk⟩
      have hpres : ∀ v ∈ c.nodes, v ∈ (phaseRank w g q s).nodes.map (·.glob) := by
        rcases hc with hc | hc
        · intro v hv; rw [hG]; exact Or.inl ((hw.cellsS q s hs c hc).2 v hv)
        · obtain ⟨m, hm, rfl⟩ := List.mem_map.mp hc
          exact (hM m hm).2.2.2
      refine ⟨?_, (keepCell_iff P Y q _ hT c hpres).mp hk⟩
      rcases hc with hc | hc
      · exact ⟨q, s, hs, hc⟩
      · obtain ⟨m, hm, rfl⟩ := List.mem_map.mp hc
        obtain ⟨r, t, ht, _, c', hc', _, _, rfl⟩ := (mem_cellsSentTo w g q m).mp hm
        exact ⟨r, t, ht, hc'⟩
    · rintro ⟨⟨r, t, ht, hc⟩, v, hv, hpv⟩
      have hin : c ∈ s.cells ∨ c ∈ (cellsSentTo w g q).map (·.cell) := by
        by_cases hrq : r = q
        · subst hrq; rw [hs] at ht; cases ht; exact Or.inl hc
        · refine Or.inr (List.mem_map.mpr ⟨⟨c, cellPartsOn t c⟩, ?_, rfl⟩)
          rw [mem_cellsSentTo]
          refine ⟨r, t, ht, hrq, c, hc, hg, ?_, rfl⟩
          rw [cellPartsOn_eq P Y r t (hw.table r t ht) c (hw.cellsS r t ht c hc).2]
          exact List.mem_map.mpr ⟨v, hv, hpv⟩
      refine ⟨hin, ?_⟩
      have hpres : ∀ v ∈ c.nodes, v ∈ (phaseRank w g q s).nodes.map (·.glob) := by
        rcases hin with hc' | hc'
        · intro v hv; rw [hG]; exact Or.inl ((hw.cellsS q s hs c hc').2 v hv)
        · obtain ⟨m, hm, rfl⟩ := List.mem_map.mp hc'
          exact (hM m hm).2.2.2
      exact (keepCell_iff P Y q _ hT c hpres).mpr ⟨v, hv, hpv⟩
  · rw [if_neg hg]
    have hne : (c.group != g) = true := by simp [hg]
    rw [hne, Bool.true_or]
    constructor
    · rintro ⟨hc | hc, _⟩
      · exact hc
      · obtain ⟨m, hm, rfl⟩ := List.mem_map.mp hc
        exact absurd (hM m hm).2.1 hg
    · intro hc; exact ⟨Or.inl hc, rfl⟩

include hu hS in
theorem phaseWorld_inv (w : World RankState) (hw : WInv P Y S Vg w) (g : Nat) : WInv P Y S Vg (phaseWorld w g) := by
  refine ⟨?_, ?_, ?_, ?_, ?_⟩
  · intro q s' h
    obtain ⟨s, hs, rfl⟩ := phaseWorld_get w g q s' h
    exact (phaseRank_spec P Y S Vg hu hS w hw g q s hs).2.1
  · intro q s' h nd hnd
    obtain ⟨s, hs, rfl⟩ := phaseWorld_get w g q s' h
    obtain ⟨_, _, hG, hM⟩ := phaseRank_spec P Y S Vg hu hS w hw g q s hs
    rcases (hG nd.glob).mp (List.mem_map_of_mem hnd) with h1 | ⟨m, hm, hv, _⟩
    · obtain ⟨nd', hnd', he⟩ := List.mem_map.mp h1
      have := hw.known q s hs nd' hnd'
      rw [he] at this; exact this
    · exact hS m.cell (hM m hm).1 nd.glob hv
  · intro q s' h c hc
    obtain ⟨s, hs, rfl⟩ := phaseWorld_get w g q s' h
    obtain ⟨_, _, hG, hM⟩ := phaseRank_spec P Y S Vg hu hS w hw g q s hs
    have hc' : c ∈ ((cellsSentTo w g q).map (·.cell)).foldl (ins id) s.cells := (List.mem_filter.mp hc).1
    rcases mem_foldl_ins id _ _ _ hc' with h1 | h1
    · exact ⟨(hw.cellsS q s hs c h1).1, fun v hv => (hG v).mpr (Or.inl ((hw.cellsS q s hs c h1).2 v hv))⟩
    · obtain ⟨m, hm, rfl⟩ := List.mem_map.mp h1
      exact ⟨(hM m hm).1, (hM m hm).2.2.2⟩
  · intro q s' h
    obtain ⟨s, hs, rfl⟩ := phaseWorld_get w g q s' h
    have := nodup_foldl_ins (id : DCell → DCell) ((cellsSentTo w g q).map (·.cell)) s.cells
      (by simpa [List.map_id] using hw.cellsNd q s hs)
    rw [List.map_id] at this
    exact this.filter _
  · intro x hx q s' h hp
    obtain ⟨s, hs, rfl⟩ := phaseWorld_get w g q s' h
    obtain ⟨_, _, hG, _⟩ := phaseRank_spec P Y S Vg hu hS w hw g q s hs
    exact (hG x).mpr (Or.inl (hw.owner x hx q s hs hp))

/-- the cell phases for the groups of `gs`, in that order -/
def phasesL (gs : List Nat) (w : World RankState) : Option (World RankState) :=
  gs.foldl (fun ow g => ow.bind (cellPhase g)) (some w)

include hu hS in
theorem phasesL_spec (gs : List Nat) (hnd : gs.Nodup) : ∀ (w : World RankState), WInv P Y S Vg w →
    ∃ w', phasesL gs w = some w' ∧ w'.length = w.length ∧ WInv P Y S Vg w' ∧
      ∀ (q : Nat) (s s' : RankState), w[q]? = some s → w'[q]? = some s' →
        s'.oldN = s.oldN ∧ s'.newN = s.newN ∧ s'.nUnused = s.nUnused ∧
        (∀ x ∈ s.nodes.map (·.glob), x ∈ s'.nodes.map (·.glob)) ∧
        ∀ c, c ∈ s'.cells ↔
          if c.group ∈ gs then (AllC w c ∧ ∃ v ∈ c.nodes, P v = (q : Int)) else c ∈ s.cells := by
  induction gs with
  | nil =>
    intro w hw
    exact ⟨w, rfl, rfl, hw, fun q s s' hs hs' => by
      rw [hs] at hs'; cases hs'
      exact ⟨rfl, rfl, rfl, fun x hx => hx, fun c => by simp⟩⟩
  | cons g gs ih =>
    intro w hw
    rw [List.nodup_cons] at hnd
    have h1 := cellPhase_eq P Y S Vg hu hS w hw g
    have hw1 := phaseWorld_inv P Y S Vg hu hS w hw g
    obtain ⟨w', he, hl, hw', hch⟩ := ih hnd.2 (phaseWorld w g) hw1
    refine ⟨w', ?_, ?_, hw', ?_⟩
    · unfold phasesL at he ⊢
      rw [List.foldl_cons]
      show List.foldl _ (cellPhase g w) gs = some w'
      rw [h1]; exact he
    · rw [hl]; unfold phaseWorld; exact List.length_mapIdx
    · intro q s s' hs hs'
      have hs1 : (phaseWorld w g)[q]? = some (phaseRank w g q s) := by
        unfold phaseWorld; rw [List.getElem?_mapIdx, hs]; rfl
      obtain ⟨c1, c2, c3, c4, c5⟩ := hch q (phaseRank w g q s) s' hs1 hs'
      obtain ⟨_, _, hG, _⟩ := phaseRank_spec P Y S Vg hu hS w hw g q s hs
      refine ⟨c1, c2, c3, fun x hx => c4 x ((hG x).mpr (Or.inl hx)), fun c => ?_⟩
      rw [c5 c]
      have hAll : c.group ≠ g → (AllC (phaseWorld w g) c ↔ AllC w c) := by
        intro hne
        constructor
        · rintro ⟨r, t', ht', hc⟩
          obtain ⟨t, ht, rfl⟩ := phaseWorld_get w g r t' ht'
          have := (phase_cells P Y S Vg hu hS w hw g r t ht c).mp hc
          rw [if_neg hne] at this
          exact ⟨r, t, ht, this⟩
        · rintro ⟨r, t, ht, hc⟩
          refine ⟨r, phaseRank w g r t, ?_, ?_⟩
          · unfold phaseWorld; rw [List.getElem?_mapIdx, ht]; rfl
          · rw [phase_cells P Y S Vg hu hS w hw g r t ht c, if_neg hne]; exact hc
      by_cases hin : c.group ∈ gs
      · have hne : c.group ≠ g := fun h => hnd.1 (h ▸ hin)
        simp only [hin, if_true, List.mem_cons, or_true]
        rw [hAll hne]
      · simp only [hin, if_false]
        rw [phase_cells P Y S Vg hu hS w hw g q s hs c]
        by_cases hg : c.group = g
        · simp [hg]
        · simp [hg, hin]

end Phase

end Refine.Lemmas.ShufflinWorld
