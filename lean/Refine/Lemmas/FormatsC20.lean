import Refine.Lemmas.FormatsBin

/-! helper lemmas of Props/C20Formats.lean -/
namespace Refine.Lemmas.Formats
open Refine.Model.Formats Refine.Model.FormatsBin Refine.Model.FormatsMapbc
open Refine.Model.Meshb (Bytes Status Vertex)
open Refine.Model.Ugrid (Kind)

/-! ### helper: from per-kind facts to `indicesInRange` -/

/-- cells whose nodes lie in `[0, nnode)` lie in `[0, cnt nnode)`: a cell with a node forces `nnode > 0` -/
theorem cells_cnt {nnode : Int} {per : Nat} {cs : List (List Int)} (h : ∀ c ∈ cs, nodesIn per 0 nnode c) :
    cellsInRange ((cnt nnode : Nat) : Int) per cs = true := by
  apply cellsInRange_of
  intro c hc
  obtain ⟨hl, hx⟩ := h c hc
  refine ⟨hl, fun x hxm => ?_⟩
  have hb := hx x hxm
  have hpos : 0 < nnode := by omega
  have : ((cnt nnode : Nat) : Int) = nnode := by unfold cnt; omega
  omega

theorem inRange_of_kinds {m : TMesh} {nnode : Int} (hn : m.nodes.length = cnt nnode)
    (h0 : ∀ c ∈ m.edg, nodesIn 2 0 nnode c) (h1 : ∀ c ∈ m.tri, nodesIn 3 0 nnode c)
    (h2 : ∀ c ∈ m.qua, nodesIn 4 0 nnode c) (h3 : ∀ c ∈ m.tet, nodesIn 4 0 nnode c)
    (h4 : ∀ c ∈ m.pyr, nodesIn 5 0 nnode c) (h5 : ∀ c ∈ m.pri, nodesIn 6 0 nnode c)
    (h6 : ∀ c ∈ m.hex, nodesIn 8 0 nnode c) : indicesInRange m = true := by
  unfold indicesInRange
  simp only [hn, Bool.and_eq_true, List.all_eq_true]
  refine ⟨cells_cnt h0, fun k _ => ?_⟩
  cases k
  · exact cells_cnt (per := 3) h1
  · exact cells_cnt (per := 4) h2
  · exact cells_cnt (per := 4) h3
  · exact cells_cnt (per := 5) h4
  · exact cells_cnt (per := 6) h5
  · exact cells_cnt (per := 8) h6

theorem none_in {per : Nat} {lo hi : Int} : ∀ c ∈ ([] : List (List Int)), nodesIn per lo hi c := by simp

theorem vertsOfColumns_length (n : Nat) (f : List UInt64) : (vertsOfColumns n f).length = n := by
  simp [vertsOfColumns]

theorem mapbcEntries_length {n : Nat} {ts : List Tok} {es : List (Int × Int)} (h : mapbcEntries n ts = .ok es) :
    es.length = n := by
  induction n generalizing ts es with
  | zero => simp [mapbcEntries] at h; simp [h]
  | succ n ih =>
    simp only [mapbcEntries] at h
    split at h; · cases h
    split at h; · cases h
    split at h; · cases h
    rename_i rest hsk
    cases h4 : mapbcEntries n rest with
    | error e => simp [h4] at h
    | ok es' =>
      simp only [h4, Except.ok.injEq] at h
      rw [← h, List.length_cons, ih h4]

/-- only two things stop the `.mapbc` reader model: REF_FAILURE, or an input outside the token abstraction -/
def Benign (e : Err) : Prop := e = .st .failure ∨ e = .unmodelled

theorem scanD_err {ts : List Tok} {e : Err} (h : scanD ts = .error e) : e = .unmodelled := by
  unfold scanD at h
  split at h
  all_goals first
    | (cases h; done)
    | (cases h; rfl)
    | (split at h <;> first | (cases h; done) | (cases h; rfl))

theorem rdD_err {ts : List Tok} {e : Err} (h : rdD ts = .error e) : Benign e := by
  unfold rdD at h
  split at h
  · rename_i e' he
    cases h
    exact .inr (scanD_err he)
  · cases h; exact .inl rfl
  · cases h

theorem lineDs_err {k : Nat} {l : List Tok} {e : Err} (h : lineDs k l = .error e) : e = .unmodelled := by
  induction k generalizing l with
  | zero => simp [lineDs] at h
  | succ k ih =>
    simp only [lineDs] at h
    split at h
    · rename_i e' he; cases h; exact scanD_err he
    · cases h
    · rename_i x l' _
      split at h
      · rename_i e' he; cases h; exact ih he
      · cases h
      · cases h

theorem lineD_err {l : List Tok} {e : Err} (h : lineD l = .error e) : Benign e := by
  unfold lineD at h
  split at h
  · rename_i e' he; cases h; exact .inr (lineDs_err he)
  · cases h; exact .inl rfl
  · cases h

theorem mapbcEntries_err {n : Nat} {ts : List Tok} {e : Err} (h : mapbcEntries n ts = .error e) : Benign e := by
  induction n generalizing ts with
  | zero => simp [mapbcEntries] at h
  | succ n ih =>
    simp only [mapbcEntries] at h
    split at h
    · rename_i e' he; cases h; exact rdD_err he
    · split at h
      · rename_i e' he; cases h; exact rdD_err he
      · split at h
        · cases h; exact .inr rfl
        · rename_i rest _
          split at h
          · rename_i e' he; cases h; exact ih he
          · cases h

/-- `fscanf("%s", line)` with `char line[1024]`: a piece of 1024 characters or more has no status in the model (the C
    writes past the buffer) -/
theorem msh_long_token (s : String) (h : 1024 ≤ s.length) :
    decodeMsh Fix.none [.word s, .nl] = .error (.st .undefined) := by
  have hl : (Tok.word s).len ≥ 1024 := h
  have hs : scanS Fix.none [.word s, .nl] = .error (.st .undefined) := by
    unfold scanS
    simp only [dropWs]
    rw [if_pos hl]
    rfl
  unfold decodeMsh
  show mshLoop Fix.none _ (_ + 1) _ _ = _
  unfold mshLoop
  rw [hs]


end Refine.Lemmas.Formats
