import Refine.Model.Quality
import Refine.Lemmas.ScalarReal
import Refine.Lemmas.GeomReal
import Mathlib.Tactic.Ring
import Mathlib.Tactic.Linarith
import Mathlib.Tactic.FieldSimp
import Mathlib.Tactic.Positivity
import Mathlib.Tactic.SplitIfs

/-!
  Real-number view of the quality kernels (`Model/Quality.lean`): literal bridges, the value of the
  edge-length-with-derivative routine, symmetric-function helpers.  Used by `Props/C15Quality.lean`.
-/
namespace Refine.QualityReal
open Refine Refine.Model.Geom Refine.Model.Quality Refine.ScalarReal Refine.GeomReal

@[simp] theorem lit3_eq : (lit3 : ℝ) = 3 := by simp [lit3]
@[simp] theorem lit4_eq : (lit4 : ℝ) = 4 := by simp [lit4]
@[simp] theorem litm1_eq : (litm1 : ℝ) = -1 := by simp [litm1]
@[simp] theorem twoThirds_eq : (twoThirds : ℝ) = 2 / 3 := by simp [twoThirds]
@[simp] theorem negThird_eq : (negThird : ℝ) = -1 / 3 := by simp [negThird]
@[simp] theorem oneThird_eq : (oneThird : ℝ) = 1 / 3 := by simp [oneThird]

/-- `Except.map Prod.fst` through the final `if divisible … then ok (q, d) else ok (-1, …)` of the dquality routines -/
theorem map_fst_ite {ε α β : Type} (c : Bool) (a a' : α) (b b' : β) :
    Except.map (ε := ε) Prod.fst (if c = true then Except.ok (a, b) else Except.ok (a', b')) =
      if c = true then Except.ok a else Except.ok a' := by
  cases c <;> rfl

/-- `ref_node_dratio_dnode0` returns the edge length of `ref_node_ratio` -/
theorem dratio_value (x0 x1 : V3 ℝ) (m0 m1 : M6 ℝ) :
    (dratioGeometric x0 x1 m0 m1).1 = ratioGeometric x0 x1 m0 m1 := by
  unfold dratioGeometric ratioGeometric
  have e0 : ∀ m : M6 ℝ, sqrtVtMv m (V3.sub x1 x0) = (sqrtVtMvDeriv m (V3.sub x1 x0)).1 := fun _ => rfl
  simp only [e0]
  generalize sqrtVtMvDeriv m0 (V3.sub x1 x0) = fd0
  generalize sqrtVtMvDeriv m1 (V3.sub x1 x0) = fd1
  obtain ⟨r0, d0⟩ := fd0
  obtain ⟨r1, d1⟩ := fd1
  simp only []
  split
  · rfl
  · split
    · simp only [Scalar.cmin]
      split <;> rfl
    · simp only [Scalar.cmin, Scalar.cmax]
      rcases lt_trichotomy r0 r1 with h | h | h
      · have h1 : (r0 <. r1) = true := (lt_iff _ _).mpr h
        have h2 : (r1 <. r0) = false := (lt_false_iff _ _).mpr h.le
        simp only [h1, h2, if_true, Bool.false_eq_true, if_false]
        split_ifs <;> simp
      · subst h
        have h1 : (r0 <. r0) = false := (lt_false_iff _ _).mpr le_rfl
        simp only [h1, Bool.false_eq_true, if_false]
        split_ifs <;> simp
      · have h1 : (r0 <. r1) = false := (lt_false_iff _ _).mpr h.le
        have h2 : (r1 <. r0) = true := (lt_iff _ _).mpr h
        simp only [h1, h2, if_true, Bool.false_eq_true, if_false]
        split_ifs
        · simp only [mul_eq, add_eq]; ring
        · simp

/-- `ref_node_tri_darea_dnode0` returns the area of `ref_node_tri_area` -/
theorem triDarea_value (a b c : V3 ℝ) : (triDareaDnode0 a b c).1 = triArea a b c := by
  simp only [triDareaDnode0, triArea, triNormal, cross, dot, V3.sub]

end Refine.QualityReal
