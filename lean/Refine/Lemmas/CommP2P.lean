import Refine.Lemmas.CommReduce

/-!
  The rank-0 scatter / gather loops over `ref_mpi_scatter_send/recv` and `ref_mpi_gather_send/recv`:
  tags match (dest / own rank), every worker gets its chunk, rank 0 gets the concatenation.
-/
namespace Refine.Lemmas.Comm
open Refine.Model.Comm
variable {α : Type}

theorem postAll_ok {β : Type} (ty : RefType) (hty : ty.mpiOk = true) (maxTag : Int) (tagOf : β → Int)
    (xs : List β) (h : ∀ x ∈ xs, tagOk maxTag (tagOf x) = true) : postAll ty maxTag tagOf xs = (Status.ok, xs) := by
  induction xs with
  | nil => rfl
  | cons x xs ih =>
    unfold postAll
    simp only [hty, Bool.not_true, Bool.false_eq_true, if_false, h x List.mem_cons_self]
    rw [ih (fun y hy => h y (List.mem_cons_of_mem _ hy))]

/-- the message for worker `r` is found by (dest, tag) among the sends of rank 0 -/
theorem find_scatter_msg (L : List (List α)) (j r : Nat) (h1 : j ≤ r) (h2 : r < j + L.length) :
    ((L.zipIdx j).map fun (cp : List α × Nat) => (⟨(cp.2 : Int), (cp.2 : Int), cp.1⟩ : Msg α)).find?
        (fun m => m.dest == (r : Int) && m.tag == (r : Int))
      = some ⟨(r : Int), (r : Int), L.getD (r - j) []⟩ := by
  induction L generalizing j with
  | nil => simp at h2; omega
  | cons c cs ih =>
    rw [List.zipIdx_cons, List.map_cons]
    by_cases hj : j = r
    · subst hj
      rw [List.find?_cons_of_pos]
      · simp
      · simp
    · rw [List.find?_cons_of_neg]
      · rw [ih (j + 1) (by omega) (by simp at h2; omega)]
        have : r - j = (r - (j + 1)) + 1 := by omega
        rw [this, List.getD_cons_succ]
      · simp only [Bool.and_eq_true, beq_iff_eq, not_and]
        intro h; omega

/-- what the ranks post in the rank-0 scatter loop when nothing fails -/
def scatterPosted [Inhabited α] (chunks : List (List α)) : World (Posted α) :=
  chunks.mapIdx fun r c =>
    if r = 0 then
      ⟨Status.ok, [], ((chunks.zipIdx).drop 1).map fun (cp : List α × Nat) => ⟨(cp.2 : Int), (cp.2 : Int), cp.1⟩, c⟩
    else ⟨Status.ok, [⟨0, (r : Int), 0, (c.length : Int)⟩], [], List.replicate c.length default⟩

theorem scatter_eq [Inhabited α] (ty : RefType) (hty : ty.mpiOk = true) (maxTag : Int) (chunks : List (List α))
    (hmax : (chunks.length : Int) ≤ maxTag + 1) :
    scatter ty maxTag chunks = some (chunks.map fun c => (Status.ok, c)) := by
  unfold scatter
  simp only []
  have hms : ∀ m ∈ ((chunks.zipIdx).drop 1).map (fun (cp : List α × Nat) => (⟨(cp.2 : Int), (cp.2 : Int), cp.1⟩ : Msg α)),
      tagOk maxTag m.tag = true := by
    intro m hm
    simp only [List.mem_map] at hm
    obtain ⟨⟨c, p⟩, hcp, rfl⟩ := hm
    have := List.mem_zipIdx (List.mem_of_mem_drop hcp)
    simp only [tagOk, Bool.and_eq_true, decide_eq_true_eq]
    omega
  have hposted : (chunks.mapIdx fun r c =>
        if r = 0 then
          (⟨(postAll ty maxTag (fun (m : Msg α) => m.tag)
              (((chunks.zipIdx).drop 1).map fun (cp : List α × Nat) => ⟨(cp.2 : Int), (cp.2 : Int), cp.1⟩)).1, [],
            (postAll ty maxTag (fun (m : Msg α) => m.tag)
              (((chunks.zipIdx).drop 1).map fun (cp : List α × Nat) => ⟨(cp.2 : Int), (cp.2 : Int), cp.1⟩)).2, c⟩ : Posted α)
        else
          ⟨(postAll ty maxTag (fun (q : Rcv) => q.tag) [⟨0, (r : Int), 0, (c.length : Int)⟩]).1,
            (postAll ty maxTag (fun (q : Rcv) => q.tag) [⟨0, (r : Int), 0, (c.length : Int)⟩]).2, [],
            List.replicate c.length default⟩)
      = scatterPosted chunks := by
    apply List.ext_getElem
    · simp [scatterPosted]
    · intro r h1 h2
      have hr : r < chunks.length := by simpa using h1
      simp only [scatterPosted, List.getElem_mapIdx]
      by_cases hr0 : r = 0
      · simp only [hr0, if_true, postAll_ok ty hty maxTag _ _ hms]
      · simp only [hr0, if_false]
        rw [postAll_ok ty hty maxTag (fun (q : Rcv) => q.tag) _ (by
          intro q hq
          simp only [List.mem_singleton] at hq
          subst hq
          simp only [tagOk, Bool.and_eq_true, decide_eq_true_eq]
          omega)]
  rw [hposted]
  unfold p2pExchange
  have hW : ∀ s, (hs : s < chunks.length) → (scatterPosted chunks)[s]? = some ((scatterPosted chunks)[s]'(by simpa [scatterPosted] using hs)) := by
    intro s hs
    exact List.getElem?_eq_getElem _
  have hloop : (scatterPosted chunks).mapIdx (fun r p =>
        if p.status ≠ Status.ok then
          (if p.rcvs.isEmpty && p.msgs.isEmpty then some (p.status, p.buf) else none)
        else if p.msgs.all (sendMatched (scatterPosted chunks) (r : Int)) then
          (recvPosted (scatterPosted chunks) (r : Int) p.rcvs p.buf).map fun b => (Status.ok, b)
        else none)
      = (chunks.map fun c => (Status.ok, c)).map some := by
    apply List.ext_getElem
    · simp [scatterPosted]
    · intro r h1 h2
      have hr : r < chunks.length := by simpa [scatterPosted] using h1
      simp only [List.getElem_mapIdx, List.getElem_map]
      by_cases hr0 : r = 0
      · subst hr0
        simp only [scatterPosted, List.getElem_mapIdx, if_true, ne_eq, not_true_eq_false, if_false]
        have hall : (((chunks.zipIdx).drop 1).map fun (cp : List α × Nat) => (⟨(cp.2 : Int), (cp.2 : Int), cp.1⟩ : Msg α)).all
            (sendMatched (scatterPosted chunks) ((0 : Nat) : Int)) = true := by
          rw [List.all_eq_true]
          intro m hm
          simp only [List.mem_map] at hm
          obtain ⟨⟨c, p⟩, hcp, rfl⟩ := hm
          have hz := List.mem_zipIdx (List.mem_of_mem_drop hcp)
          have hp1 : 1 ≤ p := by
            -- elements after the first have index ≥ 1
            have := List.mem_drop_iff_getElem.mp hcp
            obtain ⟨i, hi, hget⟩ := this
            rw [List.getElem_zipIdx] at hget
            have := congrArg Prod.snd hget
            simp only at this
            omega
          have hp : p < chunks.length := by omega
          unfold sendMatched
          have hneg : ¬ ((p : Int) < 0) := by omega
          have hp0 : ¬ p = 0 := by omega
          simp only [hneg, if_false, Int.toNat_natCast, hW p hp]
          simp [scatterPosted, hp0]
        simp only [scatterPosted] at hall
        simp only [hall, if_true, recvPosted, Option.map_some]
      · have hel : (scatterPosted chunks)[r]'(by simpa [scatterPosted] using hr)
            = ⟨Status.ok, [⟨0, (r : Int), 0, (chunks[r].length : Int)⟩], [], List.replicate chunks[r].length default⟩ := by
          simp [scatterPosted, hr0]
        rw [hel]
        simp only [ne_eq, not_true_eq_false, if_false, List.all_nil, if_true]
        unfold recvPosted findMsg
        have h0 : 0 < chunks.length := by omega
        have hneg : ¬ ((0 : Int) < 0) := by omega
        simp only [hneg, if_false, Int.toNat_zero, hW 0 h0]
        have hmsgs : ((scatterPosted chunks)[0]'(by simpa [scatterPosted] using h0)).msgs
            = ((chunks.zipIdx).drop 1).map fun (cp : List α × Nat) => (⟨(cp.2 : Int), (cp.2 : Int), cp.1⟩ : Msg α) := by
          simp [scatterPosted]
        rw [hmsgs]
        have hdrop : (chunks.zipIdx).drop 1 = (chunks.drop 1).zipIdx 1 := by
          cases chunks with
          | nil => simp
          | cons c cs => simp [List.zipIdx_cons]
        rw [hdrop, find_scatter_msg (chunks.drop 1) 1 r (by omega) (by simp; omega)]
        have hget : (chunks.drop 1).getD (r - 1) [] = chunks[r] := by
          rw [List.getD_eq_getElem?_getD, List.getElem?_drop]
          have : 1 + (r - 1) = r := by omega
          rw [this, List.getElem?_eq_getElem hr]; rfl
        simp only [hget, Int.le_refl, if_true, recvPosted, Option.map_some]
        rw [writeAt_full _ _ (by simp)]
  rw [hloop, allSome_map_some]

/-! ### rank-0 gather loop -/

/-- the receive requests of rank 0 for the workers `j, j+1, …` holding `L`, storing at consecutive offsets -/
def gatherReqs (L : List (List α)) (j : Nat) (acc : Int) : List Rcv :=
  ((((lensI L).zip (displsFrom acc (lensI L))).zipIdx j).map fun (x : (Int × Int) × Nat) =>
    (⟨(x.2 : Int), (x.2 : Int), x.1.2, x.1.1⟩ : Rcv))

theorem recvPosted_gather (W : World (Posted α)) (L : List (List α)) (j : Nat) (acc : Int) (pre rest : List α)
    (hacc : acc = (pre.length : Int)) (hrest : rest.length = L.flatten.length)
    (hfind : ∀ k, k < L.length → ∀ o c, ∃ m, findMsg W 0 ⟨((j + k : Nat) : Int), ((j + k : Nat) : Int), o, c⟩ = some m
      ∧ m.data = L.getD k []) :
    recvPosted W 0 (gatherReqs L j acc) (pre ++ rest) = some (pre ++ L.flatten) := by
  induction L generalizing j acc pre rest with
  | nil =>
    simp only [List.flatten_nil, List.length_nil] at hrest
    have : rest = [] := List.eq_nil_of_length_eq_zero hrest
    simp [gatherReqs, lensI, displsFrom, recvPosted, this]
  | cons l L ih =>
    simp only [gatherReqs, lensI, List.map_cons, displsFrom, List.zip_cons_cons, List.zipIdx_cons]
    unfold recvPosted
    obtain ⟨m, hm, hmd⟩ := hfind 0 (by simp) acc (l.length : Int)
    simp only [Nat.add_zero, List.getD_cons_zero] at hm hmd
    simp only [hm, hmd, Int.le_refl, if_true]
    simp only [List.flatten_cons, List.length_append] at hrest
    have hsplit : rest = rest.take l.length ++ rest.drop l.length := (List.take_append_drop _ _).symm
    have htl : (rest.take l.length).length = l.length := by rw [List.length_take]; omega
    have hw : writeAt (pre ++ rest) acc.toNat l = pre ++ l ++ rest.drop l.length := by
      conv => lhs; rw [hsplit, ← List.append_assoc]
      exact writeAt_mid pre _ _ _ _ (by omega) htl
    rw [hw]
    have := ih (j + 1) (acc + (l.length : Int)) (pre ++ l) (rest.drop l.length)
      (by simp only [List.length_append]; omega) (by rw [List.length_drop]; omega)
      (by
        intro k hk o c
        have := hfind (k + 1) (by simpa using hk) o c
        have e : j + (k + 1) = j + 1 + k := by omega
        rw [e] at this
        simpa using this)
    simp only [gatherReqs, lensI] at this
    rw [this]
    simp [List.append_assoc]

theorem gatherReqs_any (L : List (List α)) (j : Nat) (acc : Int) (k : Nat) (hk : k < L.length) :
    (gatherReqs L j acc).any (fun rq => rq.source == ((j + k : Nat) : Int) && rq.tag == ((j + k : Nat) : Int)) = true := by
  induction L generalizing j acc k with
  | nil => simp at hk
  | cons l L ih =>
    simp only [gatherReqs, lensI, List.map_cons, displsFrom, List.zip_cons_cons, List.zipIdx_cons, List.any_cons]
    cases k with
    | zero => simp
    | succ k =>
      have := ih (j + 1) (acc + (l.length : Int)) k (by simpa using hk)
      simp only [gatherReqs, lensI] at this
      have e : j + (k + 1) = j + 1 + k := by omega
      rw [e, this, Bool.or_true]

theorem gatherReqs_tags (L : List (List α)) (j : Nat) (acc : Int) :
    ∀ q ∈ gatherReqs L j acc, 0 ≤ q.tag ∧ q.tag < ((j + L.length : Nat) : Int) := by
  intro q hq
  simp only [gatherReqs, List.mem_map] at hq
  obtain ⟨⟨x, p⟩, hx, rfl⟩ := hq
  have := List.mem_zipIdx hx
  simp only [List.length_zip, lensI, List.length_map, length_displsFrom, Nat.min_self] at this
  simp only
  omega

/-- what the ranks post in the rank-0 gather loop when nothing fails -/
def gatherPosted [Inhabited α] (w : World (List α)) : World (Posted α) :=
  w.mapIdx fun r c =>
    if r = 0 then
      ⟨Status.ok, gatherReqs (w.drop 1) 1 (c.length : Int), [],
        writeAt (List.replicate w.flatten.length default) 0 c⟩
    else ⟨Status.ok, [], [⟨0, (r : Int), c⟩], []⟩

theorem writeAt_replicate_head [Inhabited α] (n : Nat) (c : List α) (h : c.length ≤ n) :
    writeAt (List.replicate n (default : α)) 0 c = c ++ List.replicate (n - c.length) default := by
  have hsplit : List.replicate n (default : α)
      = [] ++ List.replicate c.length default ++ List.replicate (n - c.length) default := by
    rw [List.nil_append, List.replicate_append_replicate]
    congr 1; omega
  rw [hsplit, writeAt_mid [] _ _ c 0 rfl (by simp)]
  simp

theorem gather_eq [Inhabited α] (ty : RefType) (hty : ty.mpiOk = true) (maxTag : Int) (c0 : List α)
    (cs : List (List α)) (hmax : ((c0 :: cs).length : Int) ≤ maxTag + 1) :
    gather ty maxTag (c0 :: cs)
      = some ((Status.ok, (c0 :: cs).flatten) :: cs.map fun _ => (Status.ok, [])) := by
  unfold gather
  simp only []
  have hsum : isum ((c0 :: cs).map fun c => (c.length : Int)) = ((c0 :: cs).flatten.length : Int) := by
    rw [isum_eq_sum]
    exact lensI_sum (c0 :: cs)
  have hrq : ((((((c0 :: cs).map fun c => (c.length : Int)).zip
        (displs ((c0 :: cs).map fun c => (c.length : Int)))).zipIdx).drop 1).map fun (x : (Int × Int) × Nat) =>
          (⟨(x.2 : Int), (x.2 : Int), x.1.2, x.1.1⟩ : Rcv))
      = gatherReqs cs 1 (c0.length : Int) := by
    simp [gatherReqs, lensI, displs, displsFrom, List.zipIdx_cons]
  have htags : ∀ q ∈ gatherReqs cs 1 (c0.length : Int), tagOk maxTag q.tag = true := by
    intro q hq
    have := gatherReqs_tags cs 1 (c0.length : Int) q hq
    simp only [tagOk, Bool.and_eq_true, decide_eq_true_eq]
    simp only [List.length_cons] at hmax
    push_cast at this hmax
    omega
  have hposted : ((c0 :: cs).mapIdx fun r c =>
        if r = 0 then
          (⟨(postAll ty maxTag (fun (q : Rcv) => q.tag) (gatherReqs cs 1 (c0.length : Int))).1,
            (postAll ty maxTag (fun (q : Rcv) => q.tag) (gatherReqs cs 1 (c0.length : Int))).2, [],
            writeAt (List.replicate ((c0 :: cs).flatten.length) default) 0 c⟩ : Posted α)
        else
          ⟨(postAll ty maxTag (fun (m : Msg α) => m.tag) [⟨0, (r : Int), c⟩]).1, [],
            (postAll ty maxTag (fun (m : Msg α) => m.tag) [⟨0, (r : Int), c⟩]).2, []⟩)
      = gatherPosted (c0 :: cs) := by
    apply List.ext_getElem
    · simp [gatherPosted]
    · intro r h1 h2
      have hr : r < (c0 :: cs).length := by simpa using h1
      simp only [gatherPosted, List.getElem_mapIdx]
      by_cases hr0 : r = 0
      · subst hr0
        simp only [if_true, postAll_ok ty hty maxTag _ _ htags, List.drop_succ_cons, List.drop_zero,
          List.getElem_cons_zero]
      · simp only [hr0, if_false]
        rw [postAll_ok ty hty maxTag (fun (m : Msg α) => m.tag) _ (by
          intro q hq
          simp only [List.mem_singleton] at hq
          subst hq
          simp only [tagOk, Bool.and_eq_true, decide_eq_true_eq]
          omega)]
  simp only [hsum, hrq, Int.toNat_natCast]
  rw [hposted]
  unfold p2pExchange
  have hW : ∀ s, (hs : s < (c0 :: cs).length) → (gatherPosted (c0 :: cs))[s]?
      = some ((gatherPosted (c0 :: cs))[s]'(by simpa [gatherPosted] using hs)) := by
    intro s hs
    exact List.getElem?_eq_getElem _
  have hworker : ∀ r, (hr : r < (c0 :: cs).length) → r ≠ 0 →
      (gatherPosted (c0 :: cs))[r]'(by simpa [gatherPosted] using hr)
        = ⟨Status.ok, [], [⟨0, (r : Int), (c0 :: cs)[r]⟩], []⟩ := by
    intro r hr hr0
    simp only [gatherPosted, List.getElem_mapIdx, hr0, if_false]
  have hroot : (gatherPosted (c0 :: cs))[0]'(by simp [gatherPosted])
      = ⟨Status.ok, gatherReqs cs 1 (c0.length : Int), [],
          writeAt (List.replicate (c0 :: cs).flatten.length default) 0 c0⟩ := by
    simp only [gatherPosted, List.getElem_mapIdx, if_true, List.getElem_cons_zero, List.drop_succ_cons,
      List.drop_zero]
  have hloop : (gatherPosted (c0 :: cs)).mapIdx (fun r p =>
        if p.status ≠ Status.ok then
          (if p.rcvs.isEmpty && p.msgs.isEmpty then some (p.status, p.buf) else none)
        else if p.msgs.all (sendMatched (gatherPosted (c0 :: cs)) (r : Int)) then
          (recvPosted (gatherPosted (c0 :: cs)) (r : Int) p.rcvs p.buf).map fun b => (Status.ok, b)
        else none)
      = ((Status.ok, (c0 :: cs).flatten) :: cs.map fun _ => (Status.ok, ([] : List α))).map some := by
    apply List.ext_getElem
    · simp [gatherPosted]
    · intro r h1 h2
      have hr : r < (c0 :: cs).length := by simpa [gatherPosted] using h1
      simp only [List.getElem_mapIdx]
      cases r with
      | zero =>
        rw [hroot]
        simp only [ne_eq, not_true_eq_false, if_false, List.all_nil, if_true, List.map_cons,
          List.getElem_cons_zero]
        rw [writeAt_replicate_head _ c0 (by simp)]
        have := recvPosted_gather (gatherPosted (c0 :: cs)) cs 1 (c0.length : Int) c0
          (List.replicate ((c0 :: cs).flatten.length - c0.length) default) rfl (by simp)
          (by
            intro k hk o c
            have hk1 : 1 + k < (c0 :: cs).length := by simp; omega
            unfold findMsg
            have hneg : ¬ (((1 + k : Nat) : Int) < 0) := by omega
            simp only [hneg, if_false, Int.toNat_natCast, hW (1 + k) hk1, hworker (1 + k) hk1 (by omega)]
            refine ⟨⟨0, ((1 + k : Nat) : Int), (c0 :: cs)[1 + k]⟩, by simp, ?_⟩
            simp only
            have e : 1 + k = k + 1 := by omega
            simp [e, List.getD_eq_getElem?_getD, hk])
        simp only [Int.natCast_zero] at this ⊢
        rw [this]
        simp
      | succ r =>
        rw [hworker (r + 1) hr (by omega)]
        simp only [ne_eq, not_true_eq_false, if_false, List.all_cons, List.all_nil, Bool.and_true]
        have hm : sendMatched (gatherPosted (c0 :: cs)) ((r + 1 : Nat) : Int)
            (⟨0, ((r + 1 : Nat) : Int), (c0 :: cs)[r + 1]⟩ : Msg α) = true := by
          unfold sendMatched
          have hneg : ¬ ((0 : Int) < 0) := by omega
          simp only [hneg, if_false, Int.toNat_zero, hW 0 (by simp), hroot]
          have := gatherReqs_any cs 1 (c0.length : Int) r (by simpa using hr)
          have e : 1 + r = r + 1 := by omega
          rw [e] at this
          exact this
        simp only [List.getElem_cons_succ] at hm
        simp only [recvPosted, Option.map_some, List.map_cons, List.getElem_cons_succ, List.getElem_map, hm,
          if_true]
  rw [hloop, allSome_map_some]

end Refine.Lemmas.Comm
