import Refine.Lemmas.InterpLocateComm

/-!
  A second, index-aware invariant of `Refine.Model.InterpLocate`, strong enough to relate what is STORED for a receptor
  vertex to its POSITION: `PN i cell part slots` may talk about the node index (hence, through the rank's receptor view,
  about its coordinates), the stored cell and part, and `QA` about the whole agent record (target point, home, node,
  part, seed, weights).  `Props/C11Locate.lean` instantiates it with "the stored slots are the weights of the vertex'
  own position in the stored cell of rank `part`'s donor" (`locate_stored_weights`).

  This file: the rank-local steps.
-/
set_option linter.unusedSectionVars false

namespace Refine.Lemmas.InterpLocate
open Refine Refine.Model.Geom Refine.Model.Interp Refine.Model.InterpLocate Refine.Model.Comm
open Refine.Gen

variable {α : Type} [Scalar α]

/-- the rank-local invariant: every located node satisfies `PN`, every agent `QA` -/
structure GoodG (PN : Nat → Int → Int → Slots α → Prop) (QA : AgentP α → Prop) (st : RankSt α) : Prop where
  wfb : st.bary.length = st.stage.length
  wfc : st.cell.length = st.stage.length
  wfp : st.part.length = st.stage.length
  nodes : ∀ i, st.stage.getD i 0 ≠ 0 → PN i (st.cellOf i) (st.part.getD i refEmpty) (st.baryOf i)
  located : ∀ i, st.stage.getD i 0 ≠ 0 → st.cellOf i ≠ refEmpty
  agents : ∀ p ∈ st.ag.act, QA p.2

variable {PN : Nat → Int → Int → Slots α → Prop} {QA : AgentP α → Prop}

/-- a change that leaves the four per-node arrays alone -/
theorem goodG_frame {st st' : RankSt α} (h : GoodG PN QA st) (hb : st'.bary = st.bary) (hs : st'.stage = st.stage)
    (hc : st'.cell = st.cell) (hp : st'.part = st.part) (ha : ∀ p ∈ st'.ag.act, QA p.2) : GoodG PN QA st' := by
  refine ⟨by rw [hb, hs]; exact h.wfb, by rw [hc, hs]; exact h.wfc, by rw [hp, hs]; exact h.wfp, ?_, ?_, ha⟩
  · intro i hi
    have := h.nodes i (by rw [← hs]; exact hi)
    simpa [RankSt.cellOf, RankSt.baryOf, hb, hc, hp] using this
  · intro i hi
    have := h.located i (by rw [← hs]; exact hi)
    simpa [RankSt.cellOf, hc] using this

theorem goodG_store {st : RankSt α} (h : GoodG PN QA st) (node : Nat) (cell proc : Int) (n : Nat) (src : Slots α) (sg : Nat)
    (hcell : cell ≠ refEmpty)
    (hP : PN node cell proc (Slots.copyN n (st.baryOf node) src)) :
    GoodG PN QA (st.store node cell proc n src sg) := by
  have e1 : (st.store node cell proc n src sg).stage = st.stage.set node sg := rfl
  have e2 : (st.store node cell proc n src sg).cell = st.cell.set node cell := rfl
  have e3 : (st.store node cell proc n src sg).part = st.part.set node proc := rfl
  have e4 : (st.store node cell proc n src sg).bary = st.bary.set node (Slots.copyN n (st.baryOf node) src) := rfl
  refine ⟨by rw [e4, e1]; simp [h.wfb], by rw [e2, e1]; simp [h.wfc], by rw [e3, e1]; simp [h.wfp], ?_, ?_, h.agents⟩
  · intro i hi
    unfold RankSt.cellOf RankSt.baryOf
    rw [e1] at hi
    rw [e2, e3, e4]
    by_cases hin : node = i
    · subst hin
      by_cases hl : node < st.stage.length
      · rw [getD_set_self _ _ _ _ (by rw [h.wfc]; exact hl), getD_set_self _ _ _ _ (by rw [h.wfp]; exact hl),
          getD_set_self _ _ _ _ (by rw [h.wfb]; exact hl)]
        exact hP
      · have hl' : st.stage.length ≤ node := Nat.le_of_not_lt hl
        rw [set_of_length_le _ _ _ hl'] at hi
        rw [set_of_length_le _ _ _ (by rw [h.wfc]; exact hl'), set_of_length_le _ _ _ (by rw [h.wfp]; exact hl'),
          set_of_length_le _ _ _ (by rw [h.wfb]; exact hl')]
        exact h.nodes node hi
    · rw [getD_set_ne _ _ _ _ _ hin] at hi
      rw [getD_set_ne _ _ _ _ _ hin, getD_set_ne _ _ _ _ _ hin, getD_set_ne _ _ _ _ _ hin]
      exact h.nodes i hi
  · intro i hi
    unfold RankSt.cellOf
    rw [e1] at hi
    rw [e2]
    by_cases hin : node = i
    · subst hin
      by_cases hl : node < st.stage.length
      · rw [getD_set_self _ _ _ _ (by rw [h.wfc]; exact hl)]
        exact hcell
      · have hl' : st.stage.length ≤ node := Nat.le_of_not_lt hl
        rw [set_of_length_le _ _ _ hl'] at hi
        rw [set_of_length_le _ _ _ (by rw [h.wfc]; exact hl')]
        exact h.located node hi
    · rw [getD_set_ne _ _ _ _ _ hin] at hi
      rw [getD_set_ne _ _ _ _ _ hin]
      exact h.located i hi

/-! ## the agents `ref_interp_push_onto_queue` creates -/

/-- the walker hired for the owned neighbour `other` -/
def mkWalker (r : Nat) (rc : RecvR α) (other : Nat) (sp sc : Int) : AgentP α :=
  ⟨.walking, (r : Int), (other : Int), sp, sc, refEmpty, 0, rc.pt other, Slots.unwritten⟩

/-- the suggestion sent to the owner of the ghost neighbour `other` -/
def mkSuggestion (rc : RecvR α) (other : Nat) (sp sc : Int) : AgentP α :=
  ⟨.suggestion, rc.part.getD other (-1), refEmpty, sp, sc, rc.glob.getD other (-1), 0, rc.pt other, Slots.unwritten⟩

theorem goodG_pushOne (r : Nat) (rc : RecvR α) (node : Nat) (st : RankSt α) (other : Nat) (h : GoodG PN QA st)
    (hw : ∀ other sp sc, QA (mkWalker r rc other sp sc)) (hs : ∀ other sp sc, QA (mkSuggestion rc other sp sc)) :
    GoodG PN QA (pushOne r rc node st other) := by
  unfold pushOne
  simp only
  split
  · split
    · refine goodG_frame h rfl rfl rfl rfl ?_
      intro p hp
      rcases mem_push hp with hp | hp
      · exact h.agents p hp
      · rw [hp]; exact hw other _ _
    · exact h
  · refine goodG_frame h rfl rfl rfl rfl ?_
    intro p hp
    rcases mem_push hp with hp | hp
    · exact h.agents p hp
    · rw [hp]; exact hs other _ _

theorem goodG_foldl_pushOne (r : Nat) (rc : RecvR α) (node : Nat) (l : List Nat) (st : RankSt α) (h : GoodG PN QA st)
    (hw : ∀ other sp sc, QA (mkWalker r rc other sp sc)) (hs : ∀ other sp sc, QA (mkSuggestion rc other sp sc)) :
    GoodG PN QA (l.foldl (pushOne r rc node) st) := by
  induction l generalizing st with
  | nil => exact h
  | cons o rest ih => exact ih _ (goodG_pushOne r rc node st o h hw hs)

theorem goodG_pushOntoQueue {r : Nat} {rc : RecvR α} {st st' : RankSt α} {node : Nat} (h : GoodG PN QA st)
    (hw : ∀ other sp sc, QA (mkWalker r rc other sp sc)) (hs : ∀ other sp sc, QA (mkSuggestion rc other sp sc))
    (hq : pushOntoQueue r rc st node = .ok st') : GoodG PN QA st' := by
  unfold pushOntoQueue at hq
  split at hq
  · cases hq
  · simp only [Except.ok.injEq] at hq
    subst hq
    exact goodG_foldl_pushOne r rc node _ st h hw hs

/-! ## the receive loops -/

theorem goodG_geomRecv (r : Nat) (rc : RecvR α)
    (hw : ∀ other sp sc, QA (mkWalker r rc other sp sc)) (hs : ∀ other sp sc, QA (mkSuggestion rc other sp sc)) :
    ∀ (items : List (Int × Int × Int × Slots α)) (st st' : RankSt α), GoodG PN QA st →
      (∀ it ∈ items, geomAccept it.2.2.2 = true → it.2.1 ≠ refEmpty ∧ PN it.1.toNat it.2.1 it.2.2.1 it.2.2.2) →
      geomRecv r rc st items = .ok st' → GoodG PN QA st'
  | [], st, st', h, _, hr => by
    simp only [geomRecv, Except.ok.injEq] at hr
    subst hr; exact h
  | (node, cell, proc, bary) :: rest, st, st', h, hit, hr => by
    have hrest : ∀ it ∈ rest, geomAccept it.2.2.2 = true → it.2.1 ≠ refEmpty ∧ PN it.1.toNat it.2.1 it.2.2.1 it.2.2.2 :=
      fun it hi => hit it (List.mem_cons_of_mem _ hi)
    simp only [geomRecv] at hr
    by_cases hacc : geomAccept bary = true
    · rw [if_pos hacc] at hr
      split at hr
      · cases hr
      · obtain ⟨hc, hP⟩ := hit _ List.mem_cons_self hacc
        split at hr
        · rename_i st1 hq
          refine goodG_geomRecv r rc hw hs rest st1 st' ?_ hrest hr
          refine goodG_pushOntoQueue ?_ hw hs hq
          apply goodG_store
          · split
            · exact goodG_frame h rfl rfl rfl rfl (fun p hp => h.agents p (mem_deleteNode hp))
            · exact goodG_frame h rfl rfl rfl rfl h.agents
          · exact hc
          · rw [geomCopy_eq, copyN_four]; exact hP
        · cases hr
    · rw [if_neg hacc] at hr
      refine goodG_geomRecv r rc hw hs rest _ st' ?_ hrest hr
      exact goodG_frame h rfl rfl rfl rfl h.agents

theorem goodG_treeRecv :
    ∀ (items : List (Int × Int × Int × Slots α)) (st st' : RankSt α), GoodG PN QA st →
      (∀ it ∈ items, it.2.1 ≠ refEmpty → PN it.1.toNat it.2.1 it.2.2.1 it.2.2.2) →
      treeRecv st items = .ok st' → GoodG PN QA st'
  | [], st, st', h, _, hr => by
    simp only [treeRecv, Except.ok.injEq] at hr
    subst hr; exact h
  | (node, cell, proc, bary) :: rest, st, st', h, hit, hr => by
    have hrest : ∀ it ∈ rest, it.2.1 ≠ refEmpty → PN it.1.toNat it.2.1 it.2.2.1 it.2.2.2 :=
      fun it hi => hit it (List.mem_cons_of_mem _ hi)
    simp only [treeRecv] at hr
    split at hr
    · cases hr
    · rename_i hguard
      have hce : st.cellOf node.toNat = refEmpty := by simpa using hguard
      have h1 : GoodG PN QA (if st.hired.getD node.toNat false = true
          then { st with ag := st.ag.deleteNode node, hired := st.hired.set node.toNat false } else st) := by
        split
        · exact goodG_frame h rfl rfl rfl rfl (fun p hp => h.agents p (mem_deleteNode hp))
        · exact h
      by_cases hc : (cell != refEmpty) = true
      · rw [if_pos hc] at hr
        refine goodG_treeRecv rest _ st' ?_ hrest hr
        have hne : cell ≠ refEmpty := by simpa using hc
        have hP := hit _ List.mem_cons_self hne
        have hs := goodG_store (PN := PN) (QA := QA) h1 node.toNat cell proc InterpConsts.treeCopy bary 3 hne
          (by rw [treeCopy_eq, copyN_four]; exact hP)
        exact goodG_frame hs rfl rfl rfl rfl hs.agents
      · rw [if_neg hc] at hr
        refine goodG_treeRecv rest _ st' ?_ hrest hr
        -- the node had no cell, hence no stage tag: writing `REF_EMPTY` + the proposer's rank changes nothing located
        set st1 := (if st.hired.getD node.toNat false = true
          then { st with ag := st.ag.deleteNode node, hired := st.hired.set node.toNat false } else st) with hst1
        have hcell1 : st1.cell = st.cell := by rw [hst1]; split <;> rfl
        have hstage1 : st1.stage = st.stage := by rw [hst1]; split <;> rfl
        have hstage0 : st1.stage.getD node.toNat 0 = 0 := by
          by_contra hne
          have := h1.located node.toNat hne
          rw [RankSt.cellOf, hcell1] at this
          exact this hce
        refine ⟨h1.wfb, by simp [h1.wfc], by simp [h1.wfp], ?_, ?_, h1.agents⟩
        · intro i hi
          by_cases hin : node.toNat = i
          · subst hin; exact absurd hstage0 hi
          · have := h1.nodes i hi
            show PN i ((st1.cell.set node.toNat cell).getD i refEmpty) ((st1.part.set node.toNat proc).getD i refEmpty)
              (st1.bary.getD i Slots.unwritten)
            rw [getD_set_ne _ _ _ _ _ hin, getD_set_ne _ _ _ _ _ hin]
            exact this
        · intro i hi
          by_cases hin : node.toNat = i
          · subst hin; exact absurd hstage0 hi
          · have := h1.located i hi
            show (st1.cell.set node.toNat cell).getD i refEmpty ≠ refEmpty
            rw [getD_set_ne _ _ _ _ _ hin]
            exact this

/-! ## the five `each_active_ref_agent` loops -/

theorem goodG_walkAll {r : Nat} {dr : DonorR α} {st st' : RankSt α} (h : GoodG PN QA st)
    (hwalk : ∀ (a a' : AgentP α) (rnd rnd' : Nat) (e : ISt), QA a → walkAgentP r dr a rnd = (e, a', rnd') →
      a.mode = AMode.walking → a.part = (r : Int) → QA a')
    (hw : walkAll r dr st = .ok st') : GoodG PN QA st' := by
  unfold walkAll at hw
  refine foldlM_inv (GoodG PN QA) _ ?_ _ st st' h hw
  intro s id s' hs hstep
  try simp only at hstep
  split at hstep
  · rename_i a hget
    split at hstep
    · rename_i hcond
      split at hstep
      · rename_i a' rnd' hwk
        simp only [Except.ok.injEq] at hstep
        subst hstep
        simp only [Bool.and_eq_true, beq_iff_eq] at hcond
        obtain ⟨p, hp, hpa⟩ := get?_mem hget
        have hQa : QA a := by rw [← hpa]; exact hs.agents p hp
        refine goodG_frame hs rfl rfl rfl rfl ?_
        intro q hq
        rcases mem_set hq with hq | hq
        · exact hs.agents q hq
        · rw [hq]; exact hwalk a a' s.rnd rnd' _ hQa hwk hcond.1 hcond.2
      · cases hstep
    · simp only [Except.ok.injEq] at hstep; subst hstep; exact hs
  · simp only [Except.ok.injEq] at hstep; subst hstep; exact hs

theorem goodG_hopArrive {r : Nat} {dr : DonorR α} {st st' : RankSt α} (h : GoodG PN QA st)
    (hhop : ∀ (a : AgentP α) (seed' : Int), QA a → a.mode = AMode.hopPart →
      QA { a with mode := AMode.walking, seed := seed' })
    (hw : hopArrive r dr st = .ok st') : GoodG PN QA st' := by
  unfold hopArrive at hw
  refine foldlM_inv (GoodG PN QA) _ ?_ _ st st' h hw
  intro s id s' hs hstep
  try simp only at hstep
  split at hstep
  · rename_i a hget
    split at hstep
    · rename_i hcond
      split at hstep
      · simp only [Except.ok.injEq] at hstep
        subst hstep
        simp only [Bool.and_eq_true, beq_iff_eq] at hcond
        obtain ⟨p, hp, hpa⟩ := get?_mem hget
        have hQa : QA a := by rw [← hpa]; exact hs.agents p hp
        refine goodG_frame hs rfl rfl rfl rfl ?_
        intro q hq
        rcases mem_set hq with hq | hq
        · exact hs.agents q hq
        · rw [hq]; exact hhop a _ hQa hcond.1
      · cases hstep
    · simp only [Except.ok.injEq] at hstep; subst hstep; exact hs
  · simp only [Except.ok.injEq] at hstep; subst hstep; exact hs

theorem goodG_suggestionArrive {r : Nat} {rc : RecvR α} {st st' : RankSt α} (h : GoodG PN QA st)
    (hsug : ∀ (a : AgentP α) (node : Nat), QA a → a.mode = AMode.suggestion → a.home = (r : Int) →
      localOf rc.glob a.glob = some node → QA { a with mode := AMode.walking, node := (node : Int), glob := refEmpty })
    (hw : suggestionArrive r rc st = .ok st') : GoodG PN QA st' := by
  unfold suggestionArrive at hw
  refine foldlM_inv (GoodG PN QA) _ ?_ _ st st' h hw
  intro s id s' hs hstep
  try simp only at hstep
  split at hstep
  · rename_i a hget
    split at hstep
    · rename_i hcond
      split at hstep
      · rename_i node hloc
        split at hstep
        · simp only [Except.ok.injEq] at hstep
          subst hstep
          exact goodG_frame hs rfl rfl rfl rfl (fun p hp => hs.agents p (mem_remove hp))
        · simp only [Except.ok.injEq] at hstep
          subst hstep
          simp only [Bool.and_eq_true, beq_iff_eq] at hcond
          obtain ⟨p, hp, hpa⟩ := get?_mem hget
          have hQa : QA a := by rw [← hpa]; exact hs.agents p hp
          refine goodG_frame hs rfl rfl rfl rfl ?_
          intro q hq
          rcases mem_set hq with hq | hq
          · exact hs.agents q hq
          · rw [hq]; exact hsug a node hQa hcond.1 hcond.2 hloc
      · cases hstep
    · simp only [Except.ok.injEq] at hstep; subst hstep; exact hs
  · simp only [Except.ok.injEq] at hstep; subst hstep; exact hs

theorem goodG_giveUp {r : Nat} {rc : RecvR α} {st st' : RankSt α} (h : GoodG PN QA st)
    (hw : giveUp r rc st = .ok st') : GoodG PN QA st' := by
  unfold giveUp at hw
  refine foldlM_inv (GoodG PN QA) _ ?_ _ st st' h hw
  intro s id s' hs hstep
  try simp only at hstep
  split at hstep
  · split at hstep
    · split at hstep
      · cases hstep
      · simp only [Except.ok.injEq] at hstep
        subst hstep
        refine goodG_frame (st := s) hs ?_ ?_ ?_ ?_ ?_
        · split <;> rfl
        · split <;> rfl
        · split <;> rfl
        · split <;> rfl
        · intro p hp
          have hp' := mem_remove hp
          refine hs.agents p ?_
          revert hp'
          split <;> exact fun x => x
    · simp only [Except.ok.injEq] at hstep; subst hstep; exact hs
  · simp only [Except.ok.injEq] at hstep; subst hstep; exact hs

theorem goodG_enclose {r : Nat} {rc : RecvR α} {st st' : RankSt α} (h : GoodG PN QA st)
    (hw : ∀ other sp sc, QA (mkWalker r rc other sp sc)) (hs : ∀ other sp sc, QA (mkSuggestion rc other sp sc))
    (henc : ∀ a : AgentP α, QA a → a.mode = AMode.enclosing → a.home = (r : Int) → 0 ≤ a.node →
      a.seed ≠ refEmpty ∧ PN a.node.toNat a.seed a.part a.bary)
    (hwk : enclose r rc st = .ok st') : GoodG PN QA st' := by
  unfold enclose at hwk
  refine foldlM_inv (GoodG PN QA) _ ?_ _ st st' h hwk
  intro s id s' hgs hstep
  try simp only at hstep
  split at hstep
  · rename_i a hget
    split at hstep
    · rename_i hcond
      split at hstep
      · cases hstep
      · rename_i hchk
        refine goodG_pushOntoQueue ?_ hw hs hstep
        simp only [Bool.and_eq_true, beq_iff_eq] at hcond
        obtain ⟨p, hp, hpa⟩ := get?_mem hget
        have hQa : QA a := by rw [← hpa]; exact hgs.agents p hp
        have hck : homeChecks r rc s a.node = true := by simpa using hchk
        have hnn : 0 ≤ a.node := by
          simp only [homeChecks, Bool.and_eq_true, decide_eq_true_eq] at hck
          exact hck.1.1.1.1
        obtain ⟨hseed, hP⟩ := henc a hQa hcond.1 hcond.2 hnn
        have hs2 := goodG_store (PN := PN) (QA := QA) hgs a.node.toNat a.seed a.part InterpConsts.processCopy a.bary 2 hseed
          (by rw [processCopy_eq, copyN_four]; exact hP)
        exact goodG_frame hs2 rfl rfl rfl rfl (fun q hq => hs2.agents q (mem_remove hq))
    · simp only [Except.ok.injEq] at hstep; subst hstep; exact hgs
  · simp only [Except.ok.injEq] at hstep; subst hstep; exact hgs

/-! ## what a walk leaves untouched -/

/-- the fields of the agent a seed update keeps, and what it does to `mode` / `part` -/
theorem updateSeedP_fields (r : Nat) (dr : DonorR α) (a : AgentP α) (face : List Nat) (rnd : Nat) :
    let a' := (updateSeedP r dr a face rnd).2.1
    a'.home = a.home ∧ a'.node = a.node ∧ a'.xyz = a.xyz ∧ a'.bary = a.bary ∧ a'.step = a.step ∧
      ((a'.mode = a.mode ∧ a'.part = a.part) ∨ a'.mode = AMode.hopPart ∨ (a'.mode = AMode.atBoundary ∧ a'.part = a.part)) := by
  unfold updateSeedP
  simp only
  split
  · exact ⟨rfl, rfl, rfl, rfl, rfl, Or.inl ⟨rfl, rfl⟩⟩
  · split
    · exact ⟨rfl, rfl, rfl, rfl, rfl, Or.inr (Or.inl rfl)⟩
    · split
      · exact ⟨rfl, rfl, rfl, rfl, rfl, Or.inr (Or.inr ⟨rfl, rfl⟩)⟩
      · split
        · exact ⟨rfl, rfl, rfl, rfl, rfl, Or.inr (Or.inr ⟨rfl, rfl⟩)⟩
        · exact ⟨rfl, rfl, rfl, rfl, rfl, Or.inl ⟨rfl, rfl⟩⟩
  · split
    · exact ⟨rfl, rfl, rfl, rfl, rfl, Or.inl ⟨rfl, rfl⟩⟩
    · split
      · exact ⟨rfl, rfl, rfl, rfl, rfl, Or.inl ⟨rfl, rfl⟩⟩
      · exact ⟨rfl, rfl, rfl, rfl, rfl, Or.inl ⟨rfl, rfl⟩⟩
  · exact ⟨rfl, rfl, rfl, rfl, rfl, Or.inl ⟨rfl, rfl⟩⟩

theorem walkIterP_next_fields {r : Nat} {dr : DonorR α} {a a' : AgentP α} {rnd rnd' : Nat}
    (h : walkIterP r dr a rnd = .next a' rnd') :
    a'.home = a.home ∧ a'.node = a.node ∧ a'.xyz = a.xyz ∧
      ((a'.mode = a.mode ∧ a'.part = a.part) ∨ a'.mode = AMode.hopPart ∨ (a'.mode = AMode.atBoundary ∧ a'.part = a.part)) := by
  unfold walkIterP at h
  cases hca : dr.d.cellAt a.seed with
  | none => simp [hca] at h
  | some n =>
    simp only [hca] at h
    rcases hb : Refine.Model.Interp.baryOf dr.d n a.xyz with ⟨st, b⟩
    rw [hb] at h
    cases st with
    | ok =>
      simp only at h
      split at h
      · cases h
      · split at h
        · cases h
        · rename_i face _
          have hm := updateSeedP_fields r dr a face rnd
          split at h
          · rename_i a'' rnd'' hu
            cases h
            simp only [hu] at hm
            exact ⟨hm.1, hm.2.1, hm.2.2.1, hm.2.2.2.2.2⟩
          · cases h
    | divZero =>
      simp only at h
      split at h
      · cases h
      · split at h
        · cases h
        · rename_i face _
          have hm := updateSeedP_fields r dr a face rnd
          split at h
          · rename_i a'' rnd'' hu
            cases h
            simp only [hu] at hm
            exact ⟨hm.1, hm.2.1, hm.2.2.1, hm.2.2.2.2.2⟩
          · cases h
    | failure => simp at h
    | invalid => simp at h
    | implement => simp at h

/-- `ref_interp_walk_agent`: home, node and the target point never change; the mode never becomes `SUGGESTION`; an agent
    that comes back `ENCLOSING` is still on the rank it walked on, holds a valid cell of that rank's donor and the copy of
    the weights of its target point in it -/
theorem walkLoopP_fields (r : Nat) (dr : DonorR α) :
    ∀ (fuel : Nat) (a a' : AgentP α) (rnd rnd' : Nat) (st : ISt), walkLoopP r dr fuel a rnd = (st, a', rnd') →
      a.mode ≠ AMode.enclosing → a.mode ≠ AMode.suggestion →
      a'.home = a.home ∧ a'.node = a.node ∧ a'.xyz = a.xyz ∧ a'.mode ≠ AMode.suggestion ∧
      (a'.mode = AMode.enclosing → a'.part = a.part ∧
        ∃ n b s0, dr.d.cellAt a'.seed = some n ∧ b = (Refine.Model.Interp.baryOf dr.d n a'.xyz).2 ∧ walkInside b = true ∧
          a'.bary = Slots.copyN InterpConsts.walkCopy s0 (storeBary dr.d.twod Slots.unwritten b))
  | 0, a, a', rnd, rnd', st, h, _, hs => by
    simp only [walkLoopP, Prod.mk.injEq] at h
    obtain ⟨_, rfl, _⟩ := h
    exact ⟨rfl, rfl, rfl, by simp, by intro he; simp at he⟩
  | fuel + 1, a, a', rnd, rnd', st, h, hm, hs => by
    simp only [walkLoopP] at h
    by_cases hw : a.mode = AMode.walking
    · simp only [hw, bne_self_eq_false, Bool.false_eq_true, if_false] at h
      cases hi : walkIterP r dr a rnd with
      | error e =>
        simp only [hi, Prod.mk.injEq] at h
        obtain ⟨_, rfl, _⟩ := h
        exact ⟨rfl, rfl, rfl, hs, fun he => absurd he hm⟩
      | done a1 =>
        simp only [hi, Prod.mk.injEq] at h
        obtain ⟨_, rfl, _⟩ := h
        obtain ⟨n, b, h1, h2, h3, rfl⟩ := walkIterP_done hi
        exact ⟨rfl, rfl, rfl, by simp, fun _ => ⟨rfl, n, b, a.bary, h1, h2, h3, rfl⟩⟩
      | next a1 rnd1 =>
        simp only [hi] at h
        obtain ⟨f1, f2, f3, f4⟩ := walkIterP_next_fields hi
        have hm1 : ({ a1 with step := a1.step + 1 } : AgentP α).mode ≠ AMode.enclosing := by
          simp only
          rcases f4 with ⟨h1, _⟩ | h1 | ⟨h1, _⟩
          · rw [h1, hw]; simp
          · rw [h1]; simp
          · rw [h1]; simp
        have hs1 : ({ a1 with step := a1.step + 1 } : AgentP α).mode ≠ AMode.suggestion := by
          simp only
          rcases f4 with ⟨h1, _⟩ | h1 | ⟨h1, _⟩
          · rw [h1, hw]; simp
          · rw [h1]; simp
          · rw [h1]; simp
        obtain ⟨g1, g2, g3, g4, g5⟩ := walkLoopP_fields r dr fuel _ a' rnd1 rnd' st h hm1 hs1
        simp only at g1 g2 g3
        refine ⟨by rw [g1, f1], by rw [g2, f2], by rw [g3, f3], g4, ?_⟩
        intro he
        obtain ⟨hp, rest⟩ := g5 he
        simp only at hp
        refine ⟨?_, rest⟩
        rcases f4 with ⟨_, h2⟩ | h1 | ⟨_, h2⟩
        · rw [hp, h2]
        · -- a hop stops the walk at once: the agent cannot come back ENCLOSING
          exfalso
          cases fuel with
          | zero =>
            simp only [walkLoopP, Prod.mk.injEq] at h
            obtain ⟨_, rfl, _⟩ := h
            simp at he
          | succ k =>
            simp only [walkLoopP, h1] at h
            simp only [bne_iff_ne, ne_eq, reduceCtorEq, not_false_eq_true, if_true, Prod.mk.injEq] at h
            obtain ⟨_, rfl, _⟩ := h
            simp at he
        · rw [hp, h2]
    · have : (a.mode != AMode.walking) = true := by simp [hw]
      simp only [this, if_true, Prod.mk.injEq] at h
      obtain ⟨_, rfl, _⟩ := h
      exact ⟨rfl, rfl, rfl, hs, fun he => absurd he hm⟩

end Refine.Lemmas.InterpLocate
