import Refine.Model.Guards
import Refine.Lemmas.GeomReal
namespace Refine.GuardsReal
end Refine.GuardsReal
