import Refine.Model.Guards
import Refine.Lemmas.GeomReal
import Refine.Lemmas.GuardsRules
import Mathlib.Tactic.Ring
import Mathlib.Tactic.Linarith
import Mathlib.Tactic.Positivity
import Mathlib.Tactic.NormNum

/-!
  Real-arithmetic lemmas for the numeric guards and the conservation identities of C02.
-/
namespace Refine.GuardsReal
open Refine Refine.Model Refine.Model.Geom Refine.Model.Guards Refine.ScalarReal Refine.GeomReal

theorem c05_eq : (Scalar.ofDec 5 (-2) : ℝ) = 0.05 := by
  simp only [ofDec_eq]; norm_num
theorem c95_eq : (Scalar.ofDec 95 (-2) : ℝ) = 0.95 := by
  simp only [ofDec_eq]; norm_num

theorem clampWeight_eq (w : ℝ) : clampWeight w = min 0.95 (max 0.05 w) := by
  unfold clampWeight
  rw [cmin_eq, cmax_eq, c05_eq, c95_eq]

theorem clampWeight_mem (w : ℝ) : 0.05 ≤ clampWeight w ∧ clampWeight w ≤ 0.95 := by
  rw [clampWeight_eq]
  refine ⟨le_min (by norm_num) (le_max_left _ _), min_le_left _ _⟩

theorem clampWeight_id {w : ℝ} (h0 : 0.05 ≤ w) (h1 : w ≤ 0.95) : clampWeight w = w := by
  rw [clampWeight_eq, max_eq_right h0, min_eq_right h1]

theorem sameNormalTol_eq : (sameNormalTol : ℝ) = 1 - 1 / 100000000 := by
  simp only [sameNormalTol, lit1_eq, sub_eq, ofDec_eq]; norm_num

theorem sameNormalTol_pos : (0 : ℝ) < (sameNormalTol : ℝ) := by
  rw [sameNormalTol_eq]; norm_num

theorem interpolateEdgeXyz_eq (a b : V3 ℝ) (w : ℝ) :
    interpolateEdgeXyz a b w = vadd (vsmul (1 - w) a) (vsmul w b) := by
  simp only [interpolateEdgeXyz, vadd, vsmul, lit1_eq, add_eq, sub_eq, mul_eq]

theorem v3ext {a b : V3 ℝ} (hx : a.x = b.x) (hy : a.y = b.y) (hz : a.z = b.z) : a = b := by
  cases a; cases b; simp_all

/-- `(a-p) × (b-p) = a × b + p × (a - b)`, componentwise -/
theorem triNormal_expand (p a b : V3 ℝ) :
    triNormal p a b = vadd (cross a b) (cross p (V3.sub a b)) := by
  simp only [triNormal, cross, V3.sub, vadd, sub_eq, mul_eq]
  apply v3ext <;> simp only [] <;> ring

/-- sum of the (un-normalised) triangle normals of the fan with apex `p` over a polyline of ring nodes -/
noncomputable def fanSum (p : V3 ℝ) : List (V3 ℝ) → V3 ℝ
  | a :: b :: rest => vadd (triNormal p a b) (fanSum p (b :: rest))
  | _ => ⟨0, 0, 0⟩

/-- moving the apex of a fan from `q` to `p` changes its vector area by `(p - q) × (first - last)` -/
theorem fanSum_apex (p q a : V3 ℝ) (l : List (V3 ℝ)) :
    fanSum p (a :: l) = vadd (fanSum q (a :: l)) (cross (V3.sub p q) (V3.sub a ((a :: l).getLast (by simp)))) := by
  induction l generalizing a with
  | nil =>
    simp only [fanSum, List.getLast_singleton, vadd, cross, V3.sub, sub_eq, mul_eq]
    apply v3ext <;> simp
  | cons b rest ih =>
    have hl : (a :: b :: rest).getLast (by simp) = (b :: rest).getLast (by simp) := by
      simp [List.getLast_cons]
    simp only [fanSum]
    rw [ih b, hl]
    generalize (b :: rest).getLast (by simp) = z
    generalize fanSum q (b :: rest) = s
    simp only [triNormal, vadd, cross, V3.sub, sub_eq, mul_eq]
    apply v3ext <;> simp only [] <;> ring

/-- first `some` of a loop: if the loop falls through to the default and the body never produces the
    default itself, the body said "continue" for every element -/
theorem firstSome_all_none {β γ : Type} (f : β → Option γ) (d : γ) (l : List β)
    (hne : ∀ x, f x ≠ some d) (h : firstSome f d l = d) : ∀ x ∈ l, f x = none := by
  induction l with
  | nil => intro x hx; exact absurd hx List.not_mem_nil
  | cons y ys ih =>
    unfold firstSome at h
    cases hy : f y with
    | some r =>
      rw [hy] at h
      simp only at h
      exact absurd (h ▸ hy) (hne y)
    | none =>
      rw [hy] at h
      simp only at h
      intro x hx
      rcases List.mem_cons.mp hx with rfl | hx'
      · exact hy
      · exact ih h x hx'

theorem ofSt_ok_iff (st : St) : ofSt st = Status.ok ↔ st = St.ok := by
  cases st <;> simp [ofSt]

/-- the loop body of `ref_collapse_edge_same_normal` never returns "allowed, stop" -/
theorem sameNormalStep_ne (xyz : List (V3 ℝ)) (n0 n1 : Nat) (c : Cell) :
    sameNormalStep xyz n0 n1 c ≠ some (Status.ok, true) := by
  unfold sameNormalStep
  split
  · simp
  · split
    · split
      · simp
      · split <;> simp
      · intro h
        simp only [Option.some.injEq, Prod.mk.injEq, and_true] at h
        rw [ofSt_ok_iff] at h
        simp_all
    · intro h
      simp only [Option.some.injEq, Prod.mk.injEq, and_true] at h
      rw [ofSt_ok_iff] at h
      simp_all

/-- "continue" of the loop body means: the triangle is one of the removed ones, or both unit normals exist
    and their dot product is at least the tolerance -/
theorem sameNormalStep_none {xyz : List (V3 ℝ)} {n0 n1 : Nat} {c : Cell}
    (h : sameNormalStep xyz n0 n1 c = none) :
    (n0 = c.nd 0 ∨ n0 = c.nd 1 ∨ n0 = c.nd 2) ∨
    ∃ u u', normalize (cellNormal xyz c.nodes) = (St.ok, u) ∧
      normalize (cellNormal xyz (subst n1 n0 c.nodes)) = (St.ok, u') ∧
      (sameNormalTol : ℝ) ≤ vdot u u' := by
  unfold sameNormalStep at h
  split at h
  · next hc =>
    left
    simp only [Bool.or_eq_true, beq_iff_eq] at hc
    rcases hc with (hc | hc) | hc
    · exact Or.inl hc
    · exact Or.inr (Or.inl hc)
    · exact Or.inr (Or.inr hc)
  · right
    split at h
    · next u hu =>
      split at h
      · simp at h
      · next u' hu' =>
        split at h
        · simp at h
        · next hlt =>
          refine ⟨u, u', hu, hu', ?_⟩
          rw [dot_eq] at hlt
          simpa using hlt
      · simp at h
    · simp at h

end Refine.GuardsReal
