import Refine.Lemmas.MetricSpd
import Refine.Props.C16

/-!
  The 2-D node kernel of `ref_metric_limit_aspect_ratio` (`descending_eig_twod`, two in-plane eigenvalues raised
  to `max/ar²`, `form_m`, `twod_m`) and the exponent of `ref_metric_local_scale`, in exact arithmetic.
-/
namespace Refine.Model.Metric
open Refine Refine.Scalar Refine.ScalarReal Refine.Model.Matrix

theorem orthonormal_swaps {d : Eig12 ℝ} (ho : Orthonormal d) :
    Orthonormal (swap01 d) ∧ Orthonormal (swap02 d) ∧ Orthonormal (swap12 d) := by
  have h := Refine.Props.C16.swap_isEigSys (d := d) (m := formM d) ⟨ho, rfl⟩
  exact ⟨h.1.1, h.2.1.1, h.2.2.1⟩

/-- `ref_matrix_descending_eig_twod` only permutes the eigen pairs: the frame stays orthonormal -/
theorem descendingEigTwod_orthonormal {d d' : Eig12 ℝ} (ho : Orthonormal d) (h : descendingEigTwod d = .ok d') :
    Orthonormal d' := by
  have s0 := orthonormal_swaps ho
  have s2 := orthonormal_swaps s0.2.1
  have s12 := orthonormal_swaps s0.2.2
  unfold descendingEigTwod at h
  dsimp only at h
  repeat' split at h
  all_goals first
    | (cases h; done)
    | (injection h with h; subst h
       first | exact ho | exact s0.1 | exact s0.2.1 | exact s0.2.2 | exact s2.1 | exact s12.1)

/-- **2-D aspect-ratio limit, one vertex**: the result is embedded, and SPD when the larger in-plane eigenvalue and
    the out-of-plane eigenvalue returned by `diag_m` are positive (for an embedded SPD input decomposed exactly the
    latter is the `1` of the embedding) -/
theorem limitArNode2_spd_embedded {ar2 : ℝ} (har : 0 < ar2) {m out : M6 ℝ} {d d' : Eig12 ℝ} (hd : diagM m = .ok d)
    (hs : descendingEigTwod d = .ok d') (hmax : 0 < max d'.l1 d'.l0) (hz : 0 < d'.l2)
    (h : limitArNode2 ar2 m = .ok out) : SPD out ∧ IsEmbedded out := by
  unfold limitArNode2 at h
  rw [hd] at h
  dsimp only at h
  rw [hs] at h
  simp only [cmax_eq, div_eq] at h
  split_ifs at h
  injection h with h
  subst h
  refine ⟨twodM_spd ?_, twodM_embedded _⟩
  have ho : Orthonormal d' := descendingEigTwod_orthonormal (diagM_orthonormal' m d hd) hs
  have hl : 0 < max d'.l1 d'.l0 / ar2 := div_pos hmax har
  apply formM_spd
  · exact ⟨ho.n0, ho.n1, ho.n2, ho.p01, ho.p02, ho.p12⟩
  · exact ⟨lt_of_lt_of_le hl (le_max_right _ _), lt_of_lt_of_le hl (le_max_right _ _), hz⟩

/-- a property of every per-node result holds for the whole mapped field -/
theorem mapM6_all {P : M6 ℝ → Prop} {f : M6 ℝ → Except Err (M6 ℝ)} (hf : ∀ m out, f m = .ok out → P out)
    (ms out : List (M6 ℝ)) (h : mapM6 f ms = .ok out) : ∀ m ∈ out, P m := by
  induction ms generalizing out with
  | nil => unfold mapM6 at h; injection h with h; subst h; intro m hm; cases hm
  | cons m0 ms ih =>
    unfold mapM6 at h
    cases h0 : f m0 with
    | error e => rw [h0] at h; cases h
    | ok r =>
      rw [h0] at h
      dsimp only at h
      cases h1 : mapM6 f ms with
      | error e => rw [h1] at h; cases h
      | ok rs =>
        rw [h1] at h
        injection h with h
        subst h
        intro m hm
        rcases List.mem_cons.mp hm with rfl | hm
        · exact hf m0 _ h0
        · exact ih rs h1 m hm

/-! ### the Lp exponent -/

theorem localScaleExponent_eq (twod : Bool) (p : Int) :
    (localScaleExponent twod p : ℝ) = -1 / (2 * (p : ℝ) + (if twod then 2 else 3)) := by
  unfold localScaleExponent
  simp only [div_eq, ofInt_eq]
  cases twod <;> simp <;> push_cast <;> ring

/-- 3-D: with the coded exponent `-1/(2p+3)` the determinant goes to `det^(2p/(2p+3))`: the factor `det^e` enters
    the 3x3 determinant three times -/
theorem localScaleNode_det3 (p : Int) (m : M6 ℝ) (hd : 0 < detM m) :
    detM (localScaleNode (localScaleExponent false p) m) = (detM m) ^ ((2 * (p : ℝ)) / (2 * (p : ℝ) + 3)) := by
  have hne : (2 * (p : ℝ) + 3) ≠ 0 := by
    intro h
    have : (2 * p + 3 : Int) = 0 := by exact_mod_cast h
    omega
  unfold localScaleNode
  simp only [zero_eq, pow_eq]
  rw [if_pos ((lt_iff _ _).mpr hd), detM_scale _ _ (Real.rpow_pos_of_pos hd _).ne', localScaleExponent_eq]
  simp only [Bool.false_eq_true, if_false]
  rw [← Real.rpow_natCast, ← Real.rpow_mul hd.le]
  nth_rewrite 2 [← Real.rpow_one (detM m)]
  rw [← Real.rpow_add hd]
  congr 1
  field_simp
  ring

/-- 2-D: with the coded exponent `-1/(2p+2)` and the embedding re-imposed the determinant of an embedded tensor goes to
    `det^(2p/(2p+2))`: the factor enters the 2x2 block twice (`p ≠ -1`) -/
theorem localScaleNode_det2 (p : Int) (hp : p ≠ -1) (m : M6 ℝ) (he : IsEmbedded m) (hd : 0 < detM m) :
    detM (twodM (localScaleNode (localScaleExponent true p) m)) = (detM m) ^ ((2 * (p : ℝ)) / (2 * (p : ℝ) + 2)) := by
  have hne : (2 * (p : ℝ) + 2) ≠ 0 := by
    intro h
    have : (2 * p + 2 : Int) = 0 := by exact_mod_cast h
    omega
  unfold localScaleNode
  simp only [zero_eq, pow_eq]
  rw [if_pos ((lt_iff _ _).mpr hd), detM_embed_scale _ _ (Real.rpow_pos_of_pos hd _).ne' he, localScaleExponent_eq]
  simp only [if_true]
  rw [← Real.rpow_natCast, ← Real.rpow_mul hd.le]
  nth_rewrite 2 [← Real.rpow_one (detM m)]
  rw [← Real.rpow_add hd]
  congr 1
  have h1 : (p : ℝ) + 1 ≠ 0 := by
    intro h; apply hne; linear_combination 2 * h
  rw [show (2 * (p : ℝ) + 2) = 2 * ((p : ℝ) + 1) by ring]
  field_simp
  ring

end Refine.Model.Metric
