import Refine.Lemmas.PartMeshbInv

/-! the seven clauses of `distInv` on the world of the parallel meshb reader -/
namespace Refine.Lemmas.PartMeshb
open Refine.Model.Meshb Refine.Model.PartMeshb
open Refine.Model.Comm (World)
open Refine.Model.Dist
open Refine.Gen.PartMacros

section Clauses
variable {np : Nat} {p : Parsed} {w : World PRank} {cad : Bytes}

/-- a vertex entry of a rank: in range, owner is a rank, the owner knows the vertex -/
theorem node_facts (hnp : 1 ≤ np) (hF : FinalP np p cad w) (r : Nat) (hr : r < np) (n : PNode)
    (hn : n ∈ (w.getD r default).nodes) :
    0 ≤ n.glob ∧ n.glob < p.nnode ∧ n.part = imp p.nnode np n.glob ∧ 0 ≤ n.part ∧ n.part < (np : Int) ∧
    n.part.toNat < np ∧ (w.getD n.part.toNat default).has n.glob = true := by
  obtain ⟨h0, h1, hpq⟩ := (hF.inv r hr).parts n hn
  obtain ⟨i0, i1⟩ := imp_range (N := p.nnode) hnp h0 h1
  rw [← hpq] at i0 i1
  have hq : n.part.toNat < np := by omega
  have hqc : ((n.part.toNat : Nat) : Int) = n.part := Int.toNat_of_nonneg i0
  exact ⟨h0, h1, hpq, i0, i1, hq, (hF.inv _ hq).owned n.glob h0 h1 (by rw [hqc]; exact hpq.symm)⟩

theorem cells_nodup (hnp : 1 ≤ np) (hp : ParsedOK np p) (hF : FinalP np p cad w) (r : Nat) (hr : r < np) :
    (toRankState (w.getD r default)).cells.Nodup := by
  unfold toRankState
  simp only
  rw [List.nodup_flatMap]
  constructor
  · rintro ⟨⟨ci, j⟩, cs⟩ hx
    obtain ⟨i, hi⟩ := List.mem_iff_getElem?.1 hx
    rw [List.getElem?_zip_eq_some, List.getElem?_zipIdx, Option.map_eq_some_iff] at hi
    obtain ⟨⟨a, ha, hak⟩, hg⟩ := hi
    simp only [Prod.mk.injEq] at hak
    obtain ⟨rfl, hk⟩ := hak
    have hji : j = i := by omega
    subst hji
    simp only at hg ⊢
    have hgrp : cs = (w.getD r default).group j := by
      unfold PRank.group
      rw [List.getD_eq_getElem?_getD, hg]; rfl
    rw [hgrp, hF.grp r hr j]
    unfold finalGroup
    rw [ha]
    cases h2 : p.groups[j]? with
    | none => simp
    | some chs =>
      simp only
      have hz : (a, chs) ∈ cellInfos.zip p.groups :=
        List.mem_iff_getElem?.2 ⟨j, List.getElem?_zip_eq_some.2 ⟨ha, h2⟩⟩
      have hd := hp.dist _ hz
      simp only at hd
      apply (finalRaw_norm_nodup hd).map_on
      intro x hx y hy hxy
      obtain ⟨x0, hx0, rfl⟩ := List.mem_map.1 hx
      obtain ⟨y0, hy0, rfl⟩ := List.mem_map.1 hy
      have hsame : sameSet a.nodePer (norm a x0) (norm a y0) = true := by
        rw [sameSet_iff]
        intro g
        have := congrArg DCell.nodes hxy
        simp only at this
        rw [this]
      exact hd.1 _ (List.mem_map.2 ⟨x0, finalRaw_subset x0 hx0, rfl⟩) _
        (List.mem_map.2 ⟨y0, finalRaw_subset y0 hy0, rfl⟩) hsame
  · rw [List.pairwise_iff_getElem]
    intro i j hi hj hij
    intro d h1 h2
    rw [List.getElem_zip] at h1 h2
    simp only [List.getElem_zipIdx, List.mem_map] at h1 h2
    obtain ⟨_, _, rfl⟩ := h1
    obtain ⟨_, _, h2⟩ := h2
    have := congrArg DCell.group h2
    simp only at this
    omega

theorem clauseLocal_part (hnp : 1 ≤ np) (hp : ParsedOK np p) (hF : FinalP np p cad w) :
    clauseLocal (toDist w) = true := by
  unfold clauseLocal
  rw [List.all_eq_true]
  intro s hs
  obtain ⟨q, hq, rfl⟩ := toDist_mem hF s hs
  simp only [Bool.and_eq_true]
  refine ⟨⟨?_, nodupB_of_nodup _ (cells_nodup hnp hp hF q hq)⟩, ?_⟩
  · apply nodupB_of_nodup
    have : (toRankState (w.getD q default)).nodes.map (·.glob) = (w.getD q default).nodes.map (·.glob) := by
      simp [toRankState, List.map_map, Function.comp]
    rw [this]
    exact (hF.inv q hq).nodup
  · rw [List.all_eq_true]
    intro nd hnd
    simp only [toRankState, List.mem_map] at hnd
    obtain ⟨n, hn, rfl⟩ := hnd
    obtain ⟨h0, _, _, i0, i1, _, _⟩ := node_facts hnp hF q hq n hn
    simp only [Bool.and_eq_true, decide_eq_true_eq, toDist_length hF]
    exact ⟨⟨h0, i0⟩, i1⟩

theorem clauseOwner_part (hnp : 1 ≤ np) (hF : FinalP np p cad w) : clauseOwner (toDist w) = true := by
  unfold clauseOwner
  rw [List.all_eq_true]
  intro s hs
  obtain ⟨q, hq, rfl⟩ := toDist_mem hF s hs
  rw [List.all_eq_true]
  intro nd hnd
  simp only [toRankState, List.mem_map] at hnd
  obtain ⟨n, hn, rfl⟩ := hnd
  obtain ⟨_, _, hpq, _, _, ho, hhas⟩ := node_facts hnp hF q hq n hn
  simp only
  rw [toDist_get hF _ ho]
  simp only
  rw [toRank_partOf (hF.inv _ ho) n.glob hhas, hpq]
  simp

/-- a cell stored on rank `r`, with everything known about it -/
theorem stored_cell (hnp : 1 ≤ np) (hp : ParsedOK np p) (hF : FinalP np p cad w) (r : Nat) (hr : r < np)
    (d : DCell) (hd : d ∈ (toRankState (w.getD r default)).cells) :
    ∃ j ci c0, cellInfos[j]? = some ci ∧ c0 ∈ fileGroup p j ∧ d = toD j ci (norm ci c0) ∧
      CellOK ci p.nnode c0 ∧ d.nodes = c0.take ci.nodePer ∧ norm ci c0 ∈ (w.getD r default).group j ∧
      touches p.nnode np ci r c0 = true ∧
      (toRankState (w.getD r default)).cellVerts d = (c0.take ci.nodePer).map fun g => (g, imp p.nnode np g) := by
  obtain ⟨j, ci, hci, c0, hc0, rfl, ht, hmem⟩ := (mem_rank_cells hnp hp hF r hr d).1 hd
  obtain ⟨hok, _⟩ := fileGroup_ok hp j ci hci c0 hc0
  refine ⟨j, ci, c0, hci, hc0, rfl, hok, toD_nodes ci j c0 hok.len, hmem, ht, ?_⟩
  rw [cellVerts_toD (hF.inv r hr) j ci hci _ hmem, norm_take ci c0 hok.len]

theorem clauseCells_part (hnp : 1 ≤ np) (hp : ParsedOK np p) (hF : FinalP np p cad w) :
    clauseCells (toDist w) = true := by
  unfold clauseCells
  rw [List.all_eq_true]
  intro sr hsr
  obtain ⟨hr, hs⟩ := toDist_zipIdx_mem hF sr hsr
  rw [hs, List.all_eq_true]
  intro d hd
  obtain ⟨j, ci, c0, hci, hc0, hdeq, hok, hnodes, hmem, ht, hcv⟩ := stored_cell hnp hp hF sr.2 hr d hd
  simp only [Bool.and_eq_true]
  refine ⟨⟨?_, ?_⟩, ?_⟩
  · rw [List.all_eq_true]
    intro g hg
    rw [toRank_has, hnodes] at *
    have := (hF.inv sr.2 hr).verts j ci hci _ hmem g (by rw [norm_take ci c0 hok.len]; exact hg)
    exact this
  · rw [hcv, List.any_eq_true]
    obtain ⟨g, hg, hgr⟩ := (touches_iff _ _ _ _ _).1 ht
    exact ⟨(g, imp p.nnode np g), List.mem_map.2 ⟨g, hg, rfl⟩, by simp [hgr]⟩
  · rw [hcv, List.all_eq_true]
    intro gp hgp
    obtain ⟨g, hg, rfl⟩ := List.mem_map.1 hgp
    obtain ⟨g0, g1⟩ := hok.2 g hg
    obtain ⟨i0, i1⟩ := imp_range (N := p.nnode) hnp g0 g1
    have hq : (imp p.nnode np g).toNat < np := by omega
    simp only
    rw [toDist_get hF _ hq]
    simp only
    rw [List.contains_iff_mem, mem_rank_cells hnp hp hF _ hq]
    have htq : touches p.nnode np ci (imp p.nnode np g).toNat c0 = true :=
      (touches_iff _ _ _ _ _).2 ⟨g, hg, by rw [Int.toNat_of_nonneg i0]⟩
    exact ⟨j, ci, hci, c0, hc0, hdeq, htq, rank_stores hnp hp hF _ hq j ci hci c0 hc0 htq⟩

theorem clauseVerts_part (hnp : 1 ≤ np) (hp : ParsedOK np p) (hF : FinalP np p cad w) :
    clauseVerts (toDist w) = true := by
  unfold clauseVerts
  rw [List.all_eq_true]
  intro sr hsr
  obtain ⟨hr, hs⟩ := toDist_zipIdx_mem hF sr hsr
  rw [hs, List.all_eq_true]
  intro nd hnd
  simp only [toRankState, List.mem_map] at hnd
  obtain ⟨n, hn, rfl⟩ := hnd
  simp only [Bool.or_eq_true, beq_iff_eq]
  by_cases hpr : n.part = (sr.2 : Int)
  · exact Or.inl hpr
  · right
    obtain ⟨j, ci, hci, c, hc, hx⟩ := (hF.inv sr.2 hr).ghosts n hn hpr
    rw [List.any_eq_true]
    refine ⟨toD j ci c, ?_, ?_⟩
    · rw [mem_cells_toRankState]
      refine ⟨j, ci, hci, c, hc, ?_, rfl⟩
      have hj : j < 16 := by
        have := (List.getElem?_eq_some_iff.1 hci).1
        rw [cellInfos_length] at this; exact this
      intro hnone
      rw [List.getElem?_eq_none_iff, (hF.inv sr.2 hr).ncells] at hnone
      omega
    · rw [List.contains_iff_mem]; exact hx

theorem clauseGhost_part (hnp : 1 ≤ np) (hF : FinalP np p cad w) : clauseGhost (toDist w) = true := by
  unfold clauseGhost
  rw [List.all_eq_true]
  intro sr hsr
  obtain ⟨hr, hs⟩ := toDist_zipIdx_mem hF sr hsr
  rw [hs, List.all_eq_true]
  intro nd hnd
  simp only [toRankState, List.mem_map] at hnd
  obtain ⟨n, hn, rfl⟩ := hnd
  simp only [Bool.or_eq_true, beq_iff_eq]
  by_cases hpr : n.part = (sr.2 : Int)
  · exact Or.inl hpr
  · right
    obtain ⟨_, _, _, _, _, ho, hhas⟩ := node_facts hnp hF sr.2 hr n hn
    rw [toDist_get hF _ ho]
    simp only
    rw [toRank_payload (hF.xyz _ ho) n.glob hhas]
    simp only [payloadOf, hF.xyz sr.2 hr n hn, payloadV]
    exact beq_self_eq_true _

theorem clauseCellOwner_part (hnp : 1 ≤ np) (hp : ParsedOK np p) (hF : FinalP np p cad w) :
    clauseCellOwner (toDist w) = true := by
  unfold clauseCellOwner
  rw [List.all_eq_true]
  intro s hs
  obtain ⟨r, hr, rfl⟩ := toDist_mem hF s hs
  rw [List.all_eq_true]
  intro d hd
  obtain ⟨j, ci, c0, hci, hc0, hdeq, hok, hnodes, hmem, ht, hcv⟩ := stored_cell hnp hp hF r hr d hd
  have hown : (toRankState (w.getD r default)).ownerOf d = ownerFn p.nnode np (c0.take ci.nodePer) := by
    unfold RankState.ownerOf ownerFn; rw [hcv]
  have hci2 : 2 ≤ ci.nodePer := cellInfos_nodePer_pos ci (List.mem_of_getElem? hci)
  have hne : c0.take ci.nodePer ≠ [] := by
    intro h
    have := congrArg List.length h
    simp only [List.length_take, List.length_nil] at this
    have := hok.len
    omega
  obtain ⟨g, hg, hog⟩ := ownerFn_mem p.nnode np _ hne
  obtain ⟨g0, g1⟩ := hok.2 g hg
  obtain ⟨i0, i1⟩ := imp_range (N := p.nnode) hnp g0 g1
  have hq : (imp p.nnode np g).toNat < np := by omega
  simp only
  rw [hown, hog, toDist_get hF _ hq]
  simp only [Bool.and_eq_true, decide_eq_true_eq]
  have htq : touches p.nnode np ci (imp p.nnode np g).toNat c0 = true :=
    (touches_iff _ _ _ _ _).2 ⟨g, hg, by rw [Int.toNat_of_nonneg i0]⟩
  have hmq := rank_stores hnp hp hF _ hq j ci hci c0 hc0 htq
  refine ⟨⟨i0, ?_⟩, ?_⟩
  · rw [List.contains_iff_mem, mem_rank_cells hnp hp hF _ hq]
    exact ⟨j, ci, hci, c0, hc0, hdeq, htq, hmq⟩
  · rw [beq_iff_eq, hdeq, ownerOf_toD (hF.inv _ hq) j ci hci _ hmq, norm_take ci c0 hok.len, hog]

/-! ### counts -/

/-- the owned globals of rank `r`: its block, in order -/
theorem owned_globs (hnp : 1 ≤ np) (hp : ParsedOK np p) (hF : FinalP np p cad w) (r : Nat) (hr : r < np) :
    ((toRankState (w.getD r default)).ownedNodes r).map (·.glob) =
      (List.range (p.blocks.getD r []).length).map fun (i : Nat) => firstOf p.nnode np r + (i : Int) := by
  unfold RankState.ownedNodes toRankState
  simp only
  rw [List.filter_map, List.map_map]
  have hfe : (w.getD r default).nodes.filter ((fun nd : DNode => nd.part == (r : Int)) ∘ fun n : PNode =>
      ({ glob := n.glob, part := n.part, payload := payloadOf n } : DNode)) =
      (w.getD r default).nodes.filter (fun n => n.part == (r : Int)) := by
    apply List.filter_congr; intro n _; rfl
  rw [hfe, hF.own r hr, ownedNodes_base hp.nn hnp, List.map_map]
  have : ((fun nd : DNode => nd.glob) ∘ (fun n : PNode =>
      ({ glob := n.glob, part := n.part, payload := payloadOf n } : DNode))) ∘ (fun vi : Vertex × Nat =>
      ({ glob := firstOf p.nnode np r + (vi.2 : Int), part := (r : Int), xyz := some vi.1 } : PNode)) =
      (fun (i : Nat) => firstOf p.nnode np r + (i : Int)) ∘ (fun vi : Vertex × Nat => vi.2) := rfl
  rw [this, ← List.map_map, List.zipIdx_map_snd, List.range_eq_range']

theorem blocks_concat (hnp : 1 ≤ np) (hp : ParsedOK np p) : ∀ k, k ≤ np →
    ((List.range k).flatMap fun r => (List.range (p.blocks.getD r []).length).map fun (i : Nat) =>
        firstOf p.nnode np r + (i : Int)) =
      (List.range (firstOf p.nnode np k).toNat).map fun (i : Nat) => (i : Int) := by
  intro k
  induction k with
  | zero =>
    intro _
    have h0 := Refine.Props.C07.first_zero p.nnode (np : Int) hp.nn (by omega)
    simp [firstOf, h0]
  | succ k ih =>
    intro hk
    have hlen := hp.blocks.2 k (by omega)
    obtain ⟨b0, b1, _⟩ := block_bounds hp.nn hnp k (by omega)
    rw [List.range_succ, List.flatMap_append, ih (by omega), List.flatMap_singleton]
    have e : (firstOf p.nnode np (k + 1)).toNat = (firstOf p.nnode np k).toNat + (p.blocks.getD k []).length := by
      have : ((firstOf p.nnode np (k + 1)).toNat : Int) =
          (((firstOf p.nnode np k).toNat + (p.blocks.getD k []).length : Nat) : Int) := by
        push_cast
        rw [Int.toNat_of_nonneg (by omega), Int.toNat_of_nonneg b0, hlen]; ring
      exact_mod_cast this
    rw [e, List.range_add, List.map_append, List.map_map]
    congr 1
    apply List.map_congr_left
    intro i _
    simp only [Function.comp]
    push_cast
    rw [Int.toNat_of_nonneg b0]

theorem ownedGlobals_eq (hnp : 1 ≤ np) (hp : ParsedOK np p) (hF : FinalP np p cad w) :
    ownedGlobals (toDist w) = (List.range p.nnode.toNat).map fun (i : Nat) => (i : Int) := by
  unfold ownedGlobals
  rw [← List.flatMap_def]
  unfold toDist
  rw [List.zipIdx_map, List.flatMap_map, zipIdx_flatMap, hF.len]
  have hn := Refine.Props.C07.first_np p.nnode (np : Int) hp.nn (by omega)
  have : firstOf p.nnode np np = p.nnode := hn
  rw [← this, ← blocks_concat hnp hp np (le_refl _)]
  apply List.flatMap_congr
  intro r hr
  exact owned_globs hnp hp hF r (List.mem_range.1 hr)

theorem isNondecr_range (n : Nat) :
    Refine.Model.NodeIds.NodeIds.isNondecr ((List.range n).map fun (i : Nat) => (i : Int)) = true := by
  have key : ∀ (m a : Nat), Refine.Model.NodeIds.NodeIds.isNondecr ((List.range' a m).map fun (i : Nat) => (i : Int)) = true := by
    intro m
    induction m with
    | zero => intro a; rfl
    | succ m ih =>
      intro a
      cases m with
      | zero => rfl
      | succ m =>
        have := ih (a + 1)
        simp only [List.range'_succ, List.map_cons] at this ⊢
        simp only [Refine.Model.NodeIds.NodeIds.isNondecr, Bool.and_eq_true, decide_eq_true_eq]
        exact ⟨by push_cast; omega, this⟩
  rw [List.range_eq_range']
  exact key n 0

/-- the owner of a stored cell, and that the owner stores it -/
theorem stored_owner (hnp : 1 ≤ np) (hp : ParsedOK np p) (hF : FinalP np p cad w) (r : Nat) (hr : r < np)
    (d : DCell) (hd : d ∈ (toRankState (w.getD r default)).cells) :
    (toRankState (w.getD r default)).ownerOf d = ownerFn p.nnode np d.nodes ∧
    ∃ q, q < np ∧ ownerFn p.nnode np d.nodes = (q : Int) ∧ d ∈ (toRankState (w.getD q default)).cells := by
  obtain ⟨j, ci, c0, hci, hc0, hdeq, hok, hnodes, hmem, ht, hcv⟩ := stored_cell hnp hp hF r hr d hd
  have hown : (toRankState (w.getD r default)).ownerOf d = ownerFn p.nnode np d.nodes := by
    unfold RankState.ownerOf ownerFn; rw [hcv, hnodes]
  have hne : c0.take ci.nodePer ≠ [] := by
    intro h
    have := congrArg List.length h
    simp only [List.length_take, List.length_nil] at this
    have := hok.len
    have hci2 : 2 ≤ ci.nodePer := cellInfos_nodePer_pos ci (List.mem_of_getElem? hci)
    omega
  obtain ⟨g, hg, hog⟩ := ownerFn_mem p.nnode np _ hne
  obtain ⟨g0, g1⟩ := hok.2 g hg
  obtain ⟨i0, i1⟩ := imp_range (N := p.nnode) hnp g0 g1
  have hq : (imp p.nnode np g).toNat < np := by omega
  have htq : touches p.nnode np ci (imp p.nnode np g).toNat c0 = true :=
    (touches_iff _ _ _ _ _).2 ⟨g, hg, by rw [Int.toNat_of_nonneg i0]⟩
  refine ⟨hown, (imp p.nnode np g).toNat, hq, by rw [hnodes, hog, Int.toNat_of_nonneg i0], ?_⟩
  rw [mem_rank_cells hnp hp hF _ hq]
  exact ⟨j, ci, hci, c0, hc0, hdeq, htq, rank_stores hnp hp hF _ hq j ci hci c0 hc0 htq⟩

theorem mem_ownedCellsAll (hnp : 1 ≤ np) (hp : ParsedOK np p) (hF : FinalP np p cad w) (d : DCell) :
    d ∈ ownedCellsAll (toDist w) ↔ ∃ r, r < np ∧ d ∈ (toRankState (w.getD r default)).cells := by
  unfold ownedCellsAll
  rw [List.mem_flatten]
  constructor
  · rintro ⟨l, hl, hd⟩
    obtain ⟨sr, hsr, rfl⟩ := List.mem_map.1 hl
    obtain ⟨hr, hs⟩ := toDist_zipIdx_mem hF sr hsr
    rw [hs] at hd
    exact ⟨sr.2, hr, List.mem_of_mem_filter hd⟩
  · rintro ⟨r, hr, hd⟩
    obtain ⟨_, q, hq, hoq, hdq⟩ := stored_owner hnp hp hF r hr d hd
    refine ⟨_, List.mem_map.2 ⟨(toRankState (w.getD q default), q),
      List.mem_zipIdx_iff_getElem?.2 (toDist_get hF q hq), rfl⟩, ?_⟩
    unfold RankState.ownedCells
    rw [List.mem_filter]
    refine ⟨hdq, ?_⟩
    rw [(stored_owner hnp hp hF q hq d hdq).1, hoq]
    simp

theorem ownedCellsAll_nodup (hnp : 1 ≤ np) (hp : ParsedOK np p) (hF : FinalP np p cad w) :
    (ownedCellsAll (toDist w)).Nodup := by
  unfold ownedCellsAll
  rw [List.nodup_flatten]
  constructor
  · intro l hl
    obtain ⟨sr, hsr, rfl⟩ := List.mem_map.1 hl
    obtain ⟨hr, hs⟩ := toDist_zipIdx_mem hF sr hsr
    rw [hs]
    exact (cells_nodup hnp hp hF sr.2 hr).filter _
  · rw [List.pairwise_map, List.pairwise_iff_getElem]
    intro i j hi hj hij
    have hmi := List.getElem_mem hi
    have hmj := List.getElem_mem hj
    obtain ⟨hri, hsi⟩ := toDist_zipIdx_mem hF _ hmi
    obtain ⟨hrj, hsj⟩ := toDist_zipIdx_mem hF _ hmj
    have hi2 : ((toDist w).zipIdx[i]).2 = i := by simp [List.getElem_zipIdx]
    have hj2 : ((toDist w).zipIdx[j]).2 = j := by simp [List.getElem_zipIdx]
    intro d h1 h2
    rw [hsi] at h1
    rw [hsj] at h2
    unfold RankState.ownedCells at h1 h2
    rw [List.mem_filter] at h1 h2
    rw [hi2] at h1 hri
    rw [hj2] at h2 hrj
    have o1 := (stored_owner hnp hp hF i hri d h1.1).1
    have o2 := (stored_owner hnp hp hF j hrj d h2.1).1
    have e1 := h1.2
    have e2 := h2.2
    rw [o1, beq_iff_eq] at e1
    rw [o2, beq_iff_eq] at e2
    have : (i : Int) = (j : Int) := e1.symm.trans e2
    omega

theorem clauseCounts_part (hnp : 1 ≤ np) (hp : ParsedOK np p) (hF : FinalP np p cad w) :
    clauseCounts (toDist w) = true := by
  unfold clauseCounts
  simp only
  have hog := ownedGlobals_eq hnp hp hF
  have hN0 : (0 : Int) ≤ p.nnode := by have := hp.nn; omega
  simp only [Bool.and_eq_true, Bool.or_eq_true, Bool.not_eq_true', beq_iff_eq, List.all_eq_true]
  refine ⟨⟨⟨?_, nodupB_of_nodup _ (ownedCellsAll_nodup hnp hp hF)⟩, ?_⟩, Or.inr ⟨?_, ?_⟩⟩
  · rw [hog]
    apply nodupB_of_nodup
    apply List.Nodup.map
    · intro a b h
      simp only at h
      exact_mod_cast h
    · exact List.nodup_range
  · -- as many owned cells as distinct cells
    have hperm : (ownedCellsAll (toDist w)).Perm (allCells (toDist w)) := by
      unfold allCells
      rw [List.perm_ext_iff_of_nodup (ownedCellsAll_nodup hnp hp hF) (nodup_eraseDups _ _ (le_refl _))]
      intro d
      rw [mem_ownedCellsAll hnp hp hF]
      rw [List.mem_eraseDups, List.mem_flatten]
      constructor
      · rintro ⟨r, hr, hd⟩
        exact ⟨_, List.mem_map.2 ⟨_, List.mem_iff_getElem?.2 ⟨r, toDist_get hF r hr⟩, rfl⟩, hd⟩
      · rintro ⟨l, hl, hd⟩
        obtain ⟨s, hs, rfl⟩ := List.mem_map.1 hl
        obtain ⟨q, hq, rfl⟩ := toDist_mem hF s hs
        exact ⟨q, hq, hd⟩
    exact hperm.length_eq
  · intro s hs
    obtain ⟨q, hq, rfl⟩ := toDist_mem hF s hs
    rw [hog]
    simp only [toRankState, List.length_map, List.length_range]
    rw [hF.glob q hq, Int.toNat_of_nonneg hN0]
  · rw [hog]
    unfold sortGlob
    rw [isNondecr_range]
    simp

end Clauses

end Refine.Lemmas.PartMeshb
