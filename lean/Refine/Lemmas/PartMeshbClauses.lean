import Refine.Lemmas.PartMeshbInv

/-! the seven clauses of `distInv` on the world of the parallel meshb reader -/
namespace Refine.Lemmas.PartMeshb
open Refine.Model.Meshb Refine.Model.PartMeshb
open Refine.Model.Comm (World)
open Refine.Model.Dist
open Refine.Gen.PartMacros

section Clauses
variable {np : Nat} {p : Parsed} {w : World PRank} {cad : Bytes}

/-- a vertex entry of a rank: in range, owner is a rank, the owner knows the vertex -/
theorem node_facts (hnp : 1 ≤ np) (hF : FinalP np p cad w) (r : Nat) (hr : r < np) (n : PNode)
    (hn : n ∈ (w.getD r default).nodes) :
    0 ≤ n.glob ∧ n.glob < p.nnode ∧ n.part = imp p.nnode np n.glob ∧ 0 ≤ n.part ∧ n.part < (np : Int) ∧
    n.part.toNat < np ∧ (w.getD n.part.toNat default).has n.glob = true := by
  obtain ⟨h0, h1, hpq⟩ := (hF.inv r hr).parts n hn
  obtain ⟨i0, i1⟩ := imp_range (N := p.nnode) hnp h0 h1
  rw [← hpq] at i0 i1
  have hq : n.part.toNat < np := by omega
  have hqc : ((n.part.toNat : Nat) : Int) = n.part := Int.toNat_of_nonneg i0
  exact ⟨h0, h1, hpq, i0, i1, hq, (hF.inv _ hq).owned n.glob h0 h1 (by rw [hqc]; exact hpq.symm)⟩

theorem cells_nodup (hnp : 1 ≤ np) (hp : ParsedOK np p) (hF : FinalP np p cad w) (r : Nat) (hr : r < np) :
    (toRankState (w.getD r default)).cells.Nodup := by
  unfold toRankState
  simp only
  rw [List.nodup_flatMap]
  constructor
  · rintro ⟨⟨ci, j⟩, cs⟩ hx
    obtain ⟨i, hi⟩ := List.mem_iff_getElem?.1 hx
    rw [List.getElem?_zip_eq_some, List.getElem?_zipIdx, Option.map_eq_some_iff] at hi
    obtain ⟨⟨a, ha, hak⟩, hg⟩ := hi
    simp only [Prod.mk.injEq] at hak
    obtain ⟨rfl, hk⟩ := hak
    have hji : j = i := by omega
    subst hji
    simp only at hg ⊢
    have hgrp : cs = (w.getD r default).group j := by
      unfold PRank.group
      rw [List.getD_eq_getElem?_getD, hg]; rfl
    rw [hgrp, hF.grp r hr j]
    unfold finalGroup
    rw [ha]
    cases h2 : p.groups[j]? with
    | none => simp
    | some chs =>
      simp only
      have hz : (a, chs) ∈ cellInfos.zip p.groups :=
        List.mem_iff_getElem?.2 ⟨j, List.getElem?_zip_eq_some.2 ⟨ha, h2⟩⟩
      have hd := hp.dist _ hz
      simp only at hd
      apply (finalRaw_norm_nodup hd).map_on
      intro x hx y hy hxy
      obtain ⟨x0, hx0, rfl⟩ := List.mem_map.1 hx
      obtain ⟨y0, hy0, rfl⟩ := List.mem_map.1 hy
      have hsame : sameSet a.nodePer (norm a x0) (norm a y0) = true := by
        rw [sameSet_iff]
        intro g
        have := congrArg DCell.nodes hxy
        simp only at this
        rw [this]
      exact hd.1 _ (List.mem_map.2 ⟨x0, finalRaw_subset x0 hx0, rfl⟩) _
        (List.mem_map.2 ⟨y0, finalRaw_subset y0 hy0, rfl⟩) hsame
  · rw [List.pairwise_iff_getElem]
    intro i j hi hj hij
    intro d h1 h2
    rw [List.getElem_zip] at h1 h2
    simp only [List.getElem_zipIdx, List.mem_map] at h1 h2
    obtain ⟨_, _, rfl⟩ := h1
    obtain ⟨_, _, h2⟩ := h2
    have := congrArg DCell.group h2
    simp only at this
    omega

theorem clauseLocal_part (hnp : 1 ≤ np) (hp : ParsedOK np p) (hF : FinalP np p cad w) :
    clauseLocal (toDist w) = true := by
  unfold clauseLocal
  rw [List.all_eq_true]
  intro s hs
  obtain ⟨q, hq, rfl⟩ := toDist_mem hF s hs
  simp only [Bool.and_eq_true]
  refine ⟨⟨?_, nodupB_of_nodup _ (cells_nodup hnp hp hF q hq)⟩, ?_⟩
  · apply nodupB_of_nodup
    have : (toRankState (w.getD q default)).nodes.map (·.glob) = (w.getD q default).nodes.map (·.glob) := by
      simp [toRankState, List.map_map, Function.comp]
    rw [this]
    exact (hF.inv q hq).nodup
  · rw [List.all_eq_true]
    intro nd hnd
    simp only [toRankState, List.mem_map] at hnd
    obtain ⟨n, hn, rfl⟩ := hnd
    obtain ⟨h0, _, _, i0, i1, _, _⟩ := node_facts hnp hF q hq n hn
    simp only [Bool.and_eq_true, decide_eq_true_eq, toDist_length hF]
    exact ⟨⟨h0, i0⟩, i1⟩

theorem clauseOwner_part (hnp : 1 ≤ np) (hF : FinalP np p cad w) : clauseOwner (toDist w) = true := by
  unfold clauseOwner
  rw [List.all_eq_true]
  intro s hs
  obtain ⟨q, hq, rfl⟩ := toDist_mem hF s hs
  rw [List.all_eq_true]
  intro nd hnd
  simp only [toRankState, List.mem_map] at hnd
  obtain ⟨n, hn, rfl⟩ := hnd
  obtain ⟨_, _, hpq, _, _, ho, hhas⟩ := node_facts hnp hF q hq n hn
  simp only
  rw [toDist_get hF _ ho]
  simp only
  rw [toRank_partOf (hF.inv _ ho) n.glob hhas, hpq]
  simp

/-- a cell stored on rank `r`, with everything known about it -/
theorem stored_cell (hnp : 1 ≤ np) (hp : ParsedOK np p) (hF : FinalP np p cad w) (r : Nat) (hr : r < np)
    (d : DCell) (hd : d ∈ (toRankState (w.getD r default)).cells) :
    ∃ j ci c0, cellInfos[j]? = some ci ∧ c0 ∈ fileGroup p j ∧ d = toD j ci (norm ci c0) ∧
      CellOK ci p.nnode c0 ∧ d.nodes = c0.take ci.nodePer ∧ norm ci c0 ∈ (w.getD r default).group j ∧
      touches p.nnode np ci r c0 = true ∧
      (toRankState (w.getD r default)).cellVerts d = (c0.take ci.nodePer).map fun g => (g, imp p.nnode np g) := by
  obtain ⟨j, ci, hci, c0, hc0, rfl, ht, hmem⟩ := (mem_rank_cells hnp hp hF r hr d).1 hd
  obtain ⟨hok, _⟩ := fileGroup_ok hp j ci hci c0 hc0
  refine ⟨j, ci, c0, hci, hc0, rfl, hok, toD_nodes ci j c0 hok.len, hmem, ht, ?_⟩
  rw [cellVerts_toD (hF.inv r hr) j ci hci _ hmem, norm_take ci c0 hok.len]

theorem clauseCells_part (hnp : 1 ≤ np) (hp : ParsedOK np p) (hF : FinalP np p cad w) :
    clauseCells (toDist w) = true := by
  unfold clauseCells
  rw [List.all_eq_true]
  intro sr hsr
  obtain ⟨hr, hs⟩ := toDist_zipIdx_mem hF sr hsr
  rw [hs, List.all_eq_true]
  intro d hd
  obtain ⟨j, ci, c0, hci, hc0, hdeq, hok, hnodes, hmem, ht, hcv⟩ := stored_cell hnp hp hF sr.2 hr d hd
  simp only [Bool.and_eq_true]
  refine ⟨⟨?_, ?_⟩, ?_⟩
  · rw [List.all_eq_true]
    intro g hg
    rw [toRank_has, hnodes] at *
    have := (hF.inv sr.2 hr).verts j ci hci _ hmem g (by rw [norm_take ci c0 hok.len]; exact hg)
    exact this
  · rw [hcv, List.any_eq_true]
    obtain ⟨g, hg, hgr⟩ := (touches_iff _ _ _ _ _).1 ht
    exact ⟨(g, imp p.nnode np g), List.mem_map.2 ⟨g, hg, rfl⟩, by simp [hgr]⟩
  · rw [hcv, List.all_eq_true]
    intro gp hgp
    obtain ⟨g, hg, rfl⟩ := List.mem_map.1 hgp
    obtain ⟨g0, g1⟩ := hok.2 g hg
    obtain ⟨i0, i1⟩ := imp_range (N := p.nnode) hnp g0 g1
    have hq : (imp p.nnode np g).toNat < np := by omega
    simp only
    rw [toDist_get hF _ hq]
    simp only
    rw [List.contains_iff_mem, mem_rank_cells hnp hp hF _ hq]
    have htq : touches p.nnode np ci (imp p.nnode np g).toNat c0 = true :=
      (touches_iff _ _ _ _ _).2 ⟨g, hg, by rw [Int.toNat_of_nonneg i0]⟩
    exact ⟨j, ci, hci, c0, hc0, hdeq, htq, rank_stores hnp hp hF _ hq j ci hci c0 hc0 htq⟩

theorem clauseVerts_part (hnp : 1 ≤ np) (hp : ParsedOK np p) (hF : FinalP np p cad w) :
    clauseVerts (toDist w) = true := by
  unfold clauseVerts
  rw [List.all_eq_true]
  intro sr hsr
  obtain ⟨hr, hs⟩ := toDist_zipIdx_mem hF sr hsr
  rw [hs, List.all_eq_true]
  intro nd hnd
  simp only [toRankState, List.mem_map] at hnd
  obtain ⟨n, hn, rfl⟩ := hnd
  simp only [Bool.or_eq_true, beq_iff_eq]
  by_cases hpr : n.part = (sr.2 : Int)
  · exact Or.inl hpr
  · right
    obtain ⟨j, ci, hci, c, hc, hx⟩ := (hF.inv sr.2 hr).ghosts n hn hpr
    rw [List.any_eq_true]
    refine ⟨toD j ci c, ?_, ?_⟩
    · rw [mem_cells_toRankState]
      refine ⟨j, ci, hci, c, hc, ?_, rfl⟩
      have hj : j < 16 := by
        have := (List.getElem?_eq_some_iff.1 hci).1
        rw [cellInfos_length] at this; exact this
      intro hnone
      rw [List.getElem?_eq_none_iff, (hF.inv sr.2 hr).ncells] at hnone
      omega
    · rw [List.contains_iff_mem]; exact hx

theorem clauseGhost_part (hnp : 1 ≤ np) (hF : FinalP np p cad w) : clauseGhost (toDist w) = true := by
  unfold clauseGhost
  rw [List.all_eq_true]
  intro sr hsr
  obtain ⟨hr, hs⟩ := toDist_zipIdx_mem hF sr hsr
  rw [hs, List.all_eq_true]
  intro nd hnd
  simp only [toRankState, List.mem_map] at hnd
  obtain ⟨n, hn, rfl⟩ := hnd
  simp only [Bool.or_eq_true, beq_iff_eq]
  by_cases hpr : n.part = (sr.2 : Int)
  · exact Or.inl hpr
  · right
    obtain ⟨_, _, _, _, _, ho, hhas⟩ := node_facts hnp hF sr.2 hr n hn
    rw [toDist_get hF _ ho]
    simp only
    rw [toRank_payload (hF.xyz _ ho) n.glob hhas]
    simp only [payloadOf, hF.xyz sr.2 hr n hn, payloadV]
    exact beq_self_eq_true _

theorem clauseCellOwner_part (hnp : 1 ≤ np) (hp : ParsedOK np p) (hF : FinalP np p cad w) :
    clauseCellOwner (toDist w) = true := by
  unfold clauseCellOwner
  rw [List.all_eq_true]
  intro s hs
  obtain ⟨r, hr, rfl⟩ := toDist_mem hF s hs
  rw [List.all_eq_true]
  intro d hd
  obtain ⟨j, ci, c0, hci, hc0, hdeq, hok, hnodes, hmem, ht, hcv⟩ := stored_cell hnp hp hF r hr d hd
  have hown : (toRankState (w.getD r default)).ownerOf d = ownerFn p.nnode np (c0.take ci.nodePer) := by
    unfold RankState.ownerOf ownerFn; rw [hcv]
  have hci2 : 2 ≤ ci.nodePer := cellInfos_nodePer_pos ci (List.mem_of_getElem? hci)
  have hne : c0.take ci.nodePer ≠ [] := by
    intro h
    have := congrArg List.length h
    simp only [List.length_take, List.length_nil] at this
    have := hok.len
    omega
  obtain ⟨g, hg, hog⟩ := ownerFn_mem p.nnode np _ hne
  obtain ⟨g0, g1⟩ := hok.2 g hg
  obtain ⟨i0, i1⟩ := imp_range (N := p.nnode) hnp g0 g1
  have hq : (imp p.nnode np g).toNat < np := by omega
  simp only
  rw [hown, hog, toDist_get hF _ hq]
  simp only [Bool.and_eq_true, decide_eq_true_eq]
  have htq : touches p.nnode np ci (imp p.nnode np g).toNat c0 = true :=
    (touches_iff _ _ _ _ _).2 ⟨g, hg, by rw [Int.toNat_of_nonneg i0]⟩
  have hmq := rank_stores hnp hp hF _ hq j ci hci c0 hc0 htq
  refine ⟨⟨i0, ?_⟩, ?_⟩
  · rw [List.contains_iff_mem, mem_rank_cells hnp hp hF _ hq]
    exact ⟨j, ci, hci, c0, hc0, hdeq, htq, hmq⟩
  · rw [beq_iff_eq, hdeq, ownerOf_toD (hF.inv _ hq) j ci hci _ hmq, norm_take ci c0 hok.len, hog]

end Clauses

end Refine.Lemmas.PartMeshb
