import Refine.Lemmas.PartMeshbParse
import Mathlib.Tactic.Linarith

/-! the declared counts of the parallel meshb reader behind `ref_part_meshb_count_fits` (/repo 4474557): the read
    loops make progress and return, the buffer sizes stay inside `int` -/
namespace Refine.Lemmas.PartMeshb
open Refine.Model.Meshb Refine.Model.PartMeshb Refine.Lemmas.Codec
open Refine.Gen.PartMacros

theorem wrap32_id_nonneg {x : Int} (h0 : 0 ≤ x) (h1 : x ≤ INT_MAX) : wrap32 x = x := by
  unfold INT_MAX at h1
  exact wrap32_of_range' x (by omega) (by omega)
where
  wrap32_of_range' (y : Int) (h1 : -2147483648 ≤ y) (h2 : y < 2147483648) : wrap32 y = y := by
    unfold wrap32 toSigned ofSigned
    norm_num
    split <;> omega

theorem countFits_iff (n : Int) (s : Bytes) :
    countFits n s = true ↔ 0 ≤ n ∧ n ≤ INT_MAX ∧ n ≤ ((s.length / 4 : Nat) : Int) := by
  simp [countFits, and_assoc]

theorem tdiv_bounds {n : Int} {np : Nat} (hn : 0 ≤ n) (hnp : 1 ≤ np) :
    0 ≤ Int.tdiv n (np : Int) ∧ Int.tdiv n (np : Int) ≤ n := by
  rw [Int.tdiv_eq_ediv_of_nonneg hn]
  exact ⟨Int.ediv_nonneg hn (by omega), Int.ediv_le_self _ hn⟩

/-- `chunk = (REF_INT)MAX(chunkMin, ncell / np)` is at least 1 and not truncated, for a count that fits -/
theorem chunkOf_bounds {cm np : Nat} {n : Int} (hcm : 1 ≤ cm) (hcmax : (cm : Int) ≤ INT_MAX) (hnp : 1 ≤ np)
    (h0 : 0 ≤ n) (h1 : n ≤ INT_MAX) :
    chunkOf cm n np = max (cm : Int) (Int.tdiv n (np : Int)) ∧ 1 ≤ chunkOf cm n np ∧ chunkOf cm n np ≤ INT_MAX := by
  obtain ⟨d0, d1⟩ := tdiv_bounds h0 hnp
  have hm0 : (0 : Int) ≤ max (cm : Int) (Int.tdiv n (np : Int)) := le_max_of_le_right d0
  have hm1 : max (cm : Int) (Int.tdiv n (np : Int)) ≤ INT_MAX := max_le hcmax (le_trans d1 h1)
  unfold chunkOf
  rw [wrap32_id_nonneg hm0 hm1]
  refine ⟨rfl, ?_, hm1⟩
  have : (1 : Int) ≤ (cm : Int) := by exact_mod_cast hcm
  exact le_trans this (le_max_left _ _)

/-- `section_size = MIN(chunk, (REF_INT)(ncell - ncell_read))` is at least 1 while records remain -/
theorem sectionSize_pos {chunk n nread : Int} (hc : 1 ≤ chunk) (h0 : 0 ≤ nread) (hlt : nread < n)
    (h1 : n ≤ INT_MAX) : 1 ≤ sectionSize chunk n nread := by
  unfold sectionSize
  rw [wrap32_id_nonneg (by omega) (by omega)]
  exact le_min hc (by omega)

/-! ### errors of the record readers are `REF_FAILURE` (never the model's `diverge`) -/

theorem rdLong_error' {v : Nat} {s : Bytes} {e : Status} (h : rdLong v s = .error e) : e = .failure := by
  unfold rdLong at h
  split at h
  · exact rdI32_error h
  · cases h' : rdU 8 s with
    | error e' => simp only [h'] at h; injection h with h; rw [← h]; exact rdU_error h'
    | ok q => obtain ⟨n, r⟩ := q; simp [h'] at h

theorem rdF64_error {s : Bytes} {e : Status} (h : rdF64 s = .error e) : e = .failure := by
  unfold rdF64 at h
  cases h' : rdU 8 s with
  | error e' => simp only [h'] at h; injection h with h; rw [← h]; exact rdU_error h'
  | ok q => obtain ⟨n, r⟩ := q; simp [h'] at h

theorem rdLongs_error {v : Nat} : ∀ (k : Nat) {s : Bytes} {e : Status}, rdLongs v k s = .error e → e = .failure := by
  intro k
  induction k with
  | zero => intro s e h; simp [rdLongs] at h
  | succ k ih =>
    intro s e h
    unfold rdLongs at h
    cases h1 : rdLong v s with
    | error e' => simp only [h1] at h; injection h with h; rw [← h]; exact rdLong_error' h1
    | ok p1 =>
      obtain ⟨x, s1⟩ := p1
      simp only [h1] at h
      cases h2 : rdLongs v k s1 with
      | error e' => simp only [h2] at h; injection h with h; rw [← h]; exact ih h2
      | ok p2 => obtain ⟨xs, s2⟩ := p2; simp [h2] at h

theorem rdRecsAcc_error {v k : Nat} : ∀ (n : Nat) {s : Bytes} {acc : List (List Int)} {e : Status},
    rdRecsAcc v k n s acc = .error e → e = .failure := by
  intro n
  induction n with
  | zero => intro s acc e h; simp [rdRecsAcc] at h
  | succ n ih =>
    intro s acc e h
    unfold rdRecsAcc at h
    cases h1 : rdLongs v k s with
    | error e' => simp only [h1] at h; injection h with h; rw [← h]; exact rdLongs_error k h1
    | ok p1 => obtain ⟨x, s1⟩ := p1; simp only [h1] at h; exact ih h

theorem readChunk_error {v : Nat} {ci : CellInfo} {N : Int} {sec : Nat} {s : Bytes} {e : Status}
    (h : readChunk v ci N sec s = .error e) : e = .failure ∨ e = .invalid := by
  unfold readChunk at h
  split at h
  · injection h with h; exact Or.inl h.symm
  · cases h1 : rdRecs v (ci.nodePer + 1) sec s with
    | error e' =>
      simp only [h1] at h; injection h with h; rw [← h]
      exact Or.inl (rdRecsAcc_error _ h1)
    | ok p1 =>
      obtain ⟨raws, s1⟩ := p1
      simp only [h1] at h
      split at h
      · injection h with h; exact Or.inr h.symm
      · simp at h

/-- **the cell read loop returns**: with `chunk ≥ 1`, a count `≤ INT_MAX` and fuel above the records that remain,
    the loop never gets to the model's `diverge` (no trip with `section_size = 0`, fuel not exhausted) -/
theorem rdCellChunks_ne_diverge {v : Nat} {ci : CellInfo} {N chunk ncell : Int} (hc : 1 ≤ chunk)
    (h1 : ncell ≤ INT_MAX) : ∀ (fuel : Nat) (nread : Int) (s : Bytes) (acc : List (List Cell)),
    0 ≤ nread → ncell - nread < (fuel : Int) →
    rdCellChunks v ci N chunk ncell fuel nread s acc ≠ .error .diverge := by
  intro fuel
  induction fuel with
  | zero =>
    intro nread s acc h0 hf
    unfold rdCellChunks
    rw [if_neg (by push_cast at hf; omega)]
    simp
  | succ fuel ih =>
    intro nread s acc h0 hf
    unfold rdCellChunks
    by_cases hlt : nread < ncell
    · rw [if_pos hlt]
      have hs := sectionSize_pos hc h0 hlt h1
      simp only
      rw [if_neg (by omega), if_neg (by omega)]
      cases hr : readChunk v ci N (sectionSize chunk ncell nread).toNat s with
      | error e =>
        simp only
        intro hcontra
        injection hcontra with hcontra
        rcases readChunk_error hr with h | h <;> rw [h] at hcontra <;> exact absurd hcontra (by decide)
      | ok p1 =>
        obtain ⟨cells, s1⟩ := p1
        simp only
        exact ih _ _ _ (by omega) (by push_cast at hf ⊢; omega)
    · rw [if_neg hlt]; simp

theorem mallocInts_ne_diverge (cap b : Nat) (c : Int) : mallocInts cap b c ≠ .error .diverge := by
  unfold mallocInts
  split
  · simp
  · split
    · simp
    · split <;> simp

theorem rdCellSection_ne_diverge {cfg : Cfg} {cm v np : Nat} {ci : CellInfo} {N n : Int} {s : Bytes}
    (hcm : 1 ≤ cm) (hcmax : (cm : Int) ≤ INT_MAX) (hnp : 1 ≤ np) (hfit : countFits n s = true) :
    rdCellSection cfg cm v np ci N n s ≠ .error .diverge := by
  obtain ⟨h0, h1, _⟩ := (countFits_iff n s).1 hfit
  obtain ⟨_, hc, _⟩ := chunkOf_bounds hcm hcmax hnp h0 h1
  unfold rdCellSection
  simp only
  cases ha : mallocInts cfg.allocCap 8 ((ci.sizePer : Int) * chunkOf cm n np) with
  | error e => simp only; intro h; injection h with h; exact mallocInts_ne_diverge _ _ _ (by rw [ha, h])
  | ok u =>
    simp only
    cases hb : mallocInts cfg.allocCap 8 (((ci.nodePer : Int) + 1) * chunkOf cm n np) with
    | error e => simp only; intro h; injection h with h; exact mallocInts_ne_diverge _ _ _ (by rw [hb, h])
    | ok u' =>
      simp only
      exact rdCellChunks_ne_diverge hc h1 _ _ _ _ (le_refl _) (by
        rw [Int.natCast_add, Int.toNat_of_nonneg h0]; omega)

/-! ### geometry records -/

theorem rdGeomRec_error {v t : Nat} {s : Bytes} {e : Status} (h : rdGeomRec v t s = .error e) : e = .failure := by
  unfold rdGeomRec at h
  cases h1 : rdLong v s with
  | error e' => simp only [h1] at h; injection h with h; rw [← h]; exact rdLong_error' h1
  | ok p1 =>
  obtain ⟨a, s1⟩ := p1
  simp only [h1] at h
  cases h2 : rdLong v s1 with
  | error e' => simp only [h2] at h; injection h with h; rw [← h]; exact rdLong_error' h2
  | ok p2 =>
  obtain ⟨b, s2⟩ := p2
  simp only [h2] at h
  have hopt : ∀ (c : Prop) [Decidable c] (t : Bytes) (e' : Status),
      (if c then rdF64 t else (.ok (0, t) : Except Status (UInt64 × Bytes))) = .error e' → e' = .failure := by
    intro c _ t e' hh
    split at hh
    · exact rdF64_error hh
    · simp at hh
  cases h3 : (if 0 < t then rdF64 s2 else (.ok (0, s2) : Except Status (UInt64 × Bytes))) with
  | error e' => simp only [h3] at h; injection h with h; rw [← h]; exact hopt _ _ _ h3
  | ok p3 =>
  obtain ⟨c, s3⟩ := p3
  simp only [h3] at h
  cases h4 : (if 1 < t then rdF64 s3 else (.ok (0, s3) : Except Status (UInt64 × Bytes))) with
  | error e' => simp only [h4] at h; injection h with h; rw [← h]; exact hopt _ _ _ h4
  | ok p4 =>
  obtain ⟨d, s4⟩ := p4
  simp only [h4] at h
  cases h5 : (if 0 < t then rdF64 s4 else (.ok (0, s4) : Except Status (UInt64 × Bytes))) with
  | error e' => simp only [h5] at h; injection h with h; rw [← h]; exact hopt _ _ _ h5
  | ok p5 => obtain ⟨g, s5⟩ := p5; simp [h5] at h

theorem rdGeomRecs_error {v t : Nat} : ∀ (n : Nat) {s : Bytes} {e : Status},
    rdGeomRecs v t n s = .error e → e = .failure := by
  intro n
  induction n with
  | zero => intro s e h; simp [rdGeomRecs] at h
  | succ n ih =>
    intro s e h
    unfold rdGeomRecs at h
    cases h1 : rdGeomRec v t s with
    | error e' => simp only [h1] at h; injection h with h; rw [← h]; exact rdGeomRec_error h1
    | ok p1 =>
      obtain ⟨x, s1⟩ := p1
      simp only [h1] at h
      cases h2 : rdGeomRecs v t n s1 with
      | error e' => simp only [h2] at h; injection h with h; rw [← h]; exact ih h2
      | ok p2 => obtain ⟨xs, s2⟩ := p2; simp [h2] at h

theorem rdGeomChunks_ne_diverge {v t : Nat} {chunk ngeom : Int} (hc : 1 ≤ chunk) (h1 : ngeom ≤ INT_MAX) :
    ∀ (fuel : Nat) (nread : Int) (s : Bytes) (acc : List RawGeom),
    0 ≤ nread → ngeom - nread < (fuel : Int) →
    rdGeomChunks v t chunk ngeom fuel nread s acc ≠ .error .diverge := by
  intro fuel
  induction fuel with
  | zero =>
    intro nread s acc h0 hf
    unfold rdGeomChunks
    rw [if_neg (by push_cast at hf; omega)]
    simp
  | succ fuel ih =>
    intro nread s acc h0 hf
    unfold rdGeomChunks
    by_cases hlt : nread < ngeom
    · rw [if_pos hlt]
      have hs := sectionSize_pos hc h0 hlt h1
      simp only
      rw [if_neg (by omega), if_neg (by omega)]
      cases hr : rdGeomRecs v t (sectionSize chunk ngeom nread).toNat s with
      | error e =>
        simp only
        intro hcontra
        injection hcontra with hcontra
        rw [rdGeomRecs_error _ hr] at hcontra
        exact absurd hcontra (by decide)
      | ok p1 =>
        obtain ⟨gs, s1⟩ := p1
        simp only
        exact ih _ _ _ (by omega) (by push_cast at hf ⊢; omega)
    · rw [if_neg hlt]; simp

theorem rdGeomSection_ne_diverge {cfg : Cfg} {cm v np t : Nat} {n : Int} {s : Bytes}
    (hcm : 1 ≤ cm) (hcmax : (cm : Int) ≤ INT_MAX) (hnp : 1 ≤ np) (hfit : countFits n s = true) :
    rdGeomSection cfg cm v np t n s ≠ .error .diverge := by
  obtain ⟨h0, h1, _⟩ := (countFits_iff n s).1 hfit
  obtain ⟨_, hc, hcm'⟩ := chunkOf_bounds hcm hcmax hnp h0 h1
  unfold rdGeomSection
  simp only
  cases ha : mallocInts cfg.allocCap 8 (wrap32 (min (chunkOf cm n np) n)) with
  | error e => simp only; intro h; injection h with h; exact mallocInts_ne_diverge _ _ _ (by rw [ha, h])
  | ok u =>
    simp only
    cases hb : mallocInts cfg.allocCap 8 (2 * wrap32 (min (chunkOf cm n np) n)) with
    | error e => simp only; intro h; injection h with h; exact mallocInts_ne_diverge _ _ _ (by rw [hb, h])
    | ok u' =>
      simp only
      by_cases hn0 : n = 0
      · subst hn0
        unfold rdGeomChunks
        simp
      · have hn1 : 1 ≤ n := by omega
        have hmin : wrap32 (min (chunkOf cm n np) n) = min (chunkOf cm n np) n :=
          wrap32_id_nonneg (le_min (by omega) h0) (le_trans (min_le_right _ _) h1)
        rw [hmin]
        exact rdGeomChunks_ne_diverge (le_min hc hn1) h1 _ _ _ _ (le_refl _) (by
          rw [Int.natCast_add, Int.toNat_of_nonneg h0]; omega)

/-! ### a keyword section, all sections, the whole file -/

theorem jump_error {v : Nat} {bs : Bytes} {kp : KeyPos} {kw : Nat} {e : Status}
    (h : jump v bs kp kw = .error e) : e = .failure := by
  unfold jump at h
  split at h
  · simp at h
  · rename_i pos _
    cases h1 : rdI32 (bs.drop pos) with
    | error e' => simp only [h1] at h; injection h with h; rw [← h]; exact rdI32_error h1
    | ok p1 =>
      obtain ⟨code, r⟩ := p1
      simp only [h1] at h
      split at h
      · injection h with h; exact h.symm
      · cases h2 : rdPos v r with
        | error e' => simp only [h2] at h; injection h with h; rw [← h]; exact rdPos_error h2
        | ok p2 => obtain ⟨nx, r2⟩ := p2; simp [h2] at h

theorem kwSectionL_ne_diverge {α : Type} {v : Nat} {bs : Bytes} {kp : KeyPos} {kw : Nat} {dflt : α}
    {body : Int → P α} (hbody : ∀ n s, countFits n s = true → body n s ≠ .error .diverge) :
    kwSectionL v bs kp kw dflt body ≠ .error .diverge := by
  unfold kwSectionL
  cases hj : jump v bs kp kw with
  | error e =>
    simp only; intro h; injection h with h
    rw [jump_error hj] at h; exact absurd h (by decide)
  | ok o =>
    cases o with
    | none => simp
    | some q =>
      obtain ⟨next, s0⟩ := q
      simp only
      cases hl : rdLong v s0 with
      | error e =>
        simp only; intro h; injection h with h
        rw [rdLong_error' hl] at h; exact absurd h (by decide)
      | ok ql =>
        obtain ⟨n, s⟩ := ql
        simp only
        cases hfit : countFits n s with
        | false => simp
        | true =>
          simp only [Bool.not_true, Bool.false_eq_true, if_false]
          cases hb : body n s with
          | error e =>
            simp only; intro h; injection h with h
            exact hbody n s hfit (by rw [hb, h])
          | ok qb =>
            obtain ⟨a, r⟩ := qb
            simp only
            split <;> simp

theorem rdCellGroupsP_ne_diverge {cfg : Cfg} {cm v np : Nat} {bs : Bytes} {kp : KeyPos} {N : Int}
    (hcm : 1 ≤ cm) (hcmax : (cm : Int) ≤ INT_MAX) (hnp : 1 ≤ np) : ∀ (cis : List CellInfo),
    rdCellGroupsP cfg cm v np bs kp N cis ≠ .error .diverge := by
  intro cis
  induction cis with
  | nil => simp [rdCellGroupsP]
  | cons ci cis ih =>
    unfold rdCellGroupsP
    cases h1 : kwSectionL v bs kp ci.kw [] (fun n => rdCellSection cfg cm v np ci N n) with
    | error e =>
      simp only; intro h; injection h with h
      exact kwSectionL_ne_diverge (fun n s hf => rdCellSection_ne_diverge hcm hcmax hnp hf) (by rw [h1, h])
    | ok g =>
      simp only
      cases h2 : rdCellGroupsP cfg cm v np bs kp N cis with
      | error e => simp only; intro h; injection h with h; exact ih (by rw [h2, h])
      | ok gs => simp

theorem rdGeomTypesP_ne_diverge {cfg : Cfg} {cm v np : Nat} {bs : Bytes} {kp : KeyPos}
    (hcm : 1 ≤ cm) (hcmax : (cm : Int) ≤ INT_MAX) (hnp : 1 ≤ np) : ∀ (ts : List Nat),
    rdGeomTypesP cfg cm v np bs kp ts ≠ .error .diverge := by
  intro ts
  induction ts with
  | nil => simp [rdGeomTypesP]
  | cons t ts ih =>
    unfold rdGeomTypesP
    cases h1 : kwSectionL v bs kp (40 + t) [] (fun n => rdGeomSection cfg cm v np t n) with
    | error e =>
      simp only; intro h; injection h with h
      exact kwSectionL_ne_diverge (fun n s hf => rdGeomSection_ne_diverge hcm hcmax hnp hf) (by rw [h1, h])
    | ok g =>
      simp only
      cases h2 : rdGeomTypesP cfg cm v np bs kp ts with
      | error e => simp only; intro h; injection h with h; exact ih (by rw [h2, h])
      | ok gs => simp

/-! ### buffer sizes stay inside `int` -/

theorem cellInfos_nodePer_le : ∀ ci ∈ cellInfos, ci.nodePer + 1 ≤ 28 ∧ ci.sizePer ≤ 28 := by decide

/-- the file-size bound of `partCell_no_int_overflow`: `(2^31 - 1) / 28 * 4` bytes per rank (≈ 292 MiB) -/
def overflowFreeBytes : Nat := 306783376

theorem chunk_small {np : Nat} {n : Int} {len : Nat} (hnp : 1 ≤ np) (h0 : 0 ≤ n)
    (hfit : n ≤ ((len / 4 : Nat) : Int)) (hlen : len ≤ overflowFreeBytes * np) (h1 : n ≤ INT_MAX) :
    1 ≤ chunkOf chunkConst n np ∧ chunkOf chunkConst n np ≤ 76695844 := by
  obtain ⟨he, hc, _⟩ := chunkOf_bounds (cm := chunkConst) (by decide) (by decide) hnp h0 h1
  refine ⟨hc, ?_⟩
  rw [he]
  apply max_le
  · decide
  · rw [Int.tdiv_eq_ediv_of_nonneg h0]
    have hnpI : (0 : Int) < (np : Int) := by exact_mod_cast hnp
    have hq : len / 4 ≤ 76695844 * np := by
      unfold overflowFreeBytes at hlen
      omega
    have : n < (76695844 + 1) * (np : Int) := by
      have h2 : ((len / 4 : Nat) : Int) ≤ ((76695844 * np : Nat) : Int) := by exact_mod_cast hq
      have h3 : ((76695844 * np : Nat) : Int) = 76695844 * (np : Int) := by rw [Nat.cast_mul]; rfl
      rw [h3] at h2
      linarith
    have := Int.ediv_lt_of_lt_mul hnpI this
    omega

/-! ### every section of an accepted file went through the count check -/

theorem kwSectionL_fits {α : Type} {v : Nat} {bs : Bytes} {kp : KeyPos} {kw : Nat} {dflt a : α}
    {body : Int → P α} (h : kwSectionL v bs kp kw dflt body = .ok a) {next : Int} {s0 s : Bytes} {n : Int}
    (hj : jump v bs kp kw = .ok (some (next, s0))) (hl : rdLong v s0 = .ok (n, s)) : countFits n s = true := by
  unfold kwSectionL at h
  rw [hj] at h
  simp only [hl] at h
  cases hfit : countFits n s with
  | false => simp [hfit] at h
  | true => rfl

theorem rdCellGroupsP_sections {cfg : Cfg} {cm v np : Nat} {bs : Bytes} {kp : KeyPos} {N : Int} :
    ∀ (cis : List CellInfo) {gs : List (List (List Cell))}, rdCellGroupsP cfg cm v np bs kp N cis = .ok gs →
    ∀ ci ∈ cis, ∃ g, kwSectionL v bs kp ci.kw [] (fun n => rdCellSection cfg cm v np ci N n) = .ok g := by
  intro cis
  induction cis with
  | nil => intro gs _ ci hci; simp at hci
  | cons c cis ih =>
    intro gs h ci hci
    unfold rdCellGroupsP at h
    cases h1 : kwSectionL v bs kp c.kw [] (fun n => rdCellSection cfg cm v np c N n) with
    | error e => simp [h1] at h
    | ok g =>
    simp only [h1] at h
    cases h2 : rdCellGroupsP cfg cm v np bs kp N cis with
    | error e => simp [h2] at h
    | ok gs' =>
    rcases List.mem_cons.1 hci with rfl | hci
    · exact ⟨g, h1⟩
    · exact ih h2 ci hci

theorem rdGeomTypesP_sections {cfg : Cfg} {cm v np : Nat} {bs : Bytes} {kp : KeyPos} :
    ∀ (ts : List Nat) {gs : List (List RawGeom)}, rdGeomTypesP cfg cm v np bs kp ts = .ok gs →
    ∀ t ∈ ts, ∃ g, kwSectionL v bs kp (40 + t) [] (fun n => rdGeomSection cfg cm v np t n) = .ok g := by
  intro ts
  induction ts with
  | nil => intro gs _ t ht; simp at ht
  | cons c ts ih =>
    intro gs h t ht
    unfold rdGeomTypesP at h
    cases h1 : kwSectionL v bs kp (40 + c) [] (fun n => rdGeomSection cfg cm v np c n) with
    | error e => simp [h1] at h
    | ok g =>
    simp only [h1] at h
    cases h2 : rdGeomTypesP cfg cm v np bs kp ts with
    | error e => simp [h2] at h
    | ok gs' =>
    rcases List.mem_cons.1 ht with rfl | ht
    · exact ⟨g, h1⟩
    · exact ih h2 t ht

/-! ### the whole of rank 0's reading returns -/

theorem rdVertD_error {v : Nat} {twod : Bool} {s : Bytes} {e : Status} (h : rdVertD v twod s = .error e) :
    e = .failure := by
  unfold rdVertD at h
  cases h1 : rdF64 s with
  | error e' => simp only [h1] at h; injection h with h; rw [← h]; exact rdF64_error h1
  | ok p1 =>
  obtain ⟨x, s1⟩ := p1
  simp only [h1] at h
  cases h2 : rdF64 s1 with
  | error e' => simp only [h2] at h; injection h with h; rw [← h]; exact rdF64_error h2
  | ok p2 =>
  obtain ⟨y, s2⟩ := p2
  simp only [h2] at h
  cases h3 : (if twod then (.ok (0, s2) : Except Status (UInt64 × Bytes)) else rdF64 s2) with
  | error e' =>
    simp only [h3] at h; injection h with h; rw [← h]
    split at h3
    · simp at h3
    · exact rdF64_error h3
  | ok p3 =>
  obtain ⟨z, s3⟩ := p3
  simp only [h3] at h
  cases h4 : (if 0 < v then rdLong v s3 else (.ok (0, s3) : Except Status (Int × Bytes))) with
  | error e' =>
    simp only [h4] at h; injection h with h; rw [← h]
    split at h4
    · exact rdLong_error' h4
    · simp at h4
  | ok p4 => obtain ⟨b, s4⟩ := p4; simp [h4] at h

theorem rdVertsD_error {v : Nat} {twod : Bool} : ∀ (n : Nat) {s : Bytes} {e : Status},
    rdVertsD v twod n s = .error e → e = .failure := by
  intro n
  induction n with
  | zero => intro s e h; simp [rdVertsD] at h
  | succ n ih =>
    intro s e h
    unfold rdVertsD at h
    cases h1 : rdVertD v twod s with
    | error e' => simp only [h1] at h; injection h with h; rw [← h]; exact rdVertD_error h1
    | ok p1 =>
      obtain ⟨x, s1⟩ := p1
      simp only [h1] at h
      cases h2 : rdVertsD v twod n s1 with
      | error e' => simp only [h2] at h; injection h with h; rw [← h]; exact ih h2
      | ok p2 => obtain ⟨xs, s2⟩ := p2; simp [h2] at h

theorem rdBlocks_error {v : Nat} {twod : Bool} : ∀ (counts : List Int) {s : Bytes} {e : Status},
    rdBlocks v twod counts s = .error e → e = .failure := by
  intro counts
  induction counts with
  | nil => intro s e h; simp [rdBlocks] at h
  | cons c cs ih =>
    intro s e h
    unfold rdBlocks at h
    cases h1 : rdVertsD v twod c.toNat s with
    | error e' => simp only [h1] at h; injection h with h; rw [← h]; exact rdVertsD_error _ h1
    | ok p1 =>
      obtain ⟨x, s1⟩ := p1
      simp only [h1] at h
      cases h2 : rdBlocks v twod cs s1 with
      | error e' => simp only [h2] at h; injection h with h; rw [← h]; exact ih h2
      | ok p2 => obtain ⟨xs, s2⟩ := p2; simp [h2] at h

theorem rdCad_ne_diverge (cfg : Cfg) (v : Nat) (bs : Bytes) (kp : KeyPos) : rdCad cfg v bs kp ≠ .error .diverge := by
  unfold rdCad
  cases hj : jump v bs kp 126 with
  | error e =>
    simp only; intro h; injection h with h
    rw [jump_error hj] at h; exact absurd h (by decide)
  | ok o =>
    cases o with
    | none => simp
    | some q =>
      obtain ⟨next, s⟩ := q
      simp only
      cases hs : rdSize v s with
      | error e =>
        simp only; intro h; injection h with h
        have : e = .failure := by
          unfold rdSize at hs
          split at hs <;> exact rdU_error hs
        rw [this] at h; exact absurd h (by decide)
      | ok qs =>
        obtain ⟨size, s1⟩ := qs
        simp only
        split
        · simp
        · cases ht : takeN size s1 with
          | error e =>
            simp only; intro h; injection h with h
            rw [takeN_error ht] at h; exact absurd h (by decide)
          | ok qt => obtain ⟨d, s2⟩ := qt; simp only; split <;> simp

/-- **rank 0's reading returns on every byte string** (reader of /repo since 4474557): the model's `diverge` —
    the C loop that does not return — is not a possible outcome of `parseWith Cfg.current` -/
theorem parse_ne_diverge {np cm : Nat} (hcm : 1 ≤ cm) (hcmax : (cm : Int) ≤ INT_MAX) (hnp : 1 ≤ np) (bs : Bytes) :
    parseWith Cfg.current np cm bs ≠ .error .diverge := by
  unfold parseWith
  cases h0 : header Cfg.current bs with
  | error e =>
    simp only; intro h; injection h with h
    exact header_fixed_ne_diverge bs (by rw [← h]; exact h0)
  | ok p0 =>
  obtain ⟨v, kp⟩ := p0
  simp only
  cases h1 : jump v bs kp 3 with
  | error e => simp only; intro h; injection h with h; rw [jump_error h1] at h; exact absurd h (by decide)
  | ok o1 =>
  cases o1 with
  | none => simp
  | some q1 =>
  obtain ⟨n1, s1⟩ := q1
  simp only
  cases h2 : rdI32 s1 with
  | error e => simp only; intro h; injection h with h; rw [rdI32_error h2] at h; exact absurd h (by decide)
  | ok q2 =>
  obtain ⟨dim, s2⟩ := q2
  simp only
  cases h3 : jump v bs kp 4 with
  | error e => simp only; intro h; injection h with h; rw [jump_error h3] at h; exact absurd h (by decide)
  | ok o3 =>
  cases o3 with
  | none => simp
  | some q3 =>
  obtain ⟨next, s3⟩ := q3
  simp only
  cases h4 : rdLong v s3 with
  | error e => simp only; intro h; injection h with h; rw [rdLong_error' h4] at h; exact absurd h (by decide)
  | ok q4 =>
  obtain ⟨nnode, s4⟩ := q4
  simp only
  cases h5 : rdBlocks v (decide (dim = 2)) (blockCounts nnode np) s4 with
  | error e => simp only; intro h; injection h with h; rw [rdBlocks_error _ h5] at h; exact absurd h (by decide)
  | ok q5 =>
  obtain ⟨blocks, s5⟩ := q5
  simp only
  split
  · simp
  · cases h6 : rdCellGroupsP Cfg.current cm v np bs kp nnode cellInfos with
    | error e =>
      simp only; intro h; injection h with h
      exact rdCellGroupsP_ne_diverge hcm hcmax hnp cellInfos (by rw [h6, h])
    | ok groups =>
    simp only
    cases h7 : rdGeomTypesP Cfg.current cm v np bs kp [0, 1, 2] with
    | error e =>
      simp only; intro h; injection h with h
      exact rdGeomTypesP_ne_diverge hcm hcmax hnp _ (by rw [h7, h])
    | ok geoms =>
    simp only
    cases h8 : rdCad Cfg.current v bs kp with
    | error e =>
      simp only; intro h; injection h with h
      exact rdCad_ne_diverge _ _ _ _ (by rw [h8, h])
    | ok cad => simp

end Refine.Lemmas.PartMeshb
