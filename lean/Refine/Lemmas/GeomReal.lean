import Refine.Model.Geom
import Refine.Lemmas.ScalarReal
import Mathlib.Tactic.Ring
import Mathlib.Tactic.Linarith
import Mathlib.Tactic.FieldSimp
import Mathlib.Tactic.Positivity

/-!
  Real-number view of the Geom kernels: literal bridges, vector helpers, and the guard lemmas
  (`divisible` ⇒ non-zero denominator) used by Props/C15, C11, C19.
-/
namespace Refine.GeomReal
open Refine Refine.Model.Geom Refine.ScalarReal

@[simp] theorem lit0_eq : (lit0 : ℝ) = 0 := by simp [lit0]
@[simp] theorem lit1_eq : (lit1 : ℝ) = 1 := by simp [lit1]
@[simp] theorem lit2_eq : (lit2 : ℝ) = 2 := by simp [lit2]
@[simp] theorem lit6_eq : (lit6 : ℝ) = 6 := by simp [lit6]
@[simp] theorem half_eq : (half : ℝ) = 1 / 2 := by
  simp only [half, ofDec_eq]; norm_num
theorem eps12_pos : (0 : ℝ) < (eps12 : ℝ) := by
  simp only [eps12, ofDec_eq]; positivity
theorem eps13_pos : (0 : ℝ) < (eps13 : ℝ) := by
  simp only [eps13, ofDec_eq]; positivity

/-- real vector helpers (statement vocabulary of the theorems) -/
def vadd (a b : V3 ℝ) : V3 ℝ := ⟨a.x + b.x, a.y + b.y, a.z + b.z⟩
def vsmul (s : ℝ) (a : V3 ℝ) : V3 ℝ := ⟨s * a.x, s * a.y, s * a.z⟩
def vdot (a b : V3 ℝ) : ℝ := a.x * b.x + a.y * b.y + a.z * b.z

theorem dot_eq (a b : V3 ℝ) : dot a b = vdot a b := by
  simp only [dot, vdot, add_eq, mul_eq]

@[ext] theorem V3.ext' {a b : V3 ℝ} (hx : a.x = b.x) (hy : a.y = b.y) (hz : a.z = b.z) : a = b := by
  cases a; cases b; simp_all

/-- `1e20 * d` as a real -/
theorem divisible_iff' (n d : ℝ) : Scalar.divisible n d = true ↔ |n| < (10 : ℝ) ^ (20 : ℤ) * |d| := by
  rw [divisible_iff, one_mul, abs_mul]
  have : |(10 : ℝ) ^ (20 : ℤ)| = (10 : ℝ) ^ (20 : ℤ) := abs_of_pos (by positivity)
  rw [this]

theorem divisible_of_ne_zero_of_zero {d : ℝ} (h : d ≠ 0) : Scalar.divisible (0 : ℝ) d = true := by
  rw [divisible_iff', abs_zero]
  have : 0 < |d| := abs_pos.mpr h
  positivity


/-- weighted sums with a common denominator -/
theorem wsum4 (b0 b1 b2 b3 T x0 x1 x2 x3 p : ℝ) (hT : T ≠ 0)
    (key : b0 * x0 + b1 * x1 + b2 * x2 + b3 * x3 = T * p) :
    b0 / T * x0 + b1 / T * x1 + b2 / T * x2 + b3 / T * x3 = p := by
  have : b0 / T * x0 + b1 / T * x1 + b2 / T * x2 + b3 / T * x3 = (b0 * x0 + b1 * x1 + b2 * x2 + b3 * x3) / T := by ring
  rw [this, key, mul_div_cancel_left₀ _ hT]

theorem wsum3 (b0 b1 b2 T x0 x1 x2 p : ℝ) (hT : T ≠ 0)
    (key : b0 * x0 + b1 * x1 + b2 * x2 = T * p) :
    b0 / T * x0 + b1 / T * x1 + b2 / T * x2 = p := by
  have : b0 / T * x0 + b1 / T * x1 + b2 / T * x2 = (b0 * x0 + b1 * x1 + b2 * x2) / T := by ring
  rw [this, key, mul_div_cancel_left₀ _ hT]

/-- first moments of the four sub-determinants of `ref_node_bary4` -/
theorem bary4_mom (a b c d p : V3 ℝ) :
    let T := tetDet p b c d + tetDet a p c d + tetDet a b p d + tetDet a b c p
    tetDet p b c d * a.x + tetDet a p c d * b.x + tetDet a b p d * c.x + tetDet a b c p * d.x = T * p.x ∧
    tetDet p b c d * a.y + tetDet a p c d * b.y + tetDet a b p d * c.y + tetDet a b c p * d.y = T * p.y ∧
    tetDet p b c d * a.z + tetDet a p c d * b.z + tetDet a b p d * c.z + tetDet a b c p * d.z = T * p.z := by
  simp only [tetDet, add_eq, sub_eq, mul_eq]
  refine ⟨?_, ?_, ?_⟩ <;> ring

/-- the shifted point of `ref_node_bary3d` is the query point moved along the triangle normal (by the orthogonal
    amount when the division guard passes, by the raw dot product otherwise) -/
theorem bary3dPoint_eq (x0 x1 x2 p : V3 ℝ) :
    ∃ s : ℝ, bary3dPoint x0 x1 x2 p = vadd p (vsmul s (triNormal x0 x1 x2)) := by
  unfold bary3dPoint
  simp only []
  split
  · refine ⟨-(vdot (V3.sub p x0) (triNormal x0 x1 x2) / vdot (triNormal x0 x1 x2) (triNormal x0 x1 x2)), ?_⟩
    simp only [dot_eq, vdot, vadd, vsmul, V3.sub, add_eq, sub_eq, mul_eq, div_eq]
    ext <;> (simp only []; ring)
  · refine ⟨-(vdot (V3.sub p x0) (triNormal x0 x1 x2)), ?_⟩
    simp only [dot_eq, vdot, vadd, vsmul, V3.sub, add_eq, sub_eq, mul_eq]
    ext <;> (simp only []; ring)

theorem bary3dRaw_total (x0 x1 x2 q : V3 ℝ) :
    (bary3dRaw x0 x1 x2 q).b0 + (bary3dRaw x0 x1 x2 q).b1 + (bary3dRaw x0 x1 x2 q).b2 =
      vdot (triNormal x0 x1 x2) (triNormal x0 x1 x2) := by
  simp only [bary3dRaw, triNormal, cross, dot, vdot, V3.sub, add_eq, sub_eq, mul_eq]; ring

theorem bary3dRaw_mom (x0 x1 x2 p : V3 ℝ) :
    let n := triNormal x0 x1 x2
    let r := bary3dRaw x0 x1 x2 p
    r.b0 * x0.x + r.b1 * x1.x + r.b2 * x2.x = vdot n n * p.x - vdot (V3.sub p x0) n * n.x ∧
    r.b0 * x0.y + r.b1 * x1.y + r.b2 * x2.y = vdot n n * p.y - vdot (V3.sub p x0) n * n.y ∧
    r.b0 * x0.z + r.b1 * x1.z + r.b2 * x2.z = vdot n n * p.z - vdot (V3.sub p x0) n * n.z := by
  simp only [bary3dRaw, triNormal, cross, dot, vdot, V3.sub, add_eq, sub_eq, mul_eq]
  refine ⟨?_, ?_, ?_⟩ <;> ring

theorem proj_aux (N D px nx : ℝ) (hN : N ≠ 0) : N * px - D * nx = N * (px + -(D / N) * nx) := by
  field_simp
  ring

theorem vtMv_sub_comm (M : M6 ℝ) (a b : V3 ℝ) : vtMv M (V3.sub a b) = vtMv M (V3.sub b a) := by
  simp only [vtMv, V3.sub, add_eq, sub_eq, mul_eq]; ring

theorem sqrtVtMv_sub_comm (M : M6 ℝ) (a b : V3 ℝ) : sqrtVtMv M (V3.sub a b) = sqrtVtMv M (V3.sub b a) := by
  unfold sqrtVtMv; rw [vtMv_sub_comm]

theorem divisible_sub_comm (a b l : ℝ) : Scalar.divisible (a -. b) l = Scalar.divisible (b -. a) l := by
  rw [Bool.eq_iff_iff, divisible_iff', divisible_iff', sub_eq, sub_eq, abs_sub_comm]

theorem ratioDegenerate_sub_comm (a b : V3 ℝ) : ratioDegenerate (V3.sub a b) = ratioDegenerate (V3.sub b a) := by
  have hd : dot (V3.sub a b) (V3.sub a b) = dot (V3.sub b a) (V3.sub b a) := by
    simp only [dot, V3.sub, add_eq, sub_eq, mul_eq]; ring
  unfold ratioDegenerate
  simp only [hd]
  simp only [V3.sub, divisible_sub_comm a.x b.x, divisible_sub_comm a.y b.y, divisible_sub_comm a.z b.z]

/-- `c · M` -/
def scaleM (c : ℝ) (M : M6 ℝ) : M6 ℝ := ⟨c * M.m0, c * M.m1, c * M.m2, c * M.m3, c * M.m4, c * M.m5⟩

theorem vtMv_scale (c : ℝ) (M : M6 ℝ) (v : V3 ℝ) : vtMv (scaleM c M) v = c * vtMv M v := by
  simp only [vtMv, scaleM, add_eq, mul_eq]; ring

theorem sqrtVtMv_scale (s : ℝ) (hs : 0 ≤ s) (M : M6 ℝ) (v : V3 ℝ) :
    sqrtVtMv (scaleM (s ^ 2) M) v = s * sqrtVtMv M v := by
  unfold sqrtVtMv
  rw [vtMv_scale, sqrt_eq, sqrt_eq, Real.sqrt_mul (sq_nonneg s), Real.sqrt_sq hs]

theorem normalize_ok {v n : V3 ℝ} (h : Refine.Model.Geom.normalize v = (St.ok, n)) :
    Real.sqrt (vdot v v) ≠ 0 ∧
    n = ⟨v.x / Real.sqrt (vdot v v), v.y / Real.sqrt (vdot v v), v.z / Real.sqrt (vdot v v)⟩ := by
  unfold Refine.Model.Geom.normalize at h
  simp only [dot_eq, sqrt_eq, div_eq] at h
  split at h
  · simp at h
  · rename_i hg
    simp only [Bool.or_eq_true, Bool.not_eq_true', not_or, Bool.not_eq_false] at hg
    have hL := divisible_ne_zero hg.2
    split at h
    · simp only [Prod.mk.injEq, true_and] at h
      exact ⟨hL, h.symm⟩
    · simp at h

/-- scalar core of one altitude direction: `(px/h·L)/(h·L) = px·E/N` given `h² = P`, `L² = E`, `P·E = N` -/
theorem alt_core (px h L P E N : ℝ) (hh : h * h = P) (hL : L * L = E) (hN : P * E = N)
    (h0 : h ≠ 0) (L0 : L ≠ 0) : (px / h * L) / (h * L) = px * E / N := by
  have hP : P ≠ 0 := by rw [← hh]; exact mul_ne_zero h0 h0
  have hE : E ≠ 0 := by rw [← hL]; exact mul_ne_zero L0 L0
  have hNn : N ≠ 0 := by rw [← hN]; exact mul_ne_zero hP hE
  rw [← hN, ← hh, ← hL]
  field_simp


theorem vdot_self_nonneg (v : V3 ℝ) : 0 ≤ vdot v v := by
  simp only [vdot]; nlinarith [mul_self_nonneg v.x, mul_self_nonneg v.y, mul_self_nonneg v.z]

/-- the coded altitude vector `e1 - (e1·(e2/L)) (e2/L)` -/
noncomputable def altVec (e1 e2 : V3 ℝ) (L : ℝ) : V3 ℝ :=
  ⟨e1.x - vdot e1 ⟨e2.x / L, e2.y / L, e2.z / L⟩ * (e2.x / L),
   e1.y - vdot e1 ⟨e2.x / L, e2.y / L, e2.z / L⟩ * (e2.y / L),
   e1.z - vdot e1 ⟨e2.x / L, e2.y / L, e2.z / L⟩ * (e2.z / L)⟩

theorem altVec_scaled (e1 e2 : V3 ℝ) (L : ℝ) (hL : L * L = vdot e2 e2) (L0 : L ≠ 0) :
    (altVec e1 e2 L).x * vdot e2 e2 = e1.x * vdot e2 e2 - vdot e1 e2 * e2.x ∧
    (altVec e1 e2 L).y * vdot e2 e2 = e1.y * vdot e2 e2 - vdot e1 e2 * e2.y ∧
    (altVec e1 e2 L).z * vdot e2 e2 = e1.z * vdot e2 e2 - vdot e1 e2 * e2.z := by
  rw [← hL]
  simp only [altVec, vdot]
  refine ⟨?_, ?_, ?_⟩ <;> field_simp

theorem altVec_norm (e1 e2 : V3 ℝ) (L : ℝ) (hL : L * L = vdot e2 e2) (L0 : L ≠ 0) :
    vdot (altVec e1 e2 L) (altVec e1 e2 L) * vdot e2 e2 = vdot (cross e1 e2) (cross e1 e2) := by
  obtain ⟨hx, hy, hz⟩ := altVec_scaled e1 e2 L hL L0
  have hE : vdot e2 e2 ≠ 0 := by rw [← hL]; exact mul_ne_zero L0 L0
  have key : (vdot (altVec e1 e2 L) (altVec e1 e2 L) * vdot e2 e2) * vdot e2 e2 =
      vdot (cross e1 e2) (cross e1 e2) * vdot e2 e2 := by
    have : (vdot (altVec e1 e2 L) (altVec e1 e2 L) * vdot e2 e2) * vdot e2 e2 =
        ((altVec e1 e2 L).x * vdot e2 e2) ^ 2 + ((altVec e1 e2 L).y * vdot e2 e2) ^ 2 +
        ((altVec e1 e2 L).z * vdot e2 e2) ^ 2 := by
      simp only [vdot]; ring
    rw [this, hx, hy, hz]
    simp only [vdot, cross, sub_eq, mul_eq]; ring
  exact mul_right_cancel₀ hE key

/-- one component of the coded triangle gradient, after the square roots are eliminated -/
theorem tri_comp (Δ1 Δ2 p1c p2c h1 h2 L1 L2 P1 P2 E1 E2 N A : ℝ)
    (hh1 : h1 * h1 = P1) (hh2 : h2 * h2 = P2) (hL1 : L1 * L1 = E1) (hL2 : L2 * L2 = E2)
    (hN1 : P1 * E2 = N) (hN2 : P2 * E1 = N) (hA1 : A = h1 * L2) (hA2 : A = h2 * L1)
    (h10 : h1 ≠ 0) (h20 : h2 ≠ 0) (L10 : L1 ≠ 0) (L20 : L2 ≠ 0) :
    (Δ1 * (p1c / h1 * L2) + Δ2 * (p2c / h2 * L1)) / A = (Δ1 * (p1c * E2) + Δ2 * (p2c * E1)) / N := by
  have e1 := alt_core p1c h1 L2 P1 E2 N hh1 hL2 hN1 h10 L20
  have e2 := alt_core p2c h2 L1 P2 E1 N hh2 hL1 hN2 h20 L10
  have : (Δ1 * (p1c / h1 * L2) + Δ2 * (p2c / h2 * L1)) / A =
      Δ1 * ((p1c / h1 * L2) / A) + Δ2 * ((p2c / h2 * L1) / A) := by ring
  rw [this]
  nth_rewrite 1 [hA1]
  rw [hA2, e1, e2]; ring

/-- the tangential-gradient identity (BAC-CAB), multiplied through by `N = |e1×e2|²` -/
theorem tangent_identity (e1 e2 g : V3 ℝ) :
    let n := cross e1 e2
    let E1 := vdot e1 e1
    let E2 := vdot e2 e2
    let D := vdot e1 e2
    vdot g e1 * (e1.x * E2 - D * e2.x) + vdot g e2 * (e2.x * E1 - D * e1.x) = g.x * vdot n n - vdot g n * n.x ∧
    vdot g e1 * (e1.y * E2 - D * e2.y) + vdot g e2 * (e2.y * E1 - D * e1.y) = g.y * vdot n n - vdot g n * n.y ∧
    vdot g e1 * (e1.z * E2 - D * e2.z) + vdot g e2 * (e2.z * E1 - D * e1.z) = g.z * vdot n n - vdot g n * n.z := by
  simp only [vdot, cross, sub_eq, mul_eq]
  refine ⟨?_, ?_, ?_⟩ <;> ring


end Refine.GeomReal
