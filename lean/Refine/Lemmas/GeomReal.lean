import Refine.Model.Geom
import Refine.Lemmas.ScalarReal
import Mathlib.Tactic.Ring
import Mathlib.Tactic.Linarith
import Mathlib.Tactic.FieldSimp
import Mathlib.Tactic.Positivity

/-!
  Real-number view of the Geom kernels: literal bridges, vector helpers, and the guard lemmas
  (`divisible` ⇒ non-zero denominator) used by Props/C15, C11, C19.
-/
namespace Refine.GeomReal
open Refine Refine.Model.Geom Refine.ScalarReal

@[simp] theorem lit0_eq : (lit0 : ℝ) = 0 := by simp [lit0]
@[simp] theorem lit1_eq : (lit1 : ℝ) = 1 := by simp [lit1]
@[simp] theorem lit2_eq : (lit2 : ℝ) = 2 := by simp [lit2]
@[simp] theorem lit6_eq : (lit6 : ℝ) = 6 := by simp [lit6]
@[simp] theorem half_eq : (half : ℝ) = 1 / 2 := by
  simp only [half, ofDec_eq]; norm_num
theorem eps12_pos : (0 : ℝ) < (eps12 : ℝ) := by
  simp only [eps12, ofDec_eq]; positivity
theorem eps13_pos : (0 : ℝ) < (eps13 : ℝ) := by
  simp only [eps13, ofDec_eq]; positivity

/-- real vector helpers (statement vocabulary of the theorems) -/
def vadd (a b : V3 ℝ) : V3 ℝ := ⟨a.x + b.x, a.y + b.y, a.z + b.z⟩
def vsmul (s : ℝ) (a : V3 ℝ) : V3 ℝ := ⟨s * a.x, s * a.y, s * a.z⟩
def vdot (a b : V3 ℝ) : ℝ := a.x * b.x + a.y * b.y + a.z * b.z

theorem dot_eq (a b : V3 ℝ) : dot a b = vdot a b := by
  simp only [dot, vdot, add_eq, mul_eq]

@[ext] theorem V3.ext' {a b : V3 ℝ} (hx : a.x = b.x) (hy : a.y = b.y) (hz : a.z = b.z) : a = b := by
  cases a; cases b; simp_all

/-- `1e20 * d` as a real -/
theorem divisible_iff' (n d : ℝ) : Scalar.divisible n d = true ↔ |n| < (10 : ℝ) ^ (20 : ℤ) * |d| := by
  rw [divisible_iff, one_mul, abs_mul]
  have : |(10 : ℝ) ^ (20 : ℤ)| = (10 : ℝ) ^ (20 : ℤ) := abs_of_pos (by positivity)
  rw [this]

theorem divisible_of_ne_zero_of_zero {d : ℝ} (h : d ≠ 0) : Scalar.divisible (0 : ℝ) d = true := by
  rw [divisible_iff', abs_zero]
  have : 0 < |d| := abs_pos.mpr h
  positivity


/-- weighted sums with a common denominator -/
theorem wsum4 (b0 b1 b2 b3 T x0 x1 x2 x3 p : ℝ) (hT : T ≠ 0)
    (key : b0 * x0 + b1 * x1 + b2 * x2 + b3 * x3 = T * p) :
    b0 / T * x0 + b1 / T * x1 + b2 / T * x2 + b3 / T * x3 = p := by
  have : b0 / T * x0 + b1 / T * x1 + b2 / T * x2 + b3 / T * x3 = (b0 * x0 + b1 * x1 + b2 * x2 + b3 * x3) / T := by ring
  rw [this, key, mul_div_cancel_left₀ _ hT]

theorem wsum3 (b0 b1 b2 T x0 x1 x2 p : ℝ) (hT : T ≠ 0)
    (key : b0 * x0 + b1 * x1 + b2 * x2 = T * p) :
    b0 / T * x0 + b1 / T * x1 + b2 / T * x2 = p := by
  have : b0 / T * x0 + b1 / T * x1 + b2 / T * x2 = (b0 * x0 + b1 * x1 + b2 * x2) / T := by ring
  rw [this, key, mul_div_cancel_left₀ _ hT]

/-- first moments of the four sub-determinants of `ref_node_bary4` -/
theorem bary4_mom (a b c d p : V3 ℝ) :
    let T := tetDet p b c d + tetDet a p c d + tetDet a b p d + tetDet a b c p
    tetDet p b c d * a.x + tetDet a p c d * b.x + tetDet a b p d * c.x + tetDet a b c p * d.x = T * p.x ∧
    tetDet p b c d * a.y + tetDet a p c d * b.y + tetDet a b p d * c.y + tetDet a b c p * d.y = T * p.y ∧
    tetDet p b c d * a.z + tetDet a p c d * b.z + tetDet a b p d * c.z + tetDet a b c p * d.z = T * p.z := by
  simp only [tetDet, add_eq, sub_eq, mul_eq]
  refine ⟨?_, ?_, ?_⟩ <;> ring

theorem bary3dPoint_eq (x0 x1 x2 p : V3 ℝ) :
    bary3dPoint x0 x1 x2 p =
      vadd p (vsmul (-(vdot (V3.sub p x0) (triNormal x0 x1 x2))) (triNormal x0 x1 x2)) := by
  simp only [bary3dPoint, dot_eq, vdot, vadd, vsmul, V3.sub, add_eq, sub_eq, mul_eq]
  ext <;> (simp only []; ring)

theorem bary3dRaw_total (x0 x1 x2 q : V3 ℝ) :
    (bary3dRaw x0 x1 x2 q).b0 + (bary3dRaw x0 x1 x2 q).b1 + (bary3dRaw x0 x1 x2 q).b2 =
      vdot (triNormal x0 x1 x2) (triNormal x0 x1 x2) := by
  simp only [bary3dRaw, triNormal, cross, dot, vdot, V3.sub, add_eq, sub_eq, mul_eq]; ring

theorem bary3dRaw_mom (x0 x1 x2 p : V3 ℝ) :
    let n := triNormal x0 x1 x2
    let r := bary3dRaw x0 x1 x2 p
    r.b0 * x0.x + r.b1 * x1.x + r.b2 * x2.x = vdot n n * p.x - vdot (V3.sub p x0) n * n.x ∧
    r.b0 * x0.y + r.b1 * x1.y + r.b2 * x2.y = vdot n n * p.y - vdot (V3.sub p x0) n * n.y ∧
    r.b0 * x0.z + r.b1 * x1.z + r.b2 * x2.z = vdot n n * p.z - vdot (V3.sub p x0) n * n.z := by
  simp only [bary3dRaw, triNormal, cross, dot, vdot, V3.sub, add_eq, sub_eq, mul_eq]
  refine ⟨?_, ?_, ?_⟩ <;> ring

theorem proj_aux (N D px nx : ℝ) (hN : N ≠ 0) : N * px - D * nx = N * (px + -(D / N) * nx) := by
  field_simp
  ring

theorem vtMv_sub_comm (M : M6 ℝ) (a b : V3 ℝ) : vtMv M (V3.sub a b) = vtMv M (V3.sub b a) := by
  simp only [vtMv, V3.sub, add_eq, sub_eq, mul_eq]; ring

theorem sqrtVtMv_sub_comm (M : M6 ℝ) (a b : V3 ℝ) : sqrtVtMv M (V3.sub a b) = sqrtVtMv M (V3.sub b a) := by
  unfold sqrtVtMv; rw [vtMv_sub_comm]

theorem divisible_sub_comm (a b l : ℝ) : Scalar.divisible (a -. b) l = Scalar.divisible (b -. a) l := by
  rw [Bool.eq_iff_iff, divisible_iff', divisible_iff', sub_eq, sub_eq, abs_sub_comm]

theorem ratioDegenerate_sub_comm (a b : V3 ℝ) : ratioDegenerate (V3.sub a b) = ratioDegenerate (V3.sub b a) := by
  have hd : dot (V3.sub a b) (V3.sub a b) = dot (V3.sub b a) (V3.sub b a) := by
    simp only [dot, V3.sub, add_eq, sub_eq, mul_eq]; ring
  unfold ratioDegenerate
  simp only [hd]
  simp only [V3.sub, divisible_sub_comm a.x b.x, divisible_sub_comm a.y b.y, divisible_sub_comm a.z b.z]

/-- `c · M` -/
def scaleM (c : ℝ) (M : M6 ℝ) : M6 ℝ := ⟨c * M.m0, c * M.m1, c * M.m2, c * M.m3, c * M.m4, c * M.m5⟩

theorem vtMv_scale (c : ℝ) (M : M6 ℝ) (v : V3 ℝ) : vtMv (scaleM c M) v = c * vtMv M v := by
  simp only [vtMv, scaleM, add_eq, mul_eq]; ring

theorem sqrtVtMv_scale (s : ℝ) (hs : 0 ≤ s) (M : M6 ℝ) (v : V3 ℝ) :
    sqrtVtMv (scaleM (s ^ 2) M) v = s * sqrtVtMv M v := by
  unfold sqrtVtMv
  rw [vtMv_scale, sqrt_eq, sqrt_eq, Real.sqrt_mul (sq_nonneg s), Real.sqrt_sq hs]

end Refine.GeomReal
