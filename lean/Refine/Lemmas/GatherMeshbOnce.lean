import Refine.Lemmas.GatherMeshb

/-!
  Every geometry association record of the global mesh is written exactly once by `ref_gather_geom`'s owner filter
  (`ref_mpi_rank == ref_node_part(node)`), for every rank count and partition — the analogue of
  `Refine.Lemmas.Par.emittedFrom_perm` (cells) for association records.
-/
namespace Refine.Lemmas.GatherMeshb
open Refine.Model.Meshb Refine.Model.Par Refine.Model.GatherMeshb Refine.Lemmas.Par

/-- rank `r`'s state agrees with the global list `GG` of association records and the partition `part`: it holds (in any
    order) the records of exactly the vertices it stores, knows the true part of every vertex it stores, and stores the
    vertices it owns -/
structure GeomConsistent (part : Nat → Nat) (GG : List LGeom) (r : Nat) (rk : Rank) : Prop where
  geoms : rk.geoms.Perm (GG.filter fun g => (localOf (nodeView rk) g.node).isSome)
  parts : ∀ nd ∈ rk.nodes, nd.part = part nd.global
  owned : ∀ g ∈ GG, part g.node = r → (localOf (nodeView rk) g.node).isSome = true

instance (part : Nat → Nat) (GG : List LGeom) (r : Nat) (rk : Rank) : Decidable (GeomConsistent part GG r rk) :=
  decidable_of_iff
    (rk.geoms.Perm (GG.filter fun g => (localOf (nodeView rk) g.node).isSome) ∧
      (∀ nd ∈ rk.nodes, nd.part = part nd.global) ∧
      (∀ g ∈ GG, part g.node = r → (localOf (nodeView rk) g.node).isSome = true))
    ⟨fun h => ⟨h.1, h.2.1, h.2.2⟩, fun h => ⟨h.geoms, h.parts, h.owned⟩⟩

/-- `Par.Consistent` is decidable (used by the concrete examples) -/
instance {α : Type} (part : Nat → Nat) (G : List GCell) (r : Nat) (v : RankView α) :
    Decidable (Consistent part G r v) :=
  decidable_of_iff
    (v.cells.Perm (G.filter (storedOn part r)) ∧
      (∀ c ∈ v.cells, ∀ g ∈ c.nodes, (localOf v g).map (·.part) = some (part g)))
    ⟨fun h => ⟨h.1, fun c hc g hg => by
        have := h.2 c hc g hg
        cases hl : localOf v g with
        | none => simp [hl] at this
        | some nd => exact ⟨nd, rfl, by simpa [hl] using this⟩⟩,
     fun h => ⟨h.cells, fun c hc g hg => by
        obtain ⟨nd, h1, h2⟩ := h.parts c hc g hg
        simp [h1, h2]⟩⟩

theorem geomOwned_eq (part : Nat → Nat) (r : Nat) (rk : Rank) (hparts : ∀ nd ∈ rk.nodes, nd.part = part nd.global)
    (g : LGeom) (hst : (localOf (nodeView rk) g.node).isSome = true) :
    geomOwned r rk g = (part g.node == r) := by
  unfold geomOwned
  cases hl : localOf (nodeView rk) g.node with
  | none => simp [hl] at hst
  | some nd =>
    simp only
    have hmem : nd ∈ rk.nodes := by
      unfold localOf at hl; exact List.mem_of_find?_eq_some hl
    have hg : nd.global = g.node := by
      unfold localOf at hl
      have := List.find?_some hl
      simpa using this
    rw [hparts nd hmem, hg]

/-- what rank `r` contributes for type `t` is, up to order, the type-`t` records of `GG` on the vertices `r` owns -/
theorem geomsOwnedOf_perm (part : Nat → Nat) (GG : List LGeom) (t r : Nat) (rk : Rank)
    (hc : GeomConsistent part GG r rk) :
    (geomsOwnedOf t r rk).Perm (GG.filter fun g => g.type == t && part g.node == r) := by
  unfold geomsOwnedOf
  refine (hc.geoms.filter _).trans ?_
  rw [List.filter_filter]
  apply List.Perm.of_eq
  apply List.filter_congr
  intro g hg
  by_cases hst : (localOf (nodeView rk) g.node).isSome = true
  · rw [geomOwned_eq part r rk hc.parts g hst, hst]; simp
  · have hno : ¬ part g.node = r := fun h => hst (hc.owned g hg h)
    have : (part g.node == r) = false := by simpa using hno
    simp [hst, this]

def geomOwnerIn (part : Nat → Nat) (t lo hi : Nat) (g : LGeom) : Bool :=
  g.type == t && (decide (lo ≤ part g.node) && decide (part g.node < hi))

theorem ownedGeomsFrom_perm (part : Nat → Nat) (GG : List LGeom) (t r : Nat) (ranks : List Rank)
    (hc : ∀ i rk, ranks[i]? = some rk → GeomConsistent part GG (r + i) rk) :
    (ownedGeomsFrom t r ranks).Perm (GG.filter (geomOwnerIn part t r (r + ranks.length))) := by
  induction ranks generalizing r with
  | nil =>
    simp only [ownedGeomsFrom, List.length_nil, Nat.add_zero]
    have : GG.filter (geomOwnerIn part t r r) = [] := by
      rw [List.filter_eq_nil_iff]
      intro g _
      simp [geomOwnerIn]
    rw [this]
  | cons rk rest ih =>
    simp only [ownedGeomsFrom, List.length_cons]
    have h0 : GeomConsistent part GG r rk := by simpa using hc 0 rk (by simp)
    have hrest : ∀ i rk', rest[i]? = some rk' → GeomConsistent part GG (r + 1 + i) rk' := by
      intro i rk' hi
      have := hc (i + 1) rk' (by simpa using hi)
      rwa [show r + (i + 1) = r + 1 + i by omega] at this
    have e1 := geomsOwnedOf_perm part GG t r rk h0
    have e2 := ih (r + 1) hrest
    have hlen : r + (rest.length + 1) = r + 1 + rest.length := by omega
    rw [hlen]
    refine (e1.append e2).trans ?_
    have hfun : geomOwnerIn part t r (r + 1 + rest.length)
        = fun g => ((g.type == t && part g.node == r) || geomOwnerIn part t (r + 1) (r + 1 + rest.length) g) := by
      funext g
      unfold geomOwnerIn
      by_cases ht : g.type = t
      · by_cases h1 : part g.node = r
        · simp [ht, h1]; omega
        · have : (part g.node == r) = false := by simpa using h1
          simp only [ht, beq_self_eq_true, Bool.true_and, this, Bool.false_or]
          by_cases h2 : r ≤ part g.node
          · have : r + 1 ≤ part g.node := by omega
            simp [h2, this]
          · have : ¬ r + 1 ≤ part g.node := by omega
            simp [h2, this]
      · have : (g.type == t) = false := by simpa using ht
        simp [this]
    rw [hfun]
    apply filter_append_disjoint
    intro g _ ⟨h1, h2⟩
    simp only [Bool.and_eq_true, beq_iff_eq] at h1
    unfold geomOwnerIn at h2
    simp only [Bool.and_eq_true, beq_iff_eq, decide_eq_true_eq] at h2
    omega

/-- all ranks together: the type-`t` records of `GG`, each exactly once (parts in `[0, np)`) -/
theorem ownedGeomsFrom_all (part : Nat → Nat) (GG : List LGeom) (t : Nat) (ranks : List Rank)
    (hc : ∀ r rk, ranks[r]? = some rk → GeomConsistent part GG r rk)
    (hrange : ∀ g ∈ GG, part g.node < ranks.length) :
    (ownedGeomsFrom t 0 ranks).Perm (GG.filter fun g => g.type == t) := by
  have h := ownedGeomsFrom_perm part GG t 0 ranks (by simpa using hc)
  refine h.trans (List.Perm.of_eq ?_)
  apply List.filter_congr
  intro g hg
  have := hrange g hg
  simp [geomOwnerIn]
  intro _
  omega

end Refine.Lemmas.GatherMeshb
