import Refine.Lemmas.CavityGrid

/-!
  The 2-D cavity (tris are the cells, segs the cavity boundary).  With an empty `tet_list` the seg-face helpers
  of `ref_cavity_insert_seg` are no-ops.  `Alt2 ψ` : `ψ(b,a) = −ψ(a,b)`, `ψ(a,a) = 0`.
-/
namespace Refine.Lemmas.Cavity
open Refine.Model.Cavity

variable {G : Type} [AddCommGroup G]

structure Alt2 (ψ : Int → Int → G) : Prop where
  swap : ∀ a b, ψ b a = - ψ a b
  diag : ∀ a, ψ a a = 0

def segSum (ψ : Int → Int → G) (l : List Seg) : G := (l.map fun s => ψ s.n0 s.n1).sum

/-- signed boundary of a tri: its three directed sides (rows of the regenerated `e2n` table) -/
def triBd (ψ : Int → Int → G) (t : Tri) : G := segSum ψ (triSegs t)

theorem triSegs_eq (a b c i : Int) : triSegs ⟨a, b, c, i⟩ = [⟨a, b, i⟩, ⟨b, c, i⟩, ⟨c, a, i⟩] := by rfl

theorem triBd_eq (ψ : Int → Int → G) (t : Tri) : triBd ψ t = ψ t.n0 t.n1 + ψ t.n1 t.n2 + ψ t.n2 t.n0 := by
  rcases t with ⟨a, b, c, i⟩
  simp only [triBd, triSegs_eq, segSum, List.map_cons, List.map_nil, List.sum_cons, List.sum_nil, add_zero]
  abel

def triBdAt {α : Type} (ψ : Int → Int → G) (g : Grid α) (cell : Int) : G :=
  match g.tris.get? cell with
  | some t => triBd ψ t
  | none => 0

theorem findSegAux_spec (a b : Int) (rows : List (Option Seg)) (k i : Nat) (r : Bool)
    (h : findSegAux a b rows k = some (i, r)) :
    k ≤ i ∧ ∃ g, rows.getD (i - k) none = some g ∧
      (r = true → b = g.n0 ∧ a = g.n1) ∧ (r = false → a = g.n0 ∧ b = g.n1) := by
  induction rows generalizing k with
  | nil => simp [findSegAux] at h
  | cons x t ih =>
    cases x with
    | none =>
      simp only [findSegAux] at h
      obtain ⟨h1, g, hg, hr⟩ := ih (k + 1) h
      refine ⟨by omega, g, ?_, hr⟩
      have : i - k = (i - (k + 1)) + 1 := by omega
      rw [this, List.getD_cons_succ]; exact hg
    | some g0 =>
      simp only [findSegAux] at h
      split at h
      · next hs =>
        simp only [Option.some.injEq, Prod.mk.injEq] at h
        obtain ⟨rfl, rfl⟩ := h
        simp only [Bool.and_eq_true, beq_iff_eq] at hs
        exact ⟨le_refl _, g0, by simp, by simp, fun _ => hs⟩
      · split at h
        · next hr =>
          simp only [Option.some.injEq, Prod.mk.injEq] at h
          obtain ⟨rfl, rfl⟩ := h
          simp only [Bool.and_eq_true, beq_iff_eq] at hr
          exact ⟨le_refl _, g0, by simp, fun _ => hr, by simp⟩
        · obtain ⟨h1, g, hg, hr⟩ := ih (k + 1) h
          refine ⟨by omega, g, ?_, hr⟩
          have : i - k = (i - (k + 1)) + 1 := by omega
          rw [this, List.getD_cons_succ]; exact hg

/-- what `insertSeg` leaves alone in 2-D -/
structure Step2 (ψ : Int → Int → G) (c c' : Cav) (delta : G) : Prop where
  inv : SlotsInv c'.segs
  sum : segSum ψ c'.validSegs = segSum ψ c.validSegs + delta
  tets : c'.tetList = []
  tris : c'.triList = c.triList
  state : c'.state = c.state

/-- `ref_cavity_insert_seg` with an empty `tet_list`: either a face-id mismatch flags the cavity
    `boundary_constrained`, or the seg sum changes by exactly `ψ(s)` -/
theorem insertSeg_spec {α : Type} {ψ : Int → Int → G} (hψ : Alt2 ψ) (g : Grid α) (c c' : Cav) (s : Seg)
    (hinv : SlotsInv c.segs) (htl : c.tetList = []) (h : insertSeg g c s = (.ok, c')) :
    c'.state = .boundary_constrained ∨ Step2 ψ c c' (ψ s.n0 s.n1) := by
  unfold insertSeg at h
  split at h
  · next i hfind =>
    obtain ⟨_, old, hold, hr, _⟩ := findSegAux_spec _ _ _ _ _ _ hfind
    simp only [Nat.sub_zero] at hold
    rw [hold] at h
    simp only at h
    split at h
    · left; simp only [Prod.mk.injEq, true_and] at h; rw [← h]
    · next hid =>
      right
      have e1 : ∀ c1 : Cav, c1.tetList = [] → removeSegFace c1 s = (.ok, c1) := by
        intro c1 h1; unfold removeSegFace; simp [h1]
      have e2 : ∀ c1 : Cav, c1.tetList = [] → removeSegAddTets g c1 s = (.ok, c1) := by
        intro c1 h1; unfold removeSegAddTets; simp [h1]
      rw [e1 { c with segs := c.segs.remove i } htl] at h
      simp only at h
      rw [e2 { c with segs := c.segs.remove i } htl] at h
      simp only [Prod.mk.injEq, true_and] at h; subst h
      obtain ⟨hi, hp, _⟩ := Slots.remove_spec c.segs i old hinv hold
      obtain ⟨hb, ha⟩ := hr rfl
      refine ⟨hi, ?_, htl, rfl, rfl⟩
      have := (hp.map fun s => ψ s.n0 s.n1).sum_eq
      simp only [List.map_cons, List.sum_cons] at this
      simp only [segSum, Cav.validSegs]
      rw [this, ← hb, ← ha, hψ.swap s.n0 s.n1]; abel
  · simp at h
  · right
    have e3 : ∀ c1 : Cav, c1.tetList = [] → addSegFace c1 s = (.ok, c1) := by
      intro c1 h1; unfold addSegFace; simp [h1]
    simp only [] at h
    rw [e3 { c with segs := (c.segs.add 100 s).1 } htl] at h
    simp only [Prod.mk.injEq, true_and] at h; subst h
    obtain ⟨hi, hp, _, _⟩ := Slots.add_spec c.segs 100 (by decide) s hinv
    refine ⟨hi, ?_, htl, rfl, rfl⟩
    have := (hp.map fun s => ψ s.n0 s.n1).sum_eq
    simp only [List.map_cons, List.sum_cons] at this
    simp only [segSum, Cav.validSegs]
    rw [this]; abel

theorem addTriSegs_spec {α : Type} {ψ : Int → Int → G} (hψ : Alt2 ψ) (g : Grid α) (ss : List Seg) (c c' : Cav)
    (hinv : SlotsInv c.segs) (htl : c.tetList = []) (h : addTriSegs g c ss = (.ok, c'))
    (hs : c'.state = .unknown) : Step2 ψ c c' (segSum ψ ss) := by
  induction ss generalizing c with
  | nil =>
    simp only [addTriSegs, Prod.mk.injEq, true_and] at h; subst h
    exact ⟨hinv, by simp [segSum], htl, rfl, rfl⟩
  | cons s t ih =>
    unfold addTriSegs at h
    rcases hins : insertSeg g c s with ⟨s1, c1⟩
    rw [hins] at h
    cases s1 <;> simp only [] at h <;> first | exact (notok h (by decide)).elim | skip
    split at h
    · next hne =>
      simp only [Prod.mk.injEq, true_and] at h; subst h; exact absurd hs hne
    · next hun =>
      rcases insertSeg_spec hψ g c c1 s hinv htl hins with hb | st1
      · rw [hb] at hun; simp at hun
      · have st2 := ih c1 st1.inv st1.tets h
        refine ⟨st2.inv, ?_, st2.tets, st2.tris.trans st1.tris, st2.state.trans st1.state⟩
        rw [st2.sum, st1.sum]; simp only [segSum, List.map_cons, List.sum_cons]; abel

theorem addTri_spec {α : Type} {ψ : Int → Int → G} (hψ : Alt2 ψ) (g : Grid α) (cell : Int) (c c' : Cav)
    (hinv : SlotsInv c.segs) (htl : c.tetList = []) (h : addTri g c cell = (.ok, c'))
    (hs : c'.state = .unknown) :
    ∃ new, c'.triList = c.triList ++ new ∧
      segSum ψ c'.validSegs = segSum ψ c.validSegs + (new.map (triBdAt ψ g)).sum ∧
      SlotsInv c'.segs ∧ c'.tetList = [] := by
  unfold addTri at h
  split at h
  · simp at h
  · next tri hget =>
    split at h
    · simp only [Prod.mk.injEq, true_and] at h; subst h
      exact ⟨[], by simp, by simp, hinv, htl⟩
    · split at h
      · simp only [Prod.mk.injEq, true_and] at h; subst h; simp at hs
      · have st := addTriSegs_spec hψ g (triSegs tri) { c with triList := c.triList ++ [cell] } c' hinv htl h hs
        refine ⟨[cell], st.tris, ?_, st.inv, st.tets⟩
        rw [st.sum]; simp [triBdAt, hget, triBd, Cav.validSegs]

theorem addTris_spec {α : Type} {ψ : Int → Int → G} (hψ : Alt2 ψ) (g : Grid α) (cells : List Int) (c c' : Cav)
    (hinv : SlotsInv c.segs) (htl : c.tetList = []) (h : addTris g c cells = (.ok, c'))
    (hs : c'.state = .unknown) :
    ∃ new, c'.triList = c.triList ++ new ∧ segSum ψ c'.validSegs = segSum ψ c.validSegs + (new.map (triBdAt ψ g)).sum ∧
      SlotsInv c'.segs ∧ c'.tetList = [] := by
  induction cells generalizing c with
  | nil =>
    simp only [addTris, Prod.mk.injEq, true_and] at h; subst h
    exact ⟨[], by simp, by simp, hinv, htl⟩
  | cons t rest ih =>
    unfold addTris at h
    rcases h1 : addTri g c t with ⟨s1, c1⟩
    rw [h1] at h
    cases s1 <;> simp only [] at h <;> first | exact (notok h (by decide)).elim | skip
    split at h
    · next hne => simp only [Prod.mk.injEq, true_and] at h; subst h; exact absurd hs hne
    · next hun =>
      have hs1 : c1.state = .unknown := by simpa using hun
      obtain ⟨n1, htl1, hsum1, hinv1, htets1⟩ := addTri_spec hψ g t c c1 hinv htl h1 hs1
      obtain ⟨n2, htl2, hsum2, hinv2, htets2⟩ := ih c1 hinv1 htets1 h
      refine ⟨n1 ++ n2, by rw [htl2, htl1, List.append_assoc], ?_, hinv2, htets2⟩
      rw [hsum2, hsum1]; simp only [List.map_append, List.sum_append]; abel

/-! ### replace in 2-D: conformity follows from the seg list being a boundary (∂∂ = 0) -/

/-- boundary of the new tri of a seg (0 for an attached seg) -/
def newBd2 (ψ : Int → Int → G) (n : Int) (s : Seg) : G :=
  match newTriOf n s with
  | some t => triBd ψ t
  | none => 0

theorem newBd2_eq {ψ : Int → Int → G} (hψ : Alt2 ψ) (n : Int) (s : Seg) :
    newBd2 ψ n s = ψ s.n0 s.n1 + (ψ s.n1 n - ψ s.n0 n) := by
  unfold newBd2 newTriOf
  split
  · next t ht =>
    split at ht
    · cases ht
    · simp only [Option.some.injEq] at ht; subst ht
      rw [triBd_eq]; simp only
      rw [hψ.swap s.n0 n]; abel
  · next ht =>
    split at ht
    · next hh =>
      simp only [Bool.or_eq_true, beq_iff_eq] at hh
      rcases hh with rfl | rfl
      · rw [hψ.diag, hψ.swap s.n0 s.n1]; abel
      · rw [hψ.diag]; abel
    · cases ht

theorem newTris_sum (ψ : Int → Int → G) (n : Int) (ss : List Seg) :
    ((ss.filterMap (newTriOf n)).map (triBd ψ)).sum = (ss.map (newBd2 ψ n)).sum := by
  induction ss with
  | nil => simp
  | cons f t ih =>
    simp only [List.filterMap_cons, List.map_cons, List.sum_cons]
    cases h : newTriOf n f with
    | none => simp only [newBd2, h, zero_add]; exact ih
    | some x => simp only [newBd2, h, List.map_cons, List.sum_cons, ih]

/-- the coboundary `ψ'(a,b) = ψ(b,n) − ψ(a,n)` of the 0-cochain `v ↦ ψ(v,n)` -/
def cob (ψ : Int → Int → G) (n : Int) (a b : Int) : G := ψ b n - ψ a n

theorem cob_alt (ψ : Int → Int → G) (n : Int) : Alt2 (cob ψ n) :=
  ⟨fun a b => by simp only [cob]; abel, fun a => by simp [cob]⟩

theorem triBd_cob (ψ : Int → Int → G) (n : Int) (t : Tri) : triBd (cob ψ n) t = 0 := by
  rw [triBd_eq]; simp only [cob]; abel

/-- core of the 2-D theorem: if the live segs are the signed boundary of the listed tris for EVERY alternating
    cochain, the new tris have the same signed boundary as the listed tris -/
theorem replace_chain_core_2d {α : Type} {ψ : Int → Int → G} (hψ : Alt2 ψ) (g : Grid α) (n : Int)
    (ss : List Seg) (cells : List Int)
    (hchain : ∀ χ : Int → Int → G, Alt2 χ → segSum χ ss = (cells.map (triBdAt χ g)).sum) :
    ((ss.filterMap (newTriOf n)).map (triBd ψ)).sum = (cells.map (triBdAt ψ g)).sum := by
  rw [newTris_sum]
  have h1 : (ss.map (newBd2 ψ n)).sum = segSum ψ ss + segSum (cob ψ n) ss := by
    simp only [segSum]
    rw [← List.sum_map_add]
    congr 1
    apply List.map_congr_left
    intro s _
    rw [newBd2_eq hψ]; rfl
  rw [h1, hchain ψ hψ, hchain (cob ψ n) (cob_alt ψ n)]
  have hz : (cells.map (triBdAt (cob ψ n) g)).sum = 0 := by
    apply List.sum_eq_zero
    intro x hx
    simp only [List.mem_map] at hx
    obtain ⟨cell, _, rfl⟩ := hx
    unfold triBdAt
    cases g.tris.get? cell with
    | none => rfl
    | some t => exact triBd_cob ψ n t
  rw [hz, add_zero]

end Refine.Lemmas.Cavity
