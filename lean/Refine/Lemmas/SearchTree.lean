import Refine.Model.Search
import Refine.Lemmas.ScalarReal
import Mathlib.Analysis.InnerProductSpace.PiL2

/-!
  Lemmas for C12, tree part: Euclidean distance on `V3 ℝ`, the ball invariant of the sphere tree,
  exactness of `touching`, `nearestWith`, `trim` (exact arithmetic, `α := ℝ`).
-/
namespace Refine.Lemmas.Search
open Refine Refine.Model.Geom Refine.Model.Search Refine.ScalarReal

/-- squared Euclidean distance -/
def sqd (a b : V3 ℝ) : ℝ := (a.x - b.x) ^ 2 + (a.y - b.y) ^ 2 + (a.z - b.z) ^ 2

/-- Euclidean distance on `V3 ℝ` -/
noncomputable def edist (a b : V3 ℝ) : ℝ := Real.sqrt (sqd a b)

theorem sqd_nonneg (a b : V3 ℝ) : 0 ≤ sqd a b := by unfold sqd; positivity
theorem sqd_comm (a b : V3 ℝ) : sqd a b = sqd b a := by unfold sqd; ring
theorem edist_nonneg (a b : V3 ℝ) : 0 ≤ edist a b := Real.sqrt_nonneg _
theorem edist_comm (a b : V3 ℝ) : edist a b = edist b a := by unfold edist; rw [sqd_comm]
theorem edist_sq (a b : V3 ℝ) : edist a b ^ 2 = sqd a b := Real.sq_sqrt (sqd_nonneg a b)
theorem edist_self (a : V3 ℝ) : edist a a = 0 := by unfold edist sqd; simp

theorem edist_le_iff (a b c d : V3 ℝ) : edist a b ≤ edist c d ↔ sqd a b ≤ sqd c d :=
  Real.sqrt_le_sqrt_iff (sqd_nonneg c d)

theorem edist_le_of_sqd_le {a b c d : V3 ℝ} (h : sqd a b ≤ sqd c d) : edist a b ≤ edist c d :=
  Real.sqrt_le_sqrt h

/-- the bridge into Mathlib's Euclidean space, used only for the triangle inequality -/
noncomputable def toE (a : V3 ℝ) : EuclideanSpace ℝ (Fin 3) := !₂[a.x, a.y, a.z]

theorem edist_eq_dist (a b : V3 ℝ) : edist a b = dist (toE a) (toE b) := by
  unfold edist sqd toE
  rw [EuclideanSpace.dist_eq, Fin.sum_univ_three]
  simp [Real.dist_eq, sq_abs]

theorem edist_triangle (a b c : V3 ℝ) : edist a c ≤ edist a b + edist b c := by
  rw [edist_eq_dist, edist_eq_dist, edist_eq_dist]; exact dist_triangle _ _ _

/-- the model's distance loop is the Euclidean distance -/
theorem dist0_eq (a b : V3 ℝ) : dist0 a b = edist a b := by
  unfold dist0 edist sqd
  simp only [add_eq, sub_eq, mul_eq, sqrt_eq, zero_eq]
  congr 1; ring

/-! ## the ball invariant -/

/-- for every node `p` and every descendant `q`: `dist c_p c_q + r_q ≤ children_ball_p` -/
def BallInv : STree ℝ → Prop
  | .nil => True
  | .node e ball l r => (∀ q ∈ l.pre ++ r.pre, edist e.pos q.pos + q.rad ≤ ball) ∧ BallInv l ∧ BallInv r

theorem ballUp_eq (c e : Entry ℝ) (ball : ℝ) :
    STree.ballUp c e ball = max ball (edist e.pos c.pos + c.rad) := by
  unfold STree.ballUp
  rw [cmax_eq, add_eq, dist0_eq, edist_comm]

theorem pre_leaf (c : Entry ℝ) : (STree.leaf c).pre = [c] := by simp [STree.leaf, STree.pre]

theorem BallInv_leaf (c : Entry ℝ) : BallInv (STree.leaf c) := by
  simp [STree.leaf, BallInv, STree.pre]

/-- the entries after an insert are the old ones plus the new one -/
theorem mem_pre_home (c : Entry ℝ) (t : STree ℝ) (q : Entry ℝ) :
    q ∈ (STree.home c t).pre ↔ q = c ∨ q ∈ t.pre := by
  fun_induction STree.home c t with
  | case1 => simp [STree.leaf, STree.pre]
  | case2 e ball r => simp [STree.leaf, STree.pre]; tauto
  | case3 e ball le lb ll lr => simp [STree.leaf, STree.pre]; tauto
  | case4 e ball le lb ll lr re rb rl rr h ih =>
    simp only [STree.pre, List.mem_cons, List.mem_append] at ih ⊢
    rw [ih]; tauto
  | case5 e ball le lb ll lr re rb rl rr h ih =>
    simp only [STree.pre, List.mem_cons, List.mem_append] at ih ⊢
    rw [ih]; tauto

/-- `ref_search_home` keeps the invariant: the ball of every node on the insertion path is enlarged to
    contain the new sphere, balls off the path are untouched -/
theorem home_BallInv (c : Entry ℝ) (t : STree ℝ) (h : BallInv t) : BallInv (STree.home c t) := by
  fun_induction STree.home c t with
  | case1 => exact BallInv_leaf c
  | case2 e ball r =>
    obtain ⟨hq, _, hr⟩ := h
    refine ⟨?_, BallInv_leaf c, hr⟩
    intro q hq'
    rw [ballUp_eq]
    simp only [pre_leaf, List.mem_append, List.mem_cons, List.not_mem_nil, or_false] at hq'
    rcases hq' with rfl | hq'
    · exact le_max_right _ _
    · exact le_trans (hq q (by simp [STree.pre, hq'])) (le_max_left _ _)
  | case3 e ball le lb ll lr =>
    obtain ⟨hq, hl, _⟩ := h
    refine ⟨?_, hl, BallInv_leaf c⟩
    intro q hq'
    rw [ballUp_eq]
    simp only [pre_leaf, List.mem_append, List.mem_cons, List.not_mem_nil, or_false] at hq'
    rcases hq' with hq' | rfl
    · exact le_trans (hq q (by simp [STree.pre] at hq' ⊢; tauto)) (le_max_left _ _)
    · exact le_max_right _ _
  | case4 e ball le lb ll lr re rb rl rr hlt ih =>
    obtain ⟨hq, hl, hr⟩ := h
    refine ⟨?_, ih hl, hr⟩
    intro q hq'
    rw [ballUp_eq]
    rw [List.mem_append, mem_pre_home] at hq'
    rcases hq' with (rfl | hq') | hq'
    · exact le_max_right _ _
    · exact le_trans (hq q (List.mem_append.mpr (Or.inl hq'))) (le_max_left _ _)
    · exact le_trans (hq q (List.mem_append.mpr (Or.inr hq'))) (le_max_left _ _)
  | case5 e ball le lb ll lr re rb rl rr hlt ih =>
    obtain ⟨hq, hl, hr⟩ := h
    refine ⟨?_, hl, ih hr⟩
    intro q hq'
    rw [ballUp_eq]
    rw [List.mem_append, mem_pre_home] at hq'
    rcases hq' with hq' | rfl | hq'
    · exact le_trans (hq q (List.mem_append.mpr (Or.inl hq'))) (le_max_left _ _)
    · exact le_max_right _ _
    · exact le_trans (hq q (List.mem_append.mpr (Or.inr hq'))) (le_max_left _ _)

/-- a query farther than `ball + ρ` from a node centre misses every descendant sphere by more than `ρ` -/
theorem far_from_descendants {e : Entry ℝ} {ball : ℝ} {l r : STree ℝ} (h : BallInv (.node e ball l r))
    (x : V3 ℝ) (q : Entry ℝ) (hq : q ∈ l.pre ++ r.pre) :
    edist e.pos x - ball ≤ edist q.pos x - q.rad := by
  have h1 := h.1 q hq
  have h2 := edist_triangle e.pos q.pos x
  linarith

/-! ## touching -/

theorem touching_eq (x : V3 ℝ) (rho : ℝ) (t : STree ℝ) (acc : List Int) (h : BallInv t) :
    t.touching x rho acc =
      acc ++ ((t.pre.filter (fun e => decide (edist e.pos x ≤ e.rad + rho))).map (·.item)) := by
  induction t generalizing acc with
  | nil => simp [STree.touching, STree.pre]
  | node e ball l r ihl ihr =>
    have hl := ihl (h := h.2.1)
    have hr := ihr (h := h.2.2)
    simp only [STree.touching, dist0_eq, add_eq, sub_eq]
    by_cases h2 : edist e.pos x - rho ≤ ball
    · rw [if_pos ((le_iff _ _).mpr h2), hr, hl]
      by_cases h1 : edist e.pos x ≤ e.rad + rho
      · rw [if_pos ((le_iff _ _).mpr h1)]
        simp [STree.pre, h1, List.filter_append]
      · rw [if_neg (fun hh => h1 ((le_iff _ _).mp hh))]
        simp [STree.pre, h1, List.filter_append]
    · rw [if_neg (fun hh => h2 ((le_iff _ _).mp hh))]
      have hnone : (l.pre ++ r.pre).filter (fun e => decide (edist e.pos x ≤ e.rad + rho)) = [] := by
        rw [List.filter_eq_nil_iff]
        intro q hq
        have := far_from_descendants h x q hq
        simp only [decide_eq_true_eq, not_le]
        linarith [not_le.mp h2]
      by_cases h1 : edist e.pos x ≤ e.rad + rho
      · rw [if_pos ((le_iff _ _).mpr h1)]
        simp [STree.pre, h1, hnone]
      · rw [if_neg (fun hh => h1 ((le_iff _ _).mp hh))]
        simp [STree.pre, h1, hnone]

/-! ## nearest element -/

theorem foldl_min_of_le (L : List ℝ) (d : ℝ) (h : ∀ v ∈ L, d ≤ v) : L.foldl min d = d := by
  induction L generalizing d with
  | nil => rfl
  | cons v L ih =>
    rw [List.foldl_cons, min_eq_left (h v (by simp))]
    exact ih d (fun w hw => h w (by simp [hw]))

theorem foldl_min_le_init (L : List ℝ) (d : ℝ) : L.foldl min d ≤ d := by
  induction L generalizing d with
  | nil => exact le_refl _
  | cons v L ih => exact le_trans (ih _) (min_le_left _ _)

theorem foldl_min_le_mem (L : List ℝ) (d : ℝ) (v : ℝ) (hv : v ∈ L) : L.foldl min d ≤ v := by
  induction L generalizing d with
  | nil => simp at hv
  | cons w L ih =>
    rw [List.foldl_cons]
    rcases List.mem_cons.mp hv with rfl | hv
    · exact le_trans (foldl_min_le_init _ _) (min_le_right _ _)
    · exact ih _ hv

theorem foldl_min_mem (L : List ℝ) (d : ℝ) : L.foldl min d = d ∨ L.foldl min d ∈ L := by
  induction L generalizing d with
  | nil => left; rfl
  | cons w L ih =>
    rw [List.foldl_cons]
    rcases ih (min d w) with h | h
    · rw [h]
      rcases min_choice d w with h' | h'
      · left; exact h'
      · right; rw [h']; simp
    · right; exact List.mem_cons_of_mem _ h

/-- branch-and-bound over the tree computes the plain running minimum over all entries, provided every
    element distance is bounded below by the distance to its sphere -/
theorem nearestWith_eq (ed : Int → ℝ) (x : V3 ℝ) (t : STree ℝ) (d : ℝ) (h : BallInv t)
    (hs : ∀ e ∈ t.pre, edist e.pos x - e.rad ≤ ed e.item) :
    t.nearestWith ed x d = (t.pre.map (fun e => ed e.item)).foldl min d := by
  induction t generalizing d with
  | nil => simp [STree.nearestWith, STree.pre]
  | node e ball l r ihl ihr =>
    have hsl : ∀ q ∈ l.pre, edist q.pos x - q.rad ≤ ed q.item :=
      fun q hq => hs q (by simp [STree.pre, hq])
    have hsr : ∀ q ∈ r.pre, edist q.pos x - q.rad ≤ ed q.item :=
      fun q hq => hs q (by simp [STree.pre, hq])
    have he := hs e (by simp [STree.pre])
    simp only [STree.nearestWith, dist0_eq, sub_eq, Scalar.bge]
    have hd1 : (if (edist e.pos x - e.rad <=. d) = true then Scalar.cmin d (ed e.item) else d)
        = min d (ed e.item) := by
      by_cases h1 : edist e.pos x - e.rad ≤ d
      · rw [if_pos ((le_iff _ _).mpr h1), cmin_eq]
      · rw [if_neg (fun hh => h1 ((le_iff _ _).mp hh))]
        exact (min_eq_left (by linarith [not_le.mp h1])).symm
    rw [hd1]
    simp only [STree.pre, List.map_cons, List.foldl_cons, List.map_append, List.foldl_append]
    by_cases h2 : edist e.pos x - ball ≤ min d (ed e.item)
    · rw [if_pos ((le_iff _ _).mpr h2), ihr _ h.2.2 hsr, ihl _ h.2.1 hsl]
    · rw [if_neg (fun hh => h2 ((le_iff _ _).mp hh))]
      have hall : ∀ v ∈ (l.pre ++ r.pre).map (fun e => ed e.item), min d (ed e.item) ≤ v := by
        intro v hv
        obtain ⟨q, hq, rfl⟩ := List.mem_map.mp hv
        have h3 := far_from_descendants h x q hq
        have h4 : edist q.pos x - q.rad ≤ ed q.item := hs q (by
          simp only [STree.pre, List.mem_cons]; right; exact hq)
        linarith [not_le.mp h2]
      have := foldl_min_of_le _ _ hall
      rw [List.map_append, List.foldl_append] at this
      exact this.symm

/-! ## trim radius -/

/-- `ref_search_trim` computes `min(t, min_i (dist_i + r_i))` when no radius is negative -/
theorem trim_eq (x : V3 ℝ) (t : STree ℝ) (d : ℝ) (h : BallInv t) (hr : ∀ e ∈ t.pre, 0 ≤ e.rad) :
    t.trim x d = (t.pre.map (fun e => edist e.pos x + e.rad)).foldl min d := by
  induction t generalizing d with
  | nil => simp [STree.trim, STree.pre]
  | node e ball l r ihl ihr =>
    have hrl : ∀ q ∈ l.pre, 0 ≤ q.rad := fun q hq => hr q (by simp [STree.pre, hq])
    have hrr : ∀ q ∈ r.pre, 0 ≤ q.rad := fun q hq => hr q (by simp [STree.pre, hq])
    simp only [STree.trim, dist0_eq, sub_eq, add_eq, Scalar.bgt]
    have hd1 : (if (edist e.pos x + e.rad <. d) = true then edist e.pos x + e.rad else d)
        = min d (edist e.pos x + e.rad) := by
      by_cases h1 : edist e.pos x + e.rad < d
      · rw [if_pos ((lt_iff _ _).mpr h1)]; exact (min_eq_right h1.le).symm
      · rw [if_neg (fun hh => h1 ((lt_iff _ _).mp hh))]; exact (min_eq_left (not_lt.mp h1)).symm
    rw [hd1]
    simp only [STree.pre, List.map_cons, List.foldl_cons, List.map_append, List.foldl_append]
    by_cases h2 : edist e.pos x - ball < min d (edist e.pos x + e.rad)
    · rw [if_pos ((lt_iff _ _).mpr h2), ihr _ h.2.2 hrr, ihl _ h.2.1 hrl]
    · rw [if_neg (fun hh => h2 ((lt_iff _ _).mp hh))]
      have hall : ∀ v ∈ (l.pre ++ r.pre).map (fun e => edist e.pos x + e.rad),
          min d (edist e.pos x + e.rad) ≤ v := by
        intro v hv
        obtain ⟨q, hq, rfl⟩ := List.mem_map.mp hv
        have h3 := far_from_descendants h x q hq
        have h4 : 0 ≤ q.rad := hr q (by simp only [STree.pre, List.mem_cons]; right; exact hq)
        linarith [not_lt.mp h2]
      have := foldl_min_of_le _ _ hall
      rw [List.map_append, List.foldl_append] at this
      exact this.symm

end Refine.Lemmas.Search
