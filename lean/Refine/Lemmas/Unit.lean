import Refine.Model.Unit
import Refine.Lemmas.ScalarReal
import Refine.Props.C15

/-! helper lemmas for `Props/C03.lean` (instance `ℝ` of `Refine.Model.Unit`) -/
namespace Refine.UnitReal
open Refine Refine.Model.Geom Refine.Model.Unit Refine.ScalarReal

theorem inBand_iff (a : Adapt ℝ) (r : ℝ) : inBand a r = true ↔ a.postMin ≤ r ∧ r ≤ a.postMax := by
  unfold inBand
  simp only [Bool.not_eq_true', Bool.or_eq_false_iff, lt_false_iff]

theorem bandOk_iff (a : Adapt ℝ) (mn mx : ℝ) : bandOk a mn mx = true ↔ a.postMin ≤ mn ∧ mx ≤ a.postMax := by
  unfold bandOk
  simp only [Bool.and_eq_true, le_iff]

theorem foldMin_eq (init : ℝ) (rs : List ℝ) : foldMin init rs = rs.foldl min init := by
  unfold foldMin
  induction rs generalizing init with
  | nil => rfl
  | cons r rest ih => simp only [List.foldl_cons, cmin_eq]

theorem foldMax_eq (init : ℝ) (rs : List ℝ) : foldMax init rs = rs.foldl max init := by
  unfold foldMax
  induction rs generalizing init with
  | nil => rfl
  | cons r rest ih => simp only [List.foldl_cons, cmax_eq]

theorem foldl_min_le_init (init : ℝ) (rs : List ℝ) : rs.foldl min init ≤ init := by
  induction rs generalizing init with
  | nil => exact le_refl _
  | cons r rest ih => exact (ih _).trans (min_le_left _ _)

theorem foldl_min_le_mem (init : ℝ) (rs : List ℝ) {r : ℝ} (h : r ∈ rs) : rs.foldl min init ≤ r := by
  induction rs generalizing init with
  | nil => cases h
  | cons x rest ih =>
    rcases List.mem_cons.mp h with rfl | h'
    · exact (foldl_min_le_init (min init r) rest).trans (min_le_right _ _)
    · exact ih _ h'

theorem foldl_min_mem_or (init : ℝ) (rs : List ℝ) : rs.foldl min init = init ∨ rs.foldl min init ∈ rs := by
  induction rs generalizing init with
  | nil => exact Or.inl rfl
  | cons x rest ih =>
    rcases ih (min init x) with h | h
    · rcases min_choice init x with h2 | h2
      · left; simp only [List.foldl_cons]; rw [h, h2]
      · right; simp only [List.foldl_cons]; rw [h, h2]; exact List.mem_cons_self
    · right; exact List.mem_cons_of_mem _ h

theorem init_le_foldl_max (init : ℝ) (rs : List ℝ) : init ≤ rs.foldl max init := by
  induction rs generalizing init with
  | nil => exact le_refl _
  | cons r rest ih => exact (le_max_left _ _).trans (ih _)

theorem mem_le_foldl_max (init : ℝ) (rs : List ℝ) {r : ℝ} (h : r ∈ rs) : r ≤ rs.foldl max init := by
  induction rs generalizing init with
  | nil => cases h
  | cons x rest ih =>
    rcases List.mem_cons.mp h with rfl | h'
    · exact (le_max_right _ _).trans (init_le_foldl_max (max init r) rest)
    · exact ih _ h'

theorem foldl_max_mem_or (init : ℝ) (rs : List ℝ) : rs.foldl max init = init ∨ rs.foldl max init ∈ rs := by
  induction rs generalizing init with
  | nil => exact Or.inl rfl
  | cons x rest ih =>
    rcases ih (max init x) with h | h
    · rcases max_choice init x with h2 | h2
      · left; simp only [List.foldl_cons]; rw [h, h2]
      · right; simp only [List.foldl_cons]; rw [h, h2]; exact List.mem_cons_self
    · right; exact List.mem_cons_of_mem _ h

/-- `minMax` brackets every element -/
theorem minMax_bounds {rs : List ℝ} {mn mx : ℝ} (h : minMax rs = some (mn, mx)) {r : ℝ} (hr : r ∈ rs) :
    mn ≤ r ∧ r ≤ mx := by
  cases rs with
  | nil => cases hr
  | cons x rest =>
    simp only [minMax, Option.some.injEq, Prod.mk.injEq] at h
    obtain ⟨h1, h2⟩ := h
    subst h1 h2
    rw [foldMin_eq, foldMax_eq]
    rcases List.mem_cons.mp hr with rfl | h'
    · exact ⟨foldl_min_le_init _ _, init_le_foldl_max _ _⟩
    · exact ⟨foldl_min_le_mem _ _ h', mem_le_foldl_max _ _ h'⟩

/-! ### membership in the measured edge lists -/

theorem mem_subst {o n x : Nat} {c : Cell} : x ∈ subst o n c ↔ (x = n ∧ o ∈ c) ∨ (x ∈ c ∧ x ≠ o) := by
  unfold subst
  simp only [List.mem_map]
  constructor
  · rintro ⟨y, hy, rfl⟩
    by_cases h : y = o
    · subst h; left; simp [hy]
    · right; simp [h, hy]
  · rintro (⟨rfl, ho⟩ | ⟨hx, hne⟩)
    · exact ⟨o, ho, by simp⟩
    · exact ⟨x, hx, by simp [hne]⟩

theorem mem_edgesAt {v p q : Nat} {c : Cell} : (p, q) ∈ edgesAt v c ↔ p = v ∧ q ∈ c ∧ q ≠ v := by
  unfold edgesAt
  simp only [List.mem_map, List.mem_filter, Prod.mk.injEq, decide_eq_true_eq]
  constructor
  · rintro ⟨x, ⟨hx, hne⟩, rfl, rfl⟩; exact ⟨rfl, hx, hne⟩
  · rintro ⟨rfl, hq, hne⟩; exact ⟨q, ⟨hq, hne⟩, rfl, rfl⟩

theorem onEdge_iff {n0 n1 : Nat} {c : Cell} : onEdge n0 n1 c = true ↔ n0 ∈ c ∧ n1 ∈ c := by
  unfold onEdge
  simp only [Bool.and_eq_true, List.contains_iff_mem]

theorem mem_splitTested {cells : List Cell} {n0 n1 nw : Nat} {e : Nat × Nat} :
    e ∈ splitTested cells n0 n1 nw ↔
      ∃ c ∈ cells, n0 ∈ c ∧ n1 ∈ c ∧ (e ∈ edgesAt nw (subst n0 nw c) ∨ e ∈ edgesAt nw (subst n1 nw c)) := by
  unfold splitTested
  simp only [List.mem_flatMap, List.mem_filter, onEdge_iff, List.mem_append]
  constructor
  · rintro ⟨c, ⟨hc, h0, h1⟩, h⟩; exact ⟨c, hc, h0, h1, h⟩
  · rintro ⟨c, hc, h0, h1, h⟩; exact ⟨c, ⟨hc, h0, h1⟩, h⟩

theorem mem_aroundEdges {cells : List Cell} {n : Nat} {e : Nat × Nat} :
    e ∈ aroundEdges cells n ↔ ∃ c ∈ cells, n ∈ c ∧ e ∈ edgesAt n c := by
  unfold aroundEdges
  simp only [List.mem_flatMap, List.mem_filter, List.contains_iff_mem]
  constructor
  · rintro ⟨c, ⟨hc, hn⟩, h⟩; exact ⟨c, hc, hn, h⟩
  · rintro ⟨c, hc, hn, h⟩; exact ⟨c, ⟨hc, hn⟩, h⟩

theorem mem_collapseOld {cells : List Cell} {n1 : Nat} {e : Nat × Nat} :
    e ∈ collapseOld cells n1 ↔ ∃ c ∈ cells, n1 ∈ c ∧ e ∈ edgesAt n1 c := mem_aroundEdges

theorem mem_collapseNew {cells : List Cell} {n0 n1 : Nat} {e : Nat × Nat} :
    e ∈ collapseNew cells n0 n1 ↔ ∃ c ∈ cells, n1 ∈ c ∧ n0 ∉ c ∧ e.1 = n0 ∧ e.2 ∈ c ∧ e.2 ≠ n1 := by
  unfold collapseNew
  simp only [List.mem_flatMap, List.mem_filter, Bool.and_eq_true, List.contains_iff_mem, Bool.not_eq_true',
    List.mem_map, decide_eq_true_eq]
  constructor
  · rintro ⟨c, ⟨hc, h1, h0⟩, x, ⟨hx, hne⟩, rfl⟩
    refine ⟨c, hc, h1, ?_, rfl, hx, hne⟩
    intro hm
    rw [← List.contains_iff_mem] at hm
    rw [hm] at h0
    cases h0
  · rintro ⟨c, hc, h1, h0, he1, he2, hne⟩
    refine ⟨c, ⟨hc, h1, ?_⟩, e.2, ⟨he2, hne⟩, ?_⟩
    · cases hcon : c.contains n0
      · rfl
      · exact absurd (List.contains_iff_mem.mp hcon) h0
    · rw [← he1]

/-- `ref_node_ratio` depends on the two end points only -/
theorem nodeRatio_local {vs vs' : Nat → Vert ℝ} {a b : Nat} (ha : vs a = vs' a) (hb : vs b = vs' b) :
    nodeRatio vs a b = nodeRatio vs' a b := by
  unfold nodeRatio
  rw [ha, hb]

theorem nodeRatio_symm (vs : Nat → Vert ℝ) (a b : Nat) : nodeRatio vs a b = nodeRatio vs b a := by
  unfold nodeRatio
  exact Refine.Props.C15.ratio_symm _ _ _ _

theorem setVert_ne {vs : Nat → Vert ℝ} {n i : Nat} {v : Vert ℝ} (h : i ≠ n) : setVert vs n v i = vs i := by
  unfold setVert
  rw [if_neg h]

end Refine.UnitReal
