import Refine.Model.Collapse
import Refine.Lemmas.GuardsRules
import Refine.Lemmas.CavityChain
import Refine.Lemmas.CavityReplace
import Mathlib.Tactic.Abel

/-!
  Lemmas for `Props/C13Collapse.lean`: the edge collapse `node1 ↦ node0` as a simplicial map.

  `sig n0 n1` is the vertex map; `(φ ∘ σ)` of an alternating, diagonal-free `φ` is again alternating and
  diagonal-free; a tet / tri with a repeated vertex has zero signed boundary / value; hence the signed boundary of the
  collapsed groups under `φ` is the signed boundary of the input groups under `φ ∘ σ`.
-/
namespace Refine.Lemmas.Collapse
open Refine Refine.Model Refine.Model.Guards Refine.Model.Cavity Refine.Lemmas.Cavity Refine.GuardsRules

variable {G : Type} [AddCommGroup G]

/-- the vertex map of the collapse on node numbers -/
def sig (n0 n1 : Nat) (v : Int) : Int := if v = (n1 : Int) then (n0 : Int) else v

/-- `φ ∘ σ` -/
def pull (φ : Int → Int → Int → G) (n0 n1 : Nat) : Int → Int → Int → G :=
  fun a b c => φ (sig n0 n1 a) (sig n0 n1 b) (sig n0 n1 c)

theorem pull_alt {φ : Int → Int → Int → G} (hφ : Alt φ) (n0 n1 : Nat) : Alt (pull φ n0 n1) :=
  ⟨fun _ _ _ => hφ.rot _ _ _, fun _ _ _ => hφ.swap _ _ _⟩

theorem pull_diag {φ : Int → Int → Int → G} (hd : Diag φ) (n0 n1 : Nat) : Diag (pull φ n0 n1) :=
  fun _ _ => hd _ _

/-- the oriented tet of a cell row -/
def tetOf (c : Cell) : Tet := ⟨(c.nd 0 : Int), (c.nd 1 : Int), (c.nd 2 : Int), (c.nd 3 : Int)⟩

/-- signed boundary of one tet cell -/
def cellBd (φ : Int → Int → Int → G) (c : Cell) : G := faceSum φ (tetFaces (tetOf c))

/-- value of one boundary triangle -/
def triVal (φ : Int → Int → Int → G) (c : Cell) : G := φ (c.nd 0 : Int) (c.nd 1 : Int) (c.nd 2 : Int)

/-- `Σ_tets ∂φ − Σ_tris φ` of a `Guards.Grid` (the `meshBd` of `Props/C01` on the list model of the guards) -/
def gridBd (φ : Int → Int → Int → G) (g : Grid) : G :=
  (g.tet.map (cellBd φ)).sum - (g.tri.map (triVal φ)).sum

theorem diag1 {φ : Int → Int → Int → G} (hφ : Alt φ) (hd : Diag φ) (a b : Int) : φ a b a = 0 := by
  rw [hφ.rot a a b]; exact hd a b

theorem diag2 {φ : Int → Int → Int → G} (hφ : Alt φ) (hd : Diag φ) (a b : Int) : φ b a a = 0 := by
  rw [hφ.rot a b a]; exact diag1 hφ hd a b

/-- a tet with a repeated vertex has zero signed boundary -/
theorem tetBd_deg {φ : Int → Int → Int → G} (hφ : Alt φ) (hd : Diag φ) (a b c d : Int)
    (h : a = b ∨ a = c ∨ a = d ∨ b = c ∨ b = d ∨ c = d) : faceSum φ (tetFaces ⟨a, b, c, d⟩) = 0 := by
  have z0 := hd
  have z1 := diag1 hφ hd
  have z2 := diag2 hφ hd
  rw [tetFaces_eq]
  simp only [faceSum, φF, List.map_cons, List.map_nil, List.sum_cons, List.sum_nil]
  rcases h with h | h | h | h | h | h <;> subst h
  · rw [z1, z0, hφ.swap12 a c d]; abel
  · rw [z0, z1, hφ.rot a b d, hφ.swap12 a b d]; abel
  · rw [z1, z0, hφ.swap a b c]; abel
  · rw [z1, z2, hφ.swap12 a b d]; abel
  · rw [z0, z2, hφ.swap12 a b c]; abel
  · rw [z2, z2, hφ.swap12 a b c]; abel

theorem cast_subst (n0 n1 n : Nat) : (((if n == n1 then n0 else n : Nat)) : Int) = sig n0 n1 (n : Int) := by
  unfold sig
  by_cases h : n = n1
  · subst h; simp
  · have : (n : Int) ≠ (n1 : Int) := fun e => h (Int.ofNat_inj.mp e)
    simp [h, this]

theorem subst_nd (n0 n1 : Nat) (c : Cell) (k : Nat) (hk : k < c.nodes.length) :
    (((Cell.subst n1 n0 c).nd k : Nat) : Int) = sig n0 n1 (c.nd k : Int) := by
  unfold Cell.subst Cell.nd
  simp only
  have h1 : (List.map (fun n => if (n == n1) = true then n0 else n) c.nodes).getD k 0 =
      (fun n => if (n == n1) = true then n0 else n) (c.nodes.getD k 0) := by
    simp [List.getD_eq_getElem?_getD, List.getElem?_map, List.getElem?_eq_getElem hk]
  rw [h1]
  exact cast_subst n0 n1 _

/-- `∂φ (σ c) = ∂(φ∘σ) c` for a tet row -/
theorem cellBd_subst (φ : Int → Int → Int → G) (n0 n1 : Nat) (c : Cell) (h4 : c.nodes.length = 4) :
    cellBd φ (Cell.subst n1 n0 c) = cellBd (pull φ n0 n1) c := by
  unfold cellBd tetOf
  rw [subst_nd n0 n1 c 0 (by omega), subst_nd n0 n1 c 1 (by omega), subst_nd n0 n1 c 2 (by omega),
    subst_nd n0 n1 c 3 (by omega), tetFaces_eq, tetFaces_eq]
  simp only [faceSum, φF, pull, List.map_cons, List.map_nil]

theorem triVal_subst (φ : Int → Int → Int → G) (n0 n1 : Nat) (c : Cell) (h3 : c.nodes.length = 3) :
    triVal φ (Cell.subst n1 n0 c) = triVal (pull φ n0 n1) c := by
  unfold triVal
  rw [subst_nd n0 n1 c 0 (by omega), subst_nd n0 n1 c 1 (by omega), subst_nd n0 n1 c 2 (by omega)]
  rfl

theorem sig_n0 (n0 n1 : Nat) : sig n0 n1 (n0 : Int) = (n0 : Int) := by
  unfold sig; split <;> simp_all

theorem sig_n1 (n0 n1 : Nat) : sig n0 n1 (n1 : Int) = (n0 : Int) := by
  unfold sig; simp

/-- a tet row that contains both ends of the edge has zero signed boundary under `φ ∘ σ` -/
theorem cellBd_both {φ : Int → Int → Int → G} (hφ : Alt φ) (hd : Diag φ) (n0 n1 : Nat) (hne : n0 ≠ n1) (c : Cell)
    (h4 : c.nodes.length = 4) (h0 : n0 ∈ c.nodes) (h1 : n1 ∈ c.nodes) : cellBd (pull φ n0 n1) c = 0 := by
  obtain ⟨ns, id⟩ := c
  match ns, h4 with
  | [a, b, c', d], _ =>
    unfold cellBd tetOf Cell.nd
    simp only [List.getD_cons_zero, List.getD_cons_succ]
    have e : faceSum (pull φ n0 n1) (tetFaces ⟨(a : Int), (b : Int), (c' : Int), (d : Int)⟩) =
        faceSum φ (tetFaces ⟨sig n0 n1 a, sig n0 n1 b, sig n0 n1 c', sig n0 n1 d⟩) := by
      rw [tetFaces_eq, tetFaces_eq]; simp only [faceSum, φF, pull, List.map_cons, List.map_nil]
    rw [e]
    apply tetBd_deg hφ hd
    simp only [List.mem_cons, List.not_mem_nil, or_false] at h0 h1
    rcases h0 with rfl | rfl | rfl | rfl <;> rcases h1 with rfl | rfl | rfl | rfl <;>
      first
        | exact absurd rfl hne
        | simp [sig_n0, sig_n1]

theorem triVal_both {φ : Int → Int → Int → G} (hφ : Alt φ) (hd : Diag φ) (n0 n1 : Nat) (hne : n0 ≠ n1) (c : Cell)
    (h3 : c.nodes.length = 3) (h0 : n0 ∈ c.nodes) (h1 : n1 ∈ c.nodes) : triVal (pull φ n0 n1) c = 0 := by
  obtain ⟨ns, id⟩ := c
  match ns, h3 with
  | [a, b, c'], _ =>
    unfold triVal Cell.nd pull
    simp only [List.getD_cons_zero, List.getD_cons_succ]
    simp only [List.mem_cons, List.not_mem_nil, or_false] at h0 h1
    rcases h0 with rfl | rfl | rfl <;> rcases h1 with rfl | rfl | rfl <;>
      first
        | exact absurd rfl hne
        | (simp only [sig_n0, sig_n1]; first | exact hd _ _ | exact diag1 hφ hd _ _ | exact diag2 hφ hd _ _)

/-- sums over a collapsed group: cells with both ends contribute zero, the others are substituted -/
theorem sum_collapseGroup (val : (Int → Int → Int → G) → Cell → G) (φ : Int → Int → Int → G) (n0 n1 : Nat)
    (cells : List Cell)
    (hsub : ∀ c ∈ cells, val φ (Cell.subst n1 n0 c) = val (pull φ n0 n1) c)
    (hboth : ∀ c ∈ cells, n0 ∈ c.nodes → n1 ∈ c.nodes → val (pull φ n0 n1) c = 0) :
    ((collapseGroup cells n0 n1).map (val φ)).sum = (cells.map (val (pull φ n0 n1))).sum := by
  induction cells with
  | nil => simp [collapseGroup]
  | cons c cs ih =>
    have ih' := ih (fun x hx => hsub x (List.mem_cons_of_mem _ hx)) (fun x hx => hboth x (List.mem_cons_of_mem _ hx))
    unfold collapseGroup at ih' ⊢
    by_cases hb : (c.nodes.contains n0 && c.nodes.contains n1) = true
    · have hz : val (pull φ n0 n1) c = 0 := by
        simp only [Bool.and_eq_true, List.contains_iff_mem] at hb
        exact hboth c List.mem_cons_self hb.1 hb.2
      simp only [List.filter_cons, hb, Bool.not_true, Bool.false_eq_true, if_false, List.map_cons, List.sum_cons, hz,
        zero_add]
      exact ih'
    · simp only [List.filter_cons, hb, Bool.not_false, if_true, List.map_cons, List.sum_cons, ih',
        hsub c List.mem_cons_self, Bool.not_eq_true] at *

/-! ## membership facts -/

theorem mem_uniq_insert (x y : Nat) (l : List Nat) : y ∈ insertU x l ↔ y = x ∨ y ∈ l := by
  induction l with
  | nil => simp [insertU]
  | cons z zs ih =>
    unfold insertU
    split
    · simp
    · split
      · next h => subst h; simp
      · simp only [List.mem_cons, ih]; tauto

theorem mem_uniq (y : Nat) (l : List Nat) : y ∈ uniq l ↔ y ∈ l := by
  unfold uniq
  induction l with
  | nil => simp
  | cons x xs ih => simp only [List.foldr_cons, mem_uniq_insert, ih, List.mem_cons]

/-- `ref_cell_with` finds nothing: no cell of the group has the node set of `ns` -/
theorem cellWith_false {cells : List Cell} {ns : List Nat} (hne : ns ≠ []) (h : cellWith cells ns = false) :
    ∀ c ∈ cells, uniq c.nodes ≠ uniq ns := by
  intro c hc he
  unfold cellWith at h
  rw [List.any_eq_false] at h
  have hmem : ns.getD 0 0 ∈ c.nodes := by
    rw [← mem_uniq, he, mem_uniq]
    cases ns with
    | nil => exact absurd rfl hne
    | cons a as => simp
  have := h c (mem_having.mpr ⟨hc, hmem⟩)
  simp [he] at this

end Refine.Lemmas.Collapse
