import Refine.Model.Sol

/-!
  The chunk loop of the node-field readers (`Refine.Model.Sol.readLoop`) stores exactly what one pass over the whole
  row list stores, for every chunk size ≥ 1 and every rank count.
-/
namespace Refine.Lemmas.Sol
open Refine.Model.Meshb Refine.Model.Sol
open Refine.Model.Comm (World RefType writeAt bcast mpiBcast)

/-- `rd` reads rows sequentially from a stream whose remaining rows are `view s` -/
def RowStream {σ : Type} (rd : Nat → σ → Except Status (List Row × σ)) (view : σ → List Row) : Prop :=
  ∀ k s, k ≤ (view s).length → ∃ s', rd k s = .ok ((view s).take k, s') ∧ view s' = (view s).drop k

theorem scatterRows_append (dup : Bool) (nnode : Int) (gl : List Nat) (a b : List Row) (g : Int) (arr : List Row) :
    scatterRows dup nnode gl g (a ++ b) arr =
      scatterRows dup nnode gl (g + a.length) b (scatterRows dup nnode gl g a arr) := by
  induction a generalizing g arr with
  | nil => simp [scatterRows]
  | cons x xs ih =>
    simp only [List.cons_append, scatterRows, List.length_cons]
    rw [ih]
    congr 1
    push_cast
    omega

theorem take_writeAt_zero (buf rows : List Row) : (writeAt buf 0 rows).take rows.length = rows := by
  simp [writeAt]

theorem take_bcast_elem (chunk : Nat) (rows : List Row) (hd d : List Row) (hle : rows.length ≤ chunk)
    (hhd : hd.take rows.length = rows) :
    (writeAt d 0 (hd.take chunk)).take rows.length = rows := by
  have hlen : rows.length ≤ hd.length := by
    have := congrArg List.length hhd
    simp at this
    omega
  have h1 : rows.length ≤ (hd.take chunk).length := by simp; omega
  simp only [writeAt, List.take_zero, List.nil_append]
  rw [List.take_append_of_le_length h1, List.take_take, Nat.min_eq_left hle, hhd]

/-- what `ref_mpi_bcast` leaves in every rank's buffer starts with the rows rank 0 read -/
theorem bcast_rows (chunk : Nat) (rows : List Row) (buf0 : List Row) (rest : List (List Row))
    (hle : rows.length ≤ chunk) :
    ∀ x ∈ bcast RefType.dbl chunk (writeAt buf0 0 rows :: rest), x.1 = Refine.Model.Comm.Status.ok ∧
      x.2.take rows.length = rows := by
  intro x hx
  unfold bcast at hx
  split at hx
  · -- one rank
    rename_i h1
    have : rest = [] := by
      cases rest with
      | nil => rfl
      | cons a b => simp at h1
    subst this
    simp at hx
    subst hx
    exact ⟨rfl, take_writeAt_zero _ _⟩
  · have hm : RefType.dbl.mpiOk = true := rfl
    simp only [hm, Bool.not_true, Bool.false_eq_true, if_false, mpiBcast, List.mem_map] at hx
    obtain ⟨d, ⟨d0, _, rfl⟩, rfl⟩ := hx
    exact ⟨rfl, take_bcast_elem chunk rows _ d0 hle (take_writeAt_zero _ _)⟩

theorem length_bcast (ty : RefType) (n : Nat) (w : List (List Row)) : (bcast ty n w).length = w.length := by
  unfold bcast
  split
  · simp
  · split
    · simp
    · cases w <;> simp [mpiBcast]

/-- one pass of the loop body: every rank stores `rows` starting at global `read`; the globals do not change -/
theorem chunkStep_eq (dup : Bool) (nnode read : Int) (chunk : Nat) (rows : List Row) (w : World Rank)
    (hle : rows.length ≤ chunk) :
    ∃ w', chunkStep dup nnode read chunk rows w = .ok w' ∧
      w'.map (fun st => (st.globals, st.arr)) =
        w.map (fun st => (st.globals, scatterRows dup nnode st.globals read rows st.arr)) := by
  cases w with
  | nil => exact ⟨[], rfl, rfl⟩
  | cons st0 rest =>
    have hb := bcast_rows chunk rows st0.buf (rest.map (·.buf)) hle
    have hlen := length_bcast RefType.dbl chunk (writeAt st0.buf 0 rows :: rest.map (·.buf))
    simp only [chunkStep]
    have hany : (bcast RefType.dbl chunk (writeAt st0.buf 0 rows :: rest.map (·.buf))).any
        (fun x => x.1 != Refine.Model.Comm.Status.ok) = false := by
      rw [List.any_eq_false]
      intro x hx
      simp [(hb x hx).1]
    rw [hany]
    simp only [Bool.false_eq_true, if_false]
    refine ⟨_, rfl, ?_⟩
    rw [List.map_map]
    have hcongr : ∀ p ∈ (st0 :: rest).zip (bcast RefType.dbl chunk (writeAt st0.buf 0 rows :: rest.map (·.buf))),
        ((fun st : Rank => (st.globals, st.arr)) ∘ fun p : Rank × (Refine.Model.Comm.Status × List Row) =>
          ({ p.1 with buf := p.2.2,
                      arr := scatterRows dup nnode p.1.globals read (p.2.2.take rows.length) p.1.arr } : Rank)) p =
        (fun st : Rank => (st.globals, scatterRows dup nnode st.globals read rows st.arr)) p.1 := by
      intro p hp
      have := (hb p.2 (List.of_mem_zip hp).2).2
      simp [this]
    rw [List.map_congr_left hcongr]
    have hfun : (fun a : Rank × (Refine.Model.Comm.Status × List Row) =>
        (fun st : Rank => (st.globals, scatterRows dup nnode st.globals read rows st.arr)) a.fst) =
        (fun st : Rank => (st.globals, scatterRows dup nnode st.globals read rows st.arr)) ∘ Prod.fst := rfl
    rw [hfun, ← List.map_map, List.map_fst_zip]
    simp [hlen]

/-- **the chunk loop equals one pass**: for every chunk size ≥ 1 (and every rank count — `w` is arbitrary) the loop
    terminates with status ok and has stored on every rank rows `read, read+1, …, nnode-1` of the stream, each
    once, in order -/
theorem readLoop_eq {σ : Type} (rd : Nat → σ → Except Status (List Row × σ)) (view : σ → List Row)
    (hrd : RowStream rd view) (dup : Bool) (nnode chunk : Int) (hchunk : 1 ≤ chunk) :
    ∀ (fuel : Nat) (read : Int) (s : σ) (w : World Rank), 0 ≤ read → nnode - read < fuel →
      nnode - read ≤ (view s).length →
      ∃ w' s', readLoop dup nnode nnode chunk rd fuel read s w = .ok (w', s') ∧
        w'.map (fun st => (st.globals, st.arr)) =
          w.map (fun st => (st.globals,
            scatterRows dup nnode st.globals read ((view s).take (nnode - read).toNat) st.arr)) := by
  intro fuel
  induction fuel with
  | zero =>
    intro read s w h0 hf _
    have hlt : ¬ read < nnode := by omega
    unfold readLoop
    simp only [hlt, if_false]
    refine ⟨w, s, rfl, ?_⟩
    have : (nnode - read).toNat = 0 := by omega
    simp [this, scatterRows]
  | succ fuel ih =>
    intro read s w h0 hf hlen
    unfold readLoop
    by_cases hlt : read < nnode
    · simp only [hlt, if_true]
      have hsect : (min chunk (nnode - read)).toNat ≤ (view s).length := by omega
      obtain ⟨s1, hr, hv⟩ := hrd (min chunk (nnode - read)).toNat s hsect
      rw [hr]
      simp only
      have hle : ((view s).take (min chunk (nnode - read)).toNat).length ≤ chunk.toNat := by
        simp; omega
      obtain ⟨w1, hc, hw1⟩ := chunkStep_eq dup nnode read chunk.toNat ((view s).take (min chunk (nnode - read)).toNat) w hle
      rw [hc]
      simp only
      have hpos : 1 ≤ min chunk (nnode - read) := by omega
      obtain ⟨w2, s2, h2, hw2⟩ := ih (read + min chunk (nnode - read)) s1 w1 (by omega) (by omega)
        (by rw [hv]; simp; omega)
      refine ⟨w2, s2, h2, ?_⟩
      rw [hw2]
      -- rewrite the maps over w1 into maps over w
      have key : ∀ (f : List Nat → List Row → List Row),
          w1.map (fun st => (st.globals, f st.globals st.arr)) =
          (w1.map (fun st => (st.globals, st.arr))).map (fun p => (p.1, f p.1 p.2)) := by
        intro f; rw [List.map_map]; rfl
      rw [key (fun gl arr => scatterRows dup nnode gl (read + min chunk (nnode - read))
            ((view s1).take (nnode - (read + min chunk (nnode - read))).toNat) arr), hw1, List.map_map]
      apply List.map_congr_left
      intro st _
      simp only [Function.comp]
      congr 1
      have hsplit : (view s).take (nnode - read).toNat =
          (view s).take (min chunk (nnode - read)).toNat ++
            ((view s).drop (min chunk (nnode - read)).toNat).take (nnode - (read + min chunk (nnode - read))).toNat := by
        have : (nnode - read).toNat =
            (min chunk (nnode - read)).toNat + (nnode - (read + min chunk (nnode - read))).toNat := by omega
        rw [this, List.take_add]
      rw [hsplit, scatterRows_append, hv]
      congr 1
      simp
      omega
    · simp only [hlt, if_false]
      refine ⟨w, s, rfl, ?_⟩
      have : (nnode - read).toNat = 0 := by omega
      simp [this, scatterRows]

end Refine.Lemmas.Sol
