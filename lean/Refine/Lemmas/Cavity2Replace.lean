import Refine.Lemmas.Cavity2Ledger

/-!
  `ref_cavity_replace` on a tet + tri cavity: the ledger equation, the executable ledger check, the new boundary
  tris and their face ids.
-/
namespace Refine.Lemmas.Cavity2
open Refine.Model.Cavity Refine.Model.Cavity2 Refine.Lemmas.Cavity

variable {G : Type} [AddCommGroup G] {α : Type}

/-- value of `φ` on the boundary tri stored in `cell` (0 for a dead cell) -/
def triVal (φ : Int → Int → Int → G) (g : Grid α) (cell : Int) : G :=
  match g.tris.get? cell with
  | some t => φ t.n0 t.n1 t.n2
  | none => 0

/-- **the ledger equation** `F − cone(segs) = ∂T − S`: live faces minus the cone of the live segs from the seg node is
    the signed boundary of the listed tets minus the listed boundary tris -/
def LedgerEq (φ : Int → Int → Int → G) (g : Grid α) (c : Cav) : Prop :=
  ledgerVal φ c = (c.tetList.map (tetBd φ g)).sum - (c.triList.map (triVal φ g)).sum

/-- the boundary tris `ref_cavity_replace` creates carry the cone of the live segs (attached segs are skipped, and
    count 0) -/
theorem newTris_cone {φ : Int → Int → Int → G} (hφ : Alt φ) (hd : Diag φ) (n : Int) (ss : List Seg) :
    ((ss.filterMap (newTriOf n)).map fun t => φ t.n0 t.n1 t.n2).sum = coneSum φ n ss := by
  induction ss with
  | nil => simp [coneSum]
  | cons s t ih =>
    simp only [coneSum] at ih ⊢
    by_cases hatt : (n == s.n0 || n == s.n1) = true
    · have e : newTriOf n s = none := by simp only [newTriOf, hatt, if_true]
      simp only [List.filterMap_cons, e, List.map_cons, List.sum_cons]
      rw [ih]
      simp only [Bool.or_eq_true, beq_iff_eq] at hatt
      rcases hatt with e | e
      · rw [← e, diag_aba hφ hd]; simp
      · rw [← e, diag_abb hφ hd]; simp
    · have e : newTriOf n s = some ⟨s.n0, s.n1, n, s.id⟩ := by simp only [newTriOf, hatt]; rfl
      simp only [List.filterMap_cons, e, List.map_cons, List.sum_cons, ih]

/-- **replace on a tet + tri cavity, chain level.**  With the face verification passed and the ledger equation, the
    tets and boundary tris `ref_cavity_replace` creates have the signed boundary (tets minus tris) of the cells it
    removes. -/
theorem replace_chain_boundary {φ : Int → Int → Int → G} (hφ : Alt φ) (hd : Diag φ) (g : Grid α) (c : Cav)
    (hnd : ∀ f ∈ c.validFaces, Nondeg f) (hv : verifyFacesLoop c.validFaces c.validFaces = .pass)
    (hl : LedgerEq φ g c) :
    ((newTets c).map fun t => faceSum φ (tetFaces t)).sum - ((newTris c).map fun t => φ t.n0 t.n1 t.n2).sum =
      (c.tetList.map (tetBd φ g)).sum - (c.triList.map (triVal φ g)).sum := by
  have h1 := replace_chain_core hφ hd c.node c.validFaces hnd hv
  have h2 := newTris_cone hφ hd c.segNode c.validSegs
  unfold newTets newTris
  rw [h1, h2, ← hl]
  simp only [ledgerVal, Cav.validFaces, Slots.valid, rowsSum_eq_faceSum]

/-! ### the executable ledger check -/

theorem signed_lists_eq {φ : Int → Int → Int → G} (hφ : Alt φ) (pos neg : List Face)
    (h : ((pos ++ neg).all fun f => signedCount pos neg (sort3s f.n0 f.n1 f.n2).1 == 0) = true) :
    faceSum φ pos - faceSum φ neg = 0 := by
  classical
  let key : Face → Int × Int × Int := fun f => (sort3s f.n0 f.n1 f.n2).1
  let w : Face → ℤ := fun f => (sort3s f.n0 f.n1 f.n2).2
  let S : Finset (Int × Int × Int) := ((pos ++ neg).map key).toFinset
  have hmem : ∀ L : List Face, (∀ f ∈ L, f ∈ pos ++ neg) → ∀ f ∈ L, key f ∈ S := by
    intro L hL f hf
    exact List.mem_toFinset.mpr (List.mem_map_of_mem (hL f hf))
  have e : ∀ L : List Face, faceSum φ L = (L.map fun f => w f • φK φ (key f)).sum := by
    intro L
    unfold faceSum
    congr 1
    apply List.map_congr_left
    intro f _
    exact sort3s_val hφ f.n0 f.n1 f.n2
  rw [e, e,
    group_sum pos key w (φK φ) S (hmem _ (fun f hf => List.mem_append_left _ hf)),
    group_sum neg key w (φK φ) S (hmem _ (fun f hf => List.mem_append_right _ hf)),
    ← Finset.sum_sub_distrib]
  apply Finset.sum_eq_zero
  intro k hk
  rw [← sub_smul]
  obtain ⟨f, hf, rfl⟩ := List.mem_map.mp (List.mem_toFinset.mp hk)
  simp only [List.all_eq_true, beq_iff_eq] at h
  have := h f hf
  simp only [signedCount] at this
  show (((pos.filter fun x => key x = key f).map w).sum -
    ((neg.filter fun x => key x = key f).map w).sum) • φK φ (key f) = 0
  have hh : (((pos.filter fun x => key x = key f).map w).sum -
      ((neg.filter fun x => key x = key f).map w).sum) = 0 := by
    simpa [key, w] using this
  rw [hh, zero_smul]

theorem segCone_sum {φ : Int → Int → Int → G} (hφ : Alt φ) (hd : Diag φ) (c : Cav) :
    faceSum φ (segCone c) = coneSum φ c.segNode c.validSegs := by
  unfold segCone coneSum faceSum
  induction c.validSegs with
  | nil => simp
  | cons s t ih =>
    by_cases hatt : (c.segNode == s.n0 || c.segNode == s.n1) = true
    · simp only [List.filterMap_cons, hatt, if_true, List.map_cons, List.sum_cons]
      rw [ih]
      simp only [Bool.or_eq_true, beq_iff_eq] at hatt
      rcases hatt with e | e
      · rw [← e, diag_aba hφ hd]; simp
      · rw [← e, diag_abb hφ hd]; simp
    · simp only [List.filterMap_cons, hatt, Bool.false_eq_true, if_false, List.map_cons, List.sum_cons, ih, φF]

theorem listedTets_sum (φ : Int → Int → Int → G) (g : Grid α) (cells : List Int) :
    faceSum φ ((cells.filterMap fun cell => g.tets.get? cell).flatMap tetFaces) = (cells.map (tetBd φ g)).sum := by
  induction cells with
  | nil => simp [faceSum]
  | cons cell t ih =>
    simp only [List.filterMap_cons, List.map_cons, List.sum_cons, tetBd]
    cases g.tets.get? cell with
    | none => simp only [zero_add]; exact ih
    | some x =>
      simp only [List.flatMap_cons, faceSum, List.map_append, List.sum_append] at ih ⊢
      rw [ih]

theorem listedTris_sum (φ : Int → Int → Int → G) (g : Grid α) (cells : List Int) :
    faceSum φ ((cells.filterMap fun cell => g.tris.get? cell).map fun t => (⟨t.n0, t.n1, t.n2⟩ : Face)) =
      (cells.map (triVal φ g)).sum := by
  induction cells with
  | nil => simp [faceSum]
  | cons cell t ih =>
    simp only [List.filterMap_cons, List.map_cons, List.sum_cons, triVal]
    cases g.tris.get? cell with
    | none => simp only [zero_add]; exact ih
    | some x =>
      simp only [faceSum, List.map_cons, List.sum_cons, φF] at ih ⊢
      rw [ih]

/-- **the executable check is sound**: `ledgerOkAt g c = true` (what the run-level driver evaluates on every
    `cavity_replace begin` record) gives the ledger equation for every alternating `φ` vanishing on repeated nodes -/
theorem ledgerOkAt_sound {φ : Int → Int → Int → G} (hφ : Alt φ) (hd : Diag φ) (g : Grid α) (c : Cav)
    (h : ledgerOkAt g c = true) : LedgerEq φ g c := by
  unfold ledgerOkAt ledgerOk at h
  have := signed_lists_eq hφ _ _ h
  simp only [faceSum, List.map_append, List.sum_append] at this
  have e1 := listedTets_sum φ g c.tetList
  have e2 := listedTris_sum φ g c.triList
  have e3 := segCone_sum hφ hd c
  simp only [faceSum, listedTets, listedTris] at e1 e2 e3 this
  rw [e1, e2, e3] at this
  unfold LedgerEq ledgerVal
  rw [rowsSum_eq_faceSum]
  simp only [faceSum, Cav.validFaces, Slots.valid] at this ⊢
  have h2 := sub_eq_zero.mp this
  rw [eq_sub_iff_add_eq.mpr h2]; abel

/-! ### face ids -/

/-- the face id of every boundary tri `ref_cavity_replace` creates is the id of a live seg -/
theorem newTris_ids (c : Cav) : ∀ t ∈ newTris c, ∃ s ∈ c.validSegs, t.id = s.id ∧ t.n0 = s.n0 ∧ t.n1 = s.n1 := by
  intro t ht
  simp only [newTris, List.mem_filterMap] at ht
  obtain ⟨s, hs, hst⟩ := ht
  unfold newTriOf at hst
  split at hst
  · cases hst
  · simp only [Option.some.injEq] at hst; subst hst; exact ⟨s, hs, rfl, rfl, rfl⟩

end Refine.Lemmas.Cavity2
