import Refine.Lemmas.PartMeshbFinal

/-! the vertex blocks rank 0 reads are the blocks of the implicit partition; an accepted file gives `ParsedOK` -/
namespace Refine.Lemmas.PartMeshb
open Refine.Model.Meshb Refine.Model.PartMeshb
open Refine.Gen.PartMacros

theorem rdVertsD_length {v : Nat} {twod : Bool} {n : Nat} {s r : Bytes} {vs : List Vertex}
    (h : rdVertsD v twod n s = .ok (vs, r)) : vs.length = n := by
  induction n generalizing s vs with
  | zero => simp [rdVertsD] at h; simp [h.1.symm]
  | succ n ih =>
    unfold rdVertsD at h
    cases h1 : rdVertD v twod s with
    | error e => simp [h1] at h
    | ok p1 =>
    obtain ⟨x, s1⟩ := p1
    simp only [h1] at h
    cases h2 : rdVertsD v twod n s1 with
    | error e => simp [h2] at h
    | ok p2 =>
    obtain ⟨xs, s2⟩ := p2
    simp only [h2] at h
    injection h with h
    injection h with hx hr
    subst hx hr
    simp [ih h2]

theorem rdBlocks_lengths {v : Nat} {twod : Bool} : ∀ (counts : List Int) {s r : Bytes} {blocks : List (List Vertex)},
    rdBlocks v twod counts s = .ok (blocks, r) →
    blocks.length = counts.length ∧ ∀ i, i < counts.length → (blocks.getD i []).length = (counts.getD i 0).toNat := by
  intro counts
  induction counts with
  | nil => intro s r blocks h; simp [rdBlocks] at h; simp [h.1.symm]
  | cons c cs ih =>
    intro s r blocks h
    unfold rdBlocks at h
    cases h1 : rdVertsD v twod c.toNat s with
    | error e => simp [h1] at h
    | ok p1 =>
    obtain ⟨b, s1⟩ := p1
    simp only [h1] at h
    cases h2 : rdBlocks v twod cs s1 with
    | error e => simp [h2] at h
    | ok p2 =>
    obtain ⟨bs, s2⟩ := p2
    simp only [h2] at h
    injection h with h
    injection h with hx hr
    subst hx hr
    obtain ⟨hl, hi⟩ := ih h2
    refine ⟨by simp [hl], ?_⟩
    intro i hi'
    cases i with
    | zero => simpa using rdVertsD_length h1
    | succ i => simpa using hi i (by simpa using hi')

/-- with `1 ≤ nnode < 2^31` the per-part record counts of `ref_part_node` are the block sizes -/
theorem blockCount_eq {N : Int} {np : Nat} (hN : 1 ≤ N) (hN31 : N < 2 ^ 31) (hnp : 1 ≤ np) (r : Nat) (hr : r < np) :
    blockCount N np r = firstOf N np (r + 1) - firstOf N np r ∧ 0 ≤ blockCount N np r := by
  obtain ⟨b0, b1, b2⟩ := block_bounds hN hnp r hr
  unfold blockCount
  by_cases h0 : r = 0
  · subst h0
    have hz := Refine.Props.C07.first_zero N (np : Int) hN (by omega)
    simp only [if_true]
    unfold firstOf at b0 b1 b2 ⊢
    simp only [Nat.cast_zero, Nat.zero_add, Nat.cast_one] at b0 b1 b2 ⊢
    rw [hz] at b1 ⊢
    omega
  · simp only [if_neg h0]
    have : ref_part_first N (np : Int) ((r : Int) + 1) = firstOf N np (r + 1) := (first_succ_cast N np r).symm
    rw [this]
    have hw := wrap32_of_range (firstOf N np (r + 1) - firstOf N np r) (by
      have : (2 : Int) ^ 31 = 2147483648 := by norm_num
      unfold firstOf at *
      omega)
    unfold firstOf at hw b1 ⊢
    rw [hw]
    omega

theorem blocks_ok {N : Int} {np : Nat} {v : Nat} {twod : Bool} {s r : Bytes} {blocks : List (List Vertex)}
    (hN : 1 ≤ N) (hN31 : N < 2 ^ 31) (hnp : 1 ≤ np)
    (h : rdBlocks v twod (blockCounts N np) s = .ok (blocks, r)) : BlocksOK N np blocks := by
  obtain ⟨hl, hi⟩ := rdBlocks_lengths _ h
  have hlen : (blockCounts N np).length = np := by simp [blockCounts]
  refine ⟨by rw [hl, hlen], ?_⟩
  intro q hq
  rw [hi q (by rw [hlen]; exact hq)]
  have hget : (blockCounts N np).getD q 0 = blockCount N np q := by
    unfold blockCounts
    rw [List.getD_eq_getElem?_getD, List.getElem?_map, List.getElem?_range hq]; rfl
  obtain ⟨e, h0⟩ := blockCount_eq hN hN31 hnp q hq
  rw [hget, Int.toNat_of_nonneg h0, e]

/-- an accepted file with `1 ≤ nnode < 2^31` whose groups have pairwise different cells gives the closed form -/
theorem parsedOK_of_parse {cfg : Cfg} {np cm : Nat} {bs : Bytes} {p : Parsed} (hnp : 1 ≤ np)
    (h : parseWith cfg np cm bs = .ok p) (hN : 1 ≤ p.nnode) (hN31 : p.nnode < 2 ^ 31)
    (hd : ∀ g ∈ cellInfos.zip p.groups, Distinct g.1 g.2.flatten) : ParsedOK np p := by
  obtain ⟨v, kp, s, r, _, hb, _, _, _⟩ := parse_inv h
  exact ⟨hN, blocks_ok hN hN31 hnp hb, fun g hg ch hch => ((parse_cells_ok h).2 g hg ch hch).2, hd⟩

end Refine.Lemmas.PartMeshb
