import Refine.Lemmas.ReconParMesh

/-!
  `ref_recon_l2_projection_hessian` on a distributed mesh: because the projected gradient is refreshed before it is
  projected again, each of the four projections sees a field that is consistent across the ranks, and the assembled
  Hessian is the restriction of the serial one (`l2hessianPar_eq_serial`).
-/
namespace Refine.ReconParHess
open Refine Refine.Model.Geom Refine.Model.Recon Refine.Model.ReconPar Refine.ScalarReal Refine.GeomReal
open Refine.ReconReal Refine.ReconParGhost Refine.ReconParMesh
open Refine.Model.Comm (World RefType)

def z6 : M6 ℝ := ⟨0, 0, 0, 0, 0, 0⟩

theorem restrict_map {β γ : Type} (r : Rank) (d : β) (gf : List β) (f : β → γ) :
    (r.restrict d gf).map f = r.restrict (f d) (gf.map f) := by
  unfold Rank.restrict
  rw [List.map_map]
  apply List.map_congr_left
  intro g _
  simp only [Function.comp, List.getD_eq_getElem?_getD, List.getElem?_map]
  cases gf[g]? <;> rfl

theorem world_restrict_map {β γ : Type} (w : World Rank) (d : β) (gf : List β) (f : β → γ) :
    (w.map fun r => r.restrict d gf).map (·.map f) = w.map fun r => r.restrict (f d) (gf.map f) := by
  rw [List.map_map]
  apply List.map_congr_left
  intro r _
  exact restrict_map r d gf f

theorem restrict_length {β : Type} (r : Rank) (d : β) (gf : List β) : (r.restrict d gf).length = r.l2g.length := by
  simp [Rank.restrict]

theorem restrict_getD {β : Type} (r : Rank) (d : β) (gf : List β) (i : Nat) (hi : i < r.l2g.length) :
    (r.restrict d gf).getD i d = gf.getD (gOf r.l2g i) d := by
  rw [List.getD_eq_getElem?_getD, restrict_getElem? r d gf i hi]
  rfl

theorem assemble_length (n : Nat) (a b c : List (V3 ℝ)) : (assemble n a b c).length = n := by
  simp [assemble]

/-- assembling the restrictions = restricting the assembled Hessian -/
theorem assemble_restrict (r : Rank) (nG : Nat) (hr : ∀ g ∈ r.l2g, g < nG) (G GX GY GZ : List (V3 ℝ)) :
    assemble (r.restrict V3.zero G).length (r.restrict V3.zero GX) (r.restrict V3.zero GY) (r.restrict V3.zero GZ) =
      r.restrict z6 (assemble nG GX GY GZ) := by
  apply List.ext_getElem?
  intro i
  rw [restrict_length]
  by_cases hi : i < r.l2g.length
  · rw [restrict_getElem? r _ _ i hi]
    have hg : gOf r.l2g i < nG := by
      apply hr
      unfold gOf
      rw [List.getD_eq_getElem?_getD, getElem?_of_lt _ hi]
      exact List.getElem_mem hi
    unfold assemble
    rw [List.getElem?_map, List.getElem?_range hi, Option.map_some, List.getD_eq_getElem?_getD (l := List.map _ _),
      List.getElem?_map, List.getElem?_range hg, Option.map_some, Option.getD_some,
      restrict_getD r _ GX i hi, restrict_getD r _ GY i hi, restrict_getD r _ GZ i hi]
  · rw [List.getElem?_eq_none (by rw [assemble_length]; omega),
      List.getElem?_eq_none (by rw [restrict_length]; omega)]

theorem assembleW_maps (w : World Rank) (a b c d : Rank → List (V3 ℝ)) :
    assembleW (w.map a) (w.map b) (w.map c) (w.map d) =
      w.map fun r => assemble (a r).length (b r) (c r) (d r) := by
  unfold assembleW
  induction w with
  | nil => rfl
  | cons r rest ih => simp only [List.map_cons, List.zip_cons_cons, List.zipWith_cons_cons, ih]

theorem v3zero_x : (V3.zero : V3 ℝ).x = 0 := by simp [V3.zero]
theorem v3zero_y : (V3.zero : V3 ℝ).y = 0 := by simp [V3.zero]
theorem v3zero_z : (V3.zero : V3 ℝ).z = 0 := by simp [V3.zero]

/-- **`ref_recon_l2_projection_hessian` is partition independent** — BECAUSE the intermediate gradient is refreshed
    before it is differentiated again: every stored copy of every vertex holds the serial L2 Hessian -/
theorem l2hessianPar_eq_serial (twod : Bool) (gxyz : List (V3 ℝ)) (gs : List ℝ) (gcells : List Cell) (w : World Rank)
    (hw : DistOK twod gxyz.length gcells w) (s : World (List ℝ)) (hs : Consistent 0 w s gs) :
    l2hessianPar twod gxyz w s = some (w.map fun r => r.restrict z6 (l2hessian twod gxyz gs gcells)) := by
  obtain ⟨st, h1⟩ := l2gradPar_eq_serial twod gxyz gs gcells w hw s hs
  set G := (l2grad twod gxyz gs gcells).2 with hG
  have cx : Consistent 0 w ((w.map fun r => r.restrict V3.zero G).map (·.map (·.x))) (G.map (·.x)) := by
    unfold Consistent; rw [world_restrict_map, v3zero_x]
  have cy : Consistent 0 w ((w.map fun r => r.restrict V3.zero G).map (·.map (·.y))) (G.map (·.y)) := by
    unfold Consistent; rw [world_restrict_map, v3zero_y]
  have cz : Consistent 0 w ((w.map fun r => r.restrict V3.zero G).map (·.map (·.z))) (G.map (·.z)) := by
    unfold Consistent; rw [world_restrict_map, v3zero_z]
  obtain ⟨sx, hx⟩ := l2gradPar_eq_serial twod gxyz (G.map (·.x)) gcells w hw _ cx
  obtain ⟨sy, hy⟩ := l2gradPar_eq_serial twod gxyz (G.map (·.y)) gcells w hw _ cy
  obtain ⟨sz, hz⟩ := l2gradPar_eq_serial twod gxyz (G.map (·.z)) gcells w hw _ cz
  unfold l2hessianPar
  rw [h1]
  simp only [hx, hy, hz]
  rw [assembleW_maps]
  congr 1
  apply List.map_congr_left
  intro r hr
  rw [assemble_restrict r gxyz.length (hw.inRange r hr)]
  congr 1
  unfold l2hessian
  rw [hessianOf_assemble]
  simp only [← hG]
  rw [hG, l2grad_length]

end Refine.ReconParHess
