import Refine.Lemmas.UgridLayout
import Refine.Lemmas.PartLemmas

/-! the parallel UGRID reader (`partRead`) on a laid-out file: seeking to the generated offsets and reading in chunks of
    any size returns the cells of the file -/
namespace Refine.Lemmas.Ugrid
open Refine.Gen Refine.Model.Endian Refine.Model.Ugrid
open Refine.Model.Meshb (Bytes Status Vertex P Cfg takeN encLE decLE toSigned ofSigned int32 wrap32 adjAdd adjAddAll)
open Refine.Lemmas.Codec (takeN_append int32_iff toSigned32_ofSigned32 toSigned_ofSigned ofSigned_lt wrap32_of_int32)

/-! ### words at a position -/

theorem toSigned_word (fl : Flavor) {x : Int} (h : int32 x) :
    toSigned (8 * fl.ibytes) (decWord fl fl.ibytes (Refine.Model.Ugrid.encInt fl x)) = x := by
  unfold Refine.Model.Ugrid.encInt Flavor.ibytes
  by_cases hf : fl.fat
  · simp only [hf, if_true]
    rw [decWord_encWord fl (Or.inr rfl)]
    have h1 : ofSigned 64 x % 256 ^ 8 = ofSigned 64 x := by
      have := ofSigned_lt 64 x
      apply Nat.mod_eq_of_lt
      norm_num at this ⊢; omega
    rw [h1]
    have := (int32_iff x).1 h
    exact toSigned_ofSigned (bits := 64) (by norm_num) (by norm_num at this ⊢; omega)
  · simp only [hf, Bool.false_eq_true, if_false]
    rw [decWord_encWord fl (Or.inl rfl)]
    have h1 : ofSigned 32 x % 256 ^ 4 = ofSigned 32 x := by
      have := ofSigned_lt 32 x
      apply Nat.mod_eq_of_lt
      norm_num at this ⊢; omega
    rw [h1]
    exact toSigned32_ofSigned32 h

theorem wordsOf_flatMap (fl : Flavor) (xs : List Int) (h : ∀ x ∈ xs, int32 x) :
    wordsOf fl fl.ibytes xs.length (xs.flatMap (Refine.Model.Ugrid.encInt fl)) = xs := by
  induction xs with
  | nil => simp [wordsOf]
  | cons x xs ih =>
    simp only [List.length_cons, List.flatMap_cons, wordsOf]
    have hl := encInt_length fl x
    rw [List.take_left' hl, List.drop_left' hl, toSigned_word fl (h x (by simp)),
      ih (fun y hy => h y (by simp [hy]))]

theorem pread_mid (A X B : Bytes) (pos : Int) (n : Nat) (hp : pos = (A.length : Int)) (hn : n = X.length) :
    pread (A ++ X ++ B) pos n = .ok X := by
  subst hp hn
  unfold pread
  have : ¬ ((A.length : Int) < 0) := by omega
  simp only [this, if_false, Int.toNat_natCast, List.append_assoc, List.drop_left, takeN_append]

/-! ### cells -/

theorem cell_decomp {k : Kind} {n : Nat} {c : List Int} (ht : k.hasTag = true) (h : cellOk k n c = true) :
    c.take k.nodePer ++ [tagOf k c] = c := by
  have hl := cellOk_length h
  simp [Kind.sizePer, ht] at hl
  have : c = c.take k.nodePer ++ c.drop k.nodePer := (List.take_append_drop _ _).symm
  conv_rhs => rw [this]
  congr 1
  have : (c.drop k.nodePer).length = 1 := by simp [hl]
  match hdc : c.drop k.nodePer, this with
  | [t], _ =>
    have : c[k.nodePer]? = some t := by
      have := List.getElem?_drop (xs := c) (i := k.nodePer) (j := 0)
      simp [hdc] at this
      exact this.symm
    simp [tagOf, List.getD, this]

theorem zip_tags (k : Kind) (ht : k.hasTag = true) {n : Nat} (X : List (List Int)) (h : ∀ c ∈ X, cellOk k n c = true) :
    ((X.map (fun c => c.take k.nodePer)).zip (X.map (tagOf k))).map (fun p => p.1 ++ [wrap32 p.2]) = X := by
  induction X with
  | nil => rfl
  | cons c X ih =>
    simp only [List.map_cons, List.zip_cons_cons]
    rw [ih (fun d hd => h d (by simp [hd])), wrap32_of_int32 (tagOf_int32 ht (h c (by simp))),
      cell_decomp ht (h c (by simp))]

theorem flatten_conn_sub (k : Kind) (X : List (List Int)) :
    ((X.map (connOf k)).flatten).map (· - 1) = (X.map (fun c => c.take k.nodePer)).flatten := by
  induction X with
  | nil => rfl
  | cons c X ih =>
    simp only [List.map_cons, List.flatten_cons, List.map_append, ih]
    congr 1
    simp only [connOf, List.map_map]
    conv_rhs => rw [← List.map_id (c.take k.nodePer)]
    apply List.map_congr_left
    intro x _; simp

/-! ### the generated seek positions -/

theorem seekC_eq (fl : Flavor) (co fo np r : Int) :
    (if fl.fat then UgridOffsets.seek_conn_fat co fo (UgridOffsets.pack_ibyte fl.fat) np r
     else UgridOffsets.seek_conn_thin co fo (UgridOffsets.pack_ibyte fl.fat) np r) = co + (fl.ibytes : Int) * np * r := by
  rw [pack_ibyte_eq]
  unfold UgridOffsets.seek_conn_fat UgridOffsets.seek_conn_thin
  split <;> rfl

theorem seekT_eq (fl : Flavor) (co fo np r : Int) :
    (if fl.fat then UgridOffsets.seek_tag_fat co fo (UgridOffsets.pack_ibyte fl.fat) np r
     else UgridOffsets.seek_tag_thin co fo (UgridOffsets.pack_ibyte fl.fat) np r) = fo + (fl.ibytes : Int) * r := by
  rw [pack_ibyte_eq]
  unfold UgridOffsets.seek_tag_fat UgridOffsets.seek_tag_thin
  split <;> rfl

theorem itemsC_eq (fl : Flavor) (s np : Nat) :
    (if fl.fat then UgridOffsets.items_conn_fat (s : Int) (np : Int)
     else UgridOffsets.items_conn_thin (s : Int) (np : Int)).toNat = s * np := by
  unfold UgridOffsets.items_conn_fat UgridOffsets.items_conn_thin
  split <;> (rw [← Int.natCast_mul]; exact Int.toNat_natCast _)

theorem itemsT_eq (fl : Flavor) (s np : Nat) :
    (if fl.fat then UgridOffsets.items_tag_fat (s : Int) (np : Int)
     else UgridOffsets.items_tag_thin (s : Int) (np : Int)).toNat = s := by
  unfold UgridOffsets.items_tag_fat UgridOffsets.items_tag_thin
  split <;> exact Int.toNat_natCast _

/-- `ref_part_bin_ugrid_pack_cell` on a file that has the connectivity rows of the cells `X` at
    `conn_offset + ibyte·node_per·ncell_read` and (boundary faces) their tags at `faceid_offset + ibyte·ncell_read` -/
theorem packCell_spec (fl : Flavor) (k : Kind) {n : Nat} (hn : n < 2 ^ 27) (X : List (List Int))
    (hX : ∀ c ∈ X, cellOk k n c = true) (bs A B A' B' : Bytes) (co fo : Int) (r : Nat)
    (h1 : bs = A ++ secConn fl k X ++ B) (hA : (A.length : Int) = co + (fl.ibytes : Int) * (k.nodePer : Int) * (r : Int))
    (h2 : k.hasTag = true → bs = A' ++ secTags fl k X ++ B' ∧ (A'.length : Int) = fo + (fl.ibytes : Int) * (r : Int)) :
    packCell fl bs k co fo X.length r = .ok X := by
  unfold packCell
  simp only [seekC_eq, seekT_eq, itemsC_eq, itemsT_eq]
  have hlen := secConn_length fl k X hX
  have hrd : pread bs (co + (fl.ibytes : Int) * (k.nodePer : Int) * (r : Int)) (fl.ibytes * (X.length * k.nodePer)) =
      .ok (secConn fl k X) := by
    rw [h1]
    exact pread_mid A _ B _ _ hA.symm (by rw [hlen]; ring)
  rw [hrd]
  simp only
  have hint : ∀ x ∈ ((X.map (connOf k)).flatten), int32 x := by
    intro x hx
    simp only [List.mem_flatten, List.mem_map] at hx
    obtain ⟨l, ⟨c, hc', rfl⟩, hxl⟩ := hx
    exact connOf_int32 hn (hX c hc') x hxl
  have hw : wordsOf fl fl.ibytes (X.length * k.nodePer) (secConn fl k X) = (X.map (connOf k)).flatten := by
    have := wordsOf_flatMap fl _ hint
    rw [flatten_connOf_length k X hX, Nat.mul_comm] at this
    rw [secConn_eq]; exact this
  rw [hw]
  have hany : ((X.map (connOf k)).flatten).any (fun x => decide (x = -(2 ^ (8 * fl.ibytes - 1) : Int))) = false := by
    rw [List.any_eq_false]
    intro x hx
    simp only [List.mem_flatten, List.mem_map] at hx
    obtain ⟨l, ⟨c, hc', rfl⟩, hxl⟩ := hx
    simp only [connOf, List.mem_map] at hxl
    obtain ⟨y, hy, rfl⟩ := hxl
    have := ((cellOk_iff k n c).1 (hX c hc')).2.1 y hy
    have hp : (0 : Int) < 2 ^ (8 * fl.ibytes - 1) := by positivity
    simp only [decide_eq_true_eq]
    omega
  simp only [hany, Bool.false_eq_true, if_false]
  have hrows : rows k.nodePer X.length (((X.map (connOf k)).flatten).map (· - 1)) = X.map (fun c => c.take k.nodePer) := by
    rw [flatten_conn_sub]
    have := rows_flatten k.nodePer (X.map (fun c => c.take k.nodePer)) (by
      intro x hx
      simp only [List.mem_map] at hx
      obtain ⟨c, hc', rfl⟩ := hx
      exact take_length_of_cellOk (hX c hc'))
    rw [List.length_map] at this
    exact this
  rw [hrows]
  by_cases ht : k.hasTag = true
  · simp only [ht, if_true]
    obtain ⟨hb, hA'⟩ := h2 ht
    have hrt : pread bs (fo + (fl.ibytes : Int) * (r : Int)) (fl.ibytes * X.length) = .ok (secTags fl k X) := by
      rw [hb]
      exact pread_mid A' _ B' _ _ hA'.symm (by rw [secTags_length]; ring)
    rw [hrt]
    simp only
    have hwt : wordsOf fl fl.ibytes X.length (secTags fl k X) = X.map (tagOf k) := by
      have := wordsOf_flatMap fl (X.map (tagOf k))
        (by intro x hx; simp only [List.mem_map] at hx; obtain ⟨c, hc', rfl⟩ := hx; exact tagOf_int32 ht (hX c hc'))
      rw [List.length_map] at this
      rw [secTags_eq]; exact this
    rw [hwt, zip_tags k ht X hX]
  · have ht' : k.hasTag = false := by simpa using ht
    simp only [ht', Bool.false_eq_true, if_false]
    have : X.map (fun c => c.take k.nodePer) = X := by
      conv_rhs => rw [← List.map_id X]
      apply List.map_congr_left
      intro c hc
      have hl := cellOk_length (hX c hc)
      simp [Kind.sizePer, ht'] at hl
      simp [List.take_of_length_le (Nat.le_of_eq hl)]
    rw [this]

/-- the chunk loop of ref_part_bin_ugrid_cell from cell `r` on, for every chunk size ≥ 1: the remaining cells of the
    section, whatever the chunking.  `pre`/`mid`/`post` are the bytes before the connectivity rows, between them and
    the tags, and after. -/
theorem partIndexOk_of_cellOk {k : Kind} {n : Nat} {X : List (List Int)} (h : ∀ c ∈ X, cellOk k n c = true) :
    X.all (partIndexOk k (n : Int)) = true := by
  rw [List.all_eq_true]
  intro c hc
  unfold partIndexOk
  rw [List.all_eq_true]
  intro g hg
  have := ((cellOk_iff k n c).1 (h c hc)).2.1 g hg
  simp; omega

theorem partCellLoop_spec (cfg : Cfg) (fl : Flavor) (k : Kind) {n : Nat} (hn : n < 2 ^ 27) (cs : List (List Int))
    (hcs : ∀ c ∈ cs, cellOk k n c = true) (pre mid post : Bytes) (co fo : Int)
    (hco : co = (pre.length : Int))
    (hfo : k.hasTag = true → fo = ((pre ++ secConn fl k cs ++ mid).length : Int))
    (chunk : Nat) (hch : 1 ≤ chunk) (fuel r : Nat) (hr : r ≤ cs.length) (hf : cs.length - r ≤ fuel) :
    partCellLoop cfg fl (pre ++ secConn fl k cs ++ mid ++ (if k.hasTag then secTags fl k cs else []) ++ post) k (n : Int)
      co fo chunk fuel cs.length r = .ok (cs.drop r) := by
  induction fuel generalizing r with
  | zero =>
    have : r = cs.length := by omega
    subst this
    simp only [partCellLoop, List.drop_length]
  | succ fuel ih =>
    simp only [partCellLoop]
    by_cases hdone : cs.length ≤ r
    · have : r = cs.length := by omega
      subst this
      simp
    · simp only [hdone, if_false]
      set s := min chunk (cs.length - r) with hs
      have hspos : 1 ≤ s := by omega
      have hsle : r + s ≤ cs.length := by omega
      set X := (cs.drop r).take s with hXdef
      have hXlen : X.length = s := by simp [hXdef]; omega
      have hXok : ∀ c ∈ X, cellOk k n c = true :=
        fun c hc => hcs c (List.mem_of_mem_drop (List.mem_of_mem_take hc))
      have hsplit : cs = cs.take r ++ X ++ cs.drop (r + s) := by
        rw [hXdef, List.append_assoc, ← List.drop_drop, List.take_append_drop, List.take_append_drop]
      have htk : ∀ c ∈ cs.take r, cellOk k n c = true := fun c hc => hcs c (List.mem_of_mem_take hc)
      have hpk := packCell_spec fl k hn X hXok
        (pre ++ secConn fl k cs ++ mid ++ (if k.hasTag then secTags fl k cs else []) ++ post)
        (pre ++ secConn fl k (cs.take r))
        (secConn fl k (cs.drop (r + s)) ++ mid ++ (if k.hasTag then secTags fl k cs else []) ++ post)
        (pre ++ secConn fl k cs ++ mid ++ secTags fl k (cs.take r))
        (secTags fl k (cs.drop (r + s)) ++ post) co fo r
        (by
          have hc : secConn fl k cs =
              secConn fl k (cs.take r) ++ secConn fl k X ++ secConn fl k (cs.drop (r + s)) := by
            conv_lhs => rw [hsplit]
            simp only [secConn_append]
          rw [hc]
          simp only [List.append_assoc])
        (by
          rw [List.length_append, secConn_length fl k _ htk, hco]
          have : (cs.take r).length = r := by simp; omega
          rw [this]; push_cast; ring)
        (fun ht => by
          refine ⟨?_, ?_⟩
          · simp only [ht, if_true]
            have : secTags fl k cs = secTags fl k (cs.take r) ++ secTags fl k X ++ secTags fl k (cs.drop (r + s)) := by
              conv_lhs => rw [hsplit]
              simp [secTags]
            conv_lhs => rw [this]
            simp only [List.append_assoc]
          · rw [List.length_append, secTags_length, hfo ht]
            have : (cs.take r).length = r := by simp; omega
            rw [this]; push_cast; ring)
      rw [hXlen] at hpk
      rw [hpk]
      simp only
      have hidx : ¬ (cfg.checkIndex = true ∧ X.all (partIndexOk k (n : Int)) = false) := by
        rw [partIndexOk_of_cellOk hXok]; simp
      rw [if_neg hidx]
      rw [ih (r + s) hsle (by omega)]
      simp only
      rw [hXdef, ← List.drop_drop, List.take_append_drop]

end Refine.Lemmas.Ugrid
