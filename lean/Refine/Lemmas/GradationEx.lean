import Refine.Lemmas.Gradation

/-!
  A concrete field on which the hypotheses of the sweep theorems of `Props/C10Gradation.lean` hold and on which
  gradation is active: two vertices joined by one edge, `r = 1` (so the limit metric of a vertex is its
  neighbour's metric), tensors `A = diag(4, 9, 1)` and `B = diag(1, 36, 1/4)`.  One sweep leaves
  `diag(4, 36, 1)` — the intersection — at both vertices.
-/
namespace Refine.Model.Gradation
open Refine Refine.Scalar Refine.ScalarReal Refine.Model.Matrix Refine.Model.Metric
open Refine.Props.C16 (InnerExact sqrtM_diag491 sqrt4 sqrt9)
open Refine.Model.Geom (V3)

noncomputable def exA : M6 ℝ := ⟨4, 0, 0, 9, 0, 1⟩
noncomputable def exB : M6 ℝ := ⟨1, 0, 0, 36, 0, 1 / 4⟩
noncomputable def exBoth : M6 ℝ := ⟨4, 0, 0, 36, 0, 1⟩
noncomputable def exXyz : List (V3 ℝ) := [⟨0, 0, 0⟩, ⟨1, 0, 0⟩]
noncomputable def exField : List (M6 ℝ) := [exA, exB]

theorem sqrt36 : Real.sqrt 36 = 6 := by
  rw [show (36 : ℝ) = 6 * 6 by norm_num]; exact Real.sqrt_mul_self (by norm_num)
theorem sqrt_quarter : Real.sqrt (1 / 4) = 1 / 2 := by
  rw [show (1 / 4 : ℝ) = 1 / 2 * (1 / 2) by norm_num]; exact Real.sqrt_mul_self (by norm_num)

/-- `sqrt_m` of diag(1, 36, 1/4) -/
theorem sqrtM_exB :
    sqrtM (⟨1, 0, 0, 36, 0, 1 / 4⟩ : M6 ℝ) = .ok (⟨1, 0, 0, 6, 0, 1 / 2⟩, ⟨1 / 1, 0, 0, 1 / 6, 0, 1 / (1 / 2)⟩) := by
  unfold sqrtM; rw [diagM_diagonal' 1 36 (1 / 4)]
  have hneg : (Scalar.lt (1 : ℝ) Scalar.zero || Scalar.lt (36 : ℝ) Scalar.zero || Scalar.lt (1 / 4 : ℝ) Scalar.zero) = false := by
    simp [lt_false_iff, zero_eq]
  simp only [hneg, Bool.false_eq_true, if_false]
  unfold sqrtTail
  simp only [mapEig, sqrt_eq, sqrt36, sqrt_quarter, Real.sqrt_one, one_eq, div_eq]
  have g1 : Scalar.divisible (1 : ℝ) 1 = true := by rw [divisible_iff]; norm_num
  have g6 : Scalar.divisible (1 : ℝ) 6 = true := by rw [divisible_iff]; norm_num
  have gh : Scalar.divisible (1 : ℝ) (1 / 2) = true := by rw [divisible_iff]; norm_num
  simp only [g1, g6, gh, Bool.not_true, Bool.false_eq_true, if_false]
  rw [formM_diag, formM_diag]

theorem sqrtM_exA' :
    sqrtM (⟨4, 0, 0, 9, 0, 1⟩ : M6 ℝ) = .ok (⟨2, 0, 0, 3, 0, 1⟩, ⟨1 / 2, 0, 0, 1 / 3, 0, 1 / 1⟩) := by
  rw [sqrtM_diag491]; norm_num

/-- intersection of a diagonal tensor whose square root is known with any diagonal tensor, and the exactness of
    the two inner decompositions -/
theorem intersect_diag {a b c sa sb sc : ℝ}
    (hs : sqrtM (⟨a, 0, 0, b, 0, c⟩ : M6 ℝ) = .ok (⟨sa, 0, 0, sb, 0, sc⟩, ⟨1 / sa, 0, 0, 1 / sb, 0, 1 / sc⟩)) (x y z : ℝ) :
    intersect (⟨a, 0, 0, b, 0, c⟩ : M6 ℝ) ⟨x, 0, 0, y, 0, z⟩ =
      .ok ⟨sa * max 1 (1 / sa * x * (1 / sa)) * sa, 0, 0, sb * max 1 (1 / sb * y * (1 / sb)) * sb, 0,
           sc * max 1 (1 / sc * z * (1 / sc)) * sc⟩ ∧
    CallExact (⟨a, 0, 0, b, 0, c⟩ : M6 ℝ) ⟨x, 0, 0, y, 0, z⟩ := by
  constructor
  · unfold intersect; rw [hs]
    dsimp only
    unfold combine
    dsimp only
    rw [multM0M1M0_diag, diagM_diagonal']
    dsimp only
    simp only [mapEig, cmax_eq, one_eq]
    rw [formM_diag, multM0M1M0_diag]
  · refine ⟨_, _, _, ⟨1 / sa * x * (1 / sa), 1 / sb * y * (1 / sb), 1 / sc * z * (1 / sc), 1, 0, 0, 0, 1, 0, 0, 0, 1⟩,
      ⟨diagM_diagonal' a b c, isEigSys_diag a b c, hs, ?_, ?_⟩⟩
    · rw [multM0M1M0_diag]; exact diagM_diagonal' _ _ _
    · rw [multM0M1M0_diag]; exact isEigSys_diag _ _ _

theorem exA_exB : intersect exA exB = .ok exBoth := by
  unfold exA exB exBoth; rw [(intersect_diag sqrtM_exA' _ _ _).1]; norm_num
theorem exA_exBoth : intersect exA exBoth = .ok exBoth := by
  unfold exA exBoth; rw [(intersect_diag sqrtM_exA' _ _ _).1]; norm_num
theorem exB_exA : intersect exB exA = .ok exBoth := by
  unfold exA exB exBoth; rw [(intersect_diag sqrtM_exB _ _ _).1]; norm_num
theorem exB_exBoth : intersect exB exBoth = .ok exBoth := by
  unfold exB exBoth; rw [(intersect_diag sqrtM_exB _ _ _).1]; norm_num

/-- `r = 1`: `log r = 0`, the enlargement factor is `1^-2 = 1`, the limit metric is the neighbour's metric -/
theorem limitMS_log_one (m : M6 ℝ) (dir : Vec3 ℝ) : limitMS (Real.log 1) m dir = m := by
  unfold limitMS scaleM
  simp only [Real.log_one, mul_eq, add_eq, one_eq, pow_eq, mul_zero, add_zero, Real.one_rpow, mul_one]

theorem exUpd01 (dir : Vec3 ℝ) : msUpdate (Real.log 1) dir exField exField 0 1 = some [exBoth, exB] := by
  unfold msUpdate
  rw [limitMS_log_one]
  have h0 : mAt exField 0 = exA := rfl
  have h1 : mAt exField 1 = exB := rfl
  rw [h0, h1, exA_exB]
  dsimp only
  rw [exA_exBoth]
  rfl

theorem exUpd10 (dir : Vec3 ℝ) : msUpdate (Real.log 1) dir exField [exBoth, exB] 1 0 = some [exBoth, exBoth] := by
  unfold msUpdate
  rw [limitMS_log_one]
  have h0 : mAt exField 0 = exA := rfl
  have h1 : mAt exField 1 = exB := rfl
  have h2 : mAt [exBoth, exB] 1 = exB := rfl
  rw [h0, h1, h2, exB_exA]
  dsimp only
  rw [exB_exBoth]
  rfl

theorem exEdge : msEdge exXyz (Real.log 1) exField exField (0, 1) = [exBoth, exBoth] := by
  unfold msEdge
  dsimp only
  rw [exUpd01]
  dsimp only
  rw [exUpd10]

theorem exSweep_value : msSweeps exXyz 1 [(0, 1)] 1 exField = [exBoth, exBoth] := by
  unfold msSweeps msSweeps msSweep
  rw [log_eq, List.foldl_cons, List.foldl_nil, exEdge]

theorem exEdgeExact : EdgeExact exXyz (Real.log 1) exField exField (0, 1) := by
  constructor
  · intro limited hl
    rw [limitMS_log_one] at hl
    have h0 : mAt exField 0 = exA := rfl
    have h1 : mAt exField 1 = exB := rfl
    rw [h0, h1, exA_exB] at hl
    injection hl with hl
    subst hl
    rw [h0]
    unfold exA exBoth
    exact (intersect_diag sqrtM_exA' _ _ _).2
  · intro metric1 hm limited hl
    rw [exUpd01] at hm
    injection hm with hm
    subst hm
    rw [limitMS_log_one] at hl
    have h0 : mAt exField 0 = exA := rfl
    have h1 : mAt exField 1 = exB := rfl
    have h2 : mAt [exBoth, exB] 1 = exB := rfl
    rw [h0, h1, exB_exA] at hl
    injection hl with hl
    subst hl
    rw [h2]
    unfold exB exBoth
    exact (intersect_diag sqrtM_exB _ _ _).2

theorem exSweepsExact : SweepsExact exXyz 1 [(0, 1)] 1 exField :=
  ⟨⟨exEdgeExact, trivial⟩, trivial⟩

end Refine.Model.Gradation
