import Refine.Lemmas.GeomReal
import Refine.Model.Kexact
import Mathlib.Algebra.BigOperators.Group.Finset.Basic
import Mathlib.Algebra.BigOperators.Ring.Finset
import Mathlib.Algebra.Order.BigOperators.Group.Finset
import Mathlib.Tactic.Ring
import Mathlib.Tactic.Linarith
import Mathlib.Tactic.FieldSimp
import Mathlib.Tactic.NormNum

/-!
  Real-number lemmas about the least-squares chain of `Model/Kexact.lean`
  (`qrLoop` = `ref_matrix_qr`, `elim`/`backSub` = `ref_matrix_solve_ab`):

  * `qrLoop_spec` — when the coded Gram–Schmidt succeeds, `QᵀA = R` with `R` upper triangular
    (`QtA`), the columns of `Q` have the input length, and the diagonal guard forces `r_kk ≠ 0`;
  * `map_dot_eq_rhsOf` — hence for a consistent right-hand side `b = A z`, `Qᵀ b = R z` (`rhsOf R z`);
  * `solve_upper` — `solveAb` on `[R | R z]` returns `z`.
-/
namespace Refine.KexactReal
open Refine Refine.Model.Geom Refine.Model.Kexact Refine.ScalarReal Refine.GeomReal

/-! ### lists as vectors -/

/-- a list read as a function (zero beyond its length) -/
def vec (c : List ℝ) : ℕ → ℝ := fun i => c.getD i 0

/-- inner product of the first `m` entries -/
def ip (m : ℕ) (u v : ℕ → ℝ) : ℝ := ∑ i ∈ Finset.range m, u i * v i

@[simp] theorem vec_nil (i : ℕ) : vec [] i = 0 := by simp [vec]
@[simp] theorem vec_cons_zero (x : ℝ) (c : List ℝ) : vec (x :: c) 0 = x := by simp [vec]
@[simp] theorem vec_cons_succ (x : ℝ) (c : List ℝ) (i : ℕ) : vec (x :: c) (i + 1) = vec c i := by
  simp [vec]

theorem vec_map (f : ℝ → ℝ) (hf : f 0 = 0) (c : List ℝ) (i : ℕ) : vec (c.map f) i = f (vec c i) := by
  induction c generalizing i with
  | nil => simp [hf]
  | cons x c ih => cases i with
    | zero => simp
    | succ i => simp [ih]

theorem vec_zipWith (f : ℝ → ℝ → ℝ) (hf : f 0 0 = 0) :
    ∀ (a b : List ℝ), a.length = b.length → ∀ i, vec (List.zipWith f a b) i = f (vec a i) (vec b i)
  | [], [], _, i => by simp [hf]
  | [], _ :: _, h, _ => by simp at h
  | _ :: _, [], h, _ => by simp at h
  | x :: a, y :: b, h, i => by
    cases i with
    | zero => simp
    | succ i =>
      simp only [List.zipWith_cons_cons, vec_cons_succ]
      exact vec_zipWith f hf a b (by simpa using h) i

theorem ip_comm (m : ℕ) (u v : ℕ → ℝ) : ip m u v = ip m v u := by
  unfold ip; exact Finset.sum_congr rfl (fun i _ => mul_comm _ _)

theorem ip_congr_left {m : ℕ} {u u' : ℕ → ℝ} (v : ℕ → ℝ) (h : ∀ i, i < m → u i = u' i) :
    ip m u v = ip m u' v := by
  unfold ip; exact Finset.sum_congr rfl (fun i hi => by rw [h i (Finset.mem_range.mp hi)])

theorem ip_congr_right {m : ℕ} (u : ℕ → ℝ) {v v' : ℕ → ℝ} (h : ∀ i, i < m → v i = v' i) :
    ip m u v = ip m u v' := by
  unfold ip; exact Finset.sum_congr rfl (fun i hi => by rw [h i (Finset.mem_range.mp hi)])

theorem ip_sub_smul_left (m : ℕ) (u w v : ℕ → ℝ) (r : ℝ) :
    ip m (fun i => u i - r * w i) v = ip m u v - r * ip m w v := by
  unfold ip
  rw [Finset.mul_sum, ← Finset.sum_sub_distrib]
  exact Finset.sum_congr rfl (fun i _ => by ring)

theorem ip_sub_smul_right (m : ℕ) (v u w : ℕ → ℝ) (r : ℝ) :
    ip m v (fun i => u i - r * w i) = ip m v u - r * ip m v w := by
  rw [ip_comm, ip_sub_smul_left, ip_comm m u, ip_comm m w]

theorem ip_div_right (m : ℕ) (v u : ℕ → ℝ) (r : ℝ) :
    ip m v (fun i => u i / r) = ip m v u / r := by
  unfold ip
  rw [div_eq_mul_inv, Finset.sum_mul]
  exact Finset.sum_congr rfl (fun i _ => by ring)

theorem ip_smul_add_right (m : ℕ) (v u w : ℕ → ℝ) (r : ℝ) :
    ip m v (fun i => r * u i + w i) = r * ip m v u + ip m v w := by
  unfold ip
  rw [Finset.mul_sum, ← Finset.sum_add_distrib]
  exact Finset.sum_congr rfl (fun i _ => by ring)

theorem ip_zero_right (m : ℕ) (v : ℕ → ℝ) : ip m v (fun _ => 0) = 0 := by
  unfold ip; simp

theorem ip_self_nonneg (m : ℕ) (u : ℕ → ℝ) : 0 ≤ ip m u u := by
  unfold ip; exact Finset.sum_nonneg (fun i _ => mul_self_nonneg _)

/-! ### the coded dot product -/

theorem foldl_add_start (l : List ℝ) (s : ℝ) : l.foldl (fun s t => s +. t) s = s + l.sum := by
  induction l generalizing s with
  | nil => simp
  | cons x l ih => rw [List.foldl_cons, ih, List.sum_cons, add_eq]; ring

theorem sum_zipWith_mul : ∀ (a b : List ℝ) (m : ℕ), a.length = m → b.length = m →
    (List.zipWith (fun x y => x *. y) a b).sum = ip m (vec a) (vec b)
  | [], [], m, ha, _ => by simp at ha; subst ha; simp [ip]
  | [], _ :: _, m, ha, hb => by simp at ha hb; omega
  | _ :: _, [], m, ha, hb => by simp at ha hb; omega
  | x :: a, y :: b, m, ha, hb => by
    cases m with
    | zero => simp at ha
    | succ m =>
      have ih := sum_zipWith_mul a b m (by simpa using ha) (by simpa using hb)
      rw [List.zipWith_cons_cons, List.sum_cons, ih, mul_eq]
      unfold ip
      rw [Finset.sum_range_succ']
      simp only [vec_cons_succ, vec_cons_zero]
      ring

theorem dotl_eq_ip (a b : List ℝ) (m : ℕ) (ha : a.length = m) (hb : b.length = m) :
    dotl a b = ip m (vec a) (vec b) := by
  unfold dotl
  rw [foldl_add_start, sum_zipWith_mul a b m ha hb, lit0_eq, zero_add]

theorem vec_axmy (r : ℝ) (qj qk : List ℝ) (h : qj.length = qk.length) (i : ℕ) :
    vec (axmy r qj qk) i = vec qj i - r * vec qk i := by
  unfold axmy
  have := vec_zipWith (fun x y => x -. r *. y) (by simp) qj qk h i
  simpa using this

theorem vec_divAll (q : List ℝ) (r : ℝ) (i : ℕ) : vec (q.map (fun x => x /. r)) i = vec q i / r := by
  have := vec_map (fun x => x /. r) (by simp) q i
  simpa using this

/-! ### `QᵀA = R`, upper triangular -/

/-- `R` row `k` lists `q_k · a_j` for `j ≥ k`, and `q_k · a_j = 0` for `j < k` -/
def QtA (m : ℕ) : List (List ℝ) → List (List ℝ) → List (List ℝ) → Prop
  | [], [], [] => True
  | q :: Q, r :: R, a :: as =>
    r = (a :: as).map (fun aj => ip m (vec q) (vec aj)) ∧
    (∀ q' ∈ Q, ip m (vec q') (vec a) = 0) ∧ QtA m Q R as
  | _, _, _ => False

/-- what the loop maintains between the original and the working columns, relative to the finished
    orthonormal columns `D` -/
def Pair (m : ℕ) (D : List (ℕ → ℝ)) (a q : List ℝ) : Prop :=
  q.length = m ∧ (∀ d ∈ D, ip m (vec q) d = 0) ∧
  (∀ v : ℕ → ℝ, (∀ d ∈ D, ip m v d = 0) → ip m v (vec a) = ip m v (vec q))

theorem forall₂_zipWith {P P' : List ℝ → List ℝ → Prop} (f : List ℝ → List ℝ → List ℝ) :
    ∀ {as qs : List (List ℝ)}, List.Forall₂ P as qs → (∀ a q, a ∈ as → P a q → P' a (f a q)) →
      List.Forall₂ P' as (List.zipWith f as qs)
  | _, _, .nil, _ => by simp
  | _, _, .cons h t, hf => by
    simp only [List.zipWith_cons_cons]
    exact .cons (hf _ _ (by simp) h) (forall₂_zipWith f t (fun a q ha => hf a q (by simp [ha])))

theorem all_divisible_ne_zero {q : List ℝ} {r : ℝ} (hq : q ≠ [])
    (h : q.all (fun x => Scalar.divisible x r) = true) : r ≠ 0 := by
  cases q with
  | nil => exact absurd rfl hq
  | cons x q =>
    simp only [List.all_cons, Bool.and_eq_true] at h
    exact divisible_ne_zero h.1

theorem qrLoop_spec (m : ℕ) (hm : 0 < m) :
    ∀ (as qs : List (List ℝ)) (D : List (ℕ → ℝ)) (Q R : List (List ℝ)),
      (∀ a ∈ as, a.length = m) → List.Forall₂ (Pair m D) as qs →
      qrLoop as qs = some (Q, R) →
      (∀ q ∈ Q, q.length = m ∧ ∀ d ∈ D, ip m (vec q) d = 0) ∧ QtA m Q R as ∧
      (∀ v : ℕ → ℝ, (∀ d ∈ D, ip m v d = 0) → (∀ q ∈ Q, ip m v (vec q) = 0) →
        ∀ a ∈ as, ip m v (vec a) = 0)
  | [], qs, D, Q, R, _, _, h => by
    simp only [qrLoop, Option.some.injEq, Prod.mk.injEq] at h
    obtain ⟨rfl, rfl⟩ := h
    simp [QtA]
  | a :: as, [], D, Q, R, _, hp, _ => by cases hp
  | a :: as, qt :: qs, D, Q, R, hlen, hp, h => by
    obtain ⟨hqt, hrest⟩ := List.forall₂_cons.mp hp
    obtain ⟨hqtlen, hqtD, hqtv⟩ := hqt
    have hqtne : qt ≠ [] := by
      intro hnil; rw [hnil] at hqtlen; simp at hqtlen; omega
    unfold qrLoop at h
    simp only at h
    split at h
    case isFalse => cases h
    case isTrue hguard =>
    -- the diagonal entry
    have hdd : dotl qt qt = ip m (vec qt) (vec qt) := dotl_eq_ip qt qt m hqtlen hqtlen
    set s := ip m (vec qt) (vec qt) with hs
    have hs0 : 0 ≤ s := ip_self_nonneg m _
    rw [hdd, sqrt_eq] at hguard h
    set rkk := Real.sqrt s with hrkk
    have hr0 : rkk ≠ 0 := all_divisible_ne_zero hqtne hguard
    have hrr : rkk * rkk = s := Real.mul_self_sqrt hs0
    set qk := qt.map (fun x => x /. rkk) with hqk
    have hqklen : qk.length = m := by simp [hqk, hqtlen]
    have hvk : ∀ i, vec qk i = vec qt i / rkk := fun i => vec_divAll qt rkk i
    have hipk : ∀ v, ip m v (vec qk) = ip m v (vec qt) / rkk := fun v => by
      rw [← ip_div_right]; exact ip_congr_right v (fun i _ => hvk i)
    have hkD : ∀ d ∈ D, ip m (vec qk) d = 0 := fun d hd => by
      rw [ip_comm, hipk, ip_comm, hqtD d hd, zero_div]
    have hkk : ip m (vec qk) (vec qk) = 1 := by
      rw [hipk, ip_comm, hipk, ← hs, ← hrr]; field_simp
    -- the rest of the loop
    cases hrec : qrLoop as (List.zipWith (fun aj qj => axmy (dotl aj qk) qj qk) as qs) with
    | none => rw [hrec] at h; cases h
    | some QR =>
      obtain ⟨Q', R'⟩ := QR
      rw [hrec] at h
      simp only [Option.some.injEq, Prod.mk.injEq] at h
      obtain ⟨rfl, rfl⟩ := h
      have hlen' : ∀ a' ∈ as, a'.length = m := fun a' ha' => hlen a' (by simp [ha'])
      have hp' : List.Forall₂ (Pair m (vec qk :: D)) as
          (List.zipWith (fun aj qj => axmy (dotl aj qk) qj qk) as qs) := by
        refine forall₂_zipWith _ hrest ?_
        intro a' q' ha' ⟨hq'len, hq'D, hq'v⟩
        have hd' : dotl a' qk = ip m (vec qk) (vec q') := by
          rw [dotl_eq_ip a' qk m (hlen' a' ha') hqklen, ip_comm, hq'v _ hkD]
        have hva : ∀ i, vec (axmy (dotl a' qk) q' qk) i = vec q' i - dotl a' qk * vec qk i :=
          fun i => vec_axmy _ q' qk (by rw [hq'len, hqklen]) i
        refine ⟨?_, ?_, ?_⟩
        · simp [axmy, hq'len, hqklen]
        · intro d hd
          rw [ip_congr_left d (fun i _ => hva i), ip_sub_smul_left]
          rcases List.mem_cons.mp hd with rfl | hd
          · rw [hkk, hd', ip_comm m (vec q')]; ring
          · rw [hq'D d hd, hkD d hd]; ring
        · intro v hv
          have hvD : ∀ d ∈ D, ip m v d = 0 := fun d hd => hv d (by simp [hd])
          have hvk0 : ip m v (vec qk) = 0 := hv _ (by simp)
          rw [ip_congr_right v (fun i _ => hva i), ip_sub_smul_right, hvk0, hq'v v hvD]; ring
      obtain ⟨hQ', hQtA', hC4'⟩ := qrLoop_spec m hm as _ (vec qk :: D) Q' R' hlen' hp' hrec
      refine ⟨?_, ⟨?_, ?_, hQtA'⟩, ?_⟩
      · intro q hq
        rcases List.mem_cons.mp hq with rfl | hq
        · exact ⟨hqklen, hkD⟩
        · exact ⟨(hQ' q hq).1, fun d hd => (hQ' q hq).2 d (by simp [hd])⟩
      · -- the row of R
        simp only [List.map_cons, List.cons.injEq]
        refine ⟨?_, ?_⟩
        · rw [hqtv _ hkD, ip_comm, hipk, ← hs, ← hrr]; field_simp
        · refine List.map_congr_left (fun a' ha' => ?_)
          rw [dotl_eq_ip a' qk m (hlen' a' ha') hqklen, ip_comm]
      · intro q' hq'
        have hq'D : ∀ d ∈ D, ip m (vec q') d = 0 := fun d hd => (hQ' q' hq').2 d (by simp [hd])
        have hq'k : ip m (vec q') (vec qk) = 0 := (hQ' q' hq').2 _ (by simp)
        rw [hqtv _ hq'D]
        have : ip m (vec q') (vec qt) = ip m (vec q') (vec qk) * rkk := by
          rw [hipk]; field_simp
        rw [this, hq'k, zero_mul]
      · intro v hvD hvQ a' ha'
        rcases List.mem_cons.mp ha' with rfl | ha'
        · rw [hqtv v hvD]
          have : ip m v (vec qt) = ip m v (vec qk) * rkk := by
            rw [hipk]; field_simp
          rw [this, hvQ qk (by simp), zero_mul]
        · refine hC4' v ?_ (fun q hq => hvQ q (by simp [hq])) a' ha'
          intro d hd
          rcases List.mem_cons.mp hd with rfl | hd
          · exact hvQ qk (by simp)
          · exact hvD d hd

/-! ### consistent right-hand sides -/

/-- `Σ_j z_j a_j` as a function -/
def lincomb : List (List ℝ) → List ℝ → ℕ → ℝ
  | a :: as, z0 :: zs => fun i => z0 * vec a i + lincomb as zs i
  | [], _ => fun _ => 0
  | _ :: _, [] => fun _ => 0

/-- plain dot product of two coefficient lists -/
def ipl (r z : List ℝ) : ℝ := (List.zipWith (fun x y => x * y) r z).sum

@[simp] theorem ipl_nil_left (z : List ℝ) : ipl [] z = 0 := by simp [ipl]
@[simp] theorem ipl_nil_right (r : List ℝ) : ipl r [] = 0 := by simp [ipl]
@[simp] theorem ipl_cons (x z0 : ℝ) (r zs : List ℝ) : ipl (x :: r) (z0 :: zs) = x * z0 + ipl r zs := by
  simp [ipl]

/-- `R z` for `R` stored as rows from the diagonal on -/
def rhsOf : List (List ℝ) → List ℝ → List ℝ
  | r :: R, z0 :: zs => ipl r (z0 :: zs) :: rhsOf R zs
  | [], _ => []
  | _ :: _, [] => []

theorem ip_lincomb (m : ℕ) (v : ℕ → ℝ) :
    ∀ (as : List (List ℝ)) (z : List ℝ),
      ip m v (lincomb as z) = ipl (as.map (fun a => ip m v (vec a))) z
  | [], z => by simp [lincomb, ip_zero_right]
  | _ :: _, [] => by simp [lincomb, ip_zero_right]
  | a :: as, z0 :: zs => by
    simp only [lincomb, List.map_cons, ipl_cons]
    rw [ip_smul_add_right, ip_lincomb m v as zs]; ring

theorem map_dot_eq_rhsOf (m : ℕ) :
    ∀ (Q R as : List (List ℝ)) (z : List ℝ) (w : ℕ → ℝ), QtA m Q R as → z.length = as.length →
      (∀ i, i < m → w i = lincomb as z i) →
      Q.map (fun q => ip m (vec q) w) = rhsOf R z
  | [], [], [], z, w, _, _, _ => by simp [rhsOf]
  | q :: Q, r :: R, a :: as, [], w, _, hz, _ => by simp at hz
  | q :: Q, r :: R, a :: as, z0 :: zs, w, h, hz, hw => by
    obtain ⟨hr, horth, hrest⟩ := h
    simp only [List.map_cons, rhsOf, List.cons.injEq]
    refine ⟨?_, ?_⟩
    · rw [ip_congr_right _ hw, ip_lincomb, hr]
    · have hz' : zs.length = as.length := by simpa using hz
      rw [← map_dot_eq_rhsOf m Q R as zs (lincomb as zs) hrest hz' (fun _ _ => rfl)]
      refine List.map_congr_left (fun q' hq' => ?_)
      rw [ip_congr_right _ hw]
      show ip m (vec q') (fun i => z0 * vec a i + lincomb as zs i) = _
      rw [ip_smul_add_right, horth q' hq']; ring
  | [], [], _ :: _, _, _, h, _, _ => by simp [QtA] at h
  | [], _ :: _, _, _, _, h, _, _ => by simp [QtA] at h
  | _ :: _, [], _, _, _, h, _, _ => by simp [QtA] at h
  | _ :: _, _ :: _, [], _, _, h, _, _ => by simp [QtA] at h

theorem QtA_length (m : ℕ) : ∀ (Q R as : List (List ℝ)), QtA m Q R as →
    Q.length = as.length ∧ R.length = as.length
  | [], [], [], _ => by simp
  | q :: Q, r :: R, a :: as, h => by
    obtain ⟨_, _, hrest⟩ := h
    have := QtA_length m Q R as hrest
    simp [this.1, this.2]
  | [], [], _ :: _, h => by simp [QtA] at h
  | [], _ :: _, _, h => by simp [QtA] at h
  | _ :: _, [], _, h => by simp [QtA] at h
  | _ :: _, _ :: _, [], h => by simp [QtA] at h

/-- triangular storage: each row is one longer than the number of rows below it -/
def Tri : List (List ℝ) → Prop
  | [] => True
  | r :: R => r.length = R.length + 1 ∧ Tri R

theorem QtA_tri (m : ℕ) : ∀ (Q R as : List (List ℝ)), QtA m Q R as → Tri R
  | [], [], [], _ => by simp [Tri]
  | q :: Q, r :: R, a :: as, h => by
    obtain ⟨hr, _, hrest⟩ := h
    refine ⟨?_, QtA_tri m Q R as hrest⟩
    rw [hr, (QtA_length m Q R as hrest).2]; simp
  | [], [], _ :: _, h => by simp [QtA] at h
  | [], _ :: _, _, h => by simp [QtA] at h
  | _ :: _, [], _, h => by simp [QtA] at h
  | _ :: _, _ :: _, [], h => by simp [QtA] at h

/-! ### columns of a list of rows -/

theorem vec_column (rows : List (List ℝ)) (j i : ℕ) :
    vec (column rows j) i = (rows.getD i []).getD j 0 := by
  unfold column
  induction rows generalizing i with
  | nil => simp
  | cons r rows ih => cases i with
    | zero => simp
    | succ i => simpa using ih i

theorem lincomb_columns (rows : List (List ℝ)) (i : ℕ) :
    ∀ (n s : ℕ) (z : List ℝ), z.length = n →
      lincomb ((List.range' s n).map (column rows)) z i =
        ∑ j ∈ Finset.range n, z.getD j 0 * (rows.getD i []).getD (s + j) 0
  | 0, s, z, _ => by simp [lincomb]
  | n + 1, s, [], hz => by simp at hz
  | n + 1, s, z0 :: zs, hz => by
    rw [List.range'_succ, List.map_cons]
    simp only [lincomb]
    rw [lincomb_columns rows i n (s + 1) zs (by simpa using hz), Finset.sum_range_succ', vec_column]
    simp only [List.getD_cons_succ, List.getD_cons_zero, Nat.add_zero]
    rw [add_comm]
    congr 1
    refine Finset.sum_congr rfl (fun j _ => ?_)
    rw [show s + 1 + j = s + (j + 1) by omega]

theorem column_length (rows : List (List ℝ)) (j : ℕ) : (column rows j).length = rows.length := by
  simp [column]

/-! ### `ref_matrix_solve_ab` on an upper-triangular system -/

theorem pivotScan_zero_heads : ∀ (rows : List (List ℝ)) (i best : ℕ) (largest : ℝ), 0 ≤ largest →
    (∀ r ∈ rows, r.headD 0 = 0) → pivotScan rows i best largest = best
  | [], _, _, _, _, _ => rfl
  | r :: rows, i, best, largest, h0, hz => by
    unfold pivotScan
    have hr : r.headD (lit0 : ℝ) = 0 := by rw [lit0_eq]; exact hz r (by simp)
    simp only [hr, cabs_eq, abs_zero]
    rw [if_neg (by rw [lt_iff]; exact not_lt.mpr h0)]
    exact pivotScan_zero_heads rows _ _ _ h0 (fun r' hr' => hz r' (by simp [hr']))

theorem augment_heads_zero : ∀ (R : List (List ℝ)) (c : List ℝ) (k : ℕ),
    ∀ row ∈ augment (k + 1) R c, row.headD 0 = 0
  | [], _, _, row, h => by simp [augment] at h
  | _ :: _, [], _, row, h => by simp [augment] at h
  | r :: R, c0 :: cs, k, row, h => by
    simp only [augment, List.mem_cons] at h
    rcases h with rfl | h
    · simp [List.replicate_succ]
    · exact augment_heads_zero R cs (k + 1) row h

theorem zipWith_sub_zero : ∀ (row nrow : List ℝ), row.length ≤ nrow.length →
    List.zipWith (fun x y => x -. y *. (0 : ℝ)) row nrow = row
  | [], _, _ => by simp
  | _ :: _, [], h => by simp at h
  | x :: row, y :: nrow, h => by
    simp only [List.zipWith_cons_cons, sub_eq, mul_eq, mul_zero, sub_zero, List.cons.injEq, true_and]
    have := zipWith_sub_zero row nrow (by simpa using h)
    simpa using this

theorem others_eq : ∀ (R : List (List ℝ)) (cs : List ℝ) (k : ℕ) (nrow : List ℝ), Tri R →
    nrow.length = k + 2 + R.length →
    (augment (k + 1) R cs).map (fun r =>
      (List.zipWith (fun x y => x -. y *. r.headD (lit0 : ℝ)) r nrow).tail) = augment k R cs
  | [], _, _, _, _, _ => by simp [augment]
  | _ :: _, [], _, _, _, _ => by simp [augment]
  | r :: R, c0 :: cs, k, nrow, ht, hn => by
    obtain ⟨hrl, ht'⟩ := ht
    simp only [augment, List.map_cons, List.cons.injEq]
    refine ⟨?_, ?_⟩
    · have hh : (List.replicate (k + 1) (lit0 : ℝ) ++ r ++ [c0]).headD lit0 = 0 := by
        simp [List.replicate_succ]
      rw [hh, zipWith_sub_zero _ nrow (by simp [hrl, hn] at *; omega)]
      simp [List.replicate_succ]
    · exact others_eq R cs (k + 1) nrow ht' (by simp at hn ⊢; omega)

/-- the pivot rows `solve_ab` produces from `[R | c]`: every row divided by its diagonal entry -/
noncomputable def normRows : List (List ℝ) → List ℝ → List (List ℝ)
  | r :: R, c0 :: cs => (r ++ [c0]).map (fun x => x / r.headD 0) :: normRows R cs
  | [], _ => []
  | _ :: _, [] => []

theorem elim_upper : ∀ (R : List (List ℝ)) (c : List ℝ) (fuel : ℕ) (ill : Bool) (ps : List (List ℝ)),
    Tri R → c.length = R.length → R.length ≤ fuel →
    elim fuel (augment 0 R c) = some (ill, ps) →
    ps = normRows R c ∧ ∀ r ∈ R, r.headD 0 ≠ 0
  | [], c, fuel, ill, ps, _, _, _, h => by
    cases fuel with
    | zero => simp [elim] at h; simp [h.2, normRows]
    | succ f => simp [elim, augment, swap0] at h; simp [h.2, normRows]
  | r :: R, [], _, _, _, _, hc, _, _ => by simp at hc
  | r :: R, c0 :: cs, 0, _, _, _, _, hf, _ => by simp at hf
  | r :: R, c0 :: cs, f + 1, ill, ps, ht, hc, hf, h => by
    obtain ⟨hrl, ht'⟩ := ht
    obtain ⟨d, rt, rfl⟩ : ∃ d rt, r = d :: rt := by
      cases r with
      | nil => simp at hrl
      | cons d rt => exact ⟨d, rt, rfl⟩
    have hpr : pivotRow (augment 0 ((d :: rt) :: R) (c0 :: cs)) = 0 := by
      simp only [augment, pivotRow]
      exact pivotScan_zero_heads _ _ _ _ (by rw [cabs_eq]; exact abs_nonneg _)
        (augment_heads_zero R cs 0)
    have haug : augment 0 ((d :: rt) :: R) (c0 :: cs) = (d :: (rt ++ [c0])) :: augment (0 + 1) R cs := by
      simp [augment]
    rw [haug] at h hpr
    have hs : swap0 ((d :: (rt ++ [c0])) :: augment (0 + 1) R cs) 0 =
        (d :: (rt ++ [c0])) :: augment (0 + 1) R cs := by simp [swap0]
    rw [elim, hpr, hs] at h
    dsimp only at h
    split at h
    case isFalse => cases h
    case isTrue hguard =>
    have hd0 : d ≠ 0 := by
      simp only [List.all_cons, Bool.and_eq_true, List.headD_cons] at hguard
      exact divisible_ne_zero hguard.1
    rw [others_eq R cs 0 _ ht' (by simp at hrl ⊢; omega)] at h
    cases hrec : elim f (augment 0 R cs) with
    | none => rw [hrec] at h; cases h
    | some res =>
      obtain ⟨ill', ps'⟩ := res
      rw [hrec] at h
      dsimp only at h
      simp only [Option.some.injEq, Prod.mk.injEq] at h
      obtain ⟨_, rfl⟩ := h
      obtain ⟨hps', hR⟩ := elim_upper R cs f ill' ps' ht' (by simpa using hc) (by simpa using hf) hrec
      refine ⟨?_, ?_⟩
      · simp only [normRows, List.cons_append, List.headD_cons, List.map_cons, div_eq, hps']
      · intro r' hr'
        rcases List.mem_cons.mp hr' with rfl | hr'
        · simpa using hd0
        · exact hR r' hr'

theorem foldl_sub_mul : ∀ (us zs : List ℝ) (c : ℝ),
    (List.zip us zs).foldl (fun acc ux => acc -. ux.1 *. ux.2) c = c - ipl us zs
  | [], _, c => by simp
  | _ :: _, [], c => by simp
  | u :: us, z0 :: zs, c => by
    simp only [List.zip_cons_cons, List.foldl_cons, ipl_cons]
    rw [foldl_sub_mul us zs]; simp only [sub_eq, mul_eq]; ring

theorem ipl_map_div : ∀ (us zs : List ℝ) (d : ℝ), ipl (us.map (fun x => x / d)) zs = ipl us zs / d
  | [], _, _ => by simp
  | _ :: _, [], _ => by simp
  | u :: us, z0 :: zs, d => by
    simp only [List.map_cons, ipl_cons, ipl_map_div us zs d]; ring

theorem backSub_upper : ∀ (R : List (List ℝ)) (z x : List ℝ), Tri R → z.length = R.length →
    (∀ r ∈ R, r.headD 0 ≠ 0) → backSub (normRows R (rhsOf R z)) = some x → x = z
  | [], z, x, _, hz, _, h => by
    simp [normRows, backSub] at h
    have : z = [] := by simpa using hz
    rw [this, h]
  | r :: R, [], _, _, hz, _, _ => by simp at hz
  | r :: R, z0 :: zs, x, ht, hz, hd, h => by
    obtain ⟨hrl, ht'⟩ := ht
    obtain ⟨d, rt, rfl⟩ : ∃ d rt, r = d :: rt := by
      cases r with
      | nil => simp at hrl
      | cons d rt => exact ⟨d, rt, rfl⟩
    have hd0 : d ≠ 0 := by simpa using hd (d :: rt) (by simp)
    have hzl : zs.length = R.length := by simpa using hz
    have hrtl : rt.length = zs.length := by simp at hrl; omega
    simp only [rhsOf, normRows, List.cons_append, List.headD_cons, List.map_cons] at h
    unfold backSub at h
    cases hrec : backSub (normRows R (rhsOf R zs)) with
    | none => rw [hrec] at h; cases h
    | some xs =>
      rw [hrec] at h
      have hxs : xs = zs := backSub_upper R zs xs ht' hzl (fun r' hr' => hd r' (by simp [hr'])) hrec
      subst hxs
      simp only [List.headD_cons, List.tail_cons, List.map_append, List.map_cons, List.map_nil] at h
      have hzip : List.zip (rt.map (fun x => x / d) ++ [ipl (d :: rt) (z0 :: xs) / d]) xs =
          List.zip (rt.map (fun x => x / d)) xs := by
        have := List.zip_append (l₁ := rt.map (fun x => x / d)) (r₁ := [ipl (d :: rt) (z0 :: xs) / d])
          (l₂ := xs) (r₂ := []) (by simp [hrtl])
        simpa using this
      have hget : (rt.map (fun x => x / d) ++ [ipl (d :: rt) (z0 :: xs) / d]).getD xs.length (lit0 : ℝ) =
          ipl (d :: rt) (z0 :: xs) / d := by
        rw [← hrtl]
        simp [List.getD_eq_getElem?_getD]
      rw [hzip, hget, foldl_sub_mul, ipl_map_div] at h
      split at h
      case isFalse => cases h
      case isTrue =>
        simp only [Option.some.injEq] at h
        rw [← h]
        simp only [ipl_cons, div_eq, List.cons.injEq, and_true]
        field_simp
        ring

theorem rhsOf_length : ∀ (R : List (List ℝ)) (z : List ℝ), z.length = R.length →
    (rhsOf R z).length = R.length
  | [], _, _ => by simp [rhsOf]
  | _ :: _, [], h => by simp at h
  | r :: R, z0 :: zs, h => by simp [rhsOf, rhsOf_length R zs (by simpa using h)]

theorem augment_length : ∀ (R : List (List ℝ)) (c : List ℝ) (k : ℕ), c.length = R.length →
    (augment k R c).length = R.length
  | [], _, _, _ => by simp [augment]
  | _ :: _, [], _, h => by simp at h
  | r :: R, c0 :: cs, k, h => by simp [augment, augment_length R cs (k + 1) (by simpa using h)]

theorem solve_upper (R : List (List ℝ)) (z x : List ℝ) (ill : Bool) (ht : Tri R)
    (hz : z.length = R.length) (h : solveAb (augment 0 R (rhsOf R z)) = some (ill, x)) : x = z := by
  unfold solveAb at h
  rw [augment_length R _ 0 (rhsOf_length R z hz)] at h
  cases he : elim R.length (augment 0 R (rhsOf R z)) with
  | none => rw [he] at h; cases h
  | some res =>
    obtain ⟨ill', ps⟩ := res
    rw [he] at h
    dsimp only at h
    obtain ⟨hps, hd⟩ := elim_upper R _ R.length ill' ps ht (rhsOf_length R z hz) (le_refl _) he
    subst hps
    cases hb : backSub (normRows R (rhsOf R z)) with
    | none => rw [hb] at h; cases h
    | some x' =>
      rw [hb] at h
      simp only [Option.some.injEq, Prod.mk.injEq] at h
      rw [← h.2]
      exact backSub_upper R z x' ht hz hd hb

/-! ### the chain -/

theorem lsq_consistent (n : ℕ) (rows : List (List ℝ)) (b z x : List ℝ)
    (hrows : rows ≠ []) (hb : b.length = rows.length) (hz : z.length = n)
    (hcons : ∀ i, i < rows.length →
      ∑ j ∈ Finset.range n, z.getD j 0 * (rows.getD i []).getD j 0 = b.getD i 0)
    (h : lsq n rows b = (KSt.ok, x)) : x = z := by
  have hm : 0 < rows.length := List.length_pos_iff.mpr hrows
  set m := rows.length with hmdef
  unfold lsq at h
  cases hq : qr (columns n rows) with
  | none => rw [hq] at h; simp at h
  | some QR =>
    obtain ⟨Q, R⟩ := QR
    rw [hq] at h
    dsimp only at h
    have hlen : ∀ a ∈ columns n rows, a.length = m := by
      intro a ha
      simp only [columns, List.mem_map] at ha
      obtain ⟨j, _, rfl⟩ := ha
      exact column_length rows j
    have hpair : List.Forall₂ (Pair m []) (columns n rows) (columns n rows) := by
      rw [List.forall₂_same]
      intro a ha
      exact ⟨hlen a ha, by simp, fun _ _ => rfl⟩
    obtain ⟨hQ, hQtA, _⟩ := qrLoop_spec m hm _ _ [] Q R hlen hpair hq
    have hcl : (columns n rows).length = n := by simp [columns]
    have hw : ∀ i, i < m → vec b i = lincomb (columns n rows) z i := by
      intro i hi
      have := lincomb_columns rows i n 0 z hz
      rw [columns, List.range_eq_range', this]
      simp only [Nat.zero_add]
      rw [hcons i hi]
      rfl
    have hc : Q.map (fun qj => dotl qj b) = rhsOf R z := by
      rw [← map_dot_eq_rhsOf m Q R _ z (vec b) hQtA (by rw [hcl, hz]) hw]
      exact List.map_congr_left (fun q hq' => dotl_eq_ip q b m (hQ q hq').1 hb)
    rw [hc] at h
    cases hs : solveAb (augment 0 R (rhsOf R z)) with
    | none => rw [hs] at h; simp at h
    | some res =>
      obtain ⟨ill, x'⟩ := res
      rw [hs] at h
      dsimp only at h
      have hx' : x' = z := solve_upper R z x' ill (QtA_tri m Q R _ hQtA)
        (by rw [(QtA_length m Q R _ hQtA).2, hcl, hz]) hs
      cases ill with
      | true => simp at h
      | false =>
        simp only [Bool.false_eq_true, if_false, Prod.mk.injEq, true_and] at h
        rw [← h, hx']

theorem sqrt25 : Real.sqrt 25 = 5 := by
  rw [show (25 : ℝ) = 5 * 5 by norm_num]; exact Real.sqrt_mul_self (by norm_num)
theorem sqrt100 : Real.sqrt 100 = 10 := by
  rw [show (100 : ℝ) = 10 * 10 by norm_num]; exact Real.sqrt_mul_self (by norm_num)

end Refine.KexactReal
