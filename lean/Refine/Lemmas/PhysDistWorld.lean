import Refine.Lemmas.PhysDistFold
import Refine.Lemmas.PhysDistExch
import Refine.Props.C06Ghost

/-!
  Assembly of `ref_phys_wall_distance` (`Refine.Model.PhysDist.wallDistParWith`): for every search that folds an
  operation `op` over the elements of its chunk, the value stored at every vertex of every rank is the fold of `op`
  over ALL wall elements of ALL ranks, evaluated at the vertex (owned) or at its owner's copy (ghost).
-/
namespace Refine.Lemmas.PhysDist
open Refine Refine.Model Refine.Model.Geom Refine.Model.PhysDist
open Refine.Model.Comm Refine.Lemmas.Comm Refine.Model.Dist Refine.Lemmas.DistGhostFull

set_option linter.unusedSectionVars false

variable {α : Type} [Inhabited α]

/-! ## vocabulary -/

/-- all wall elements of the world, rank by rank (with the duplicates ghost cells bring) -/
def allWalls (twod : Bool) (dict : RDict) (w : World (PRank α)) : List (Elem α) :=
  (w.map (localWall twod dict)).flatten

/-- the fold of `op` over the kernel values of all wall elements, from `big` -/
def wallFold (op : α → α → α) (kv : V3 α → Elem α → α) (big : α) (twod : Bool) (dict : RDict) (w : World (PRank α))
    (x : V3 α) : α :=
  ((allWalls twod dict w).map (kv x)).foldl op big

/-- what a search has to do on the chunks it is given: succeed, and fold `op` over the kernel values of the chunk it
    was built from (on every rank `me`, for every chunk `c`) -/
structure SearchFolds (search : Nat → Nat → List (Elem α) → Option (V3 α → α → α)) (op : α → α → α)
    (kv : V3 α → Elem α → α) (chunks : List (List (Elem α))) : Prop where
  isSome : ∀ me c (h : c < chunks.length), (search me c chunks[c]).isSome = true
  fold : ∀ me c (h : c < chunks.length) t, search me c chunks[c] = some t →
    ∀ x d, t x d = (chunks[c].map (kv x)).foldl op d

/-- the owned vertices of rank `me` -/
def ownedOf (me : Nat) (r : PRank α) : List (PNode α) := r.nodes.filter fun nd => nd.part == (me : Int)

/-- what the theorems assume about the distributed grid -/
structure WorldOk (w : World (PRank α)) : Prop where
  /-- a rank stores a global once (`ref_node_local` is a function) -/
  nodup : ∀ r ∈ w, (r.nodes.map (·.glob)).Nodup
  /-- the part of a ghost is a rank that stores the vertex as its own -/
  ghost : ∀ r (hr : r < w.length), ∀ nd ∈ w[r].nodes, nd.part ≠ (r : Int) →
    0 ≤ nd.part ∧ nd.part.toNat < w.length ∧
      ∃ od ∈ (w.getD nd.part.toNat ⟨[], [], [], []⟩).nodes, od.glob = nd.glob ∧ od.part = nd.part
  /-- `nowned ≤ REF_INT_MAX / n`: every owned vertex is asked somewhere (`nbalance = nowned`) -/
  balanced : ∀ r (hr : r < w.length), ((ownedOf r w[r]).length : Int) ≤ Int.tdiv Comm.INT_MAX (w.length : Int)
  /-- the buffers fit an `int` (the guards of `ref_mpi_alltoallv`) -/
  size : (3 : Int) * ((w.map fun r => r.nodes.length).sum : Nat) ≤ Comm.INT_MAX

/-! ## local pieces -/

theorem scatter_spec (me : Nat) (big : α) (g : V3 α → α) (nodes : List (PNode α)) :
    PhysDist.scatter me big nodes ((nodes.filter fun nd => nd.part == (me : Int)).map fun nd => g nd.xyz)
      = nodes.map fun nd => if nd.part == (me : Int) then g nd.xyz else big := by
  induction nodes with
  | nil => rfl
  | cons nd rest ih =>
    by_cases h : (nd.part == (me : Int)) = true
    · simp only [List.filter_cons, h, if_true, List.map_cons, PhysDist.scatter]
      rw [ih]
    · have h' : (nd.part == (me : Int)) = false := by simpa using h
      simp only [List.filter_cons, h', Bool.false_eq_true, if_false, List.map_cons, PhysDist.scatter]
      rw [ih]

theorem nbalance_all (np n : Nat) (h : (n : Int) ≤ Int.tdiv Comm.INT_MAX (np : Int)) : nbalance np n = n := by
  unfold nbalance
  rw [min_eq_left h]
  simp

theorem plan_points (np me : Nat) (r : PRank α)
    (h : ((ownedOf me r).length : Int) ≤ Int.tdiv Comm.INT_MAX (np : Int)) :
    (plan np me r).map (·.2) = (ownedOf me r).map (·.xyz) := by
  unfold plan
  simp only [ownedOf] at h ⊢
  rw [nbalance_all np _ h, List.take_length]
  apply List.ext_getElem
  · simp
  · intro i h1 h2
    simp

/-- the total functions behind a search that always succeeds -/
def treeOf (search : Nat → Nat → List (Elem α) → Option (V3 α → α → α)) (me c : Nat) (el : List (Elem α)) :
    V3 α → α → α :=
  (search me c el).getD fun _ d => d

theorem search_eq_treeOf {search : Nat → Nat → List (Elem α) → Option (V3 α → α → α)} {op : α → α → α}
    {kv : V3 α → Elem α → α} {chunks : List (List (Elem α))} (hs : SearchFolds search op kv chunks) (me c : Nat)
    (hc : c < chunks.length) :
    search me c chunks[c] = some (treeOf search me c chunks[c]) := by
  have := hs.isSome me c hc
  unfold treeOf
  cases h : search me c chunks[c] with
  | none => rw [h] at this; cases this
  | some t => rfl

theorem buildTrees_eq {search : Nat → Nat → List (Elem α) → Option (V3 α → α → α)} {op : α → α → α}
    {kv : V3 α → Elem α → α} {chunks : List (List (Elem α))} (hs : SearchFolds search op kv chunks) (np : Nat) :
    buildTrees search np chunks
      = some ((List.range np).map fun me => chunks.mapIdx fun c el => treeOf search me c el) := by
  unfold buildTrees
  have inner : ∀ me, allSome (chunks.mapIdx fun c el => search me c el)
      = some (chunks.mapIdx fun c el => treeOf search me c el) := by
    intro me
    have : (chunks.mapIdx fun c el => search me c el)
        = (chunks.mapIdx fun c el => treeOf search me c el).map some := by
      rw [map_mapIdx']
      apply List.ext_getElem
      · simp
      · intro c h1 h2
        simp only [List.getElem_mapIdx]
        exact search_eq_treeOf hs me c (by simpa using h1)
    rw [this, allSome_map_some]
  have : ((List.range np).map fun me => allSome (chunks.mapIdx fun c el => search me c el))
      = ((List.range np).map fun me => chunks.mapIdx fun c el => treeOf search me c el).map some := by
    rw [List.map_map]
    apply List.map_congr_left
    intro me _
    exact inner me
  rw [this, allSome_map_some]

/-- on every rank, whatever its trees look like, a query ends with the fold over all wall elements -/
theorem answer_eq {search : Nat → Nat → List (Elem α) → Option (V3 α → α → α)} {op : α → α → α}
    {kv : V3 α → Elem α → α} (big : α) (maxN : Int) (twod : Bool) (dict : RDict)
    (w : World (PRank α)) (hs : SearchFolds search op kv (wallChunks maxN (w.map (localWall twod dict))))
    (me : Nat) (x : V3 α) :
    answerOf ((wallChunks maxN (w.map (localWall twod dict))).mapIdx fun c el => treeOf search me c el) big x
      = wallFold op kv big twod dict w x := by
  unfold wallFold allWalls
  rw [← wallChunks_flatten maxN (w.map (localWall twod dict))]
  apply answerOf_fold op kv big x
  · simp
  · intro c h1 h2 y d
    simp only [List.getElem_mapIdx]
    exact hs.fold me c h2 _ (search_eq_treeOf hs me c h2) y d

/-! ## the world before the ghost update -/

/-- the `distance` array handed to `ref_node_ghost_dbl`: owned vertices hold `g xyz`, ghosts still `REF_DBL_MAX` -/
def gwOf (g : V3 α → α) (big : α) (w : World (PRank α)) : World (List (GNode α)) :=
  w.mapIdx fun r rk => rk.nodes.map fun nd =>
    (⟨nd.glob, nd.part, [if nd.part == (r : Int) then g nd.xyz else big]⟩ : GNode α)

theorem delivered_length_le (r : Nat) (pw : World (List (Nat × List α))) :
    (delivered r pw).length ≤ (pw.map List.length).sum := by
  unfold delivered
  induction pw with
  | nil => simp
  | cons p ps ih =>
    simp only [List.flatMap_cons, List.length_append, List.map_cons, List.sum_cons]
    have : (bucket r p).length ≤ p.length := by
      simp only [bucket, List.length_map]
      exact List.length_filter_le _ _
    omega

theorem pairsOf_length_le (np me : Nat) (r : PRank α) : (pairsOf me (plan np me r)).length ≤ r.nodes.length := by
  simp only [pairsOf, sentOf, List.length_map]
  refine Nat.le_trans (List.length_filter_le _ _) ?_
  simp only [plan, List.length_mapIdx, List.length_take]
  exact Nat.le_trans (Nat.min_le_right _ _) (List.length_filter_le _ _)

theorem pairsW_total_le (w : World (PRank α)) :
    ((pairsW w).map List.length).sum ≤ (w.map fun r => r.nodes.length).sum := by
  unfold pairsW
  rw [map_mapIdx']
  generalize w.length = np
  suffices h : ∀ (k : Nat) (l : List (PRank α)),
      (l.mapIdx fun i r => (pairsOf (i + k) (plan np (i + k) r)).length).sum ≤ (l.map fun r => r.nodes.length).sum by
    simpa using h 0 w
  intro k l
  induction l generalizing k with
  | nil => simp
  | cons r rs ih =>
    simp only [List.mapIdx_cons, List.sum_cons, List.map_cons, Nat.zero_add]
    have h1 := pairsOf_length_le np k r
    have h2 := ih (k + 1)
    have e : (rs.mapIdx fun i r => (pairsOf (i + 1 + k) (plan np (i + 1 + k) r)).length)
        = (rs.mapIdx fun i r => (pairsOf (i + (k + 1)) (plan np (i + (k + 1)) r)).length) := by
      apply List.ext_getElem
      · simp
      · intro i _ _
        simp only [List.getElem_mapIdx]
        rw [show i + 1 + k = i + (k + 1) by omega]
    rw [e]
    omega

theorem sum_le_of_mem {l : List Nat} {x : Nat} (h : x ∈ l) : x ≤ l.sum := by
  induction l with
  | nil => cases h
  | cons y ys ih =>
    rcases List.mem_cons.mp h with rfl | h
    · simp
    · have := ih h
      simp only [List.sum_cons]
      omega

/-- everything up to the ghost update -/
theorem wallDistParWith_unfold {search : Nat → Nat → List (Elem α) → Option (V3 α → α → α)} {op : α → α → α}
    {kv : V3 α → Elem α → α} (big : α) (maxN : Int) (twod : Bool) (dict : RDict)
    (w : World (PRank α)) (hs : SearchFolds search op kv (wallChunks maxN (w.map (localWall twod dict))))
    (hw : WorldOk w) :
    wallDistParWith search big maxN twod dict w
      = (ghost RefType.dbl 1 (gwOf (wallFold op kv big twod dict w) big w)).map fun g =>
          g.map fun nodes => nodes.map fun nd => nd.vals.getD 0 default := by
  have hlen : (pairsW w).length = w.length := pairsW_length w
  have hd : ∀ pairs ∈ pairsW w, ∀ x ∈ pairs, x.1 < w.length := by
    intro pairs hp x hx
    have := pairsW_dest w pairs hp x hx
    rwa [hlen] at this
  have htot := pairsW_total_le w
  have hsz := hw.size
  have hpl : ∀ pairs ∈ pairsW w, pairs.length ≤ ((pairsW w).map List.length).sum := fun pairs hp =>
    sum_le_of_mem (List.mem_map.mpr ⟨pairs, hp, rfl⟩)
  have h1 := exch1_np w.length (pairsW w) hlen hd (pairsW_item w)
    (by intro pairs hp; have := hpl pairs hp; omega)
    (by intro r _; have := delivered_length_le r (pairsW w); omega)
  have h2 := exch2_np w.length (fun _ it => wallFold op kv big twod dict w (unitem it)) (pairsW w) hlen hd
    (by intro pairs hp; have := hpl pairs hp; omega)
    (by intro r _; have := delivered_length_le r (pairsW w); omega)
  have hitems : ∀ r, ∀ it ∈ delivered r (pairsW w), it.length = 3 := by
    intro r it hit
    simp only [delivered, List.mem_flatMap] at hit
    obtain ⟨pairs, hp, hb⟩ := hit
    obtain ⟨x, hx, rfl⟩ := mem_bucket r pairs it hb
    exact pairsW_item w pairs hp x hx
  have hans : ∀ me, me < w.length → ∀ x,
      answerOf
        ((List.map (fun me => List.mapIdx (fun c el => treeOf search me c el)
            (wallChunks maxN (List.map (localWall twod dict) w))) (List.range (List.length w))).getD me [])
        big x = wallFold op kv big twod dict w x := by
    intro me hme x
    rw [getD_lt _ _ (by simpa using hme), List.getElem_map, List.getElem_range]
    exact answer_eq big maxN twod dict w hs me x
  have hB : (List.mapIdx
        (fun me qs => List.map (fun x => answerOf
            ((List.map (fun me => List.mapIdx (fun c el => treeOf search me c el)
                (wallChunks maxN (List.map (localWall twod dict) w))) (List.range (List.length w))).getD me [])
            big x) qs)
        (List.map (fun x => pts (delivered x (pairsW w)).flatten) (List.range (List.length w))))
      = (List.map (fun r => List.map (fun it => wallFold op kv big twod dict w (unitem it)) (delivered r (pairsW w)))
          (List.range (List.length w))) := by
    apply List.ext_getElem
    · simp
    · intro me h1 h2
      have hme : me < w.length := by simpa using h1
      simp only [List.getElem_mapIdx, List.getElem_map, List.getElem_range]
      rw [pts_items _ (hitems me), List.map_map]
      apply List.map_congr_left
      intro it _
      exact hans me hme _
  simp only [List.map_map, Function.comp_def] at h2
  unfold wallDistParWith
  simp only [blinds_eq w]
  rw [h1]
  simp only [List.any_map, Function.comp_def, bne_self_eq_false, List.any_eq_true, Bool.false_eq_true, and_false,
    exists_false, if_false, buildTrees_eq hs, List.map_map]
  rw [hB, h2]
  dsimp only
  rw [if_neg (by
    rintro ⟨x, hx, hne⟩
    obtain ⟨s, _, rfl⟩ := List.mem_map.mp hx
    simp at hne)]
  congr 2
  apply List.ext_getElem
  · simp [gwOf, hlen]
  · intro me h1 h2
    have hme : me < w.length := by simpa [gwOf] using h2
    have hpw : (pairsW w).getD me [] = pairsOf me (plan w.length me w[me]) := by
      rw [getD_lt _ _ (by rw [hlen]; exact hme)]
      simp [pairsW]
    have hpwe : (pairsW w)[me]'(by rw [hlen]; exact hme) = pairsOf me (plan w.length me w[me]) := by
      simp [pairsW]
    simp only [List.getElem_map, List.getElem_zip, List.getElem_mapIdx, List.getElem_range, gwOf, hpw, hpwe]
    have hproc : (blindOf (pairsOf me (plan w.length me w[me]))).proc
        = (pairsOf me (plan w.length me w[me])).map fun x => (x.1 : Int) := rfl
    rw [hproc]
    have hc := collect_spec w.length me (fun _ it => wallFold op kv big twod dict w (unitem it))
      (fun x => answerOf
          ((List.map (fun me => List.mapIdx (fun c el => treeOf search me c el)
              (wallChunks maxN (List.map (localWall twod dict) w))) (List.range (List.length w))).getD me [])
          big x)
      (plan w.length me w[me]) (plan_dest_range w.length me (by omega) w[me])
    rw [hc]
    have hvals : (List.map (fun p => if (p.1 == (me : Int)) = true then
            answerOf
              ((List.map (fun me => List.mapIdx (fun c el => treeOf search me c el)
                  (wallChunks maxN (List.map (localWall twod dict) w))) (List.range (List.length w))).getD me [])
              big p.2
          else wallFold op kv big twod dict w (unitem (item p.2))) (plan w.length me w[me]))
        = ((w[me].nodes.filter fun nd => nd.part == (me : Int)).map fun nd =>
            wallFold op kv big twod dict w nd.xyz) := by
      have hpp := plan_points w.length me w[me] (hw.balanced me hme)
      have : (List.map (fun p => if (p.1 == (me : Int)) = true then
              answerOf
                ((List.map (fun me => List.mapIdx (fun c el => treeOf search me c el)
                    (wallChunks maxN (List.map (localWall twod dict) w))) (List.range (List.length w))).getD me [])
                big p.2
            else wallFold op kv big twod dict w (unitem (item p.2))) (plan w.length me w[me]))
          = ((plan w.length me w[me]).map (·.2)).map (wallFold op kv big twod dict w) := by
        rw [List.map_map]
        apply List.map_congr_left
        intro p _
        simp only [Function.comp_def, hans me hme, unitem_item, ite_self]
      rw [this, hpp, ownedOf, List.map_map]
      rfl
    rw [hvals, scatter_spec me big (wallFold op kv big twod dict w) w[me].nodes]
    apply List.ext_getElem
    · simp
    · intro i _ _
      simp

/-! ## the ghost update -/

theorem sum_mapIdx_le {β : Type} (l : List β) (f : Nat → β → Nat) (g : β → Nat) (h : ∀ i x, f i x ≤ g x) :
    (l.mapIdx f).sum ≤ (l.map g).sum := by
  induction l generalizing f with
  | nil => simp
  | cons x xs ih =>
    simp only [List.mapIdx_cons, List.sum_cons, List.map_cons]
    have := ih (fun i => f (i + 1)) (fun i y => h (i + 1) y)
    have := h 0 x
    omega

/-- the entry of `gwOf` that belongs to a stored vertex -/
def gnodeOf (g : V3 α → α) (big : α) (r : Nat) (nd : PNode α) : GNode α :=
  ⟨nd.glob, nd.part, [if nd.part == (r : Int) then g nd.xyz else big]⟩

theorem gwOf_getElem (g : V3 α → α) (big : α) (w : World (PRank α)) (r : Nat) (hr : r < w.length)
    (h : r < (gwOf g big w).length) : (gwOf g big w)[r] = w[r].nodes.map (gnodeOf g big r) := by
  simp [gwOf, gnodeOf]

theorem gwOf_length (g : V3 α → α) (big : α) (w : World (PRank α)) : (gwOf g big w).length = w.length := by
  simp [gwOf]

theorem gwOf_getD (g : V3 α → α) (big : α) (w : World (PRank α)) (r : Nat) (hr : r < w.length) :
    (gwOf g big w).getD r [] = w[r].nodes.map (gnodeOf g big r) := by
  rw [getD_lt _ _ (by rw [gwOf_length]; exact hr), gwOf_getElem g big w r hr]

theorem getD_prank (w : World (PRank α)) (r : Nat) (hr : r < w.length) :
    w.getD r ⟨[], [], [], []⟩ = w[r] := getD_lt _ _ hr

/-- **the parallel wall distance, for any search that folds `op` over its chunk**: the routine completes on every
    rank and every stored vertex holds the fold of `op` over ALL wall elements of the world — evaluated at its own
    coordinates when it is owned, at its owner's copy when it is a ghost -/
theorem wallDistParWith_spec {search : Nat → Nat → List (Elem α) → Option (V3 α → α → α)} {op : α → α → α}
    {kv : V3 α → Elem α → α} (big : α) (maxN : Int) (twod : Bool) (dict : RDict)
    (w : World (PRank α)) (hs : SearchFolds search op kv (wallChunks maxN (w.map (localWall twod dict))))
    (hw : WorldOk w) :
    ∃ res : World (List α), wallDistParWith search big maxN twod dict w = some res ∧ res.length = w.length ∧
      ∀ r (hr : r < w.length), (res.getD r []).length = w[r].nodes.length ∧
        ∀ i (hi : i < w[r].nodes.length),
          (w[r].nodes[i].part = (r : Int) →
            (res.getD r [])[i]? = some (wallFold op kv big twod dict w w[r].nodes[i].xyz)) ∧
          (w[r].nodes[i].part ≠ (r : Int) →
            ∀ od ∈ (w.getD w[r].nodes[i].part.toNat ⟨[], [], [], []⟩).nodes, od.glob = w[r].nodes[i].glob →
              (res.getD r [])[i]? = some (wallFold op kv big twod dict w od.xyz)) := by
  let W := wallFold op kv big twod dict w
  have hglen := gwOf_length W big w
  have hnd : ∀ nodes ∈ gwOf W big w, (nodes.map (·.glob)).Nodup := by
    intro nodes hn
    obtain ⟨r, hr, rfl⟩ := List.mem_iff_getElem.mp hn
    have hr' : r < w.length := by rwa [hglen] at hr
    rw [gwOf_getElem W big w r hr' hr, List.map_map]
    exact hw.nodup _ (List.getElem_mem hr')
  have hown : ∀ r (hr : r < (gwOf W big w).length), ∀ nd ∈ (gwOf W big w)[r], nd.part ≠ (r : Int) →
      0 ≤ nd.part ∧ nd.part.toNat < (gwOf W big w).length ∧
      ∃ od ∈ (gwOf W big w).getD nd.part.toNat [], od.glob = nd.glob ∧ od.vals.length = 1 := by
    intro r hr nd hmem hp
    have hr' : r < w.length := by rwa [hglen] at hr
    rw [gwOf_getElem W big w r hr' hr] at hmem
    obtain ⟨pn, hpn, rfl⟩ := List.mem_map.mp hmem
    obtain ⟨h0, h1, od, hod, hg, _⟩ := hw.ghost r hr' pn hpn hp
    refine ⟨h0, by rw [hglen]; exact h1, gnodeOf W big pn.part.toNat od, ?_, hg, rfl⟩
    show gnodeOf W big pn.part.toNat od ∈ (gwOf W big w).getD pn.part.toNat []
    rw [gwOf_getD W big w _ h1]
    rw [getD_prank w _ h1] at hod
    exact List.mem_map.mpr ⟨od, hod, rfl⟩
  have hsz : ∀ r (hr : r < (gwOf W big w).length),
      ((max 1 1 : Nat) : Int) * (nGhosts r (gwOf W big w)[r] : Int) ≤ Comm.INT_MAX ∧
      ((max 1 1 : Nat) : Int) * (nRequests (gwOf W big w) r : Int) ≤ Comm.INT_MAX := by
    intro r hr
    have hr' : r < w.length := by rwa [hglen] at hr
    have hsize := hw.size
    constructor
    · have h1 : nGhosts r (gwOf W big w)[r] ≤ w[r].nodes.length := by
        rw [gwOf_getElem W big w r hr' hr]
        unfold nGhosts
        refine Nat.le_trans (List.length_filter_le _ _) ?_
        simp
      have h2 : w[r].nodes.length ≤ (w.map fun r => r.nodes.length).sum :=
        sum_le_of_mem (List.mem_map.mpr ⟨w[r], List.getElem_mem hr', rfl⟩)
      simp only [Nat.max_self, Nat.cast_one, one_mul]
      omega
    · have h1 : nRequests (gwOf W big w) r ≤ (w.map fun r => r.nodes.length).sum := by
        unfold nRequests gwOf
        rw [List.mapIdx_mapIdx]
        refine sum_mapIdx_le w _ _ ?_
        intro i x
        simp only [Function.comp_def, ghostsTo]
        refine Nat.le_trans (List.length_filter_le _ _) ?_
        simp
      simp only [Nat.max_self, Nat.cast_one, one_mul]
      omega
  have hg := Refine.Props.C06Ghost.ghostRefresh_spec RefType.dbl rfl 1 (gwOf W big w) hnd hown hsz
  refine ⟨_, by rw [wallDistParWith_unfold big maxN twod dict w hs hw, hg]; rfl, by simp [gwOf], ?_⟩
  intro r hr
  have hrg : r < (gwOf W big w).length := by rw [hglen]; exact hr
  have hrow : (List.map (fun nodes => List.map (fun nd => nd.vals.getD 0 default) nodes)
        ((gwOf W big w).mapIdx fun r nodes => nodes.map fun nd =>
          if nd.part = (r : Int) then nd else { nd with vals := ownerVals (gwOf W big w) nd })).getD r []
      = w[r].nodes.map fun pn =>
          if pn.part = (r : Int) then W pn.xyz
          else (ownerVals (gwOf W big w) (gnodeOf W big r pn)).getD 0 default := by
    rw [getD_lt _ _ (by simpa using hrg)]
    simp only [List.getElem_map, List.getElem_mapIdx, gwOf_getElem W big w r hr hrg, List.map_map]
    apply List.map_congr_left
    intro pn _
    by_cases hp : pn.part = (r : Int)
    · simp [gnodeOf, hp]
    · simp [gnodeOf, hp]
  rw [hrow]
  refine ⟨by simp, ?_⟩
  intro i hi
  simp only [List.getElem?_map, List.getElem?_eq_getElem hi, Option.map_some]
  constructor
  · intro hp
    rw [if_pos hp]
  · intro hp od hod hgl
    rw [if_neg hp]
    obtain ⟨_, h1, od', hod', hg', hpart'⟩ := hw.ghost r hr _ (List.getElem_mem hi) hp
    rw [getD_prank w _ h1] at hod hod'
    have hnodup := hw.nodup _ (List.getElem_mem h1)
    have hsame : od = od' := List.inj_on_of_nodup_map hnodup hod hod' (by rw [hgl, hg'])
    subst hsame
    have hmem : gnodeOf W big w[r].nodes[i].part.toNat od ∈ (gwOf W big w).getD w[r].nodes[i].part.toNat [] := by
      rw [gwOf_getD W big w _ h1]
      exact List.mem_map.mpr ⟨od, hod, rfl⟩
    have hnd' : (((gwOf W big w).getD w[r].nodes[i].part.toNat []).map (·.glob)).Nodup := by
      rw [gwOf_getD W big w _ h1, List.map_map]
      exact hnodup
    have hl := lookupVals_of_mem hnd' hmem
    have hgg : (gnodeOf W big w[r].nodes[i].part.toNat od).glob = (gnodeOf W big r w[r].nodes[i]).glob := hgl
    unfold ownerVals
    have hpp : (gnodeOf W big r w[r].nodes[i]).part = w[r].nodes[i].part := rfl
    rw [hpp, ← hgg, hl]
    have h0 := (hw.ghost r hr _ (List.getElem_mem hi) hp).1
    have hown' : (od.part == ((w[r].nodes[i].part.toNat : Nat) : Int)) = true := by
      rw [Int.toNat_of_nonneg h0, hpart']
      simp
    have hmax : max w[r].nodes[i].part 0 = w[r].nodes[i].part := max_eq_left h0
    simp [gnodeOf, hmax, hpart', W]

end Refine.Lemmas.PhysDist
