import Refine.Lemmas.ShufflinSpec
import Refine.Props.C06
import Mathlib.Data.List.Nodup

/-!
  Lemmas for `Refine/Props/C06ShufflinInv.lean`: the layout `IsLayout w w'` of a mesh for its new partition
  (what `ref_migrate_shufflin` returns, `shufflin_spec`) satisfies the seven clauses of the executable
  distributed-mesh invariant `distInv`.
-/
namespace Refine.Lemmas.ShufflinInv
open Refine.Model.Dist Refine.Model.Shufflin Refine.Lemmas.Shufflin Refine.Lemmas.ShufflinWorld
open Refine.Lemmas.ShufflinSpec
open Refine.Model.Comm (World)

/-! ### generic facts -/

/-- converse of `C06.nodupB_nodup` -/
theorem nodupB_of_nodup {α : Type} [DecidableEq α] : ∀ (l : List α), l.Nodup → nodupB l = true := by
  intro l
  induction l with
  | nil => intro _; rfl
  | cons x xs ih =>
    intro h
    rw [List.nodup_cons] at h
    simp only [nodupB, Bool.and_eq_true, Bool.not_eq_true', List.contains_eq_mem, decide_eq_false_iff_not]
    exact ⟨h.1, ih h.2⟩

theorem partOf_of_mem {s : RankState} (hnd : (s.nodes.map (·.glob)).Nodup) {nd : DNode} (h : nd ∈ s.nodes) :
    s.partOf nd.glob = some nd.part := by
  unfold RankState.partOf
  rw [find_glob hnd h]; rfl

theorem has_iff (s : RankState) (g : Int) : s.has g = true ↔ g ∈ s.nodes.map (·.glob) := by
  unfold RankState.has
  rw [List.any_eq_true, List.mem_map]
  constructor
  · rintro ⟨nd, h1, h2⟩; exact ⟨nd, h1, by simpa using h2⟩
  · rintro ⟨nd, h1, h2⟩; exact ⟨nd, h1, by simpa using h2⟩

/-- a flattened per-rank family is duplicate free when every member is and an element names its rank -/
theorem nodup_flatten_zipIdx {α β : Type} (w : List α) (f : α × Nat → List β)
    (h1 : ∀ (q : Nat) (s : α), w[q]? = some s → (f (s, q)).Nodup)
    (h2 : ∀ (q r : Nat) (s t : α), w[q]? = some s → w[r]? = some t → ∀ x, x ∈ f (s, q) → x ∈ f (t, r) → q = r) :
    (w.zipIdx.map f).flatten.Nodup := by
  rw [List.nodup_flatten]
  constructor
  · intro l hl
    obtain ⟨sr, hsr, rfl⟩ := List.mem_map.mp hl
    exact h1 sr.2 sr.1 (List.mem_zipIdx_iff_getElem?.mp hsr)
  · rw [List.pairwise_map, List.pairwise_iff_getElem]
    intro i j hi hj hij
    have hi' : i < w.length := by simpa using hi
    have hj' : j < w.length := by simpa using hj
    rw [List.getElem_zipIdx, List.getElem_zipIdx]
    intro x hx hy
    have := h2 (0 + i) (0 + j) w[i] w[j] (by simp) (by simp) x hx hy
    omega

/-! ### the layout, rank by rank -/

section Lay
variable {ldim N : Nat} {w w' : World RankState}

theorem lay_lt (hL : IsLayout w w') (q : Nat) (s' : RankState) (h : w'[q]? = some s') : q < w.length := by
  rw [← hL.len]
  by_contra hc
  rw [List.getElem?_eq_none (by omega)] at h; cases h

theorem lay_rank (hL : IsLayout w w') (q : Nat) (s' : RankState) (h : w'[q]? = some s') :
    ∃ s, w[q]? = some s ∧ s'.oldN = s.oldN ∧ s'.newN = s.newN ∧ s'.nUnused = s.nUnused := by
  have hq := lay_lt hL q s' h
  obtain ⟨a, b, c, _⟩ := hL.rank q w[q] s' (List.getElem?_eq_getElem hq) h
  exact ⟨w[q], List.getElem?_eq_getElem hq, a, b, c⟩

theorem lay_nodupC (hL : IsLayout w w') (q : Nat) (s' : RankState) (h : w'[q]? = some s') : s'.cells.Nodup := by
  have hq := lay_lt hL q s' h
  exact (hL.rank q w[q] s' (List.getElem?_eq_getElem hq) h).2.2.2.1

theorem lay_nodupG (hL : IsLayout w w') (q : Nat) (s' : RankState) (h : w'[q]? = some s') :
    (s'.nodes.map (·.glob)).Nodup := by
  have hq := lay_lt hL q s' h
  exact (hL.rank q w[q] s' (List.getElem?_eq_getElem hq) h).2.2.2.2.1

theorem lay_cells (hL : IsLayout w w') (q : Nat) (s' : RankState) (h : w'[q]? = some s') (c : DCell) :
    c ∈ s'.cells ↔ AllC w c ∧ ∃ v ∈ c.nodes, partW w v = (q : Int) := by
  have hq := lay_lt hL q s' h
  exact (hL.rank q w[q] s' (List.getElem?_eq_getElem hq) h).2.2.2.2.2.1 c

theorem lay_nodes (hL : IsLayout w w') (q : Nat) (s' : RankState) (h : w'[q]? = some s') (nd : DNode) :
    nd ∈ s'.nodes ↔ Vw w nd.glob ∧ nd.part = partW w nd.glob ∧ nd.payload = payW w nd.glob ∧
      (nd.part = (q : Int) ∨ ∃ c ∈ s'.cells, nd.glob ∈ c.nodes) := by
  have hq := lay_lt hL q s' h
  exact (hL.rank q w[q] s' (List.getElem?_eq_getElem hq) h).2.2.2.2.2.2 nd

/-- the rank named by the part of a vertex exists and stores the canonical copy -/
theorem lay_owner (H : ShufHyp ldim N w) (hL : IsLayout w w') (g : Int) (hg : Vw w g) :
    ∃ o, w'[(partW w g).toNat]? = some o ∧ (⟨g, partW w g, payW w g⟩ : DNode) ∈ o.nodes := by
  obtain ⟨h1, h2, _⟩ := vw_facts H g hg
  have hlt : (partW w g).toNat < w'.length := by rw [hL.len]; omega
  refine ⟨w'[(partW w g).toNat], List.getElem?_eq_getElem hlt, ?_⟩
  rw [lay_nodes hL _ _ (List.getElem?_eq_getElem hlt)]
  refine ⟨hg, rfl, rfl, Or.inl ?_⟩
  show partW w g = (((partW w g).toNat : Nat) : Int)
  omega

/-- a vertex of a stored cell is stored (as the canonical copy) -/
theorem lay_cell_vert (H : ShufHyp ldim N w) (hL : IsLayout w w') (q : Nat) (s' : RankState) (h : w'[q]? = some s')
    (c : DCell) (hc : c ∈ s'.cells) (g : Int) (hg : g ∈ c.nodes) :
    Vw w g ∧ (⟨g, partW w g, payW w g⟩ : DNode) ∈ s'.nodes := by
  have hA := ((lay_cells hL q s' h c).mp hc).1
  have hv := allC_verts H c hA g hg
  refine ⟨hv, ?_⟩
  rw [lay_nodes hL q s' h]
  exact ⟨hv, rfl, rfl, Or.inr ⟨c, hc, hg⟩⟩

/-- the `(global, part)` list of a stored cell read from the storing rank's table: the same on every rank -/
theorem lay_cellVerts (H : ShufHyp ldim N w) (hL : IsLayout w w') (q : Nat) (s' : RankState) (h : w'[q]? = some s')
    (c : DCell) (hc : c ∈ s'.cells) : s'.cellVerts c = c.nodes.map fun g => (g, partW w g) := by
  unfold RankState.cellVerts
  apply List.map_congr_left
  intro g hg
  have := partOf_of_mem (lay_nodupG hL q s' h) (lay_cell_vert H hL q s' h c hc g hg).2
  simp only at this
  rw [this]; rfl

/-- the owner of a cell of the mesh: `ref_cell_part` on the new parts -/
def ownerW (w : World RankState) (c : DCell) : Int := cellOwner (c.nodes.map fun g => (g, partW w g))

theorem lay_ownerOf (H : ShufHyp ldim N w) (hL : IsLayout w w') (q : Nat) (s' : RankState) (h : w'[q]? = some s')
    (c : DCell) (hc : c ∈ s'.cells) : s'.ownerOf c = ownerW w c := by
  unfold RankState.ownerOf ownerW
  rw [lay_cellVerts H hL q s' h c hc]

theorem ownerW_vert (w : World RankState) (c : DCell) (hne : c.nodes ≠ []) : ∃ v ∈ c.nodes, ownerW w c = partW w v := by
  obtain ⟨v, hv, h1, _⟩ := Refine.Props.C06.cellOwner_unique (c.nodes.map fun g => (g, partW w g)) (by simpa using hne)
  obtain ⟨g, hg, rfl⟩ := List.mem_map.mp hv
  exact ⟨g, hg, h1⟩

/-- the owner of a stored cell is a rank, and that rank stores the cell -/
theorem lay_cell_owner (H : ShufHyp ldim N w) (hL : IsLayout w w') (q : Nat) (s' : RankState) (h : w'[q]? = some s')
    (c : DCell) (hc : c ∈ s'.cells) :
    ∃ os, w'[(ownerW w c).toNat]? = some os ∧ 0 ≤ ownerW w c ∧ c ∈ os.cells ∧
      (((ownerW w c).toNat : Nat) : Int) = ownerW w c := by
  obtain ⟨hA, v0, hv0, _⟩ := (lay_cells hL q s' h c).mp hc
  have hne : c.nodes ≠ [] := by intro he; rw [he] at hv0; cases hv0
  obtain ⟨v, hv, hov⟩ := ownerW_vert w c hne
  have hV := allC_verts H c hA v hv
  obtain ⟨h1, h2, _⟩ := vw_facts H v hV
  obtain ⟨os, hos, _⟩ := lay_owner H hL v hV
  rw [hov]
  refine ⟨os, hos, h1, ?_, by omega⟩
  rw [lay_cells hL _ os hos]
  exact ⟨hA, v, hv, by omega⟩

/-! ### clauses (o)–(v) -/

theorem lay_clauseLocal (H : ShufHyp ldim N w) (hL : IsLayout w w') : clauseLocal w' = true := by
  unfold clauseLocal
  rw [List.all_eq_true]
  intro s' hs'
  obtain ⟨q, hq⟩ := List.getElem?_of_mem hs'
  simp only [Bool.and_eq_true, List.all_eq_true, decide_eq_true_eq]
  refine ⟨⟨nodupB_of_nodup _ (lay_nodupG hL q s' hq), nodupB_of_nodup _ (lay_nodupC hL q s' hq)⟩, ?_⟩
  intro nd hnd
  obtain ⟨hv, hp, _, _⟩ := (lay_nodes hL q s' hq nd).mp hnd
  obtain ⟨a, b, c, _⟩ := vw_facts H nd.glob hv
  rw [hp, hL.len]; exact ⟨⟨c, a⟩, b⟩

theorem lay_clauseOwner (H : ShufHyp ldim N w) (hL : IsLayout w w') : clauseOwner w' = true := by
  unfold clauseOwner
  rw [List.all_eq_true]
  intro s' hs'
  obtain ⟨q, hq⟩ := List.getElem?_of_mem hs'
  rw [List.all_eq_true]
  intro nd hnd
  obtain ⟨hv, hp, _, _⟩ := (lay_nodes hL q s' hq nd).mp hnd
  obtain ⟨o, ho, hmem⟩ := lay_owner H hL nd.glob hv
  rw [hp, ho]
  have := partOf_of_mem (lay_nodupG hL _ o ho) hmem
  simp only at this
  simp [this]

theorem lay_clauseCells (H : ShufHyp ldim N w) (hL : IsLayout w w') : clauseCells w' = true := by
  unfold clauseCells
  rw [List.all_eq_true]
  intro sr hsr
  have hq : w'[sr.2]? = some sr.1 := List.mem_zipIdx_iff_getElem?.mp hsr
  rw [List.all_eq_true]
  intro c hc
  rw [lay_cellVerts H hL sr.2 sr.1 hq c hc]
  simp only [Bool.and_eq_true, List.all_eq_true, List.any_eq_true]
  refine ⟨⟨?_, ?_⟩, ?_⟩
  · intro g hg
    rw [has_iff]
    exact List.mem_map.mpr ⟨_, (lay_cell_vert H hL sr.2 sr.1 hq c hc g hg).2, rfl⟩
  · obtain ⟨_, v, hv, hp⟩ := (lay_cells hL sr.2 sr.1 hq c).mp hc
    exact ⟨(v, partW w v), List.mem_map.mpr ⟨v, hv, rfl⟩, by simpa using hp⟩
  · intro gp hgp
    obtain ⟨g, hg, rfl⟩ := List.mem_map.mp hgp
    obtain ⟨hA, _⟩ := (lay_cells hL sr.2 sr.1 hq c).mp hc
    have hV := allC_verts H c hA g hg
    obtain ⟨h1, _⟩ := vw_facts H g hV
    obtain ⟨o, ho, _⟩ := lay_owner H hL g hV
    simp only [ho, List.contains_eq_mem, decide_eq_true_eq]
    rw [lay_cells hL _ o ho]
    exact ⟨hA, g, hg, by omega⟩

theorem lay_clauseVerts (hL : IsLayout w w') : clauseVerts w' = true := by
  unfold clauseVerts
  rw [List.all_eq_true]
  intro sr hsr
  have hq : w'[sr.2]? = some sr.1 := List.mem_zipIdx_iff_getElem?.mp hsr
  rw [List.all_eq_true]
  intro nd hnd
  obtain ⟨_, _, _, hk⟩ := (lay_nodes hL sr.2 sr.1 hq nd).mp hnd
  simp only [Bool.or_eq_true, beq_iff_eq, List.any_eq_true, List.contains_eq_mem, decide_eq_true_eq]
  exact hk

theorem lay_clauseGhost (H : ShufHyp ldim N w) (hL : IsLayout w w') : clauseGhost w' = true := by
  unfold clauseGhost
  rw [List.all_eq_true]
  intro sr hsr
  have hq : w'[sr.2]? = some sr.1 := List.mem_zipIdx_iff_getElem?.mp hsr
  rw [List.all_eq_true]
  intro nd hnd
  obtain ⟨hv, hp, hy, _⟩ := (lay_nodes hL sr.2 sr.1 hq nd).mp hnd
  obtain ⟨o, ho, hmem⟩ := lay_owner H hL nd.glob hv
  rw [Bool.or_eq_true]
  right
  rw [hp, ho]
  have := find_glob (lay_nodupG hL _ o ho) hmem
  simp only at this
  simp only [this, Option.map_some, hy]
  simp

theorem lay_clauseCellOwner (H : ShufHyp ldim N w) (hL : IsLayout w w') : clauseCellOwner w' = true := by
  unfold clauseCellOwner
  rw [List.all_eq_true]
  intro s' hs'
  obtain ⟨q, hq⟩ := List.getElem?_of_mem hs'
  rw [List.all_eq_true]
  intro c hc
  obtain ⟨os, hos, h0, hmem, _⟩ := lay_cell_owner H hL q s' hq c hc
  simp only [lay_ownerOf H hL q s' hq c hc, hos, lay_ownerOf H hL _ os hos c hmem]
  simp [h0, hmem]

/-! ### the counting clause -/

theorem nodup_eraseDups_aux {α : Type} [BEq α] [LawfulBEq α] :
    ∀ (n : Nat) (l : List α), l.length ≤ n → l.eraseDups.Nodup := by
  intro n
  induction n with
  | zero =>
    intro l hl
    have : l = [] := List.length_eq_zero_iff.mp (by omega)
    subst this; simp
  | succ n ih =>
    intro l hl
    cases l with
    | nil => simp
    | cons a as =>
      rw [List.eraseDups_cons, List.nodup_cons]
      constructor
      · rw [List.mem_eraseDups, List.mem_filter]; simp
      · apply ih
        have := List.length_filter_le (fun b => !b == a) as
        simp only [List.length_cons] at hl
        omega

theorem nodup_eraseDups {α : Type} [BEq α] [LawfulBEq α] (l : List α) : l.eraseDups.Nodup :=
  nodup_eraseDups_aux l.length l (Nat.le_refl _)

theorem mem_ownedGlobals (w : World RankState) (g : Int) :
    g ∈ ownedGlobals w ↔ ∃ (q : Nat) (s : RankState), w[q]? = some s ∧ ∃ nd ∈ s.nodes, nd.part = (q : Int) ∧ nd.glob = g := by
  unfold ownedGlobals RankState.ownedNodes
  rw [List.mem_flatten]
  constructor
  · rintro ⟨l, hl, hg⟩
    obtain ⟨sr, hsr, rfl⟩ := List.mem_map.mp hl
    obtain ⟨nd, hnd, rfl⟩ := List.mem_map.mp hg
    rw [List.mem_filter] at hnd
    exact ⟨sr.2, sr.1, List.mem_zipIdx_iff_getElem?.mp hsr, nd, hnd.1, by simpa using hnd.2, rfl⟩
  · rintro ⟨q, s, hs, nd, hnd, hp, rfl⟩
    refine ⟨_, List.mem_map.mpr ⟨(s, q), List.mem_zipIdx_iff_getElem?.mpr hs, rfl⟩, ?_⟩
    exact List.mem_map.mpr ⟨nd, List.mem_filter.mpr ⟨hnd, by simpa using hp⟩, rfl⟩

theorem mem_ownedCellsAll (w : World RankState) (c : DCell) :
    c ∈ ownedCellsAll w ↔ ∃ (q : Nat) (s : RankState), w[q]? = some s ∧ c ∈ s.cells ∧ s.ownerOf c = (q : Int) := by
  unfold ownedCellsAll RankState.ownedCells
  rw [List.mem_flatten]
  constructor
  · rintro ⟨l, hl, hc⟩
    obtain ⟨sr, hsr, rfl⟩ := List.mem_map.mp hl
    rw [List.mem_filter] at hc
    exact ⟨sr.2, sr.1, List.mem_zipIdx_iff_getElem?.mp hsr, hc.1, by simpa using hc.2⟩
  · rintro ⟨q, s, hs, hc, ho⟩
    refine ⟨_, List.mem_map.mpr ⟨(s, q), List.mem_zipIdx_iff_getElem?.mpr hs, rfl⟩, ?_⟩
    exact List.mem_filter.mpr ⟨hc, by simpa using ho⟩

theorem mem_allCells (w : World RankState) (c : DCell) : c ∈ allCells w ↔ ∃ s ∈ w, c ∈ s.cells := by
  unfold allCells
  rw [List.mem_eraseDups, List.mem_flatten]
  constructor
  · rintro ⟨l, hl, hc⟩
    obtain ⟨s, hs, rfl⟩ := List.mem_map.mp hl
    exact ⟨s, hs, hc⟩
  · rintro ⟨s, hs, hc⟩
    exact ⟨_, List.mem_map.mpr ⟨s, hs, rfl⟩, hc⟩

/-- the owned globals of the layout are the vertices of the mesh -/
theorem lay_mem_owned (H : ShufHyp ldim N w) (hL : IsLayout w w') (g : Int) : g ∈ ownedGlobals w' ↔ Vw w g := by
  rw [mem_ownedGlobals]
  constructor
  · rintro ⟨q, s', hs', nd, hnd, _, rfl⟩
    exact ((lay_nodes hL q s' hs' nd).mp hnd).1
  · intro hg
    obtain ⟨h1, _⟩ := vw_facts H g hg
    obtain ⟨o, ho, hmem⟩ := lay_owner H hL g hg
    refine ⟨_, o, ho, _, hmem, ?_, rfl⟩
    show partW w g = (((partW w g).toNat : Nat) : Int)
    omega

theorem lay_owned_nodup (hL : IsLayout w w') : (ownedGlobals w').Nodup := by
  unfold ownedGlobals
  apply nodup_flatten_zipIdx
  · intro q s' hs'
    exact (lay_nodupG hL q s' hs').sublist (List.Sublist.map _ List.filter_sublist)
  · intro q r s' t' hs' ht' x hx hy
    obtain ⟨nd, hnd, rfl⟩ := List.mem_map.mp hx
    obtain ⟨md, hmd, hmg⟩ := List.mem_map.mp hy
    unfold RankState.ownedNodes at hnd hmd
    rw [List.mem_filter] at hnd hmd
    have a1 := ((lay_nodes hL q s' hs' nd).mp hnd.1).2.1
    have a2 := ((lay_nodes hL r t' ht' md).mp hmd.1).2.1
    have b1 : nd.part = (q : Int) := by simpa using hnd.2
    have b2 : md.part = (r : Int) := by simpa using hmd.2
    rw [hmg, ← a1, b1] at a2
    rw [b2] at a2
    omega

theorem lay_ownedCells_nodup (H : ShufHyp ldim N w) (hL : IsLayout w w') : (ownedCellsAll w').Nodup := by
  unfold ownedCellsAll
  apply nodup_flatten_zipIdx
  · intro q s' hs'
    exact (lay_nodupC hL q s' hs').sublist List.filter_sublist
  · intro q r s' t' hs' ht' c hx hy
    unfold RankState.ownedCells at hx hy
    rw [List.mem_filter] at hx hy
    have b1 : s'.ownerOf c = (q : Int) := by simpa using hx.2
    have b2 : t'.ownerOf c = (r : Int) := by simpa using hy.2
    rw [lay_ownerOf H hL q s' hs' c hx.1] at b1
    rw [lay_ownerOf H hL r t' ht' c hy.1] at b2
    omega

/-- each distinct stored cell is owned on exactly one rank -/
theorem lay_cells_length (H : ShufHyp ldim N w) (hL : IsLayout w w') :
    (ownedCellsAll w').length = (allCells w').length := by
  apply List.Perm.length_eq
  have hnd : (allCells w').Nodup := nodup_eraseDups _
  rw [List.perm_ext_iff_of_nodup (lay_ownedCells_nodup H hL) hnd]
  intro c
  rw [mem_ownedCellsAll, mem_allCells]
  constructor
  · rintro ⟨q, s', hs', hc, _⟩
    exact ⟨s', mem_of_get hs', hc⟩
  · rintro ⟨s', hs', hc⟩
    obtain ⟨q, hq⟩ := List.getElem?_of_mem hs'
    obtain ⟨os, hos, _, hmem, hcast⟩ := lay_cell_owner H hL q s' hq c hc
    exact ⟨_, os, hos, hmem, by rw [lay_ownerOf H hL _ os hos c hmem, hcast]⟩

/-- `0, 1, …, N-1` as global ids -/
def idsUpTo (N : Nat) : List Int := (List.range N).map fun (i : Nat) => (i : Int)

theorem mem_idsUpTo (N : Nat) (g : Int) : g ∈ idsUpTo N ↔ 0 ≤ g ∧ g < (N : Int) := by
  unfold idsUpTo
  rw [List.mem_map]
  constructor
  · rintro ⟨i, hi, rfl⟩
    have := List.mem_range.mp hi
    omega
  · rintro ⟨h0, h1⟩
    exact ⟨g.toNat, List.mem_range.mpr (by omega), by omega⟩

theorem idsUpTo_nodup (N : Nat) : (idsUpTo N).Nodup := by
  unfold idsUpTo
  apply List.Nodup.map_on _ List.nodup_range
  intro x _ y _ hxy
  omega

theorem idsUpTo_sorted (N : Nat) : (idsUpTo N).Pairwise (· ≤ ·) := by
  unfold idsUpTo
  rw [List.pairwise_map]
  exact List.pairwise_lt_range.imp (by intro a b h; omega)

/-- when the vertices of the mesh are exactly `0 … N-1`, so are the owned globals of the layout, sorted -/
theorem lay_owned_ids (H : ShufHyp ldim N w) (hL : IsLayout w w')
    (hids : ∀ g : Int, Vw w g ↔ 0 ≤ g ∧ g < (N : Int)) :
    (ownedGlobals w').length = N ∧ sortGlob (ownedGlobals w') = idsUpTo N := by
  have hperm : (ownedGlobals w').Perm (idsUpTo N) := by
    rw [List.perm_ext_iff_of_nodup (lay_owned_nodup hL) (idsUpTo_nodup N)]
    intro g
    rw [lay_mem_owned H hL, mem_idsUpTo, hids]
  refine ⟨?_, ?_⟩
  · rw [hperm.length_eq]; simp [idsUpTo]
  · exact List.Perm.eq_of_pairwise (le := fun (a b : Int) => a ≤ b) (fun a b _ _ h1 h2 => Int.le_antisymm h1 h2)
      (Refine.Lemmas.Dist.sortGlob_sorted _) (idsUpTo_sorted N)
      ((Refine.Lemmas.Dist.sortGlob_perm _).trans hperm)

theorem lay_clauseCounts (H : ShufHyp ldim N w) (hL : IsLayout w w')
    (hids : ∀ g : Int, Vw w g ↔ 0 ≤ g ∧ g < (N : Int)) (hN : ∀ s ∈ w, s.newN = (N : Int)) :
    clauseCounts w' = true := by
  obtain ⟨hlen, hsort⟩ := lay_owned_ids H hL hids
  unfold clauseCounts
  simp only [Bool.and_eq_true, Bool.or_eq_true, beq_iff_eq, List.all_eq_true]
  refine ⟨⟨⟨nodupB_of_nodup _ (lay_owned_nodup hL), nodupB_of_nodup _ (lay_ownedCells_nodup H hL)⟩,
    lay_cells_length H hL⟩, Or.inr ⟨?_, ?_⟩⟩
  · intro s' hs'
    obtain ⟨q, hq⟩ := List.getElem?_of_mem hs'
    obtain ⟨s, hs, _, hn, _⟩ := lay_rank hL q s' hq
    rw [hn, hN s (mem_of_get hs), hlen]
  · rw [hsort, hlen]; rfl

end Lay

end Refine.Lemmas.ShufflinInv
