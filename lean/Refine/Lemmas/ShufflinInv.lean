import Refine.Lemmas.ShufflinSpec
import Refine.Props.C06
import Mathlib.Data.List.Nodup

/-!
  Lemmas for `Refine/Props/C06ShufflinInv.lean`: the layout `IsLayout w w'` of a mesh for its new partition
  (what `ref_migrate_shufflin` returns, `shufflin_spec`) satisfies the seven clauses of the executable
  distributed-mesh invariant `distInv`.
-/
namespace Refine.Lemmas.ShufflinInv
open Refine.Model.Dist Refine.Model.Shufflin Refine.Lemmas.Shufflin Refine.Lemmas.ShufflinWorld
open Refine.Lemmas.ShufflinSpec
open Refine.Model.Comm (World)

/-! ### generic facts -/

/-- converse of `C06.nodupB_nodup` -/
theorem nodupB_of_nodup {α : Type} [DecidableEq α] : ∀ (l : List α), l.Nodup → nodupB l = true := by
  intro l
  induction l with
  | nil => intro _; rfl
  | cons x xs ih =>
    intro h
    rw [List.nodup_cons] at h
    simp only [nodupB, Bool.and_eq_true, Bool.not_eq_true', List.contains_eq_mem, decide_eq_false_iff_not]
    exact ⟨h.1, ih h.2⟩

theorem partOf_of_mem {s : RankState} (hnd : (s.nodes.map (·.glob)).Nodup) {nd : DNode} (h : nd ∈ s.nodes) :
    s.partOf nd.glob = some nd.part := by
  unfold RankState.partOf
  rw [find_glob hnd h]; rfl

theorem has_iff (s : RankState) (g : Int) : s.has g = true ↔ g ∈ s.nodes.map (·.glob) := by
  unfold RankState.has
  rw [List.any_eq_true, List.mem_map]
  constructor
  · rintro ⟨nd, h1, h2⟩; exact ⟨nd, h1, by simpa using h2⟩
  · rintro ⟨nd, h1, h2⟩; exact ⟨nd, h1, by simpa using h2⟩

/-- a flattened per-rank family is duplicate free when every member is and an element names its rank -/
theorem nodup_flatten_zipIdx {α β : Type} (w : List α) (f : α × Nat → List β)
    (h1 : ∀ (q : Nat) (s : α), w[q]? = some s → (f (s, q)).Nodup)
    (h2 : ∀ (q r : Nat) (s t : α), w[q]? = some s → w[r]? = some t → ∀ x, x ∈ f (s, q) → x ∈ f (t, r) → q = r) :
    (w.zipIdx.map f).flatten.Nodup := by
  rw [List.nodup_flatten]
  constructor
  · intro l hl
    obtain ⟨sr, hsr, rfl⟩ := List.mem_map.mp hl
    exact h1 sr.2 sr.1 (List.mem_zipIdx_iff_getElem?.mp hsr)
  · rw [List.pairwise_map, List.pairwise_iff_getElem]
    intro i j hi hj hij
    have hi' : i < w.length := by simpa using hi
    have hj' : j < w.length := by simpa using hj
    rw [List.getElem_zipIdx, List.getElem_zipIdx]
    intro x hx hy
    have := h2 (0 + i) (0 + j) w[i] w[j] (by simp) (by simp) x hx hy
    omega

/-! ### the layout, rank by rank -/

section Lay
variable {ldim N : Nat} {w w' : World RankState}

theorem lay_lt (hL : IsLayout w w') (q : Nat) (s' : RankState) (h : w'[q]? = some s') : q < w.length := by
  rw [← hL.len]
  by_contra hc
  rw [List.getElem?_eq_none (by omega)] at h; cases h

theorem lay_rank (hL : IsLayout w w') (q : Nat) (s' : RankState) (h : w'[q]? = some s') :
    ∃ s, w[q]? = some s ∧ s'.oldN = s.oldN ∧ s'.newN = s.newN ∧ s'.nUnused = s.nUnused := by
  have hq := lay_lt hL q s' h
  obtain ⟨a, b, c, _⟩ := hL.rank q w[q] s' (List.getElem?_eq_getElem hq) h
  exact ⟨w[q], List.getElem?_eq_getElem hq, a, b, c⟩

theorem lay_nodupC (hL : IsLayout w w') (q : Nat) (s' : RankState) (h : w'[q]? = some s') : s'.cells.Nodup := by
  have hq := lay_lt hL q s' h
  exact (hL.rank q w[q] s' (List.getElem?_eq_getElem hq) h).2.2.2.1

theorem lay_nodupG (hL : IsLayout w w') (q : Nat) (s' : RankState) (h : w'[q]? = some s') :
    (s'.nodes.map (·.glob)).Nodup := by
  have hq := lay_lt hL q s' h
  exact (hL.rank q w[q] s' (List.getElem?_eq_getElem hq) h).2.2.2.2.1

theorem lay_cells (hL : IsLayout w w') (q : Nat) (s' : RankState) (h : w'[q]? = some s') (c : DCell) :
    c ∈ s'.cells ↔ AllC w c ∧ ∃ v ∈ c.nodes, partW w v = (q : Int) := by
  have hq := lay_lt hL q s' h
  exact (hL.rank q w[q] s' (List.getElem?_eq_getElem hq) h).2.2.2.2.2.1 c

theorem lay_nodes (hL : IsLayout w w') (q : Nat) (s' : RankState) (h : w'[q]? = some s') (nd : DNode) :
    nd ∈ s'.nodes ↔ Vw w nd.glob ∧ nd.part = partW w nd.glob ∧ nd.payload = payW w nd.glob ∧
      (nd.part = (q : Int) ∨ ∃ c ∈ s'.cells, nd.glob ∈ c.nodes) := by
  have hq := lay_lt hL q s' h
  exact (hL.rank q w[q] s' (List.getElem?_eq_getElem hq) h).2.2.2.2.2.2 nd

/-- the rank named by the part of a vertex exists and stores the canonical copy -/
theorem lay_owner (H : ShufHyp ldim N w) (hL : IsLayout w w') (g : Int) (hg : Vw w g) :
    ∃ o, w'[(partW w g).toNat]? = some o ∧ (⟨g, partW w g, payW w g⟩ : DNode) ∈ o.nodes := by
  obtain ⟨h1, h2, _⟩ := vw_facts H g hg
  have hlt : (partW w g).toNat < w'.length := by rw [hL.len]; omega
  refine ⟨w'[(partW w g).toNat], List.getElem?_eq_getElem hlt, ?_⟩
  rw [lay_nodes hL _ _ (List.getElem?_eq_getElem hlt)]
  refine ⟨hg, rfl, rfl, Or.inl ?_⟩
  show partW w g = (((partW w g).toNat : Nat) : Int)
  omega

/-- a vertex of a stored cell is stored (as the canonical copy) -/
theorem lay_cell_vert (H : ShufHyp ldim N w) (hL : IsLayout w w') (q : Nat) (s' : RankState) (h : w'[q]? = some s')
    (c : DCell) (hc : c ∈ s'.cells) (g : Int) (hg : g ∈ c.nodes) :
    Vw w g ∧ (⟨g, partW w g, payW w g⟩ : DNode) ∈ s'.nodes := by
  have hA := ((lay_cells hL q s' h c).mp hc).1
  have hv := allC_verts H c hA g hg
  refine ⟨hv, ?_⟩
  rw [lay_nodes hL q s' h]
  exact ⟨hv, rfl, rfl, Or.inr ⟨c, hc, hg⟩⟩

/-- the `(global, part)` list of a stored cell read from the storing rank's table: the same on every rank -/
theorem lay_cellVerts (H : ShufHyp ldim N w) (hL : IsLayout w w') (q : Nat) (s' : RankState) (h : w'[q]? = some s')
    (c : DCell) (hc : c ∈ s'.cells) : s'.cellVerts c = c.nodes.map fun g => (g, partW w g) := by
  unfold RankState.cellVerts
  apply List.map_congr_left
  intro g hg
  have := partOf_of_mem (lay_nodupG hL q s' h) (lay_cell_vert H hL q s' h c hc g hg).2
  simp only at this
  rw [this]; rfl

/-- the owner of a cell of the mesh: `ref_cell_part` on the new parts -/
def ownerW (w : World RankState) (c : DCell) : Int := cellOwner (c.nodes.map fun g => (g, partW w g))

theorem lay_ownerOf (H : ShufHyp ldim N w) (hL : IsLayout w w') (q : Nat) (s' : RankState) (h : w'[q]? = some s')
    (c : DCell) (hc : c ∈ s'.cells) : s'.ownerOf c = ownerW w c := by
  unfold RankState.ownerOf ownerW
  rw [lay_cellVerts H hL q s' h c hc]

theorem ownerW_vert (w : World RankState) (c : DCell) (hne : c.nodes ≠ []) : ∃ v ∈ c.nodes, ownerW w c = partW w v := by
  obtain ⟨v, hv, h1, _⟩ := Refine.Props.C06.cellOwner_unique (c.nodes.map fun g => (g, partW w g)) (by simpa using hne)
  obtain ⟨g, hg, rfl⟩ := List.mem_map.mp hv
  exact ⟨g, hg, h1⟩

/-- the owner of a stored cell is a rank, and that rank stores the cell -/
theorem lay_cell_owner (H : ShufHyp ldim N w) (hL : IsLayout w w') (q : Nat) (s' : RankState) (h : w'[q]? = some s')
    (c : DCell) (hc : c ∈ s'.cells) :
    ∃ os, w'[(ownerW w c).toNat]? = some os ∧ 0 ≤ ownerW w c ∧ c ∈ os.cells ∧
      (((ownerW w c).toNat : Nat) : Int) = ownerW w c := by
  obtain ⟨hA, v0, hv0, _⟩ := (lay_cells hL q s' h c).mp hc
  have hne : c.nodes ≠ [] := by intro he; rw [he] at hv0; cases hv0
  obtain ⟨v, hv, hov⟩ := ownerW_vert w c hne
  have hV := allC_verts H c hA v hv
  obtain ⟨h1, h2, _⟩ := vw_facts H v hV
  obtain ⟨os, hos, _⟩ := lay_owner H hL v hV
  rw [hov]
  refine ⟨os, hos, h1, ?_, by omega⟩
  rw [lay_cells hL _ os hos]
  exact ⟨hA, v, hv, by omega⟩

/-! ### clauses (o)–(v) -/

theorem lay_clauseLocal (H : ShufHyp ldim N w) (hL : IsLayout w w') : clauseLocal w' = true := by
  unfold clauseLocal
  rw [List.all_eq_true]
  intro s' hs'
  obtain ⟨q, hq⟩ := List.getElem?_of_mem hs'
  simp only [Bool.and_eq_true, List.all_eq_true, decide_eq_true_eq]
  refine ⟨⟨nodupB_of_nodup _ (lay_nodupG hL q s' hq), nodupB_of_nodup _ (lay_nodupC hL q s' hq)⟩, ?_⟩
  intro nd hnd
  obtain ⟨hv, hp, _, _⟩ := (lay_nodes hL q s' hq nd).mp hnd
  obtain ⟨a, b, c, _⟩ := vw_facts H nd.glob hv
  rw [hp, hL.len]; exact ⟨⟨c, a⟩, b⟩

theorem lay_clauseOwner (H : ShufHyp ldim N w) (hL : IsLayout w w') : clauseOwner w' = true := by
  unfold clauseOwner
  rw [List.all_eq_true]
  intro s' hs'
  obtain ⟨q, hq⟩ := List.getElem?_of_mem hs'
  rw [List.all_eq_true]
  intro nd hnd
  obtain ⟨hv, hp, _, _⟩ := (lay_nodes hL q s' hq nd).mp hnd
  obtain ⟨o, ho, hmem⟩ := lay_owner H hL nd.glob hv
  rw [hp, ho]
  have := partOf_of_mem (lay_nodupG hL _ o ho) hmem
  simp only at this
  simp [this]

theorem lay_clauseCells (H : ShufHyp ldim N w) (hL : IsLayout w w') : clauseCells w' = true := by
  unfold clauseCells
  rw [List.all_eq_true]
  intro sr hsr
  have hq : w'[sr.2]? = some sr.1 := List.mem_zipIdx_iff_getElem?.mp hsr
  rw [List.all_eq_true]
  intro c hc
  rw [lay_cellVerts H hL sr.2 sr.1 hq c hc]
  simp only [Bool.and_eq_true, List.all_eq_true, List.any_eq_true]
  refine ⟨⟨?_, ?_⟩, ?_⟩
  · intro g hg
    rw [has_iff]
    exact List.mem_map.mpr ⟨_, (lay_cell_vert H hL sr.2 sr.1 hq c hc g hg).2, rfl⟩
  · obtain ⟨_, v, hv, hp⟩ := (lay_cells hL sr.2 sr.1 hq c).mp hc
    exact ⟨(v, partW w v), List.mem_map.mpr ⟨v, hv, rfl⟩, by simpa using hp⟩
  · intro gp hgp
    obtain ⟨g, hg, rfl⟩ := List.mem_map.mp hgp
    obtain ⟨hA, _⟩ := (lay_cells hL sr.2 sr.1 hq c).mp hc
    have hV := allC_verts H c hA g hg
    obtain ⟨h1, _⟩ := vw_facts H g hV
    obtain ⟨o, ho, _⟩ := lay_owner H hL g hV
    simp only [ho, List.contains_eq_mem, decide_eq_true_eq]
    rw [lay_cells hL _ o ho]
    exact ⟨hA, g, hg, by omega⟩

theorem lay_clauseVerts (hL : IsLayout w w') : clauseVerts w' = true := by
  unfold clauseVerts
  rw [List.all_eq_true]
  intro sr hsr
  have hq : w'[sr.2]? = some sr.1 := List.mem_zipIdx_iff_getElem?.mp hsr
  rw [List.all_eq_true]
  intro nd hnd
  obtain ⟨_, _, _, hk⟩ := (lay_nodes hL sr.2 sr.1 hq nd).mp hnd
  simp only [Bool.or_eq_true, beq_iff_eq, List.any_eq_true, List.contains_eq_mem, decide_eq_true_eq]
  exact hk

theorem lay_clauseGhost (H : ShufHyp ldim N w) (hL : IsLayout w w') : clauseGhost w' = true := by
  unfold clauseGhost
  rw [List.all_eq_true]
  intro sr hsr
  have hq : w'[sr.2]? = some sr.1 := List.mem_zipIdx_iff_getElem?.mp hsr
  rw [List.all_eq_true]
  intro nd hnd
  obtain ⟨hv, hp, hy, _⟩ := (lay_nodes hL sr.2 sr.1 hq nd).mp hnd
  obtain ⟨o, ho, hmem⟩ := lay_owner H hL nd.glob hv
  rw [Bool.or_eq_true]
  right
  rw [hp, ho]
  have := find_glob (lay_nodupG hL _ o ho) hmem
  simp only at this
  simp only [this, Option.map_some, hy]
  simp

theorem lay_clauseCellOwner (H : ShufHyp ldim N w) (hL : IsLayout w w') : clauseCellOwner w' = true := by
  unfold clauseCellOwner
  rw [List.all_eq_true]
  intro s' hs'
  obtain ⟨q, hq⟩ := List.getElem?_of_mem hs'
  rw [List.all_eq_true]
  intro c hc
  obtain ⟨os, hos, h0, hmem, _⟩ := lay_cell_owner H hL q s' hq c hc
  simp only [lay_ownerOf H hL q s' hq c hc, hos, lay_ownerOf H hL _ os hos c hmem]
  simp [h0, hmem]

end Lay

end Refine.Lemmas.ShufflinInv
