import Refine.Model.ReconPar
import Refine.Props.C06Ghost
import Mathlib.Data.List.Nodup
import Mathlib.Algebra.Order.BigOperators.Group.List
import Mathlib.Tactic.Linarith

/-!
  The ghost refresh of a per-vertex array on a `World Rank` (`Refine.Model.ReconPar.ghostRows`), from
  `Refine.Props.C06Ghost.ghostRefresh_spec`: under the structural clauses of the distributed invariant the
  exchange completes, owned entries keep their rows and every ghost entry receives the row its owner holds for the
  same global vertex.
-/
namespace Refine.ReconParGhost
open Refine Refine.Model.ReconPar Refine.Model.Dist Refine.Model.Comm Refine.Lemmas.DistGhostFull

/-- the structural part of the distributed invariant the exchange needs -/
structure WorldOK (w : World Rank) : Prop where
  /-- a rank lists a global once (`ref_node_local` is a function) -/
  nodup : ∀ r ∈ w, r.l2g.Nodup
  partLen : ∀ r ∈ w, r.part.length = r.l2g.length
  /-- clause (i) of `distInv`: the part of a ghost is a rank that stores the vertex, as an OWNED vertex -/
  owner : ∀ (me : Nat) (r : Rank), w[me]? = some r → ∀ (i p : Nat), r.part[i]? = some p → p ≠ me →
      ∃ (ro : Rank) (j : Nat), w[p]? = some ro ∧ ro.l2g[j]? = r.l2g[i]? ∧ ro.part[j]? = some p
  /-- the exchange buffers fit an `int` (the guards of `ref_mpi_alltoallv`), for up to 6 values per vertex -/
  small : 6 * (((w.map fun r => r.l2g.length).sum : Nat) : Int) ≤ 2147483647

/-- a per-rank, per-vertex array of `ldim` values -/
structure RowsOK {β : Type} (ldim : Nat) (w : World Rank) (rows : World (List (List β))) : Prop where
  len : rows.length = w.length
  each : ∀ (me : Nat) (r : Rank) (rw : List (List β)), w[me]? = some r → rows[me]? = some rw →
      rw.length = r.l2g.length ∧ ∀ x ∈ rw, x.length = ldim

variable {β : Type}

theorem toGNodes_length (r : Rank) (rw : List (List β)) : (toGNodes r rw).length = r.l2g.length := by
  simp [toGNodes, Rank.n]

theorem toGNodes_getElem? (r : Rank) (rw : List (List β)) (i : Nat) (hi : i < r.l2g.length) :
    (toGNodes r rw)[i]? =
      some ⟨((r.l2g.getD i 0 : Nat) : Int), ((r.part.getD i 0 : Nat) : Int), rw.getD i []⟩ := by
  simp [toGNodes, Rank.n, hi]

theorem mem_toGNodes {r : Rank} {rw : List (List β)} {nd : GNode β} (h : nd ∈ toGNodes r rw) :
    ∃ i, i < r.l2g.length ∧
      nd = ⟨((r.l2g.getD i 0 : Nat) : Int), ((r.part.getD i 0 : Nat) : Int), rw.getD i []⟩ := by
  simp only [toGNodes, Rank.n, List.mem_map, List.mem_range] at h
  obtain ⟨i, hi, rfl⟩ := h
  exact ⟨i, hi, rfl⟩

theorem toGNodes_globs (r : Rank) (rw : List (List β)) :
    (toGNodes r rw).map (·.glob) = r.l2g.map fun (g : Nat) => (g : Int) := by
  apply List.ext_getElem?
  intro i
  simp only [toGNodes, Rank.n, List.map_map, List.getElem?_map]
  by_cases hi : i < r.l2g.length
  · simp [List.getElem?_range hi, List.getElem?_eq_getElem hi, List.getD_eq_getElem?_getD]
  · rw [List.getElem?_eq_none (by simpa using hi), List.getElem?_eq_none (by omega)]; rfl

theorem toGNodes_nodup (r : Rank) (rw : List (List β)) (h : r.l2g.Nodup) : ((toGNodes r rw).map (·.glob)).Nodup := by
  rw [toGNodes_globs]
  exact h.map (fun a b hab => by exact_mod_cast hab)

theorem sum_mapIdx_le {α : Type} (l : List α) (f : Nat → α → Nat) (g : α → Nat) (h : ∀ i x, f i x ≤ g x) :
    (l.mapIdx f).sum ≤ (l.map g).sum := by
  rw [List.mapIdx_eq_zipIdx_map]
  have : l.map g = l.zipIdx.map (fun p => g p.1) := by
    conv_lhs => rw [← List.zipIdx_map_fst 0 l]
    rw [List.map_map]; rfl
  rw [this]
  apply List.sum_le_sum
  intro p _
  exact h p.2 p.1

/-- the world handed to `ghost` -/
def gw (w : World Rank) (rows : World (List (List β))) : World (List (GNode β)) := List.zipWith toGNodes w rows

theorem gw_length {w : World Rank} {rows : World (List (List β))} (h : rows.length = w.length) :
    (gw w rows).length = w.length := by
  simp [gw, h]

theorem gw_getElem? {w : World Rank} {rows : World (List (List β))} {me : Nat} {r : Rank} {rw : List (List β)}
    (hr : w[me]? = some r) (hrw : rows[me]? = some rw) : (gw w rows)[me]? = some (toGNodes r rw) := by
  simp [gw, List.getElem?_zipWith, hr, hrw]

theorem getElem?_of_lt {α : Type} (l : List α) {i : Nat} (h : i < l.length) : l[i]? = some l[i] :=
  List.getElem?_eq_getElem h

/-- **ghost refresh of per-vertex rows**: the exchange completes; the result has the shape of the input; an owned
    entry keeps its row; a ghost entry gets the row the owner `p` holds at the local index `j` of the same global -/
theorem ghostRows_spec [Inhabited β] (ty : RefType) (hty : ty.mpiOk = true) (ldim : Nat) (hl : ldim ≤ 6)
    (w : World Rank) (rows : World (List (List β))) (hw : WorldOK w) (hrows : RowsOK ldim w rows) :
    ∃ out, ghostRows ty ldim w rows = some out ∧ out.length = w.length ∧
      ∀ (me : Nat) (r : Rank) (rw : List (List β)), w[me]? = some r → rows[me]? = some rw →
        ∃ o, out[me]? = some o ∧ o.length = r.l2g.length ∧
          ∀ (i p : Nat), r.part[i]? = some p →
            (p = me → o[i]? = rw[i]?) ∧
            (p ≠ me → ∀ (ro : Rank) (j : Nat) (rp : List (List β)), w[p]? = some ro → ro.l2g[j]? = r.l2g[i]? →
              rows[p]? = some rp → o[i]? = rp[j]?) := by
  have hlen : (gw w rows).length = w.length := gw_length hrows.len
  -- every rank of the `ghost` world is `toGNodes` of a rank and its rows
  have hget : ∀ me (hme : me < (gw w rows).length), ∃ r rw, w[me]? = some r ∧ rows[me]? = some rw ∧
      (gw w rows)[me] = toGNodes r rw := by
    intro me hme
    have h1 : me < w.length := hlen ▸ hme
    have h2 : me < rows.length := hrows.len ▸ h1
    refine ⟨w[me], rows[me], getElem?_of_lt w h1, getElem?_of_lt rows h2, ?_⟩
    have := gw_getElem? (getElem?_of_lt w h1) (getElem?_of_lt rows h2)
    rw [getElem?_of_lt _ hme] at this
    exact Option.some.inj this
  have hnd : ∀ nodes ∈ gw w rows, (nodes.map (·.glob)).Nodup := by
    intro nodes hn
    obtain ⟨me, hme, rfl⟩ := List.getElem_of_mem hn
    obtain ⟨r, rw, hr, _, e⟩ := hget me hme
    rw [e]
    exact toGNodes_nodup r rw (hw.nodup r (List.mem_of_getElem? hr))
  -- part / glob of an entry, as naturals
  have hentry : ∀ (r : Rank), r ∈ w → ∀ i, i < r.l2g.length →
      r.part[i]? = some (r.part.getD i 0) ∧ r.l2g[i]? = some (r.l2g.getD i 0) := by
    intro r hr i hi
    have hp : i < r.part.length := by rw [hw.partLen r hr]; exact hi
    constructor
    · rw [List.getD_eq_getElem?_getD, getElem?_of_lt _ hp]; rfl
    · rw [List.getD_eq_getElem?_getD, getElem?_of_lt _ hi]; rfl
  have hown : ∀ r (hr : r < (gw w rows).length), ∀ nd ∈ (gw w rows)[r], nd.part ≠ (r : Int) →
      0 ≤ nd.part ∧ nd.part.toNat < (gw w rows).length ∧
      ∃ od ∈ (gw w rows).getD nd.part.toNat [], od.glob = nd.glob ∧ od.vals.length = ldim := by
    intro me hme nd hmem hp
    obtain ⟨r, rw, hr, hrw, e⟩ := hget me hme
    rw [e] at hmem
    obtain ⟨i, hi, rfl⟩ := mem_toGNodes hmem
    have hrm := List.mem_of_getElem? hr
    obtain ⟨hpi, hgi⟩ := hentry r hrm i hi
    have hne : r.part.getD i 0 ≠ me := by
      intro h; apply hp; simp only; rw [h]
    obtain ⟨ro, j, hro, hj, hpj⟩ := hw.owner me r hr i _ hpi hne
    have hplt : r.part.getD i 0 < w.length := by
      by_contra hcon
      rw [List.getElem?_eq_none (by omega)] at hro
      exact absurd hro (by simp)
    refine ⟨by simp, by simp only [Int.toNat_natCast]; rw [hlen]; exact hplt, ?_⟩
    simp only [Int.toNat_natCast]
    have hplt' : r.part.getD i 0 < rows.length := hrows.len ▸ hplt
    have hrp := getElem?_of_lt rows hplt'
    have hG := gw_getElem? hro hrp
    have hjl : j < ro.l2g.length := by
      by_contra hcon
      rw [List.getElem?_eq_none (by omega), hgi] at hj
      exact absurd hj (by simp)
    rw [List.getD_eq_getElem?_getD, hG, Option.getD_some]
    refine ⟨_, List.mem_of_getElem? (toGNodes_getElem? ro _ j hjl), ?_, ?_⟩
    · simp only
      have : ro.l2g.getD j 0 = r.l2g.getD i 0 := by
        rw [List.getD_eq_getElem?_getD, hj, hgi]; rfl
      rw [this]
    · simp only
      obtain ⟨hl1, hl2⟩ := hrows.each _ ro _ hro hrp
      have hjr : j < rows[r.part.getD i 0].length := by rw [hl1]; exact hjl
      rw [List.getD_eq_getElem?_getD, getElem?_of_lt _ hjr, Option.getD_some]
      exact hl2 _ (List.getElem_mem hjr)
  -- sizes
  have hlens : ((gw w rows).map List.length).sum = (w.map fun r => r.l2g.length).sum := by
    congr 1
    apply List.ext_getElem?
    intro me
    simp only [List.getElem?_map]
    by_cases hme : me < (gw w rows).length
    · obtain ⟨r, rw, hr, _, e⟩ := hget me hme
      rw [getElem?_of_lt _ hme, e, hr]
      simp [toGNodes_length]
    · rw [List.getElem?_eq_none (by omega), List.getElem?_eq_none (by omega)]; rfl
  have hsz : ∀ r (hr : r < (gw w rows).length),
      ((max 1 ldim : Nat) : Int) * (nGhosts r (gw w rows)[r] : Int) ≤ INT_MAX ∧
      ((max 1 ldim : Nat) : Int) * (nRequests (gw w rows) r : Int) ≤ INT_MAX := by
    intro me hme
    have hmax : ((max 1 ldim : Nat) : Int) ≤ 6 := by
      have : max 1 ldim ≤ 6 := by omega
      exact_mod_cast this
    have hmax0 : (0 : Int) ≤ ((max 1 ldim : Nat) : Int) := by positivity
    have htot := hw.small
    rw [← hlens] at htot
    have b1 : nGhosts me (gw w rows)[me] ≤ ((gw w rows).map List.length).sum := by
      unfold nGhosts
      calc _ ≤ (gw w rows)[me].length := List.length_filter_le _ _
        _ ≤ _ := List.single_le_sum (fun _ _ => Nat.zero_le _) _
                  (List.mem_map.mpr ⟨_, List.getElem_mem hme, rfl⟩)
    have b2 : nRequests (gw w rows) me ≤ ((gw w rows).map List.length).sum := by
      unfold nRequests
      apply sum_mapIdx_le
      intro s nodes
      unfold ghostsTo
      exact List.length_filter_le _ _
    have k : ∀ a : Nat, a ≤ ((gw w rows).map List.length).sum →
        ((max 1 ldim : Nat) : Int) * (a : Int) ≤ INT_MAX := by
      intro a ha
      have ha' : (a : Int) ≤ ((((gw w rows).map List.length).sum : Nat) : Int) := by exact_mod_cast ha
      have h0 : (0 : Int) ≤ (a : Int) := by positivity
      calc ((max 1 ldim : Nat) : Int) * (a : Int) ≤ 6 * ((((gw w rows).map List.length).sum : Nat) : Int) := by
            nlinarith
        _ ≤ INT_MAX := by unfold INT_MAX; exact htot
    exact ⟨k _ b1, k _ b2⟩
  have hspec := Refine.Props.C06Ghost.ghostRefresh_spec ty hty ldim (gw w rows) hnd hown hsz
  refine ⟨_, by unfold ghostRows; rw [show List.zipWith toGNodes w rows = gw w rows from rfl, hspec]; rfl, ?_, ?_⟩
  · simp [hlen]
  · intro me r rw hr hrw
    have hG := gw_getElem? hr hrw
    have hme : me < (gw w rows).length := by
      by_contra hcon
      rw [List.getElem?_eq_none (by omega)] at hG
      exact absurd hG (by simp)
    refine ⟨((toGNodes r rw).map fun nd =>
        if nd.part = (me : Int) then nd else { nd with vals := ownerVals (gw w rows) nd }).map (·.vals), ?_, ?_, ?_⟩
    · simp only [List.getElem?_map, List.getElem?_mapIdx, hG, Option.map_some]
    · simp [toGNodes_length]
    · intro i p hpi
      have hrm := List.mem_of_getElem? hr
      have hi : i < r.l2g.length := by
        by_contra hcon
        rw [List.getElem?_eq_none (by rw [hw.partLen r hrm]; omega)] at hpi
        exact absurd hpi (by simp)
      obtain ⟨hpi', hgi⟩ := hentry r hrm i hi
      have hpe : r.part.getD i 0 = p := by
        rw [hpi] at hpi'; exact (Option.some.inj hpi').symm
      have hri : i < rw.length := by rw [(hrows.each me r rw hr hrw).1]; exact hi
      simp only [List.getElem?_map, toGNodes_getElem? r rw i hi, Option.map_some, hpe]
      constructor
      · intro hpm
        subst hpm
        simp only [if_true, List.getD_eq_getElem?_getD, getElem?_of_lt _ hri, Option.getD_some]
      · intro hpm ro j rp hro hj hrp
        have hne : ((p : Nat) : Int) ≠ (me : Int) := by exact_mod_cast hpm
        simp only [hne, if_false, ownerVals, Int.toNat_natCast]
        have hG' := gw_getElem? hro hrp
        have hjl : j < ro.l2g.length := by
          by_contra hcon
          rw [List.getElem?_eq_none (by omega), hgi] at hj
          exact absurd hj (by simp)
        have hjr : j < rp.length := by rw [(hrows.each p ro rp hro hrp).1]; exact hjl
        rw [List.getD_eq_getElem?_getD, hG', Option.getD_some]
        have hmem := List.mem_of_getElem? (toGNodes_getElem? ro rp j hjl)
        have hglob : ro.l2g.getD j 0 = r.l2g.getD i 0 := by
          rw [List.getD_eq_getElem?_getD, hj, hgi]; rfl
        have := lookupVals_of_mem (toGNodes_nodup ro rp (hw.nodup ro (List.mem_of_getElem? hro))) hmem
        simp only [hglob] at this
        rw [this, Option.getD_some, List.getD_eq_getElem?_getD, getElem?_of_lt _ hjr, Option.getD_some]

end Refine.ReconParGhost
