import Refine.Model.Comm
import Refine.Lemmas.ScalarReal
import Mathlib.Tactic.Linarith
import Mathlib.Tactic.Ring
import Mathlib.Tactic.FieldSimp

/-!
  `ref_search_selection` in exact arithmetic (`α := ℝ`): the 40-step bisection keeps every k-th smallest
  element between `low_val` and `high_val`, and halves the bracket each step.
-/
namespace Refine.Lemmas.Comm
open Refine Refine.Model.Comm Refine.ScalarReal

/-- number of elements `< v` -/
noncomputable def countLt (v : ℝ) (xs : List ℝ) : Int := ((xs.filter fun x => decide (x < v)).length : Int)
/-- number of elements `≤ v` -/
noncomputable def countLeR (v : ℝ) (xs : List ℝ) : Int := ((xs.filter fun x => decide (x ≤ v)).length : Int)

/-- `v` is a value a sorted copy of `xs` may hold at (0-based) `position` -/
def IsKth (xs : List ℝ) (position : Int) (v : ℝ) : Prop := countLt v xs ≤ position ∧ position < countLeR v xs

theorem half_eq : (Scalar.ofDec 5 (-1) : ℝ) = 1 / 2 := by
  rw [ofDec_eq]
  norm_num

theorem filter_length_mono {β : Type} (p q : β → Bool) (l : List β) (h : ∀ x, p x = true → q x = true) :
    (l.filter p).length ≤ (l.filter q).length := by
  induction l with
  | nil => simp
  | cons x xs ih =>
    simp only [List.filter_cons]
    cases hp : p x <;> cases hq : q x
    · simpa using ih
    · simp only [Bool.false_eq_true, if_false, if_true, List.length_cons]; omega
    · have := h x hp; rw [hq] at this; exact absurd this (by simp)
    · simp only [if_true, List.length_cons]; omega

theorem countLe_eq (mid : ℝ) (xs : List ℝ) : countLe mid xs = countLeR mid xs := by
  unfold countLe countLeR
  congr 2

theorem isum_eq_sum' (xs : List Int) : isum xs = xs.sum := by
  unfold isum
  have : ∀ (a : Int), xs.foldl (· + ·) a = a + xs.sum := by
    induction xs with
    | nil => intro a; simp
    | cons x xs ih => intro a; simp [List.foldl_cons, ih]; omega
  simpa using this 0

theorem worldCountLe_eq (mid : ℝ) (w : World (List ℝ)) : worldCountLe mid w = countLeR mid w.flatten := by
  unfold worldCountLe
  rw [isum_eq_sum']
  induction w with
  | nil => simp [countLeR]
  | cons xs w ih =>
    simp only [List.map_cons, List.sum_cons, ih, countLe_eq, countLeR, List.flatten_cons, List.filter_append,
      List.length_append]
    push_cast; rfl

/-- one bisection step keeps the bracket around every k-th element and halves it -/
theorem bisectStep_inv (w : World (List ℝ)) (position : Int) (v : ℝ) (hK : IsKth w.flatten position v)
    (s : ℝ × ℝ × ℝ) (h1 : s.1 ≤ v) (h2 : v ≤ s.2.1) :
    let s' := bisectStep w position s
    s'.1 ≤ v ∧ v ≤ s'.2.1 ∧ (s'.2.2 = s'.1 ∨ s'.2.2 = s'.2.1) ∧ s'.2.1 - s'.1 = (s.2.1 - s.1) / 2 := by
  obtain ⟨low, high, mid0⟩ := s
  simp only at h1 h2
  unfold bisectStep
  simp only [mul_eq, add_eq, half_eq, worldCountLe_eq]
  by_cases hc : countLeR (1 / 2 * (low + high)) w.flatten - 1 < position
  · simp only [hc, if_true]
    refine ⟨?_, h2, Or.inl trivial, by ring⟩
    -- fewer than `position+1` elements are `≤ mid`, so `v` is above `mid`
    by_contra hlt
    have hvm : v ≤ 1 / 2 * (low + high) := le_of_lt (not_le.mp hlt)
    have hmono : countLeR v w.flatten ≤ countLeR (1 / 2 * (low + high)) w.flatten := by
      unfold countLeR
      have := filter_length_mono (fun x => decide (x ≤ v)) (fun x => decide (x ≤ 1 / 2 * (low + high))) w.flatten
        (by intro x hx; simp only [decide_eq_true_eq] at hx ⊢; exact le_trans hx hvm)
      omega
    have := hK.2
    omega
  · simp only [hc, if_false]
    refine ⟨h1, ?_, Or.inr trivial, by ring⟩
    by_contra hlt
    have hmv : 1 / 2 * (low + high) < v := not_le.mp hlt
    have hmono : countLeR (1 / 2 * (low + high)) w.flatten ≤ countLt v w.flatten := by
      unfold countLeR countLt
      have := filter_length_mono (fun x => decide (x ≤ 1 / 2 * (low + high))) (fun x => decide (x < v)) w.flatten
        (by intro x hx; simp only [decide_eq_true_eq] at hx ⊢; exact lt_of_le_of_lt hx hmv)
      omega
    have := hK.1
    omega

theorem bisect_inv (w : World (List ℝ)) (position : Int) (v : ℝ) (hK : IsKth w.flatten position v) (k : Nat)
    (s : ℝ × ℝ × ℝ) (h1 : s.1 ≤ v) (h2 : v ≤ s.2.1) (h3 : s.2.2 = s.1 ∨ s.2.2 = s.2.1) :
    let s' := bisect w position k s
    s'.1 ≤ v ∧ v ≤ s'.2.1 ∧ (s'.2.2 = s'.1 ∨ s'.2.2 = s'.2.1) ∧ s'.2.1 - s'.1 = (s.2.1 - s.1) / 2 ^ k := by
  induction k generalizing s with
  | zero => simp [bisect, h1, h2, h3]
  | succ k ih =>
    have hs := bisectStep_inv w position v hK s h1 h2
    simp only at hs
    obtain ⟨a1, a2, a3, a4⟩ := hs
    have := ih (bisectStep w position s) a1 a2 a3
    simp only at this
    obtain ⟨b1, b2, b3, b4⟩ := this
    simp only [bisect]
    refine ⟨b1, b2, b3, ?_⟩
    rw [b4, a4, pow_succ]
    field_simp

/-! ### the initial bracket: `MIN` / `MAX` loops, `ref_mpi_min/max` + `ref_mpi_bcast` -/

theorem foldl_cmin_le (xs : List ℝ) (a : ℝ) :
    xs.foldl Scalar.cmin a ≤ a ∧ ∀ x ∈ xs, xs.foldl Scalar.cmin a ≤ x := by
  induction xs generalizing a with
  | nil => simp
  | cons y ys ih =>
    simp only [List.foldl_cons, cmin_eq]
    obtain ⟨h1, h2⟩ := ih (min a y)
    refine ⟨le_trans h1 (min_le_left _ _), ?_⟩
    intro x hx
    rcases List.mem_cons.mp hx with rfl | hx
    · exact le_trans h1 (min_le_right _ _)
    · exact h2 x hx

theorem foldl_cmax_ge (xs : List ℝ) (a : ℝ) :
    a ≤ xs.foldl Scalar.cmax a ∧ ∀ x ∈ xs, x ≤ xs.foldl Scalar.cmax a := by
  induction xs generalizing a with
  | nil => simp
  | cons y ys ih =>
    simp only [List.foldl_cons, cmax_eq]
    obtain ⟨h1, h2⟩ := ih (max a y)
    refine ⟨le_trans (le_max_left _ _) h1, ?_⟩
    intro x hx
    rcases List.mem_cons.mp hx with rfl | hx
    · exact le_trans (le_max_right _ _) h1
    · exact h2 x hx

theorem pickMin_real (a b : ℝ) : pickMin Scalar.lt a b = min a b := by
  unfold pickMin
  by_cases h : b < a
  · rw [if_pos ((lt_iff _ _).mpr h)]; exact (min_eq_right h.le).symm
  · rw [if_neg (fun hh => h ((lt_iff _ _).mp hh))]; exact (min_eq_left (not_lt.mp h)).symm

theorem pickMax_real (a b : ℝ) : pickMax Scalar.lt a b = max a b := by
  unfold pickMax
  by_cases h : a < b
  · rw [if_pos ((lt_iff _ _).mpr h)]; exact (max_eq_right h.le).symm
  · rw [if_neg (fun hh => h ((lt_iff _ _).mp hh))]; exact (max_eq_left (not_lt.mp h)).symm

theorem foldl_pickMin_le (xs : List ℝ) (a : ℝ) :
    xs.foldl (pickMin Scalar.lt) a ≤ a ∧ ∀ x ∈ xs, xs.foldl (pickMin Scalar.lt) a ≤ x := by
  induction xs generalizing a with
  | nil => simp
  | cons y ys ih =>
    simp only [List.foldl_cons, pickMin_real]
    obtain ⟨h1, h2⟩ := ih (min a y)
    refine ⟨le_trans h1 (min_le_left _ _), ?_⟩
    intro x hx
    rcases List.mem_cons.mp hx with rfl | hx
    · exact le_trans h1 (min_le_right _ _)
    · exact h2 x hx

theorem foldl_pickMax_ge (xs : List ℝ) (a : ℝ) :
    a ≤ xs.foldl (pickMax Scalar.lt) a ∧ ∀ x ∈ xs, x ≤ xs.foldl (pickMax Scalar.lt) a := by
  induction xs generalizing a with
  | nil => simp
  | cons y ys ih =>
    simp only [List.foldl_cons, pickMax_real]
    obtain ⟨h1, h2⟩ := ih (max a y)
    refine ⟨le_trans (le_max_left _ _) h1, ?_⟩
    intro x hx
    rcases List.mem_cons.mp hx with rfl | hx
    · exact le_trans (le_max_right _ _) h1
    · exact h2 x hx

theorem worldMin_le (w : World (List ℝ)) (v : ℝ) (hv : v ∈ w.flatten) : worldMin w ≤ v := by
  obtain ⟨xs, hxs, hvx⟩ := List.mem_flatten.mp hv
  have h1 : localMin xs ≤ v := (foldl_cmin_le xs _).2 v hvx
  have hm : localMin xs ∈ w.map localMin := List.mem_map.mpr ⟨xs, hxs, rfl⟩
  unfold worldMin
  cases hl : w.map localMin with
  | nil => rw [hl] at hm; simp at hm
  | cons y ys =>
    rw [hl] at hm
    simp only
    rcases List.mem_cons.mp hm with h | h
    · rw [← h]; exact le_trans (foldl_pickMin_le ys _).1 h1
    · exact le_trans ((foldl_pickMin_le ys y).2 _ h) h1

theorem le_worldMax (w : World (List ℝ)) (v : ℝ) (hv : v ∈ w.flatten) : v ≤ worldMax w := by
  obtain ⟨xs, hxs, hvx⟩ := List.mem_flatten.mp hv
  have h1 : v ≤ localMax xs := (foldl_cmax_ge xs _).2 v hvx
  have hm : localMax xs ∈ w.map localMax := List.mem_map.mpr ⟨xs, hxs, rfl⟩
  unfold worldMax
  cases hl : w.map localMax with
  | nil => rw [hl] at hm; simp at hm
  | cons y ys =>
    rw [hl] at hm
    simp only
    rcases List.mem_cons.mp hm with h | h
    · rw [← h]; exact le_trans h1 (foldl_pickMax_ge ys _).1
    · exact le_trans h1 ((foldl_pickMax_ge ys y).2 _ h)

/-- after the 40 bisections: every k-th element is bracketed, the returned mid-point is one end of the bracket,
    the bracket is `2^-40` of the initial one -/
theorem selectionState_bracket (w : World (List ℝ)) (position : Int) (v : ℝ) (hv : v ∈ w.flatten)
    (hK : IsKth w.flatten position v) :
    let s := selectionState w position
    s.1 ≤ v ∧ v ≤ s.2.1 ∧ (s.2.2 = s.1 ∨ s.2.2 = s.2.1)
      ∧ s.2.1 - s.1 = (worldMax w - worldMin w) / 2 ^ 40 := by
  have hlo := worldMin_le w v hv
  have hhi := le_worldMax w v hv
  unfold selectionState
  simp only
  have hstep := bisectStep_inv w position v hK
    (worldMin w, worldMax w, Scalar.mul (Scalar.ofDec 5 (-1)) (Scalar.add (worldMin w) (worldMax w))) hlo hhi
  simp only at hstep
  obtain ⟨a1, a2, a3, a4⟩ := hstep
  have h39 := bisect_inv w position v hK 39 _ a1 a2 a3
  simp only at h39
  obtain ⟨b1, b2, b3, b4⟩ := h39
  have hunf : bisect w position 40
      (worldMin w, worldMax w, Scalar.mul (Scalar.ofDec 5 (-1)) (Scalar.add (worldMin w) (worldMax w)))
      = bisect w position 39 (bisectStep w position
        (worldMin w, worldMax w, Scalar.mul (Scalar.ofDec 5 (-1)) (Scalar.add (worldMin w) (worldMax w)))) := rfl
  rw [hunf]
  refine ⟨b1, b2, b3, ?_⟩
  rw [b4, a4]
  have : (2 : ℝ) ^ 40 = 2 * 2 ^ 39 := by norm_num
  rw [this]
  field_simp

/-- `ref_search_selection`: the value returned in the bisection branch is within `2^-40` of the initial bracket
    of every k-th element -/
theorem selection_close (w : World (List ℝ)) (position : Int) (v : ℝ) (hv : v ∈ w.flatten)
    (hK : IsKth w.flatten position v) (h0 : 0 < position)
    (h1 : position < isum (w.map fun xs => (xs.length : Int)) - 1) :
    |selection w position - v| ≤ (worldMax w - worldMin w) / 2 ^ 40 := by
  have hs := selectionState_bracket w position v hv hK
  simp only at hs
  obtain ⟨a1, a2, a3, a4⟩ := hs
  unfold selection
  have hn0 : ¬ position ≤ 0 := by omega
  have hn1 : ¬ position ≥ isum (w.map fun xs => (xs.length : Int)) - 1 := by omega
  simp only [hn0, hn1, if_false]
  rw [← a4, abs_le]
  rcases a3 with h | h <;> rw [h] <;> constructor <;> linarith

end Refine.Lemmas.Comm
