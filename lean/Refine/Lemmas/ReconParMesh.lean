import Refine.Lemmas.ReconParAcc
import Refine.Lemmas.ReconParGhost

/-!
  Local mesh ↔ global mesh for the L2 projection: a simplex of a rank's local mesh contributes exactly what its
  image under `local → global` contributes in the global mesh (same status, weight, gradient; nodes renamed), so at
  an OWNED vertex — all simplices around it are stored (clause (ii) of the distributed invariant) — the local
  projection equals the serial projection of the global mesh (`l2gradLocal_owned`).  With the refresh
  (`ReconParGhost.ghostRows_spec`) every stored copy then equals the serial value (`l2gradPar_eq_serial`).
-/
namespace Refine.ReconParMesh
open Refine Refine.Model.Geom Refine.Model.Recon Refine.Model.ReconPar Refine.ScalarReal Refine.GeomReal
open Refine.ReconReal Refine.ReconParAcc Refine.ReconParGhost
open Refine.Model.Comm (World RefType)

/-- `local → global` as a total function -/
def gOf (l2g : List Nat) (k : Nat) : Nat := l2g.getD k 0

def globTet (l2g : List Nat) (t : Tet) : Tet := ⟨gOf l2g t.n0, gOf l2g t.n1, gOf l2g t.n2, gOf l2g t.n3⟩
def globTri (l2g : List Nat) (t : Tri) : Tri := ⟨gOf l2g t.n0, gOf l2g t.n1, gOf l2g t.n2⟩

def tetTouches (g : Nat) (t : Tet) : Bool := [t.n0, t.n1, t.n2, t.n3].contains g
def triTouches (g : Nat) (t : Tri) : Bool := [t.n0, t.n1, t.n2].contains g

theorem gOf_inj {l2g : List Nat} (h : l2g.Nodup) (a b : Nat) (ha : a < l2g.length) (hb : b < l2g.length)
    (e : gOf l2g a = gOf l2g b) : a = b := by
  unfold gOf at e
  rw [List.getD_eq_getElem?_getD, List.getD_eq_getElem?_getD, List.getElem?_eq_getElem ha,
    List.getElem?_eq_getElem hb] at e
  exact (List.Nodup.getElem_inj_iff h).mp e

theorem xyzAt_map (l2g : List Nat) (f : Nat → V3 ℝ) (k : Nat) (hk : k < l2g.length) :
    xyzAt (l2g.map f) k = f (gOf l2g k) := by
  unfold xyzAt gOf
  rw [List.getD_eq_getElem?_getD, List.getD_eq_getElem?_getD, List.getElem?_map, List.getElem?_eq_getElem hk]
  rfl

theorem sAt_map (l2g : List Nat) (gs : List ℝ) (k : Nat) (hk : k < l2g.length) :
    sAt (l2g.map fun g => gs.getD g 0) k = sAt gs (gOf l2g k) := by
  unfold sAt gOf
  rw [List.getD_eq_getElem?_getD, List.getD_eq_getElem?_getD (l := l2g), List.getElem?_map,
    List.getElem?_eq_getElem hk]
  simp

/-- a local tet contributes what its global image contributes -/
theorem tetContrib_local (gxyz : List (V3 ℝ)) (gs : List ℝ) (l2g : List Nat) (t : Tet)
    (h : t.n0 < l2g.length ∧ t.n1 < l2g.length ∧ t.n2 < l2g.length ∧ t.n3 < l2g.length) :
    rename (gOf l2g) (tetContrib (l2g.map (xyzAt gxyz)) (l2g.map fun g => gs.getD g 0) t) =
      tetContrib gxyz gs (globTet l2g t) := by
  obtain ⟨h0, h1, h2, h3⟩ := h
  simp only [rename, tetContrib, globTet, xyzAt_map l2g (xyzAt gxyz) _ h0,
    xyzAt_map l2g (xyzAt gxyz) _ h1,
    xyzAt_map l2g (xyzAt gxyz) _ h2, xyzAt_map l2g (xyzAt gxyz) _ h3, sAt_map l2g gs _ h0,
    sAt_map l2g gs _ h1, sAt_map l2g gs _ h2, sAt_map l2g gs _ h3, List.map_cons, List.map_nil]

theorem triContrib_local (gxyz : List (V3 ℝ)) (gs : List ℝ) (l2g : List Nat) (t : Tri)
    (h : t.n0 < l2g.length ∧ t.n1 < l2g.length ∧ t.n2 < l2g.length) :
    rename (gOf l2g) (triContrib (l2g.map (xyzAt gxyz)) (l2g.map fun g => gs.getD g 0) t) =
      triContrib gxyz gs (globTri l2g t) := by
  obtain ⟨h0, h1, h2⟩ := h
  simp only [rename, triContrib, globTri, xyzAt_map l2g (xyzAt gxyz) _ h0,
    xyzAt_map l2g (xyzAt gxyz) _ h1,
    xyzAt_map l2g (xyzAt gxyz) _ h2, sAt_map l2g gs _ h0,
    sAt_map l2g gs _ h1, sAt_map l2g gs _ h2, List.map_cons, List.map_nil]

theorem filter_touches_tets (gxyz : List (V3 ℝ)) (gs : List ℝ) (g : Nat) (ts : List Tet) :
    (ts.map (tetContrib gxyz gs)).filter (touches g) = (ts.filter (tetTouches g)).map (tetContrib gxyz gs) := by
  rw [List.filter_map]
  rfl

theorem filter_touches_tris (gxyz : List (V3 ℝ)) (gs : List ℝ) (g : Nat) (ts : List Tri) :
    (ts.map (triContrib gxyz gs)).filter (touches g) = (ts.filter (triTouches g)).map (triContrib gxyz gs) := by
  rw [List.filter_map]
  rfl

/-- local projection over tets = global projection, at a vertex whose global tets are all stored -/
theorem l2gradTets_local (gxyz : List (V3 ℝ)) (gs : List ℝ) (gts lts : List Tet) (l2g : List Nat)
    (hnd : l2g.Nodup) (hwf : TetsWF l2g.length lts) (i : Nat) (hi : i < l2g.length)
    (hg : gOf l2g i < gxyz.length)
    (hc : ((lts.map (globTet l2g)).filter (tetTouches (gOf l2g i))).Perm (gts.filter (tetTouches (gOf l2g i)))) :
    (l2gradTets (l2g.map (xyzAt gxyz)) (l2g.map fun g => gs.getD g 0) lts).2[i]? =
      (l2gradTets gxyz gs gts).2[gOf l2g i]? := by
  unfold l2gradTets
  rw [List.length_map]
  apply project_local_eq_global l2g.length gxyz.length (gOf l2g) (gOf_inj hnd) _ _ _ i hi hg
  · have e : (lts.map (tetContrib (l2g.map (xyzAt gxyz)) (l2g.map fun g => gs.getD g 0))).map (rename (gOf l2g)) =
        (lts.map (globTet l2g)).map (tetContrib gxyz gs) := by
      rw [List.map_map, List.map_map]
      apply List.map_congr_left
      intro t ht
      exact tetContrib_local gxyz gs l2g t (hwf t ht)
    rw [e, filter_touches_tets, filter_touches_tets]
    exact hc.map _
  · intro c hc' k hk
    obtain ⟨t, ht, rfl⟩ := List.mem_map.mp hc'
    obtain ⟨h0, h1, h2, h3⟩ := hwf t ht
    simp only [tetContrib, List.mem_cons, List.not_mem_nil, or_false] at hk
    rcases hk with rfl | rfl | rfl | rfl <;> assumption

theorem l2gradTris_local (gxyz : List (V3 ℝ)) (gs : List ℝ) (gts lts : List Tri) (l2g : List Nat)
    (hnd : l2g.Nodup) (hwf : TrisWF l2g.length lts) (i : Nat) (hi : i < l2g.length)
    (hg : gOf l2g i < gxyz.length)
    (hc : ((lts.map (globTri l2g)).filter (triTouches (gOf l2g i))).Perm (gts.filter (triTouches (gOf l2g i)))) :
    (l2gradTris (l2g.map (xyzAt gxyz)) (l2g.map fun g => gs.getD g 0) lts).2[i]? =
      (l2gradTris gxyz gs gts).2[gOf l2g i]? := by
  unfold l2gradTris
  rw [List.length_map]
  apply project_local_eq_global l2g.length gxyz.length (gOf l2g) (gOf_inj hnd) _ _ _ i hi hg
  · have e : (lts.map (triContrib (l2g.map (xyzAt gxyz)) (l2g.map fun g => gs.getD g 0))).map (rename (gOf l2g)) =
        (lts.map (globTri l2g)).map (triContrib gxyz gs) := by
      rw [List.map_map, List.map_map]
      apply List.map_congr_left
      intro t ht
      exact triContrib_local gxyz gs l2g t (hwf t ht)
    rw [e, filter_touches_tris, filter_touches_tris]
    exact hc.map _
  · intro c hc' k hk
    obtain ⟨t, ht, rfl⟩ := List.mem_map.mp hc'
    obtain ⟨h0, h1, h2⟩ := hwf t ht
    simp only [triContrib, List.mem_cons, List.not_mem_nil, or_false] at hk
    rcases hk with rfl | rfl | rfl <;> assumption

/-! ### the distributed invariant, as far as the reconstruction needs it -/

/-- clause (ii) at one stored vertex: the stored simplices around it, renamed to global ids, are — as a multiset —
    the simplices of the global mesh around it (every cell incident to the vertex is stored on this rank) -/
def CompleteAt (twod : Bool) (gcells : List Cell) (r : Rank) (i : Nat) : Prop :=
  if twod then
    (((allTris r.cells).map (globTri r.l2g)).filter (triTouches (gOf r.l2g i))).Perm
      ((allTris gcells).filter (triTouches (gOf r.l2g i)))
  else
    (((allTets r.cells).map (globTet r.l2g)).filter (tetTouches (gOf r.l2g i))).Perm
      ((allTets gcells).filter (tetTouches (gOf r.l2g i)))

/-- the distributed-mesh invariant the reconstruction relies on, for a global mesh of `nG` vertices -/
structure DistOK (twod : Bool) (nG : Nat) (gcells : List Cell) (w : World Rank) : Prop extends WorldOK w where
  inRange : ∀ r ∈ w, ∀ g ∈ r.l2g, g < nG
  /-- the stored cells use stored vertices -/
  wf : ∀ r ∈ w, if twod then TrisWF r.l2g.length (allTris r.cells) else TetsWF r.l2g.length (allTets r.cells)
  /-- clause (ii) of `distInv`: every cell incident to an OWNED vertex is stored on the owner's rank -/
  complete : ∀ (me : Nat) (r : Rank), w[me]? = some r → ∀ i, r.part[i]? = some me → CompleteAt twod gcells r i

/-- a per-rank array that is the restriction of a per-global-vertex array -/
def Consistent {β : Type} (d : β) (w : World Rank) (f : World (List β)) (gf : List β) : Prop :=
  f = w.map fun r => r.restrict d gf

theorem restrict_eq (r : Rank) (gs : List ℝ) : r.restrict (0 : ℝ) gs = r.l2g.map fun g => gs.getD g 0 := rfl

theorem restrict_getElem? {β : Type} (r : Rank) (d : β) (gf : List β) (i : Nat) (hi : i < r.l2g.length) :
    (r.restrict d gf)[i]? = some (gf.getD (gOf r.l2g i) d) := by
  unfold Rank.restrict gOf
  rw [List.getElem?_map, List.getElem?_eq_getElem hi, List.getD_eq_getElem?_getD (l := r.l2g),
    List.getElem?_eq_getElem hi]
  rfl

/-- **owned vertices**: the local projection of rank `r` at an owned vertex is the serial projection of the global
    mesh at that vertex — for ANY scalar field (the same sums: all cells around an owned vertex are local) -/
theorem l2gradLocal_owned (twod : Bool) (gxyz : List (V3 ℝ)) (gs : List ℝ) (gcells : List Cell) (r : Rank)
    (hnd : r.l2g.Nodup)
    (hwf : if twod then TrisWF r.l2g.length (allTris r.cells) else TetsWF r.l2g.length (allTets r.cells))
    (i : Nat) (hi : i < r.l2g.length) (hg : gOf r.l2g i < gxyz.length) (hc : CompleteAt twod gcells r i) :
    (l2gradLocal twod gxyz r (r.restrict 0 gs)).2[i]? = (l2grad twod gxyz gs gcells).2[gOf r.l2g i]? := by
  unfold l2gradLocal l2grad CompleteAt at *
  cases twod with
  | true =>
    simp only [if_true] at hwf hc ⊢
    exact l2gradTris_local gxyz gs _ _ r.l2g hnd hwf i hi hg hc
  | false =>
    simp only [Bool.false_eq_true, if_false] at hwf hc ⊢
    exact l2gradTets_local gxyz gs _ _ r.l2g hnd hwf i hi hg hc

theorem l2grad_length (twod : Bool) (xyz : List (V3 ℝ)) (s : List ℝ) (cells : List Cell) :
    (l2grad twod xyz s cells).2.length = xyz.length := by
  unfold l2grad l2gradTris l2gradTets
  split <;> exact length_project _ _

theorem l2gradLocal_length (twod : Bool) (gxyz : List (V3 ℝ)) (r : Rank) (s : List ℝ) :
    (l2gradLocal twod gxyz r s).2.length = r.l2g.length := by
  unfold l2gradLocal
  rw [l2grad_length]
  simp [Rank.xyz]

theorem rowV3_v3row (v : V3 ℝ) : rowV3 (v3row v) = v := by
  cases v; simp [rowV3, v3row]

theorem rowM6_m6row (m : M6 ℝ) : rowM6 (m6row m) = m := by
  cases m; simp [rowM6, m6row]

/-- **`ref_recon_l2_projection_grad` is partition independent**: on every world satisfying the distributed
    invariant, for every field given consistently on the ranks, the call completes and EVERY stored copy (owned or
    ghost) of every vertex holds the serial L2 gradient of the global mesh at that vertex -/
theorem l2gradPar_eq_serial (twod : Bool) (gxyz : List (V3 ℝ)) (gs : List ℝ) (gcells : List Cell) (w : World Rank)
    (hw : DistOK twod gxyz.length gcells w) (s : World (List ℝ)) (hs : Consistent 0 w s gs) :
    ∃ st, l2gradPar twod gxyz w s =
      some (st, w.map fun r => r.restrict V3.zero (l2grad twod gxyz gs gcells).2) := by
  subst hs
  -- the per-rank local projections
  set loc := List.zipWith (l2gradLocal twod gxyz) w (w.map fun r => r.restrict 0 gs) with hloc
  have hlocget : ∀ (me : Nat) (r : Rank), w[me]? = some r → loc[me]? = some (l2gradLocal twod gxyz r (r.restrict 0 gs)) := by
    intro me r hr
    simp [hloc, List.getElem?_zipWith, hr]
  have hloclen : loc.length = w.length := by simp [hloc]
  set rows : World (List (List ℝ)) := (loc.map (·.2)).map (·.map v3row) with hrowsdef
  have hrowsget : ∀ (me : Nat) (r : Rank), w[me]? = some r →
      rows[me]? = some ((l2gradLocal twod gxyz r (r.restrict 0 gs)).2.map v3row) := by
    intro me r hr
    simp [hrowsdef, hlocget me r hr]
  have hrows : RowsOK 3 w rows := by
    refine ⟨by simp [hrowsdef, hloclen], ?_⟩
    intro me r rw hr hrw
    rw [hrowsget me r hr] at hrw
    obtain rfl := Option.some.inj hrw
    refine ⟨by rw [List.length_map, l2gradLocal_length], ?_⟩
    intro x hx
    obtain ⟨v, _, rfl⟩ := List.mem_map.mp hx
    rfl
  obtain ⟨out, hout, houtlen, hspec⟩ :=
    @ghostRows_spec ℝ Scalar.instInhabited RefType.dbl rfl 3 (by norm_num) w rows hw.toWorldOK hrows
  refine ⟨if loc.any (fun x => x.1 = St.divZero) then St.divZero else St.ok, ?_⟩
  unfold l2gradPar ghostV3
  simp only [← hloc, ← hrowsdef, hout, Option.map_some, Option.some.injEq, Prod.mk.injEq, true_and]
  -- every stored copy equals the serial value
  apply List.ext_getElem?
  intro me
  simp only [List.getElem?_map]
  by_cases hme : me < w.length
  · have hr := getElem?_of_lt w hme
    obtain ⟨o, ho, holen, hval⟩ := hspec me w[me] _ hr (hrowsget me _ hr)
    rw [ho, hr, Option.map_some, Option.map_some, Option.some.injEq]
    set r := w[me] with hrdef
    have hrm : r ∈ w := List.getElem_mem hme
    apply List.ext_getElem?
    intro i
    simp only [List.getElem?_map]
    by_cases hi : i < r.l2g.length
    · rw [restrict_getElem? r _ _ i hi]
      have hpl : i < r.part.length := by rw [hw.partLen r hrm]; exact hi
      have hpi := getElem?_of_lt r.part hpl
      obtain ⟨hown, hghost⟩ := hval i r.part[i] hpi
      have hgin : gOf r.l2g i < gxyz.length := by
        apply hw.inRange r hrm
        unfold gOf
        rw [List.getD_eq_getElem?_getD, getElem?_of_lt _ hi]
        exact List.getElem_mem hi
      have hser : ∀ g, g < gxyz.length → (l2grad twod gxyz gs gcells).2[g]? =
          some ((l2grad twod gxyz gs gcells).2.getD g V3.zero) := by
        intro g hg
        have : g < (l2grad twod gxyz gs gcells).2.length := by rw [l2grad_length]; exact hg
        rw [List.getD_eq_getElem?_getD, getElem?_of_lt _ this]; rfl
      by_cases hp : r.part[i] = me
      · -- owned: the local sums are the global sums
        rw [hown hp, List.getElem?_map]
        have := l2gradLocal_owned twod gxyz gs gcells r (hw.nodup r hrm) (hw.wf r hrm) i hi hgin
          (hw.complete me r hr i (by rw [hpi, hp]))
        rw [this, hser _ hgin, Option.map_some, Option.map_some, rowV3_v3row]
      · -- ghost: the owner's (owned) value
        obtain ⟨ro, j, hro, hj, hpj⟩ := hw.owner me r hr i _ hpi hp
        have hrom : ro ∈ w := List.mem_of_getElem? hro
        have hjl : j < ro.l2g.length := by
          by_contra hcon
          rw [List.getElem?_eq_none (by omega), getElem?_of_lt _ hi] at hj
          exact absurd hj (by simp)
        rw [hghost hp ro j _ hro hj (hrowsget _ ro hro), List.getElem?_map]
        have hgeq : gOf ro.l2g j = gOf r.l2g i := by
          unfold gOf
          rw [List.getD_eq_getElem?_getD, List.getD_eq_getElem?_getD, hj]
        have := l2gradLocal_owned twod gxyz gs gcells ro (hw.nodup ro hrom) (hw.wf ro hrom) j hjl
          (by rw [hgeq]; exact hgin) (hw.complete _ ro hro j hpj)
        rw [this, hgeq, hser _ hgin, Option.map_some, Option.map_some, rowV3_v3row]
    · rw [List.getElem?_eq_none (by omega)]
      simp only [Option.map_none]
      rw [List.getElem?_eq_none (by simp [Rank.restrict]; omega)]
  · rw [List.getElem?_eq_none (by omega), List.getElem?_eq_none (by omega)]
    rfl

end Refine.ReconParMesh
