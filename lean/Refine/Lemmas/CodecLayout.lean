import Refine.Lemmas.CodecC20
import Mathlib.Data.List.Nodup

/-! the keyword chain written by `layout`: header scan result, key lookup, `jump` (used by C08 and C09) -/
namespace Refine.Lemmas.Codec
open Refine.Model.Meshb

/-- the section's `next_position` formula is its true length -/
def Sec.exact (v : Nat) (s : Sec) : Prop := s.declLen = 4 + fpSize v + s.body.length

theorem Sec.bytes_length {v pos : Nat} {s : Sec} : (s.bytes v pos).length = 4 + fpSize v + s.body.length := by
  simp [Sec.bytes, le32_length, encPos_length]; ring

/-- keyword and offset of every section of a layout, then of `End` -/
def secOffsets (v : Nat) : Nat → List Sec → List (Nat × Nat)
  | pos, [] => [(54, pos)]
  | pos, s :: ss => (s.kw, pos) :: secOffsets v (pos + (s.bytes v pos).length) ss

def layoutLen (v : Nat) (ss : List Sec) : Nat := (layout v 0 ss).length

theorem layout_length (v pos : Nat) (ss : List Sec) :
    (layout v pos ss).length = (ss.map fun s => 4 + fpSize v + s.body.length).sum + (4 + fpSize v) := by
  induction ss generalizing pos with
  | nil => simp [layout, le32_length, encPos_length]
  | cons s ss ih => simp [layout, ih, Sec.bytes_length]; ring

/-- all positions written into the file fit the position field -/
def posOK (v : Nat) (total : Nat) : Prop := posFits v (total : Int)

theorem posFits_mono {v : Nat} {a b : Nat} (h : posFits v (b : Int)) (hab : a ≤ b) : posFits v (a : Int) := by
  by_cases hv : 3 ≤ v <;> simp only [posFits, hv, if_true, if_false] at h ⊢ <;> constructor <;> omega

theorem headerScan_layout (cfg : Cfg) (v : Nat) (ss : List Sec) :
    ∀ (A : Bytes) (fuel : Nat) (kp : KeyPos), 0 < A.length → ss.length < fuel →
      (∀ s ∈ ss, Sec.exact v s ∧ s.kw < 156) →
      posFits v ((A.length + (layout v A.length ss).length : Nat) : Int) →
      headerScan cfg v (A ++ layout v A.length ss) fuel (A.length : Int) kp =
        .ok ((secOffsets v A.length ss).reverse ++ kp) := by
  induction ss with
  | nil =>
    intro A fuel kp hA hf _ _
    cases fuel with
    | zero => simp at hf
    | succ fuel =>
      unfold headerScan
      have hc : ((A.length : Int) ≤ ((A ++ layout v A.length []).length : Int) ∧ (A.length : Int) ≠ 0) := by
        constructor
        · rw [List.length_append]; push_cast; omega
        · exact_mod_cast (by omega : A.length ≠ 0)
      rw [if_pos hc, if_neg (by omega)]
      dsimp only
      simp only [Int.toNat_natCast, List.drop_left, layout]
      rw [rdI32_le32 (by norm_num)]
      dsimp only
      have h0 : posFits v 0 := by unfold posFits; split <;> norm_num
      have hp0 := rdPos_encPos v h0 []
      simp only [List.append_nil] at hp0
      rw [hp0]
      dsimp only
      rw [if_neg (by simp), headerScan_zero]
      simp [secOffsets, Refine.Gen.CodecConsts.lastKeyword]
  | cons s ss ih =>
    intro A fuel kp hA hf hss hfit
    cases fuel with
    | zero => simp at hf
    | succ fuel =>
      obtain ⟨hex, hkw⟩ := hss s (List.mem_cons_self ..)
      have hex : s.declLen = 4 + fpSize v + s.body.length := hex
      unfold headerScan
      have hc : ((A.length : Int) ≤ ((A ++ layout v A.length (s :: ss)).length : Int) ∧ (A.length : Int) ≠ 0) := by
        constructor
        · rw [List.length_append]; push_cast; omega
        · exact_mod_cast (by omega : A.length ≠ 0)
      rw [if_pos hc, if_neg (by omega)]
      dsimp only
      simp only [Int.toNat_natCast, List.drop_left]
      have hlay : layout v A.length (s :: ss) =
          le32 s.kw ++ (encPos v ((A.length + s.declLen : Nat) : Int) ++ (s.body ++
            layout v (A.length + (s.bytes v A.length).length) ss)) := by
        simp [layout, Sec.bytes, List.append_assoc]
      rw [hlay, rdI32_le32 (by omega)]
      dsimp only
      have hlen : (layout v A.length (s :: ss)).length =
          (s.bytes v A.length).length + (layout v (A.length + (s.bytes v A.length).length) ss).length := by
        simp [layout]
      have hnext : posFits v ((A.length + s.declLen : Nat) : Int) := by
        refine posFits_mono hfit ?_
        rw [hlen, Sec.bytes_length, hex]; omega
      rw [rdPos_encPos v hnext]
      dsimp only
      rw [if_neg (by
        intro hh; apply hh.2; right
        rw [hex]; push_cast; omega)]
      have hkw' : (0 : Int) ≤ (s.kw : Int) ∧ (s.kw : Int) < (Refine.Gen.CodecConsts.lastKeyword : Int) := by
        simp [Refine.Gen.CodecConsts.lastKeyword]; omega
      rw [if_pos hkw']
      have e1 : A ++ (le32 s.kw ++ (encPos v ((A.length + s.declLen : Nat) : Int) ++ (s.body ++
            layout v (A.length + (s.bytes v A.length).length) ss))) =
          (A ++ s.bytes v A.length) ++ layout v (A ++ s.bytes v A.length).length ss := by
        simp [Sec.bytes, List.append_assoc]
      have e2 : ((A.length + s.declLen : Nat) : Int) = ((A ++ s.bytes v A.length).length : Int) := by
        rw [List.length_append, Sec.bytes_length, hex]
      rw [e1, e2, ih (A ++ s.bytes v A.length) fuel _ (by simp; omega) (by simp at hf; omega)
        (fun s' hs' => hss s' (List.mem_cons_of_mem _ hs'))
        (by rw [List.length_append, Nat.add_assoc, ← hlen]; exact hfit)]
      simp [secOffsets, List.length_append, Int.toNat_natCast]

/-! ### key lookup -/

theorem KeyPos.get_of_unique {kp : KeyPos} {k p : Nat} (hnd : (kp.map Prod.fst).Nodup) (hmem : (k, p) ∈ kp) :
    KeyPos.get kp k = some p := by
  unfold KeyPos.get
  cases hf : kp.find? (fun q => q.1 == k) with
  | none =>
    rw [List.find?_eq_none] at hf
    exact absurd (by simp) (hf (k, p) hmem)
  | some q =>
    have hq := List.mem_of_find?_eq_some hf
    have hk : q.1 = k := by have := List.find?_some hf; simpa using this
    obtain ⟨k', p'⟩ := q
    simp only at hk; subst hk
    have : p' = p := by
      by_contra hne
      have := List.inj_on_of_nodup_map hnd hq hmem rfl
      exact hne (by simpa using this)
    simp [this]

theorem KeyPos.get_none {kp : KeyPos} {k : Nat} (h : k ∉ kp.map Prod.fst) : KeyPos.get kp k = none := by
  unfold KeyPos.get
  cases hf : kp.find? (fun q => q.1 == k) with
  | none => rfl
  | some q =>
    have hq := List.mem_of_find?_eq_some hf
    have hk : q.1 = k := by have := List.find?_some hf; simpa using this
    exact absurd (List.mem_map.2 ⟨q, hq, hk⟩) h

theorem secOffsets_keys (v pos : Nat) (ss : List Sec) :
    (secOffsets v pos ss).map Prod.fst = ss.map Sec.kw ++ [54] := by
  induction ss generalizing pos with
  | nil => simp [secOffsets]
  | cons s ss ih => simp [secOffsets, ih]

/-- where a section of the layout lies in the file -/
theorem layout_split {v : Nat} {s : Sec} {ss : List Sec} (hs : s ∈ ss) (start : Nat) :
    ∃ pos pre rest, (s.kw, pos) ∈ secOffsets v start ss ∧
      layout v start ss = pre ++ (s.bytes v pos ++ rest) ∧ start + pre.length = pos := by
  induction ss generalizing start with
  | nil => simp at hs
  | cons s0 ss ih =>
    rcases List.mem_cons.1 hs with rfl | hs'
    · exact ⟨start, [], layout v (start + (s.bytes v start).length) ss, by simp [secOffsets], by simp [layout], by simp⟩
    · obtain ⟨pos, pre, rest, hm, hl, hp⟩ := ih hs' (start + (s0.bytes v start).length)
      refine ⟨pos, s0.bytes v start ++ pre, rest, by simp [secOffsets, hm], ?_, ?_⟩
      · simp [layout, hl, List.append_assoc]
      · simp; omega

/-- `ref_import_meshb_jump` to a section that the layout contains -/
theorem jump_present {cfg : Cfg} {v : Nat} {ss : List Sec} {A : Bytes} {fuel : Nat}
    (hA : 0 < A.length) (hf : ss.length < fuel)
    (hss : ∀ s ∈ ss, Sec.exact v s ∧ s.kw < 156)
    (hfit : posFits v ((A.length + (layout v A.length ss).length : Nat) : Int))
    (hnd : (ss.map Sec.kw ++ [54]).Nodup) :
    ∃ kp, headerScan cfg v (A ++ layout v A.length ss) fuel (A.length : Int) [] = .ok kp ∧
      (∀ k, k ∉ ss.map Sec.kw ++ [54] → KeyPos.get kp k = none) ∧
      (∀ s' ∈ ss, ∃ rest', jump v (A ++ layout v A.length ss) kp s'.kw =
        .ok (some ((((A ++ layout v A.length ss).length - rest'.length : Nat) : Int), s'.body ++ rest')) ∧
        rest'.length + s'.body.length ≤ (A ++ layout v A.length ss).length) := by
  have hscan := headerScan_layout cfg v ss A fuel [] hA hf hss hfit
  simp only [List.append_nil] at hscan
  have hkeys : ((secOffsets v A.length ss).reverse.map Prod.fst).Nodup := by
    rw [List.map_reverse, List.nodup_reverse, secOffsets_keys]; exact hnd
  have hjump : ∀ s' ∈ ss, ∃ rest', jump v (A ++ layout v A.length ss) (secOffsets v A.length ss).reverse s'.kw =
        .ok (some ((((A ++ layout v A.length ss).length - rest'.length : Nat) : Int), s'.body ++ rest')) ∧
        rest'.length + s'.body.length ≤ (A ++ layout v A.length ss).length := by
    intro s' hs'
    obtain ⟨pos, pre, rest, hm, hl, hp⟩ := layout_split (v := v) hs' A.length
    obtain ⟨hex, hkw⟩ := hss s' hs'
    have hex : s'.declLen = 4 + fpSize v + s'.body.length := hex
    have htot : (layout v A.length ss).length = pre.length + (4 + fpSize v + s'.body.length) + rest.length := by
      rw [hl]; simp [Sec.bytes_length]; ring
    refine ⟨rest, ?_, ?_⟩
    · unfold jump
      rw [KeyPos.get_of_unique hkeys (List.mem_reverse.2 hm)]
      dsimp only
      have hd : (A ++ layout v A.length ss).drop pos = s'.bytes v pos ++ rest := by
        rw [hl, ← List.append_assoc, List.drop_left' (by simp; omega)]
      rw [hd]
      simp only [Sec.bytes, List.append_assoc]
      rw [rdI32_le32 (by omega)]
      dsimp only
      rw [if_neg (by simp)]
      have hnext : posFits v ((pos + s'.declLen : Nat) : Int) := by
        refine posFits_mono hfit ?_
        omega
      rw [rdPos_encPos v hnext]
      dsimp only
      congr 3
      rw [List.length_append]; omega
    · rw [List.length_append]; omega
  refine ⟨_, hscan, ?_, hjump⟩
  intro k hk
  apply KeyPos.get_none
  rw [List.map_reverse, List.mem_reverse, secOffsets_keys]; exact hk

end Refine.Lemmas.Codec
