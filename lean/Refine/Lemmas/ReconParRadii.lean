import Refine.Lemmas.ReconParCells
import Refine.Lemmas.ReconParRoundoff

/-!
  The radius of `ref_recon_roundoff_limit` (shortest edge at a vertex, `-1.0` where there is none) in exact
  arithmetic: entry `i` of `Metric.radii` is the minimum of the lengths of the cell edges at `i` (`MinOf`), a function
  of the SET of those lengths.  At a stored vertex all of whose cells are stored the local radius is therefore the
  radius of the global mesh: the eigenvalue floor `4e-12 / radius²` does not depend on the partition
  (`radii_local_eq_global`).
-/
namespace Refine.ReconParRadii
open Refine Refine.Model.Geom Refine.Model.Recon Refine.Model.ReconPar Refine.ScalarReal Refine.GeomReal
open Refine.ReconParMesh Refine.ReconParCells
open Refine.Model.Metric (radii cellEdges edgeLength updRadius kindE2n isVol)

/-- `r` is the minimum of the set `P` of non-negative numbers, `-1` when `P` is empty -/
def MinOf (P : ℝ → Prop) (r : ℝ) : Prop := (r = -1 ∧ ∀ d, ¬P d) ∨ (0 ≤ r ∧ P r ∧ ∀ d, P d → r ≤ d)

theorem MinOf.unique {P Q : ℝ → Prop} {r s : ℝ} (hr : MinOf P r) (hs : MinOf Q s) (h : ∀ d, P d ↔ Q d) : r = s := by
  rcases hr with ⟨rfl, hn⟩ | ⟨h0, hp, hm⟩
  · rcases hs with ⟨rfl, _⟩ | ⟨_, hq, _⟩
    · rfl
    · exact absurd ((h s).mpr hq) (hn s)
  · rcases hs with ⟨rfl, hn⟩ | ⟨_, hq, hm'⟩
    · exact absurd ((h r).mp hp) (hn r)
    · exact le_antisymm (hm s ((h s).mpr hq)) (hm' r ((h r).mp hp))

theorem updRadius_eq (d r : ℝ) : updRadius d r = min (if r < 0 then d else r) d := by
  unfold updRadius
  simp only [cmin_eq]
  congr 1
  by_cases h : r < 0
  · simp [h, Scalar.zero]
  · simp [h, Scalar.zero]

theorem MinOf.upd {P : ℝ → Prop} {r d : ℝ} (h : MinOf P r) (hd : 0 ≤ d) :
    MinOf (fun x => P x ∨ x = d) (updRadius d r) := by
  rw [updRadius_eq]
  rcases h with ⟨rfl, hn⟩ | ⟨h0, hp, hm⟩
  · right
    have e : min (if (-1 : ℝ) < 0 then d else -1) d = d := by
      rw [if_pos (by norm_num)]; exact min_self d
    rw [e]
    refine ⟨hd, Or.inr rfl, fun x hx => ?_⟩
    rcases hx with hx | rfl
    · exact absurd hx (hn x)
    · exact le_refl _
  · right
    rw [if_neg (not_lt.mpr h0)]
    refine ⟨le_min h0 hd, ?_, ?_⟩
    · rcases min_choice r d with e | e
      · rw [e]; exact Or.inl hp
      · rw [e]; exact Or.inr rfl
    · intro x hx
      rcases hx with hx | rfl
      · exact le_trans (min_le_left _ _) (hm x hx)
      · exact min_le_right _ _

theorem MinOf.congr {P Q : ℝ → Prop} {r : ℝ} (h : MinOf P r) (hpq : ∀ d, P d ↔ Q d) : MinOf Q r := by
  rcases h with ⟨e, hn⟩ | ⟨h0, hp, hm⟩
  · exact Or.inl ⟨e, fun d hd => hn d ((hpq d).mpr hd)⟩
  · exact Or.inr ⟨h0, (hpq r).mp hp, fun d hd => hm d ((hpq d).mpr hd)⟩

/-- what one edge does to entry `i` -/
noncomputable def upd1 (xyz : List (V3 ℝ)) (i : Nat) (r : ℝ) (e : Nat × Nat) : ℝ :=
  let d := edgeLength xyz e.1 e.2
  let r1 := if e.1 = i then updRadius d r else r
  if e.2 = i then updRadius d r1 else r1

theorem radii_fold_getElem? (xyz : List (V3 ℝ)) (i : Nat) :
    ∀ (es : List (Nat × Nat)) (acc : List ℝ),
      (es.foldl (fun rad e =>
        let dist := edgeLength xyz e.1 e.2
        (rad.modify e.1 (updRadius dist)).modify e.2 (updRadius dist)) acc)[i]? =
      (acc[i]?).map fun r => es.foldl (upd1 xyz i) r := by
  intro es
  induction es with
  | nil => intro acc; cases h : acc[i]? <;> simp [h]
  | cons e rest ih =>
    intro acc
    simp only [List.foldl_cons]
    rw [ih]
    simp only [List.getElem?_modify]
    cases acc[i]? with
    | none => simp
    | some r =>
      simp only [Option.map_some, Option.some.injEq, upd1]
      by_cases h1 : e.1 = i <;> by_cases h2 : e.2 = i <;> simp [h1, h2]

theorem edgeLength_nonneg (xyz : List (V3 ℝ)) (a b : Nat) : 0 ≤ edgeLength xyz a b := by
  unfold edgeLength
  simp only [sqrt_eq]
  exact Real.sqrt_nonneg _

/-- the lengths of the edges of `es` at `i` -/
def DistAt (xyz : List (V3 ℝ)) (es : List (Nat × Nat)) (i : Nat) (d : ℝ) : Prop :=
  ∃ e ∈ es, (e.1 = i ∨ e.2 = i) ∧ d = edgeLength xyz e.1 e.2

theorem fold_minOf (xyz : List (V3 ℝ)) (i : Nat) :
    ∀ (es pre : List (Nat × Nat)) (r : ℝ), MinOf (DistAt xyz pre i) r →
      MinOf (DistAt xyz (pre ++ es) i) (es.foldl (upd1 xyz i) r) := by
  intro es
  induction es with
  | nil => intro pre r h; simpa using h
  | cons e rest ih =>
    intro pre r h
    simp only [List.foldl_cons]
    have step : MinOf (DistAt xyz (pre ++ [e]) i) (upd1 xyz i r e) := by
      have hd := edgeLength_nonneg xyz e.1 e.2
      unfold upd1
      dsimp only
      by_cases h1 : e.1 = i
      · have m1 := h.upd hd
        by_cases h2 : e.2 = i
        · rw [if_pos h1, if_pos h2]
          have m2 := m1.upd hd
          apply m2.congr
          intro d
          simp only [DistAt, List.mem_append, List.mem_singleton]
          constructor
          · rintro ((⟨e', he', ht, rfl⟩ | rfl) | rfl)
            · exact ⟨e', Or.inl he', ht, rfl⟩
            · exact ⟨e, Or.inr rfl, Or.inl h1, by rw [h1, h2]⟩
            · exact ⟨e, Or.inr rfl, Or.inl h1, by rw [h1, h2]⟩
          · rintro ⟨e', he' | rfl, ht, rfl⟩
            · exact Or.inl (Or.inl ⟨e', he', ht, rfl⟩)
            · exact Or.inr (by rw [h1, h2])
        · rw [if_pos h1, if_neg h2]
          apply m1.congr
          intro d
          simp only [DistAt, List.mem_append, List.mem_singleton]
          constructor
          · rintro (⟨e', he', ht, rfl⟩ | rfl)
            · exact ⟨e', Or.inl he', ht, rfl⟩
            · exact ⟨e, Or.inr rfl, Or.inl h1, by rw [h1]⟩
          · rintro ⟨e', he' | rfl, ht, rfl⟩
            · exact Or.inl ⟨e', he', ht, rfl⟩
            · exact Or.inr (by rw [h1])
      · by_cases h2 : e.2 = i
        · rw [if_neg h1, if_pos h2]
          have m1 := h.upd hd
          apply m1.congr
          intro d
          simp only [DistAt, List.mem_append, List.mem_singleton]
          constructor
          · rintro (⟨e', he', ht, rfl⟩ | rfl)
            · exact ⟨e', Or.inl he', ht, rfl⟩
            · exact ⟨e, Or.inr rfl, Or.inr h2, by rw [h2]⟩
          · rintro ⟨e', he' | rfl, ht, rfl⟩
            · exact Or.inl ⟨e', he', ht, rfl⟩
            · exact Or.inr (by rw [h2])
        · rw [if_neg h1, if_neg h2]
          apply h.congr
          intro d
          simp only [DistAt, List.mem_append, List.mem_singleton]
          constructor
          · rintro ⟨e', he', ht, rfl⟩
            exact ⟨e', Or.inl he', ht, rfl⟩
          · rintro ⟨e', he' | rfl, ht, rfl⟩
            · exact ⟨e', he', ht, rfl⟩
            · rcases ht with ht | ht
              · exact absurd ht h1
              · exact absurd ht h2
    have := ih (pre ++ [e]) _ step
    simpa [List.append_assoc] using this

/-- **entry `i` of `radii` is the shortest cell edge at `i`** (`-1` when there is none) -/
theorem radii_minOf (xyz : List (V3 ℝ)) (cells : List Cell) (i : Nat) (hi : i < xyz.length) :
    ∃ r, (radii xyz cells)[i]? = some r ∧ MinOf (DistAt xyz (cellEdges cells) i) r := by
  unfold radii
  rw [radii_fold_getElem?]
  refine ⟨_, by rw [List.getElem?_replicate, if_pos hi]; rfl, ?_⟩
  have h0 : MinOf (DistAt xyz [] i) ((Scalar.ofInt (-1) : ℝ)) := by
    left
    refine ⟨by simp, fun d hd => ?_⟩
    obtain ⟨e, he, _⟩ := hd
    simp at he
  have := fold_minOf xyz i (cellEdges cells) [] _ h0
  simpa using this

/-! ### local ↔ global -/

/-- the edges of one cell -/
def edgesOf (c : Cell) : List (Nat × Nat) :=
  (kindE2n c.kind).map (fun e => (c.nodes.getD (e.getD 0 0) 0, c.nodes.getD (e.getD 1 0) 0))

theorem mem_cellEdges {cells : List Cell} {e : Nat × Nat} : e ∈ cellEdges cells ↔ ∃ c ∈ cells, e ∈ edgesOf c := by
  unfold cellEdges
  simp only [List.mem_append, List.mem_flatMap, List.mem_filter]
  constructor
  · rintro (⟨c, ⟨hc, _⟩, he⟩ | ⟨c, ⟨hc, _⟩, he⟩) <;> exact ⟨c, hc, he⟩
  · rintro ⟨c, hc, he⟩
    by_cases hv : isVol c.kind = true
    · exact Or.inl ⟨c, ⟨hc, hv⟩, he⟩
    · exact Or.inr ⟨c, ⟨hc, by simpa using hv⟩, he⟩

theorem edgesOf_glob (l2g : List Nat) (c : Cell) (h : CellWF c) :
    edgesOf (globCell l2g c) = (edgesOf c).map fun e => (gOf l2g e.1, gOf l2g e.2) := by
  obtain ⟨kind, nodes⟩ := c
  cases kind <;> simp only [CellWF, kindSize] at h
  · obtain ⟨a, b, c, rfl⟩ := len3 h; rfl
  · obtain ⟨a, b, c, d, rfl⟩ := len4 h; rfl
  · obtain ⟨a, b, c, d, rfl⟩ := len4 h; rfl
  · obtain ⟨a, b, c, d, e, rfl⟩ := len5 h; rfl
  · obtain ⟨a, b, c, d, e, f, rfl⟩ := len6 h; rfl
  · obtain ⟨a, b, c, d, e, f, g, i, rfl⟩ := len8 h; rfl

theorem edgesOf_nodes (c : Cell) (h : CellWF c) (e : Nat × Nat) (he : e ∈ edgesOf c) :
    e.1 ∈ c.nodes ∧ e.2 ∈ c.nodes := by
  obtain ⟨kind, nodes⟩ := c
  cases kind <;> simp only [CellWF, kindSize] at h
  · obtain ⟨a, b, c, rfl⟩ := len3 h
    simp [edgesOf, kindE2n, Gen.CellTables.tri] at he
    rcases he with rfl | rfl | rfl <;> simp
  · obtain ⟨a, b, c, d, rfl⟩ := len4 h
    simp [edgesOf, kindE2n, Gen.CellTables.qua] at he
    rcases he with rfl | rfl | rfl | rfl <;> simp
  · obtain ⟨a, b, c, d, rfl⟩ := len4 h
    simp [edgesOf, kindE2n, Gen.CellTables.tet] at he
    rcases he with rfl | rfl | rfl | rfl | rfl | rfl <;> simp
  · obtain ⟨a, b, c, d, e', rfl⟩ := len5 h
    simp [edgesOf, kindE2n, Gen.CellTables.pyr] at he
    rcases he with rfl | rfl | rfl | rfl | rfl | rfl | rfl | rfl <;> simp
  · obtain ⟨a, b, c, d, e', f, rfl⟩ := len6 h
    simp [edgesOf, kindE2n, Gen.CellTables.pri] at he
    rcases he with rfl | rfl | rfl | rfl | rfl | rfl | rfl | rfl | rfl <;> simp
  · obtain ⟨a, b, c, d, e', f, g, i, rfl⟩ := len8 h
    simp [edgesOf, kindE2n, Gen.CellTables.hex] at he
    rcases he with rfl | rfl | rfl | rfl | rfl | rfl | rfl | rfl | rfl | rfl | rfl | rfl <;> simp

theorem edgeLength_local (gxyz : List (V3 ℝ)) (l2g : List Nat) (a b : Nat) (ha : a < l2g.length)
    (hb : b < l2g.length) :
    edgeLength (l2g.map (xyzAt gxyz)) a b = edgeLength gxyz (gOf l2g a) (gOf l2g b) := by
  unfold edgeLength
  rw [xyzAt_map l2g (xyzAt gxyz) a ha, xyzAt_map l2g (xyzAt gxyz) b hb]

/-- **the radius at a stored vertex all of whose cells are stored is the radius of the global mesh**: the
    eigenvalue floor of `ref_recon_roundoff_limit` at an owned vertex does not depend on the partition -/
theorem radii_local_eq_global (gxyz : List (V3 ℝ)) (gcells : List Cell) (r : Rank) (i : Nat)
    (hnd : r.l2g.Nodup) (hi : i < r.l2g.length) (hg : gOf r.l2g i < gxyz.length)
    (hL : ∀ c ∈ r.cells, CellWF c) (hG : ∀ c ∈ gcells, CellWF c)
    (hnodes : ∀ c ∈ r.cells, ∀ v ∈ c.nodes, v < r.l2g.length)
    (h : ((r.cells.map (globCell r.l2g)).filter (cellTouches (gOf r.l2g i))).Perm
      (gcells.filter (cellTouches (gOf r.l2g i)))) :
    (radii (r.xyz gxyz) r.cells)[i]? = (radii gxyz gcells)[gOf r.l2g i]? := by
  have hlx : (r.xyz gxyz).length = r.l2g.length := by simp [Rank.xyz]
  obtain ⟨rl, hrl, ml⟩ := radii_minOf (r.xyz gxyz) r.cells i (by rw [hlx]; exact hi)
  obtain ⟨rg, hrg, mg⟩ := radii_minOf gxyz gcells (gOf r.l2g i) hg
  rw [hrl, hrg]
  congr 1
  apply ml.unique mg
  intro d
  have inj := gOf_inj hnd
  constructor
  · rintro ⟨e, he, ht, rfl⟩
    obtain ⟨c, hc, hec⟩ := mem_cellEdges.mp he
    obtain ⟨n1, n2⟩ := edgesOf_nodes c (hL c hc) e hec
    have h1 := hnodes c hc _ n1
    have h2 := hnodes c hc _ n2
    have hci : i ∈ c.nodes := by rcases ht with rfl | rfl <;> assumption
    have hmem : globCell r.l2g c ∈ (r.cells.map (globCell r.l2g)).filter (cellTouches (gOf r.l2g i)) := by
      rw [List.mem_filter]
      refine ⟨List.mem_map.mpr ⟨c, hc, rfl⟩, ?_⟩
      simp only [cellTouches, globCell, List.contains_iff_mem]
      exact List.mem_map.mpr ⟨i, hci, rfl⟩
    have hgm := (List.mem_filter.mp (h.subset hmem)).1
    refine ⟨(gOf r.l2g e.1, gOf r.l2g e.2), mem_cellEdges.mpr ⟨_, hgm, ?_⟩, ?_, ?_⟩
    · rw [edgesOf_glob r.l2g c (hL c hc)]
      exact List.mem_map.mpr ⟨e, hec, rfl⟩
    · rcases ht with rfl | rfl
      · exact Or.inl rfl
      · exact Or.inr rfl
    · exact edgeLength_local gxyz r.l2g e.1 e.2 h1 h2
  · rintro ⟨E, hE, ht, rfl⟩
    obtain ⟨C, hC, hEC⟩ := mem_cellEdges.mp hE
    obtain ⟨N1, N2⟩ := edgesOf_nodes C (hG C hC) E hEC
    have hCg : cellTouches (gOf r.l2g i) C = true := by
      simp only [cellTouches, List.contains_iff_mem]
      rcases ht with e | e
      · rw [← e]; exact N1
      · rw [← e]; exact N2
    have hmem : C ∈ gcells.filter (cellTouches (gOf r.l2g i)) := List.mem_filter.mpr ⟨hC, hCg⟩
    obtain ⟨hm1, _⟩ := List.mem_filter.mp (h.symm.subset hmem)
    obtain ⟨c, hc, rfl⟩ := List.mem_map.mp hm1
    rw [edgesOf_glob r.l2g c (hL c hc)] at hEC
    obtain ⟨e, hec, rfl⟩ := List.mem_map.mp hEC
    obtain ⟨n1, n2⟩ := edgesOf_nodes c (hL c hc) e hec
    have h1 := hnodes c hc _ n1
    have h2 := hnodes c hc _ n2
    refine ⟨e, mem_cellEdges.mpr ⟨c, hc, hec⟩, ?_, ?_⟩
    · rcases ht with e' | e'
      · exact Or.inl (inj _ _ h1 hi e')
      · exact Or.inr (inj _ _ h2 hi e')
    · exact (edgeLength_local gxyz r.l2g e.1 e.2 h1 h2).symm

end Refine.ReconParRadii
