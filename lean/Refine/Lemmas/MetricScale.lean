import Refine.Model.Metric
import Refine.Lemmas.ScalarReal
import Refine.Lemmas.MatrixReal
import Mathlib.Tactic.Ring
import Mathlib.Tactic.Linarith
import Mathlib.Tactic.FieldSimp
import Mathlib.Tactic.Positivity

/-!
  Real-number side of the complexity integral: the coded determinant `detM` (Gaussian elimination with
  `ref_math_divisible` guards) is exactly homogeneous under positive scaling — guards included —, hence the
  vertex density `sqrt(det)` and the whole quadrature of `ref_metric_complexity` are homogeneous.
-/
namespace Refine.Model.Metric
open Refine Refine.Scalar Refine.ScalarReal Refine.Model.Matrix
open Refine.Model.Recon (Cell CellKind Tet Tri xyzAt)
open Refine.Model.Geom (V3 B4)

/-- `m13 = m23 = 0`, `m33 = 1`: the planar embedding of a 2x2 metric -/
def IsEmbedded (m : M6 ℝ) : Prop := m.m13 = 0 ∧ m.m23 = 0 ∧ m.m33 = 1

theorem divisible_scale (n d s : ℝ) (hs : s ≠ 0) :
    Scalar.divisible (n * s) (d * s) = Scalar.divisible n d := by
  rw [Bool.eq_iff_iff, divisible_iff, divisible_iff]
  have h : |(1 : ℝ) * (10 : ℝ) ^ (20 : ℤ) * (d * s)| = |(1 : ℝ) * (10 : ℝ) ^ (20 : ℤ) * d| * |s| := by
    rw [← abs_mul]; congr 1; ring
  rw [h, abs_mul]
  exact mul_lt_mul_iff_left₀ (abs_pos.mpr hs)

theorem divisible_zero_iff (d : ℝ) : Scalar.divisible (0 : ℝ) d = true ↔ d ≠ 0 := by
  rw [divisible_iff, abs_zero, abs_pos]
  constructor
  · intro h hd; apply h; rw [hd]; ring
  · intro h; exact mul_ne_zero (by norm_num) h

/-- the coded determinant of the scaled metric, all guard branches: `det_m(s·m) = s³ · det_m(m)` -/
theorem detM_scale (m : M6 ℝ) (s : ℝ) (hs : s ≠ 0) : detM (scaleM m s) = s ^ 3 * detM m := by
  cases m with
  | mk a b c d e f =>
  unfold detM detGen3 mFull scaleM
  simp only [Vec3.axmy, one_eq, zero_eq, mul_eq, sub_eq, div_eq]
  have q1 : b * s / (a * s) = b / a := mul_div_mul_right _ _ hs
  have q2 : c * s / (a * s) = c / a := mul_div_mul_right _ _ hs
  rw [q1, q2, divisible_scale b a s hs, divisible_scale c a s hs]
  have r1 : d * s - b / a * (b * s) = (d - b / a * b) * s := by ring
  have r2 : e * s - c / a * (b * s) = (e - c / a * b) * s := by ring
  have r3 : e * s - b / a * (c * s) = (e - b / a * c) * s := by ring
  have r4 : f * s - c / a * (c * s) = (f - c / a * c) * s := by ring
  rw [r1, r2, r3, r4, divisible_scale _ _ s hs]
  have q3 : (e - c / a * b) * s / ((d - b / a * b) * s) = (e - c / a * b) / (d - b / a * b) := mul_div_mul_right _ _ hs
  rw [q3]
  split_ifs <;> ring

/-- 2-D: scaling the 2x2 block of an embedded metric and re-imposing the embedding scales the coded
    determinant by `s²` -/
theorem detM_embed_scale (m : M6 ℝ) (s : ℝ) (hs : s ≠ 0) (he : IsEmbedded m) :
    detM (twodM (scaleM m s)) = s ^ 2 * detM m := by
  cases m with
  | mk a b c d e f =>
  obtain ⟨h13, h23, h33⟩ := he
  simp only at h13 h23 h33
  subst h13 h23 h33
  unfold detM detGen3 mFull scaleM twodM
  simp only [Vec3.axmy, one_eq, zero_eq, mul_eq, sub_eq, div_eq, ofInt_eq, Int.cast_zero, Int.cast_one]
  have q1 : b * s / (a * s) = b / a := mul_div_mul_right _ _ hs
  rw [q1, divisible_scale b a s hs]
  have r1 : d * s - b / a * (b * s) = (d - b / a * b) * s := by ring
  rw [r1]
  have g1 : Scalar.divisible (0 : ℝ) (a * s) = Scalar.divisible (0 : ℝ) a := by
    rw [Bool.eq_iff_iff, divisible_zero_iff, divisible_zero_iff]
    exact ⟨fun h ha => h (by rw [ha]; ring), fun h => mul_ne_zero h hs⟩
  rw [g1]
  simp only [zero_div, zero_mul, sub_zero, mul_zero]
  have g2 : Scalar.divisible (0 : ℝ) ((d - b / a * b) * s) = Scalar.divisible (0 : ℝ) (d - b / a * b) := by
    rw [Bool.eq_iff_iff, divisible_zero_iff, divisible_zero_iff]
    exact ⟨fun h ha => h (by rw [ha]; ring), fun h => mul_ne_zero h hs⟩
  rw [g2]
  split_ifs <;> ring

/-- the coded determinant of the all-zero tensor (the `getD` default) is 0 -/
theorem detM_zero : detM (⟨zero, zero, zero, zero, zero, zero⟩ : M6 ℝ) = 0 := by
  unfold detM detGen3 mFull
  have h : Scalar.divisible (0 : ℝ) 0 = false := by
    rw [Bool.eq_false_iff, ne_eq, divisible_zero_iff]; simp
  simp only [zero_eq, h]
  simp

/-! ### vertex density and its scaling -/

/-- `det > 0 ? sqrt(det) : 0` — what a vertex contributes per unit of dual volume -/
noncomputable def density (m : M6 ℝ) : ℝ := if 0 < detM m then Real.sqrt (detM m) else 0

theorem nodeTerm_eq (owned : Nat → Bool) (metric : List (M6 ℝ)) (volume per acc : ℝ) (node : Nat) :
    nodeTerm owned metric volume per acc node =
      acc + (if owned node then density (mAt metric node) * volume / per else 0) := by
  unfold nodeTerm density
  by_cases ho : owned node = true
  · simp only [ho, if_true, zero_eq, add_eq, mul_eq, div_eq, sqrt_eq]
    by_cases hd : 0 < detM (mAt metric node)
    · rw [if_pos ((lt_iff _ _).mpr hd), if_pos hd]
    · rw [if_neg (fun h => hd ((lt_iff _ _).mp h)), if_neg hd]; ring
  · simp only [ho]; simp

theorem density_nonneg (m : M6 ℝ) : 0 ≤ density m := by
  unfold density; split_ifs
  · exact Real.sqrt_nonneg _
  · exact le_rfl

/-- a per-node map `f` multiplies the density of every tensor of the field by `k` -/
def ScalesDensity (metric : List (M6 ℝ)) (f : M6 ℝ → M6 ℝ) (k : ℝ) : Prop := ∀ m ∈ metric, density (f m) = k * density m

theorem density_zero : density (⟨zero, zero, zero, zero, zero, zero⟩ : M6 ℝ) = 0 := by
  unfold density; rw [detM_zero]; simp

theorem density_mAt_map (f : M6 ℝ → M6 ℝ) (k : ℝ) (metric : List (M6 ℝ)) (hf : ScalesDensity metric f k) (i : Nat) :
    density (mAt (metric.map f) i) = k * density (mAt metric i) := by
  unfold mAt
  rw [List.getD_eq_getElem?_getD, List.getD_eq_getElem?_getD, List.getElem?_map]
  cases hget : metric[i]? with
  | none => simp only [Option.map_none, Option.getD_none]; rw [density_zero]; ring
  | some m => simp only [Option.map_some, Option.getD_some]; exact hf m (List.mem_of_getElem? hget)

theorem nodeTerm_map (f : M6 ℝ → M6 ℝ) (k : ℝ) (owned : Nat → Bool)
    (metric : List (M6 ℝ)) (hf : ScalesDensity metric f k) (volume per acc : ℝ) (node : Nat) :
    nodeTerm owned (metric.map f) volume per (k * acc) node = k * nodeTerm owned metric volume per acc node := by
  rw [nodeTerm_eq, nodeTerm_eq, density_mAt_map f k metric hf]
  split_ifs <;> ring

theorem foldl_nodeTerm_map (f : M6 ℝ → M6 ℝ) (k : ℝ) (owned : Nat → Bool)
    (metric : List (M6 ℝ)) (hf : ScalesDensity metric f k) (volume per : ℝ) (ns : List Nat) (acc : ℝ) :
    ns.foldl (nodeTerm owned (metric.map f) volume per) (k * acc) =
      k * ns.foldl (nodeTerm owned metric volume per) acc := by
  induction ns generalizing acc with
  | nil => rfl
  | cons n rest ih => rw [List.foldl_cons, List.foldl_cons, nodeTerm_map f k owned metric hf, ih]

theorem subTet_map (f : M6 ℝ → M6 ℝ) (k : ℝ) (owned : Nat → Bool) (xyz : List (V3 ℝ))
    (metric : List (M6 ℝ)) (hf : ScalesDensity metric f k) (acc : ℝ) (t : Tet) :
    subTetComplexity owned xyz (metric.map f) (k * acc) t = k * subTetComplexity owned xyz metric acc t := by
  unfold subTetComplexity
  exact foldl_nodeTerm_map f k owned metric hf _ _ _ acc

theorem subTri_map (f : M6 ℝ → M6 ℝ) (k : ℝ) (owned : Nat → Bool) (xyz : List (V3 ℝ))
    (metric : List (M6 ℝ)) (hf : ScalesDensity metric f k) (acc : ℝ) (t : Tri) :
    subTriComplexity owned xyz (metric.map f) (k * acc) t = k * subTriComplexity owned xyz metric acc t := by
  unfold subTriComplexity
  exact foldl_nodeTerm_map f k owned metric hf _ _ _ acc

theorem foldl_scale {β : Type} (g g' : ℝ → β → ℝ) (k : ℝ) (h : ∀ acc b, g' (k * acc) b = k * g acc b)
    (l : List β) (acc : ℝ) : l.foldl g' (k * acc) = k * l.foldl g acc := by
  induction l generalizing acc with
  | nil => rfl
  | cons b rest ih => rw [List.foldl_cons, List.foldl_cons, h, ih]

/-- homogeneity of the whole quadrature: a per-node map that scales every density by `k` scales the
    complexity by `k`, for any mesh (any cells, any coordinates, any ownership mask) -/
theorem complexityLocal_map (f : M6 ℝ → M6 ℝ) (k : ℝ) (hv : Bool) (owned : Nat → Bool)
    (xyz : List (V3 ℝ)) (metric : List (M6 ℝ)) (hf : ScalesDensity metric f k) (cells : List Cell) :
    complexityLocal hv owned xyz (metric.map f) cells = k * complexityLocal hv owned xyz metric cells := by
  unfold complexityLocal
  have z : (zero : ℝ) = k * zero := by rw [zero_eq]; ring
  cases hv
  · simp only [Bool.false_eq_true, if_false]
    conv_lhs => rw [z]
    exact foldl_scale _ _ k (fun acc t => subTri_map f k owned xyz metric hf acc t) _ _
  · simp only [if_true]
    conv_lhs => rw [z]
    exact foldl_scale _ _ k (fun acc t => subTet_map f k owned xyz metric hf acc t) _ _

theorem complexity_map (f : M6 ℝ → M6 ℝ) (k : ℝ) (owned : Nat → Bool)
    (xyz : List (V3 ℝ)) (metric : List (M6 ℝ)) (hf : ScalesDensity metric f k) (cells : List Cell) :
    complexity owned xyz (metric.map f) cells = k * complexity owned xyz metric cells :=
  complexityLocal_map f k _ owned xyz metric hf cells

/-! ### the two rescale maps -/

theorem density_of_det_scale (m m' : M6 ℝ) (c : ℝ) (hc : 0 < c) (h : detM m' = c * detM m) :
    density m' = Real.sqrt c * density m := by
  unfold density
  rw [h]
  by_cases hd : 0 < detM m
  · rw [if_pos hd, if_pos (mul_pos hc hd), Real.sqrt_mul hc.le]
  · rw [if_neg hd, if_neg (fun hh => hd ((mul_pos_iff_of_pos_left hc).mp hh))]
    ring

/-- 3-D rescale: densities scale by `sqrt(s³)` -/
theorem scalesDensity_rescale3 (metric : List (M6 ℝ)) (s : ℝ) (hs : 0 < s) :
    ScalesDensity metric (rescaleNode false s) (Real.sqrt (s ^ 3)) := by
  intro m _
  unfold rescaleNode
  simp only [Bool.false_eq_true, if_false]
  exact density_of_det_scale m _ (s ^ 3) (by positivity) (detM_scale m s hs.ne')

/-- 2-D rescale on embedded metrics: densities scale by `s` -/
theorem density_rescale2 (s : ℝ) (hs : 0 < s) (m : M6 ℝ) (he : IsEmbedded m) :
    density (rescaleNode true s m) = s * density m := by
  unfold rescaleNode embed2d
  simp only [if_true]
  have := density_of_det_scale m (twodM (scaleM m s)) (s ^ 2) (by positivity) (detM_embed_scale m s hs.ne' he)
  rw [this, Real.sqrt_sq hs.le]

end Refine.Model.Metric
