import Refine.Lemmas.ShufflinPre

/-!
  Lemmas for `Refine/Props/C06Local.lean`: a local operation that replaces cells all of whose vertices are owned by the
  acting rank keeps clauses (ii) and (iii) of `distInv`.
-/
namespace Refine.Lemmas.DistLocal
open Refine.Model.Dist Refine.Model.Shufflin Refine.Lemmas.Shufflin Refine.Lemmas.ShufflinPre
open Refine.Model.Comm (World)

/-- rank `r` drops the cells of `removed` and stores the cells of `added`; vertex tables and the other ranks untouched -/
def replaceCells (r : Nat) (removed added : List DCell) (w : World RankState) : World RankState :=
  w.mapIdx fun q s =>
    if q = r then { s with cells := (s.cells.filter fun c => !removed.contains c) ++ added } else s

/-- every vertex of `c` is stored on `s` with part `r` (the ownership guard `ref_cell_local_gem`,
    `ref_collapse_edge_local_cell`, `ref_swap_local_cell`, … evaluates on its own rank) -/
def fullyOwnedOn (s : RankState) (r : Nat) (c : DCell) : Bool :=
  c.nodes.all fun g => s.partOf g == some (r : Int)

theorem replaceCells_get (r : Nat) (removed added : List DCell) (w : World RankState) (q : Nat) :
    (replaceCells r removed added w)[q]? =
      (w[q]?).map fun s => if q = r then { s with cells := (s.cells.filter fun c => !removed.contains c) ++ added } else s := by
  unfold replaceCells; rw [List.getElem?_mapIdx]

/-- clauses (ii), (iii) as propositions -/
structure CellFacts (w : World RankState) : Prop where
  stored : ∀ (q : Nat) (t : RankState), w[q]? = some t → ∀ c ∈ t.cells, ∀ v ∈ c.nodes, t.has v = true
  touches : ∀ (q : Nat) (t : RankState), w[q]? = some t → ∀ c ∈ t.cells,
    ∃ gp ∈ t.cellVerts c, gp.2 = (q : Int)
  owners : ∀ (q : Nat) (t : RankState), w[q]? = some t → ∀ c ∈ t.cells, ∀ gp ∈ t.cellVerts c,
    ∃ o, w[gp.2.toNat]? = some o ∧ c ∈ o.cells
  verts : ∀ (q : Nat) (t : RankState), w[q]? = some t → ∀ nd ∈ t.nodes,
    nd.part = (q : Int) ∨ ∃ c ∈ t.cells, nd.glob ∈ c.nodes

theorem cellFacts_iff (w : World RankState) : CellFacts w ↔ (clauseCells w = true ∧ clauseVerts w = true) := by
  constructor
  · intro F
    constructor
    · unfold clauseCells
      rw [List.all_eq_true]
      rintro ⟨t, q⟩ hm
      have hq : w[q]? = some t := List.mem_zipIdx_iff_getElem?.mp hm
      rw [List.all_eq_true]
      intro c hc
      simp only [Bool.and_eq_true, List.all_eq_true, List.any_eq_true, beq_iff_eq]
      refine ⟨⟨fun v hv => F.stored q t hq c hc v hv, F.touches q t hq c hc⟩, fun gp hgp => ?_⟩
      obtain ⟨o, ho, hco⟩ := F.owners q t hq c hc gp hgp
      rw [ho]; simpa using hco
    · unfold clauseVerts
      rw [List.all_eq_true]
      rintro ⟨t, q⟩ hm
      have hq : w[q]? = some t := List.mem_zipIdx_iff_getElem?.mp hm
      rw [List.all_eq_true]
      intro nd hnd
      simp only [Bool.or_eq_true, beq_iff_eq, List.any_eq_true, List.contains_eq_mem, decide_eq_true_eq]
      exact F.verts q t hq nd hnd
  · rintro ⟨hC, hV⟩
    unfold clauseCells at hC
    rw [List.all_eq_true] at hC
    unfold clauseVerts at hV
    rw [List.all_eq_true] at hV
    refine ⟨?_, ?_, ?_, ?_⟩
    · intro q t hq c hc v hv
      have := hC (t, q) (List.mem_zipIdx_iff_getElem?.mpr hq)
      rw [List.all_eq_true] at this
      have := this c hc
      simp only [Bool.and_eq_true, List.all_eq_true] at this
      exact this.1.1 v hv
    · intro q t hq c hc
      have := hC (t, q) (List.mem_zipIdx_iff_getElem?.mpr hq)
      rw [List.all_eq_true] at this
      have := this c hc
      simp only [Bool.and_eq_true, List.any_eq_true, beq_iff_eq] at this
      exact this.1.2
    · intro q t hq c hc gp hgp
      have := hC (t, q) (List.mem_zipIdx_iff_getElem?.mpr hq)
      rw [List.all_eq_true] at this
      have := this c hc
      simp only [Bool.and_eq_true, List.all_eq_true] at this
      have := this.2 gp hgp
      cases ho : w[gp.2.toNat]? with
      | none => rw [ho] at this; simp at this
      | some o => rw [ho] at this; exact ⟨o, rfl, by simpa using this⟩
    · intro q t hq nd hnd
      have := hV (t, q) (List.mem_zipIdx_iff_getElem?.mpr hq)
      rw [List.all_eq_true] at this
      have := this nd hnd
      simpa only [Bool.or_eq_true, beq_iff_eq, List.any_eq_true, List.contains_eq_mem, decide_eq_true_eq] using this

theorem partOf_some {s : RankState} (hnd : (s.nodes.map (·.glob)).Nodup) {g p : Int} (h : s.partOf g = some p) :
    ∃ nd ∈ s.nodes, nd.glob = g ∧ nd.part = p := by
  unfold RankState.partOf at h
  cases hf : s.nodes.find? (fun nd => nd.glob == g) with
  | none => rw [hf] at h; cases h
  | some nd =>
    rw [hf] at h
    exact ⟨nd, List.mem_of_find?_eq_some hf, by simpa using List.find?_some hf, by simpa using h⟩

theorem partOf_of_mem {s : RankState} (hnd : (s.nodes.map (·.glob)).Nodup) {nd : DNode} (h : nd ∈ s.nodes) :
    s.partOf nd.glob = some nd.part := by
  unfold RankState.partOf
  rw [find_glob hnd h]; rfl

/-- all copies of a global carry the same part (one owner per vertex) -/
theorem parts_agree (w : World RankState) (F : InvFacts w) (q q' : Nat) (t t' : RankState) (hq : w[q]? = some t)
    (hq' : w[q']? = some t') (x y : DNode) (hx : x ∈ t.nodes) (hy : y ∈ t'.nodes) (hg : x.glob = y.glob) :
    x.part = y.part := by
  obtain ⟨o, ho, hpo⟩ := F.owner t (List.mem_of_getElem? hq) x hx
  obtain ⟨o', ho', hpo'⟩ := F.owner t' (List.mem_of_getElem? hq') y hy
  obtain ⟨z, hz, hzg, hzp⟩ := partOf_some (F.nodupG o (List.mem_of_getElem? ho)) hpo
  obtain ⟨z', hz', hzg', hzp'⟩ := partOf_some (F.nodupG o' (List.mem_of_getElem? ho')) hpo'
  have hx0 := (F.nonneg t (List.mem_of_getElem? hq) x hx).2.1
  have hy0 := (F.nonneg t' (List.mem_of_getElem? hq') y hy).2.1
  have := owned_unique w F x.part.toNat y.part.toNat o o' z z' ho ho' hz hz' (by rw [hzp]; omega) (by rw [hzp']; omega)
    (by rw [hzg, hzg', hg])
  rw [← hzp, ← hzp', this]

theorem replace_facts (w : World RankState) (h : distInv w = true) (r : Nat) (s : RankState) (hs : w[r]? = some s)
    (removed added : List DCell)
    (hrem : ∀ c ∈ removed, fullyOwnedOn s r c = true)
    (hadd : ∀ c ∈ added, fullyOwnedOn s r c = true ∧ c.nodes ≠ []) :
    CellFacts (replaceCells r removed added w) ∧
    (∀ c ∈ removed, c.nodes ≠ [] → ∀ (q : Nat) (t : RankState), q ≠ r → w[q]? = some t → c ∉ t.cells) := by
  have F := invFacts_of_distInv w h
  have hCV : CellFacts w := (cellFacts_iff w).mpr (by
    unfold distInv at h; simp only [Bool.and_eq_true] at h; exact ⟨h.1.1.1.1.2, h.1.1.1.2⟩)
  have hnds := F.nodupG s (List.mem_of_getElem? hs)
  -- a cell fully owned by `r` is not stored elsewhere
  have hexcl : ∀ c, fullyOwnedOn s r c = true → c.nodes ≠ [] →
      ∀ (q : Nat) (t : RankState), q ≠ r → w[q]? = some t → c ∉ t.cells := by
    intro c hfo hne q t hqr hq hc
    obtain ⟨gp, hgp, hp⟩ := hCV.touches q t hq c hc
    unfold RankState.cellVerts at hgp
    obtain ⟨v, hv, rfl⟩ := List.mem_map.mp hgp
    simp only at hp
    have hst := hCV.stored q t hq c hc v hv
    unfold RankState.has at hst
    rw [List.any_eq_true] at hst
    obtain ⟨x, hx, hxg⟩ := hst
    have hxg' : x.glob = v := by simpa using hxg
    have hpx := partOf_of_mem (F.nodupG t (List.mem_of_getElem? hq)) hx
    rw [hxg'] at hpx
    rw [hpx] at hp
    simp only [Option.getD_some] at hp
    unfold fullyOwnedOn at hfo
    rw [List.all_eq_true] at hfo
    have := hfo v hv
    obtain ⟨y, hy, hyg, hyp⟩ := partOf_some hnds (by simpa using this)
    have := parts_agree w F q r t s hq hs x y hx hy (by rw [hxg', hyg])
    rw [hp, hyp] at this
    exact hqr (by omega)
  refine ⟨?_, fun c hc hne => hexcl c (hrem c hc) hne⟩
  -- the new world, rank by rank
  have hget : ∀ (q : Nat) (t' : RankState), (replaceCells r removed added w)[q]? = some t' →
      ∃ t, w[q]? = some t ∧ t' = (if q = r then { t with cells := (t.cells.filter fun c => !removed.contains c) ++ added } else t) := by
    intro q t' h'
    rw [replaceCells_get] at h'
    cases hq : w[q]? with
    | none => rw [hq] at h'; cases h'
    | some t => rw [hq] at h'; exact ⟨t, rfl, by simpa using h'.symm⟩
  have hnew_r : (replaceCells r removed added w)[r]? =
      some { s with cells := (s.cells.filter fun c => !removed.contains c) ++ added } := by
    rw [replaceCells_get, hs]; simp
  have hnew_q : ∀ (q : Nat), q ≠ r → (replaceCells r removed added w)[q]? = w[q]? := by
    intro q hq
    rw [replaceCells_get]
    cases w[q]? with
    | none => rfl
    | some t => simp [hq]
  have hadd_facts : ∀ c ∈ added, (∀ v ∈ c.nodes, s.has v = true) ∧ (∀ gp ∈ s.cellVerts c, gp.2 = (r : Int)) := by
    intro c hc
    have hfo := (hadd c hc).1
    unfold fullyOwnedOn at hfo
    rw [List.all_eq_true] at hfo
    constructor
    · intro v hv
      obtain ⟨y, hy, hyg, _⟩ := partOf_some hnds (by simpa using hfo v hv)
      unfold RankState.has
      rw [List.any_eq_true]
      exact ⟨y, hy, by simp [hyg]⟩
    · intro gp hgp
      unfold RankState.cellVerts at hgp
      obtain ⟨v, hv, rfl⟩ := List.mem_map.mp hgp
      have : s.partOf v = some (r : Int) := by simpa using hfo v hv
      simp [this]
  refine ⟨?_, ?_, ?_, ?_⟩
  · intro q t' hq' c hc v hv
    obtain ⟨t, hq, rfl⟩ := hget q t' hq'
    by_cases hqr : q = r
    · subst hqr; rw [hs] at hq; cases hq
      simp only [if_true] at hc ⊢
      rcases List.mem_append.mp hc with h1 | h1
      · exact hCV.stored q s hs c (List.mem_filter.mp h1).1 v hv
      · exact (hadd_facts c h1).1 v hv
    · simp only [hqr, if_false] at hc ⊢
      exact hCV.stored q t hq c hc v hv
  · intro q t' hq' c hc
    obtain ⟨t, hq, rfl⟩ := hget q t' hq'
    by_cases hqr : q = r
    · subst hqr; rw [hs] at hq; cases hq
      simp only [if_true] at hc ⊢
      rcases List.mem_append.mp hc with h1 | h1
      · exact hCV.touches q s hs c (List.mem_filter.mp h1).1
      · obtain ⟨v, hv⟩ := List.exists_mem_of_ne_nil _ (hadd c h1).2
        refine ⟨(v, (s.partOf v).getD (-1)), List.mem_map.mpr ⟨v, hv, rfl⟩, ?_⟩
        exact (hadd_facts c h1).2 _ (List.mem_map.mpr ⟨v, hv, rfl⟩)
    · simp only [hqr, if_false] at hc ⊢
      exact hCV.touches q t hq c hc
  · intro q t' hq' c hc gp hgp
    obtain ⟨t, hq, rfl⟩ := hget q t' hq'
    -- `cellVerts` reads the vertex table only, which is the old one
    have hcv : ∀ (u : RankState) (cs : List DCell), RankState.cellVerts { u with cells := cs } c = u.cellVerts c :=
      fun _ _ => rfl
    by_cases hqr : q = r
    · subst hqr; rw [hs] at hq; cases hq
      simp only [if_true] at hc hgp
      rw [hcv] at hgp
      rcases List.mem_append.mp hc with h1 | h1
      · obtain ⟨hc0, hnr⟩ := List.mem_filter.mp h1
        obtain ⟨o, ho, hco⟩ := hCV.owners q s hs c hc0 gp hgp
        by_cases hp : gp.2.toNat = q
        · rw [hp] at ho ⊢; rw [hs] at ho; cases ho
          exact ⟨_, hnew_r, hc⟩
        · exact ⟨o, by rw [hnew_q _ hp]; exact ho, hco⟩
      · have := (hadd_facts c h1).2 gp hgp
        have hp : gp.2.toNat = q := by rw [this]; simp
        rw [hp]
        exact ⟨_, hnew_r, hc⟩
    · simp only [hqr, if_false] at hc hgp
      obtain ⟨o, ho, hco⟩ := hCV.owners q t hq c hc gp hgp
      by_cases hp : gp.2.toNat = r
      · rw [hp] at ho ⊢; rw [hs] at ho; cases ho
        refine ⟨_, hnew_r, List.mem_append_left _ (List.mem_filter.mpr ⟨hco, ?_⟩)⟩
        simp only [Bool.not_eq_true', List.contains_eq_mem, decide_eq_false_iff_not]
        intro hrm
        have hne : c.nodes ≠ [] := by
          obtain ⟨gp', hgp', _⟩ := hCV.touches q t hq c hc
          unfold RankState.cellVerts at hgp'
          intro he; rw [he] at hgp'; simp at hgp'
        exact hexcl c (hrem c hrm) hne q t hqr hq hc
      · exact ⟨o, by rw [hnew_q _ hp]; exact ho, hco⟩
  · intro q t' hq' nd hnd
    obtain ⟨t, hq, rfl⟩ := hget q t' hq'
    by_cases hqr : q = r
    · subst hqr; rw [hs] at hq; cases hq
      simp only [if_true] at hnd ⊢
      rcases hCV.verts q s hs nd hnd with h1 | ⟨c, hc, hv⟩
      · exact Or.inl h1
      · by_cases hp : nd.part = (q : Int)
        · exact Or.inl hp
        · refine Or.inr ⟨c, List.mem_append_left _ (List.mem_filter.mpr ⟨hc, ?_⟩), hv⟩
          simp only [Bool.not_eq_true', List.contains_eq_mem, decide_eq_false_iff_not]
          intro hrm
          have hfo := hrem c hrm
          unfold fullyOwnedOn at hfo
          rw [List.all_eq_true] at hfo
          have := hfo nd.glob hv
          rw [partOf_of_mem hnds hnd] at this
          exact hp (by simpa using this)
    · simp only [hqr, if_false] at hnd ⊢
      exact hCV.verts q t hq nd hnd

end Refine.Lemmas.DistLocal
