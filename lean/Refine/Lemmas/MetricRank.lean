import Refine.Lemmas.MetricScale
import Mathlib.Algebra.BigOperators.Group.Finset.Basic
import Mathlib.Algebra.BigOperators.Intervals
import Mathlib.Tactic.Ring
import Mathlib.Tactic.Linarith

/-!
  The complexity quadrature is additive in the ownership mask: the sum over ranks of the owned-vertex sums is
  the serial integral (what `ref_mpi_allsum` computes at the end of `ref_metric_complexity`).
-/
namespace Refine.Model.Metric
open Refine Refine.Scalar Refine.ScalarReal Refine.Model.Matrix
open Refine.Model.Recon (Cell CellKind Tet Tri xyzAt)
open Refine.Model.Geom (V3 B4)

theorem foldl_add {β : Type} (g g1 g2 : ℝ → β → ℝ) (h : ∀ x y b, g (x + y) b = g1 x b + g2 y b)
    (l : List β) (x y : ℝ) : l.foldl g (x + y) = l.foldl g1 x + l.foldl g2 y := by
  induction l generalizing x y with
  | nil => rfl
  | cons b rest ih => rw [List.foldl_cons, List.foldl_cons, List.foldl_cons, h, ih]

/-- two disjoint ownership masks and their union -/
def DisjointUnion (o o1 o2 : Nat → Bool) : Prop :=
  ∀ n, (o n = true ↔ (o1 n = true ∨ o2 n = true)) ∧ ¬(o1 n = true ∧ o2 n = true)

theorem nodeTerm_add {o o1 o2 : Nat → Bool} (hd : DisjointUnion o o1 o2) (metric : List (M6 ℝ))
    (volume per x y : ℝ) (n : Nat) :
    nodeTerm o metric volume per (x + y) n = nodeTerm o1 metric volume per x n + nodeTerm o2 metric volume per y n := by
  rw [nodeTerm_eq, nodeTerm_eq, nodeTerm_eq]
  obtain ⟨hu, hx⟩ := hd n
  by_cases h1 : o1 n = true <;> by_cases h2 : o2 n = true
  · exact absurd ⟨h1, h2⟩ hx
  · have : o n = true := hu.mpr (Or.inl h1)
    simp only [this, h1, h2, if_true]; simp; ring
  · have : o n = true := hu.mpr (Or.inr h2)
    simp only [this, h1, h2, if_true]; simp; ring
  · have : ¬ o n = true := fun h => (hu.mp h).elim h1 h2
    simp only [this, h1, h2]; simp

theorem complexityLocal_add {o o1 o2 : Nat → Bool} (hd : DisjointUnion o o1 o2) (hv : Bool)
    (xyz : List (V3 ℝ)) (metric : List (M6 ℝ)) (cells : List Cell) :
    complexityLocal hv o xyz metric cells =
      complexityLocal hv o1 xyz metric cells + complexityLocal hv o2 xyz metric cells := by
  unfold complexityLocal
  have z : (zero : ℝ) = zero + zero := by rw [zero_eq]; ring
  cases hv
  · simp only [Bool.false_eq_true, if_false]
    conv_lhs => rw [z]
    apply foldl_add
    intro x y t
    unfold subTriComplexity
    exact foldl_add _ _ _ (fun x y n => nodeTerm_add hd metric _ _ x y n) _ x y
  · simp only [if_true]
    conv_lhs => rw [z]
    apply foldl_add
    intro x y t
    unfold subTetComplexity
    exact foldl_add _ _ _ (fun x y n => nodeTerm_add hd metric _ _ x y n) _ x y

theorem foldl_id {β : Type} (g : ℝ → β → ℝ) (h : ∀ x b, g x b = x) (l : List β) (x : ℝ) : l.foldl g x = x := by
  induction l generalizing x with
  | nil => rfl
  | cons b rest ih => rw [List.foldl_cons, h, ih]

/-- a rank that owns nothing contributes nothing -/
theorem complexityLocal_none (hv : Bool) (xyz : List (V3 ℝ)) (metric : List (M6 ℝ)) (cells : List Cell) :
    complexityLocal hv (fun _ => false) xyz metric cells = 0 := by
  unfold complexityLocal
  have hn : ∀ (volume per x : ℝ) (n : Nat), nodeTerm (fun _ => false) metric volume per x n = x := by
    intro volume per x n; rw [nodeTerm_eq]; simp
  cases hv
  · simp only [Bool.false_eq_true, if_false]
    rw [foldl_id _ (fun x t => by unfold subTriComplexity; exact foldl_id _ (hn _ _) _ x), zero_eq]
  · simp only [if_true]
    rw [foldl_id _ (fun x t => by unfold subTetComplexity; exact foldl_id _ (hn _ _) _ x), zero_eq]

/-- the partial sums over ranks `r < k` are the quadrature over the vertices owned by those ranks -/
theorem complexityLocal_rank_partial (owner : Nat → Nat) (hv : Bool) (xyz : List (V3 ℝ)) (metric : List (M6 ℝ))
    (cells : List Cell) (k : Nat) :
    (Finset.range k).sum (fun r => complexityLocal hv (fun n => owner n == r) xyz metric cells) =
      complexityLocal hv (fun n => decide (owner n < k)) xyz metric cells := by
  induction k with
  | zero =>
    rw [Finset.range_zero, Finset.sum_empty]
    have : (fun n => decide (owner n < 0)) = fun _ => false := by funext n; simp
    rw [this, complexityLocal_none]
  | succ k ih =>
    rw [Finset.sum_range_succ, ih]
    symm
    apply complexityLocal_add
    intro n
    simp only [decide_eq_true_eq, beq_iff_eq]
    constructor
    · constructor
      · intro h; rcases Nat.lt_succ_iff_lt_or_eq.mp h with h | h
        · exact Or.inl h
        · exact Or.inr h
      · intro h; rcases h with h | h
        · exact Nat.lt_succ_of_lt h
        · rw [h]; exact Nat.lt_succ_self k
    · intro ⟨h1, h2⟩; rw [h2] at h1; exact Nat.lt_irrefl k h1

end Refine.Model.Metric
