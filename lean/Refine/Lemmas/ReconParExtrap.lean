import Refine.Lemmas.ReconParGhost

/-!
  `ref_recon_extrapolate_zeroth` on a distributed mesh never touches a value that is not to be replaced: through the
  in-place sweeps over the owned vertices and the refresh of `replace` and `recon` after every pass, every stored copy
  of a vertex whose owner does not flag it keeps — owned copy — or receives — ghost copy — the owner's value at
  entry.  Hence the boundary replacement of `ref_recon_signed_hessian` leaves the interior Hessian alone, on every
  rank (`extrapolateZeroth_keeps`).
-/
namespace Refine.ReconParExtrap
open Refine Refine.Model.ReconPar Refine.ReconParGhost
open Refine.Model.Comm (World RefType)

variable {α : Type} [Scalar α]

/-! ### one pass on one rank -/

theorem getD_modify_ne {β : Type} (l : List (List β)) (n k : Nat) (f : List β → List β) (h : k ≠ n) :
    (l.modify n f).getD k [] = l.getD k [] := by
  simp only [List.getD_eq_getElem?_getD, List.getElem?_modify]
  cases l[k]? with
  | none => rfl
  | some x => simp [Ne.symm h]

/-- shape: as many rows as before, every row still `ldim` long -/
def Shape {β : Type} (n ldim : Nat) (a : List (List β)) : Prop := a.length = n ∧ ∀ x ∈ a, x.length = ldim

theorem Shape.modify_set {β : Type} {n ldim : Nat} {a : List (List β)} (h : Shape n ldim a) (node i : Nat) (v : β) :
    Shape n ldim (a.modify node fun row => row.set i v) := by
  refine ⟨by rw [List.length_modify]; exact h.1, ?_⟩
  intro x hx
  obtain ⟨k, hk, rfl⟩ := List.getElem_of_mem hx
  rw [List.getElem_modify]
  split
  · rw [List.length_set]; exact h.2 _ (List.getElem_mem _)
  · exact h.2 _ (List.getElem_mem _)

theorem foldl_preserves {σ ι : Type} (f : σ → ι → σ) (P : σ → Prop) (hf : ∀ s i, P s → P (f s i)) :
    ∀ (l : List ι) (s : σ), P s → P (l.foldl f s) := by
  intro l
  induction l with
  | nil => intro s h; exact h
  | cons i rest ih => intro s h; exact ih _ (hf s i h)

/-- what one vertex's body preserves: shapes, and every OTHER row -/
theorem extrapNode_other (edges : List (Nat × Nat)) (ldim node n : Nat) (st : List (List α) × List (List Bool))
    (h1 : Shape n ldim st.1) (h2 : Shape n ldim st.2) :
    Shape n ldim (extrapNode edges ldim node st).1 ∧ Shape n ldim (extrapNode edges ldim node st).2 ∧
    ∀ k, k ≠ node → (extrapNode edges ldim node st).1.getD k [] = st.1.getD k [] ∧
      (extrapNode edges ldim node st).2.getD k [] = st.2.getD k [] := by
  unfold extrapNode
  apply foldl_preserves _ (fun st' : List (List α) × List (List Bool) =>
    Shape n ldim st'.1 ∧ Shape n ldim st'.2 ∧
      ∀ k, k ≠ node → st'.1.getD k [] = st.1.getD k [] ∧ st'.2.getD k [] = st.2.getD k [])
  · intro st' i hP
    obtain ⟨a, b, c⟩ := hP
    dsimp only
    split
    · split
      · refine ⟨a.modify_set node i _, b.modify_set node i false, fun k hk => ?_⟩
        obtain ⟨c1, c2⟩ := c k hk
        exact ⟨(getD_modify_ne _ _ _ _ hk).trans c1, (getD_modify_ne _ _ _ _ hk).trans c2⟩
      · exact ⟨a, b, c⟩
    · exact ⟨a, b, c⟩
  · exact ⟨h1, h2, fun _ _ => ⟨rfl, rfl⟩⟩

/-- a vertex none of whose components is flagged is left alone -/
theorem extrapNode_unflagged (edges : List (Nat × Nat)) (ldim node : Nat) (st : List (List α) × List (List Bool))
    (h : ∀ i, bAt st.2 node i = false) : extrapNode edges ldim node st = st := by
  unfold extrapNode
  generalize List.range ldim = is
  induction is with
  | nil => rfl
  | cons i rest ih =>
    simp only [List.foldl_cons, h i, Bool.false_eq_true, if_false]
    exact ih

theorem bAt_of_row {replace : List (List Bool)} {k ldim : Nat}
    (h : replace.getD k [] = List.replicate ldim false) (i : Nat) : bAt replace k i = false := by
  unfold bAt
  rw [h, List.getD_eq_getElem?_getD, List.getElem?_replicate]
  split <;> rfl

/-- one pass keeps the shapes and leaves an unflagged vertex `k` exactly as it is (both arrays) -/
theorem extrapPass_keeps (me : Nat) (r : Rank) (ldim n : Nat) (st : List (List α) × List (List Bool))
    (h1 : Shape n ldim st.1) (h2 : Shape n ldim st.2) :
    Shape n ldim (extrapPass me r ldim st).1 ∧ Shape n ldim (extrapPass me r ldim st).2 ∧
    ∀ k, st.2.getD k [] = List.replicate ldim false →
      (extrapPass me r ldim st).1.getD k [] = st.1.getD k [] ∧
      (extrapPass me r ldim st).2.getD k [] = st.2.getD k [] := by
  unfold extrapPass
  apply foldl_preserves _ (fun st' : List (List α) × List (List Bool) =>
    Shape n ldim st'.1 ∧ Shape n ldim st'.2 ∧
      ∀ k, st.2.getD k [] = List.replicate ldim false →
        st'.1.getD k [] = st.1.getD k [] ∧ st'.2.getD k [] = st.2.getD k [])
  · intro st' node hP
    obtain ⟨a, b, c⟩ := hP
    split
    · obtain ⟨a1, a2, a3⟩ := extrapNode_other r.edges ldim node n st' a b
      refine ⟨a1, a2, fun k hk => ?_⟩
      obtain ⟨c1, c2⟩ := c k hk
      by_cases hkn : k = node
      · subst hkn
        rw [extrapNode_unflagged (α := α) r.edges ldim k st' (bAt_of_row (by rw [c2]; exact hk))]
        exact ⟨c1, c2⟩
      · obtain ⟨d1, d2⟩ := a3 k hkn
        exact ⟨d1.trans c1, d2.trans c2⟩
    · exact ⟨a, b, c⟩
  · exact ⟨h1, h2, fun _ _ => ⟨rfl, rfl⟩⟩

/-! ### the world: invariant of the pass loop -/

/-- the row an array holds for local vertex `i` of rank `me` -/
def rowOf {β : Type} (f : World (List (List β))) (me i : Nat) : List β := (f.getD me []).getD i []

/-- `keep me i`: the owner of the vertex stored as `(me, i)` does not flag it (in `replace0`) -/
def Keep (w : World Rank) (replace0 : World (List (List Bool))) (ldim : Nat) (me i : Nat) : Prop :=
  ∀ (r : Rank) (p : Nat), w[me]? = some r → r.part[i]? = some p →
    (p = me → rowOf replace0 me i = List.replicate ldim false) ∧
    (p ≠ me → ∀ (ro : Rank) (j : Nat), w[p]? = some ro → ro.l2g[j]? = r.l2g[i]? → ro.part[j]? = some p →
      rowOf replace0 p j = List.replicate ldim false)

/-- the owner's row of the vertex stored as `(me, i)` -/
def OwnerRowIs {β : Type} (w : World Rank) (f : World (List (List β))) (me i : Nat) (row : List β) : Prop :=
  ∀ (r : Rank) (p : Nat), w[me]? = some r → r.part[i]? = some p →
    (p = me → rowOf f me i = row) ∧
    (p ≠ me → ∀ (ro : Rank) (j : Nat), w[p]? = some ro → ro.l2g[j]? = r.l2g[i]? → ro.part[j]? = some p →
      rowOf f p j = row)

theorem rowOf_eq {β : Type} {f : World (List (List β))} {me i : Nat} {o : List (List β)} {x : List β}
    (ho : f[me]? = some o) (hx : o[i]? = some x) : rowOf f me i = x := by
  simp [rowOf, List.getD_eq_getElem?_getD, ho, hx]

/-- after a refresh (`ghostRows_spec`) every stored copy of a vertex holds the owner's row before the refresh -/
theorem refresh_rows {β : Type} [Inhabited β] (ty : RefType) (hty : ty.mpiOk = true) (ldim : Nat) (hl : ldim ≤ 6)
    (w : World Rank) (hw : WorldOK w) (f : World (List (List β))) (hf : RowsOK ldim w f) :
    ∃ out, ghostRows ty ldim w f = some out ∧ RowsOK ldim w out ∧
      ∀ (me : Nat) (r : Rank) (i p : Nat), w[me]? = some r → r.part[i]? = some p →
        (p = me → rowOf out me i = rowOf f me i) ∧
        (p ≠ me → ∀ (ro : Rank) (j : Nat), w[p]? = some ro → ro.l2g[j]? = r.l2g[i]? →
          rowOf out me i = rowOf f p j) := by
  obtain ⟨out, hout, houtlen, hspec⟩ := ghostRows_spec ty hty ldim hl w f hw hf
  -- helper: rows of `f`
  have frow : ∀ (me : Nat) (r : Rank), w[me]? = some r → ∃ rw, f[me]? = some rw ∧ rw.length = r.l2g.length ∧
      ∀ x ∈ rw, x.length = ldim := by
    intro me r hr
    have hme : me < f.length := by
      rw [hf.len]
      by_contra hcon
      rw [List.getElem?_eq_none (by omega)] at hr
      exact absurd hr (by simp)
    exact ⟨f[me], getElem?_of_lt f hme, hf.each me r _ hr (getElem?_of_lt f hme)⟩
  have hi_of : ∀ (r : Rank), r ∈ w → ∀ i p, r.part[i]? = some p → i < r.l2g.length := by
    intro r hr i p hp
    by_contra hcon
    rw [List.getElem?_eq_none (by rw [hw.partLen r hr]; omega)] at hp
    exact absurd hp (by simp)
  refine ⟨out, hout, ⟨houtlen, ?_⟩, ?_⟩
  · intro me r o hr ho
    obtain ⟨rw, hrw, hrwlen, hrwrows⟩ := frow me r hr
    obtain ⟨o', ho', holen, hval⟩ := hspec me r rw hr hrw
    rw [ho, Option.some.injEq] at ho'
    subst ho'
    refine ⟨holen, ?_⟩
    intro x hx
    obtain ⟨i, hi, rfl⟩ := List.getElem_of_mem hx
    have hrm := List.mem_of_getElem? hr
    have hil : i < r.l2g.length := holen ▸ hi
    have hpl : i < r.part.length := by rw [hw.partLen r hrm]; exact hil
    obtain ⟨hown, hghost⟩ := hval i _ (getElem?_of_lt _ hpl)
    by_cases hp : r.part[i] = me
    · have := hown hp
      rw [getElem?_of_lt _ hi, getElem?_of_lt _ (by rw [hrwlen]; exact hil), Option.some.injEq] at this
      rw [this]; exact hrwrows _ (List.getElem_mem _)
    · obtain ⟨ro, j, hro, hj, _⟩ := hw.owner me r hr i _ (getElem?_of_lt _ hpl) hp
      obtain ⟨rp, hrp, hrplen, hrprows⟩ := frow _ ro hro
      have := hghost hp ro j rp hro hj hrp
      have hjl : j < rp.length := by
        rw [hrplen]
        by_contra hcon
        rw [List.getElem?_eq_none (by omega), getElem?_of_lt _ hil] at hj
        exact absurd hj (by simp)
      rw [getElem?_of_lt _ hi, getElem?_of_lt _ hjl, Option.some.injEq] at this
      rw [this]; exact hrprows _ (List.getElem_mem _)
  · intro me r i p hr hp
    have hrm := List.mem_of_getElem? hr
    have hil := hi_of r hrm i p hp
    obtain ⟨rw, hrw, hrwlen, _⟩ := frow me r hr
    obtain ⟨o, ho, holen, hval⟩ := hspec me r rw hr hrw
    obtain ⟨hown, hghost⟩ := hval i p hp
    have hio : i < o.length := by rw [holen]; exact hil
    constructor
    · intro hpm
      have := hown hpm
      rw [getElem?_of_lt _ hio, getElem?_of_lt _ (by rw [hrwlen]; exact hil)] at this
      rw [rowOf_eq ho (getElem?_of_lt _ hio), rowOf_eq hrw (getElem?_of_lt _ (by rw [hrwlen]; exact hil))]
      exact Option.some.inj this
    · intro hpm ro j hro hj
      obtain ⟨rp, hrp, hrplen, _⟩ := frow p ro hro
      have := hghost hpm ro j rp hro hj hrp
      have hjl : j < rp.length := by
        rw [hrplen]
        by_contra hcon
        rw [List.getElem?_eq_none (by omega), getElem?_of_lt _ hil] at hj
        exact absurd hj (by simp)
      rw [getElem?_of_lt _ hio, getElem?_of_lt _ hjl] at this
      rw [rowOf_eq ho (getElem?_of_lt _ hio), rowOf_eq hrp (getElem?_of_lt _ hjl)]
      exact Option.some.inj this

/-! ### the loop -/

section loop
variable (w : World Rank) (hw : WorldOK w) (ldim : Nat) (hl : ldim ≤ 6)
variable (recon0 : World (List (List α))) (replace0 : World (List (List Bool)))

/-- the owned entries of the unflagged vertices are as at entry -/
def OwnedGood (R : World (List (List α))) (P : World (List (List Bool))) : Prop :=
  RowsOK ldim w R ∧ RowsOK ldim w P ∧
  ∀ (me : Nat) (r : Rank) (i : Nat) (row : List α), w[me]? = some r → r.part[i]? = some me →
    Keep w replace0 ldim me i → OwnerRowIs w recon0 me i row →
    rowOf P me i = List.replicate ldim false ∧ rowOf R me i = row

/-- every stored copy of an unflagged vertex is unflagged and holds the owner's row at entry -/
def Good (R : World (List (List α))) (P : World (List (List Bool))) : Prop :=
  RowsOK ldim w R ∧ RowsOK ldim w P ∧
  ∀ (me : Nat) (r : Rank) (i p : Nat) (row : List α), w[me]? = some r → r.part[i]? = some p →
    Keep w replace0 ldim me i → OwnerRowIs w recon0 me i row →
    rowOf P me i = List.replicate ldim false ∧ rowOf R me i = row

omit [Scalar α] in
theorem keep_owner {me i p j : Nat} {r ro : Rank} (hr : w[me]? = some r) (hp : r.part[i]? = some p) (hne : p ≠ me)
    (hro : w[p]? = some ro) (hj : ro.l2g[j]? = r.l2g[i]?) (hpj : ro.part[j]? = some p)
    (hk : Keep w replace0 ldim me i) : Keep w replace0 ldim p j := by
  intro r' p' hr' hp'
  rw [hro] at hr'
  obtain rfl := Option.some.inj hr'
  rw [hpj] at hp'
  obtain rfl := Option.some.inj hp'
  refine ⟨fun _ => ((hk r p hr hp).2 hne ro j hro hj hpj), fun h => absurd rfl h⟩

omit [Scalar α] in
theorem ownerRow_owner {β : Type} {f : World (List (List β))} {me i p j : Nat} {r ro : Rank} {row : List β}
    (hr : w[me]? = some r) (hp : r.part[i]? = some p) (hne : p ≠ me)
    (hro : w[p]? = some ro) (hj : ro.l2g[j]? = r.l2g[i]?) (hpj : ro.part[j]? = some p)
    (hk : OwnerRowIs w f me i row) : OwnerRowIs w f p j row := by
  intro r' p' hr' hp'
  rw [hro] at hr'
  obtain rfl := Option.some.inj hr'
  rw [hpj] at hp'
  obtain rfl := Option.some.inj hp'
  refine ⟨fun _ => ((hk r p hr hp).2 hne ro j hro hj hpj), fun h => absurd rfl h⟩

include hw hl in
/-- the two refreshes complete and spread the owners' rows -/
theorem refresh_good (R : World (List (List α))) (P : World (List (List Bool)))
    (h : OwnedGood w ldim recon0 replace0 R P) :
    ∃ R' P', ghostRows RefType.int ldim w P = some P' ∧ ghostRows RefType.dbl ldim w R = some R' ∧
      Good w ldim recon0 replace0 R' P' := by
  obtain ⟨hR, hP, hgood⟩ := h
  obtain ⟨P', hP', hP'ok, hPs⟩ := refresh_rows RefType.int rfl ldim hl w hw P hP
  obtain ⟨R', hR', hR'ok, hRs⟩ := refresh_rows (β := α) RefType.dbl rfl ldim hl w hw R hR
  refine ⟨R', P', hP', hR', hR'ok, hP'ok, ?_⟩
  intro me r i p row hr hp hk ho
  by_cases hpm : p = me
  · subst hpm
    obtain ⟨g1, g2⟩ := hgood p r i row hr hp hk ho
    rw [(hPs p r i p hr hp).1 rfl, (hRs p r i p hr hp).1 rfl]
    exact ⟨g1, g2⟩
  · obtain ⟨ro, j, hro, hj, hpj⟩ := hw.owner me r hr i p hp hpm
    obtain ⟨g1, g2⟩ := hgood p ro j row hro hpj (keep_owner w ldim replace0 hr hp hpm hro hj hpj hk)
      (ownerRow_owner w hr hp hpm hro hj hpj ho)
    rw [(hPs me r i p hr hp).2 hpm ro j hro hj, (hRs me r i p hr hp).2 hpm ro j hro hj]
    exact ⟨g1, g2⟩

/-- one pass on every rank keeps the unflagged vertices -/
theorem pass_good (R : World (List (List α))) (P : World (List (List Bool))) (h : Good w ldim recon0 replace0 R P) :
    OwnedGood w ldim recon0 replace0
      (((w.zip (R.zip P)).mapIdx fun me x => extrapPass me x.1 ldim x.2).map (·.1))
      (((w.zip (R.zip P)).mapIdx fun me x => extrapPass me x.1 ldim x.2).map (·.2)) := by
  obtain ⟨hR, hP, hgood⟩ := h
  set st := (w.zip (R.zip P)).mapIdx fun me x => extrapPass me x.1 ldim x.2 with hst
  have hget : ∀ (me : Nat) (r : Rank), w[me]? = some r → ∃ a b, R[me]? = some a ∧ P[me]? = some b ∧
      st[me]? = some (extrapPass me r ldim (a, b)) := by
    intro me r hr
    have hme : me < w.length := by
      by_contra hcon
      rw [List.getElem?_eq_none (by omega)] at hr
      exact absurd hr (by simp)
    have h1 := getElem?_of_lt R (hR.len ▸ hme)
    have h2 := getElem?_of_lt P (hP.len ▸ hme)
    refine ⟨_, _, h1, h2, ?_⟩
    simp [hst, List.getElem?_mapIdx, List.zip, List.getElem?_zipWith, hr, h1, h2]
  have hlen : st.length = w.length := by
    simp [hst, hR.len, hP.len]
  have shape : ∀ (me : Nat) (r : Rank) (a : List (List α)) (b : List (List Bool)), w[me]? = some r →
      R[me]? = some a → P[me]? = some b → Shape r.l2g.length ldim a ∧ Shape r.l2g.length ldim b :=
    fun me r a b hr ha hb => ⟨hR.each me r a hr ha, hP.each me r b hr hb⟩
  refine ⟨⟨by simp [hlen], ?_⟩, ⟨by simp [hlen], ?_⟩, ?_⟩
  · intro me r rw hr hrw
    obtain ⟨a, b, ha, hb, hs⟩ := hget me r hr
    rw [List.getElem?_map, hs, Option.map_some, Option.some.injEq] at hrw
    subst hrw
    obtain ⟨sa, sb⟩ := shape me r a b hr ha hb
    exact (extrapPass_keeps me r ldim _ (a, b) sa sb).1
  · intro me r rw hr hrw
    obtain ⟨a, b, ha, hb, hs⟩ := hget me r hr
    rw [List.getElem?_map, hs, Option.map_some, Option.some.injEq] at hrw
    subst hrw
    obtain ⟨sa, sb⟩ := shape me r a b hr ha hb
    exact (extrapPass_keeps me r ldim _ (a, b) sa sb).2.1
  · intro me r i row hr hp hk ho
    obtain ⟨a, b, ha, hb, hs⟩ := hget me r hr
    obtain ⟨sa, sb⟩ := shape me r a b hr ha hb
    obtain ⟨g1, g2⟩ := hgood me r i me row hr hp hk ho
    have hb' : b.getD i [] = List.replicate ldim false := by
      rw [← g1]; simp [rowOf, List.getD_eq_getElem?_getD, hb]
    obtain ⟨k1, k2⟩ := (extrapPass_keeps me r ldim _ (a, b) sa sb).2.2 i hb'
    constructor
    · simp only [rowOf, List.getD_eq_getElem?_getD, List.getElem?_map, hs, Option.map_some, Option.getD_some]
      rw [← List.getD_eq_getElem?_getD, k2, hb']
    · simp only [rowOf, List.getD_eq_getElem?_getD, List.getElem?_map, hs, Option.map_some, Option.getD_some]
      rw [← List.getD_eq_getElem?_getD, k1, ← g2]
      simp [rowOf, List.getD_eq_getElem?_getD, ha]

include hw hl in
/-- the pass loop completes and keeps the invariant, for any number of passes -/
theorem extrapLoop_good : ∀ (fuel : Nat) (R : World (List (List α))) (P : World (List (List Bool))),
    Good w ldim recon0 replace0 R P →
    ∃ R' P', extrapLoop w ldim fuel R P = some (R', P') ∧ Good w ldim recon0 replace0 R' P' := by
  intro fuel
  induction fuel with
  | zero => intro R P h; exact ⟨R, P, rfl, h⟩
  | succ fuel ih =>
    intro R P h
    obtain ⟨R', P', hP', hR', hg⟩ := refresh_good w hw ldim hl recon0 replace0 _ _ (pass_good w ldim recon0 replace0 R P h)
    unfold extrapLoop
    simp only [hP', hR']
    split
    · exact ⟨R', P', rfl, hg⟩
    · exact ih R' P' hg

include hw hl in
/-- **`ref_recon_extrapolate_zeroth` completes and never touches a vertex its owner does not flag**: every stored
    copy of such a vertex ends with the owner's row at entry -/
theorem extrapolateZeroth_keeps (hR0 : RowsOK ldim w recon0) (hP0 : RowsOK ldim w replace0) :
    ∃ R' P', extrapolateZeroth w ldim recon0 replace0 = some (R', P') ∧ Good w ldim recon0 replace0 R' P' := by
  have h0 : OwnedGood w ldim recon0 replace0 recon0 replace0 := by
    refine ⟨hR0, hP0, ?_⟩
    intro me r i row hr hp hk ho
    exact ⟨(hk r me hr hp).1 rfl, (ho r me hr hp).1 rfl⟩
  obtain ⟨R1, P1, hP1, hR1, hg⟩ := refresh_good w hw ldim hl recon0 replace0 _ _ h0
  obtain ⟨R', P', hloop, hg'⟩ := extrapLoop_good w hw ldim hl recon0 replace0 10 R1 P1 hg
  refine ⟨R', P', ?_, hg'⟩
  unfold extrapolateZeroth
  simp only [hP1, hR1, hloop]

end loop

end Refine.ReconParExtrap
