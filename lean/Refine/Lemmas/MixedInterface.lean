import Refine.Lemmas.MixedFrame

/-!
  Interface lemmas for `Refine/Model/Mixed.lean`: the triangular faces of pyramids / prisms keep a simplex on
  them under the guarded split / swap / collapse.
-/
namespace Refine.MixedLemmas
open Refine Refine.Model Refine.Model.Guards Refine.Model.Mixed Refine.GuardsRules

/-! ## covering -/

theorem covers_iff {c : Cell} {k : List Nat} : covers c k = true ↔ ∀ n ∈ k, n ∈ c.nodes := by
  unfold covers
  simp [List.all_eq_true]

theorem matched_iff {g : Grid} {k : List Nat} :
    matched g k = true ↔ (∃ c ∈ g.tet, covers c k = true) ∨ (∃ c ∈ g.tri, covers c k = true) := by
  unfold matched
  simp [List.any_eq_true]

theorem subst_nodes (old new : Nat) (c : Cell) :
    (Cell.subst old new c).nodes = c.nodes.map fun n => if n == old then new else n := rfl

theorem mem_subst_of_ne {c : Cell} {old new n : Nat} (h : n ∈ c.nodes) (hne : n ≠ old) :
    n ∈ (Cell.subst old new c).nodes := by
  rw [subst_nodes, List.mem_map]
  exact ⟨n, h, by simp [hne]⟩

theorem mem_subst_new {c : Cell} {old new : Nat} (h : old ∈ c.nodes) : new ∈ (Cell.subst old new c).nodes := by
  rw [subst_nodes, List.mem_map]
  exact ⟨old, h, by simp⟩

theorem covers_subst {c : Cell} {k : List Nat} {old new : Nat} (h : covers c k = true) (hk : old ∉ k) :
    covers (Cell.subst old new c) k = true := by
  rw [covers_iff] at h ⊢
  intro n hn
  exact mem_subst_of_ne (h n hn) fun e => hk (e ▸ hn)

theorem mem_splitGroup_of_not_both {cells : List Cell} {n0 n1 new : Nat} {c : Cell} (hc : c ∈ cells)
    (h : ¬ (n0 ∈ c.nodes ∧ n1 ∈ c.nodes)) : c ∈ splitGroup cells n0 n1 new := by
  unfold splitGroup
  rw [List.mem_flatMap]
  refine ⟨c, hc, ?_⟩
  simp [h]

theorem mem_splitGroup_both {cells : List Cell} {n0 n1 new : Nat} {c : Cell} (hc : c ∈ cells)
    (h0 : n0 ∈ c.nodes) (h1 : n1 ∈ c.nodes) :
    Cell.subst n0 new c ∈ splitGroup cells n0 n1 new ∧ Cell.subst n1 new c ∈ splitGroup cells n0 n1 new := by
  unfold splitGroup
  simp only [List.mem_flatMap]
  exact ⟨⟨c, hc, by simp [h0, h1]⟩, ⟨c, hc, by simp [h0, h1]⟩⟩

/-- a cell on the triangle `k` survives the split of an edge that is not a side of `k` (as itself, or as the half
    that keeps all three vertices) -/
theorem cover_splitGroup {cells : List Cell} {n0 n1 new : Nat} {k : List Nat} (hk : ¬ (n0 ∈ k ∧ n1 ∈ k))
    (h : ∃ c ∈ cells, covers c k = true) : ∃ c ∈ splitGroup cells n0 n1 new, covers c k = true := by
  obtain ⟨c, hc, hcov⟩ := h
  by_cases hb : n0 ∈ c.nodes ∧ n1 ∈ c.nodes
  · obtain ⟨m0, m1⟩ := mem_splitGroup_both (new := new) hc hb.1 hb.2
    by_cases h1 : n1 ∈ k
    · have h0 : n0 ∉ k := fun h0 => hk ⟨h0, h1⟩
      exact ⟨_, m0, covers_subst hcov h0⟩
    · exact ⟨_, m1, covers_subst hcov h1⟩
  · exact ⟨c, mem_splitGroup_of_not_both hc hb, hcov⟩

theorem mixedTriFaces_eq_of {g' g : Grid} (hg : SameFrozenGroups g' g) : mixedTriFaces g' = mixedTriFaces g := by
  unfold mixedTriFaces
  rw [hg.2.1, hg.2.2.1, hg.2.2.2]

theorem mem_mixedTriFaces {g : Grid} {k : List Nat} :
    k ∈ mixedTriFaces g ↔ (∃ c ∈ g.pyr, ∃ f ∈ triF2nPyr, k = faceOf c f) ∨ (∃ c ∈ g.pri, ∃ f ∈ triF2nPri, k = faceOf c f) := by
  unfold mixedTriFaces
  simp only [List.mem_append, List.mem_flatMap, List.mem_map, triF2nHex_eq, List.map_nil, List.not_mem_nil,
    and_false, exists_false, or_false]
  constructor
  · rintro (⟨c, hc, f, hf, rfl⟩ | ⟨c, hc, f, hf, rfl⟩)
    · exact Or.inl ⟨c, hc, f, hf, rfl⟩
    · exact Or.inr ⟨c, hc, f, hf, rfl⟩
  · rintro (⟨c, hc, f, hf, rfl⟩ | ⟨c, hc, f, hf, rfl⟩)
    · exact Or.inl ⟨c, hc, f, hf, rfl⟩
    · exact Or.inr ⟨c, hc, f, hf, rfl⟩

/-- both ends on a triangular face of a pyramid / prism ⇒ the edge is an edge of that cell ⇒ the split / swap guard
    refuses -/
theorem guard_face {g : Grid} (hw : Arity g) {n0 n1 : Nat} (hne : n0 ≠ n1)
    (hguard : Guards.splitEdgeMixed g n0 n1 = true) : ∀ k ∈ mixedTriFaces g, ¬ (n0 ∈ k ∧ n1 ∈ k) := by
  intro k hk ⟨h0, h1⟩
  have hnot := (splitEdgeMixed_true_iff hw n0 n1).mp hguard
  rcases mem_mixedTriFaces.mp hk with ⟨c, hc, f, hf, rfl⟩ | ⟨c, hc, f, hf, rfl⟩
  · unfold faceOf at h0 h1
    obtain ⟨x, hx, hx0⟩ := List.mem_map.mp h0
    obtain ⟨y, hy, hy1⟩ := List.mem_map.mp h1
    have hxy : x ≠ y := fun e => hne (by rw [← hx0, ← hy1, e])
    apply hnot
    refine Or.inl ⟨c, hc, ?_⟩
    rcases pyr_face_sides f hf x hx y hy hxy with hp | hp
    · exact ⟨(x, y), hp, Or.inl ⟨hx0.symm, hy1.symm⟩⟩
    · exact ⟨(y, x), hp, Or.inr ⟨hx0.symm, hy1.symm⟩⟩
  · unfold faceOf at h0 h1
    obtain ⟨x, hx, hx0⟩ := List.mem_map.mp h0
    obtain ⟨y, hy, hy1⟩ := List.mem_map.mp h1
    have hxy : x ≠ y := fun e => hne (by rw [← hx0, ← hy1, e])
    apply hnot
    refine Or.inr (Or.inl ⟨c, hc, ?_⟩)
    rcases pri_face_sides f hf x hx y hy hxy with hp | hp
    · exact ⟨(x, y), hp, Or.inl ⟨hx0.symm, hy1.symm⟩⟩
    · exact ⟨(y, x), hp, Or.inr ⟨hx0.symm, hy1.symm⟩⟩

/-! ## split -/

theorem splitCells_matched {g : Grid} {n0 n1 new : Nat} {k : List Nat} (hk : ¬ (n0 ∈ k ∧ n1 ∈ k))
    (h : matched g k = true) : matched (splitCells g n0 n1 new).2 k = true := by
  rw [matched_iff] at h
  have ht : (∃ c ∈ g.tet, covers c k = true) → ∃ c ∈ splitGroup g.tet n0 n1 new, covers c k = true :=
    cover_splitGroup hk
  have hr : (∃ c ∈ g.tri, covers c k = true) → ∃ c ∈ splitGroup g.tri n0 n1 new, covers c k = true :=
    cover_splitGroup hk
  unfold splitCells
  dsimp only
  split_ifs <;> rw [matched_iff] <;> dsimp only
  · exact h
  · exact h.imp ht id
  · exact h.imp ht hr
  · exact h.imp ht hr

theorem interfaceMatched_iff {g : Grid} : interfaceMatched g = true ↔ ∀ k ∈ mixedTriFaces g, matched g k = true := by
  unfold interfaceMatched
  rw [List.all_eq_true]

/-! ## swap -/

/-- pigeonhole: a duplicate-free `k` inside a list that is no longer than `k` fills it -/
theorem subset_of_nodup_subset {k l : List Nat} (hk : k.Nodup) (hs : ∀ n ∈ k, n ∈ l) (hl : l.length ≤ k.length) :
    ∀ n ∈ l, n ∈ k := by
  intro r hr
  by_contra hnot
  have hsub : k ⊆ l.erase r := by
    intro x hx
    have : x ≠ r := fun e => hnot (e ▸ hx)
    exact (List.mem_erase_of_ne this).mpr (hs x hx)
  have h1 := hk.length_le_of_subset hsub
  rw [List.length_erase] at h1
  simp only [hr, if_true] at h1
  have : 0 < l.length := List.length_pos_of_mem hr
  omega

/-- every triangular face of a pyramid / prism of the grid consists of three distinct vertices -/
def FacesProper (g : Grid) : Prop := ∀ k ∈ mixedTriFaces g, k.Nodup ∧ k.length = 3

theorem swapCells_matched {g : Grid} {n0 n1 : Nat} {k : List Nat} (hw3 : ∀ c ∈ g.tri, c.nodes.length = 3)
    (hkp : k.Nodup ∧ k.length = 3) (hk : ¬ (n0 ∈ k ∧ n1 ∈ k)) (h : matched g k = true) :
    matched (swapCells g n0 n1).2 k = true := by
  unfold swapCells
  split
  · rename_i n2 n3 _
    split
    · rename_i c0 c1 hl
      rw [matched_iff] at h ⊢
      rcases h with h | ⟨r, hr, hcov⟩
      · exact Or.inl h
      · right
        -- the two triangles on the edge contain both ends
        have hmem : ∀ c, c ∈ [c0, c1] → c ∈ g.tri ∧ n0 ∈ c.nodes ∧ n1 ∈ c.nodes := by
          intro c hc
          unfold listWith2 at hl
          dsimp only at hl
          split_ifs at hl
          · exact absurd (congrArg Prod.fst hl) (by simp)
          · have : having2 g.tri n0 n1 = [c0, c1] := congrArg Prod.snd hl
            exact mem_having2.mp (this ▸ hc)
        have hne : ∀ c, c ∈ [c0, c1] → r ≠ c := by
          intro c hc e
          obtain ⟨hct, h0, h1⟩ := hmem c hc
          have hsub := subset_of_nodup_subset hkp.1 (covers_iff.mp (e ▸ hcov))
            (by rw [hw3 c hct, hkp.2])
          exact hk ⟨hsub n0 h0, hsub n1 h1⟩
        refine ⟨r, ?_, hcov⟩
        dsimp only
        rw [List.mem_append]
        left
        rw [List.mem_erase_of_ne (hne c1 (by simp)), List.mem_erase_of_ne (hne c0 (by simp))]
        exact hr
    · exact h
    · exact h
  · exact h

/-! ## collapse -/

/-- every simplex that the collapse removes from the triangle `k` has, across its face opposite `n0`, a neighbour
    (tet or boundary tri) that does not contain `n0` -/
def CollapseNeighbour (g : Grid) (n0 n1 : Nat) (k : List Nat) : Prop :=
  ∀ x, (x ∈ g.tet ∨ x ∈ g.tri) → n0 ∈ x.nodes → n1 ∈ x.nodes → covers x k = true →
    ∃ y, (y ∈ g.tet ∨ y ∈ g.tri) ∧ n0 ∉ y.nodes ∧ ∀ v ∈ x.nodes.erase n0, v ∈ y.nodes

theorem mem_collapseGroup_of {cells : List Cell} {n0 n1 : Nat} {c : Cell} (hc : c ∈ cells)
    (h : ¬ (n0 ∈ c.nodes ∧ n1 ∈ c.nodes)) : Cell.subst n1 n0 c ∈ collapseGroup cells n0 n1 :=
  mem_collapseGroup.mpr ⟨c, hc, h, rfl⟩

theorem collapse_matched {g : Grid} {n0 n1 : Nat} {k : List Nat} (hne : n0 ≠ n1) (hk1 : n1 ∉ k)
    (hnb : CollapseNeighbour g n0 n1 k) (h : matched g k = true)
    (hok : (Collapse.collapseEdge g n0 n1).1 = .ok) : matched (Collapse.collapseEdge g n0 n1).2 k = true := by
  -- on the success path all three groups are collapsed
  have hres : (Collapse.collapseEdge g n0 n1).2.tet = collapseGroup g.tet n0 n1 ∧
      (Collapse.collapseEdge g n0 n1).2.tri = collapseGroup g.tri n0 n1 := by
    unfold Collapse.collapseEdge at hok ⊢
    dsimp only at hok ⊢
    split_ifs at hok ⊢
    all_goals first | exact absurd hok (by decide) | exact ⟨rfl, rfl⟩
  rw [matched_iff, hres.1, hres.2]
  -- a surviving cell keeps covering k
  have keep : ∀ {cells : List Cell} {c : Cell}, c ∈ cells → ¬ (n0 ∈ c.nodes ∧ n1 ∈ c.nodes) → covers c k = true →
      ∃ d ∈ collapseGroup cells n0 n1, covers d k = true :=
    fun hc hb hcov => ⟨_, mem_collapseGroup_of hc hb, covers_subst hcov hk1⟩
  -- the neighbour of a removed cell takes over
  have take : ∀ {x : Cell}, (x ∈ g.tet ∨ x ∈ g.tri) → n0 ∈ x.nodes → n1 ∈ x.nodes → covers x k = true →
      (∃ d ∈ collapseGroup g.tet n0 n1, covers d k = true) ∨ (∃ d ∈ collapseGroup g.tri n0 n1, covers d k = true) := by
    intro x hx h0 h1 hcov
    obtain ⟨y, hy, hy0, hsub⟩ := hnb x hx h0 h1 hcov
    have hcy : covers (Cell.subst n1 n0 y) k = true := by
      rw [covers_iff] at hcov ⊢
      intro v hv
      by_cases hv0 : v = n0
      · rw [hv0]
        exact mem_subst_new (hsub n1 ((List.mem_erase_of_ne (Ne.symm hne)).mpr h1))
      · have hvy : v ∈ y.nodes := hsub v ((List.mem_erase_of_ne hv0).mpr (hcov v hv))
        exact mem_subst_of_ne hvy fun e => hk1 (e ▸ hv)
    have hyb : ¬ (n0 ∈ y.nodes ∧ n1 ∈ y.nodes) := fun hb => hy0 hb.1
    rcases hy with hy | hy
    · exact Or.inl ⟨_, mem_collapseGroup_of hy hyb, hcy⟩
    · exact Or.inr ⟨_, mem_collapseGroup_of hy hyb, hcy⟩
  rw [matched_iff] at h
  rcases h with ⟨c, hc, hcov⟩ | ⟨c, hc, hcov⟩
  · by_cases hb : n0 ∈ c.nodes ∧ n1 ∈ c.nodes
    · exact take (Or.inl hc) hb.1 hb.2 hcov
    · exact Or.inl (keep hc hb hcov)
  · by_cases hb : n0 ∈ c.nodes ∧ n1 ∈ c.nodes
    · exact take (Or.inr hc) hb.1 hb.2 hcov
    · exact Or.inr (keep hc hb hcov)

/-! ## faces of well-formed cells are proper triangles -/

theorem pyr_faces_proper {c : Cell} (hl : c.nodes.length = 5) (hn : c.nodes.Nodup) :
    ∀ f ∈ triF2nPyr, (faceOf c f).Nodup ∧ (faceOf c f).length = 3 := by
  obtain ⟨nodes, id⟩ := c
  match nodes, hl with
  | [a0, a1, a2, a3, a4], _ =>
    rw [triF2nPyr_eq]
    simp only [List.nodup_cons, List.mem_cons, List.not_mem_nil, or_false, not_or, List.nodup_nil, and_true,
      not_false_eq_true] at hn
    intro f hf
    simp only [List.mem_cons, List.not_mem_nil, or_false] at hf
    rcases hf with rfl | rfl | rfl | rfl <;>
      simp [faceOf, Cell.nd] <;> omega

theorem pri_faces_proper {c : Cell} (hl : c.nodes.length = 6) (hn : c.nodes.Nodup) :
    ∀ f ∈ triF2nPri, (faceOf c f).Nodup ∧ (faceOf c f).length = 3 := by
  obtain ⟨nodes, id⟩ := c
  match nodes, hl with
  | [a0, a1, a2, a3, a4, a5], _ =>
    rw [triF2nPri_eq]
    simp only [List.nodup_cons, List.mem_cons, List.not_mem_nil, or_false, not_or, List.nodup_nil, and_true,
      not_false_eq_true] at hn
    intro f hf
    simp only [List.mem_cons, List.not_mem_nil, or_false] at hf
    rcases hf with rfl | rfl <;>
      simp [faceOf, Cell.nd] <;> omega

theorem facesProper_of {g : Grid} (hw : Arity g) (hp : ∀ c ∈ g.pyr, c.nodes.Nodup) (hr : ∀ c ∈ g.pri, c.nodes.Nodup) :
    FacesProper g := by
  intro k hk
  rcases mem_mixedTriFaces.mp hk with ⟨c, hc, f, hf, rfl⟩ | ⟨c, hc, f, hf, rfl⟩
  · exact pyr_faces_proper (hw.pyr c hc) (hp c hc) f hf
  · exact pri_faces_proper (hw.pri c hc) (hr c hc) f hf

end Refine.MixedLemmas

namespace Refine.MixedLemmas
open Refine Refine.Model Refine.Model.Guards Refine.Model.Mixed Refine.GuardsRules

/-! ## invariants along a history of simplicial operations -/

variable {P : Type}

theorem arity_of_same {g' g : Grid} (hg : SameFrozenGroups g' g) (hw : Arity g) : Arity g' :=
  ⟨by rw [hg.1]; exact hw.qua, by rw [hg.2.1]; exact hw.pyr, by rw [hg.2.2.1]; exact hw.pri,
    by rw [hg.2.2.2]; exact hw.hex⟩

theorem facesProper_of_same {g' g : Grid} (hg : SameFrozenGroups g' g) (hp : FacesProper g) : FacesProper g' := by
  intro k hk
  rw [mixedTriFaces_eq_of hg] at hk
  exact hp k hk

theorem addNode_g (m : Mesh P) (new : Nat) (p : P) : (addNode m new p).2.g = m.g := by
  unfold addNode; split_ifs <;> rfl

theorem splitEdge_g (m : Mesh P) (n0 n1 new : Nat) (p : P) :
    (splitEdge m n0 n1 new p).2.g = m.g ∨ (splitEdge m n0 n1 new p).2.g = (splitCells m.g n0 n1 new).2 := by
  unfold splitEdge
  dsimp only
  split_ifs
  · exact Or.inl (addNode_g m new p)
  · right
    dsimp only
    rw [addNode_g]

theorem subst_length (old new : Nat) (c : Cell) : (Cell.subst old new c).nodes.length = c.nodes.length := by
  rw [subst_nodes, List.length_map]

theorem mem_splitGroup {cells : List Cell} {n0 n1 new : Nat} {d : Cell} (h : d ∈ splitGroup cells n0 n1 new) :
    ∃ c ∈ cells, d = c ∨ d = Cell.subst n0 new c ∨ d = Cell.subst n1 new c := by
  unfold splitGroup at h
  rw [List.mem_flatMap] at h
  obtain ⟨c, hc, hd⟩ := h
  refine ⟨c, hc, ?_⟩
  split_ifs at hd
  · simp only [List.mem_cons, List.not_mem_nil, or_false] at hd
    rcases hd with rfl | rfl
    · exact Or.inr (Or.inl rfl)
    · exact Or.inr (Or.inr rfl)
  · simp only [List.mem_cons, List.not_mem_nil, or_false] at hd
    exact Or.inl hd

/-- every boundary triangle has three vertices -/
def TriArity (g : Grid) : Prop := ∀ c ∈ g.tri, c.nodes.length = 3

theorem triArity_splitGroup {cells : List Cell} {n0 n1 new : Nat} (h : ∀ c ∈ cells, c.nodes.length = 3) :
    ∀ c ∈ splitGroup cells n0 n1 new, c.nodes.length = 3 := by
  intro d hd
  obtain ⟨c, hc, (rfl | rfl | rfl)⟩ := mem_splitGroup hd
  · exact h _ hc
  · rw [subst_length]; exact h c hc
  · rw [subst_length]; exact h c hc

theorem triArity_splitCells {g : Grid} (n0 n1 new : Nat) (h : TriArity g) : TriArity (splitCells g n0 n1 new).2 := by
  unfold splitCells TriArity
  dsimp only
  split_ifs <;> dsimp only
  · exact h
  · exact h
  · exact triArity_splitGroup h
  · exact triArity_splitGroup h

theorem triArity_swapCells {g : Grid} (n0 n1 : Nat) (h : TriArity g) : TriArity (swapCells g n0 n1).2 := by
  unfold swapCells
  split
  · split
    · intro c hc
      dsimp only at hc
      rw [List.mem_append] at hc
      rcases hc with hc | hc
      · exact h c (List.mem_of_mem_erase (List.mem_of_mem_erase hc))
      · simp only [List.mem_cons, List.not_mem_nil, or_false] at hc
        rcases hc with rfl | rfl <;> rfl
    · exact h
    · exact h
  · exact h

/-! ## 2-D: sides of quadrilaterals -/

theorem mem_quaSides {g : Grid} {k : List Nat} :
    k ∈ quaSides g ↔ ∃ c ∈ g.qua, ∃ p ∈ e2nQua, k = [c.nd p.1, c.nd p.2] := by
  unfold quaSides
  simp only [List.mem_flatMap, List.mem_map]
  constructor
  · rintro ⟨c, hc, p, hp, rfl⟩; exact ⟨c, hc, p, hp, rfl⟩
  · rintro ⟨c, hc, p, hp, rfl⟩; exact ⟨c, hc, p, hp, rfl⟩

theorem guard_side {g : Grid} (hw : Arity g) {n0 n1 : Nat} (hne : n0 ≠ n1)
    (hguard : Guards.splitEdgeMixed g n0 n1 = true) : ∀ k ∈ quaSides g, ¬ (n0 ∈ k ∧ n1 ∈ k) := by
  intro k hk ⟨h0, h1⟩
  have hnot := (splitEdgeMixed_true_iff hw n0 n1).mp hguard
  obtain ⟨c, hc, p, hp, rfl⟩ := mem_quaSides.mp hk
  simp only [List.mem_cons, List.not_mem_nil, or_false] at h0 h1
  apply hnot
  refine Or.inr (Or.inr (Or.inr ⟨c, hc, p, hp, ?_⟩))
  rcases h0 with h0 | h0 <;> rcases h1 with h1 | h1
  · exact absurd (h0.trans h1.symm) hne
  · exact Or.inl ⟨h0, h1⟩
  · exact Or.inr ⟨h0, h1⟩
  · exact absurd (h0.trans h1.symm) hne

theorem matched2_iff {g : Grid} {k : List Nat} :
    matched2 g k = true ↔ (∃ c ∈ g.tri, covers c k = true) ∨ (∃ c ∈ g.edg, covers c k = true) := by
  unfold matched2
  simp [List.any_eq_true]

theorem splitCells_matched2 {g : Grid} {n0 n1 new : Nat} {k : List Nat} (hk : ¬ (n0 ∈ k ∧ n1 ∈ k))
    (hok : (splitCells g n0 n1 new).1 = .ok) (h : matched2 g k = true) :
    matched2 (splitCells g n0 n1 new).2 k = true := by
  rw [matched2_iff] at h
  have hr : (∃ c ∈ g.tri, covers c k = true) → ∃ c ∈ splitGroup g.tri n0 n1 new, covers c k = true :=
    cover_splitGroup hk
  have he : (∃ c ∈ g.edg, covers c k = true) → ∃ c ∈ splitGroup g.edg n0 n1 new, covers c k = true :=
    cover_splitGroup hk
  unfold splitCells at hok ⊢
  dsimp only at hok ⊢
  split_ifs at hok ⊢
  all_goals first | exact absurd hok (by decide) | skip
  rw [matched2_iff]
  exact h.imp hr he

theorem quaSides_eq_of {g' g : Grid} (hg : SameFrozenGroups g' g) : quaSides g' = quaSides g := by
  unfold quaSides
  rw [hg.1]

end Refine.MixedLemmas
