import Refine.Lemmas.MatrixReal
import Mathlib.Tactic.FieldSimp
import Mathlib.Tactic.Positivity

/-!
  `ref_matrix_diag_m2` (closed-form 2x2) and the first rotation of `ref_matrix_diag_m`, over ℝ.
-/
namespace Refine.Model.Matrix
open Refine Refine.ScalarReal

/-- the tail of diag_m2 is exact for every unit (c2, s2), c2 ≤ 0, parallel to ((m11-m22)/2, m12) -/
theorem diagM2Fin_spec (m : M3 ℝ) (c2 s2 : ℝ) (hn : c2 * c2 + s2 * s2 = 1) (hc : c2 ≤ 0)
    (hp : c2 * m.m12 = s2 * ((m.m11 - m.m22) / 2)) :
    Orthonormal2 (diagM2Fin m c2 s2) ∧ formM2 (diagM2Fin m c2 s2) = m := by
  have h5 : (Scalar.ofDec 5 (-1) : ℝ) = 1 / 2 := by
    rw [ofDec_eq]; norm_num
  set s := Real.sqrt (1 / 2 * (1 - c2)) with hsdef
  have hpos : 0 < 1 / 2 * (1 - c2) := by linarith
  have hs0 : 0 < s := Real.sqrt_pos.mpr hpos
  have hss : s * s = (1 - c2) / 2 := by
    rw [hsdef, Real.mul_self_sqrt hpos.le]; ring
  set c := 1 / 2 * s2 / s with hcdef
  have hcs : c * s = s2 / 2 := by
    rw [hcdef]; field_simp
  have hcc : c * c = (1 + c2) / 2 := by
    have h1 : c * c * (s * s) = s2 * s2 / 4 := by
      have : c * c * (s * s) = (c * s) * (c * s) := by ring
      rw [this, hcs]; ring
    rw [hss] at h1
    have h2 : (1 - c2) ≠ 0 := by linarith
    have h3 : s2 * s2 = (1 - c2) * (1 + c2) := by linear_combination hn
    rw [h3] at h1
    field_simp at h1
    linarith
  have hd : diagM2Fin m c2 s2 =
      { l0 := c * c * m.m22 - s2 * m.m12 + s * s * m.m11
        l1 := c * c * m.m11 + s2 * m.m12 + s * s * m.m22
        x0 := s, y0 := -c, x1 := c, y1 := s } := by
    simp only [diagM2Fin, h5, mul_eq, sub_eq, add_eq, div_eq, neg_eq, sqrt_eq, one_eq]
    rfl
  rw [hd]
  refine ⟨⟨?_, ?_, ?_⟩, ?_⟩
  · show s * s + -c * -c = 1
    linear_combination hss + hcc
  · show c * c + s * s = 1
    linear_combination hss + hcc
  · show s * c + -c * s = 0
    ring
  · rw [hcc, hss]
    cases m with
    | mk m11 m12 m22 =>
    simp only [formM2, mul_eq, add_eq] at hp ⊢
    have e1 : s * ((1 + c2) / 2 * m22 - s2 * m12 + (1 - c2) / 2 * m11) * s
        + c * ((1 + c2) / 2 * m11 + s2 * m12 + (1 - c2) / 2 * m22) * c = m11 := by
      linear_combination ((1 + c2) / 2 * m22 - s2 * m12 + (1 - c2) / 2 * m11) * hss
        + ((1 + c2) / 2 * m11 + s2 * m12 + (1 - c2) / 2 * m22) * hcc
        + ((m11 - m22) / 2) * hn + s2 * hp
    have e2 : s * ((1 + c2) / 2 * m22 - s2 * m12 + (1 - c2) / 2 * m11) * -c
        + c * ((1 + c2) / 2 * m11 + s2 * m12 + (1 - c2) / 2 * m22) * s = m12 := by
      linear_combination (c2 * (m11 - m22) + 2 * s2 * m12) * hcs + m12 * hn - c2 * hp
    have e3 : -c * ((1 + c2) / 2 * m22 - s2 * m12 + (1 - c2) / 2 * m11) * -c
        + s * ((1 + c2) / 2 * m11 + s2 * m12 + (1 - c2) / 2 * m22) * s = m22 := by
      linear_combination ((1 + c2) / 2 * m22 - s2 * m12 + (1 - c2) / 2 * m11) * hcc
        + ((1 + c2) / 2 * m11 + s2 * m12 + (1 - c2) / 2 * m22) * hss
        - ((m11 - m22) / 2) * hn - s2 * hp
    rw [e1, e2, e3]

end Refine.Model.Matrix

namespace Refine.Model.Matrix
open Refine Refine.ScalarReal

theorem divisible_of_le {n d : ℝ} (hd : 0 < d) (h : |n| ≤ d) : Scalar.divisible n d = true := by
  rw [divisible_iff]
  have : |(1 : ℝ) * (10 : ℝ) ^ (20 : ℤ) * d| = (10 : ℝ) ^ (20 : ℤ) * d := by
    rw [one_mul, abs_of_pos]; positivity
  rw [this]
  have h1 : (1 : ℝ) < (10 : ℝ) ^ (20 : ℤ) := by norm_num
  nlinarith

/-- `ref_matrix_diag_m2`: whenever it succeeds the two vectors are orthonormal and reconstruct m exactly -/
theorem diagM2_spec' (m : M3 ℝ) (d : Eig6 ℝ) (h : diagM2 m = .ok d) :
    Orthonormal2 d ∧ formM2 d = m := by
  have h5 : (Scalar.ofDec 5 (-1) : ℝ) = 1 / 2 := by
    rw [ofDec_eq]; norm_num
  unfold diagM2 at h
  simp only [isFinite_eq, Bool.and_self, Bool.not_true, Bool.false_eq_true, if_false, h5] at h
  set c2 : ℝ := Scalar.mul (1 / 2) (Scalar.sub m.m11 m.m22) with hc2
  have hc2' : c2 = (m.m11 - m.m22) / 2 := by rw [hc2, mul_eq, sub_eq]; ring
  set norm : ℝ := Scalar.cmax (Scalar.cabs c2) (Scalar.cabs m.m12) with hnorm
  have hnorm' : norm = max |c2| |m.m12| := by rw [hnorm, cmax_eq, cabs_eq, cabs_eq]
  by_cases hdiv : (Scalar.divisible c2 norm && Scalar.divisible m.m12 norm) = true
  · rw [if_pos hdiv] at h
    have hn0 : norm ≠ 0 := divisible_ne_zero (Bool.and_eq_true_iff.mp hdiv).1
    simp only [div_eq, mul_eq, add_eq, sqrt_eq] at h
    set a := c2 / norm with ha
    set b := m.m12 / norm with hb
    set l := Real.sqrt (a * a + b * b) with hl
    by_cases hg1 : Scalar.divisible a l = true
    · by_cases hg2 : Scalar.divisible b l = true
      · simp only [hg1, hg2, Bool.not_true, Bool.false_eq_true, if_false] at h
        have hl0 : l ≠ 0 := divisible_ne_zero hg1
        have hll : l * l = a * a + b * b := by
          rw [hl]; exact Real.mul_self_sqrt (add_nonneg (mul_self_nonneg a) (mul_self_nonneg b))
        have hunit : a / l * (a / l) + b / l * (b / l) = 1 := by
          field_simp; linear_combination -hll
        have hpar : a / l * m.m12 = b / l * ((m.m11 - m.m22) / 2) := by
          rw [ha, hb, ← hc2']; field_simp
        by_cases hpos : Scalar.bgt (a / l) Scalar.zero = true
        · rw [if_pos hpos] at h
          have hpos' : 0 < a / l := by
            unfold Scalar.bgt at hpos; rw [lt_iff, zero_eq] at hpos; exact hpos
          injection h with h; subst h
          simp only [neg_eq]
          apply diagM2Fin_spec
          · linear_combination hunit
          · linarith
          · linear_combination -hpar
        · rw [if_neg hpos] at h
          have hpos' : a / l ≤ 0 := by
            unfold Scalar.bgt at hpos
            rw [Bool.not_eq_true, lt_false_iff, zero_eq] at hpos; exact hpos
          injection h with h; subst h
          exact diagM2Fin_spec m _ _ hunit hpos' hpar
      · simp [hg1, hg2] at h
    · simp [hg1] at h
  · rw [if_neg hdiv] at h
    injection h with h; subst h
    have hm12 : m.m12 = 0 := by
      by_contra hne
      apply hdiv
      have hpos : 0 < norm := by
        rw [hnorm']; exact lt_of_lt_of_le (abs_pos.mpr hne) (le_max_right _ _)
      rw [Bool.and_eq_true_iff]
      exact ⟨divisible_of_le hpos (by rw [hnorm']; exact le_max_left _ _),
             divisible_of_le hpos (by rw [hnorm']; exact le_max_right _ _)⟩
    apply diagM2Fin_spec
    · rw [ofInt_eq, zero_eq]; norm_num
    · rw [ofInt_eq]; norm_num
    · rw [hm12, zero_eq]; ring

/-- over ℝ the two `RAS(ref_math_divisible(·, l))` guards of diag_m2 always pass: the closed form is total -/
theorem diagM2_total' (m : M3 ℝ) : ∃ d, diagM2 m = .ok d := by
  have h5 : (Scalar.ofDec 5 (-1) : ℝ) = 1 / 2 := by
    rw [ofDec_eq]; norm_num
  unfold diagM2
  simp only [isFinite_eq, Bool.and_self, Bool.not_true, Bool.false_eq_true, if_false, h5]
  set c2 : ℝ := Scalar.mul (1 / 2) (Scalar.sub m.m11 m.m22) with hc2
  set norm : ℝ := Scalar.cmax (Scalar.cabs c2) (Scalar.cabs m.m12) with hnorm
  have hnorm' : norm = max |c2| |m.m12| := by rw [hnorm, cmax_eq, cabs_eq, cabs_eq]
  by_cases hdiv : (Scalar.divisible c2 norm && Scalar.divisible m.m12 norm) = true
  · rw [if_pos hdiv]
    have hn0 : norm ≠ 0 := divisible_ne_zero (Bool.and_eq_true_iff.mp hdiv).1
    simp only [div_eq, mul_eq, add_eq, sqrt_eq]
    set a := c2 / norm with ha
    set b := m.m12 / norm with hb
    set l := Real.sqrt (a * a + b * b) with hl
    have hab : a ≠ 0 ∨ b ≠ 0 := by
      by_contra hcon
      rw [not_or, not_not, not_not] at hcon
      obtain ⟨h1, h2⟩ := hcon
      rw [ha, div_eq_zero_iff] at h1
      rw [hb, div_eq_zero_iff] at h2
      have e1 : c2 = 0 := h1.resolve_right hn0
      have e2 : m.m12 = 0 := h2.resolve_right hn0
      apply hn0
      rw [hnorm', e1, e2, abs_zero, max_self]
    have hlpos : 0 < l := by
      rw [hl]; apply Real.sqrt_pos.mpr
      rcases hab with h | h
      · have := mul_self_pos.mpr h; nlinarith [mul_self_nonneg b]
      · have := mul_self_pos.mpr h; nlinarith [mul_self_nonneg a]
    have g1 : Scalar.divisible a l = true := by
      apply divisible_of_le hlpos
      rw [hl]; apply Real.abs_le_sqrt; nlinarith [mul_self_nonneg b]
    have g2 : Scalar.divisible b l = true := by
      apply divisible_of_le hlpos
      rw [hl]; apply Real.abs_le_sqrt; nlinarith [mul_self_nonneg a]
    simp only [g1, g2, Bool.not_true, Bool.false_eq_true, if_false]
    split_ifs <;> exact ⟨_, rfl⟩
  · rw [if_neg hdiv]; exact ⟨_, rfl⟩

end Refine.Model.Matrix
