import Refine.Lemmas.Comm
import Mathlib.Order.Defs.LinearOrder

/-!
  Reductions of `ref_mpi.c` (`ref_mpi_sum/allsum/min/max/allminwho/bcast`): the element-wise `MPI_Reduce`
  in rank order equals the column-wise fold; integer sums, minima in any linear order, `MPI_MINLOC`.
-/
namespace Refine.Lemmas.Comm
open Refine.Model.Comm

variable {β : Type}

theorem getD_range_map (n : Nat) (g : Nat → β) (d : β) (i : Nat) (hi : i < n) :
    ((List.range n).map g).getD i d = g i := by
  simp [List.getD_eq_getElem?_getD, hi]

theorem eq_range_map_getD (l : List β) (n : Nat) (hl : l.length = n) (d : β) :
    l = (List.range n).map fun i => l.getD i d := by
  apply List.ext_getElem
  · simp [hl]
  · intro i h1 h2
    simp [List.getD_eq_getElem?_getD, h1]

/-- `MPI_Reduce` on vectors, folded in rank order, is the fold of every column -/
theorem foldl_zipWith_col (op : β → β → β) (n : Nat) (d : β) (xs : List (List β)) (acc : List β)
    (hacc : acc.length = n) (hx : ∀ y ∈ xs, y.length = n) :
    xs.foldl (fun a y => List.zipWith op a (y.take n)) acc
      = (List.range n).map fun i => xs.foldl (fun a y => op a (y.getD i d)) (acc.getD i d) := by
  induction xs generalizing acc with
  | nil => exact eq_range_map_getD acc n hacc d
  | cons y ys ih =>
    have hy : y.length = n := hx y List.mem_cons_self
    have hlen : (List.zipWith op acc (y.take n)).length = n := by
      rw [List.length_zipWith, List.length_take]; omega
    rw [List.foldl_cons, ih _ hlen (fun z hz => hx z (List.mem_cons_of_mem _ hz))]
    apply List.map_congr_left
    intro i hi
    have hi' := List.mem_range.mp hi
    rw [List.foldl_cons]
    congr 1
    have h1 : i < acc.length := by omega
    have h2 : i < (y.take n).length := by rw [List.length_take]; omega
    have h3 : i < y.length := by omega
    simp [List.getD_eq_getElem?_getD, List.getElem?_zipWith, h1, h3, hi']

theorem mpiReduce_col (op : β → β → β) (n : Nat) (d : β) (x : List β) (xs : List (List β))
    (hx : ∀ y ∈ x :: xs, y.length = n) :
    mpiReduce op n (x :: xs)
      = (List.range n).map fun i => xs.foldl (fun a y => op a (y.getD i d)) (x.getD i d) := by
  have hx0 : x.length = n := hx x List.mem_cons_self
  simp only [mpiReduce]
  rw [foldl_zipWith_col op n d xs (x.take n) (by rw [List.length_take]; omega)
    (fun y hy => hx y (List.mem_cons_of_mem _ hy))]
  apply List.map_congr_left
  intro i hi
  rw [List.take_of_length_le (by omega)]

/-! ### integer sums -/

/-- the element-wise sum over the ranks -/
def vecSum (n : Nat) (w : World (List Int)) : List Int :=
  (List.range n).map fun i => (w.map fun v => v.getD i 0).sum

theorem foldl_add_col (xs : List (List Int)) (i : Nat) (a : Int) :
    xs.foldl (fun a y => a + y.getD i 0) a = a + (xs.map fun v => v.getD i 0).sum := by
  induction xs generalizing a with
  | nil => simp
  | cons y ys ih => rw [List.foldl_cons, ih]; simp only [List.map_cons, List.sum_cons]; omega

theorem writeAt_full (buf blk : List β) (h : buf.length = blk.length) : writeAt buf 0 blk = blk := by
  have := writeAt_mid [] buf [] blk 0 rfl h
  simpa using this

theorem length_vecSum (n : Nat) (w : World (List Int)) : (vecSum n w).length = n := by simp [vecSum]

/-- `ref_mpi_bcast` of `n` elements into buffers of exactly `n` elements: everybody gets the root's -/
theorem bcast_full (ty : RefType) (hmpi : ty.mpiOk = true) (n : Nat) (ds : World (List β)) (root : List β)
    (h2 : 2 ≤ ds.length) (hroot : ds[0]? = some root) (hlen : ∀ dd ∈ ds, dd.length = n) :
    bcast ty n ds = ds.map fun _ => (Status.ok, root) := by
  have hn : ¬ (ds.length ≤ 1) := by omega
  unfold bcast
  simp only [hn, if_false, hmpi, Bool.not_true, Bool.false_eq_true]
  match ds, hroot, hlen with
  | dd :: rest, hroot, hlen =>
    simp only [List.getElem?_cons_zero, Option.some.injEq] at hroot
    subst hroot
    simp only [mpiBcast, List.map_map, Function.comp_def]
    apply List.map_congr_left
    intro x hx
    have h0 : dd.length = n := hlen dd List.mem_cons_self
    rw [List.take_of_length_le (by omega), writeAt_full _ _ (by rw [hlen x hx, h0])]

theorem allsum_eq (ty : RefType) (hty : ty.ild = true) (n : Nat) (w : World (List Int))
    (hlen : ∀ v ∈ w, v.length = n) :
    allsum (· + ·) ty n w = w.map fun _ => (Status.ok, vecSum n w) := by
  have hmpi : ty.mpiOk = true := by cases ty <;> simp_all [RefType.ild, RefType.mpiOk]
  have htake : ∀ v ∈ w, v.take n = v := fun v hv => List.take_of_length_le (by rw [hlen v hv]; omega)
  have hpairs : (w.map fun v => (v.take n, v)) = w.map fun v => (v, v) := by
    apply List.map_congr_left
    intro v hv; rw [htake v hv]
  unfold allsum
  simp only [hty, Bool.not_true, Bool.false_eq_true, if_false, hpairs]
  by_cases h1 : w.length ≤ 1
  · match w, h1, hlen with
    | [], _, _ => simp [sum, bcast]
    | [v], _, hlen =>
      have hv : v.length = n := hlen v (List.mem_singleton.mpr rfl)
      have hs : vecSum n [v] = v := by
        unfold vecSum
        conv => rhs; rw [eq_range_map_getD v n hv 0]
        apply List.map_congr_left
        intro i _; simp
      simp only [sum, bcast, List.map_cons, List.map_nil, List.length_singleton, Nat.le_refl, if_true, hty, hs]
      rw [List.take_of_length_le (by omega), writeAt_full v v rfl]
    | _ :: _ :: _, h1, _ => simp at h1
  · -- rank 0 reduces, then broadcasts
    have hsum : sum (· + ·) ty n (w.map fun v => (v, v))
        = w.mapIdx fun r v => (Status.ok, if r = 0 then vecSum n w else v) := by
      unfold sum
      simp only [List.length_map, h1, if_false, hmpi, Bool.not_true, Bool.false_eq_true]
      have hred : mpiReduce (· + ·) n ((w.map fun v => (v, v)).map fun x => x.1) = vecSum n w := by
        have hm : (w.map fun v => (v, v)).map (fun x => x.1) = w := by
          rw [List.map_map]; simp [Function.comp_def]
        rw [hm]
        match w, hlen, h1 with
        | [], _, h1 => simp at h1
        | v0 :: vs, hlen, _ =>
          rw [mpiReduce_col (· + ·) n 0 v0 vs hlen]
          unfold vecSum
          apply List.map_congr_left
          intro i _
          rw [foldl_add_col]
          simp
      rw [hred]
      apply List.ext_getElem
      · simp
      · intro r h1' h2'
        have hr : r < w.length := by simpa using h2'
        simp only [List.getElem_mapIdx, List.getElem_map]
        by_cases hr0 : r = 0
        · subst hr0
          simp only [if_true]
          rw [writeAt_full _ _ (by rw [hlen _ (List.getElem_mem hr), length_vecSum])]
        · simp only [hr0, if_false]
    rw [hsum]
    have hds : (w.mapIdx fun r v => (Status.ok, if r = 0 then vecSum n w else v)).map (fun x => x.2)
        = w.mapIdx fun r v => if r = 0 then vecSum n w else v := by
      apply List.ext_getElem
      · simp
      · intro r _ _; simp
    rw [hds, bcast_full ty hmpi n _ (vecSum n w) (by simp; omega)
      (by
        have : 0 < w.length := by omega
        simp [this])
      (by
        intro dd hdd
        obtain ⟨r, hr, rfl⟩ := List.mem_iff_getElem.mp hdd
        simp only [List.getElem_mapIdx]
        split
        · exact length_vecSum n w
        · exact hlen _ (List.getElem_mem _))]
    apply List.ext_getElem
    · simp
    · intro r _ _; simp

/-! ### minima / maxima in a linear order -/

section Order
variable {γ : Type} [LinearOrder γ]

/-- the strict comparison the C evaluates -/
def ltB (a b : γ) : Bool := decide (a < b)

theorem foldl_pickMin {δ : Type} (f : δ → γ) (xs : List δ) (a : γ) :
    let m := xs.foldl (fun acc y => pickMin ltB acc (f y)) a
    m ≤ a ∧ (∀ y ∈ xs, m ≤ f y) ∧ (m = a ∨ ∃ y ∈ xs, m = f y) := by
  induction xs generalizing a with
  | nil => simp
  | cons y ys ih =>
    simp only [List.foldl_cons]
    have h := ih (pickMin ltB a (f y))
    simp only at h
    obtain ⟨h1, h2, h3⟩ := h
    have hp : pickMin ltB a (f y) ≤ a ∧ pickMin ltB a (f y) ≤ f y
        ∧ (pickMin ltB a (f y) = a ∨ pickMin ltB a (f y) = f y) := by
      unfold pickMin ltB
      by_cases hlt : f y < a
      · simp only [hlt, decide_true, if_true]
        exact ⟨le_of_lt hlt, le_refl _, Or.inr trivial⟩
      · simp only [hlt, decide_false, Bool.false_eq_true, if_false]
        exact ⟨le_refl _, not_lt.mp hlt, Or.inl trivial⟩
    refine ⟨le_trans h1 hp.1, ?_, ?_⟩
    · intro z hz
      rcases List.mem_cons.mp hz with rfl | hz
      · exact le_trans h1 hp.2.1
      · exact h2 z hz
    · rcases h3 with h3 | ⟨z, hz, h3⟩
      · rcases hp.2.2 with hp | hp
        · exact Or.inl (h3.trans hp)
        · exact Or.inr ⟨y, List.mem_cons_self, h3.trans hp⟩
      · exact Or.inr ⟨z, List.mem_cons_of_mem _ hz, h3⟩

theorem foldl_pickMax {δ : Type} (f : δ → γ) (xs : List δ) (a : γ) :
    let m := xs.foldl (fun acc y => pickMax ltB acc (f y)) a
    a ≤ m ∧ (∀ y ∈ xs, f y ≤ m) ∧ (m = a ∨ ∃ y ∈ xs, m = f y) := by
  induction xs generalizing a with
  | nil => simp
  | cons y ys ih =>
    simp only [List.foldl_cons]
    have h := ih (pickMax ltB a (f y))
    simp only at h
    obtain ⟨h1, h2, h3⟩ := h
    have hp : a ≤ pickMax ltB a (f y) ∧ f y ≤ pickMax ltB a (f y)
        ∧ (pickMax ltB a (f y) = a ∨ pickMax ltB a (f y) = f y) := by
      unfold pickMax ltB
      by_cases hlt : a < f y
      · simp only [hlt, decide_true, if_true]
        exact ⟨le_of_lt hlt, le_refl _, Or.inr trivial⟩
      · simp only [hlt, decide_false, Bool.false_eq_true, if_false]
        exact ⟨le_refl _, not_lt.mp hlt, Or.inl trivial⟩
    refine ⟨le_trans hp.1 h1, ?_, ?_⟩
    · intro z hz
      rcases List.mem_cons.mp hz with rfl | hz
      · exact le_trans hp.2.1 h1
      · exact h2 z hz
    · rcases h3 with h3 | ⟨z, hz, h3⟩
      · rcases hp.2.2 with hp | hp
        · exact Or.inl (h3.trans hp)
        · exact Or.inr ⟨y, List.mem_cons_self, h3.trans hp⟩
      · exact Or.inr ⟨z, List.mem_cons_of_mem _ hz, h3⟩

/-- `ref_mpi_min`: rank 0 ends up with a least input; the status is ok everywhere -/
theorem min_eq (ty : RefType) (hty : ty.id = true) (x : γ × γ) (xs : List (γ × γ)) :
    ∃ m, (reduce1 (pickMin ltB) ty (x :: xs)).head? = some (Status.ok, m)
      ∧ m ∈ (x :: xs).map (·.1) ∧ ∀ v ∈ (x :: xs).map (·.1), m ≤ v := by
  have hmpi : ty.mpiOk = true := by cases ty <;> simp_all [RefType.id, RefType.mpiOk]
  unfold reduce1
  cases xs with
  | nil => exact ⟨x.1, by simp [hty], by simp, by simp⟩
  | cons y ys =>
    have hn : ¬ ((x :: y :: ys).length ≤ 1) := by simp
    simp only [hn, if_false, hmpi, Bool.not_true, Bool.false_eq_true, List.mapIdx_cons, List.head?_cons, if_true]
    have h := foldl_pickMin (fun (p : γ × γ) => p.1) (y :: ys) x.1
    simp only at h
    obtain ⟨h1, h2, h3⟩ := h
    refine ⟨_, rfl, ?_, ?_⟩
    · rcases h3 with h3 | ⟨z, hz, h3⟩
      · rw [h3]; simp
      · rw [h3]; exact List.mem_map.mpr ⟨z, List.mem_cons_of_mem _ hz, rfl⟩
    · intro v hv
      obtain ⟨z, hz, rfl⟩ := List.mem_map.mp hv
      rcases List.mem_cons.mp hz with rfl | hz
      · exact h1
      · exact h2 z hz

/-- `ref_mpi_max`: rank 0 ends up with a greatest input -/
theorem max_eq (ty : RefType) (hty : ty.id = true) (x : γ × γ) (xs : List (γ × γ)) :
    ∃ m, (reduce1 (pickMax ltB) ty (x :: xs)).head? = some (Status.ok, m)
      ∧ m ∈ (x :: xs).map (·.1) ∧ ∀ v ∈ (x :: xs).map (·.1), v ≤ m := by
  have hmpi : ty.mpiOk = true := by cases ty <;> simp_all [RefType.id, RefType.mpiOk]
  unfold reduce1
  cases xs with
  | nil => exact ⟨x.1, by simp [hty], by simp, by simp⟩
  | cons y ys =>
    have hn : ¬ ((x :: y :: ys).length ≤ 1) := by simp
    simp only [hn, if_false, hmpi, Bool.not_true, Bool.false_eq_true, List.mapIdx_cons, List.head?_cons, if_true]
    have h := foldl_pickMax (fun (p : γ × γ) => p.1) (y :: ys) x.1
    simp only at h
    obtain ⟨h1, h2, h3⟩ := h
    refine ⟨_, rfl, ?_, ?_⟩
    · rcases h3 with h3 | ⟨z, hz, h3⟩
      · rw [h3]; simp
      · rw [h3]; exact List.mem_map.mpr ⟨z, List.mem_cons_of_mem _ hz, rfl⟩
    · intro v hv
      obtain ⟨z, hz, rfl⟩ := List.mem_map.mp hv
      rcases List.mem_cons.mp hz with rfl | hz
      · exact h1
      · exact h2 z hz

/-! ### `MPI_MINLOC` -/

theorem getD_col {δ : Type} (L : List (List δ)) (t i : Nat) (d : δ) (ht : t < L.length) :
    (L.map fun v => v.getD i d).getD t d = (L.getD t []).getD i d := by
  simp [List.getD_eq_getElem?_getD, ht]

theorem minloc_fold (d : γ) (rest : List γ) (m : γ) (k : Int) (j : Nat) (hk : k < (j : Int)) :
    let res := ((rest.zipIdx j).map fun p => (p.1, (p.2 : Int))).foldl (minloc ltB) (m, k)
    res.1 ≤ m ∧ (∀ x ∈ rest, res.1 ≤ x) ∧
      ((res.2 = k ∧ res.1 = m) ∨
        ∃ t : Nat, res.2 = ((j + t : Nat) : Int) ∧ t < rest.length ∧ rest.getD t d = res.1 ∧ res.1 < m ∧
          ∀ i, i < t → res.1 < rest.getD i d) := by
  induction rest generalizing m k j with
  | nil => simp
  | cons x xs ih =>
    simp only [List.zipIdx_cons, List.map_cons, List.foldl_cons]
    by_cases hxm : x < m
    · -- the new element is strictly smaller: it becomes the candidate
      have hstep : minloc ltB (m, k) (x, (j : Int)) = (x, (j : Int)) := by
        unfold minloc ltB
        have : ¬ (m < x) := not_lt.mpr (le_of_lt hxm)
        simp [this, hxm]
      rw [hstep]
      have h := ih x (j : Int) (j + 1) (by push_cast; omega)
      simp only at h
      obtain ⟨h1, h2, h3⟩ := h
      refine ⟨le_trans h1 (le_of_lt hxm), ?_, ?_⟩
      · intro z hz
        rcases List.mem_cons.mp hz with rfl | hz
        · exact h1
        · exact h2 z hz
      · right
        rcases h3 with ⟨h3a, h3b⟩ | ⟨t, ht1, ht2, ht3, ht4, ht5⟩
        · refine ⟨0, by simpa using h3a, by simp, by simpa using h3b.symm, by rw [h3b]; exact hxm, ?_⟩
          intro i hi; omega
        · refine ⟨t + 1, by rw [ht1]; push_cast; omega, by simpa using ht2, by simpa using ht3,
            lt_trans ht4 hxm, ?_⟩
          intro i hi
          cases i with
          | zero => simpa using ht4
          | succ i => simpa using ht5 i (by omega)
    · -- the candidate stays (ties keep the lower rank)
      have hstep : minloc ltB (m, k) (x, (j : Int)) = (m, k) := by
        unfold minloc ltB
        by_cases hmx : m < x
        · simp [hmx]
        · have : min k (j : Int) = k := by omega
          simp [hmx, hxm, this]
      rw [hstep]
      have hmx : m ≤ x := not_lt.mp hxm
      have h := ih m k (j + 1) (by push_cast; omega)
      simp only at h
      obtain ⟨h1, h2, h3⟩ := h
      refine ⟨h1, ?_, ?_⟩
      · intro z hz
        rcases List.mem_cons.mp hz with rfl | hz
        · exact le_trans h1 hmx
        · exact h2 z hz
      · rcases h3 with h3 | ⟨t, ht1, ht2, ht3, ht4, ht5⟩
        · exact Or.inl h3
        · right
          refine ⟨t + 1, by rw [ht1]; push_cast; omega, by simpa using ht2, by simpa using ht3, ht4, ?_⟩
          intro i hi
          cases i with
          | zero => simpa using lt_of_lt_of_le ht4 hmx
          | succ i => simpa using ht5 i (by omega)

/-- `ref_mpi_allminwho`: every rank gets, per component, the least value over the ranks and the lowest rank
    that holds it -/
theorem allminwho_eq (d : γ) (n : Nat) (v0 : List γ) (vs : List (List γ))
    (hlen : ∀ v ∈ v0 :: vs, v.length = n) :
    ∃ vals whos, allminwho ltB n (v0 :: vs) = (v0 :: vs).map (fun _ => (vals, whos))
      ∧ vals.length = n ∧ whos.length = n
      ∧ ∀ i, i < n →
          (∀ v ∈ v0 :: vs, vals.getD i d ≤ v.getD i d)
          ∧ ∃ t : Nat, whos.getD i 0 = (t : Int) ∧ t < (v0 :: vs).length
              ∧ ((v0 :: vs).getD t []).getD i d = vals.getD i d
              ∧ ∀ r, r < t → vals.getD i d < ((v0 :: vs).getD r []).getD i d := by
  have hv0 : v0.length = n := hlen v0 List.mem_cons_self
  cases vs with
  | nil =>
    refine ⟨v0, List.replicate n 0, ?_, hv0, by simp, ?_⟩
    · simp [allminwho]
    · intro i hi
      refine ⟨by simp, 0, ?_, by simp, by simp, by intro r hr; omega⟩
      simp [List.getD_eq_getElem?_getD, hi]
  | cons v1 vs =>
    have hn : ¬ ((v0 :: v1 :: vs).length ≤ 1) := by simp
    -- the reduced (value, rank) pairs, column by column
    let col : Nat → List γ := fun i => (v1 :: vs).map fun v => v.getD i d
    let red : List (γ × Int) := (List.range n).map fun i =>
      (((col i).zipIdx 1).map fun p => (p.1, (p.2 : Int))).foldl (minloc ltB) (v0.getD i d, 0)
    have hred : mpiReduce (minloc ltB) n
          ((v0 :: v1 :: vs).mapIdx fun r v => (v.take n).map fun x => (x, (r : Int))) = red := by
      rw [List.mapIdx_cons]
      rw [mpiReduce_col (minloc ltB) n (d, (0 : Int))]
      · apply List.map_congr_left
        intro i hi
        have hi' := List.mem_range.mp hi
        rw [← List.foldl_map (f := fun (y : List (γ × Int)) => y.getD i (d, (0 : Int))) (g := minloc ltB)]
        congr 1
        · rw [List.take_of_length_le (by omega)]
          have : i < v0.length := by omega
          simp [List.getD_eq_getElem?_getD, this]
        · apply List.ext_getElem
          · simp [col]
          · intro r h1 h2
            have hr : r < (v1 :: vs).length := by simpa using h1
            have hvl : ((v1 :: vs)[r]).length = n := hlen _ (List.mem_cons_of_mem _ (List.getElem_mem hr))
            have hit : i < ((v1 :: vs)[r]).length := by omega
            simp only [List.getElem_map, List.getElem_mapIdx, List.getElem_zipIdx, col]
            rw [List.take_of_length_le (by omega)]
            simp [List.getD_eq_getElem?_getD, hit]
            omega
      · intro y hy
        rcases List.mem_cons.mp hy with rfl | hy
        · simp [hv0]
        · obtain ⟨r, hr, rfl⟩ := List.mem_iff_getElem.mp hy
          have hr' : r < (v1 :: vs).length := by simpa using hr
          simp only [List.getElem_mapIdx, List.length_map, List.length_take]
          have := hlen _ (List.mem_cons_of_mem _ (List.getElem_mem hr'))
          omega
    have hredlen : red.length = n := by simp [red]
    refine ⟨red.map (·.1), red.map (·.2), ?_, by simp [hredlen], by simp [hredlen], ?_⟩
    · unfold allminwho
      simp only [hn, if_false, hred]
      apply List.map_congr_left
      intro v hv
      rw [writeAt_full _ _ (by rw [hlen v hv]; simp [hredlen])]
    · intro i hi
      have hm := minloc_fold d (col i) (v0.getD i d) 0 1 (by omega)
      simp only at hm
      obtain ⟨h1, h2, h3⟩ := hm
      have hval : (red.map (·.1)).getD i d
          = ((((col i).zipIdx 1).map fun p => (p.1, (p.2 : Int))).foldl (minloc ltB) (v0.getD i d, 0)).1 := by
        simp [red, List.getD_eq_getElem?_getD, hi]
      have hwho : (red.map (·.2)).getD i 0
          = ((((col i).zipIdx 1).map fun p => (p.1, (p.2 : Int))).foldl (minloc ltB) (v0.getD i d, 0)).2 := by
        simp [red, List.getD_eq_getElem?_getD, hi]
      rw [hval, hwho]
      refine ⟨?_, ?_⟩
      · intro v hv
        rcases List.mem_cons.mp hv with rfl | hv
        · exact h1
        · exact h2 _ (List.mem_map.mpr ⟨v, hv, rfl⟩)
      · rcases h3 with ⟨h3a, h3b⟩ | ⟨t, ht1, ht2, ht3, ht4, ht5⟩
        · exact ⟨0, by simpa using h3a, by simp, by simpa using h3b.symm, by intro r hr; omega⟩
        · refine ⟨t + 1, by rw [ht1]; push_cast; omega, by simpa [col] using ht2, ?_, ?_⟩
          · rw [← ht3]
            have ht2' : t < (v1 :: vs).length := by simpa [col] using ht2
            rw [List.getD_cons_succ]
            exact (getD_col (v1 :: vs) t i d ht2').symm
          · intro r hr
            cases r with
            | zero => simpa using ht4
            | succ r =>
              have hrt : r < t := by omega
              have hr2 : r < (v1 :: vs).length := by
                have : t < (v1 :: vs).length := by simpa [col] using ht2
                omega
              have := ht5 r hrt
              rw [List.getD_cons_succ, ← getD_col (v1 :: vs) r i d hr2]
              exact this

end Order

end Refine.Lemmas.Comm
