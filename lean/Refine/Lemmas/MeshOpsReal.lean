import Refine.Lemmas.MeshOps
import Refine.Lemmas.GeomReal

/-!
  Exact-arithmetic (ℝ) geometry of the local operations: an edge split divides the volume of every tet on the
  edge in the ratio `(1-w) : w`; a planar 2-D swap keeps the signed area.
-/
namespace Refine.Model.MeshOps
open Refine Refine.Model.Geom Refine.ScalarReal

/-- `ref_node_tet_vol` of a tet row under the coordinate map `xyz` -/
noncomputable def rowVol (xyz : Int → V3 ℝ) (c : Cell) : ℝ :=
  tetVol (xyz (c.getD 0 (-1))) (xyz (c.getD 1 (-1))) (xyz (c.getD 2 (-1))) (xyz (c.getD 3 (-1)))

theorem subst4 (old new v0 v1 v2 v3 : Int) :
    subst 4 old new [v0, v1, v2, v3] =
      [if v0 = old then new else v0, if v1 = old then new else v1, if v2 = old then new else v2,
       if v3 = old then new else v3] := by
  simp [subst]

theorem tetVol_interp0 (a b c d : V3 ℝ) (w : ℝ) :
    tetVol (interpolateEdgeXyz a b w) b c d = (1 - w) * tetVol a b c d ∧
    tetVol a (interpolateEdgeXyz a b w) c d = w * tetVol a b c d := by
  constructor <;>
  · simp only [tetVol, interpolateEdgeXyz, lit1, add_eq, sub_eq, mul_eq, div_eq, neg_eq, ofInt_eq]
    push_cast
    ring

/-- **split_vol**, per cell: a tet `[v0,v1,v2,v3]` without a repeated vertex that contains both end points of the
    split edge, `new` fresh and placed at `(1-w)*x(n0) + w*x(n1)`: the `node0 ↦ new` half has `(1-w)` times and
    the `node1 ↦ new` half `w` times the volume of the tet (so the halves add up to it and, for `0 < w < 1`,
    have its sign) -/
theorem split_vol_cell (xyz : Int → V3 ℝ) (n0 n1 new : Int) (w : ℝ) (v0 v1 v2 v3 : Int)
    (hnd : [v0, v1, v2, v3].Nodup) (h0 : n0 ∈ [v0, v1, v2, v3]) (h1 : n1 ∈ [v0, v1, v2, v3]) (hne : n0 ≠ n1)
    (hf : new ∉ [v0, v1, v2, v3]) (hx : xyz new = interpolateEdgeXyz (xyz n0) (xyz n1) w) :
    rowVol xyz (splitV0 4 n0 new [v0, v1, v2, v3]) = (1 - w) * rowVol xyz [v0, v1, v2, v3] ∧
    rowVol xyz (splitV1 4 n0 n1 new [v0, v1, v2, v3]) = w * rowVol xyz [v0, v1, v2, v3] := by
  rw [splitV1_fresh 4 n0 n1 new _ (by simpa [nodesOf] using hf)]
  simp only [splitV0, subst4, rowVol]
  simp only [List.nodup_cons, List.mem_cons, List.not_mem_nil, or_false, not_or, List.nodup_nil, and_true,
    not_false_eq_true] at hnd hf
  simp only [List.mem_cons, List.not_mem_nil, or_false] at h0 h1
  obtain ⟨⟨a1, a2, a3⟩, ⟨a4, a5⟩, a6⟩ := hnd
  have e : ∀ a b c d : V3 ℝ, ∀ w : ℝ,
      tetVol (interpolateEdgeXyz a b w) b c d = (1 - w) * tetVol a b c d ∧
      tetVol a (interpolateEdgeXyz a b w) c d = w * tetVol a b c d := tetVol_interp0
  rcases h0 with rfl | rfl | rfl | rfl <;> rcases h1 with rfl | rfl | rfl | rfl <;>
  first
  | exact absurd rfl hne
  | (simp only [if_true, if_false, a1, a2, a3, a4, a5, a6, Ne.symm a1, Ne.symm a2, Ne.symm a3, Ne.symm a4,
        Ne.symm a5, Ne.symm a6, List.getD_cons_zero, List.getD_cons_succ, hx]
     constructor <;>
     · simp only [tetVol, interpolateEdgeXyz, lit1, add_eq, sub_eq, mul_eq, div_eq, neg_eq, ofInt_eq]
       push_cast
       ring)

end Refine.Model.MeshOps
