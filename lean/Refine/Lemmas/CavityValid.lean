import Refine.Lemmas.CavityReplace
import Mathlib.Algebra.Module.Basic
import Mathlib.Algebra.BigOperators.GroupWithZero.Action

/-!
  From the combinatorial orientation clause of the validity predicate to chain-level conformity:
  `valid3Orient m → ∀ G φ alternating, Σ_{tets} ∂φ − Σ_{tris} φ(tri) = 0`.
-/
namespace Refine.Lemmas.Cavity
open Refine.Model.Cavity

variable {G : Type} [AddCommGroup G]

def φK (φ : Int → Int → Int → G) (k : Int × Int × Int) : G := φ k.1 k.2.1 k.2.2

/-- an alternating map on a triple is the parity of the sorting permutation times its value on the sorted triple -/
theorem sort3s_val {φ : Int → Int → Int → G} (hφ : Alt φ) (a b c : Int) :
    φ a b c = (sort3s a b c).2 • φK φ (sort3s a b c).1 := by
  unfold sort3s φK
  simp only
  split_ifs <;> simp only [one_smul, neg_smul, neg_neg]
  all_goals first
    | rfl
    | (rw [hφ.swap a b c, neg_neg])
    | (rw [hφ.swap12 a b c, neg_neg])
    | (rw [hφ.swap02 a b c, neg_neg])
    | exact (hφ.rot' a b c).symm
    | exact (hφ.rot a b c).symm

/-- grouping a weighted sum by key -/
theorem group_sum {F K : Type} [DecidableEq K] (L : List F) (key : F → K) (w : F → ℤ) (Φ : K → G)
    (S : Finset K) (hS : ∀ f ∈ L, key f ∈ S) :
    (L.map fun f => w f • Φ (key f)).sum = ∑ k ∈ S, ((L.filter fun f => key f = k).map w).sum • Φ k := by
  induction L with
  | nil => simp
  | cons f t ih =>
    have ih := ih (fun x hx => hS x (List.mem_cons_of_mem _ hx))
    have hf := hS f List.mem_cons_self
    simp only [List.map_cons, List.sum_cons, ih]
    have : ∀ k, (((f :: t).filter fun x => key x = k).map w).sum =
        (if key f = k then w f else 0) + ((t.filter fun x => key x = k).map w).sum := by
      intro k
      by_cases h : key f = k
      · simp [List.filter_cons, h]
      · simp [List.filter_cons, h]
    simp only [this, add_smul, Finset.sum_add_distrib, ite_smul, zero_smul]
    rw [Finset.sum_ite_eq S (key f) (fun k => w f • Φ k), if_pos hf]

theorem signedConforming_of_orient {α : Type} {φ : Int → Int → Int → G} (hφ : Alt φ) (m : Mesh3 α)
    (h : valid3Orient m = true) :
    faceSum φ m.tetFaceList - faceSum φ m.triFaceList = 0 := by
  classical
  let key : Face → Int × Int × Int := fun f => (sort3s f.n0 f.n1 f.n2).1
  let w : Face → ℤ := fun f => (sort3s f.n0 f.n1 f.n2).2
  let S : Finset (Int × Int × Int) := ((m.tetFaceList ++ m.triFaceList).map key).toFinset
  have hmem : ∀ L : List Face, (∀ f ∈ L, f ∈ m.tetFaceList ++ m.triFaceList) → ∀ f ∈ L, key f ∈ S := by
    intro L hL f hf
    exact List.mem_toFinset.mpr (List.mem_map_of_mem (hL f hf))
  have e : ∀ L : List Face, faceSum φ L = (L.map fun f => w f • φK φ (key f)).sum := by
    intro L
    unfold faceSum
    congr 1
    apply List.map_congr_left
    intro f _
    exact sort3s_val hφ f.n0 f.n1 f.n2
  rw [e, e,
    group_sum m.tetFaceList key w (φK φ) S (hmem _ (fun f hf => List.mem_append_left _ hf)),
    group_sum m.triFaceList key w (φK φ) S (hmem _ (fun f hf => List.mem_append_right _ hf)),
    ← Finset.sum_sub_distrib]
  apply Finset.sum_eq_zero
  intro k hk
  rw [← sub_smul]
  obtain ⟨f, hf, rfl⟩ := List.mem_map.mp (List.mem_toFinset.mp hk)
  simp only [valid3Orient, List.all_eq_true, beq_iff_eq] at h
  have := h f hf
  simp only [signedCount] at this
  show (((m.tetFaceList.filter fun x => key x = key f).map w).sum -
    ((m.triFaceList.filter fun x => key x = key f).map w).sum) • φK φ (key f) = 0
  have hh : (((m.tetFaceList.filter fun x => key x = key f).map w).sum -
      ((m.triFaceList.filter fun x => key x = key f).map w).sum) = 0 := by
    simpa [key, w] using this
  rw [hh, zero_smul]

end Refine.Lemmas.Cavity
