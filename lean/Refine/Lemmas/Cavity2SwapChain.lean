import Refine.Lemmas.Cavity2Form

/-!
  The seg list `ref_cavity_form_edge_swap` builds on a boundary edge — `(n0,n3) (n3,n1) (n1,n2) (n2,n0)` with
  `n2`, `n3` from `ref_swap_node23` — is the signed boundary of the two boundary tris on the edge.
-/
namespace Refine.Lemmas.Cavity2
open Refine.Model.Cavity Refine.Model.Cavity2 Refine.Lemmas.Cavity Refine.Props.C01

variable {G : Type} [AddCommGroup G] {α : Type}

/-- three distinct, non-negative nodes -/
def TriGood (t : Tri) : Prop := t.n0 ≠ t.n1 ∧ t.n1 ≠ t.n2 ∧ t.n2 ≠ t.n0 ∧ 0 ≤ t.n0 ∧ 0 ≤ t.n1 ∧ 0 ≤ t.n2

/-- what one tri does to the `(node2, node3)` accumulator of `ref_swap_node23`, and its boundary -/
theorem node23Step_spec {ψ : Int → Int → G} (n0 n1 : Int) (hne : n0 ≠ n1) (t : Tri) (ht : TriGood t)
    (h0 : t.nodes.contains n0 = true) (h1 : t.nodes.contains n1 = true) (acc : Int × Int) :
    (∃ x, 0 ≤ x ∧ node23Step n0 n1 acc t = (x, acc.2) ∧ triBd ψ t = ψ n0 n1 + ψ n1 x + ψ x n0) ∨
    (∃ y, 0 ≤ y ∧ node23Step n0 n1 acc t = (acc.1, y) ∧ triBd ψ t = ψ n1 n0 + ψ n0 y + ψ y n1) := by
  obtain ⟨a, b, c, id⟩ := t
  obtain ⟨hab, hbc, hca, ha, hb, hc⟩ := ht
  simp only at hab hbc hca ha hb hc
  simp only [Tri.nodes, List.contains_cons, List.contains_nil, Bool.or_false, Bool.or_eq_true, beq_iff_eq] at h0 h1
  rw [triBd_eq]
  simp only [node23Step, Bool.and_eq_true, beq_iff_eq]
  have hba := hab.symm; have hcb := hbc.symm; have hac := hca.symm
  rcases h0 with e0 | e0 | e0 <;> rcases h1 with e1 | e1 | e1 <;> subst e0 <;> subst e1
  · exact absurd rfl hne
  · -- (a,b): forward, apex c
    left; refine ⟨c, hc, ?_, ?_⟩
    · simp [hab, hba, hbc, hcb, hca, hac]
    · abel
  · -- (a,c): backward, apex b
    right; refine ⟨b, hb, ?_, ?_⟩
    · simp [hab, hba, hbc, hcb, hca, hac]
    · abel
  · -- (b,a): backward, apex c
    right; refine ⟨c, hc, ?_, ?_⟩
    · simp [hab, hba, hbc, hcb, hca, hac]
    · abel
  · exact absurd rfl hne
  · -- (b,c): forward, apex a
    left; refine ⟨a, ha, ?_, ?_⟩
    · simp [hab, hba, hbc, hcb, hca, hac]
    · abel
  · -- (c,a): forward, apex b
    left; refine ⟨b, hb, ?_, ?_⟩
    · simp [hab, hba, hbc, hcb, hca, hac]
    · abel
  · -- (c,b): backward, apex a
    right; refine ⟨a, ha, ?_, ?_⟩
    · simp [hab, hba, hbc, hcb, hca, hac]
    · abel
  · exact absurd rfl hne

/-- `ref_swap_node23` returned ok on two good tris around the edge: the four segs of the swap are their boundary -/
theorem node23_chain {ψ : Int → Int → G} (hψ : Alt2 ψ) (n0 n1 : Int) (hne : n0 ≠ n1) (t0 t1 : Tri)
    (hg0 : TriGood t0) (hg1 : TriGood t1)
    (h00 : t0.nodes.contains n0 = true) (h01 : t0.nodes.contains n1 = true)
    (h10 : t1.nodes.contains n0 = true) (h11 : t1.nodes.contains n1 = true) (n2 n3 : Int)
    (h : node23Step n0 n1 (node23Step n0 n1 (-1, -1) t0) t1 = (n2, n3)) (h2 : n2 ≠ -1) (h3 : n3 ≠ -1) :
    triBd ψ t0 + triBd ψ t1 = ψ n0 n3 + ψ n3 n1 + ψ n1 n2 + ψ n2 n0 := by
  rcases node23Step_spec (ψ := ψ) n0 n1 hne t0 hg0 h00 h01 (-1, -1) with ⟨x, hx, e0, b0⟩ | ⟨y, hy, e0, b0⟩ <;>
  rcases node23Step_spec (ψ := ψ) n0 n1 hne t1 hg1 h10 h11 (node23Step n0 n1 (-1, -1) t0) with
    ⟨x', hx', e1, b1⟩ | ⟨y', hy', e1, b1⟩
  · -- both forward: node3 stays -1
    rw [e1, e0] at h; simp only [Prod.mk.injEq] at h; exact absurd h.2.symm h3
  · rw [e1, e0] at h; simp only [Prod.mk.injEq] at h
    obtain ⟨rfl, rfl⟩ := h
    rw [b0, b1, hψ.swap n0 n1]; abel
  · rw [e1, e0] at h; simp only [Prod.mk.injEq] at h
    obtain ⟨rfl, rfl⟩ := h
    rw [b0, b1, hψ.swap n0 n1]; abel
  · rw [e1, e0] at h; simp only [Prod.mk.injEq] at h; exact absurd h.1.symm h2



/-- a cell listed by `having` contains the node -/
theorem mem_having_iff' {β : Type} (s : Cells β) (nodes : β → List Int) (v : Int) (i : Nat) (x : β) :
    (i, x) ∈ s.having nodes v → (nodes x).contains v = true := by
  unfold Cells.having
  simp only [List.mem_filterMap]
  rintro ⟨c, _, hx⟩
  cases hrow : s.slots.rows.getD c none with
  | none => rw [hrow] at hx; cases hx
  | some y =>
    rw [hrow] at hx
    simp only at hx
    split at hx
    · next hh =>
      simp only [Option.some.injEq, Prod.mk.injEq] at hx
      obtain ⟨_, rfl⟩ := hx
      exact hh
    · cases hx

theorem swapNode23_ok (g : Grid α) (n0 n1 n2 n3 : Int) (h : swapNode23 g n0 n1 = (.ok, n2, n3)) :
    ∃ p0 p1, g.tris.having2 Tri.nodes n0 n1 = [p0, p1] ∧
      node23Step n0 n1 (node23Step n0 n1 (-1, -1) p0.2) p1.2 = (n2, n3) ∧ n2 ≠ -1 ∧ n3 ≠ -1 := by
  unfold swapNode23 at h
  simp only at h
  split at h
  · simp at h
  · split at h
    · simp at h
    · next hlen2 hlen =>
      split at h
      · simp at h
      · next hn2 =>
        split at h
        · simp at h
        · next hn3 =>
          simp only [Prod.mk.injEq, true_and] at h
          have hl : (g.tris.having2 Tri.nodes n0 n1).length = 2 := by
            by_contra hc; exact hlen hc
          obtain ⟨p0, p1, hm⟩ := List.length_eq_two.mp hl
          rw [hm] at h hn2 hn3
          simp only [List.foldl_cons, List.foldl_nil] at h hn2 hn3
          exact ⟨p0, p1, hm, Prod.ext h.1 h.2, by rw [← h.1]; exact hn2, by rw [← h.2]; exact hn3⟩

/-- the seg list of a boundary edge swap is the signed boundary of the two listed boundary tris -/
theorem formEdgeSwap_segchain {ψ : Int → Int → G} (hψ : Alt2 ψ) (g : Grid α) (n0 n1 node : Int) (hne01 : n0 ≠ n1)
    (hgood : ∀ p ∈ g.tris.having2 Tri.nodes n0 n1, TriGood p.2)
    (c' : Cav) (h : formEdgeSwap g Cav.create n0 n1 node = (.ok, c')) (hs : c'.state = .unknown)
    (hne : g.tets.having2 Tet.nodes n0 n1 ≠ [])
    (hextra : c'.tetList = (g.tets.having2 Tet.nodes n0 n1).map fun p => (p.1 : Int)) :
    segSum ψ c'.validSegs = (c'.triList.map (triBdAt ψ g)).sum := by
  have hφ : Alt (fun _ _ _ => (0 : G)) := ⟨fun _ _ _ => rfl, fun _ _ _ => by simp⟩
  have hd : Diag (fun _ _ _ => (0 : G)) := fun _ _ => rfl
  have hform := formEdgeSwap_formed hφ hd g n0 n1 node c' h hs hne hextra
  obtain ⟨cf, cs, ct, ctr, cst, cvs, _⟩ := create_facts
  have hcells : ∀ p ∈ g.tets.having2 Tet.nodes n0 n1, g.tets.get? (p.1 : Int) = some p.2 :=
    fun p hp => having2_get g.tets Tet.nodes n0 n1 p hp
  unfold formEdgeSwap at h
  simp only at h
  split at h
  · simp only [Prod.mk.injEq, true_and] at h; rw [← h] at hs; simp at hs
  · split at h
    · next s1 c1 he =>
      simp only [Prod.mk.injEq] at h
      obtain ⟨rfl, rfl⟩ := h
      rcases formSplitTets_early g n0 n1 _ _ _ _ he with e | e
      · exact absurd rfl e
      · rw [e] at hs; cases hs
    · next s1 c1 he =>
      obtain ⟨_, f1, ⟨g1, g2, g3, g4⟩, g5, g6, g7, _, g9, _⟩ :=
        formSplitTets_spec hφ g n0 n1 _ hcells { Cav.create with node := node } c1 s1 cf he
      have hc1tets : c1.tetList = (g.tets.having2 Tet.nodes n0 n1).map fun p => (p.1 : Int) := by
        rw [g6]; simp [ct]
      have hc1segs : c1.validSegs = [] := by simp only [Cav.validSegs, g1]; exact cvs
      split at h
      · next hnt =>
        have := verifyBoth_spec c1 c' _ h hs
        subst this
        have htri0 : g.tris.having2 Tri.nodes n0 n1 = [] := by simpa [triHasSide] using hnt
        rw [hc1segs, hform.tris, htri0]; simp [segSum]
      · split at h
        · next n2 n3 h23 =>
          obtain ⟨p0, p1, hpl, hstep, hn2, hn3⟩ := swapNode23_ok g n0 n1 n2 n3 h23
          split at h
          · next c3 id3 htr =>
            simp only [Prod.mk.injEq, true_and] at h; subst h
            rw [formSwapTris_early g _ _ _ _ _ htr] at hs; cases hs
          · next c3 id3 htr =>
            obtain ⟨t1, t2, t3, t4, t5, t6, t7⟩ := formSwapTris_spec g _ _ _ _ _ htr
            split at h
            · simp at h
            · split at h
              · simp at h
              · rcases hseg : insertSegs g c3 [⟨n0, n3, id3⟩, ⟨n3, n1, id3⟩, ⟨n1, n2, id3⟩, ⟨n2, n0, id3⟩] with ⟨s4, c4⟩
                rw [hseg] at h
                cases s4 <;> simp only [] at h <;> try (simp at h)
                have := verifyBoth_spec c4 c' _ h hs
                subst this
                have st := insertSegs3_spec hφ hd hψ g _ c3 c' (by rw [t1]; exact f1) (by rw [t2, g1]; exact cs)
                  (by rw [t5, hc1tets]; simpa using hne) hseg hs (by rw [hextra, t5, hc1tets])
                rw [st.segs, hform.tris, hpl]
                have hc3segs : c3.validSegs = [] := by simp only [Cav.validSegs, t2, g1]; exact cvs
                rw [hc3segs]
                have hm0 : p0 ∈ g.tris.having2 Tri.nodes n0 n1 := by rw [hpl]; simp
                have hm1 : p1 ∈ g.tris.having2 Tri.nodes n0 n1 := by rw [hpl]; simp
                have hget0 := having2_get g.tris Tri.nodes n0 n1 p0 hm0
                have hget1 := having2_get g.tris Tri.nodes n0 n1 p1 hm1
                have hc0 : p0.2.nodes.contains n0 = true ∧ p0.2.nodes.contains n1 = true := by
                  have h1 := List.mem_filter.mp hm0
                  obtain ⟨i, x⟩ := p0
                  exact ⟨mem_having_iff' g.tris Tri.nodes n0 i x h1.1, h1.2⟩
                have hc1 : p1.2.nodes.contains n0 = true ∧ p1.2.nodes.contains n1 = true := by
                  have h1 := List.mem_filter.mp hm1
                  obtain ⟨i, x⟩ := p1
                  exact ⟨mem_having_iff' g.tris Tri.nodes n0 i x h1.1, h1.2⟩
                have := node23_chain hψ n0 n1 hne01 p0.2 p1.2 (hgood p0 hm0) (hgood p1 hm1) hc0.1 hc0.2 hc1.1 hc1.2
                  n2 n3 hstep hn2 hn3
                simp only [segSum, List.map_cons, List.map_nil, List.sum_cons, List.sum_nil, triBdAt, hget0, hget1,
                  add_zero, zero_add]
                rw [this]; abel
        · next s2 n2 n3 hbad h23 =>
          simp only [Prod.mk.injEq] at h
          exact (hbad h.1).elim

end Refine.Lemmas.Cavity2
