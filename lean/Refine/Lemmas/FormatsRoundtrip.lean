import Refine.Lemmas.FormatsText
import Refine.Lemmas.CodecBytes

/-! round trips of the token-level text formats: what the readers make of the writers' output -/
namespace Refine.Lemmas.Formats
open Refine.Model.Formats
open Refine.Model.Meshb (Status Vertex Cfg adjAdd adjAddAll int32 wrap32)
open Refine.Model.Ugrid (Kind sortFaces tagOf)

/-! ### single conversions -/

@[simp] theorem scanD_nl (ts : List Tok) : scanD (.nl :: ts) = scanD ts := by simp [scanD, dropWs]
@[simp] theorem scanLf_nl (ts : List Tok) : scanLf (.nl :: ts) = scanLf ts := by simp [scanLf, dropWs]
@[simp] theorem rdD_nl (ts : List Tok) : rdD (.nl :: ts) = rdD ts := by simp [rdD]
@[simp] theorem rdLf_nl (ts : List Tok) : rdLf (.nl :: ts) = rdLf ts := by simp [rdLf]

theorem rdD_int (n : Int) (r : List Tok) : rdD (.int n :: r) = .ok (wrap32 n, r) := by
  simp [rdD, scanD, dropWs]

theorem rdLf_num (b : UInt64) (r : List Tok) : rdLf (.num b :: r) = .ok (b, r) := by
  simp [rdLf, scanLf, dropWs]

theorem wrap32_id {x : Int} (h : int32 x) : wrap32 x = x := Refine.Lemmas.Codec.wrap32_of_int32 h

/-- `k` integers in a row -/
theorem rdDs_ints (xs : List Int) (h : ∀ x ∈ xs, int32 x) (r : List Tok) :
    rdDs xs.length (ints xs ++ r) = .ok (xs, r) := by
  induction xs with
  | nil => simp [rdDs, ints]
  | cons x xs ih =>
    have hx := h x (by simp)
    simp only [List.length_cons, rdDs, ints, List.map_cons, List.cons_append, rdD_int, wrap32_id hx]
    have := ih (fun y hy => h y (by simp [hy]))
    simp only [ints] at this
    rw [this]

theorem rdDs_nl {k : Nat} (hk : 0 < k) (ts : List Tok) : rdDs k (.nl :: ts) = rdDs k ts := by
  cases k with
  | zero => omega
  | succ k => simp [rdDs]

theorem rdLfs_nl {k : Nat} (hk : 0 < k) (ts : List Tok) : rdLfs k (.nl :: ts) = rdLfs k ts := by
  cases k with
  | zero => omega
  | succ k => simp [rdLfs]

theorem rdIdx_nl {chk : Bool} {nnode : Int} {k : Nat} (hk : 0 < k) (ts : List Tok) :
    rdIdx chk nnode k (.nl :: ts) = rdIdx chk nnode k ts := by
  cases k with
  | zero => omega
  | succ k => simp [rdIdx]

/-- `k` checked indices in a row -/
theorem rdIdx_ints (chk : Bool) (nnode : Int) (xs : List Int) (h : ∀ x ∈ xs, int32 x ∧ 1 ≤ x ∧ x ≤ nnode) (r : List Tok) :
    rdIdx chk nnode xs.length (ints xs ++ r) = .ok (xs, r) := by
  induction xs with
  | nil => simp [rdIdx, ints]
  | cons x xs ih =>
    obtain ⟨hx, h1, h2⟩ := h x (by simp)
    have := ih (fun y hy => h y (by simp [hy]))
    simp only [ints] at this
    simp only [List.length_cons, rdIdx, ints, List.map_cons, List.cons_append, rdD_int, wrap32_id hx]
    rw [if_neg (by simp; intro _; exact ⟨h1, h2⟩), this]

/-! ### vertices -/

theorem rdVerts3_lines (vs : List Vertex) (r : List Tok) :
    rdVerts3 vs.length (vs.flatMap (fun p => .nl :: vertToks p) ++ r) = .ok (vs, r) := by
  induction vs with
  | nil => simp [rdVerts3]
  | cons p vs ih =>
    simp only [List.length_cons, rdVerts3, List.flatMap_cons, vertToks, List.cons_append, List.nil_append, rdLfs, rdLf_nl,
      rdLf_num, List.getD_cons_zero, List.getD_cons_succ]
    simp only [vertToks] at ih
    rw [ih]

/-! ### cells -/

/-- the vertices a writer may index: below this bound `ref_adj_add` grows by a plain `realloc` -/
def maxNodes : Int := 2 ^ 28 - 200

theorem adjAddAll_ok {xs : List Int} (h : ∀ x ∈ xs, 0 ≤ x ∧ x < maxNodes) : adjAddAll Cfg.faithful xs = .ok () := by
  induction xs with
  | nil => rfl
  | cons x xs ih =>
    obtain ⟨h0, h1⟩ := h x (by simp)
    unfold maxNodes at h1
    have : adjAdd Cfg.faithful x = .ok () := by
      unfold adjAdd Cfg.faithful
      rw [if_neg (by omega), if_neg (by omega), if_neg (by simp; omega)]
    simp only [adjAddAll, this]
    exact ih (fun y hy => h y (by simp [hy]))

/-- the 1-based nodes a writer prints for a cell -/
def conn1 (per : Nat) (c : List Int) : List Int := (c.take per).map (· + 1)

/-- a cell a text format can hold: at least `per` entries, the first `per` vertices of the mesh -/
def CellOk (per : Nat) (nnode : Int) (c : List Int) : Prop :=
  per ≤ c.length ∧ ∀ x ∈ c.take per, 0 ≤ x ∧ x < nnode

theorem conn1_length {per : Nat} {c : List Int} (h : per ≤ c.length) : (conn1 per c).length = per := by
  simp [conn1, h]

theorem addCell1_conn {per : Nat} {nnode : Int} {c : List Int} (hn : nnode ≤ maxNodes) (hc : CellOk per nnode c)
    (tail : List Int) : addCell1 (conn1 per c) tail = .ok (c.take per ++ tail) := by
  obtain ⟨hl, hx⟩ := hc
  unfold addCell1
  have hmap : (conn1 per c).map (· - 1) = c.take per := by
    simp [conn1, List.map_map, Function.comp_def]
  rw [if_neg, hmap, adjAddAll_ok (fun x hxm => ⟨(hx x hxm).1, by have := (hx x hxm).2; omega⟩)]
  simp only [List.any_eq_true, decide_eq_true_eq, not_exists, not_and]
  intro y hy
  simp only [conn1, List.mem_map] at hy
  obtain ⟨x, hxm, rfl⟩ := hy
  have := (hx x hxm).1
  omega

theorem conn1_idx {per : Nat} {nnode : Int} {c : List Int} (hn : nnode ≤ maxNodes) (hc : CellOk per nnode c) :
    ∀ x ∈ conn1 per c, int32 x ∧ 1 ≤ x ∧ x ≤ nnode := by
  intro y hy
  simp only [conn1, List.mem_map] at hy
  obtain ⟨x, hxm, rfl⟩ := hy
  have := hc.2 x hxm
  unfold maxNodes at hn
  unfold int32
  omega

/-- `n` connectivity lines, each preceded by a line end -/
theorem rdCells1_lines (chk : Bool) (nnode : Int) (per : Nat) (hper : 0 < per) (emptyId : Bool) (hn : nnode ≤ maxNodes)
    (cs : List (List Int)) (hcs : ∀ c ∈ cs, CellOk per nnode c) (r : List Tok) :
    rdCells1 chk nnode per 0 0 emptyId cs.length (cs.flatMap (fun c => .nl :: ints (conn1 per c)) ++ r) =
      .ok (cs.map (fun c => c.take per ++ (if emptyId then [-1] else [])), r) := by
  induction cs with
  | nil => simp [rdCells1]
  | cons c cs ih =>
    have hc := hcs c (by simp)
    have hlen := conn1_length hc.1
    simp only [List.length_cons, rdCells1, List.flatMap_cons, List.cons_append, List.append_assoc]
    rw [rdIdx_nl hper]
    have h1 := rdIdx_ints chk nnode (conn1 per c) (conn1_idx hn hc) (cs.flatMap (fun c => .nl :: ints (conn1 per c)) ++ r)
    rw [hlen] at h1
    rw [h1]
    simp only [rdDs, List.take_zero]
    have h2 : (if emptyId = true then [-1] else ([] : List Int)) = (if emptyId = true then [-1] else []) := rfl
    rw [addCell1_conn hn hc]
    simp only
    rw [ih (fun d hd => hcs d (by simp [hd]))]
    simp

/-- the id lines -/
theorem rdDs_idLines (per : Nat) (cs : List (List Int)) (h : ∀ c ∈ cs, int32 (c.getD per 0)) (r : List Tok) :
    rdDs cs.length (cs.flatMap (fun c => [.nl, .int (c.getD per 0)]) ++ r) = .ok (cs.map (fun c => c.getD per 0), r) := by
  induction cs with
  | nil => simp [rdDs]
  | cons c cs ih =>
    simp only [List.length_cons, rdDs, List.flatMap_cons, List.cons_append, List.nil_append, rdD_nl, rdD_int,
      wrap32_id (h c (by simp))]
    rw [ih (fun d hd => h d (by simp [hd]))]
    simp

/-- putting the ids back gives the cells, when a cell is exactly its nodes and its id -/
theorem setIds_restore (per : Nat) (cs : List (List Int)) (h : ∀ c ∈ cs, c.length = per + 1) :
    setIds per (cs.map (fun c => c.take per ++ [-1])) (cs.map (fun c => c.getD per 0)) = cs := by
  induction cs with
  | nil => rfl
  | cons c cs ih =>
    have hc := h c (by simp)
    simp only [List.map_cons, setIds]
    rw [ih (fun d hd => h d (by simp [hd]))]
    congr 1
    rw [List.take_append_of_le_length (by simp; omega), List.take_take, Nat.min_self]
    have : c = c.take per ++ [c.getD per 0] := by
      apply List.ext_getElem
      · simp; omega
      · intro i h1 h2
        by_cases hi : i < per
        · rw [List.getElem_append_left (by simp; omega)]
          simp
        · have hip : i = per := by simp at h2; omega
          subst hip
          rw [List.getElem_append_right (by simp)]
          simp [List.getD_eq_getElem?_getD, List.getElem?_eq_getElem h1]
    exact this.symm

/-! ### layout: the line end that closes a line opens the next one -/

theorem shiftNl {α : Type} (f : α → List Tok) (ls : List α) (r : List Tok) :
    Tok.nl :: (ls.flatMap (fun l => f l ++ [Tok.nl]) ++ r) = ls.flatMap (fun l => Tok.nl :: f l) ++ (Tok.nl :: r) := by
  induction ls with
  | nil => simp
  | cons l ls ih =>
    simp only [List.flatMap_cons, List.cons_append, List.append_assoc, List.nil_append]
    rw [← ih]

theorem connLines_eq (per : Nat) (cs : List (List Int)) :
    connLines per cs = cs.flatMap (fun c => ints (conn1 per c) ++ [Tok.nl]) := rfl

theorem idLines_eq (per : Nat) (cs : List (List Int)) :
    idLines per cs = cs.flatMap (fun c => [Tok.int (c.getD per 0)] ++ [Tok.nl]) := rfl

theorem vertLines_eq (vs : List Vertex) :
    vs.flatMap (fun p => vertToks p ++ [Tok.nl]) = vs.flatMap (fun p => vertToks p ++ [Tok.nl]) := rfl

/-! ### `.tri` -/

/-- a mesh `.tri` holds: vertices below the bound `ref_adj_add` grows plainly to, triangles = three vertices and an id
    that an `int` holds -/
structure TriOk (m : TMesh) : Prop where
  nodes : (m.nodes.length : Int) ≤ (preallocLimit : Int)
  cells : ∀ c ∈ m.tri, c.length = 4 ∧ (∀ x ∈ c.take 3, 0 ≤ x ∧ x < (m.nodes.length : Int)) ∧ int32 (c.getD 3 0)
  count : (m.tri.length : Int) < 2 ^ 31

theorem decodeTri_encodeTri (fx : Fix) (m : TMesh) (h : TriOk m) :
    decodeTri fx (encodeTri m) = .ok (normalizeTri m) := by
  have hnb : (m.nodes.length : Int) ≤ 1000000 := h.nodes
  have hmax : (m.nodes.length : Int) ≤ maxNodes := by unfold maxNodes; omega
  have hn31 : int32 (m.nodes.length : Int) := by unfold int32; omega
  have ht31 : int32 (m.tri.length : Int) := by have := h.count; unfold int32; omega
  have hcells : ∀ c ∈ m.tri, CellOk 3 (m.nodes.length : Int) c :=
    fun c hc => ⟨by have := (h.cells c hc).1; omega, (h.cells c hc).2.1⟩
  unfold decodeTri encodeTri
  simp only [List.append_assoc, List.singleton_append]
  rw [show (2 : Nat) = [(m.nodes.length : Int), (m.tri.length : Int)].length from rfl,
    rdDs_ints _ (by intro x hx; simp at hx; rcases hx with rfl | rfl <;> assumption)]
  simp only [List.getD_cons_zero, List.getD_cons_succ, cnt, Int.toNat_natCast]
  have hp : prealloc fx (m.nodes.length : Int) = .ok () := by
    unfold prealloc preallocLimit
    rw [if_neg]
    intro hc
    have := hc.2
    omega
  rw [hp]
  simp only
  rw [List.cons_append, shiftNl vertToks, rdVerts3_lines]
  simp only
  rw [connLines_eq, shiftNl (fun c => ints (conn1 3 c)), rdCells1_lines fx.index _ 3 (by decide) true hmax m.tri hcells]
  simp only [List.cons_append]
  rw [idLines_eq]
  have hsh := shiftNl (fun c : List Int => [Tok.int (c.getD 3 0)]) m.tri []
  simp only [List.append_nil] at hsh
  rw [hsh]
  have hid := rdDs_idLines 3 m.tri (fun c hc => (h.cells c hc).2.2) [Tok.nl]
  rw [hid]
  simp only [if_true]
  rw [setIds_restore 3 m.tri (fun c hc => (h.cells c hc).1)]
  rfl

/-! ### `.fgrid` -/

theorem rdLfs_numLines (xs : List UInt64) (r : List Tok) :
    rdLfs xs.length (xs.flatMap (fun b => [Tok.nl, Tok.num b]) ++ r) = .ok (xs, r) := by
  induction xs with
  | nil => simp [rdLfs]
  | cons x xs ih =>
    simp only [List.length_cons, rdLfs, List.flatMap_cons, List.cons_append, List.nil_append, rdLf_nl, rdLf_num]
    rw [ih]

theorem vertsOfColumns_columns (vs : List Vertex) :
    vertsOfColumns vs.length (vs.map (·.x) ++ (vs.map (·.y) ++ vs.map (·.z))) = vs := by
  apply List.ext_getElem
  · simp [vertsOfColumns]
  · intro i h1 h2
    simp only [vertsOfColumns, List.getElem_map, List.getElem_range]
    have hi : i < vs.length := h2
    have hx : (vs.map (·.x) ++ (vs.map (·.y) ++ vs.map (·.z))).getD i 0 = vs[i].x := by
      rw [List.getD_eq_getElem?_getD, List.getElem?_append_left (by simp; omega)]
      simp [hi]
    have hy : (vs.map (·.x) ++ (vs.map (·.y) ++ vs.map (·.z))).getD (vs.length + i) 0 = vs[i].y := by
      rw [List.getD_eq_getElem?_getD, List.getElem?_append_right (by simp), List.getElem?_append_left (by simp; omega)]
      simp [hi]
    have hz : (vs.map (·.x) ++ (vs.map (·.y) ++ vs.map (·.z))).getD (2 * vs.length + i) 0 = vs[i].z := by
      rw [List.getD_eq_getElem?_getD, List.getElem?_append_right (by simp; omega),
        List.getElem?_append_right (by simp; omega)]
      have : 2 * vs.length + i - (vs.map (·.x)).length - (vs.map (·.y)).length = i := by simp; omega
      rw [this]
      simp [hi]
    rw [hx, hy, hz]

/-- a mesh `.fgrid` holds -/
structure FgridOk (m : TMesh) : Prop where
  nodes : (m.nodes.length : Int) ≤ (preallocLimit : Int)
  tris : ∀ c ∈ m.tri, c.length = 4 ∧ (∀ x ∈ c.take 3, 0 ≤ x ∧ x < (m.nodes.length : Int)) ∧ int32 (c.getD 3 0)
  tets : ∀ c ∈ m.tet, c.length = 4 ∧ (∀ x ∈ c.take 4, 0 ≤ x ∧ x < (m.nodes.length : Int))
  ntri : (m.tri.length : Int) < 2 ^ 31
  ntet : (m.tet.length : Int) < 2 ^ 31

theorem map_take_self (per : Nat) (cs : List (List Int)) (h : ∀ c ∈ cs, c.length = per) :
    cs.map (fun c => c.take per ++ (if false = true then [-1] else [])) = cs := by
  induction cs with
  | nil => rfl
  | cons c cs ih =>
    simp only [List.map_cons]
    rw [ih (fun d hd => h d (by simp [hd]))]
    congr 1
    have := h c (by simp)
    simp [List.take_of_length_le (by omega : c.length ≤ per)]

theorem decodeFgrid_encodeFgrid (fx : Fix) (m : TMesh) (h : FgridOk m) :
    decodeFgrid fx (encodeFgrid m) = .ok (normalizeFgrid m) := by
  have hnb : (m.nodes.length : Int) ≤ 1000000 := h.nodes
  have hmax : (m.nodes.length : Int) ≤ maxNodes := by unfold maxNodes; omega
  have hn31 : int32 (m.nodes.length : Int) := by unfold int32; omega
  have ht31 : int32 (m.tri.length : Int) := by have := h.ntri; unfold int32; omega
  have hv31 : int32 (m.tet.length : Int) := by have := h.ntet; unfold int32; omega
  have htri : ∀ c ∈ m.tri, CellOk 3 (m.nodes.length : Int) c :=
    fun c hc => ⟨by have := (h.tris c hc).1; omega, (h.tris c hc).2.1⟩
  have htet : ∀ c ∈ m.tet, CellOk 4 (m.nodes.length : Int) c :=
    fun c hc => ⟨by have := (h.tets c hc).1; omega, (h.tets c hc).2⟩
  unfold decodeFgrid encodeFgrid
  simp only [List.append_assoc, List.singleton_append]
  have h0 : ∀ r, rdDs 3 (ints [(m.nodes.length : Int), (m.tri.length : Int), (m.tet.length : Int)] ++ r) =
      .ok ([(m.nodes.length : Int), (m.tri.length : Int), (m.tet.length : Int)], r) := fun r =>
    rdDs_ints [(m.nodes.length : Int), (m.tri.length : Int), (m.tet.length : Int)]
      (by intro x hx; simp at hx; rcases hx with rfl | rfl | rfl <;> assumption) r
  rw [h0]
  simp only [List.getD_cons_zero, List.getD_cons_succ, cnt, Int.toNat_natCast]
  have hp : prealloc fx (m.nodes.length : Int) = .ok () := by
    unfold prealloc preallocLimit
    rw [if_neg]
    intro hc
    have := hc.2
    omega
  rw [hp]
  simp only
  -- the three coordinate columns
  have hcol : ∀ (f : Vertex → UInt64), m.nodes.flatMap (fun p => [Tok.num (f p), Tok.nl]) =
      (m.nodes.map f).flatMap (fun b => [Tok.num b] ++ [Tok.nl]) := by
    intro f; simp [List.flatMap_map]
  rw [hcol (·.x), hcol (·.y), hcol (·.z), List.cons_append, shiftNl (fun b => [Tok.num b]),
    shiftNl (fun b => [Tok.num b]), shiftNl (fun b => [Tok.num b])]
  rw [← List.append_assoc, ← List.append_assoc, ← List.flatMap_append, ← List.flatMap_append]
  have hlen : 3 * m.nodes.length = (m.nodes.map (·.x) ++ m.nodes.map (·.y) ++ m.nodes.map (·.z)).length := by
    simp; omega
  rw [hlen, rdLfs_numLines]
  simp only
  rw [connLines_eq, shiftNl (fun c => ints (conn1 3 c)), rdCells1_lines fx.index _ 3 (by decide) true hmax m.tri htri]
  simp only
  rw [idLines_eq, shiftNl (fun c : List Int => [Tok.int (c.getD 3 0)]),
    rdDs_idLines 3 m.tri (fun c hc => (h.tris c hc).2.2)]
  simp only
  rw [connLines_eq]
  have hsh := shiftNl (fun c : List Int => ints (conn1 4 c)) m.tet []
  simp only [List.append_nil] at hsh
  rw [hsh, rdCells1_lines fx.index _ 4 (by decide) false hmax m.tet htet]
  simp only [if_true]
  rw [setIds_restore 3 m.tri (fun c hc => (h.tris c hc).1), map_take_self 4 m.tet (fun c hc => (h.tets c hc).1),
    List.append_assoc, vertsOfColumns_columns]
  rfl

/-! ### ASCII `.ugrid` -/

/-- a mesh ASCII `.ugrid` holds: boundary faces = nodes and an id an `int` holds, volume cells = nodes -/
structure UgridOk (m : TMesh) : Prop where
  nodes : (m.nodes.length : Int) ≤ maxNodes
  tris : ∀ c ∈ m.tri, c.length = 4 ∧ (∀ x ∈ c.take 3, 0 ≤ x ∧ x < (m.nodes.length : Int)) ∧ int32 (c.getD 3 0)
  quas : ∀ c ∈ m.qua, c.length = 5 ∧ (∀ x ∈ c.take 4, 0 ≤ x ∧ x < (m.nodes.length : Int)) ∧ int32 (c.getD 4 0)
  tets : ∀ c ∈ m.tet, c.length = 4 ∧ (∀ x ∈ c.take 4, 0 ≤ x ∧ x < (m.nodes.length : Int))
  pyrs : ∀ c ∈ m.pyr, c.length = 5 ∧ (∀ x ∈ c.take 5, 0 ≤ x ∧ x < (m.nodes.length : Int))
  pris : ∀ c ∈ m.pri, c.length = 6 ∧ (∀ x ∈ c.take 6, 0 ≤ x ∧ x < (m.nodes.length : Int))
  hexs : ∀ c ∈ m.hex, c.length = 8 ∧ (∀ x ∈ c.take 8, 0 ≤ x ∧ x < (m.nodes.length : Int))
  counts : ∀ n ∈ [m.tri.length, m.qua.length, m.tet.length, m.pyr.length, m.pri.length, m.hex.length], (n : Int) < 2 ^ 31

theorem mem_sortFaces {k : Kind} {cs : List (List Int)} {c : List Int} : c ∈ sortFaces k cs ↔ c ∈ cs := by
  unfold sortFaces
  exact List.mem_mergeSort

theorem length_sortFaces (k : Kind) (cs : List (List Int)) : (sortFaces k cs).length = cs.length := by
  unfold sortFaces
  exact List.length_mergeSort _

theorem decodeUgridTxt_encodeUgridTxt (m : TMesh) (h : UgridOk m) :
    decodeUgridTxt (encodeUgridTxt m) = .ok (normalizeUgrid m) := by
  have hmax := h.nodes
  have hn31 : int32 (m.nodes.length : Int) := by unfold maxNodes at hmax; unfold int32; omega
  have hc31 : ∀ n ∈ [m.tri.length, m.qua.length, m.tet.length, m.pyr.length, m.pri.length, m.hex.length],
      int32 (n : Int) := fun n hn => by have := h.counts n hn; unfold int32; omega
  -- the boundary faces in the writer's order
  have htri : ∀ c ∈ sortFaces .tri m.tri, CellOk 3 (m.nodes.length : Int) c := fun c hc => by
    have := h.tris c (mem_sortFaces.mp hc); exact ⟨by omega, this.2.1⟩
  have hqua : ∀ c ∈ sortFaces .qua m.qua, CellOk 4 (m.nodes.length : Int) c := fun c hc => by
    have := h.quas c (mem_sortFaces.mp hc); exact ⟨by omega, this.2.1⟩
  have htet : ∀ c ∈ m.tet, CellOk 4 (m.nodes.length : Int) c := fun c hc => ⟨by have := (h.tets c hc).1; omega, (h.tets c hc).2⟩
  have hpyr : ∀ c ∈ m.pyr, CellOk 5 (m.nodes.length : Int) c := fun c hc => ⟨by have := (h.pyrs c hc).1; omega, (h.pyrs c hc).2⟩
  have hpri : ∀ c ∈ m.pri, CellOk 6 (m.nodes.length : Int) c := fun c hc => ⟨by have := (h.pris c hc).1; omega, (h.pris c hc).2⟩
  have hhex : ∀ c ∈ m.hex, CellOk 8 (m.nodes.length : Int) c := fun c hc => ⟨by have := (h.hexs c hc).1; omega, (h.hexs c hc).2⟩
  unfold decodeUgridTxt encodeUgridTxt
  simp only [List.append_assoc, List.singleton_append]
  have h0 : ∀ r, rdDs 7 (ints [(m.nodes.length : Int), (m.tri.length : Int), (m.qua.length : Int), (m.tet.length : Int),
      (m.pyr.length : Int), (m.pri.length : Int), (m.hex.length : Int)] ++ r) =
      .ok ([(m.nodes.length : Int), (m.tri.length : Int), (m.qua.length : Int), (m.tet.length : Int),
        (m.pyr.length : Int), (m.pri.length : Int), (m.hex.length : Int)], r) := fun r =>
    rdDs_ints [(m.nodes.length : Int), (m.tri.length : Int), (m.qua.length : Int), (m.tet.length : Int),
        (m.pyr.length : Int), (m.pri.length : Int), (m.hex.length : Int)] (by
      intro x hx
      simp only [List.mem_cons, List.not_mem_nil, or_false] at hx
      rcases hx with rfl | rfl | rfl | rfl | rfl | rfl | rfl
      · exact hn31
      all_goals exact hc31 _ (by simp)) r
  rw [h0]
  simp only [List.getD_cons_zero, List.getD_cons_succ, cnt, Int.toNat_natCast]
  rw [List.cons_append, shiftNl vertToks, rdVerts3_lines]
  simp only
  rw [connLines_eq, shiftNl (fun c => ints (conn1 3 c))]
  have e1 := rdCells1_lines true _ 3 (by decide) true hmax (sortFaces .tri m.tri) htri
  rw [length_sortFaces] at e1
  rw [e1]
  simp only
  rw [connLines_eq, shiftNl (fun c => ints (conn1 4 c))]
  have e2 := rdCells1_lines true _ 4 (by decide) true hmax (sortFaces .qua m.qua) hqua
  rw [length_sortFaces] at e2
  rw [e2]
  simp only
  rw [idLines_eq, shiftNl (fun c : List Int => [Tok.int (c.getD 3 0)])]
  have e3 := rdDs_idLines 3 (sortFaces .tri m.tri) (fun c hc => (h.tris c (mem_sortFaces.mp hc)).2.2)
  rw [length_sortFaces] at e3
  rw [e3]
  simp only
  rw [idLines_eq, shiftNl (fun c : List Int => [Tok.int (c.getD 4 0)])]
  have e4 := rdDs_idLines 4 (sortFaces .qua m.qua) (fun c hc => (h.quas c (mem_sortFaces.mp hc)).2.2)
  rw [length_sortFaces] at e4
  rw [e4]
  simp only
  rw [connLines_eq, shiftNl (fun c => ints (conn1 4 c)), rdCells1_lines true _ 4 (by decide) false hmax m.tet htet]
  simp only
  rw [connLines_eq, shiftNl (fun c => ints (conn1 5 c)), rdCells1_lines true _ 5 (by decide) false hmax m.pyr hpyr]
  simp only
  rw [connLines_eq, shiftNl (fun c => ints (conn1 6 c)), rdCells1_lines true _ 6 (by decide) false hmax m.pri hpri]
  simp only
  rw [connLines_eq]
  have hsh := shiftNl (fun c : List Int => ints (conn1 8 c)) m.hex []
  simp only [List.append_nil] at hsh
  rw [hsh, rdCells1_lines true _ 8 (by decide) false hmax m.hex hhex]
  simp only [if_true]
  rw [setIds_restore 3 _ (fun c hc => (h.tris c (mem_sortFaces.mp hc)).1),
    setIds_restore 4 _ (fun c hc => (h.quas c (mem_sortFaces.mp hc)).1),
    map_take_self 4 m.tet (fun c hc => (h.tets c hc).1), map_take_self 5 m.pyr (fun c hc => (h.pyrs c hc).1),
    map_take_self 6 m.pri (fun c hc => (h.pris c hc).1), map_take_self 8 m.hex (fun c hc => (h.hexs c hc).1)]
  rfl

end Refine.Lemmas.Formats
