import Refine.Lemmas.SearchGeom

/-!
  Lemmas for C12, point–triangle kernel `dist2triWith foot` (`ref_search_distance3`), exact arithmetic.
  Everything is proved for any `foot` that moves the query along the triangle normal
  (`FootAlongNormal`): both the code in /repo today (`tri3Foot`, un-normalised normal) and the candidate
  repair (`tri3FootFixed`) are of that form, because the barycentric numerators do not see the normal
  component of the foot.
-/
namespace Refine.Lemmas.Search
open Refine Refine.Model.Geom Refine.Model.Search Refine.ScalarReal

/-- `(p1-p0) × (p2-p0)` in real arithmetic -/
def nrm (p0 p1 p2 : V3 ℝ) : V3 ℝ :=
  ⟨(p1.y - p0.y) * (p2.z - p0.z) - (p1.z - p0.z) * (p2.y - p0.y),
   (p1.z - p0.z) * (p2.x - p0.x) - (p1.x - p0.x) * (p2.z - p0.z),
   (p1.x - p0.x) * (p2.y - p0.y) - (p1.y - p0.y) * (p2.x - p0.x)⟩

def rdot (a b : V3 ℝ) : ℝ := a.x * b.x + a.y * b.y + a.z * b.z

/-- `x - σ M` -/
def shiftN (x : V3 ℝ) (σ : ℝ) (M : V3 ℝ) : V3 ℝ := ⟨x.x - σ * M.x, x.y - σ * M.y, x.z - σ * M.z⟩

theorem xyzNormal_eq (p0 p1 p2 : V3 ℝ) : xyzNormal p0 p1 p2 = nrm p0 p1 p2 := by
  simp only [xyzNormal, cross, vsub, nrm, sub_eq, mul_eq]

theorem dot_eq (a b : V3 ℝ) : dot a b = rdot a b := by
  simp only [dot, rdot, add_eq, mul_eq]

/-- the barycentric numerators in real arithmetic -/
def baryR (p0 p1 p2 xp : V3 ℝ) : V3 ℝ :=
  ⟨rdot (nrm xp p1 p2) (nrm p0 p1 p2), rdot (nrm p0 xp p2) (nrm p0 p1 p2), rdot (nrm p0 p1 xp) (nrm p0 p1 p2)⟩

theorem tri3BaryAt_eq (p0 p1 p2 xp : V3 ℝ) : tri3BaryAt p0 p1 p2 xp = baryR p0 p1 p2 xp := by
  simp only [tri3BaryAt, baryR, xyzNormal_eq, dot_eq]

/-- a foot that differs from the query by a multiple of the triangle normal -/
def FootAlongNormal (foot : V3 ℝ → V3 ℝ → V3 ℝ → V3 ℝ → V3 ℝ) : Prop :=
  ∀ p0 p1 p2 x, ∃ σ : ℝ, foot p0 p1 p2 x = shiftN x σ (nrm p0 p1 p2)

theorem tri3Foot_along : FootAlongNormal tri3Foot := by
  intro p0 p1 p2 x
  refine ⟨rdot ⟨x.x - p0.x, x.y - p0.y, x.z - p0.z⟩ (nrm p0 p1 p2), ?_⟩
  simp only [tri3Foot, xyzNormal_eq, dot_eq, vsub, sub_eq, add_eq, mul_eq, shiftN]
  generalize rdot _ _ = τ
  generalize nrm p0 p1 p2 = M
  apply V3.eq_of <;> ring

theorem tri3FootFixed_along : FootAlongNormal tri3FootFixed := by
  intro p0 p1 p2 x
  simp only [tri3FootFixed, xyzNormal_eq, dot_eq, vsub, sub_eq, add_eq, mul_eq, div_eq, shiftN]
  generalize rdot ⟨x.x - p0.x, x.y - p0.y, x.z - p0.z⟩ (nrm p0 p1 p2) = τ
  generalize (if Scalar.divisible τ (rdot (nrm p0 p1 p2) (nrm p0 p1 p2)) = true then
    τ / rdot (nrm p0 p1 p2) (nrm p0 p1 p2) else τ) = σ
  generalize nrm p0 p1 p2 = M
  refine ⟨σ, ?_⟩
  apply V3.eq_of <;> ring

/-- the numerators are blind to the normal component of the foot -/
theorem baryR_shift (p0 p1 p2 x : V3 ℝ) (σ : ℝ) :
    baryR p0 p1 p2 (shiftN x σ (nrm p0 p1 p2)) = baryR p0 p1 p2 x := by
  unfold baryR
  generalize nrm p0 p1 p2 = M
  apply V3.eq_of <;> (show rdot _ _ = rdot _ _) <;> unfold rdot nrm shiftN <;> ring

/-- the numerators sum to `|N|²` -/
theorem baryR_sum (p0 p1 p2 xp : V3 ℝ) :
    (baryR p0 p1 p2 xp).x + (baryR p0 p1 p2 xp).y + (baryR p0 p1 p2 xp).z =
      rdot (nrm p0 p1 p2) (nrm p0 p1 p2) := by
  have key : ∀ M : V3 ℝ, rdot (nrm xp p1 p2) M + rdot (nrm p0 xp p2) M + rdot (nrm p0 p1 xp) M =
      rdot (nrm p0 p1 p2) M := by
    intro M; unfold rdot nrm; ring
  exact key _

/-- `|N|² x - Σ bᵢ pᵢ = ((x-p0)·N) N` : the weighted vertex sum is `|N|²` times the orthogonal projection -/
theorem baryR_proj (p0 p1 p2 x : V3 ℝ) :
    let N := nrm p0 p1 p2
    let b := baryR p0 p1 p2 x
    let τ := rdot ⟨x.x - p0.x, x.y - p0.y, x.z - p0.z⟩ N
    rdot N N * x.x - (b.x * p0.x + b.y * p1.x + b.z * p2.x) = τ * N.x ∧
    rdot N N * x.y - (b.x * p0.y + b.y * p1.y + b.z * p2.y) = τ * N.y ∧
    rdot N N * x.z - (b.x * p0.z + b.y * p1.z + b.z * p2.z) = τ * N.z := by
  refine ⟨?_, ?_, ?_⟩ <;> (unfold baryR rdot nrm) <;> ring

theorem nrm_perp1 (p0 p1 p2 : V3 ℝ) :
    (nrm p0 p1 p2).x * (p1.x - p0.x) + (nrm p0 p1 p2).y * (p1.y - p0.y) + (nrm p0 p1 p2).z * (p1.z - p0.z) = 0 := by
  unfold nrm; ring

theorem nrm_perp2 (p0 p1 p2 : V3 ℝ) :
    (nrm p0 p1 p2).x * (p2.x - p0.x) + (nrm p0 p1 p2).y * (p2.y - p0.y) + (nrm p0 p1 p2).z * (p2.z - p0.z) = 0 := by
  unfold nrm; ring

/-- the interior-branch test of `ref_search_distance3` -/
def TriInterior (p0 p1 p2 x : V3 ℝ) : Prop :=
  (Scalar.divisible (baryR p0 p1 p2 x).x (rdot (nrm p0 p1 p2) (nrm p0 p1 p2)) &&
    Scalar.divisible (baryR p0 p1 p2 x).y (rdot (nrm p0 p1 p2) (nrm p0 p1 p2)) &&
    Scalar.divisible (baryR p0 p1 p2 x).z (rdot (nrm p0 p1 p2) (nrm p0 p1 p2))) = true ∧
  (Scalar.le (0 : ℝ) ((baryR p0 p1 p2 x).x / rdot (nrm p0 p1 p2) (nrm p0 p1 p2)) &&
    Scalar.le (0 : ℝ) ((baryR p0 p1 p2 x).y / rdot (nrm p0 p1 p2) (nrm p0 p1 p2)) &&
    Scalar.le (0 : ℝ) ((baryR p0 p1 p2 x).z / rdot (nrm p0 p1 p2) (nrm p0 p1 p2))) = true

theorem dist2triWith_cases (foot : V3 ℝ → V3 ℝ → V3 ℝ → V3 ℝ → V3 ℝ) (hf : FootAlongNormal foot)
    (p0 p1 p2 x : V3 ℝ) :
    (TriInterior p0 p1 p2 x →
      dist2triWith foot p0 p1 p2 x = edist x (comb3 p0 p1 p2
          ((baryR p0 p1 p2 x).x / rdot (nrm p0 p1 p2) (nrm p0 p1 p2))
          ((baryR p0 p1 p2 x).y / rdot (nrm p0 p1 p2) (nrm p0 p1 p2))
          ((baryR p0 p1 p2 x).z / rdot (nrm p0 p1 p2) (nrm p0 p1 p2)))) ∧
    (¬ TriInterior p0 p1 p2 x → dist2triWith foot p0 p1 p2 x = tri3Edges p0 p1 p2 x) := by
  obtain ⟨σ, hσ⟩ := hf p0 p1 p2 x
  unfold dist2triWith TriInterior
  simp only [hσ, tri3BaryAt_eq, baryR_shift, baryR_sum, add_eq, sub_eq, mul_eq, div_eq, sqrt_eq, zero_eq,
    Scalar.bge, dot]
  constructor
  · intro h
    rw [if_pos h.1, if_pos h.2]
    unfold edist sqd comb3
    congr 1
    ring
  · intro h
    by_cases h1 : (Scalar.divisible (baryR p0 p1 p2 x).x (rdot (nrm p0 p1 p2) (nrm p0 p1 p2)) &&
        Scalar.divisible (baryR p0 p1 p2 x).y (rdot (nrm p0 p1 p2) (nrm p0 p1 p2)) &&
        Scalar.divisible (baryR p0 p1 p2 x).z (rdot (nrm p0 p1 p2) (nrm p0 p1 p2))) = true
    · rw [if_pos h1, if_neg (fun h2 => h ⟨h1, h2⟩)]
    · rw [if_neg h1]

/-! ## points of edges are points of the triangle -/

theorem inTri_of_onSeg01 {p0 p1 p2 y : V3 ℝ} (h : OnSeg p0 p1 y) : InTri p0 p1 p2 y := by
  obtain ⟨t, h0, h1, rfl⟩ := h
  refine ⟨1 - t, t, 0, by linarith, h0, le_refl _, by ring, ?_⟩
  apply V3.eq_of <;> simp only [lerp, comb3] <;> ring

theorem inTri_of_onSeg12 {p0 p1 p2 y : V3 ℝ} (h : OnSeg p1 p2 y) : InTri p0 p1 p2 y := by
  obtain ⟨t, h0, h1, rfl⟩ := h
  refine ⟨0, 1 - t, t, le_refl _, by linarith, h0, by ring, ?_⟩
  apply V3.eq_of <;> simp only [lerp, comb3] <;> ring

theorem inTri_of_onSeg20 {p0 p1 p2 y : V3 ℝ} (h : OnSeg p2 p0 y) : InTri p0 p1 p2 y := by
  obtain ⟨t, h0, h1, rfl⟩ := h
  refine ⟨t, 0, 1 - t, h0, le_refl _, by linarith, by ring, ?_⟩
  apply V3.eq_of <;> simp only [lerp, comb3] <;> ring

/-- a convex combination with a vanishing weight lies on the opposite edge -/
theorem onEdge_of_zero_weight (p0 p1 p2 : V3 ℝ) (u v w : ℝ) (hu : 0 ≤ u) (hv : 0 ≤ v) (hw : 0 ≤ w)
    (hs : u + v + w = 1) (hz : u = 0 ∨ v = 0 ∨ w = 0) :
    OnSeg p0 p1 (comb3 p0 p1 p2 u v w) ∨ OnSeg p1 p2 (comb3 p0 p1 p2 u v w) ∨
      OnSeg p2 p0 (comb3 p0 p1 p2 u v w) := by
  rcases hz with rfl | rfl | rfl
  · right; left
    refine ⟨w, hw, by linarith, ?_⟩
    have : v = 1 - w := by linarith
    subst this
    apply V3.eq_of <;> simp only [lerp, comb3] <;> ring
  · right; right
    refine ⟨u, hu, by linarith, ?_⟩
    have : w = 1 - u := by linarith
    subst this
    apply V3.eq_of <;> simp only [lerp, comb3] <;> ring
  · left
    refine ⟨v, hv, by linarith, ?_⟩
    have : u = 1 - v := by linarith
    subst this
    apply V3.eq_of <;> simp only [lerp, comb3] <;> ring

/-! ## the edge fall-back -/

theorem tri3Edges_eq (p0 p1 p2 x : V3 ℝ) :
    tri3Edges p0 p1 p2 x = min (min (dist2seg p0 p1 x) (dist2seg p1 p2 x)) (dist2seg p2 p0 x) := by
  unfold tri3Edges
  simp only [cmin_eq]

theorem tri3Edges_attained (p0 p1 p2 x : V3 ℝ) :
    ∃ y, (OnSeg p0 p1 y ∨ OnSeg p1 p2 y ∨ OnSeg p2 p0 y) ∧ tri3Edges p0 p1 p2 x = edist x y := by
  rw [tri3Edges_eq]
  obtain ⟨y0, hy0, e0⟩ := dist2seg_attained p0 p1 x
  obtain ⟨y1, hy1, e1⟩ := dist2seg_attained p1 p2 x
  obtain ⟨y2, hy2, e2⟩ := dist2seg_attained p2 p0 x
  rcases min_choice (min (dist2seg p0 p1 x) (dist2seg p1 p2 x)) (dist2seg p2 p0 x) with h | h
  · rcases min_choice (dist2seg p0 p1 x) (dist2seg p1 p2 x) with h' | h'
    · exact ⟨y0, Or.inl hy0, by rw [h, h', e0]⟩
    · exact ⟨y1, Or.inr (Or.inl hy1), by rw [h, h', e1]⟩
  · exact ⟨y2, Or.inr (Or.inr hy2), by rw [h, e2]⟩

/-! ## the interior branch -/

/-- facts available in the interior branch: `T ≠ 0`, the normalised weights are a convex combination -/
theorem triInterior_facts {p0 p1 p2 x : V3 ℝ} (h : TriInterior p0 p1 p2 x) :
    rdot (nrm p0 p1 p2) (nrm p0 p1 p2) ≠ 0 ∧
    0 ≤ (baryR p0 p1 p2 x).x / rdot (nrm p0 p1 p2) (nrm p0 p1 p2) ∧
    0 ≤ (baryR p0 p1 p2 x).y / rdot (nrm p0 p1 p2) (nrm p0 p1 p2) ∧
    0 ≤ (baryR p0 p1 p2 x).z / rdot (nrm p0 p1 p2) (nrm p0 p1 p2) := by
  obtain ⟨h1, h2⟩ := h
  simp only [Bool.and_eq_true, le_iff] at h1 h2
  exact ⟨divisible_ne_zero h1.1.1, h2.1.1, h2.1.2, h2.2⟩

theorem bary_div_sum {p0 p1 p2 x : V3 ℝ} (hT : rdot (nrm p0 p1 p2) (nrm p0 p1 p2) ≠ 0) :
    (baryR p0 p1 p2 x).x / rdot (nrm p0 p1 p2) (nrm p0 p1 p2) +
    (baryR p0 p1 p2 x).y / rdot (nrm p0 p1 p2) (nrm p0 p1 p2) +
    (baryR p0 p1 p2 x).z / rdot (nrm p0 p1 p2) (nrm p0 p1 p2) = 1 := by
  rw [← add_div, ← add_div, baryR_sum, div_self hT]

/-- the orthogonal foot `y* = Σ (bᵢ/T) pᵢ` : Pythagoras against every point of the plane of the triangle -/
theorem sqd_foot_pythagoras {p0 p1 p2 x : V3 ℝ} (hT : rdot (nrm p0 p1 p2) (nrm p0 p1 p2) ≠ 0)
    (u v w : ℝ) (hs : u + v + w = 1) :
    sqd x (comb3 p0 p1 p2 u v w) =
      sqd x (comb3 p0 p1 p2
          ((baryR p0 p1 p2 x).x / rdot (nrm p0 p1 p2) (nrm p0 p1 p2))
          ((baryR p0 p1 p2 x).y / rdot (nrm p0 p1 p2) (nrm p0 p1 p2))
          ((baryR p0 p1 p2 x).z / rdot (nrm p0 p1 p2) (nrm p0 p1 p2))) +
      sqd (comb3 p0 p1 p2
          ((baryR p0 p1 p2 x).x / rdot (nrm p0 p1 p2) (nrm p0 p1 p2))
          ((baryR p0 p1 p2 x).y / rdot (nrm p0 p1 p2) (nrm p0 p1 p2))
          ((baryR p0 p1 p2 x).z / rdot (nrm p0 p1 p2) (nrm p0 p1 p2))) (comb3 p0 p1 p2 u v w) := by
  have hsum := bary_div_sum (x := x) hT
  obtain ⟨f1, f2, f3⟩ := baryR_proj p0 p1 p2 x
  have n1 := nrm_perp1 p0 p1 p2
  have n2 := nrm_perp2 p0 p1 p2
  set T := rdot (nrm p0 p1 p2) (nrm p0 p1 p2) with hTdef
  set b := baryR p0 p1 p2 x with hb
  set N := nrm p0 p1 p2 with hN
  set τ := rdot ⟨x.x - p0.x, x.y - p0.y, x.z - p0.z⟩ N with hτ
  have e0 : b.x / T * T = b.x := div_mul_cancel₀ _ hT
  have e1 : b.y / T * T = b.y := div_mul_cancel₀ _ hT
  have e2 : b.z / T * T = b.z := div_mul_cancel₀ _ hT
  generalize b.x / T = β0 at *
  generalize b.y / T = β1 at *
  generalize b.z / T = β2 at *
  -- orthogonality of (y* - x) to both edge vectors, multiplied by T
  have o1 : T * ((β0 * p0.x + β1 * p1.x + β2 * p2.x - x.x) * (p1.x - p0.x) +
      (β0 * p0.y + β1 * p1.y + β2 * p2.y - x.y) * (p1.y - p0.y) +
      (β0 * p0.z + β1 * p1.z + β2 * p2.z - x.z) * (p1.z - p0.z)) = 0 := by
    linear_combination (-(p1.x - p0.x)) * f1 + (-(p1.y - p0.y)) * f2 + (-(p1.z - p0.z)) * f3 + (-τ) * n1 +
      (p0.x * (p1.x - p0.x) + p0.y * (p1.y - p0.y) + p0.z * (p1.z - p0.z)) * e0 +
      (p1.x * (p1.x - p0.x) + p1.y * (p1.y - p0.y) + p1.z * (p1.z - p0.z)) * e1 +
      (p2.x * (p1.x - p0.x) + p2.y * (p1.y - p0.y) + p2.z * (p1.z - p0.z)) * e2
  have o2 : T * ((β0 * p0.x + β1 * p1.x + β2 * p2.x - x.x) * (p2.x - p0.x) +
      (β0 * p0.y + β1 * p1.y + β2 * p2.y - x.y) * (p2.y - p0.y) +
      (β0 * p0.z + β1 * p1.z + β2 * p2.z - x.z) * (p2.z - p0.z)) = 0 := by
    linear_combination (-(p2.x - p0.x)) * f1 + (-(p2.y - p0.y)) * f2 + (-(p2.z - p0.z)) * f3 + (-τ) * n2 +
      (p0.x * (p2.x - p0.x) + p0.y * (p2.y - p0.y) + p0.z * (p2.z - p0.z)) * e0 +
      (p1.x * (p2.x - p0.x) + p1.y * (p2.y - p0.y) + p1.z * (p2.z - p0.z)) * e1 +
      (p2.x * (p2.x - p0.x) + p2.y * (p2.y - p0.y) + p2.z * (p2.z - p0.z)) * e2
  have o1' := (mul_eq_zero.mp o1).resolve_left hT
  have o2' := (mul_eq_zero.mp o2).resolve_left hT
  have hu : u = 1 - v - w := by linarith
  have hβ : β0 = 1 - β1 - β2 := by linarith
  subst hu
  subst hβ
  unfold sqd comb3
  linear_combination (2 * (v - β1)) * o1' + (2 * (w - β2)) * o2'

/-- in the interior branch the value is the distance to the orthogonal foot, hence ≤ the distance to any
    point of the plane of the triangle -/
theorem dist2triWith_interior_le (foot : V3 ℝ → V3 ℝ → V3 ℝ → V3 ℝ → V3 ℝ) (hf : FootAlongNormal foot)
    {p0 p1 p2 x : V3 ℝ} (h : TriInterior p0 p1 p2 x) (u v w : ℝ) (hs : u + v + w = 1) :
    dist2triWith foot p0 p1 p2 x ≤ edist x (comb3 p0 p1 p2 u v w) := by
  rw [(dist2triWith_cases foot hf p0 p1 p2 x).1 h]
  apply edist_le_of_sqd_le
  rw [sqd_foot_pythagoras (triInterior_facts h).1 u v w hs]
  linarith [sqd_nonneg (comb3 p0 p1 p2
          ((baryR p0 p1 p2 x).x / rdot (nrm p0 p1 p2) (nrm p0 p1 p2))
          ((baryR p0 p1 p2 x).y / rdot (nrm p0 p1 p2) (nrm p0 p1 p2))
          ((baryR p0 p1 p2 x).z / rdot (nrm p0 p1 p2) (nrm p0 p1 p2))) (comb3 p0 p1 p2 u v w)]

/-- the value of `ref_search_distance3` is the distance to a point of the triangle (every branch) -/
theorem dist2triWith_attained (foot : V3 ℝ → V3 ℝ → V3 ℝ → V3 ℝ → V3 ℝ) (hf : FootAlongNormal foot)
    (p0 p1 p2 x : V3 ℝ) : ∃ y, InTri p0 p1 p2 y ∧ dist2triWith foot p0 p1 p2 x = edist x y := by
  by_cases h : TriInterior p0 p1 p2 x
  · obtain ⟨hT, h0, h1, h2⟩ := triInterior_facts h
    exact ⟨_, ⟨_, _, _, h0, h1, h2, bary_div_sum hT, rfl⟩, (dist2triWith_cases foot hf p0 p1 p2 x).1 h⟩
  · rw [(dist2triWith_cases foot hf p0 p1 p2 x).2 h]
    obtain ⟨y, hy, e⟩ := tri3Edges_attained p0 p1 p2 x
    refine ⟨y, ?_, e⟩
    rcases hy with hy | hy | hy
    · exact inTri_of_onSeg01 hy
    · exact inTri_of_onSeg12 hy
    · exact inTri_of_onSeg20 hy

theorem dist2triWith_nonneg (foot : V3 ℝ → V3 ℝ → V3 ℝ → V3 ℝ → V3 ℝ) (hf : FootAlongNormal foot)
    (p0 p1 p2 x : V3 ℝ) : 0 ≤ dist2triWith foot p0 p1 p2 x := by
  obtain ⟨y, _, h⟩ := dist2triWith_attained foot hf p0 p1 p2 x
  rw [h]; exact edist_nonneg _ _

/-! ## leaving the simplex along a direction -/

/-- from a point `w ≥ 0` move along `δ` (some `δᵢ < 0`) until the first weight vanishes -/
theorem exit_simplex (w δ : Fin 3 → ℝ) (hw : ∀ i, 0 ≤ w i) (hneg : ∃ i, δ i < 0) :
    ∃ s : ℝ, 0 ≤ s ∧ (∀ i, 0 ≤ w i + s * δ i) ∧ (∃ i, w i + s * δ i = 0) ∧
      (∀ i, δ i < 0 → s * (-δ i) ≤ w i) := by
  classical
  obtain ⟨i0, hi0⟩ := hneg
  have hne : (Finset.univ.filter (fun i => δ i < 0)).Nonempty := ⟨i0, by simp [hi0]⟩
  obtain ⟨i, hi, hmin⟩ := Finset.exists_min_image _ (fun i => w i / (-δ i)) hne
  simp only [Finset.mem_filter, Finset.mem_univ, true_and] at hi hmin
  have hs0 : 0 ≤ w i / (-δ i) := div_nonneg (hw i) (by linarith)
  have hle : ∀ j, δ j < 0 → w i / (-δ i) * (-δ j) ≤ w j := by
    intro j hj
    have h1 := hmin j hj
    have hpos : 0 < -δ j := by linarith
    rwa [le_div_iff₀ hpos] at h1
  refine ⟨w i / (-δ i), hs0, ?_, ⟨i, ?_⟩, hle⟩
  · intro j
    by_cases hj : δ j < 0
    · linarith [hle j hj]
    · have : 0 ≤ w i / (-δ i) * δ j := mul_nonneg hs0 (not_lt.mp hj)
      linarith [hw j]
  · have hne : δ i ≠ 0 := by linarith
    have : w i / (-δ i) * δ i = -w i := by
      rw [div_mul_eq_mul_div, div_eq_iff (neg_ne_zero.mpr hne)]; ring
    linarith

end Refine.Lemmas.Search
