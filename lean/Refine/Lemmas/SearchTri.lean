import Refine.Lemmas.SearchGeom

/-!
  Lemmas for C12, point–triangle kernel `dist2triWith foot` (`ref_search_distance3`), exact arithmetic.
  Everything is proved for any `foot` that moves the query along the triangle normal
  (`FootAlongNormal`): both the code in /repo today (`tri3Foot`, un-normalised normal) and the candidate
  repair (`tri3FootFixed`) are of that form, because the barycentric numerators do not see the normal
  component of the foot.
-/
namespace Refine.Lemmas.Search
open Refine Refine.Model.Geom Refine.Model.Search Refine.ScalarReal

/-- `(p1-p0) × (p2-p0)` in real arithmetic -/
def nrm (p0 p1 p2 : V3 ℝ) : V3 ℝ :=
  ⟨(p1.y - p0.y) * (p2.z - p0.z) - (p1.z - p0.z) * (p2.y - p0.y),
   (p1.z - p0.z) * (p2.x - p0.x) - (p1.x - p0.x) * (p2.z - p0.z),
   (p1.x - p0.x) * (p2.y - p0.y) - (p1.y - p0.y) * (p2.x - p0.x)⟩

def rdot (a b : V3 ℝ) : ℝ := a.x * b.x + a.y * b.y + a.z * b.z

/-- `x - σ M` -/
def shiftN (x : V3 ℝ) (σ : ℝ) (M : V3 ℝ) : V3 ℝ := ⟨x.x - σ * M.x, x.y - σ * M.y, x.z - σ * M.z⟩

theorem xyzNormal_eq (p0 p1 p2 : V3 ℝ) : xyzNormal p0 p1 p2 = nrm p0 p1 p2 := by
  simp only [xyzNormal, cross, vsub, nrm, sub_eq, mul_eq]

theorem dot_eq (a b : V3 ℝ) : dot a b = rdot a b := by
  simp only [dot, rdot, add_eq, mul_eq]

/-- the barycentric numerators in real arithmetic -/
def baryR (p0 p1 p2 xp : V3 ℝ) : V3 ℝ :=
  ⟨rdot (nrm xp p1 p2) (nrm p0 p1 p2), rdot (nrm p0 xp p2) (nrm p0 p1 p2), rdot (nrm p0 p1 xp) (nrm p0 p1 p2)⟩

theorem tri3BaryAt_eq (p0 p1 p2 xp : V3 ℝ) : tri3BaryAt p0 p1 p2 xp = baryR p0 p1 p2 xp := by
  simp only [tri3BaryAt, baryR, xyzNormal_eq, dot_eq]

/-- a foot that differs from the query by a multiple of the triangle normal -/
def FootAlongNormal (foot : V3 ℝ → V3 ℝ → V3 ℝ → V3 ℝ → V3 ℝ) : Prop :=
  ∀ p0 p1 p2 x, ∃ σ : ℝ, foot p0 p1 p2 x = shiftN x σ (nrm p0 p1 p2)

theorem tri3Foot_along : FootAlongNormal tri3Foot := by
  intro p0 p1 p2 x
  refine ⟨rdot ⟨x.x - p0.x, x.y - p0.y, x.z - p0.z⟩ (nrm p0 p1 p2), ?_⟩
  simp only [tri3Foot, xyzNormal_eq, dot_eq, vsub, sub_eq, add_eq, mul_eq, shiftN]
  generalize rdot _ _ = τ
  generalize nrm p0 p1 p2 = M
  apply V3.eq_of <;> ring

theorem tri3FootFixed_along : FootAlongNormal tri3FootFixed := by
  intro p0 p1 p2 x
  simp only [tri3FootFixed, xyzNormal_eq, dot_eq, vsub, sub_eq, add_eq, mul_eq, div_eq, shiftN]
  generalize rdot ⟨x.x - p0.x, x.y - p0.y, x.z - p0.z⟩ (nrm p0 p1 p2) = τ
  generalize (if Scalar.divisible τ (rdot (nrm p0 p1 p2) (nrm p0 p1 p2)) = true then
    τ / rdot (nrm p0 p1 p2) (nrm p0 p1 p2) else τ) = σ
  generalize nrm p0 p1 p2 = M
  refine ⟨σ, ?_⟩
  apply V3.eq_of <;> ring

set_option linter.unreachableTactic false in
set_option linter.unusedTactic false in
/-- whichever of the two foots the model of /repo currently uses -/
theorem tri3FootRepo_along : FootAlongNormal tri3FootRepo := by
  intro p0 p1 p2 x
  unfold tri3FootRepo
  first
    | exact tri3Foot_along p0 p1 p2 x
    | exact tri3FootFixed_along p0 p1 p2 x

/-- the numerators are blind to the normal component of the foot -/
theorem baryR_shift (p0 p1 p2 x : V3 ℝ) (σ : ℝ) :
    baryR p0 p1 p2 (shiftN x σ (nrm p0 p1 p2)) = baryR p0 p1 p2 x := by
  unfold baryR
  generalize nrm p0 p1 p2 = M
  apply V3.eq_of <;> (show rdot _ _ = rdot _ _) <;> unfold rdot nrm shiftN <;> ring

/-- the numerators sum to `|N|²` -/
theorem baryR_sum (p0 p1 p2 xp : V3 ℝ) :
    (baryR p0 p1 p2 xp).x + (baryR p0 p1 p2 xp).y + (baryR p0 p1 p2 xp).z =
      rdot (nrm p0 p1 p2) (nrm p0 p1 p2) := by
  have key : ∀ M : V3 ℝ, rdot (nrm xp p1 p2) M + rdot (nrm p0 xp p2) M + rdot (nrm p0 p1 xp) M =
      rdot (nrm p0 p1 p2) M := by
    intro M; unfold rdot nrm; ring
  exact key _

/-- `|N|² x - Σ bᵢ pᵢ = ((x-p0)·N) N` : the weighted vertex sum is `|N|²` times the orthogonal projection -/
theorem baryR_proj (p0 p1 p2 x : V3 ℝ) :
    let N := nrm p0 p1 p2
    let b := baryR p0 p1 p2 x
    let τ := rdot ⟨x.x - p0.x, x.y - p0.y, x.z - p0.z⟩ N
    rdot N N * x.x - (b.x * p0.x + b.y * p1.x + b.z * p2.x) = τ * N.x ∧
    rdot N N * x.y - (b.x * p0.y + b.y * p1.y + b.z * p2.y) = τ * N.y ∧
    rdot N N * x.z - (b.x * p0.z + b.y * p1.z + b.z * p2.z) = τ * N.z := by
  refine ⟨?_, ?_, ?_⟩ <;> (unfold baryR rdot nrm) <;> ring

theorem nrm_perp1 (p0 p1 p2 : V3 ℝ) :
    (nrm p0 p1 p2).x * (p1.x - p0.x) + (nrm p0 p1 p2).y * (p1.y - p0.y) + (nrm p0 p1 p2).z * (p1.z - p0.z) = 0 := by
  unfold nrm; ring

theorem nrm_perp2 (p0 p1 p2 : V3 ℝ) :
    (nrm p0 p1 p2).x * (p2.x - p0.x) + (nrm p0 p1 p2).y * (p2.y - p0.y) + (nrm p0 p1 p2).z * (p2.z - p0.z) = 0 := by
  unfold nrm; ring

/-- the interior-branch test of `ref_search_distance3` -/
def TriInterior (p0 p1 p2 x : V3 ℝ) : Prop :=
  (Scalar.divisible (baryR p0 p1 p2 x).x (rdot (nrm p0 p1 p2) (nrm p0 p1 p2)) &&
    Scalar.divisible (baryR p0 p1 p2 x).y (rdot (nrm p0 p1 p2) (nrm p0 p1 p2)) &&
    Scalar.divisible (baryR p0 p1 p2 x).z (rdot (nrm p0 p1 p2) (nrm p0 p1 p2))) = true ∧
  (Scalar.le (0 : ℝ) ((baryR p0 p1 p2 x).x / rdot (nrm p0 p1 p2) (nrm p0 p1 p2)) &&
    Scalar.le (0 : ℝ) ((baryR p0 p1 p2 x).y / rdot (nrm p0 p1 p2) (nrm p0 p1 p2)) &&
    Scalar.le (0 : ℝ) ((baryR p0 p1 p2 x).z / rdot (nrm p0 p1 p2) (nrm p0 p1 p2))) = true

theorem dist2triWith_cases (foot : V3 ℝ → V3 ℝ → V3 ℝ → V3 ℝ → V3 ℝ) (hf : FootAlongNormal foot)
    (p0 p1 p2 x : V3 ℝ) :
    (TriInterior p0 p1 p2 x →
      dist2triWith foot p0 p1 p2 x = edist x (comb3 p0 p1 p2
          ((baryR p0 p1 p2 x).x / rdot (nrm p0 p1 p2) (nrm p0 p1 p2))
          ((baryR p0 p1 p2 x).y / rdot (nrm p0 p1 p2) (nrm p0 p1 p2))
          ((baryR p0 p1 p2 x).z / rdot (nrm p0 p1 p2) (nrm p0 p1 p2)))) ∧
    (¬ TriInterior p0 p1 p2 x → dist2triWith foot p0 p1 p2 x = tri3Edges p0 p1 p2 x) := by
  obtain ⟨σ, hσ⟩ := hf p0 p1 p2 x
  unfold dist2triWith TriInterior
  simp only [hσ, tri3BaryAt_eq, baryR_shift, baryR_sum, add_eq, sub_eq, mul_eq, div_eq, sqrt_eq, zero_eq,
    Scalar.bge, dot]
  constructor
  · intro h
    rw [if_pos h.1, if_pos h.2]
    unfold edist sqd comb3
    congr 1
    ring
  · intro h
    by_cases h1 : (Scalar.divisible (baryR p0 p1 p2 x).x (rdot (nrm p0 p1 p2) (nrm p0 p1 p2)) &&
        Scalar.divisible (baryR p0 p1 p2 x).y (rdot (nrm p0 p1 p2) (nrm p0 p1 p2)) &&
        Scalar.divisible (baryR p0 p1 p2 x).z (rdot (nrm p0 p1 p2) (nrm p0 p1 p2))) = true
    · rw [if_pos h1, if_neg (fun h2 => h ⟨h1, h2⟩)]
    · rw [if_neg h1]

/-! ## points of edges are points of the triangle -/

theorem inTri_of_onSeg01 {p0 p1 p2 y : V3 ℝ} (h : OnSeg p0 p1 y) : InTri p0 p1 p2 y := by
  obtain ⟨t, h0, h1, rfl⟩ := h
  refine ⟨1 - t, t, 0, by linarith, h0, le_refl _, by ring, ?_⟩
  apply V3.eq_of <;> simp only [lerp, comb3] <;> ring

theorem inTri_of_onSeg12 {p0 p1 p2 y : V3 ℝ} (h : OnSeg p1 p2 y) : InTri p0 p1 p2 y := by
  obtain ⟨t, h0, h1, rfl⟩ := h
  refine ⟨0, 1 - t, t, le_refl _, by linarith, h0, by ring, ?_⟩
  apply V3.eq_of <;> simp only [lerp, comb3] <;> ring

theorem inTri_of_onSeg20 {p0 p1 p2 y : V3 ℝ} (h : OnSeg p2 p0 y) : InTri p0 p1 p2 y := by
  obtain ⟨t, h0, h1, rfl⟩ := h
  refine ⟨t, 0, 1 - t, h0, le_refl _, by linarith, by ring, ?_⟩
  apply V3.eq_of <;> simp only [lerp, comb3] <;> ring

/-- a convex combination with a vanishing weight lies on the opposite edge -/
theorem onEdge_of_zero_weight (p0 p1 p2 : V3 ℝ) (u v w : ℝ) (hu : 0 ≤ u) (hv : 0 ≤ v) (hw : 0 ≤ w)
    (hs : u + v + w = 1) (hz : u = 0 ∨ v = 0 ∨ w = 0) :
    OnSeg p0 p1 (comb3 p0 p1 p2 u v w) ∨ OnSeg p1 p2 (comb3 p0 p1 p2 u v w) ∨
      OnSeg p2 p0 (comb3 p0 p1 p2 u v w) := by
  rcases hz with rfl | rfl | rfl
  · right; left
    refine ⟨w, hw, by linarith, ?_⟩
    have : v = 1 - w := by linarith
    subst this
    apply V3.eq_of <;> simp only [lerp, comb3] <;> ring
  · right; right
    refine ⟨u, hu, by linarith, ?_⟩
    have : w = 1 - u := by linarith
    subst this
    apply V3.eq_of <;> simp only [lerp, comb3] <;> ring
  · left
    refine ⟨v, hv, by linarith, ?_⟩
    have : u = 1 - v := by linarith
    subst this
    apply V3.eq_of <;> simp only [lerp, comb3] <;> ring

/-! ## the edge fall-back -/

theorem tri3Edges_eq (p0 p1 p2 x : V3 ℝ) :
    tri3Edges p0 p1 p2 x = min (min (dist2seg p0 p1 x) (dist2seg p1 p2 x)) (dist2seg p2 p0 x) := by
  unfold tri3Edges
  simp only [cmin_eq]

theorem tri3Edges_attained (p0 p1 p2 x : V3 ℝ) :
    ∃ y, (OnSeg p0 p1 y ∨ OnSeg p1 p2 y ∨ OnSeg p2 p0 y) ∧ tri3Edges p0 p1 p2 x = edist x y := by
  rw [tri3Edges_eq]
  obtain ⟨y0, hy0, e0⟩ := dist2seg_attained p0 p1 x
  obtain ⟨y1, hy1, e1⟩ := dist2seg_attained p1 p2 x
  obtain ⟨y2, hy2, e2⟩ := dist2seg_attained p2 p0 x
  rcases min_choice (min (dist2seg p0 p1 x) (dist2seg p1 p2 x)) (dist2seg p2 p0 x) with h | h
  · rcases min_choice (dist2seg p0 p1 x) (dist2seg p1 p2 x) with h' | h'
    · exact ⟨y0, Or.inl hy0, by rw [h, h', e0]⟩
    · exact ⟨y1, Or.inr (Or.inl hy1), by rw [h, h', e1]⟩
  · exact ⟨y2, Or.inr (Or.inr hy2), by rw [h, e2]⟩

/-! ## the interior branch -/

/-- facts available in the interior branch: `T ≠ 0`, the normalised weights are a convex combination -/
theorem triInterior_facts {p0 p1 p2 x : V3 ℝ} (h : TriInterior p0 p1 p2 x) :
    rdot (nrm p0 p1 p2) (nrm p0 p1 p2) ≠ 0 ∧
    0 ≤ (baryR p0 p1 p2 x).x / rdot (nrm p0 p1 p2) (nrm p0 p1 p2) ∧
    0 ≤ (baryR p0 p1 p2 x).y / rdot (nrm p0 p1 p2) (nrm p0 p1 p2) ∧
    0 ≤ (baryR p0 p1 p2 x).z / rdot (nrm p0 p1 p2) (nrm p0 p1 p2) := by
  obtain ⟨h1, h2⟩ := h
  simp only [Bool.and_eq_true, le_iff] at h1 h2
  exact ⟨divisible_ne_zero h1.1.1, h2.1.1, h2.1.2, h2.2⟩

theorem bary_div_sum {p0 p1 p2 x : V3 ℝ} (hT : rdot (nrm p0 p1 p2) (nrm p0 p1 p2) ≠ 0) :
    (baryR p0 p1 p2 x).x / rdot (nrm p0 p1 p2) (nrm p0 p1 p2) +
    (baryR p0 p1 p2 x).y / rdot (nrm p0 p1 p2) (nrm p0 p1 p2) +
    (baryR p0 p1 p2 x).z / rdot (nrm p0 p1 p2) (nrm p0 p1 p2) = 1 := by
  rw [← add_div, ← add_div, baryR_sum, div_self hT]

/-- the orthogonal foot `y* = Σ (bᵢ/T) pᵢ` : Pythagoras against every point of the plane of the triangle -/
theorem sqd_foot_pythagoras {p0 p1 p2 x : V3 ℝ} (hT : rdot (nrm p0 p1 p2) (nrm p0 p1 p2) ≠ 0)
    (u v w : ℝ) (hs : u + v + w = 1) :
    sqd x (comb3 p0 p1 p2 u v w) =
      sqd x (comb3 p0 p1 p2
          ((baryR p0 p1 p2 x).x / rdot (nrm p0 p1 p2) (nrm p0 p1 p2))
          ((baryR p0 p1 p2 x).y / rdot (nrm p0 p1 p2) (nrm p0 p1 p2))
          ((baryR p0 p1 p2 x).z / rdot (nrm p0 p1 p2) (nrm p0 p1 p2))) +
      sqd (comb3 p0 p1 p2
          ((baryR p0 p1 p2 x).x / rdot (nrm p0 p1 p2) (nrm p0 p1 p2))
          ((baryR p0 p1 p2 x).y / rdot (nrm p0 p1 p2) (nrm p0 p1 p2))
          ((baryR p0 p1 p2 x).z / rdot (nrm p0 p1 p2) (nrm p0 p1 p2))) (comb3 p0 p1 p2 u v w) := by
  have hsum := bary_div_sum (x := x) hT
  obtain ⟨f1, f2, f3⟩ := baryR_proj p0 p1 p2 x
  have n1 := nrm_perp1 p0 p1 p2
  have n2 := nrm_perp2 p0 p1 p2
  set T := rdot (nrm p0 p1 p2) (nrm p0 p1 p2) with hTdef
  set b := baryR p0 p1 p2 x with hb
  set N := nrm p0 p1 p2 with hN
  set τ := rdot ⟨x.x - p0.x, x.y - p0.y, x.z - p0.z⟩ N with hτ
  have e0 : b.x / T * T = b.x := div_mul_cancel₀ _ hT
  have e1 : b.y / T * T = b.y := div_mul_cancel₀ _ hT
  have e2 : b.z / T * T = b.z := div_mul_cancel₀ _ hT
  generalize b.x / T = β0 at *
  generalize b.y / T = β1 at *
  generalize b.z / T = β2 at *
  -- orthogonality of (y* - x) to both edge vectors, multiplied by T
  have o1 : T * ((β0 * p0.x + β1 * p1.x + β2 * p2.x - x.x) * (p1.x - p0.x) +
      (β0 * p0.y + β1 * p1.y + β2 * p2.y - x.y) * (p1.y - p0.y) +
      (β0 * p0.z + β1 * p1.z + β2 * p2.z - x.z) * (p1.z - p0.z)) = 0 := by
    linear_combination (-(p1.x - p0.x)) * f1 + (-(p1.y - p0.y)) * f2 + (-(p1.z - p0.z)) * f3 + (-τ) * n1 +
      (p0.x * (p1.x - p0.x) + p0.y * (p1.y - p0.y) + p0.z * (p1.z - p0.z)) * e0 +
      (p1.x * (p1.x - p0.x) + p1.y * (p1.y - p0.y) + p1.z * (p1.z - p0.z)) * e1 +
      (p2.x * (p1.x - p0.x) + p2.y * (p1.y - p0.y) + p2.z * (p1.z - p0.z)) * e2
  have o2 : T * ((β0 * p0.x + β1 * p1.x + β2 * p2.x - x.x) * (p2.x - p0.x) +
      (β0 * p0.y + β1 * p1.y + β2 * p2.y - x.y) * (p2.y - p0.y) +
      (β0 * p0.z + β1 * p1.z + β2 * p2.z - x.z) * (p2.z - p0.z)) = 0 := by
    linear_combination (-(p2.x - p0.x)) * f1 + (-(p2.y - p0.y)) * f2 + (-(p2.z - p0.z)) * f3 + (-τ) * n2 +
      (p0.x * (p2.x - p0.x) + p0.y * (p2.y - p0.y) + p0.z * (p2.z - p0.z)) * e0 +
      (p1.x * (p2.x - p0.x) + p1.y * (p2.y - p0.y) + p1.z * (p2.z - p0.z)) * e1 +
      (p2.x * (p2.x - p0.x) + p2.y * (p2.y - p0.y) + p2.z * (p2.z - p0.z)) * e2
  have o1' := (mul_eq_zero.mp o1).resolve_left hT
  have o2' := (mul_eq_zero.mp o2).resolve_left hT
  have hu : u = 1 - v - w := by linarith
  have hβ : β0 = 1 - β1 - β2 := by linarith
  subst hu
  subst hβ
  unfold sqd comb3
  linear_combination (2 * (v - β1)) * o1' + (2 * (w - β2)) * o2'

/-- in the interior branch the value is the distance to the orthogonal foot, hence ≤ the distance to any
    point of the plane of the triangle -/
theorem dist2triWith_interior_le (foot : V3 ℝ → V3 ℝ → V3 ℝ → V3 ℝ → V3 ℝ) (hf : FootAlongNormal foot)
    {p0 p1 p2 x : V3 ℝ} (h : TriInterior p0 p1 p2 x) (u v w : ℝ) (hs : u + v + w = 1) :
    dist2triWith foot p0 p1 p2 x ≤ edist x (comb3 p0 p1 p2 u v w) := by
  rw [(dist2triWith_cases foot hf p0 p1 p2 x).1 h]
  apply edist_le_of_sqd_le
  rw [sqd_foot_pythagoras (triInterior_facts h).1 u v w hs]
  linarith [sqd_nonneg (comb3 p0 p1 p2
          ((baryR p0 p1 p2 x).x / rdot (nrm p0 p1 p2) (nrm p0 p1 p2))
          ((baryR p0 p1 p2 x).y / rdot (nrm p0 p1 p2) (nrm p0 p1 p2))
          ((baryR p0 p1 p2 x).z / rdot (nrm p0 p1 p2) (nrm p0 p1 p2))) (comb3 p0 p1 p2 u v w)]

/-- the value of `ref_search_distance3` is the distance to a point of the triangle (every branch) -/
theorem dist2triWith_attained (foot : V3 ℝ → V3 ℝ → V3 ℝ → V3 ℝ → V3 ℝ) (hf : FootAlongNormal foot)
    (p0 p1 p2 x : V3 ℝ) : ∃ y, InTri p0 p1 p2 y ∧ dist2triWith foot p0 p1 p2 x = edist x y := by
  by_cases h : TriInterior p0 p1 p2 x
  · obtain ⟨hT, h0, h1, h2⟩ := triInterior_facts h
    exact ⟨_, ⟨_, _, _, h0, h1, h2, bary_div_sum hT, rfl⟩, (dist2triWith_cases foot hf p0 p1 p2 x).1 h⟩
  · rw [(dist2triWith_cases foot hf p0 p1 p2 x).2 h]
    obtain ⟨y, hy, e⟩ := tri3Edges_attained p0 p1 p2 x
    refine ⟨y, ?_, e⟩
    rcases hy with hy | hy | hy
    · exact inTri_of_onSeg01 hy
    · exact inTri_of_onSeg12 hy
    · exact inTri_of_onSeg20 hy

theorem dist2triWith_nonneg (foot : V3 ℝ → V3 ℝ → V3 ℝ → V3 ℝ → V3 ℝ) (hf : FootAlongNormal foot)
    (p0 p1 p2 x : V3 ℝ) : 0 ≤ dist2triWith foot p0 p1 p2 x := by
  obtain ⟨y, _, h⟩ := dist2triWith_attained foot hf p0 p1 p2 x
  rw [h]; exact edist_nonneg _ _

/-! ## leaving the simplex along a direction -/

/-- from a point `w ≥ 0` move along `δ` (some `δᵢ < 0`) until the first weight vanishes -/
theorem exit_simplex (w δ : Fin 3 → ℝ) (hw : ∀ i, 0 ≤ w i) (hneg : ∃ i, δ i < 0) :
    ∃ s : ℝ, 0 ≤ s ∧ (∀ i, 0 ≤ w i + s * δ i) ∧ (∃ i, w i + s * δ i = 0) ∧
      (∀ i, δ i < 0 → s * (-δ i) ≤ w i) := by
  classical
  obtain ⟨i0, hi0⟩ := hneg
  have hne : (Finset.univ.filter (fun i => δ i < 0)).Nonempty := ⟨i0, by simp [hi0]⟩
  obtain ⟨i, hi, hmin⟩ := Finset.exists_min_image _ (fun i => w i / (-δ i)) hne
  simp only [Finset.mem_filter, Finset.mem_univ, true_and] at hi hmin
  have hs0 : 0 ≤ w i / (-δ i) := div_nonneg (hw i) (by linarith)
  have hle : ∀ j, δ j < 0 → w i / (-δ i) * (-δ j) ≤ w j := by
    intro j hj
    have h1 := hmin j hj
    have hpos : 0 < -δ j := by linarith
    rwa [le_div_iff₀ hpos] at h1
  refine ⟨w i / (-δ i), hs0, ?_, ⟨i, ?_⟩, hle⟩
  · intro j
    by_cases hj : δ j < 0
    · linarith [hle j hj]
    · have : 0 ≤ w i / (-δ i) * δ j := mul_nonneg hs0 (not_lt.mp hj)
      linarith [hw j]
  · have hne : δ i ≠ 0 := by linarith
    have : w i / (-δ i) * δ i = -w i := by
      rw [div_mul_eq_mul_div, div_eq_iff (neg_ne_zero.mpr hne)]; ring
    linarith

/-- `exit_simplex` for three explicit weights -/
theorem exit3 (w0 w1 w2 d0 d1 d2 : ℝ) (h0 : 0 ≤ w0) (h1 : 0 ≤ w1) (h2 : 0 ≤ w2)
    (hneg : d0 < 0 ∨ d1 < 0 ∨ d2 < 0) :
    ∃ s : ℝ, 0 ≤ s ∧ 0 ≤ w0 + s * d0 ∧ 0 ≤ w1 + s * d1 ∧ 0 ≤ w2 + s * d2 ∧
      (w0 + s * d0 = 0 ∨ w1 + s * d1 = 0 ∨ w2 + s * d2 = 0) ∧
      (d0 < 0 → s * (-d0) ≤ w0) ∧ (d1 < 0 → s * (-d1) ≤ w1) ∧ (d2 < 0 → s * (-d2) ≤ w2) := by
  have hw : ∀ i : Fin 3, 0 ≤ (![w0, w1, w2] : Fin 3 → ℝ) i := by
    intro i; fin_cases i <;> simp [h0, h1, h2]
  have hn : ∃ i : Fin 3, (![d0, d1, d2] : Fin 3 → ℝ) i < 0 := by
    rcases hneg with h | h | h
    · exact ⟨0, by simpa using h⟩
    · exact ⟨1, by simpa using h⟩
    · exact ⟨2, by simpa using h⟩
  obtain ⟨s, hs, hall, ⟨i, hi⟩, hlim⟩ := exit_simplex _ _ hw hn
  refine ⟨s, hs, by simpa using hall 0, by simpa using hall 1, by simpa using hall 2, ?_,
    by simpa using hlim 0, by simpa using hlim 1, by simpa using hlim 2⟩
  fin_cases i
  · left; simpa using hi
  · right; left; simpa using hi
  · right; right; simpa using hi

/-- outside the interior branch of a non-degenerate triangle, the orthogonal foot has a negative weight -/
theorem exists_neg_bary {p0 p1 p2 x : V3 ℝ} (hT : rdot (nrm p0 p1 p2) (nrm p0 p1 p2) ≠ 0)
    (hI : ¬ TriInterior p0 p1 p2 x) :
    (baryR p0 p1 p2 x).x / rdot (nrm p0 p1 p2) (nrm p0 p1 p2) < 0 ∨
    (baryR p0 p1 p2 x).y / rdot (nrm p0 p1 p2) (nrm p0 p1 p2) < 0 ∨
    (baryR p0 p1 p2 x).z / rdot (nrm p0 p1 p2) (nrm p0 p1 p2) < 0 := by
  by_contra hc
  simp only [not_or, not_lt] at hc
  obtain ⟨c0, c1, c2⟩ := hc
  have hsum := bary_div_sum (x := x) hT
  apply hI
  have hTabs : 0 < |rdot (nrm p0 p1 p2) (nrm p0 p1 p2)| := abs_pos.mpr hT
  have hdiv : ∀ β : ℝ, 0 ≤ β → β ≤ 1 →
      Scalar.divisible (β * rdot (nrm p0 p1 p2) (nrm p0 p1 p2)) (rdot (nrm p0 p1 p2) (nrm p0 p1 p2)) = true := by
    intro β hβ0 hβ1
    rw [divisible_iff]
    have h10 : (1 : ℝ) * (10 : ℝ) ^ (20 : ℤ) = 10 ^ 20 := by norm_num
    rw [h10, abs_mul, abs_mul, abs_of_nonneg hβ0, abs_of_pos (by positivity : (0 : ℝ) < 10 ^ 20)]
    have : β * |rdot (nrm p0 p1 p2) (nrm p0 p1 p2)| ≤ 1 * |rdot (nrm p0 p1 p2) (nrm p0 p1 p2)| :=
      mul_le_mul_of_nonneg_right hβ1 hTabs.le
    have h2 : (1 : ℝ) * |rdot (nrm p0 p1 p2) (nrm p0 p1 p2)| <
        10 ^ 20 * |rdot (nrm p0 p1 p2) (nrm p0 p1 p2)| :=
      mul_lt_mul_of_pos_right (by norm_num) hTabs
    linarith
  have e0 := div_mul_cancel₀ (baryR p0 p1 p2 x).x hT
  have e1 := div_mul_cancel₀ (baryR p0 p1 p2 x).y hT
  have e2 := div_mul_cancel₀ (baryR p0 p1 p2 x).z hT
  have d0 := hdiv _ c0 (by linarith)
  have d1 := hdiv _ c1 (by linarith)
  have d2 := hdiv _ c2 (by linarith)
  rw [e0] at d0
  rw [e1] at d1
  rw [e2] at d2
  unfold TriInterior
  simp only [Bool.and_eq_true, le_iff]
  exact ⟨⟨⟨d0, d1⟩, d2⟩, ⟨c0, c1⟩, c2⟩

/-- non-degenerate triangle, foot outside: every point of the triangle is at least as far from `x` as
    some boundary point (the exit point of the segment towards the foot) -/
theorem edge_point_nondegenerate {p0 p1 p2 x : V3 ℝ} (hT : rdot (nrm p0 p1 p2) (nrm p0 p1 p2) ≠ 0)
    (hI : ¬ TriInterior p0 p1 p2 x) (u v w : ℝ) (hu : 0 ≤ u) (hv : 0 ≤ v) (hw : 0 ≤ w) (hs : u + v + w = 1) :
    ∃ z, (OnSeg p0 p1 z ∨ OnSeg p1 p2 z ∨ OnSeg p2 p0 z) ∧ sqd x z ≤ sqd x (comb3 p0 p1 p2 u v w) := by
  have hneg := exists_neg_bary hT hI
  have hsum := bary_div_sum (x := x) hT
  have pyth := sqd_foot_pythagoras (x := x) hT
  generalize (baryR p0 p1 p2 x).x / rdot (nrm p0 p1 p2) (nrm p0 p1 p2) = β0 at *
  generalize (baryR p0 p1 p2 x).y / rdot (nrm p0 p1 p2) (nrm p0 p1 p2) = β1 at *
  generalize (baryR p0 p1 p2 x).z / rdot (nrm p0 p1 p2) (nrm p0 p1 p2) = β2 at *
  have hneg' : β0 - u < 0 ∨ β1 - v < 0 ∨ β2 - w < 0 := by
    rcases hneg with h | h | h
    · left; linarith
    · right; left; linarith
    · right; right; linarith
  obtain ⟨s, hs0, c0, c1, c2, hz, l0, l1, l2⟩ := exit3 u v w (β0 - u) (β1 - v) (β2 - w) hu hv hw hneg'
  have hs1 : s ≤ 1 := by
    rcases hneg with h | h | h
    · have := l0 (by linarith); nlinarith
    · have := l1 (by linarith); nlinarith
    · have := l2 (by linarith); nlinarith
  have hcs : (u + s * (β0 - u)) + (v + s * (β1 - v)) + (w + s * (β2 - w)) = 1 := by
    have : (u + s * (β0 - u)) + (v + s * (β1 - v)) + (w + s * (β2 - w)) =
        (u + v + w) + s * ((β0 + β1 + β2) - (u + v + w)) := by ring
    rw [this, hs, hsum]; ring
  refine ⟨comb3 p0 p1 p2 (u + s * (β0 - u)) (v + s * (β1 - v)) (w + s * (β2 - w)),
    onEdge_of_zero_weight p0 p1 p2 _ _ _ c0 c1 c2 hcs hz, ?_⟩
  rw [pyth _ _ _ hcs, pyth u v w hs]
  have hscale : sqd (comb3 p0 p1 p2 β0 β1 β2)
      (comb3 p0 p1 p2 (u + s * (β0 - u)) (v + s * (β1 - v)) (w + s * (β2 - w))) =
      (1 - s) ^ 2 * sqd (comb3 p0 p1 p2 β0 β1 β2) (comb3 p0 p1 p2 u v w) := by
    unfold sqd comb3; ring
  rw [hscale]
  have hq := sqd_nonneg (comb3 p0 p1 p2 β0 β1 β2) (comb3 p0 p1 p2 u v w)
  have h1s : (1 - s) ^ 2 ≤ 1 := by nlinarith
  nlinarith

/-- degenerate triangle (`N = 0`): every point of the triangle lies on one of its edges -/
theorem edge_point_degenerate {p0 p1 p2 : V3 ℝ} (hT : rdot (nrm p0 p1 p2) (nrm p0 p1 p2) = 0)
    (u v w : ℝ) (hu : 0 ≤ u) (hv : 0 ≤ v) (hw : 0 ≤ w) (hs : u + v + w = 1) :
    OnSeg p0 p1 (comb3 p0 p1 p2 u v w) ∨ OnSeg p1 p2 (comb3 p0 p1 p2 u v w) ∨
      OnSeg p2 p0 (comb3 p0 p1 p2 u v w) := by
  unfold rdot at hT
  have hNx : (nrm p0 p1 p2).x = 0 := mul_self_eq_zero.mp (le_antisymm
    (by nlinarith [mul_self_nonneg (nrm p0 p1 p2).y, mul_self_nonneg (nrm p0 p1 p2).z]) (mul_self_nonneg _))
  have hNy : (nrm p0 p1 p2).y = 0 := mul_self_eq_zero.mp (le_antisymm
    (by nlinarith [mul_self_nonneg (nrm p0 p1 p2).x, mul_self_nonneg (nrm p0 p1 p2).z]) (mul_self_nonneg _))
  have hNz : (nrm p0 p1 p2).z = 0 := mul_self_eq_zero.mp (le_antisymm
    (by nlinarith [mul_self_nonneg (nrm p0 p1 p2).x, mul_self_nonneg (nrm p0 p1 p2).y]) (mul_self_nonneg _))
  simp only [nrm] at hNx hNy hNz
  by_cases hU : segL p0 p1 = 0
  · -- p1 = p0 : the weight of p1 can be moved to p0
    unfold segL at hU
    have ex : p1.x - p0.x = 0 := mul_self_eq_zero.mp (le_antisymm
      (by nlinarith [mul_self_nonneg (p1.y - p0.y), mul_self_nonneg (p1.z - p0.z)]) (mul_self_nonneg _))
    have ey : p1.y - p0.y = 0 := mul_self_eq_zero.mp (le_antisymm
      (by nlinarith [mul_self_nonneg (p1.x - p0.x), mul_self_nonneg (p1.z - p0.z)]) (mul_self_nonneg _))
    have ez : p1.z - p0.z = 0 := mul_self_eq_zero.mp (le_antisymm
      (by nlinarith [mul_self_nonneg (p1.x - p0.x), mul_self_nonneg (p1.y - p0.y)]) (mul_self_nonneg _))
    have hy : comb3 p0 p1 p2 u v w = comb3 p0 p1 p2 (u + v) 0 w := by
      apply V3.eq_of <;> simp only [comb3]
      · linear_combination v * ex
      · linear_combination v * ey
      · linear_combination v * ez
    rw [hy]
    exact onEdge_of_zero_weight p0 p1 p2 _ _ _ (by linarith) (le_refl _) hw (by linarith) (Or.inr (Or.inl rfl))
  · have hUpos : 0 < segL p0 p1 := lt_of_le_of_ne (segL_nonneg _ _) (Ne.symm hU)
    -- null combination  a (p1-p0) + b (p2-p0) = 0  with  b = |p1-p0|² > 0
    set b := segL p0 p1 with hb
    set a := -((p1.x - p0.x) * (p2.x - p0.x) + (p1.y - p0.y) * (p2.y - p0.y) + (p1.z - p0.z) * (p2.z - p0.z)) with ha
    have nx : a * (p1.x - p0.x) + b * (p2.x - p0.x) = 0 := by
      rw [ha, hb]; unfold segL
      linear_combination (p1.z - p0.z) * hNy - (p1.y - p0.y) * hNz
    have ny : a * (p1.y - p0.y) + b * (p2.y - p0.y) = 0 := by
      rw [ha, hb]; unfold segL
      linear_combination (p1.x - p0.x) * hNz - (p1.z - p0.z) * hNx
    have nz : a * (p1.z - p0.z) + b * (p2.z - p0.z) = 0 := by
      rw [ha, hb]; unfold segL
      linear_combination (p1.y - p0.y) * hNx - (p1.x - p0.x) * hNy
    have hneg : -(a + b) < 0 ∨ a < 0 ∨ b < 0 := by
      by_cases h : a < 0
      · right; left; exact h
      · left; linarith [not_lt.mp h]
    obtain ⟨s, hs0, c0, c1, c2, hz, _, _, _⟩ := exit3 u v w (-(a + b)) a b hu hv hw hneg
    have hy : comb3 p0 p1 p2 u v w = comb3 p0 p1 p2 (u + s * (-(a + b))) (v + s * a) (w + s * b) := by
      apply V3.eq_of <;> simp only [comb3]
      · linear_combination (-s) * nx
      · linear_combination (-s) * ny
      · linear_combination (-s) * nz
    rw [hy]
    exact onEdge_of_zero_weight p0 p1 p2 _ _ _ c0 c1 c2 (by linarith) hz

/-- outside the interior branch some boundary point is at least as close to `x` as any given point of the
    triangle -/
theorem exists_edge_point_le {p0 p1 p2 x : V3 ℝ} (hI : ¬ TriInterior p0 p1 p2 x) (y : V3 ℝ)
    (hy : InTri p0 p1 p2 y) :
    ∃ z, (OnSeg p0 p1 z ∨ OnSeg p1 p2 z ∨ OnSeg p2 p0 z) ∧ edist x z ≤ edist x y := by
  obtain ⟨u, v, w, hu, hv, hw, hs, rfl⟩ := hy
  by_cases hT : rdot (nrm p0 p1 p2) (nrm p0 p1 p2) = 0
  · exact ⟨_, edge_point_degenerate hT u v w hu hv hw hs, le_refl _⟩
  · obtain ⟨z, hz, hle⟩ := edge_point_nondegenerate hT hI u v w hu hv hw hs
    exact ⟨z, hz, edist_le_of_sqd_le hle⟩

/-- relative slack of `ref_search_distance3`: the worst of its three edge calls -/
noncomputable def triSlack (p0 p1 p2 x : V3 ℝ) : ℝ :=
  min (min (segSlack p0 p1 x) (segSlack p1 p2 x)) (segSlack p2 p0 x)

theorem triSlack_le_one (p0 p1 p2 x : V3 ℝ) : triSlack p0 p1 p2 x ≤ 1 :=
  le_trans (min_le_right _ _) (segSlack_le_one _ _ _)

theorem triSlack_ge (p0 p1 p2 x : V3 ℝ) : 1 - eps20 ≤ triSlack p0 p1 p2 x :=
  le_min (le_min (segSlack_ge _ _ _) (segSlack_ge _ _ _)) (segSlack_ge _ _ _)

theorem triSlack_pos (p0 p1 p2 x : V3 ℝ) : 0 < triSlack p0 p1 p2 x :=
  lt_of_lt_of_le (by linarith [eps20_lt_one]) (triSlack_ge p0 p1 p2 x)

theorem triSlack_eq_one {p0 p1 p2 x : V3 ℝ} (h01 : SegGuard p0 p1 x ∨ p0 = p1)
    (h12 : SegGuard p1 p2 x ∨ p1 = p2) (h20 : SegGuard p2 p0 x ∨ p2 = p0) : triSlack p0 p1 p2 x = 1 := by
  unfold triSlack
  rw [segSlack_eq_one h01, segSlack_eq_one h12, segSlack_eq_one h20]
  simp

/-- full minimality of `ref_search_distance3` over the closed triangle, up to the slack of the
    `ref_math_divisible` guards in its edge calls -/
theorem dist2triWith_min (foot : V3 ℝ → V3 ℝ → V3 ℝ → V3 ℝ → V3 ℝ) (hf : FootAlongNormal foot)
    (p0 p1 p2 x y : V3 ℝ) (hy : InTri p0 p1 p2 y) :
    triSlack p0 p1 p2 x * dist2triWith foot p0 p1 p2 x ≤ edist x y := by
  have hv := dist2triWith_nonneg foot hf p0 p1 p2 x
  by_cases hI : TriInterior p0 p1 p2 x
  · obtain ⟨u, v, w, _, _, _, hs, rfl⟩ := hy
    have h1 := dist2triWith_interior_le foot hf hI u v w hs
    have h2 := triSlack_le_one p0 p1 p2 x
    nlinarith [triSlack_pos p0 p1 p2 x]
  · obtain ⟨z, hz, hle⟩ := exists_edge_point_le hI y hy
    refine le_trans ?_ hle
    rw [(dist2triWith_cases foot hf p0 p1 p2 x).2 hI, tri3Edges_eq]
    have n0 := dist2seg_nonneg p0 p1 x
    have n1 := dist2seg_nonneg p1 p2 x
    have n2 := dist2seg_nonneg p2 p0 x
    have hm : 0 ≤ min (min (dist2seg p0 p1 x) (dist2seg p1 p2 x)) (dist2seg p2 p0 x) :=
      le_min (le_min n0 n1) n2
    have tp := triSlack_pos p0 p1 p2 x
    rcases hz with hz | hz | hz
    · refine le_trans ?_ (segSlack_mul_le p0 p1 x z hz)
      exact mul_le_mul (le_trans (min_le_left _ _) (min_le_left _ _))
        (le_trans (min_le_left _ _) (min_le_left _ _)) hm (segSlack_pos _ _ _).le
    · refine le_trans ?_ (segSlack_mul_le p1 p2 x z hz)
      exact mul_le_mul (le_trans (min_le_left _ _) (min_le_right _ _))
        (le_trans (min_le_left _ _) (min_le_right _ _)) hm (segSlack_pos _ _ _).le
    · refine le_trans ?_ (segSlack_mul_le p2 p0 x z hz)
      exact mul_le_mul (min_le_right _ _) (min_le_right _ _) hm (segSlack_pos _ _ _).le

end Refine.Lemmas.Search
