import Refine.Lemmas.PhysDistWorld
import Refine.Props.C12

/-!
  The sphere tree of `Refine.Model.Search` as the search of the parallel wall distance, in exact arithmetic:
  for every insertion order that is a permutation of the chunk, `treeSearch` succeeds and returns the running
  minimum of the kernel values of the chunk's elements (`Props/C12`: `wallDistance_seg_exact`,
  `wallDistance_tri_exact`).
-/
namespace Refine.Lemmas.PhysDist
open Refine Refine.Model Refine.Model.Geom Refine.Model.Search Refine.Model.PhysDist Refine.ScalarReal
open Refine.Lemmas.Search
open Refine.Model.Comm (World)

/-! ## the construction loop succeeds (any scalar type) -/

section Build
variable {α : Type} [Scalar α]

theorem wallGo_ok (verts : Int → List (V3 α)) (perm : List Int) (s : Search α)
    (hroom : s.empty + perm.length ≤ s.n) (hpos : ∀ c ∈ perm, 0 ≤ c) :
    (wallBuild.go verts s perm).1 = Search.Status.ok := by
  induction perm generalizing s with
  | nil => rfl
  | cons c rest ih =>
    have hc := hpos c List.mem_cons_self
    simp only [List.length_cons] at hroom
    have h1 : ¬ s.empty ≥ s.n := by omega
    have h2 : ¬ c < 0 := by omega
    simp only [wallBuild.go, Search.insert, h1, h2, if_false]
    apply ih
    · simp only; omega
    · exact fun d hd => hpos d (List.mem_cons_of_mem _ hd)

theorem wallBuild_ok (n : Nat) (verts : Int → List (V3 α)) (perm : List Int) (hlen : perm.length ≤ n)
    (hpos : ∀ c ∈ perm, 0 ≤ c) : ∃ s, wallBuild (n : Int) verts perm = (Search.Status.ok, some s) := by
  unfold wallBuild Search.create
  have hn : ¬ ((n : Int) < 0) := by omega
  simp only [hn, if_false]
  have h := wallGo_ok verts perm (⟨(n : Int).toNat, 0, .nil⟩ : Search α) (by simp; omega) hpos
  generalize wallBuild.go verts (⟨(n : Int).toNat, 0, .nil⟩ : Search α) perm = r at h
  obtain ⟨st, s⟩ := r
  simp only at h
  subst h
  exact ⟨s, rfl⟩

theorem wallGo_congr (verts verts' : Int → List (V3 α)) (perm : List Int) (s : Search α)
    (h : ∀ c ∈ perm, verts c = verts' c) : wallBuild.go verts s perm = wallBuild.go verts' s perm := by
  induction perm generalizing s with
  | nil => rfl
  | cons c rest ih =>
    simp only [wallBuild.go, h c List.mem_cons_self]
    split
    · exact ih _ (fun d hd => h d (List.mem_cons_of_mem _ hd))
    · rfl

theorem wallBuild_congr (ncell : Int) (verts verts' : Int → List (V3 α)) (perm : List Int)
    (h : ∀ c ∈ perm, verts c = verts' c) : wallBuild ncell verts perm = wallBuild ncell verts' perm := by
  unfold wallBuild
  split
  · rfl
  · rw [wallGo_congr verts verts' perm _ h]

end Build

/-! ## the minimum is determined by its three properties -/

theorem eq_foldl_min (L : List ℝ) (d v : ℝ) (h1 : v ≤ d) (h2 : ∀ y ∈ L, v ≤ y) (h3 : v = d ∨ v ∈ L) :
    v = L.foldl min d := by
  obtain ⟨m1, m2, m3⟩ := foldl_min_spec L d
  apply le_antisymm
  · rcases m3 with m3 | m3
    · rw [m3]; exact h1
    · exact h2 _ m3
  · rcases h3 with h3 | h3
    · rw [h3]; exact m1
    · exact m2 _ h3

/-- `min` on `ℝ` is a semilattice -/
theorem semiLat_min : SemiLat (min : ℝ → ℝ → ℝ) :=
  ⟨fun _ _ _ _ => trivial, fun a b _ _ => min_comm a b, fun a b c _ _ _ => min_assoc a b c, fun a _ => min_self a⟩

/-! ## the tree search of one chunk, exact arithmetic -/

theorem arr_getD (el : List (Elem ℝ)) (k : Nat) (hk : k < el.length) :
    el.toArray.getD ((k : Int)).toNat [] = el[k] := by
  simp [Array.getD, hk]

theorem mem_perm_iff (n : Nat) (perm : List Int) (hperm : perm.Perm ((List.range n).map Int.ofNat)) (c : Int) :
    c ∈ perm ↔ ∃ k, k < n ∧ c = (k : Int) := by
  rw [hperm.mem_iff]
  simp only [List.mem_map, List.mem_range]
  constructor
  · rintro ⟨k, hk, rfl⟩; exact ⟨k, hk, rfl⟩
  · rintro ⟨k, hk, rfl⟩; exact ⟨k, hk, rfl⟩

theorem seg_verts (e : Elem ℝ) (h : e.length = 2) :
    e = [e.getD 0 ⟨Scalar.zero, Scalar.zero, Scalar.zero⟩, e.getD 1 ⟨Scalar.zero, Scalar.zero, Scalar.zero⟩] := by
  match e, h with
  | [a, b], _ => rfl

theorem tri_verts (e : Elem ℝ) (h : e.length = 3) :
    e = [e.getD 0 ⟨Scalar.zero, Scalar.zero, Scalar.zero⟩, e.getD 1 ⟨Scalar.zero, Scalar.zero, Scalar.zero⟩,
         e.getD 2 ⟨Scalar.zero, Scalar.zero, Scalar.zero⟩] := by
  match e, h with
  | [a, b, c], _ => rfl

theorem segAt_nat (el : List (Elem ℝ)) (k : Nat) (hk : k < el.length) :
    segAt el.toArray (k : Int)
      = (el[k].getD 0 ⟨Scalar.zero, Scalar.zero, Scalar.zero⟩, el[k].getD 1 ⟨Scalar.zero, Scalar.zero, Scalar.zero⟩) := by
  unfold segAt
  rw [arr_getD el k hk]

theorem triAt_nat (el : List (Elem ℝ)) (k : Nat) (hk : k < el.length) :
    triAt el.toArray (k : Int)
      = (el[k].getD 0 ⟨Scalar.zero, Scalar.zero, Scalar.zero⟩, el[k].getD 1 ⟨Scalar.zero, Scalar.zero, Scalar.zero⟩,
         el[k].getD 2 ⟨Scalar.zero, Scalar.zero, Scalar.zero⟩) := by
  unfold triAt
  rw [arr_getD el k hk]

theorem elemDist_seg (x : V3 ℝ) (e : Elem ℝ) :
    elemDist true x e = dist2seg (e.getD 0 ⟨Scalar.zero, Scalar.zero, Scalar.zero⟩)
      (e.getD 1 ⟨Scalar.zero, Scalar.zero, Scalar.zero⟩) x := by
  simp only [elemDist, if_true]

theorem elemDist_tri (x : V3 ℝ) (e : Elem ℝ) :
    elemDist false x e = dist2tri (e.getD 0 ⟨Scalar.zero, Scalar.zero, Scalar.zero⟩)
      (e.getD 1 ⟨Scalar.zero, Scalar.zero, Scalar.zero⟩) (e.getD 2 ⟨Scalar.zero, Scalar.zero, Scalar.zero⟩) x := by
  simp only [elemDist, Bool.false_eq_true, if_false]

/-- **one chunk**: for every insertion order that is a permutation of the chunk's indices the construction loop
    succeeds and the branch-and-bound returns the running minimum of the start value and the kernel distances of ALL
    elements of the chunk -/
theorem treeSearch_fold (twod : Bool) (el : List (Elem ℝ)) (perm : List Int)
    (hperm : perm.Perm ((List.range el.length).map Int.ofNat))
    (hper : ∀ e ∈ el, e.length = if twod then 2 else 3) :
    ∃ t, treeSearch twod perm el = some t ∧ ∀ x d, t x d = (el.map (elemDist twod x)).foldl min d := by
  have hmem := mem_perm_iff el.length perm hperm
  have hlen : perm.length = el.length := by rw [hperm.length_eq]; simp
  obtain ⟨s, hs⟩ := wallBuild_ok el.length (fun c => el.toArray.getD c.toNat []) perm (by omega)
    (by intro c hc; obtain ⟨k, _, rfl⟩ := (hmem c).1 hc; omega)
  unfold treeSearch
  simp only [hs]
  cases twod with
  | true =>
    refine ⟨_, rfl, ?_⟩
    intro x d
    simp only [if_true]
    have hw : wallBuild (el.length : Int) (fun c => [(segAt el.toArray c).1, (segAt el.toArray c).2]) perm
        = (Search.Status.ok, some s) := by
      rw [← hs]
      apply wallBuild_congr
      intro c hc
      obtain ⟨k, hk, rfl⟩ := (hmem c).1 hc
      rw [segAt_nat el k hk]
      show _ = el.toArray.getD ((k : Int)).toNat []
      rw [arr_getD el k hk]
      exact (seg_verts el[k] (by simpa using hper _ (List.getElem_mem hk))).symm
    obtain ⟨a1, a2, a3⟩ := Refine.Props.C12.wallDistance_seg_exact (el.length : Int) (segAt el.toArray) perm s hw x d
    apply eq_foldl_min _ _ _ a1
    · intro y hy
      obtain ⟨e, he, rfl⟩ := List.mem_map.mp hy
      obtain ⟨k, hk, rfl⟩ := List.getElem_of_mem he
      have := a2 (k : Int) ((hmem _).2 ⟨k, hk, rfl⟩)
      rw [segAt_nat el k hk] at this
      rw [elemDist_seg]
      exact this
    · rcases a3 with a3 | ⟨c, hc, a3⟩
      · left; exact a3
      · right
        obtain ⟨k, hk, rfl⟩ := (hmem c).1 hc
        refine List.mem_map.mpr ⟨el[k], List.getElem_mem hk, ?_⟩
        rw [a3, segAt_nat el k hk, elemDist_seg]
  | false =>
    refine ⟨_, rfl, ?_⟩
    intro x d
    simp only [Bool.false_eq_true, if_false]
    have hw : wallBuild (el.length : Int)
        (fun c => [(triAt el.toArray c).1, (triAt el.toArray c).2.1, (triAt el.toArray c).2.2]) perm
        = (Search.Status.ok, some s) := by
      rw [← hs]
      apply wallBuild_congr
      intro c hc
      obtain ⟨k, hk, rfl⟩ := (hmem c).1 hc
      rw [triAt_nat el k hk]
      show _ = el.toArray.getD ((k : Int)).toNat []
      rw [arr_getD el k hk]
      exact (tri_verts el[k] (by simpa using hper _ (List.getElem_mem hk))).symm
    obtain ⟨a1, a2, a3⟩ := Refine.Props.C12.wallDistance_tri_exact (el.length : Int) (triAt el.toArray) perm s hw x d
    apply eq_foldl_min _ _ _ a1
    · intro y hy
      obtain ⟨e, he, rfl⟩ := List.mem_map.mp hy
      obtain ⟨k, hk, rfl⟩ := List.getElem_of_mem he
      have := a2 (k : Int) ((hmem _).2 ⟨k, hk, rfl⟩)
      rw [triAt_nat el k hk] at this
      rw [elemDist_tri]
      exact this
    · rcases a3 with a3 | ⟨c, hc, a3⟩
      · left; exact a3
      · right
        obtain ⟨k, hk, rfl⟩ := (hmem c).1 hc
        refine List.mem_map.mpr ⟨el[k], List.getElem_mem hk, ?_⟩
        rw [a3, triAt_nat el k hk, elemDist_tri]

/-! ## every wall element has `node_per` vertices -/

theorem localWall_lengths {α : Type} [Inhabited α] (twod : Bool) (dict : RDict) (r : PRank α) :
    ∀ e ∈ localWall twod dict r, e.length = if twod then 2 else 3 := by
  intro e he
  unfold localWall at he
  cases twod with
  | true =>
    simp only [if_true, List.mem_map] at he ⊢
    obtain ⟨c, _, rfl⟩ := he
    rfl
  | false =>
    simp only [Bool.false_eq_true, if_false, List.mem_append, List.mem_map, List.mem_flatMap] at he ⊢
    rcases he with ⟨c, _, rfl⟩ | ⟨c, _, hq⟩
    · rfl
    · simp only [quadTris, List.mem_cons, List.not_mem_nil, or_false] at hq
      rcases hq with rfl | rfl <;> rfl

/-- the insertion orders are permutations of the chunks (what `ref_sort_shuffle` produces, whatever `rand()` does) -/
def PermsOk {α : Type} (perms : Nat → Nat → List Int) (chunks : List (List (Elem α))) : Prop :=
  ∀ me c (h : c < chunks.length), (perms me c).Perm ((List.range chunks[c].length).map Int.ofNat)

theorem mem_chunk_mem_flatten {β : Type} (chunks : List (List β)) (c : Nat) (h : c < chunks.length) (e : β)
    (he : e ∈ chunks[c]) : e ∈ chunks.flatten :=
  List.mem_flatten.mpr ⟨chunks[c], List.getElem_mem h, he⟩

/-- the trees of `wallDistPar` fold `min` over their chunks -/
theorem treeSearch_searchFolds (perms : Nat → Nat → List Int) (maxN : Int) (twod : Bool) (dict : RDict)
    (w : World (PRank ℝ))
    (hp : PermsOk perms (wallChunks maxN (w.map (@localWall ℝ Scalar.instInhabited twod dict)))) :
    SearchFolds (fun me c el => treeSearch twod (perms me c) el) min (elemDist twod)
      (wallChunks maxN (w.map (@localWall ℝ Scalar.instInhabited twod dict))) := by
  have hper : ∀ c (h : c < (wallChunks maxN (w.map (@localWall ℝ Scalar.instInhabited twod dict))).length),
      ∀ e ∈ (wallChunks maxN (w.map (@localWall ℝ Scalar.instInhabited twod dict)))[c],
        e.length = if twod then 2 else 3 := by
    intro c h e he
    have := mem_chunk_mem_flatten _ c h e he
    rw [wallChunks_flatten] at this
    obtain ⟨l, hl, hel⟩ := List.mem_flatten.mp this
    obtain ⟨r, _, rfl⟩ := List.mem_map.mp hl
    exact @localWall_lengths ℝ Scalar.instInhabited twod dict r e hel
  constructor
  · intro me c h
    obtain ⟨t, ht, _⟩ := treeSearch_fold twod _ (perms me c) (hp me c h) (hper c h)
    simp only [ht, Option.isSome_some]
  · intro me c h t ht x d
    obtain ⟨t', ht', hf⟩ := treeSearch_fold twod _ (perms me c) (hp me c h) (hper c h)
    simp only [ht'] at ht
    cases ht
    exact hf x d

theorem wallFold_eq_wallMin (twod : Bool) (dict : RDict) (w : World (PRank ℝ)) (x : V3 ℝ) :
    @wallFold ℝ Scalar.instInhabited min (elemDist twod) dblMax twod dict w x = wallMin twod dict w x := by
  unfold wallFold wallMin allWalls worldWalls
  congr 1
  funext a b
  exact (cmin_eq a b).symm

/-- **parallel wall distance, exact arithmetic** (see `Props/C12Par.lean`) -/
theorem wallDistPar_real (perms : Nat → Nat → List Int) (twod : Bool) (dict : RDict) (w : World (PRank ℝ))
    (hw : WorldOk w)
    (hp : PermsOk perms (wallChunks Refine.Gen.PhysBc.maxNcell (w.map (@localWall ℝ Scalar.instInhabited twod dict)))) :
    ∃ res : World (List ℝ), wallDistPar perms twod dict w = some res ∧ res.length = w.length ∧
      ∀ r (hr : r < w.length), (res.getD r []).length = w[r].nodes.length ∧
        ∀ i (hi : i < w[r].nodes.length),
          (w[r].nodes[i].part = (r : Int) → (res.getD r [])[i]? = some (wallMin twod dict w w[r].nodes[i].xyz)) ∧
          (w[r].nodes[i].part ≠ (r : Int) →
            ∀ od ∈ (w.getD w[r].nodes[i].part.toNat ⟨[], [], [], []⟩).nodes, od.glob = w[r].nodes[i].glob →
              (res.getD r [])[i]? = some (wallMin twod dict w od.xyz)) := by
  have h := @wallDistParWith_spec ℝ Scalar.instInhabited _ min (elemDist twod) dblMax Refine.Gen.PhysBc.maxNcell
    twod dict w (treeSearch_searchFolds perms _ twod dict w hp) hw
  simp only [wallFold_eq_wallMin] at h
  exact h

end Refine.Lemmas.PhysDist
