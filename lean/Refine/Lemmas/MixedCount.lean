import Refine.Lemmas.MixedInterface

/-!
  Counting lemmas for `Refine/Model/Mixed.lean`: the NUMBER of simplices on a triangular face of a pyramid / prism is
  unchanged by a guarded split (so "exactly one neighbour" is preserved, not only "at least one").
-/
namespace Refine.MixedLemmas
open Refine Refine.Model Refine.Model.Guards Refine.Model.Mixed Refine.GuardsRules

/-- a half of a split cell covers `k` iff the cell did and `k` avoids the replaced end (`new` is not in `k`) -/
theorem covers_subst_iff {c : Cell} {k : List Nat} {old new : Nat} (hnew : new ∉ k) :
    covers (Cell.subst old new c) k = true ↔ covers c k = true ∧ old ∉ k := by
  constructor
  · intro h
    rw [covers_iff] at h
    have key : ∀ v ∈ k, v ∈ c.nodes ∧ v ≠ old := by
      intro v hv
      have := h v hv
      rw [subst_nodes, List.mem_map] at this
      obtain ⟨u, hu, huv⟩ := this
      by_cases e : (u == old) = true
      · rw [if_pos e] at huv
        exact absurd (huv ▸ hv) hnew
      · rw [if_neg e] at huv
        subst huv
        exact ⟨hu, fun e' => e (by simpa using e')⟩
    exact ⟨covers_iff.mpr fun v hv => (key v hv).1, fun ho => (key old ho).2 rfl⟩
  · rintro ⟨h, ho⟩
    exact covers_subst h ho

/-- a cell with at most four distinct vertices that contains both ends cannot cover a proper triangle that avoids
    both ends -/
theorem not_covers_avoiding {c : Cell} {k : List Nat} {n0 n1 : Nat} (hl : c.nodes.length ≤ 4) (hne : n0 ≠ n1)
    (h0 : n0 ∈ c.nodes) (h1 : n1 ∈ c.nodes) (hk : k.Nodup ∧ k.length = 3) (a0 : n0 ∉ k) (a1 : n1 ∉ k) :
    covers c k = false := by
  rw [← Bool.not_eq_true, covers_iff]
  intro h
  have hsub : k ⊆ (c.nodes.erase n0).erase n1 := by
    intro v hv
    have hv0 : v ≠ n0 := fun e => a0 (e ▸ hv)
    have hv1 : v ≠ n1 := fun e => a1 (e ▸ hv)
    exact (List.mem_erase_of_ne hv1).mpr ((List.mem_erase_of_ne hv0).mpr (h v hv))
  have hlen := hk.1.length_le_of_subset hsub
  have h1' : n1 ∈ c.nodes.erase n0 := (List.mem_erase_of_ne (Ne.symm hne)).mpr h1
  rw [List.length_erase, List.length_erase] at hlen
  simp only [h1', h0, if_true] at hlen
  have : 0 < c.nodes.length := List.length_pos_of_mem h0
  omega

def b2n (b : Bool) : Nat := if b then 1 else 0

theorem filter_length_cons {α : Type} (p : α → Bool) (x : α) (l : List α) :
    ((x :: l).filter p).length = b2n (p x) + (l.filter p).length := by
  unfold b2n
  by_cases h : p x = true
  · rw [List.filter_cons_of_pos h]; simp [h]; omega
  · rw [List.filter_cons_of_neg h]; simp [h]

/-- the two halves of a cut cell cover `k` as often as the cell did -/
theorem halves_count {c : Cell} {k : List Nat} {n0 n1 new : Nat} (hl : c.nodes.length ≤ 4) (hne : n0 ≠ n1)
    (h0 : n0 ∈ c.nodes) (h1 : n1 ∈ c.nodes) (hk : k.Nodup ∧ k.length = 3) (hnew : new ∉ k)
    (hnot : ¬ (n0 ∈ k ∧ n1 ∈ k)) :
    b2n (covers (Cell.subst n0 new c) k) + b2n (covers (Cell.subst n1 new c) k) = b2n (covers c k) := by
  have e0 := covers_subst_iff (c := c) (k := k) (old := n0) (new := new) hnew
  have e1 := covers_subst_iff (c := c) (k := k) (old := n1) (new := new) hnew
  by_cases hc : covers c k = true
  · by_cases a0 : n0 ∈ k
    · have a1 : n1 ∉ k := fun a1 => hnot ⟨a0, a1⟩
      have r0 : covers (Cell.subst n0 new c) k = false := by
        rw [← Bool.not_eq_true, e0]; exact fun h => h.2 a0
      have r1 : covers (Cell.subst n1 new c) k = true := e1.mpr ⟨hc, a1⟩
      simp [b2n, r0, r1, hc]
    · by_cases a1 : n1 ∈ k
      · have r0 : covers (Cell.subst n0 new c) k = true := e0.mpr ⟨hc, a0⟩
        have r1 : covers (Cell.subst n1 new c) k = false := by
          rw [← Bool.not_eq_true, e1]; exact fun h => h.2 a1
        simp [b2n, r0, r1, hc]
      · have := not_covers_avoiding hl hne h0 h1 hk a0 a1
        rw [hc] at this
        exact absurd this (by decide)
  · have hcf : covers c k = false := by simpa using hc
    have r0 : covers (Cell.subst n0 new c) k = false := by
      rw [← Bool.not_eq_true, e0]; exact fun h => hc h.1
    have r1 : covers (Cell.subst n1 new c) k = false := by
      rw [← Bool.not_eq_true, e1]; exact fun h => hc h.1
    simp [b2n, r0, r1, hcf]

/-- `ref_split_edge` on one group keeps the number of cells on the triangle `k` -/
theorem count_splitGroup {cells : List Cell} {k : List Nat} {n0 n1 new : Nat}
    (hl : ∀ c ∈ cells, c.nodes.length ≤ 4) (hne : n0 ≠ n1) (hk : k.Nodup ∧ k.length = 3) (hnew : new ∉ k)
    (hnot : ¬ (n0 ∈ k ∧ n1 ∈ k)) :
    ((splitGroup cells n0 n1 new).filter (covers · k)).length = (cells.filter (covers · k)).length := by
  induction cells with
  | nil => rfl
  | cons c rest ih =>
    have ih' := ih fun c' hc' => hl c' (List.mem_cons_of_mem _ hc')
    unfold splitGroup at ih' ⊢
    rw [List.flatMap_cons, List.filter_append, List.length_append, ih', filter_length_cons]
    congr 1
    by_cases hb : n0 ∈ c.nodes ∧ n1 ∈ c.nodes
    · have : (c.nodes.contains n0 && c.nodes.contains n1) = true := by simp [hb.1, hb.2]
      rw [if_pos this, filter_length_cons, filter_length_cons]
      simp only [List.filter_nil, List.length_nil, Nat.add_zero]
      exact halves_count (hl c List.mem_cons_self) hne hb.1 hb.2 hk hnew hnot
    · have : ¬ (c.nodes.contains n0 && c.nodes.contains n1) = true := by
        intro h
        simp only [Bool.and_eq_true, List.contains_iff_mem] at h
        exact hb h
      rw [if_neg this, filter_length_cons]
      simp

/-- every tet has four and every boundary tri three vertices -/
def SimplexArity (g : Grid) : Prop := (∀ c ∈ g.tet, c.nodes.length = 4) ∧ (∀ c ∈ g.tri, c.nodes.length = 3)

theorem coverCount_splitCells {g : Grid} {k : List Nat} {n0 n1 new : Nat} (ha : SimplexArity g) (hne : n0 ≠ n1)
    (hk : k.Nodup ∧ k.length = 3) (hnew : new ∉ k) (hnot : ¬ (n0 ∈ k ∧ n1 ∈ k)) :
    coverCount (splitCells g n0 n1 new).2 k = coverCount g k := by
  have ht := count_splitGroup (cells := g.tet) (new := new) (fun c hc => by rw [ha.1 c hc]) hne hk hnew hnot
  have hr := count_splitGroup (cells := g.tri) (new := new) (fun c hc => by rw [ha.2 c hc]; omega) hne hk hnew hnot
  unfold splitCells coverCount
  dsimp only
  split_ifs <;> dsimp only
  · rw [ht]
  · rw [ht, hr]
  · rw [ht, hr]

/-- tets and boundary tris on `k`, separately -/
theorem counts_splitCells {g : Grid} {k : List Nat} {n0 n1 new : Nat} (ha : SimplexArity g) (hne : n0 ≠ n1)
    (hk : k.Nodup ∧ k.length = 3) (hnew : new ∉ k) (hnot : ¬ (n0 ∈ k ∧ n1 ∈ k)) :
    ((splitCells g n0 n1 new).2.tet.filter (covers · k)).length = (g.tet.filter (covers · k)).length ∧
    ((splitCells g n0 n1 new).2.tri.filter (covers · k)).length = (g.tri.filter (covers · k)).length := by
  have ht := count_splitGroup (cells := g.tet) (new := new) (fun c hc => by rw [ha.1 c hc]) hne hk hnew hnot
  have hr := count_splitGroup (cells := g.tri) (new := new) (fun c hc => by rw [ha.2 c hc]; omega) hne hk hnew hnot
  unfold splitCells
  dsimp only
  split_ifs <;> dsimp only
  · exact ⟨rfl, rfl⟩
  · exact ⟨ht, rfl⟩
  · exact ⟨ht, hr⟩
  · exact ⟨ht, hr⟩

theorem faceConforming_congr {g' g : Grid} {k : List Nat} (hg : SameFrozenGroups g' g)
    (ht : (g'.tet.filter (covers · k)).length = (g.tet.filter (covers · k)).length)
    (hr : (g'.tri.filter (covers · k)).length = (g.tri.filter (covers · k)).length) :
    faceConforming g' k = faceConforming g k := by
  unfold faceConforming
  rw [mixedTriFaces_eq_of hg, ht, hr]

end Refine.MixedLemmas
