import Refine.Lemmas.ParGather
import Refine.Model.GatherMeshb

/-!
  ref_gather_node inside ref_gather_meshb: the column sums of `Refine.Lemmas.Par` with POINTWISE neutrality of the
  padding — `0.0 + x = x = x + 0.0` is asked only of the values that are actually summed (the owner's coordinates and
  `0.0` itself).  IEEE addition has this for every double except `-0.0` and signalling NaNs, so the hypothesis is
  satisfiable by the `add` the driver runs (`addBits`), which a global `∀ x` would not be.
-/
namespace Refine.Lemmas.GatherMeshb
open Refine.Model.Comm Refine.Model.Par Refine.Lemmas.Par

variable {α : Type}

theorem foldl_no_owner_pt (add : α → α → α) (zero : α) (g r : Nat) (w : World (RankView α))
    (h : (ownerFlagsFrom g r w).count true = 0) (a : α × Nat) (ha : add a.1 zero = a.1) :
    (contribsFrom zero g r w).foldl (slotAdd add) a = a := by
  induction w generalizing r with
  | nil => rfl
  | cons v vs ih =>
    simp only [ownerFlagsFrom, List.count_cons] at h
    cases hp : ownerPayload r v g with
    | some p => simp [hp] at h
    | none =>
      simp only [hp, Option.isSome_none] at h
      simp only [contribsFrom, hp, slotOf, List.foldl_cons]
      have : slotAdd add a (zero, 0) = a := by
        cases a with
        | mk a1 a2 => simp only [slotAdd, Nat.add_zero] at ha ⊢; rw [ha]
      rw [this]
      exact ih (r + 1) (by simpa using h)

theorem foldl_one_owner_pt (add : α → α → α) (zero : α) (h00 : add zero zero = zero) (g r : Nat)
    (w : World (RankView α))
    (hp : ∀ p, firstOwnerFrom g r w = some p → add zero p = p ∧ add p zero = p)
    (h : (ownerFlagsFrom g r w).count true = 1) :
    (contribsFrom zero g r w).foldl (slotAdd add) (zero, 0) = ((firstOwnerFrom g r w).getD zero, 1) := by
  induction w generalizing r with
  | nil => simp [ownerFlagsFrom] at h
  | cons v vs ih =>
    simp only [ownerFlagsFrom, List.count_cons] at h
    cases hq : ownerPayload r v g with
    | some p =>
      simp only [hq, Option.isSome_some, beq_self_eq_true, if_true] at h
      have hfo : firstOwnerFrom g r (v :: vs) = some p := by simp [firstOwnerFrom, hq]
      obtain ⟨h1, h2⟩ := hp p hfo
      simp only [contribsFrom, hq, slotOf, List.foldl_cons, firstOwnerFrom]
      have : slotAdd add (zero, 0) (p, 1) = (p, 1) := by simp [slotAdd, h1]
      rw [this, foldl_no_owner_pt add zero g (r + 1) vs (by omega) (p, 1) h2]
      rfl
    | none =>
      simp only [hq, Option.isSome_none] at h
      simp only [contribsFrom, hq, slotOf, List.foldl_cons, firstOwnerFrom]
      have : slotAdd add (zero, 0) (zero, 0) = (zero, 0) := by simp [slotAdd, h00]
      rw [this]
      refine ih (r + 1) ?_ (by simpa using h)
      intro p hfo
      exact hp p (by simp [firstOwnerFrom, hq, hfo])

/-- a column is the fold from the neutral record when the first contribution is neutral-compatible -/
theorem colSum_fold_pt (add : α → α → α) (zero : α) (h00 : add zero zero = zero) (w : World (RankView α)) (g : Nat)
    (hp : ∀ p, firstOwnerFrom g 0 w = some p → add zero p = p ∧ add p zero = p) :
    colSum add zero w g = (contribsFrom zero g 0 w).foldl (slotAdd add) (zero, 0) := by
  unfold colSum
  cases w with
  | nil => rfl
  | cons v vs =>
    simp only [contribsFrom, List.foldl_cons]
    cases hq : ownerPayload 0 v g with
    | some p =>
      have hfo : firstOwnerFrom g 0 (v :: vs) = some p := by simp [firstOwnerFrom, hq]
      have : slotAdd add (zero, 0) (slotOf zero (some p)) = slotOf zero (some p) := by
        simp [slotAdd, slotOf, (hp p hfo).1]
      rw [this]
    | none =>
      have : slotAdd add (zero, 0) (slotOf zero (none : Option α)) = slotOf zero none := by
        simp [slotAdd, slotOf, h00]
      rw [this]

/-- a global with exactly one owner whose payload `p` satisfies `0 + p = p = p + 0`: the slot holds `p`, hit count 1 -/
theorem colSum_once_pt (add : α → α → α) (zero : α) (h00 : add zero zero = zero) (w : World (RankView α)) (g : Nat)
    (hp : ∀ p, firstOwnerFrom g 0 w = some p → add zero p = p ∧ add p zero = p)
    (h : ownerCount w g = 1) :
    colSum add zero w g = (payloadAt zero w g, 1) := by
  rw [colSum_fold_pt add zero h00 w g hp, foldl_one_owner_pt add zero h00 g 0 w hp h]
  rfl

/-- ref_gather_node (any chunk ≥ 1) on a world that owns every global once, with pointwise neutral padding: success and the
    owners' payloads in global order -/
theorem gatherNodeChunked_once_pt (add : α → α → α) (zero : α) (h00 : add zero zero = zero)
    (w : World (RankView α)) (hw : w ≠ []) (N chunk : Nat) (hchunk : 1 ≤ chunk)
    (honce : ∀ g, g < N → ownerCount w g = 1)
    (hp : ∀ g, g < N → ∀ p, firstOwnerFrom g 0 w = some p → add zero p = p ∧ add p zero = p) :
    gatherNodeChunked add zero chunk N w = some ((List.range N).map (payloadAt zero w), false) := by
  rw [gatherNodeChunked_eq add zero w hw N chunk hchunk]
  have h1 : (List.range N).map (fun g => (colSum add zero w g).1) = (List.range N).map (payloadAt zero w) := by
    apply List.map_congr_left
    intro g hg
    have hg' := List.mem_range.mp hg
    rw [colSum_once_pt add zero h00 w g (hp g hg') (honce g hg')]
  have h2 : (List.range N).any (fun g => (colSum add zero w g).2 != 1) = false := by
    rw [List.any_eq_false]
    intro g hg
    have hg' := List.mem_range.mp hg
    rw [colSum_once_pt add zero h00 w g (hp g hg') (honce g hg')]
    simp
  rw [h1, h2]

/-- the first owner's payload is the payload of a node stored with `part = its rank` -/
theorem firstOwnerFrom_mem (g r : Nat) (w : World (RankView α)) (p : α) (h : firstOwnerFrom g r w = some p) :
    ∃ i v nd, w[i]? = some v ∧ nd ∈ v.nodes ∧ nd.global = g ∧ nd.part = r + i ∧ nd.payload = p := by
  induction w generalizing r with
  | nil => simp [firstOwnerFrom] at h
  | cons v vs ih =>
    unfold firstOwnerFrom at h
    cases hq : ownerPayload r v g with
    | some q =>
      simp only [hq, Option.some.injEq] at h
      subst h
      unfold ownerPayload at hq
      cases hl : localOf v g with
      | none => simp [hl] at hq
      | some nd =>
        simp only [hl] at hq
        by_cases hpart : (nd.part == r) = true
        · simp only [hpart, if_true, Option.some.injEq] at hq
          refine ⟨0, v, nd, by simp, ?_, ?_, ?_, hq⟩
          · unfold localOf at hl; exact List.mem_of_find?_eq_some hl
          · unfold localOf at hl
            have := List.find?_some hl
            simpa using this
          · simpa using hpart
        · simp [hpart] at hq
    | none =>
      simp only [hq] at h
      obtain ⟨i, v', nd, h1, h2, h3, h4, h5⟩ := ih (r + 1) h
      exact ⟨i + 1, v', nd, by simpa using h1, h2, h3, by omega, h5⟩

end Refine.Lemmas.GatherMeshb
