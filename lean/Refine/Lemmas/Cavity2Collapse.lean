import Refine.Lemmas.Cavity2Form

/-!
  `ref_cavity_form_edge_collapse`: the lists it builds (balls of the two ends), its ledger
  (`∂T −` the faces it skips: those containing the kept node, and all faces of the tets that hold both ends), and the
  localisation of global conformity to the faces that contain `n0` or `n1`.
-/
namespace Refine.Lemmas.Cavity2
open Refine.Model.Cavity Refine.Model.Cavity2 Refine.Lemmas.Cavity Refine.Props.C01

variable {G : Type} [AddCommGroup G] {α : Type}

/-- the faces of a tet that the tet loops of `form_edge_collapse` do NOT insert -/
def collapseSkip (n0 n1 keep : Int) (t : Tet) : List Face :=
  if t.nodes.contains n0 && t.nodes.contains n1 then tetFaces t else (tetFaces t).filter fun f => f.has keep

/-- the cells of a walk that are not yet listed -/
def freshCells {β : Type} (l : List Int) (cells : List (Nat × β)) : List (Nat × β) :=
  cells.filter fun p => !(l.contains (p.1 : Int))

theorem freshCells_append_single {β : Type} (l : List Int) (cell : Nat) (cells : List (Nat × β))
    (h : ∀ p ∈ cells, p.1 ≠ cell) : freshCells (l ++ [(cell : Int)]) cells = freshCells l cells := by
  unfold freshCells
  apply List.filter_congr
  intro p hp
  have := h p hp
  simp only [List.contains_append, List.contains_cons, List.contains_nil, Bool.or_false]
  have e : ((p.1 : Int) == (cell : Int)) = false := by
    simp only [beq_eq_false_iff_ne, ne_eq, Int.natCast_inj]; exact this
  rw [e]; simp

theorem formCollapseTets_spec {φ : Int → Int → Int → G} (hφ : Alt φ) (g : Grid α) (n0 n1 keep : Int)
    (cells : List (Nat × Tet)) (hnd : (cells.map (·.1)).Nodup) (c c' : Cav) (s : Refine.Model.Cavity.St)
    (hinv : SlotsInv c.faces) (h : formCollapseTets g n0 n1 keep c cells = (s, c', false)) :
    SlotsInv c'.faces ∧ SameSegSide c c' ∧ c'.state = c.state ∧
    c'.tetList = c.tetList ++ (freshCells c.tetList cells).map (fun p => (p.1 : Int)) ∧
    rowsSum φ c'.faces.rows = rowsSum φ c.faces.rows +
      ((freshCells c.tetList cells).map fun p =>
        faceSum φ (tetFaces p.2) - faceSum φ (collapseSkip n0 n1 keep p.2)).sum ∧
    (∀ x ∈ c'.validFaces, x ∈ c.validFaces ∨ ∃ p ∈ cells, x ∈ tetFaces p.2) := by
  induction cells generalizing c with
  | nil =>
    simp only [formCollapseTets, Prod.mk.injEq, and_true] at h
    obtain ⟨_, rfl⟩ := h
    exact ⟨hinv, SameSegSide.refl c, rfl, by simp [freshCells], by simp [freshCells], fun x hx => Or.inl hx⟩
  | cons p rest ih =>
    obtain ⟨cell, tet⟩ := p
    have hnd0 : (cell :: rest.map (·.1)).Nodup := hnd
    have hnd' : (rest.map (·.1)).Nodup := (List.nodup_cons.mp hnd0).2
    have hne : ∀ q ∈ rest, q.1 ≠ cell := by
      intro q hq e
      have := (List.nodup_cons.mp hnd0).1
      exact this (List.mem_map.mpr ⟨q, hq, e⟩)
    unfold formCollapseTets at h
    split at h
    · next hcont =>
      -- already listed
      obtain ⟨a1, a2, a3, a4, a5, a6⟩ := ih hnd' c hinv h
      have hf : freshCells c.tetList ((cell, tet) :: rest) = freshCells c.tetList rest := by
        simp only [freshCells, List.filter_cons, hcont, Bool.not_true, Bool.false_eq_true, if_false]
      rw [hf]
      exact ⟨a1, a2, a3, a4, a5, fun x hx => (a6 x hx).imp id fun ⟨q, hq, hx⟩ => ⟨q, List.mem_cons_of_mem _ hq, hx⟩⟩
    · next hcont =>
      have hf : freshCells c.tetList ((cell, tet) :: rest) = (cell, tet) :: freshCells c.tetList rest := by
        simp only [freshCells, List.filter_cons]
        have : c.tetList.contains (cell : Int) = false := by simpa using hcont
        simp only [this, Bool.not_false, if_true]
      simp only at h
      split at h
      · simp at h
      · split at h
        · next hboth =>
          -- will be collapsed: listed, no face inserted
          obtain ⟨a1, a2, a3, a4, a5, a6⟩ := ih hnd' { c with tetList := c.tetList ++ [(cell : Int)] } hinv h
          rw [freshCells_append_single c.tetList cell rest hne] at a4 a5
          refine ⟨a1, a2, a3, ?_, ?_, fun x hx => (a6 x hx).imp id fun ⟨q, hq, hx⟩ => ⟨q, List.mem_cons_of_mem _ hq, hx⟩⟩
          · rw [a4, hf]; simp
          · rw [a5, hf]
            simp only [List.map_cons, List.sum_cons, collapseSkip, hboth, if_true, sub_self, zero_add]
        · next hboth =>
          rcases hins : insertFaces { c with tetList := c.tetList ++ [(cell : Int)] }
            ((tetFaces tet).filter fun f => !(f.has keep)) with ⟨s1, c1⟩
          rw [hins] at h
          cases s1 <;> simp only [] at h <;> try (simp at h)
          obtain ⟨hinv1, hsame1, hsum1, hmem1⟩ :=
            insertFaces_spec hφ _ { c with tetList := c.tetList ++ [(cell : Int)] } c1 hinv hins
          obtain ⟨b1, b2, b3, b4, b5, b6⟩ := hsame1
          obtain ⟨a1, a2, a3, a4, a5, a6⟩ := ih hnd' c1 hinv1 h
          rw [b5, freshCells_append_single c.tetList cell rest hne] at a4 a5
          refine ⟨a1, ⟨a2.1.trans b4, a2.2.1.trans b2, a2.2.2.1.trans b3, a2.2.2.2.trans b6⟩, a3.trans b1, ?_, ?_, ?_⟩
          · rw [a4, hf]; simp
          · rw [a5, hsum1, hf]
            simp only [List.map_cons, List.sum_cons, collapseSkip, hboth, Bool.false_eq_true, if_false]
            have := faceSum_filter_split φ (fun f => !(f.has keep)) (tetFaces tet)
            have e : ((tetFaces tet).filter fun f => !(!(f.has keep))) = (tetFaces tet).filter fun f => f.has keep := by
              congr 1; funext f; simp
            rw [e] at this
            rw [this]; abel
          · intro x hx
            rcases a6 x hx with h1 | ⟨q, hq, hx2⟩
            · rcases hmem1 x h1 with h2 | h2
              · exact Or.inl h2
              · exact Or.inr ⟨(cell, tet), List.mem_cons_self, (List.mem_filter.mp h2).1⟩
            · exact Or.inr ⟨q, List.mem_cons_of_mem _ hq, hx2⟩

theorem formCollapseTets_early (g : Grid α) (n0 n1 keep : Int) (cells : List (Nat × Tet)) (c c' : Cav)
    (s : Refine.Model.Cavity.St) (h : formCollapseTets g n0 n1 keep c cells = (s, c', true)) :
    s ≠ .ok ∨ c'.state = .partition_constrained := by
  induction cells generalizing c with
  | nil => simp [formCollapseTets] at h
  | cons p rest ih =>
    obtain ⟨cell, tet⟩ := p
    unfold formCollapseTets at h
    split at h
    · exact ih c h
    · simp only at h
      split at h
      · simp only [Prod.mk.injEq, and_true] at h; right; rw [← h.2]
      · split at h
        · exact ih _ h
        · rcases hins : insertFaces { c with tetList := c.tetList ++ [(cell : Int)] }
            ((tetFaces tet).filter fun f => !(f.has keep)) with ⟨s1, c1⟩
          rw [hins] at h
          cases s1 <;> simp only [] at h
          case ok => exact ih c1 h
          all_goals (simp only [Prod.mk.injEq, and_true] at h; left; rw [← h.1]; decide)


/-! ### the tri loops -/

/-- the sides of a tri that `form_edge_collapse` inserts: 01, 12, 20 without the kept node -/
def collapseSegs (keep : Int) (tri : Tri) : List Seg :=
  ([(tri.n0, tri.n1), (tri.n1, tri.n2), (tri.n2, tri.n0)].filter
    fun p => keep != p.1 && keep != p.2).map fun p => (⟨p.1, p.2, tri.id⟩ : Seg)

theorem formCollapseTris_prefix (g : Grid α) (n0 n1 keep : Int) (cells : List (Nat × Tri)) (c : Cav) :
    ∃ l, (formCollapseTris g n0 n1 keep c cells).2.1.tetList = c.tetList ++ l := by
  induction cells generalizing c with
  | nil => exact ⟨[], by simp [formCollapseTris]⟩
  | cons p rest ih =>
    obtain ⟨cell, tri⟩ := p
    unfold formCollapseTris
    split
    · exact ih c
    · simp only
      split
      · exact ⟨[], by simp⟩
      · split
        · exact ih { c with triList := c.triList ++ [(cell : Int)] }
        · obtain ⟨l0, h0⟩ := insertSegs_prefix g (([(tri.n0, tri.n1), (tri.n1, tri.n2), (tri.n2, tri.n0)].filter
              fun p => keep != p.1 && keep != p.2).map fun p => (⟨p.1, p.2, tri.id⟩ : Seg))
            { c with triList := c.triList ++ [(cell : Int)] }
          rcases hins : insertSegs g { c with triList := c.triList ++ [(cell : Int)] }
            (([(tri.n0, tri.n1), (tri.n1, tri.n2), (tri.n2, tri.n0)].filter
              fun p => keep != p.1 && keep != p.2).map fun p => (⟨p.1, p.2, tri.id⟩ : Seg)) with ⟨s1, c1⟩
          rw [hins] at h0
          have h0' : c1.tetList = c.tetList ++ l0 := h0
          try rw [hins]
          cases s1
          case ok =>
            obtain ⟨l1, h1⟩ := ih c1
            exact ⟨l0 ++ l1, by rw [h1, h0', List.append_assoc]⟩
          all_goals exact ⟨l0, h0'⟩

theorem formCollapseTris_state_mono (g : Grid α) (n0 n1 keep : Int) (cells : List (Nat × Tri)) (c c' : Cav)
    (s : Refine.Model.Cavity.St) (b : Bool) (h : formCollapseTris g n0 n1 keep c cells = (s, c', b))
    (hs : c'.state = .unknown) : c.state = .unknown := by
  induction cells generalizing c with
  | nil => simp only [formCollapseTris, Prod.mk.injEq] at h; rw [← h.2.1] at hs; exact hs
  | cons p rest ih =>
    obtain ⟨cell, tri⟩ := p
    unfold formCollapseTris at h
    split at h
    · exact ih c h
    · simp only at h
      split at h
      · simp only [Prod.mk.injEq] at h; rw [← h.2.1] at hs; simp at hs
      · split at h
        · exact ih { c with triList := c.triList ++ [(cell : Int)] } h
        · rcases hins : insertSegs g { c with triList := c.triList ++ [(cell : Int)] }
            (([(tri.n0, tri.n1), (tri.n1, tri.n2), (tri.n2, tri.n0)].filter
              fun p => keep != p.1 && keep != p.2).map fun p => (⟨p.1, p.2, tri.id⟩ : Seg)) with ⟨s1, c1⟩
          rw [hins] at h
          have key : c1.state = .unknown → c.state = .unknown := fun h1 =>
            insertSegs_state_mono g _ { c with triList := c.triList ++ [(cell : Int)] } c1 _ hins h1
          cases s1 <;> simp only [] at h
          case ok => exact key (ih c1 h)
          all_goals (simp only [Prod.mk.injEq] at h; exact key (h.2.1 ▸ hs))

theorem formCollapseTris_spec {φ : Int → Int → Int → G} (hφ : Alt φ) (hd : Diag φ) (g : Grid α) (n0 n1 keep : Int)
    (cells : List (Nat × Tri)) (hnd : (cells.map (·.1)).Nodup) (c c' : Cav) (s : Refine.Model.Cavity.St)
    (hf : SlotsInv c.faces) (hsg : SlotsInv c.segs) (htl : c.tetList ≠ [])
    (h : formCollapseTris g n0 n1 keep c cells = (s, c', false)) (hs : c'.state = .unknown)
    (hsame : c'.tetList = c.tetList) :
    SlotsInv c'.faces ∧ SlotsInv c'.segs ∧ c'.node = c.node ∧ c'.surfNode = c.surfNode ∧
    c'.triList = c.triList ++ (freshCells c.triList cells).map (fun p => (p.1 : Int)) ∧
    ledgerVal φ c' = ledgerVal φ c := by
  have hψ : Alt2 (fun _ _ => (0 : G)) := ⟨fun _ _ => by simp, fun _ => rfl⟩
  induction cells generalizing c with
  | nil =>
    simp only [formCollapseTris, Prod.mk.injEq, and_true] at h
    obtain ⟨_, rfl⟩ := h
    exact ⟨hf, hsg, rfl, rfl, by simp [freshCells], rfl⟩
  | cons p rest ih =>
    obtain ⟨cell, tri⟩ := p
    have hnd0 : (cell :: rest.map (·.1)).Nodup := hnd
    have hnd' : (rest.map (·.1)).Nodup := (List.nodup_cons.mp hnd0).2
    have hne : ∀ q ∈ rest, q.1 ≠ cell := by
      intro q hq e
      exact (List.nodup_cons.mp hnd0).1 (List.mem_map.mpr ⟨q, hq, e⟩)
    unfold formCollapseTris at h
    split at h
    · next hcont =>
      obtain ⟨a1, a2, a3, a4, a5, a6⟩ := ih hnd' c hf hsg htl h hsame
      have hfr : freshCells c.triList ((cell, tri) :: rest) = freshCells c.triList rest := by
        simp only [freshCells, List.filter_cons, hcont, Bool.not_true, Bool.false_eq_true, if_false]
      rw [hfr]; exact ⟨a1, a2, a3, a4, a5, a6⟩
    · next hcont =>
      have hfr : freshCells c.triList ((cell, tri) :: rest) = (cell, tri) :: freshCells c.triList rest := by
        simp only [freshCells, List.filter_cons]
        have : c.triList.contains (cell : Int) = false := by simpa using hcont
        simp only [this, Bool.not_false, if_true]
      simp only at h
      split at h
      · simp at h
      · split at h
        · obtain ⟨a1, a2, a3, a4, a5, a6⟩ :=
            ih hnd' { c with triList := c.triList ++ [(cell : Int)] } hf hsg htl h hsame
          rw [freshCells_append_single c.triList cell rest hne] at a5
          exact ⟨a1, a2, a3, a4, by rw [a5, hfr]; simp, a6⟩
        · rcases hins : insertSegs g { c with triList := c.triList ++ [(cell : Int)] }
            (([(tri.n0, tri.n1), (tri.n1, tri.n2), (tri.n2, tri.n0)].filter
              fun p => keep != p.1 && keep != p.2).map fun p => (⟨p.1, p.2, tri.id⟩ : Seg)) with ⟨s1, c1⟩
          rw [hins] at h
          cases s1 <;> simp only [] at h <;> try (simp at h)
          have hs1 : c1.state = .unknown := formCollapseTris_state_mono g n0 n1 keep rest c1 c' _ _ h hs
          -- neither this tri nor the rest pulled a tet in
          obtain ⟨l0, h0⟩ := insertSegs_prefix g (([(tri.n0, tri.n1), (tri.n1, tri.n2), (tri.n2, tri.n0)].filter
              fun p => keep != p.1 && keep != p.2).map fun p => (⟨p.1, p.2, tri.id⟩ : Seg))
            { c with triList := c.triList ++ [(cell : Int)] }
          rw [hins] at h0
          have h0 : c1.tetList = c.tetList ++ l0 := h0
          obtain ⟨l1, h1⟩ := formCollapseTris_prefix g n0 n1 keep rest c1
          rw [h] at h1
          have h1 : c'.tetList = c1.tetList ++ l1 := h1
          have hnil : l0 = [] ∧ l1 = [] := by
            rw [h0, List.append_assoc] at h1
            have := hsame.symm.trans h1
            have h2 : l0 ++ l1 = [] := by
              have := List.append_cancel_left (as := c.tetList) (bs := []) (cs := l0 ++ l1) (by simpa using this)
              exact this.symm
            exact List.append_eq_nil_iff.mp h2
          have ht1 : c1.tetList = c.tetList := by rw [h0, hnil.1]; simp
          have st := insertSegs3_spec hφ hd hψ g _ { c with triList := c.triList ++ [(cell : Int)] } c1 hf hsg htl hins
            hs1 ht1
          obtain ⟨a1, a2, a3, a4, a5, a6⟩ :=
            ih hnd' c1 st.finv st.sinv (by rw [ht1]; exact htl) h (by rw [hsame, ht1])
          rw [st.tris, freshCells_append_single c.triList cell rest hne] at a5
          exact ⟨a1, a2, a3.trans st.node, a4.trans st.surf, by rw [a5, hfr]; simp, a6.trans st.ledger⟩

theorem formCollapseTris_early (g : Grid α) (n0 n1 keep : Int) (cells : List (Nat × Tri)) (c c' : Cav)
    (s : Refine.Model.Cavity.St) (h : formCollapseTris g n0 n1 keep c cells = (s, c', true)) :
    s ≠ .ok ∨ c'.state = .partition_constrained := by
  induction cells generalizing c with
  | nil => simp [formCollapseTris] at h
  | cons p rest ih =>
    obtain ⟨cell, tri⟩ := p
    unfold formCollapseTris at h
    split at h
    · exact ih c h
    · simp only at h
      split at h
      · simp only [Prod.mk.injEq, and_true] at h; right; rw [← h.2]
      · split at h
        · exact ih _ h
        · rcases hins : insertSegs g { c with triList := c.triList ++ [(cell : Int)] }
            (([(tri.n0, tri.n1), (tri.n1, tri.n2), (tri.n2, tri.n0)].filter
              fun p => keep != p.1 && keep != p.2).map fun p => (⟨p.1, p.2, tri.id⟩ : Seg)) with ⟨s1, c1⟩
          rw [hins] at h
          cases s1 <;> simp only [] at h
          case ok => exact ih c1 h
          all_goals (simp only [Prod.mk.injEq, and_true] at h; left; rw [← h.1]; decide)


/-! ### form_edge_collapse assembled -/

/-- the cells the four loops list: ball of `n0`, then the cells of the ball of `n1` not yet listed -/
def ballA {β : Type} (s : Cells β) (nodes : β → List Int) (n0 : Int) : List (Nat × β) := s.having nodes n0
def ballB {β : Type} (s : Cells β) (nodes : β → List Int) (n0 n1 : Int) : List (Nat × β) :=
  freshCells ((ballA s nodes n0).map fun p => (p.1 : Int)) (s.having nodes n1)

/-- the faces `form_edge_collapse` leaves out, summed -/
def ballSkip (φ : Int → Int → Int → G) (g : Grid α) (n0 n1 : Int) : G :=
  ((ballA g.tets Tet.nodes n0).map fun p => faceSum φ (collapseSkip n0 n1 n0 p.2)).sum +
  ((ballB g.tets Tet.nodes n0 n1).map fun p => faceSum φ (collapseSkip n0 n1 n1 p.2)).sum

structure BallFormed (φ : Int → Int → Int → G) (g : Grid α) (n0 n1 : Int) (c' : Cav) : Prop where
  finv : SlotsInv c'.faces
  sinv : SlotsInv c'.segs
  node : c'.node = n0
  tets : c'.tetList = ((ballA g.tets Tet.nodes n0) ++ (ballB g.tets Tet.nodes n0 n1)).map fun p => (p.1 : Int)
  tris : c'.triList = ((ballA g.tris Tri.nodes n0) ++ (ballB g.tris Tri.nodes n0 n1)).map fun p => (p.1 : Int)
  ledger : ledgerVal φ c' = (c'.tetList.map (tetBd φ g)).sum - ballSkip φ g n0 n1

/-- local conformity around the two ends: the skipped faces leave exactly the boundary tris that contain an end -/
def BallMatched (φ : Int → Int → Int → G) (g : Grid α) (n0 n1 : Int) : Prop :=
  ballSkip φ g n0 n1 =
    (((ballA g.tris Tri.nodes n0) ++ (ballB g.tris Tri.nodes n0 n1)).map fun p => φ p.2.n0 p.2.n1 p.2.n2).sum

theorem freshCells_mem {β : Type} (l : List Int) (cells : List (Nat × β)) (p : Nat × β)
    (h : p ∈ freshCells l cells) : p ∈ cells := (List.mem_filter.mp h).1

theorem BallFormed.ledgerEq {φ : Int → Int → Int → G} {g : Grid α} {n0 n1 : Int} {c' : Cav}
    (h : BallFormed φ g n0 n1 c') (hm : BallMatched φ g n0 n1) : LedgerEq φ g c' := by
  unfold LedgerEq
  rw [h.ledger, hm, h.tris]
  rw [triVal_idx_sum φ g _ (fun p hp => by
    rcases List.mem_append.mp hp with h1 | h1
    · exact having_get g.tris Tri.nodes n0 p h1
    · exact having_get g.tris Tri.nodes n1 p (freshCells_mem _ _ p h1))]

theorem freshCells_nil {β : Type} (cells : List (Nat × β)) : freshCells [] cells = cells := by
  simp [freshCells]

/-- **`ref_cavity_form_edge_collapse`.**  If it returns ok with the state unknown and no tet beyond the two balls was
    pulled in, the cavity lists the ball of `n0` followed by the rest of the ball of `n1` (tets and tris) and its
    ledger is `∂T −` the skipped faces. -/
theorem formEdgeCollapse_formed {φ : Int → Int → Int → G} (hφ : Alt φ) (hd : Diag φ) (g : Grid α) (n0 n1 : Int)
    (c' : Cav) (h : formEdgeCollapse g Cav.create n0 n1 = (.ok, c')) (hs : c'.state = .unknown)
    (hne : g.tets.having Tet.nodes n0 ≠ [])
    (hndt0 : ((g.tets.having Tet.nodes n0).map (·.1)).Nodup) (hndt1 : ((g.tets.having Tet.nodes n1).map (·.1)).Nodup)
    (hnds0 : ((g.tris.having Tri.nodes n0).map (·.1)).Nodup) (hnds1 : ((g.tris.having Tri.nodes n1).map (·.1)).Nodup)
    (hextra : c'.tetList =
      ((ballA g.tets Tet.nodes n0) ++ (ballB g.tets Tet.nodes n0 n1)).map fun p => (p.1 : Int)) :
    BallFormed φ g n0 n1 c' := by
  obtain ⟨cf, cs, ct, ctr, cst, cvs, _⟩ := create_facts
  unfold formEdgeCollapse at h
  simp only at h
  split at h
  · simp only [Prod.mk.injEq, true_and] at h; rw [← h] at hs; simp at hs
  · split at h
    · next s1 c1 he =>
      simp only [Prod.mk.injEq] at h; obtain ⟨rfl, rfl⟩ := h
      rcases formCollapseTets_early g n0 n1 n0 _ _ _ _ he with e | e
      · exact absurd rfl e
      · rw [e] at hs; cases hs
    · next s1 cA heA =>
      obtain ⟨fA, ⟨gA1, gA2, gA3, gA4⟩, gA5, gA6, gA7, _⟩ :=
        formCollapseTets_spec hφ g n0 n1 n0 _ hndt0
          { Cav.create with node := n0, collapse0 := n0, collapse1 := n1 } cA s1 cf heA
      have hAt : cA.tetList = (ballA g.tets Tet.nodes n0).map fun p => (p.1 : Int) := by
        rw [gA6]; simp only [ct, List.nil_append, freshCells_nil]; rfl
      split at h
      · next s2 c2 he =>
        simp only [Prod.mk.injEq] at h; obtain ⟨rfl, rfl⟩ := h
        rcases formCollapseTets_early g n0 n1 n1 _ _ _ _ he with e | e
        · exact absurd rfl e
        · rw [e] at hs; cases hs
      · next s2 cB heB =>
        obtain ⟨fB, ⟨gB1, gB2, gB3, gB4⟩, gB5, gB6, gB7, _⟩ :=
          formCollapseTets_spec hφ g n0 n1 n1 _ hndt1 cA cB s2 fA heB
        have hBt : cB.tetList =
            ((ballA g.tets Tet.nodes n0) ++ (ballB g.tets Tet.nodes n0 n1)).map fun p => (p.1 : Int) := by
          rw [gB6, hAt]; simp only [List.map_append]; rfl
        have hBne : cB.tetList ≠ [] := by
          rw [hBt]
          intro e
          have := List.map_eq_nil_iff.mp e
          exact hne (List.append_eq_nil_iff.mp this).1
        have hBsum : rowsSum φ cB.faces.rows = (cB.tetList.map (tetBd φ g)).sum - ballSkip φ g n0 n1 := by
          rw [gB7, gA7, hBt]
          have hz : rowsSum φ ({ Cav.create with node := n0, collapse0 := n0, collapse1 := n1 } : Cav).faces.rows = 0 :=
            rowsSum_create φ
          rw [hz]
          simp only [ct, freshCells_nil]
          rw [sum_map_sub, sum_map_sub, hAt]
          rw [tetBd_idx_sum φ g _ (fun p hp => by
            rcases List.mem_append.mp hp with h1 | h1
            · exact having_get g.tets Tet.nodes n0 p h1
            · exact having_get g.tets Tet.nodes n1 p (freshCells_mem _ _ p h1))]
          simp only [List.map_append, List.sum_append, ballSkip, ballA, ballB]
          abel
        have hBsegs : cB.validSegs = [] := by simp only [Cav.validSegs, gB1, gA1]; exact cvs
        have hBtris : cB.triList = [] := by rw [gB4, gA4]; exact ctr
        split at h
        · next s3 c3 he =>
          simp only [Prod.mk.injEq] at h; obtain ⟨rfl, rfl⟩ := h
          rcases formCollapseTris_early g n0 n1 n0 _ _ _ _ he with e | e
          · exact absurd rfl e
          · rw [e] at hs; cases hs
        · next s3 cC heC =>
          split at h
          · next s4 c4 he =>
            simp only [Prod.mk.injEq] at h; obtain ⟨rfl, rfl⟩ := h
            rcases formCollapseTris_early g n0 n1 n1 _ _ _ _ he with e | e
            · exact absurd rfl e
            · rw [e] at hs; cases hs
          · next s4 cD heD =>
            have := verifyBoth_spec cD c' _ h hs
            subst this
            -- tet list is constant through the two tri loops
            obtain ⟨lC, hC⟩ := formCollapseTris_prefix g n0 n1 n0 (g.tris.having Tri.nodes n0) cB
            rw [heC] at hC
            have hC : cC.tetList = cB.tetList ++ lC := hC
            obtain ⟨lD, hD⟩ := formCollapseTris_prefix g n0 n1 n1 (g.tris.having Tri.nodes n1) cC
            rw [heD] at hD
            have hD : c'.tetList = cC.tetList ++ lD := hD
            have hnil : lC = [] ∧ lD = [] := by
              have e : cB.tetList ++ [] = cB.tetList ++ (lC ++ lD) := by
                rw [List.append_nil, ← List.append_assoc, ← hC, ← hD, hextra, hBt]
              exact List.append_eq_nil_iff.mp (List.append_cancel_left e).symm
            have hCt : cC.tetList = cB.tetList := by rw [hC, hnil.1]; simp
            have hDt : c'.tetList = cC.tetList := by rw [hD, hnil.2]; simp
            have hsC : cC.state = .unknown := formCollapseTris_state_mono g n0 n1 n1 _ cC c' _ _ heD hs
            obtain ⟨c1, c2, c3, c4, c5, c6⟩ :=
              formCollapseTris_spec hφ hd g n0 n1 n0 _ hnds0 cB cC s3 fB (by rw [gB1, gA1]; exact cs) hBne heC hsC hCt
            obtain ⟨d1, d2, d3, d4, d5, d6⟩ :=
              formCollapseTris_spec hφ hd g n0 n1 n1 _ hnds1 cC c' s4 c1 c2 (by rw [hCt]; exact hBne) heD hs hDt
            refine ⟨d1, d2, ?_, hextra, ?_, ?_⟩
            · rw [d3, c3, gB2, gA2]
            · rw [d5, c5, hBtris]
              simp only [List.nil_append, freshCells_nil, List.map_append]
              rfl
            · rw [d6, c6, hDt, hCt, ← hBsum]
              simp only [ledgerVal, hBsegs, coneSum, List.map_nil, List.sum_nil, sub_zero]


/-! ### `BallMatched` from global conformity -/

/-- `φ` restricted to the triples that contain `n0` or `n1` -/
def φBall (φ : Int → Int → Int → G) (n0 n1 : Int) (a b c : Int) : G :=
  if (a = n0 ∨ b = n0 ∨ c = n0) ∨ (a = n1 ∨ b = n1 ∨ c = n1) then φ a b c else 0

theorem φBall_alt {φ : Int → Int → Int → G} (hφ : Alt φ) (n0 n1 : Int) : Alt (φBall φ n0 n1) := by
  refine ⟨fun a b c => ?_, fun a b c => ?_⟩
  · unfold φBall
    have e : ((b = n0 ∨ c = n0 ∨ a = n0) ∨ (b = n1 ∨ c = n1 ∨ a = n1)) ↔
        ((a = n0 ∨ b = n0 ∨ c = n0) ∨ (a = n1 ∨ b = n1 ∨ c = n1)) := by
      constructor <;> intro h <;> omega
    by_cases h : (a = n0 ∨ b = n0 ∨ c = n0) ∨ (a = n1 ∨ b = n1 ∨ c = n1)
    · rw [if_pos h, if_pos (e.mpr h)]; exact hφ.rot a b c
    · rw [if_neg h, if_neg (fun h' => h (e.mp h'))]
  · unfold φBall
    have e : ((b = n0 ∨ a = n0 ∨ c = n0) ∨ (b = n1 ∨ a = n1 ∨ c = n1)) ↔
        ((a = n0 ∨ b = n0 ∨ c = n0) ∨ (a = n1 ∨ b = n1 ∨ c = n1)) := by
      constructor <;> intro h <;> omega
    by_cases h : (a = n0 ∨ b = n0 ∨ c = n0) ∨ (a = n1 ∨ b = n1 ∨ c = n1)
    · rw [if_pos h, if_pos (e.mpr h)]; exact hφ.swap a b c
    · rw [if_neg h, if_neg (fun h' => h (e.mp h'))]; simp

theorem φBall_face (φ : Int → Int → Int → G) (n0 n1 : Int) (f : Face) :
    φF (φBall φ n0 n1) f = if f.has n0 || f.has n1 then φF φ f else 0 := by
  simp only [φF, φBall, Face.has, Bool.or_eq_true, beq_iff_eq]
  have e : ((f.n0 = n0 ∨ f.n1 = n0 ∨ f.n2 = n0) ∨ (f.n0 = n1 ∨ f.n1 = n1 ∨ f.n2 = n1)) ↔
      (((n0 = f.n0 ∨ n0 = f.n1) ∨ n0 = f.n2) ∨ ((n1 = f.n0 ∨ n1 = f.n1) ∨ n1 = f.n2)) := by
    constructor <;> intro h <;> omega
  by_cases h : (f.n0 = n0 ∨ f.n1 = n0 ∨ f.n2 = n0) ∨ (f.n0 = n1 ∨ f.n1 = n1 ∨ f.n2 = n1)
  · rw [if_pos h, if_pos (e.mp h)]
  · rw [if_neg h, if_neg (fun h' => h (e.mpr h'))]

theorem faceSum_φBall (φ : Int → Int → Int → G) (n0 n1 : Int) (l : List Face) :
    faceSum (φBall φ n0 n1) l = faceSum φ (l.filter fun f => f.has n0 || f.has n1) := by
  induction l with
  | nil => simp [faceSum]
  | cons f t ih =>
    simp only [faceSum, List.map_cons, List.sum_cons, List.filter_cons] at ih ⊢
    rw [φBall_face, ih]
    by_cases h : (f.has n0 || f.has n1) = true
    · simp only [h, if_true, List.map_cons, List.sum_cons]
    · simp only [h, Bool.false_eq_true, if_false, zero_add]

/-- a face of a tet misses exactly one of its nodes: with both `n0 ≠ n1` in the tet every face has one of them -/
theorem tetFaces_has_one (t : Tet) (n0 n1 : Int) (hne : n0 ≠ n1) (h0 : t.nodes.contains n0 = true)
    (h1 : t.nodes.contains n1 = true) : ∀ f ∈ tetFaces t, (f.has n0 || f.has n1) = true := by
  rcases t with ⟨a, b, c, d⟩
  simp only [Tet.nodes, List.contains_cons, List.contains_nil, Bool.or_false, Bool.or_eq_true, beq_iff_eq] at h0 h1
  intro f hf
  rw [tetFaces_eq] at hf
  simp only [List.mem_cons, List.not_mem_nil, or_false] at hf
  simp only [Face.has, Bool.or_eq_true, beq_iff_eq]
  rcases hf with rfl | rfl | rfl | rfl <;> simp only <;> omega

theorem face_has_of_not_contains (t : Tet) (v : Int) (h : t.nodes.contains v = false) :
    ∀ f ∈ tetFaces t, f.has v = false := by
  intro f hf
  by_contra hh
  have := tetFaces_nodes t f hf v (by simpa using hh)
  rw [h] at this; cases this

/-- the filter "has `n0` or `n1`" on the faces of a tet is what the collapse loops skip -/
theorem filterBall_A (t : Tet) (n0 n1 : Int) (hne : n0 ≠ n1) (h0 : t.nodes.contains n0 = true) :
    ((tetFaces t).filter fun f => f.has n0 || f.has n1) = collapseSkip n0 n1 n0 t := by
  unfold collapseSkip
  by_cases h1 : t.nodes.contains n1 = true
  · simp only [h0, h1, Bool.and_self, if_true]
    exact List.filter_eq_self.mpr (tetFaces_has_one t n0 n1 hne h0 h1)
  · simp only [h0, h1, Bool.and_false, Bool.false_eq_true, if_false]
    apply List.filter_congr
    intro f hf
    have := face_has_of_not_contains t n1 (by simpa using h1) f hf
    rw [this]; simp

theorem filterBall_B (t : Tet) (n0 n1 : Int) (h0 : t.nodes.contains n0 = false) :
    ((tetFaces t).filter fun f => f.has n0 || f.has n1) = collapseSkip n0 n1 n1 t := by
  unfold collapseSkip
  simp only [h0, Bool.false_and, Bool.false_eq_true, if_false]
  apply List.filter_congr
  intro f hf
  have := face_has_of_not_contains t n0 h0 f hf
  rw [this]; simp

theorem filterBall_none (t : Tet) (n0 n1 : Int) (h0 : t.nodes.contains n0 = false) (h1 : t.nodes.contains n1 = false) :
    ((tetFaces t).filter fun f => f.has n0 || f.has n1) = [] := by
  rw [List.filter_eq_nil_iff]
  intro f hf
  rw [face_has_of_not_contains t n0 h0 f hf, face_has_of_not_contains t n1 h1 f hf]; simp

/-- the registration-order walk of a cell store -/
def walk {β : Type} (s : Cells β) : List β := s.order.filterMap fun c => s.slots.rows.getD c none

theorem having_eq {β : Type} (s : Cells β) (nodes : β → List Int) (v : Int) :
    (s.having nodes v).map (·.2) = (walk s).filter fun x => (nodes x).contains v := by
  unfold Cells.having walk
  induction s.order with
  | nil => simp
  | cons c rest ih =>
    simp only [List.filterMap_cons]
    cases hrow : s.slots.rows.getD c none with
    | none => simp only [hrow]; exact ih
    | some x =>
      simp only [hrow]
      by_cases hv : (nodes x).contains v = true
      · simp only [hv, if_true, List.filter_cons, List.map_cons]; rw [ih]
      · simp only [hv, Bool.false_eq_true, if_false, List.filter_cons]; exact ih

theorem mem_having_iff {β : Type} (s : Cells β) (nodes : β → List Int) (v : Int) (i : Nat) (x : β) :
    (i, x) ∈ s.having nodes v ↔ i ∈ s.order ∧ s.slots.rows.getD i none = some x ∧ (nodes x).contains v = true := by
  unfold Cells.having
  simp only [List.mem_filterMap]
  constructor
  · rintro ⟨c, hc, hx⟩
    cases hrow : s.slots.rows.getD c none with
    | none => rw [hrow] at hx; cases hx
    | some y =>
      rw [hrow] at hx
      simp only at hx
      split at hx
      · next hh =>
        simp only [Option.some.injEq, Prod.mk.injEq] at hx
        obtain ⟨rfl, rfl⟩ := hx
        exact ⟨hc, hrow, hh⟩
      · cases hx
  · rintro ⟨hc, hrow, hh⟩
    exact ⟨i, hc, by simp only [hrow, hh, if_true]⟩

/-- the second loop's fresh cells are the cells around `n1` that do not contain `n0` -/
theorem ballB_eq {β : Type} (s : Cells β) (nodes : β → List Int) (n0 n1 : Int) :
    ballB s nodes n0 n1 = (s.having nodes n1).filter fun p => !((nodes p.2).contains n0) := by
  unfold ballB ballA freshCells
  apply List.filter_congr
  intro p hp
  obtain ⟨i, x⟩ := p
  have hp' := (mem_having_iff s nodes n1 i x).mp hp
  congr 1
  by_cases hc : (nodes x).contains n0 = true
  · rw [hc]
    apply List.contains_iff_mem.mpr
    exact List.mem_map.mpr ⟨(i, x), (mem_having_iff s nodes n0 i x).mpr ⟨hp'.1, hp'.2.1, hc⟩, rfl⟩
  · have hc' : (nodes x).contains n0 = false := by simpa using hc
    rw [hc']
    apply Bool.eq_false_iff.mpr
    intro hm
    obtain ⟨q, hq, hqe⟩ := List.mem_map.mp (List.contains_iff_mem.mp hm)
    obtain ⟨j, y⟩ := q
    simp only [Int.natCast_inj] at hqe
    subst hqe
    have hq' := (mem_having_iff s nodes n0 j y).mp hq
    rw [hp'.2.1] at hq'
    simp only [Option.some.injEq] at hq'
    rw [hq'.2.1] at hc'
    rw [hq'.2.2] at hc'; cases hc'

theorem sum_filter_split {β : Type} (l : List β) (p : β → Bool) (F : β → G) :
    (l.map F).sum = ((l.filter p).map F).sum + ((l.filter fun x => !(p x)).map F).sum := by
  induction l with
  | nil => simp
  | cons a t ih =>
    simp only [List.map_cons, List.sum_cons, List.filter_cons]
    cases hp : p a with
    | true => simp only [if_true, Bool.not_true, Bool.false_eq_true, if_false, List.map_cons, List.sum_cons, ih]; abel
    | false => simp only [Bool.false_eq_true, if_false, Bool.not_false, if_true, List.map_cons, List.sum_cons, ih]; abel

theorem ball_sum {β : Type} (s : Cells β) (nodes : β → List Int) (n0 n1 : Int) (F : β → G)
    (hz : ∀ x, (nodes x).contains n0 = false → (nodes x).contains n1 = false → F x = 0) :
    ((walk s).map F).sum =
      ((ballA s nodes n0).map fun p => F p.2).sum + ((ballB s nodes n0 n1).map fun p => F p.2).sum := by
  rw [sum_filter_split (walk s) (fun x => (nodes x).contains n0) F]
  congr 1
  · rw [← having_eq s nodes n0, List.map_map]; rfl
  · rw [sum_filter_zero _ (fun x => (nodes x).contains n1) F]
    · rw [ballB_eq]
      have : ((s.having nodes n1).filter fun p => !((nodes p.2).contains n0)).map (fun p => F p.2) =
          ((((s.having nodes n1).map (·.2)).filter fun x => !((nodes x).contains n0)).map F) := by
        rw [List.filter_map, List.map_map]; rfl
      rw [this, having_eq s nodes n1, List.filter_filter, List.filter_filter]
      congr 2
      apply List.filter_congr
      intro x _
      exact Bool.and_comm _ _
    · intro x hx hp
      have := (List.mem_filter.mp hx).2
      exact hz x (by simpa using this) hp

/-- **localisation for the collapse**: on a conforming grid with consistent adjacency and `n0 ≠ n1`, the faces the
    collapse loops skip are matched by the boundary tris that contain `n0` or `n1` -/
theorem ballMatched_of_conforming {φ : Int → Int → Int → G} (hφ : Alt φ) (g : Grid α) (n0 n1 : Int) (hne : n0 ≠ n1)
    (hot : OrderOK g.tets) (hos : OrderOK g.tris)
    (hconf : ∀ χ : Int → Int → Int → G, Alt χ → meshBd χ g = 0) : BallMatched φ g n0 n1 := by
  have h := hconf (φBall φ n0 n1) (φBall_alt hφ n0 n1)
  unfold meshBd tetsBd at h
  have e1 : (g.tets.valid.map fun t => faceSum (φBall φ n0 n1) (tetFaces t)).sum = ballSkip φ g n0 n1 := by
    simp only [faceSum_φBall]
    rw [← (hot.map fun t => faceSum φ ((tetFaces t).filter fun f => f.has n0 || f.has n1)).sum_eq]
    have := ball_sum g.tets Tet.nodes n0 n1
      (fun t => faceSum φ ((tetFaces t).filter fun f => f.has n0 || f.has n1))
      (fun t h0 h1 => by rw [filterBall_none t n0 n1 h0 h1]; simp [faceSum])
    unfold walk at this
    rw [this]
    unfold ballSkip
    congr 1
    · apply congrArg
      apply List.map_congr_left
      intro p hp
      obtain ⟨i, x⟩ := p
      have := ((mem_having_iff g.tets Tet.nodes n0 i x).mp hp).2.2
      simp only [filterBall_A x n0 n1 hne this]
    · apply congrArg
      apply List.map_congr_left
      intro p hp
      rw [ballB_eq] at hp
      have := (List.mem_filter.mp hp).2
      simp only [filterBall_B p.2 n0 n1 (by simpa using this)]
  have e2 : (g.tris.valid.map fun t => φBall φ n0 n1 t.n0 t.n1 t.n2).sum =
      (((ballA g.tris Tri.nodes n0) ++ (ballB g.tris Tri.nodes n0 n1)).map fun p => φ p.2.n0 p.2.n1 p.2.n2).sum := by
    rw [← (hos.map fun t => φBall φ n0 n1 t.n0 t.n1 t.n2).sum_eq]
    have := ball_sum g.tris Tri.nodes n0 n1 (fun t => φBall φ n0 n1 t.n0 t.n1 t.n2)
      (fun t h0 h1 => by
        simp only [Tri.nodes, List.contains_cons, List.contains_nil, Bool.or_false, Bool.or_eq_false_iff,
          beq_eq_false_iff_ne, ne_eq] at h0 h1
        simp only [φBall]
        rw [if_neg]
        intro hh
        rcases hh with (e | e | e) | (e | e | e)
        · exact h0.1 e.symm
        · exact h0.2.1 e.symm
        · exact h0.2.2 e.symm
        · exact h1.1 e.symm
        · exact h1.2.1 e.symm
        · exact h1.2.2 e.symm)
    unfold walk at this
    rw [this, List.map_append, List.sum_append]
    congr 1
    · apply congrArg
      apply List.map_congr_left
      intro p hp
      obtain ⟨i, x⟩ := p
      have hc := ((mem_having_iff g.tris Tri.nodes n0 i x).mp hp).2.2
      simp only [Tri.nodes, List.contains_cons, List.contains_nil, Bool.or_false, Bool.or_eq_true, beq_iff_eq] at hc
      simp only [φBall]
      rw [if_pos]
      left
      omega
    · apply congrArg
      apply List.map_congr_left
      intro p hp
      obtain ⟨i, x⟩ := p
      have hp1 := freshCells_mem _ _ _ hp
      have hc := ((mem_having_iff g.tris Tri.nodes n1 i x).mp hp1).2.2
      simp only [Tri.nodes, List.contains_cons, List.contains_nil, Bool.or_false, Bool.or_eq_true, beq_iff_eq] at hc
      simp only [φBall]
      rw [if_pos]
      right
      omega
  rw [e1, e2] at h
  exact sub_eq_zero.mp h


theorem ball_idx_nodup {β : Type} (s : Cells β) (nodes : β → List Int) (n0 n1 : Int)
    (h0 : ((s.having nodes n0).map (·.1)).Nodup) (h1 : ((s.having nodes n1).map (·.1)).Nodup) :
    (((ballA s nodes n0) ++ (ballB s nodes n0 n1)).map fun p => (p.1 : Int)).Nodup := by
  have inj : ∀ (l : List (Nat × β)), (l.map (·.1)).Nodup → (l.map fun p => (p.1 : Int)).Nodup := by
    intro l hl
    have : (l.map fun p => (p.1 : Int)) = (l.map (·.1)).map (fun (i : Nat) => (i : Int)) := by
      rw [List.map_map]; rfl
    rw [this]
    exact hl.map (fun a b hab => by exact_mod_cast hab)
  rw [List.map_append]
  refine List.nodup_append.mpr ⟨inj _ h0, ?_, ?_⟩
  · apply inj
    unfold ballB freshCells
    exact h1.sublist ((List.filter_sublist).map _)
  · intro x hx y hy hxy
    subst hxy
    obtain ⟨p, hp, rfl⟩ := List.mem_map.mp hy
    have := (List.mem_filter.mp hp).2
    simp only [Bool.not_eq_true', ballA] at this
    have hc : ((s.having nodes n0).map fun p => (p.1 : Int)).contains (p.1 : Int) = true :=
      List.contains_iff_mem.mpr hx
    rw [hc] at this; cases this

theorem BallFormed.cavInv {φ : Int → Int → Int → G} {g : Grid α} {n0 n1 : Int} {c' : Cav}
    (h : BallFormed φ g n0 n1 c')
    (hndt0 : ((g.tets.having Tet.nodes n0).map (·.1)).Nodup) (hndt1 : ((g.tets.having Tet.nodes n1).map (·.1)).Nodup)
    (hnds0 : ((g.tris.having Tri.nodes n0).map (·.1)).Nodup) (hnds1 : ((g.tris.having Tri.nodes n1).map (·.1)).Nodup) :
    CavInv g c' := by
  refine ⟨h.finv, h.sinv, ?_, by rw [h.tets]; exact ball_idx_nodup g.tets Tet.nodes n0 n1 hndt0 hndt1, ?_,
    by rw [h.tris]; exact ball_idx_nodup g.tris Tri.nodes n0 n1 hnds0 hnds1⟩
  · intro cell hc
    rw [h.tets] at hc
    obtain ⟨p, hp, rfl⟩ := List.mem_map.mp hc
    rcases List.mem_append.mp hp with h1 | h1
    · exact ⟨p.2, having_get g.tets Tet.nodes n0 p h1⟩
    · exact ⟨p.2, having_get g.tets Tet.nodes n1 p (freshCells_mem _ _ p h1)⟩
  · intro cell hc
    rw [h.tris] at hc
    obtain ⟨p, hp, rfl⟩ := List.mem_map.mp hc
    rcases List.mem_append.mp hp with h1 | h1
    · exact ⟨p.2, having_get g.tris Tri.nodes n0 p h1⟩
    · exact ⟨p.2, having_get g.tris Tri.nodes n1 p (freshCells_mem _ _ p h1)⟩

end Refine.Lemmas.Cavity2
