import Refine.Model.InterpPack

/-! helper lemmas for `Props/C05Pack.lean`: indexing into the arrays `interpPack` builds, and the renumbering
    `NodeIds.stableCompact` computes (`numberSlots` / `selectSlots`). -/
namespace Refine.Lemmas.InterpPack
open Refine.Model Refine.Model.InterpPack Refine.Model.NodeIds
open Refine.Model.SmoothInterp (EMPTY)

variable {α : Type}

theorem getD_map_range_append {X : Type} (n : Nat) (f : Nat → X) (tl : List X) (d : X) (k : Nat) (hk : k < n) :
    (((List.range n).map f) ++ tl).getD k d = f k := by
  rw [List.getD_eq_getElem?_getD, List.getElem?_append_left (by simpa using hk)]
  simp [hk]

theorem getD_map_range_replicate {X : Type} (n c : Nat) (f : Nat → X) (d : X) (k : Nat) (hk : n ≤ k) :
    (((List.range n).map f) ++ List.replicate c d).getD k d = d := by
  rw [List.getD_eq_getElem?_getD, List.getElem?_append_right (by simpa using hk)]
  simp only [List.length_map, List.length_range]
  by_cases h : k - n < c
  · simp [h]
  · simp [List.getElem?_replicate, h]

theorem range4 (g : Nat → α) : (List.range 4).map g = [g 0, g 1, g 2, g 3] := by
  simp [List.range, List.range.loop]

theorem blocks_length (n : Nat) (g : Nat → List α) (hg : ∀ node, (g node).length = 4) :
    ((List.range n).flatMap g).length = 4 * n := by
  induction n with
  | zero => simp
  | succ n ih =>
    rw [List.range_succ, List.flatMap_append, List.length_append, ih]
    simp [hg]
    omega

/-- entry `i + 4*k` of the flat array written block by block is entry `i` of block `k` -/
theorem blocks_getD (n : Nat) (g : Nat → List α) (hg : ∀ node, (g node).length = 4) (tl : List α) (d : α)
    (k i : Nat) (hk : k < n) (hi : i < 4) :
    (((List.range n).flatMap g) ++ tl).getD (i + 4 * k) d = (g k).getD i d := by
  induction n generalizing tl with
  | zero => omega
  | succ n ih =>
    rw [List.range_succ, List.flatMap_append, List.append_assoc]
    by_cases hkn : k < n
    · exact ih _ hkn
    · have hke : k = n := by omega
      subst hke
      rw [List.getD_eq_getElem?_getD, List.getElem?_append_right (by rw [blocks_length _ _ hg]; omega),
        blocks_length _ _ hg]
      have : i + 4 * k - 4 * k = i := by omega
      rw [this]
      simp only [List.flatMap_cons, List.flatMap_nil, List.append_nil]
      rw [List.getElem?_append_left (by rw [hg]; exact hi), ← List.getD_eq_getElem?_getD]

/-! ### what a successful `interpPack` is -/

theorem interpPack_ok {junk : α} {n : Nat} {n2o : List Int} {it it' : Interp α}
    (h : interpPack junk n 0 n2o it = .ok it') :
    n ≤ it.max ∧ (∀ v, v < n → 0 ≤ n2o.getD v 0 ∧ old n2o v < it.max) ∧
    it' = { it with
      cell := ((List.range n).map fun node => it.cell.getD (old n2o node) EMPTY) ++ List.replicate (it.max - n) EMPTY,
      part := ((List.range n).map fun node => it.part.getD (old n2o node) EMPTY) ++ List.replicate (it.max - n) EMPTY,
      bary := ((List.range n).flatMap fun node => (List.range 4).map fun i => it.bary.getD (i + 4 * old n2o node) junk)
                ++ it.bary.drop (4 * n) } := by
  unfold interpPack at h
  by_cases hn : n > it.max
  · exfalso
    have hpb : packInBounds n n2o it.max = false := by
      unfold packInBounds
      have : decide (n ≤ it.max) = false := by simp; omega
      rw [this]; rfl
    simp only [hn, if_true, ne_eq, not_true_eq_false, if_false, hpb, Bool.not_false] at h
    split at h <;> cases h
  · simp only [hn, if_false, ne_eq, not_true_eq_false] at h
    by_cases hc : (it.hired.take it.max).contains true = true
    · rw [if_pos hc] at h; cases h
    · rw [if_neg hc] at h
      by_cases hb : (!packInBounds n n2o it.max) = true
      · rw [if_pos hb] at h; cases h
      · rw [if_neg hb] at h
        simp only [Bool.not_eq_true, Bool.not_eq_false'] at hb
        unfold packInBounds at hb
        simp only [Bool.and_eq_true, decide_eq_true_eq, List.all_eq_true, List.mem_range] at hb
        injection h with h
        exact ⟨hb.1, fun v hv => hb.2 v hv, h.symm⟩

/-! ### `numberSlots` / `selectSlots` -/

/-- the selected indices of `gp`, counted from `j0` -/
def sel' (sel : Int → Int → Bool) (gp : List (Int × Int)) (j0 : Nat) : List Nat :=
  ((gp.zipIdx j0).filter fun x => sel x.1.1 x.1.2).map (·.2)

theorem sel'_cons (sel : Int → Int → Bool) (g p : Int) (rest : List (Int × Int)) (j0 : Nat) :
    sel' sel ((g, p) :: rest) j0 = if sel g p then j0 :: sel' sel rest (j0 + 1) else sel' sel rest (j0 + 1) := by
  unfold sel'
  rw [List.zipIdx_cons, List.filter_cons]
  by_cases h : sel g p = true <;> simp [h]

/-- a selected slot `i` gets the number `k + r` where `r` is its rank among the selected slots, and the `r`-th
    selected slot is `i` -/
theorem numberSlots_fwd (sel : Int → Int → Bool) :
    ∀ (gp : List (Int × Int)) (base : List Int) (k j0 i : Nat), gp.length ≤ base.length → i < gp.length →
      sel (gp.getD i (0, 0)).1 (gp.getD i (0, 0)).2 = true →
      ∃ r, r < (sel' sel gp j0).length ∧ (NodeIds.numberSlots sel gp base k).getD i 0 = ((k + r : Nat) : Int) ∧
        (sel' sel gp j0).getD r 0 = j0 + i := by
  intro gp
  induction gp with
  | nil => intro base k j0 i _ hi; simp at hi
  | cons x rest ih =>
    obtain ⟨g, p⟩ := x
    intro base k j0 i hlen hi hsel
    cases base with
    | nil => simp at hlen
    | cons b bs =>
      have hlen' : rest.length ≤ bs.length := by simpa using hlen
      rw [sel'_cons]
      by_cases hgp : sel g p = true
      · simp only [NodeIds.numberSlots, hgp, if_true]
        cases i with
        | zero => exact ⟨0, by simp, by simp, by simp⟩
        | succ i' =>
          have hi' : i' < rest.length := by simpa using hi
          obtain ⟨r, hr, h1, h2⟩ := ih bs (k + 1) (j0 + 1) i' hlen' hi' (by simpa using hsel)
          refine ⟨r + 1, by simpa using hr, ?_, ?_⟩
          · simp only [List.getD_cons_succ]; rw [h1]; congr 1; omega
          · simp only [List.getD_cons_succ]; rw [h2]; omega
      · simp only [NodeIds.numberSlots, hgp, if_false, Bool.false_eq_true]
        cases i with
        | zero => simp at hsel; exact absurd hsel hgp
        | succ i' =>
          have hi' : i' < rest.length := by simpa using hi
          obtain ⟨r, hr, h1, h2⟩ := ih bs k (j0 + 1) i' hlen' hi' (by simpa using hsel)
          refine ⟨r, hr, ?_, ?_⟩
          · simp only [List.getD_cons_succ]; exact h1
          · rw [h2]; omega

/-- every entry of the selected list is a selected slot carrying its own rank -/
theorem numberSlots_bwd (sel : Int → Int → Bool) :
    ∀ (gp : List (Int × Int)) (base : List Int) (k j0 r : Nat), gp.length ≤ base.length → r < (sel' sel gp j0).length →
      ∃ i, i < gp.length ∧ sel (gp.getD i (0, 0)).1 (gp.getD i (0, 0)).2 = true ∧
        (sel' sel gp j0).getD r 0 = j0 + i ∧ (NodeIds.numberSlots sel gp base k).getD i 0 = ((k + r : Nat) : Int) := by
  intro gp
  induction gp with
  | nil => intro base k j0 r _ hr; simp [sel'] at hr
  | cons x rest ih =>
    obtain ⟨g, p⟩ := x
    intro base k j0 r hlen hr
    cases base with
    | nil => simp at hlen
    | cons b bs =>
      have hlen' : rest.length ≤ bs.length := by simpa using hlen
      rw [sel'_cons] at hr ⊢
      by_cases hgp : sel g p = true
      · simp only [hgp, if_true] at hr ⊢
        simp only [NodeIds.numberSlots, hgp, if_true]
        cases r with
        | zero => exact ⟨0, by simp, by simpa using hgp, by simp, by simp⟩
        | succ r' =>
          have hr' : r' < (sel' sel rest (j0 + 1)).length := by simpa using hr
          obtain ⟨i, hi, hs, h1, h2⟩ := ih bs (k + 1) (j0 + 1) r' hlen' hr'
          refine ⟨i + 1, by simpa using hi, by simpa using hs, ?_, ?_⟩
          · simp only [List.getD_cons_succ]; rw [h1]; omega
          · simp only [List.getD_cons_succ]; rw [h2]; congr 1; omega
      · simp only [hgp, if_false, Bool.false_eq_true] at hr ⊢
        simp only [NodeIds.numberSlots, hgp, if_false, Bool.false_eq_true]
        obtain ⟨i, hi, hs, h1, h2⟩ := ih bs k (j0 + 1) r hlen' hr
        refine ⟨i + 1, by simpa using hi, by simpa using hs, ?_, ?_⟩
        · rw [h1]; omega
        · simp only [List.getD_cons_succ]; exact h2

end Refine.Lemmas.InterpPack
