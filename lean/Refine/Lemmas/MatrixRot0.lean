import Refine.Lemmas.MatrixDiag2

/-!
  The first rotation of `ref_matrix_diag_m` over ℝ: an orthogonal similarity to tridiagonal form.
-/
namespace Refine.Model.Matrix
open Refine Refine.ScalarReal

/-- `Q T Qᵀ` (upper triangle) for `Q` = the vectors of `d` as columns and
    `T = [[l0, e0, 0], [e0, l1, e1], [0, e1, l2]]` -/
def tridiagForm (d : Eig12 ℝ) (e0 e1 : ℝ) : M6 ℝ :=
  { m11 := d.l0 * d.x0 * d.x0 + d.l1 * d.x1 * d.x1 + d.l2 * d.x2 * d.x2
            + 2 * e0 * d.x0 * d.x1 + 2 * e1 * d.x1 * d.x2
    m12 := d.l0 * d.x0 * d.y0 + d.l1 * d.x1 * d.y1 + d.l2 * d.x2 * d.y2
            + e0 * (d.x0 * d.y1 + d.x1 * d.y0) + e1 * (d.x1 * d.y2 + d.x2 * d.y1)
    m13 := d.l0 * d.x0 * d.z0 + d.l1 * d.x1 * d.z1 + d.l2 * d.x2 * d.z2
            + e0 * (d.x0 * d.z1 + d.x1 * d.z0) + e1 * (d.x1 * d.z2 + d.x2 * d.z1)
    m22 := d.l0 * d.y0 * d.y0 + d.l1 * d.y1 * d.y1 + d.l2 * d.y2 * d.y2
            + 2 * e0 * d.y0 * d.y1 + 2 * e1 * d.y1 * d.y2
    m23 := d.l0 * d.y0 * d.z0 + d.l1 * d.y1 * d.z1 + d.l2 * d.y2 * d.z2
            + e0 * (d.y0 * d.z1 + d.y1 * d.z0) + e1 * (d.y1 * d.z2 + d.y2 * d.z1)
    m33 := d.l0 * d.z0 * d.z0 + d.l1 * d.z1 * d.z1 + d.l2 * d.z2 * d.z2
            + 2 * e0 * d.z0 * d.z1 + 2 * e1 * d.z1 * d.z2 }

/-- with a zero sub-diagonal the tridiagonal form is `formM` -/
theorem tridiagForm_zero (d : Eig12 ℝ) : tridiagForm d 0 0 = formM d := by
  apply M6.ext' <;> simp only [tridiagForm, formM, mul_eq, add_eq] <;> ring

theorem rot0_e2 (m : M6 ℝ) : (rot0 m).e2 = 0 := by
  unfold rot0; dsimp only; split_ifs <;> simp only [zero_eq]

theorem rot0_f (m : M6 ℝ) : (rot0 m).f = 0 := by
  unfold rot0; dsimp only; split_ifs <;> simp only [zero_eq]

theorem rot0_tst1 (m : M6 ℝ) : (rot0 m).tst1 = 0 := by
  unfold rot0; dsimp only; split_ifs <;> simp only [zero_eq]

/-- the first rotation: orthonormal vectors, `Q T Qᵀ = m` with the coded d and e.
    In the `else` branch (L not a usable divisor, over ℝ: m12 = m13 = 0) Q is the identity. -/
theorem rot0_spec (m : M6 ℝ) :
    Orthonormal (rot0 m).d ∧ tridiagForm (rot0 m).d (rot0 m).e0 (rot0 m).e1 = m := by
  cases m with
  | mk m11 m12 m13 m22 m23 m33 =>
  unfold rot0
  simp only [mul_eq, add_eq, sqrt_eq]
  set L := Real.sqrt (m12 * m12 + m13 * m13) with hL
  have hLL : L * L = m12 * m12 + m13 * m13 := by
    rw [hL]; exact Real.mul_self_sqrt (add_nonneg (mul_self_nonneg _) (mul_self_nonneg _))
  have hL0 : 0 ≤ L := Real.sqrt_nonneg _
  by_cases hdiv : (Scalar.divisible m12 L && Scalar.divisible m13 L) = true
  · rw [if_pos hdiv]
    have hLne : L ≠ 0 := divisible_ne_zero (Bool.and_eq_true_iff.mp hdiv).1
    simp only [div_eq, mul_eq, add_eq, sub_eq, neg_eq, one_eq, zero_eq, two_eq]
    have hu : m12 / L * L = m12 := by field_simp
    have hv : m13 / L * L = m13 := by field_simp
    have huv : m12 / L * (m12 / L) + m13 / L * (m13 / L) = 1 := by
      field_simp; linear_combination -hLL
    generalize m12 / L = u at hu hv huv ⊢
    generalize m13 / L = v at hv huv ⊢
    refine ⟨⟨?_, ?_, ?_, ?_, ?_, ?_⟩, ?_⟩
    · show (1 : ℝ) * 1 + 0 * 0 + 0 * 0 = 1; ring
    · show (0 : ℝ) * 0 + u * u + v * v = 1; linear_combination huv
    · show (0 : ℝ) * 0 + v * v + -u * -u = 1; linear_combination huv
    · show (1 : ℝ) * 0 + 0 * u + 0 * v = 0; ring
    · show (1 : ℝ) * 0 + 0 * v + 0 * -u = 0; ring
    · show (0 : ℝ) * 0 + u * v + v * -u = 0; ring
    · apply M6.ext' <;> simp only [tridiagForm]
      · ring
      · linear_combination hu
      · linear_combination hv
      · linear_combination (m22 * v ^ 2 + m22 - 2 * m23 * u * v - m33 * v ^ 2) * huv
      · linear_combination (-m22 * u * v + 2 * m23 * u ^ 2 + m23 + m33 * u * v) * huv
      · linear_combination (-m22 * v ^ 2 + 2 * m23 * u * v + m33 * v ^ 2 + m33) * huv
  · rw [if_neg hdiv]
    have hz : m12 = 0 ∧ m13 = 0 := by
      by_contra hne
      apply hdiv
      have hpos : 0 < L := by
        rcases lt_or_eq_of_le hL0 with h | h
        · exact h
        · exfalso; apply hne
          have : m12 * m12 + m13 * m13 = 0 := by rw [← hLL, ← h]; ring
          constructor <;> nlinarith [mul_self_nonneg m12, mul_self_nonneg m13]
      rw [Bool.and_eq_true_iff]
      constructor
      · apply divisible_of_le hpos
        rw [hL]; apply Real.abs_le_sqrt; nlinarith [mul_self_nonneg m13]
      · apply divisible_of_le hpos
        rw [hL]; apply Real.abs_le_sqrt; nlinarith [mul_self_nonneg m12]
    obtain ⟨h12, h13⟩ := hz
    subst h12; subst h13
    simp only [one_eq, zero_eq]
    refine ⟨⟨?_, ?_, ?_, ?_, ?_, ?_⟩, ?_⟩
    · show (1 : ℝ) * 1 + 0 * 0 + 0 * 0 = 1; ring
    · show (0 : ℝ) * 0 + 1 * 1 + 0 * 0 = 1; ring
    · show (0 : ℝ) * 0 + 0 * 0 + 1 * 1 = 1; ring
    · show (1 : ℝ) * 0 + 0 * 1 + 0 * 0 = 0; ring
    · show (1 : ℝ) * 0 + 0 * 0 + 0 * 1 = 0; ring
    · show (0 : ℝ) * 0 + 1 * 0 + 0 * 1 = 0; ring
    · apply M6.ext' <;> simp only [tridiagForm] <;> ring

end Refine.Model.Matrix
