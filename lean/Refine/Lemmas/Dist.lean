import Refine.Model.Dist
import Mathlib.Data.Int.Interval
import Mathlib.Data.List.Nodup
import Mathlib.Data.List.TakeWhile
import Mathlib.Tactic.Linarith

/-!
  Lemmas for C06 (`Refine/Props/C06.lean`): the arithmetic of global-id elimination.

  `elim U g = g - #{u ∈ U ∣ u < g}` is what `ref_node_eliminate_unused_offset` computes for every entry of a
  non-decreasing list against a sorted unused list (`elimOffset_eq_map`); it is strictly monotone off `U`,
  maps `[0,M) \ U` onto `[0, M - |U|)` (`elim_*`), and composes over slices (`elim_slices`).
-/
namespace Refine.Lemmas.Dist
open Refine.Model.Dist

/-- number of unused ids below `g` -/
def cntLt (U : List Int) (g : Int) : Nat := (U.filter fun u => decide (u < g)).length

/-- the id `g` after the unused ids `U` have been squeezed out -/
def elim (U : List Int) (g : Int) : Int := g - (cntLt U g : Int)

theorem cntLt_append (A B : List Int) (g : Int) : cntLt (A ++ B) g = cntLt A g + cntLt B g := by
  simp [cntLt, List.filter_append]

theorem cntLt_nil (g : Int) : cntLt [] g = 0 := rfl

/-! ### the two-pointer walk -/

theorem filter_lt_eq_takeWhile (U : List Int) (g : Int) (hU : U.Pairwise (· ≤ ·)) :
    U.filter (fun u => decide (u < g)) = U.takeWhile (fun u => decide (u < g)) := by
  induction U with
  | nil => rfl
  | cons x xs ih =>
    rw [List.pairwise_cons] at hU
    by_cases hx : x < g
    · simp only [List.filter_cons, List.takeWhile_cons, hx, decide_true, if_true]
      rw [ih hU.2]
    · simp only [List.filter_cons, List.takeWhile_cons, hx, decide_false]
      simp only [Bool.false_eq_true, if_false]
      rw [List.filter_eq_nil_iff]
      intro y hy
      have := hU.1 y hy
      simp only [decide_eq_true_eq]
      omega

theorem drop_length_takeWhile (p : Int → Bool) (l : List Int) :
    l.drop (l.takeWhile p).length = l.dropWhile p := by
  induction l with
  | nil => rfl
  | cons x xs ih =>
    by_cases h : p x
    · simp [List.takeWhile_cons, List.dropWhile_cons, h, ih]
    · simp [List.takeWhile_cons, List.dropWhile_cons, h]

theorem cntLt_drop (U : List Int) (g g' : Int) (hU : U.Pairwise (· ≤ ·)) (hgg : g ≤ g') :
    cntLt U g' = cntLt U g + cntLt (U.drop (cntLt U g)) g' := by
  have hk : cntLt U g = (U.takeWhile fun u => decide (u < g)).length := by
    unfold cntLt; rw [filter_lt_eq_takeWhile U g hU]
  have hsplit : U = (U.takeWhile fun u => decide (u < g)) ++ U.drop (cntLt U g) := by
    rw [hk, drop_length_takeWhile]
    exact (List.takeWhile_append_dropWhile).symm
  have hall : cntLt (U.takeWhile fun u => decide (u < g)) g' = cntLt U g := by
    rw [hk]
    unfold cntLt
    congr 1
    rw [List.filter_eq_self]
    intro y hy
    have := List.mem_takeWhile_imp hy
    simp only [decide_eq_true_eq] at this ⊢
    omega
  conv_lhs => rw [hsplit]
  rw [cntLt_append, hall]

theorem elimOffsetGo_eq (gs : List Int) : ∀ (rest : List Int) (off : Int),
    rest.Pairwise (· ≤ ·) → gs.Pairwise (· ≤ ·) →
    elimOffsetGo rest off gs = gs.map fun g => g - (off + (cntLt rest g : Int)) := by
  induction gs with
  | nil => intro rest off _ _; rfl
  | cons g gs ih =>
    intro rest off hr hg
    rw [List.pairwise_cons] at hg
    have hk : (rest.takeWhile fun u => decide (u < g)).length = cntLt rest g := by
      unfold cntLt; rw [filter_lt_eq_takeWhile rest g hr]
    simp only [elimOffsetGo, List.map_cons, hk]
    congr 1
    rw [ih (rest.drop (cntLt rest g)) (off + (cntLt rest g : Int)) (hr.sublist (List.drop_sublist _ _)) hg.2]
    apply List.map_congr_left
    intro g' hg'
    have := cntLt_drop rest g g' hr (hg.1 g' hg')
    rw [this]; push_cast; omega

/-- `ref_node_eliminate_unused_offset` on a non-decreasing id list and a sorted unused list subtracts from every
    id the number of unused ids below it -/
theorem elimOffset_eq_map (gs U : List Int) (hU : U.Pairwise (· ≤ ·)) (hg : gs.Pairwise (· ≤ ·)) :
    elimOffset gs U = gs.map (elim U) := by
  unfold elimOffset
  rw [elimOffsetGo_eq gs U 0 hU hg]
  apply List.map_congr_left
  intro g _
  simp [elim]

/-! ### counting -/

theorem nodup_length_le (l : List Int) (a b : Int) (hab : a ≤ b) (hn : l.Nodup)
    (h : ∀ u ∈ l, a ≤ u ∧ u < b) : (l.length : Int) ≤ b - a := by
  have hsub : l.toFinset ⊆ Finset.Ico a b := by
    intro u hu
    rw [List.mem_toFinset] at hu
    rw [Finset.mem_Ico]
    exact h u hu
  have hc := Finset.card_le_card hsub
  rw [List.toFinset_card_of_nodup hn, Int.card_Ico] at hc
  have : ((b - a).toNat : Int) = b - a := Int.toNat_of_nonneg (by omega)
  omega

theorem cntLt_mono (U : List Int) (x y : Int) (hxy : x ≤ y) : cntLt U x ≤ cntLt U y := by
  unfold cntLt
  induction U with
  | nil => simp
  | cons u us ih =>
    simp only [List.filter_cons]
    by_cases h1 : u < x
    · have h2 : u < y := by omega
      simp [h1, h2]; exact ih
    · by_cases h2 : u < y
      · simp [h1, h2]; omega
      · simp [h1, h2]; exact ih

/-- between two ids: the unused ids counted for `y` but not for `x` are those in `[x, y)` -/
theorem cntLt_diff (U : List Int) (x y : Int) (hxy : x ≤ y) :
    cntLt U y = cntLt U x + (U.filter fun u => decide (x ≤ u) && decide (u < y)).length := by
  unfold cntLt
  induction U with
  | nil => simp
  | cons u us ih =>
    simp only [List.filter_cons]
    by_cases h1 : u < x
    · have h2 : u < y := by omega
      have h3 : ¬ x ≤ u := by omega
      simp [h1, h2, h3]; omega
    · by_cases h2 : u < y
      · have h3 : x ≤ u := by omega
        simp [h1, h2, h3]; omega
      · simp [h1, h2]; omega

/-- strictly monotone off the unused ids -/
theorem elim_strictMono (U : List Int) (hU : U.Nodup) (x y : Int) (hx : x ∉ U) (hxy : x < y) :
    elim U x < elim U y := by
  unfold elim
  rw [cntLt_diff U x y (by omega)]
  have hn : (U.filter fun u => decide (x ≤ u) && decide (u < y)).Nodup := hU.filter _
  have hr : ∀ u ∈ U.filter (fun u => decide (x ≤ u) && decide (u < y)), x + 1 ≤ u ∧ u < y := by
    intro u hu
    rw [List.mem_filter] at hu
    simp only [Bool.and_eq_true, decide_eq_true_eq] at hu
    have : u ≠ x := fun h => hx (h ▸ hu.1)
    omega
  have := nodup_length_le _ (x + 1) y (by omega) hn hr
  push_cast
  omega

theorem elim_mono (U : List Int) (hU : U.Nodup) (x y : Int) (hxy : x ≤ y) : elim U x ≤ elim U y := by
  unfold elim
  rw [cntLt_diff U x y hxy]
  have hn : (U.filter fun u => decide (x ≤ u) && decide (u < y)).Nodup := hU.filter _
  have hr : ∀ u ∈ U.filter (fun u => decide (x ≤ u) && decide (u < y)), x ≤ u ∧ u < y := by
    intro u hu
    rw [List.mem_filter] at hu
    simpa using hu.2
  have := nodup_length_le _ x y hxy hn hr
  push_cast
  omega

theorem elim_nonneg (U : List Int) (hU : U.Nodup) (hpos : ∀ u ∈ U, 0 ≤ u) (x : Int) (hx : 0 ≤ x) :
    0 ≤ elim U x := by
  unfold elim cntLt
  have hn : (U.filter fun u => decide (u < x)).Nodup := hU.filter _
  have hr : ∀ u ∈ U.filter (fun u => decide (u < x)), 0 ≤ u ∧ u < x := by
    intro u hu
    rw [List.mem_filter] at hu
    exact ⟨hpos u hu.1, by simpa using hu.2⟩
  have := nodup_length_le _ 0 x hx hn hr
  omega

theorem cntLt_all (U : List Int) (M : Int) (h : ∀ u ∈ U, u < M) : cntLt U M = U.length := by
  unfold cntLt
  rw [List.filter_eq_self.mpr]
  intro u hu
  simpa using h u hu

theorem elim_lt (U : List Int) (M : Int) (hU : U.Nodup) (hlt : ∀ u ∈ U, u < M) (x : Int) (hx : x ∉ U)
    (hxM : x < M) : elim U x < M - U.length := by
  have h1 := elim_strictMono U hU x M hx hxM
  have h2 : elim U M = M - U.length := by unfold elim; rw [cntLt_all U M hlt]
  omega

/-- onto: every target id below `M - |U|` is the image of a live id -/
theorem elim_surj (U : List Int) (M : Int) (hM : 0 ≤ M) (hU : U.Nodup) (hr : ∀ u ∈ U, 0 ≤ u ∧ u < M)
    (k : Int) (hk0 : 0 ≤ k) (hk : k < M - U.length) :
    ∃ x, 0 ≤ x ∧ x < M ∧ x ∉ U ∧ elim U x = k := by
  classical
  let S : Finset Int := (Finset.Ico 0 M).filter fun x => x ∉ U
  have hSc : S.card = (M - U.length).toNat := by
    have hsub : U.toFinset ⊆ Finset.Ico 0 M := by
      intro u hu
      rw [List.mem_toFinset] at hu
      rw [Finset.mem_Ico]; exact hr u hu
    have : S = Finset.Ico 0 M \ U.toFinset := by
      ext x; simp [S, Finset.mem_sdiff]
    rw [this, Finset.card_sdiff_of_subset hsub, Int.card_Ico, List.toFinset_card_of_nodup hU]
    have hl := nodup_length_le U 0 M hM hU hr
    omega
  have himg : S.image (elim U) ⊆ Finset.Ico 0 (M - U.length) := by
    intro y hy
    rw [Finset.mem_image] at hy
    obtain ⟨x, hx, rfl⟩ := hy
    simp only [S, Finset.mem_filter, Finset.mem_Ico] at hx
    rw [Finset.mem_Ico]
    exact ⟨elim_nonneg U hU (fun u hu => (hr u hu).1) x hx.1.1,
           elim_lt U M hU (fun u hu => (hr u hu).2) x hx.2 hx.1.2⟩
  have hinj : Set.InjOn (elim U) S := by
    intro a ha b hb hab
    simp only [S, Finset.coe_filter, Finset.mem_Ico, Set.mem_ofPred_eq] at ha hb
    rcases lt_trichotomy a b with h | h | h
    · have := elim_strictMono U hU a b ha.2 h; omega
    · exact h
    · have := elim_strictMono U hU b a hb.2 h; omega
  have hcard : (S.image (elim U)).card = (Finset.Ico 0 (M - U.length)).card := by
    rw [Finset.card_image_of_injOn hinj, hSc, Int.card_Ico]; simp
  have heq := Finset.eq_of_subset_of_card_le himg (le_of_eq hcard.symm)
  have hkmem : k ∈ S.image (elim U) := by
    rw [heq, Finset.mem_Ico]; exact ⟨hk0, hk⟩
  rw [Finset.mem_image] at hkmem
  obtain ⟨x, hx, hxk⟩ := hkmem
  simp only [S, Finset.mem_filter, Finset.mem_Ico] at hx
  exact ⟨x, hx.1.1, hx.1.2, hx.2, hxk⟩

/-! ### slices -/

/-- eliminating slice `A`, then the (already renumbered) slice `B`, is eliminating `A ++ B` -/
theorem elim_slices (A B : List Int) (hn : (A ++ B).Nodup) (g : Int) (hg : g ∉ A ++ B) :
    elim (B.map (elim A)) (elim A g) = elim (A ++ B) g := by
  have hA : A.Nodup := (List.nodup_append.mp hn).1
  have hgA : g ∉ A := fun h => hg (List.mem_append_left _ h)
  have hgB : g ∉ B := fun h => hg (List.mem_append_right _ h)
  have hdisj : ∀ b ∈ B, b ∉ A := by
    intro b hb ha
    exact (List.nodup_append.mp hn).2.2 b ha b hb rfl
  have hcnt : cntLt (B.map (elim A)) (elim A g) = cntLt B g := by
    unfold cntLt
    rw [List.filter_map, List.length_map]
    congr 1
    apply List.filter_congr
    intro b hb
    simp only [Function.comp, decide_eq_decide]
    constructor
    · intro h
      by_contra hbg
      have hne : b ≠ g := fun h' => hgB (h' ▸ hb)
      have : g < b := by omega
      have := elim_strictMono A hA g b hgA this
      omega
    · intro h
      exact elim_strictMono A hA b g (hdisj b hb) h
  unfold elim at hcnt ⊢
  rw [hcnt, cntLt_append]
  push_cast; omega

/-! ### the fresh-id shift -/

/-- what `ref_node_shift_new_globals` does to one id on a rank whose offset is `off` -/
def shiftId (old off g : Int) : Int := if g ≥ old then g + off else g

/-- fresh ids of different ranks never collide after the shift: rank `r` has `k r` fresh ids
    `[old, old + k r)` and is shifted by the number of fresh ids of the lower ranks -/
theorem shift_disjoint (old : Int) (k : Nat → Nat) (r q : Nat) (hrq : r < q) (g g' : Int)
    (hg : old ≤ g ∧ g < old + k r) (hg' : old ≤ g' ∧ g' < old + k q) :
    shiftId old (((List.range r).map k).sum : Nat) g < shiftId old (((List.range q).map k).sum : Nat) g' := by
  unfold shiftId
  have h1 : g ≥ old := hg.1
  have h2 : g' ≥ old := hg'.1
  simp only [h1, h2, if_true]
  have : ((List.range r).map k).sum + k r ≤ ((List.range q).map k).sum := by
    have hq : List.range q = List.range (r + 1) ++ (List.range' (r + 1) (q - (r + 1))) := by
      rw [List.range_eq_range', List.range_eq_range']
      have : q = (r + 1) + (q - (r + 1)) := by omega
      conv_lhs => rw [this]
      rw [← List.range'_append_1]
      simp
    rw [hq, List.map_append, List.sum_append, List.range_succ, List.map_append, List.sum_append]
    simp
  have := (Int.ofNat_le.mpr this)
  push_cast at this ⊢
  omega

end Refine.Lemmas.Dist

namespace Refine.Lemmas.Dist
open Refine.Model.Dist

/-! ### slices on the literal function -/

theorem cntLt_perm (A B : List Int) (h : A.Perm B) (g : Int) : cntLt A g = cntLt B g := by
  unfold cntLt
  exact (h.filter _).length_eq

theorem elim_perm (A B : List Int) (h : A.Perm B) (g : Int) : elim A g = elim B g := by
  unfold elim; rw [cntLt_perm A B h g]

theorem sortGlob_perm (xs : List Int) : (sortGlob xs).Perm xs := by
  unfold sortGlob
  split
  · exact List.Perm.refl _
  · exact List.mergeSort_perm _ _

theorem isNondecr_cons (a : Int) (l : List Int) (h : Refine.Model.NodeIds.NodeIds.isNondecr (a :: l) = true) :
    (∀ y ∈ l, a ≤ y) ∧ Refine.Model.NodeIds.NodeIds.isNondecr l = true := by
  induction l generalizing a with
  | nil => exact ⟨by simp, rfl⟩
  | cons b rest ih =>
    simp only [Refine.Model.NodeIds.NodeIds.isNondecr, Bool.and_eq_true, decide_eq_true_eq] at h
    have := ih b h.2
    refine ⟨?_, h.2⟩
    intro y hy
    rcases List.mem_cons.mp hy with rfl | hy
    · exact h.1
    · have := this.1 y hy; omega

theorem isNondecr_pairwise (l : List Int) (h : Refine.Model.NodeIds.NodeIds.isNondecr l = true) :
    l.Pairwise (· ≤ ·) := by
  induction l with
  | nil => exact List.Pairwise.nil
  | cons a l ih =>
    have := isNondecr_cons a l h
    exact List.Pairwise.cons this.1 (ih this.2)

theorem sortGlob_sorted (xs : List Int) : (sortGlob xs).Pairwise (· ≤ ·) := by
  unfold sortGlob
  split
  · rename_i h; exact isNondecr_pairwise xs h
  have := List.pairwise_mergeSort (le := fun a b : Int => decide (a ≤ b))
    (fun a b c hab hbc => by simp only [decide_eq_true_eq] at *; omega)
    (fun a b => by simp only [Bool.or_eq_true, decide_eq_true_eq]; omega) xs
  exact this.imp (fun h => by simpa using h)

theorem map_elim_sorted (U gs : List Int) (hU : U.Nodup) (hg : gs.Pairwise (· ≤ ·)) :
    (gs.map (elim U)).Pairwise (· ≤ ·) := by
  rw [List.pairwise_map]
  exact hg.imp fun h => elim_mono U hU _ _ h

/-- two trips of the slice loop of `ref_node_eliminate_unused_globals` as seen by one rank: its sorted ids `gs`
    are offset by the first slice `A`; the second slice's unused list `B` was itself offset by `A` before it is
    gathered; the result is the same as one elimination by the sorted union -/
theorem elimOffset_slices (gs A B : List Int) (hA : A.Pairwise (· ≤ ·)) (hB : B.Pairwise (· ≤ ·))
    (hg : gs.Pairwise (· ≤ ·)) (hn : (A ++ B).Nodup) (hdis : ∀ g ∈ gs, g ∉ A ++ B) :
    elimOffset (elimOffset gs A) (elimOffset B A) = elimOffset gs (sortGlob (A ++ B)) := by
  have hAn : A.Nodup := (List.nodup_append.mp hn).1
  rw [elimOffset_eq_map gs A hA hg, elimOffset_eq_map B A hA hB,
    elimOffset_eq_map _ _ (map_elim_sorted A B hAn hB) (map_elim_sorted A gs hAn hg),
    elimOffset_eq_map gs _ (sortGlob_sorted _) hg, List.map_map]
  apply List.map_congr_left
  intro g hgm
  simp only [Function.comp]
  rw [elim_slices A B hn g (hdis g hgm)]
  exact (elim_perm _ _ (sortGlob_perm _) g).symm

end Refine.Lemmas.Dist

namespace Refine.Lemmas.Dist
open Refine.Model.Dist

/-! ### the abstract description of a world of id states and the map `old id ↦ new id` -/

/-- what `ref_node_synchronize_globals` sees: the common `old_n_global`, per rank the number of fresh ids
    (`new_n_global - old_n_global`), the live ids and the unused ids -/
structure IdWorld where
  old : Int
  k : List Nat
  live : List (List Int)
  unused : List (List Int)

def IdWorld.kOf (w : IdWorld) (r : Nat) : Nat := w.k.getD r 0
/-- the offset `ref_node_shift_new_globals` adds on rank `r`: the fresh ids of the lower ranks -/
def IdWorld.off (w : IdWorld) (r : Nat) : Int := (((List.range r).map w.kOf).sum : Nat)
/-- `old_n_global + total_new_nodes` -/
def IdWorld.M (w : IdWorld) : Int := w.old + (w.k.sum : Nat)
def IdWorld.liveOf (w : IdWorld) (r : Nat) : List Int := w.live.getD r []
/-- all unused ids after the shift, in rank order (what the slices gather, up to order) -/
def IdWorld.shiftedUnused (w : IdWorld) : List Int :=
  (w.unused.mapIdx fun r us => us.map (shiftId w.old (w.off r))).flatten
/-- the id of vertex `g` of rank `r` after the call -/
def IdWorld.newId (w : IdWorld) (r : Nat) (g : Int) : Int :=
  elim w.shiftedUnused (shiftId w.old (w.off r) g)
/-- `n_global` after the call -/
def IdWorld.N (w : IdWorld) : Int := w.M - w.shiftedUnused.length

/-- the id invariant maintained by `ref_node_next_global` / `ref_node_remove` between two synchronisations -/
structure IdInv (w : IdWorld) : Prop where
  old_nonneg : 0 ≤ w.old
  live_range : ∀ r g, g ∈ w.liveOf r → 0 ≤ g ∧ g < w.old + (w.kOf r : Nat)
  unused_nodup : w.shiftedUnused.Nodup
  unused_range : ∀ u ∈ w.shiftedUnused, 0 ≤ u ∧ u < w.M
  live_not_unused : ∀ r g, g ∈ w.liveOf r → shiftId w.old (w.off r) g ∉ w.shiftedUnused
  covered : ∀ x, 0 ≤ x → x < w.M → x ∉ w.shiftedUnused →
    ∃ r g, g ∈ w.liveOf r ∧ shiftId w.old (w.off r) g = x

theorem prefix_sum_le (k : List Nat) : ∀ n, ((List.range n).map fun q => k.getD q 0).sum ≤ k.sum := by
  induction k with
  | nil => intro n; simp
  | cons a k ih =>
    intro n
    cases n with
    | zero => simp
    | succ m =>
      rw [List.range_succ_eq_map, List.map_cons, List.map_map, List.sum_cons, List.sum_cons]
      have := ih m
      have heq : (List.map ((fun q => (a :: k).getD q 0) ∘ Nat.succ) (List.range m))
          = List.map (fun q => k.getD q 0) (List.range m) := by
        apply List.map_congr_left; intro q _; simp
      rw [heq]
      simp only [List.getD_cons_zero]
      omega

theorem off_add_le (w : IdWorld) (r : Nat) : w.off r + (w.kOf r : Nat) ≤ (w.k.sum : Nat) := by
  have := prefix_sum_le w.k (r + 1)
  rw [List.range_succ, List.map_append, List.sum_append] at this
  simp only [List.map_cons, List.map_nil, List.sum_cons, List.sum_nil, Nat.add_zero] at this
  unfold IdWorld.off
  have h2 : (List.map w.kOf (List.range r)).sum = (List.map (fun q => w.k.getD q 0) (List.range r)).sum := rfl
  have h3 : w.kOf r = w.k.getD r 0 := rfl
  rw [h2, h3]
  exact_mod_cast this

theorem off_nonneg (w : IdWorld) (r : Nat) : 0 ≤ w.off r := by unfold IdWorld.off; omega

theorem shifted_range (w : IdWorld) (h : IdInv w) (r : Nat) (g : Int) (hg : g ∈ w.liveOf r) :
    0 ≤ shiftId w.old (w.off r) g ∧ shiftId w.old (w.off r) g < w.M := by
  have h1 := h.live_range r g hg
  have h2 := off_add_le w r
  have h3 := off_nonneg w r
  have h4 := h.old_nonneg
  unfold shiftId IdWorld.M
  split <;> constructor <;> omega

theorem shiftId_strictMono (old off : Int) (hoff : 0 ≤ off) (g g' : Int) (h : g < g') :
    shiftId old off g < shiftId old off g' := by
  unfold shiftId; split <;> split <;> omega

/-- `ref_node_eliminate_active_parts` returns a non-empty slice inside the rank range (the slice loop terminates
    and never skips a rank) -/
theorem activeParts_progress (counts : List Int) (chunk : Int) (a0 : Nat) (h : a0 < counts.length) :
    a0 < (activeParts counts chunk a0).1 ∧ (activeParts counts chunk a0).1 ≤ counts.length := by
  unfold activeParts
  have key : ∀ fuel a1 na, a0 < a1 → a1 ≤ counts.length →
      a0 < (activeGo counts chunk fuel a1 na).1 ∧ (activeGo counts chunk fuel a1 na).1 ≤ counts.length := by
    intro fuel
    induction fuel with
    | zero => intro a1 na h1 h2; exact ⟨h1, h2⟩
    | succ f ih =>
      intro a1 na h1 h2
      unfold activeGo
      split
      · rename_i hc; exact ih (a1 + 1) _ (by omega) (by omega)
      · exact ⟨h1, h2⟩
  exact key _ _ _ (by omega) (by omega)


end Refine.Lemmas.Dist
