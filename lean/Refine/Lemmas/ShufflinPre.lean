import Refine.Lemmas.ShufflinSpec

/-!
  Lemmas for `Refine/Props/C06Shufflin.lean`, part 4: a world satisfying `distInv` (for the OLD partition), relabelled
  with a new partition `f` on every stored copy (`setParts f`), satisfies the hypotheses `ShufHyp` of `shufflin_spec`.
-/
namespace Refine.Lemmas.ShufflinPre
open Refine.Model.Dist Refine.Model.Shufflin Refine.Lemmas.Shufflin Refine.Lemmas.ShufflinWorld
open Refine.Lemmas.ShufflinSpec
open Refine.Model.Comm (World INT_MAX)

theorem nodup_of_nodupB {α : Type} [DecidableEq α] : ∀ (l : List α), nodupB l = true → l.Nodup := by
  intro l
  induction l with
  | nil => intro _; exact List.nodup_nil
  | cons x xs ih =>
    intro h
    simp only [nodupB, Bool.and_eq_true, Bool.not_eq_true', List.contains_eq_mem, decide_eq_false_iff_not] at h
    exact List.nodup_cons.mpr ⟨h.1, ih h.2⟩

/-- an element cannot occur in two different members of a list of lists whose concatenation has no duplicates -/
theorem flatten_nodup_index {α : Type} (L : List (List α)) (h : L.flatten.Nodup) (i j : Nat) (li lj : List α)
    (hi : L[i]? = some li) (hj : L[j]? = some lj) (a : α) (hai : a ∈ li) (haj : a ∈ lj) : i = j := by
  by_contra hne
  rw [List.nodup_flatten] at h
  have hp := h.2
  rw [List.pairwise_iff_getElem] at hp
  have hil : i < L.length := by
    by_contra hc; rw [List.getElem?_eq_none (by omega)] at hi; cases hi
  have hjl : j < L.length := by
    by_contra hc; rw [List.getElem?_eq_none (by omega)] at hj; cases hj
  have ei : L[i] = li := by rw [List.getElem?_eq_getElem hil] at hi; exact Option.some.inj hi
  have ej : L[j] = lj := by rw [List.getElem?_eq_getElem hjl] at hj; exact Option.some.inj hj
  rcases Nat.lt_or_gt_of_ne hne with hlt | hlt
  · have := hp i j hil hjl hlt
    rw [ei, ej] at this
    exact (List.disjoint_left.mp this) hai haj
  · have := hp j i hjl hil hlt
    rw [ei, ej] at this
    exact (List.disjoint_left.mp this) haj hai

/-- what `distInv` says, as propositions -/
structure InvFacts (w : World RankState) : Prop where
  nodupG : ∀ s ∈ w, (s.nodes.map (·.glob)).Nodup
  nodupC : ∀ s ∈ w, s.cells.Nodup
  nonneg : ∀ s ∈ w, ∀ nd ∈ s.nodes, 0 ≤ nd.glob ∧ 0 ≤ nd.part ∧ nd.part < (w.length : Int)
  owner : ∀ s ∈ w, ∀ nd ∈ s.nodes, ∃ o, w[nd.part.toNat]? = some o ∧ o.partOf nd.glob = some nd.part
  cellStored : ∀ s ∈ w, ∀ c ∈ s.cells, ∀ v ∈ c.nodes, v ∈ s.nodes.map (·.glob)
  ghost : ∀ (r : Nat) (s : RankState), w[r]? = some s → ∀ nd ∈ s.nodes, nd.part = (r : Int) ∨
    ∃ o, w[nd.part.toNat]? = some o ∧ (o.nodes.find? fun od => od.glob == nd.glob).map (·.payload) = some nd.payload
  ownedNd : (ownedGlobals w).Nodup

theorem invFacts_of_distInv (w : World RankState) (h : distInv w = true) : InvFacts w := by
  unfold distInv at h
  simp only [Bool.and_eq_true] at h
  obtain ⟨⟨⟨⟨⟨⟨hL, hO⟩, hC⟩, _⟩, hG⟩, _⟩, hN⟩ := h
  unfold clauseLocal at hL
  rw [List.all_eq_true] at hL
  unfold clauseOwner at hO
  rw [List.all_eq_true] at hO
  unfold clauseCells at hC
  rw [List.all_eq_true] at hC
  unfold clauseGhost at hG
  rw [List.all_eq_true] at hG
  unfold clauseCounts at hN
  simp only [Bool.and_eq_true] at hN
  refine ⟨?_, ?_, ?_, ?_, ?_, ?_, nodup_of_nodupB _ hN.1.1.1⟩
  · intro s hs
    have := hL s hs
    simp only [Bool.and_eq_true] at this
    exact nodup_of_nodupB _ this.1.1
  · intro s hs
    have := hL s hs
    simp only [Bool.and_eq_true] at this
    exact nodup_of_nodupB _ this.1.2
  · intro s hs nd hnd
    have := hL s hs
    simp only [Bool.and_eq_true, List.all_eq_true, decide_eq_true_eq] at this
    obtain ⟨⟨a, b⟩, c⟩ := this.2 nd hnd
    exact ⟨a, b, c⟩
  · intro s hs nd hnd
    have := hO s hs
    rw [List.all_eq_true] at this
    have := this nd hnd
    cases ho : w[nd.part.toNat]? with
    | none => rw [ho] at this; simp at this
    | some o => rw [ho] at this; exact ⟨o, rfl, by simpa using this⟩
  · intro s hs c hc v hv
    obtain ⟨r, hr⟩ := List.getElem?_of_mem hs
    have := hC (s, r) (List.mem_zipIdx_iff_getElem?.mpr hr)
    rw [List.all_eq_true] at this
    have := this c hc
    simp only [Bool.and_eq_true, List.all_eq_true] at this
    have hv' := this.1.1 v hv
    exact (hasGlob_iff s.nodes v).mp hv'
  · intro r s hr nd hnd
    have := hG (s, r) (List.mem_zipIdx_iff_getElem?.mpr hr)
    rw [List.all_eq_true] at this
    have := this nd hnd
    simp only [Bool.or_eq_true, beq_iff_eq] at this
    rcases this with h1 | h1
    · exact Or.inl h1
    · right
      cases ho : w[nd.part.toNat]? with
      | none => rw [ho] at h1; simp at h1
      | some o => rw [ho] at h1; exact ⟨o, rfl, by simpa using h1⟩

/-- every stored copy has an owned copy on the rank its part names, with the same payload -/
theorem owner_copy (w : World RankState) (F : InvFacts w) (r : Nat) (s : RankState) (hr : w[r]? = some s)
    (x : DNode) (hx : x ∈ s.nodes) :
    ∃ (k : Nat) (o : RankState) (z : DNode), w[k]? = some o ∧ z ∈ o.nodes ∧ z.glob = x.glob ∧ z.part = (k : Int) ∧
      z.payload = x.payload := by
  rcases F.ghost r s hr x hx with h1 | ⟨o, ho, hp⟩
  · exact ⟨r, s, x, hr, hx, rfl, h1, rfl⟩
  · obtain ⟨o', ho', hpo⟩ := F.owner s (List.mem_of_getElem? hr) x hx
    rw [ho] at ho'; cases ho'
    unfold RankState.partOf at hpo
    cases hf : o.nodes.find? (fun od => od.glob == x.glob) with
    | none => rw [hf] at hp; simp at hp
    | some z =>
      rw [hf] at hp hpo
      have hz : z ∈ o.nodes := List.mem_of_find?_eq_some hf
      have hg : z.glob = x.glob := by simpa using List.find?_some hf
      have hnn := (F.nonneg s (List.mem_of_getElem? hr) x hx).2.1
      refine ⟨x.part.toNat, o, z, ho, hz, hg, ?_, by simpa using hp⟩
      have : z.part = x.part := by simpa using hpo
      rw [this]; omega

theorem owned_unique (w : World RankState) (F : InvFacts w) (k k' : Nat) (o o' : RankState) (z z' : DNode)
    (ho : w[k]? = some o) (ho' : w[k']? = some o') (hz : z ∈ o.nodes) (hz' : z' ∈ o'.nodes)
    (hp : z.part = (k : Int)) (hp' : z'.part = (k' : Int)) (hg : z.glob = z'.glob) : z = z' := by
  have hL : ∀ (i : Nat) (t : RankState), w[i]? = some t →
      (w.zipIdx.map fun sr => (sr.1.ownedNodes sr.2).map (·.glob))[i]? = some ((t.ownedNodes i).map (·.glob)) := by
    intro i t ht
    rw [List.getElem?_map, List.getElem?_zipIdx, ht]; simp
  have hkk : k = k' := by
    apply flatten_nodup_index _ F.ownedNd k k' _ _ (hL k o ho) (hL k' o' ho') z.glob
    · exact List.mem_map_of_mem (List.mem_filter.mpr ⟨hz, by simpa using hp⟩)
    · rw [hg]; exact List.mem_map_of_mem (List.mem_filter.mpr ⟨hz', by simpa using hp'⟩)
  subst hkk
  rw [ho] at ho'; cases ho'
  have h1 := find_glob (F.nodupG o (List.mem_of_getElem? ho)) hz
  have h2 := find_glob (F.nodupG o (List.mem_of_getElem? ho)) hz'
  rw [hg] at h1
  rw [h1] at h2
  exact Option.some.inj h2

theorem mem_setParts (f : Int → Int) (w : World RankState) (s' : RankState) (h : s' ∈ setParts f w) :
    ∃ s ∈ w, s' = { s with nodes := s.nodes.map fun nd => { nd with part := f nd.glob } } := by
  unfold setParts at h
  obtain ⟨s, hs, rfl⟩ := List.mem_map.mp h
  exact ⟨s, hs, rfl⟩

theorem shufHyp_of_distInv (ldim N : Nat) (w0 : World RankState) (f : Int → Int)
    (h0 : distInv w0 = true) (hs : synced w0 = true)
    (hf : ∀ s ∈ w0, ∀ nd ∈ s.nodes, 0 ≤ f nd.glob ∧ f nd.glob < (w0.length : Int))
    (hN : ∀ s ∈ w0, ∀ nd ∈ s.nodes, nd.glob < (N : Int) ∧ nd.payload.length = ldim)
    (hgrp : ∀ s ∈ w0, ∀ c ∈ s.cells, c.group < NGROUP)
    (hU : ∀ s ∈ w0, ∀ t ∈ w0, ∀ c ∈ s.cells, ∀ c' ∈ t.cells, c.group = c'.group → sameVerts c c' = true → c = c')
    (hsize : ((max 1 ldim : Nat) : Int) * ((w0.length : Int) * (N : Int)) ≤ INT_MAX) :
    ShufHyp ldim N (setParts f w0) := by
  have F := invFacts_of_distInv w0 h0
  have hlen : (setParts f w0).length = w0.length := by unfold setParts; simp
  have hglob : ∀ (s : RankState), (s.nodes.map fun nd => ({ nd with part := f nd.glob } : DNode)).map (·.glob)
      = s.nodes.map (·.glob) := by
    intro s; rw [List.map_map]; rfl
  refine ⟨?_, ?_, ?_, ?_, ?_, ?_, ?_, ?_⟩
  · unfold synced setParts at *
    rw [List.all_map]
    exact hs
  · intro s' h
    obtain ⟨s, hs', rfl⟩ := mem_setParts f w0 s' h
    show ((s.nodes.map fun nd => ({ nd with part := f nd.glob } : DNode)).map (·.glob)).Nodup
    rw [hglob]; exact F.nodupG s hs'
  · intro s' h nd' hnd'
    obtain ⟨s, hs', rfl⟩ := mem_setParts f w0 s' h
    obtain ⟨nd, hnd, rfl⟩ := List.mem_map.mp hnd'
    rw [hlen]
    exact ⟨(hf s hs' nd hnd).1, (hf s hs' nd hnd).2, (F.nonneg s hs' nd hnd).1, (hN s hs' nd hnd).1,
      (hN s hs' nd hnd).2⟩
  · intro s' h t' ht x' hx' y' hy' hg
    obtain ⟨s, hs', rfl⟩ := mem_setParts f w0 s' h
    obtain ⟨t, ht', rfl⟩ := mem_setParts f w0 t' ht
    obtain ⟨x, hx, rfl⟩ := List.mem_map.mp hx'
    obtain ⟨y, hy, rfl⟩ := List.mem_map.mp hy'
    simp only at hg ⊢
    refine ⟨by rw [hg], ?_⟩
    obtain ⟨r, hr⟩ := List.getElem?_of_mem hs'
    obtain ⟨r', hr'⟩ := List.getElem?_of_mem ht'
    obtain ⟨k, o, z, ho, hz, hzg, hzp, hzy⟩ := owner_copy w0 F r s hr x hx
    obtain ⟨k', o', z', ho', hz', hzg', hzp', hzy'⟩ := owner_copy w0 F r' t hr' y hy
    have := owned_unique w0 F k k' o o' z z' ho ho' hz hz' hzp hzp' (by rw [hzg, hzg', hg])
    rw [← hzy, ← hzy', this]
  · intro s' h c hc
    obtain ⟨s, hs', rfl⟩ := mem_setParts f w0 s' h
    refine ⟨hgrp s hs' c hc, fun v hv => ?_⟩
    show v ∈ (s.nodes.map fun nd => ({ nd with part := f nd.glob } : DNode)).map (·.glob)
    rw [hglob]; exact F.cellStored s hs' c hc v hv
  · intro s' h
    obtain ⟨s, hs', rfl⟩ := mem_setParts f w0 s' h
    exact F.nodupC s hs'
  · intro s' h t' ht c hc c' hc'
    obtain ⟨s, hs', rfl⟩ := mem_setParts f w0 s' h
    obtain ⟨t, ht', rfl⟩ := mem_setParts f w0 t' ht
    exact hU s hs' t ht' c hc c' hc'
  · rw [hlen]; exact hsize

end Refine.Lemmas.ShufflinPre
