import Refine.Lemmas.InterpLocateGeoStages
import Refine.Lemmas.InterpSearch
import Refine.Props.C11

/-!
  Real-number vocabulary and small facts for `Props/C11Locate.lean`: `SlotsGe`, `Written`, the value of `inside`, the
  explicit form of the clipped weights of `ref_node_clip_bary4`, `Scalar.lt` on `ℝ` as the `ltB` of the reduction lemmas.
-/
namespace Refine.Props.C11Locate
open Refine Refine.Model.Geom Refine.Model.Search Refine.Model.Interp Refine.Model.InterpLocate Refine.Model.Comm
open Refine.Lemmas.InterpLocate Refine.Lemmas.Interp Refine.ScalarReal Refine.Gen Refine.GeomReal

/-- all four slots written, each `≥ t` -/
def SlotsGe (t : ℝ) (s : Slots ℝ) : Prop :=
  ∃ w0 w1 w2 w3, s = ⟨some w0, some w1, some w2, some w3⟩ ∧ t ≤ w0 ∧ t ≤ w1 ∧ t ≤ w2 ∧ t ≤ w3

/-- `ref_interp->inside` is `-1e-12` -/
theorem insideTol_eq : (insideTol : ℝ) = -(1e-12) := by
  simp only [insideTol, lit, InterpConsts.inside, ofDec_eq]
  norm_num

theorem insideTol_nonpos : (insideTol : ℝ) ≤ 0 := by rw [insideTol_eq]; norm_num

/-- all four slots written; for a 2-D donor the fourth is `0.0` -/
def Written (twod : Bool) (s : Slots ℝ) : Prop := s.written = true ∧ (twod = true → s.s3 = some (lit0 : ℝ))

theorem written_storeBary (twod : Bool) (b : B4 ℝ) : Written twod (storeBary twod Slots.unwritten b) := by
  cases twod with
  | true => rw [storeBary_twod]; exact ⟨rfl, fun _ => rfl⟩
  | false => rw [storeBary_3d]; exact ⟨rfl, fun h => by cases h⟩

theorem lt_fun_eq : (fun (a b : ℝ) => a <. b) = Refine.Lemmas.Comm.ltB := by
  funext a b
  rfl

/-- the clipped weights of `ref_node_clip_bary4`, explicitly -/
theorem clipBary4_ok_form {o w : B4 ℝ} (h : clipBary4 o = (St.ok, w)) :
    let S := max 0 o.b0 + max 0 o.b1 + max 0 o.b2 + max 0 o.b3
    S ≠ 0 ∧ w = ⟨max 0 o.b0 / S, max 0 o.b1 / S, max 0 o.b2 / S, max 0 o.b3 / S⟩ := by
  unfold clipBary4 at h
  simp only [isFinite_eq, Bool.not_true, Bool.or_false, Bool.false_eq_true, if_false, cmax_eq, lit0_eq,
    add_eq, div_eq] at h
  split at h
  · rename_i hg
    simp only [Bool.and_eq_true] at hg
    have ht := divisible_ne_zero hg.2
    split at h
    · simp at h
    · simp only [Prod.mk.injEq, true_and] at h
      exact ⟨ht, h.symm⟩
  · simp at h

end Refine.Props.C11Locate
