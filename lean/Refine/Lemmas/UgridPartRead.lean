import Refine.Lemmas.UgridPart

/-! `partRead` (ref_part_bin_ugrid) on a laid-out file: header, nodes, the six cell sections; ownership of the cells -/
namespace Refine.Lemmas.Ugrid
open Refine.Gen Refine.Model.Endian Refine.Model.Ugrid
open Refine.Model.Meshb (Bytes Status Vertex P Cfg takeN encLE decLE toSigned ofSigned int32 wrap32 adjAdd adjAddAll)
open Refine.Lemmas.Codec (takeN_append)

theorem implicitPart_lt {nnode : Int} {np : Nat} {g : Int} {p : Nat} (h : implicitPart nnode np g = some p) : p < np := by
  unfold implicitPart at h
  split at h
  · simp at h
  · split at h
    · simp at h
    · simp only at h
      split at h
      · rename_i hp
        simp at h
        omega
      · simp at h

theorem implicitPart_isSome {nnode : Int} {np : Nat} {g : Int} (hN : 1 ≤ nnode) (hp : 1 ≤ np) (hg0 : 0 ≤ g)
    (hg : g < nnode) : (implicitPart nnode np g).isSome = true := by
  unfold implicitPart
  have h1 : ¬ (nnode < 1 ∨ np < 1) := by omega
  have h2 : ¬ (g < 0 ∨ nnode ≤ g) := by omega
  obtain ⟨a, b, _, _⟩ := Refine.Lemmas.Part.implicit_bracket nnode (np : Int) g hN (by omega) hg0 hg
  simp only [h1, h2, if_false]
  have : 0 ≤ PartMacros.ref_part_implicit nnode (np : Int) g ∧ PartMacros.ref_part_implicit nnode (np : Int) g < (np : Int) :=
    ⟨a, b⟩
  simp [this]

theorem nodePer_pos (k : Kind) : 1 ≤ k.nodePer := by cases k <;> decide

theorem sizePer_le (k : Kind) : k.sizePer ≤ 9 := by cases k <;> decide

/-- one cell section of ref_part_bin_ugrid on a file of the shape `pre ++ conn ++ mid ++ tags ++ post` whose header
    declares `cs.length` cells of kind `k` and whose generated offsets are the positions of `conn` and `tags` -/
theorem partSection_spec (cfg : Cfg) (hcap : cfg.allocCap = 2 ^ 30) (fl : Flavor) (k : Kind) {n : Nat} (hn : n < 2 ^ 27)
    (cs : List (List Int))
    (hcs : ∀ c ∈ cs, cellOk k n c = true) (hlen : cs.length < 2 ^ 31) (pre mid post : Bytes) (hdr : List Int)
    (hcount : hdr.getD k.hdrIndex 0 = (cs.length : Int)) (hnn : hdr.getD 0 0 = (n : Int))
    (hoff1 : (offsetsOf k (UgridOffsets.ibyte fl.fat) hdr).1 = (pre.length : Int))
    (hoff2 : k.hasTag = true → (offsetsOf k (UgridOffsets.ibyte fl.fat) hdr).2 =
      ((pre ++ secConn fl k cs ++ mid).length : Int))
    (np : Nat) (hnp : 1 ≤ np) (chunk : Nat) (hc1 : 1 ≤ chunk) (hc2 : 72 * chunk ≤ 2 ^ 30) :
    partSection cfg fl (pre ++ secConn fl k cs ++ mid ++ (if k.hasTag then secTags fl k cs else []) ++ post) np
      (some chunk) hdr k = .ok (dedupCells k cs []) := by
  unfold partSection
  simp only [hcount, hnn]
  by_cases h0 : cs.length = 0
  · have : cs = [] := List.eq_nil_of_length_eq_zero h0
    subst this
    simp [dedupCells]
  · have hpos : ¬ ((cs.length : Int) ≤ 0) := by omega
    simp only [hpos, if_false]
    have hsz := sizePer_le k
    have hu : ¬ ((k.sizePer : Int) * (chunk : Int) ≥ 2 ^ 31) := by
      have : k.sizePer * chunk ≤ 9 * chunk := Nat.mul_le_mul_right _ hsz
      have : (k.sizePer : Int) * (chunk : Int) ≤ 9 * chunk := by exact_mod_cast this
      omega
    have ha : ¬ (cfg.allocCap < 8 * k.sizePer * chunk) := by
      rw [hcap]
      have : k.sizePer * chunk ≤ 9 * chunk := Nat.mul_le_mul_right _ hsz
      have : 8 * k.sizePer * chunk ≤ 72 * chunk := by rw [Nat.mul_assoc]; omega
      omega
    simp only [hu, ha, if_false, Int.toNat_natCast]
    have hloop := partCellLoop_spec cfg fl k hn cs hcs pre mid post
      (offsetsOf k (UgridOffsets.ibyte fl.fat) hdr).1 (offsetsOf k (UgridOffsets.ibyte fl.fat) hdr).2 hoff1 hoff2
      chunk hc1 cs.length 0 (Nat.zero_le _) (by omega)
    rw [List.drop_zero] at hloop
    rw [hloop]
    simp only
    -- every index is a node, and there is a node
    have hidx : cs.all (partIndexOk k (n : Int)) = true := partIndexOk_of_cellOk hcs
    have hn1 : 1 ≤ (n : Int) := by
      obtain ⟨c, hc⟩ := List.exists_mem_of_length_pos (by omega : 0 < cs.length)
      have hl := take_length_of_cellOk (hcs c hc)
      have hp := nodePer_pos k
      obtain ⟨g, hg⟩ := List.exists_mem_of_length_pos (by omega : 0 < (c.take k.nodePer).length)
      have := ((cellOk_iff k n c).1 (hcs c hc)).2.1 g hg
      omega
    have hsome := implicitPart_isSome (nnode := (n : Int)) (np := np) (g := 0) hn1 hnp (le_refl _) (by omega)
    simp [hidx, hsome]

/-! ### the file, cut around each section -/

theorem hasTag_cases (k : Kind) : (k = .tri ∨ k = .qua) ∧ k.hasTag = true ∨ k.hasTag = false := by
  cases k <;> simp [hasTag_tri, hasTag_qua, hasTag_tet, hasTag_pyr, hasTag_pri, hasTag_hex]

theorem hdrOf_getD (m : UMesh) (k : Kind) : (hdrOf m).getD k.hdrIndex 0 = ((m.get k).length : Int) := by
  cases k <;> simp [hdrOf, Kind.hdrIndex, UMesh.get]

theorem hdrOf_getD0 (m : UMesh) : (hdrOf m).getD 0 0 = (m.nodes.length : Int) := by simp [hdrOf]

/-- every section of ref_part_bin_ugrid on the laid-out file returns the cells of that kind (deduplicated by node set),
    for every rank count ≥ 1 and every chunk size from 1 up to what the allocator cap allows -/
theorem partSection_raw (cfg : Cfg) (hcap : cfg.allocCap = 2 ^ 30) (fl : Flavor) (m : UMesh) (hw : WellFormed m = true)
    (np : Nat) (hnp : 1 ≤ np) (chunk : Nat) (hc1 : 1 ≤ chunk) (hc2 : 72 * chunk ≤ 2 ^ 30) (k : Kind) :
    partSection cfg fl (encodeRaw fl m) np (some chunk) (hdrOf m) k = .ok (dedupCells k (m.get k) []) := by
  obtain ⟨hn, hk⟩ := (wf_iff m).1 hw
  obtain ⟨o1, o2, o3, o4, o5, o6⟩ := offsets_raw fl m hw
  have hraw : encodeRaw fl m = secHeader fl m ++ secNodes fl m ++ secConn fl .tri m.tri ++ secConn fl .qua m.qua ++
      secTags fl .tri m.tri ++ secTags fl .qua m.qua ++ secConn fl .tet m.tet ++ secConn fl .pyr m.pyr ++
      secConn fl .pri m.pri ++ secConn fl .hex m.hex := by
    simp [encodeRaw, sectionsRaw]
  have hstart : ∀ i, rawStart fl m i = ((sectionsRaw fl m).take i).flatten.length := fun _ => rfl
  cases k
  · -- tri: pre = header ++ nodes, mid = quad connectivity
    have := partSection_spec cfg hcap fl .tri hn m.tri (hk .tri).2 (hk .tri).1 (secHeader fl m ++ secNodes fl m)
      (secConn fl .qua m.qua)
      (secTags fl .qua m.qua ++ secConn fl .tet m.tet ++ secConn fl .pyr m.pyr ++ secConn fl .pri m.pri ++
        secConn fl .hex m.hex) (hdrOf m) (hdrOf_getD m .tri) (hdrOf_getD0 m)
      (by rw [o1]; simp [hstart, sectionsRaw])
      (fun _ => by rw [o1]; simp [hstart, sectionsRaw] <;> omega) np hnp chunk hc1 hc2
    simp only [hasTag_tri, if_true] at this
    rw [hraw]; simp only [List.append_assoc] at this ⊢; exact this
  · -- qua: pre = header ++ nodes ++ tri connectivity, mid = tri tags
    have := partSection_spec cfg hcap fl .qua hn m.qua (hk .qua).2 (hk .qua).1
      (secHeader fl m ++ secNodes fl m ++ secConn fl .tri m.tri) (secTags fl .tri m.tri)
      (secConn fl .tet m.tet ++ secConn fl .pyr m.pyr ++ secConn fl .pri m.pri ++ secConn fl .hex m.hex) (hdrOf m)
      (hdrOf_getD m .qua) (hdrOf_getD0 m)
      (by rw [o2]; simp [hstart, sectionsRaw] <;> omega)
      (fun _ => by rw [o2]; simp [hstart, sectionsRaw] <;> omega) np hnp chunk hc1 hc2
    simp only [hasTag_qua, if_true] at this
    rw [hraw]; simp only [List.append_assoc] at this ⊢; exact this
  · have := partSection_spec cfg hcap fl .tet hn m.tet (hk .tet).2 (hk .tet).1
      (secHeader fl m ++ secNodes fl m ++ secConn fl .tri m.tri ++ secConn fl .qua m.qua ++ secTags fl .tri m.tri ++
        secTags fl .qua m.qua) []
      (secConn fl .pyr m.pyr ++ secConn fl .pri m.pri ++ secConn fl .hex m.hex) (hdrOf m)
      (hdrOf_getD m .tet) (hdrOf_getD0 m)
      (by rw [o3]; simp [hstart, sectionsRaw] <;> omega)
      (fun h => by simp [hasTag_tet] at h) np hnp chunk hc1 hc2
    simp only [hasTag_tet, Bool.false_eq_true, if_false] at this
    rw [hraw]; simp only [List.append_assoc, List.append_nil, List.nil_append] at this ⊢; exact this
  · have := partSection_spec cfg hcap fl .pyr hn m.pyr (hk .pyr).2 (hk .pyr).1
      (secHeader fl m ++ secNodes fl m ++ secConn fl .tri m.tri ++ secConn fl .qua m.qua ++ secTags fl .tri m.tri ++
        secTags fl .qua m.qua ++ secConn fl .tet m.tet) []
      (secConn fl .pri m.pri ++ secConn fl .hex m.hex) (hdrOf m)
      (hdrOf_getD m .pyr) (hdrOf_getD0 m)
      (by rw [o4]; simp [hstart, sectionsRaw] <;> omega)
      (fun h => by simp [hasTag_pyr] at h) np hnp chunk hc1 hc2
    simp only [hasTag_pyr, Bool.false_eq_true, if_false] at this
    rw [hraw]; simp only [List.append_assoc, List.append_nil, List.nil_append] at this ⊢; exact this
  · have := partSection_spec cfg hcap fl .pri hn m.pri (hk .pri).2 (hk .pri).1
      (secHeader fl m ++ secNodes fl m ++ secConn fl .tri m.tri ++ secConn fl .qua m.qua ++ secTags fl .tri m.tri ++
        secTags fl .qua m.qua ++ secConn fl .tet m.tet ++ secConn fl .pyr m.pyr) []
      (secConn fl .hex m.hex) (hdrOf m)
      (hdrOf_getD m .pri) (hdrOf_getD0 m)
      (by rw [o5]; simp [hstart, sectionsRaw] <;> omega)
      (fun h => by simp [hasTag_pri] at h) np hnp chunk hc1 hc2
    simp only [hasTag_pri, Bool.false_eq_true, if_false] at this
    rw [hraw]; simp only [List.append_assoc, List.append_nil, List.nil_append] at this ⊢; exact this
  · have := partSection_spec cfg hcap fl .hex hn m.hex (hk .hex).2 (hk .hex).1
      (secHeader fl m ++ secNodes fl m ++ secConn fl .tri m.tri ++ secConn fl .qua m.qua ++ secTags fl .tri m.tri ++
        secTags fl .qua m.qua ++ secConn fl .tet m.tet ++ secConn fl .pyr m.pyr ++ secConn fl .pri m.pri) []
      [] (hdrOf m)
      (hdrOf_getD m .hex) (hdrOf_getD0 m)
      (by rw [o6]; simp [hstart, sectionsRaw] <;> omega)
      (fun h => by simp [hasTag_hex] at h) np hnp chunk hc1 hc2
    simp only [hasTag_hex, Bool.false_eq_true, if_false] at this
    rw [hraw]; simp only [List.append_assoc, List.append_nil, List.nil_append] at this ⊢; exact this

theorem partSections_raw (cfg : Cfg) (hcap : cfg.allocCap = 2 ^ 30) (fl : Flavor) (m : UMesh) (hw : WellFormed m = true)
    (np : Nat) (hnp : 1 ≤ np) (chunk : Nat) (hc1 : 1 ≤ chunk) (hc2 : 72 * chunk ≤ 2 ^ 30) (ks : List Kind) :
    partSections cfg fl (encodeRaw fl m) np (some chunk) (hdrOf m) ks =
      .ok (ks.map fun k => dedupCells k (m.get k) []) := by
  induction ks with
  | nil => rfl
  | cons k ks ih =>
    simp only [partSections, partSection_raw cfg hcap fl m hw np hnp chunk hc1 hc2 k, ih, List.map_cons]

/-- the header as the parallel reader reads it (no narrowing) is the seven counts -/
theorem rdHeaderPart_raw (fl : Flavor) (m : UMesh) (hw : WellFormed m = true) (rest : Bytes) :
    rdHeaderPart fl (secHeader fl m ++ rest) = .ok (hdrOf m, rest) := by
  obtain ⟨hn, hk⟩ := (wf_iff m).1 hw
  unfold rdHeaderPart
  have hl := secHeader_length fl m
  have ht : takeN (7 * fl.ibytes) (secHeader fl m ++ rest) = .ok (secHeader fl m, rest) := by
    have := takeN_append (secHeader fl m) rest
    rwa [hl] at this
  rw [ht]
  simp only
  have hint : ∀ x ∈ hdrOf m, int32 x := by
    intro x hx
    simp only [hdrOf, List.map_cons, List.map_nil, List.mem_cons, List.not_mem_nil, or_false] at hx
    rcases hx with rfl | rfl | rfl | rfl | rfl | rfl | rfl
    · exact int32_natCast (by omega)
    · exact int32_natCast (hk .tri).1
    · exact int32_natCast (hk .qua).1
    · exact int32_natCast (hk .tet).1
    · exact int32_natCast (hk .pyr).1
    · exact int32_natCast (hk .pri).1
    · exact int32_natCast (hk .hex).1
  have := wordsOf_flatMap fl (hdrOf m) hint
  have hlen : (hdrOf m).length = 7 := by simp [hdrOf]
  rw [hlen] at this
  unfold secHeader
  unfold hdrOf at this
  rw [this]
  rfl

theorem partHeaderHazard_wf (m : UMesh) (hw : WellFormed m = true) (np : Nat) (hnp2 : np < 2 ^ 31) :
    partHeaderHazard np (hdrOf m) = false := by
  obtain ⟨hn, hk⟩ := (wf_iff m).1 hw
  unfold partHeaderHazard
  rw [Bool.or_eq_false_iff]
  constructor
  · rw [hdrOf_getD0]; simp only [decide_eq_false_iff_not]; omega
  · rw [List.any_eq_false]
    intro x hx
    simp only [hdrOf, List.map_cons, List.map_nil, List.mem_cons, List.not_mem_nil, or_false] at hx
    have h1 := (hk .tri).1; have h2 := (hk .qua).1; have h3 := (hk .tet).1
    have h4 := (hk .pyr).1; have h5 := (hk .pri).1; have h6 := (hk .hex).1
    simp only [UMesh.get] at h1 h2 h3 h4 h5 h6
    simp only [decide_eq_true_eq]
    rcases hx with rfl | rfl | rfl | rfl | rfl | rfl | rfl <;> omega

/-- **the parallel reader on what a writer lays out**, for every flavour, rank count ≥ 1, chunk size ≥ 1 -/
theorem partRead_encodeRaw (cfg : Cfg) (hcap : cfg.allocCap = 2 ^ 30) (fl : Flavor) (m : UMesh) (hw : WellFormed m = true)
    (np : Nat) (hnp : 1 ≤ np) (hnp2 : np < 2 ^ 31) (chunk : Nat) (hc1 : 1 ≤ chunk) (hc2 : 72 * chunk ≤ 2 ^ 30) :
    partReadWith cfg fl np (some chunk) (encodeRaw fl m) =
      .ok { nnode := m.nodes.length, np := np, nodes := m.nodes,
            cells := Kind.all.map fun k => dedupCells k (m.get k) [] } := by
  unfold partReadWith
  have hraw : encodeRaw fl m = secHeader fl m ++ (secNodes fl m ++ (secConn fl .tri m.tri ++ (secConn fl .qua m.qua ++
      (secTags fl .tri m.tri ++ (secTags fl .qua m.qua ++ (secConn fl .tet m.tet ++ (secConn fl .pyr m.pyr ++
      (secConn fl .pri m.pri ++ secConn fl .hex m.hex)))))))) := by
    simp [encodeRaw, sectionsRaw]
  have hh := rdHeaderPart_raw fl m hw (secNodes fl m ++ (secConn fl .tri m.tri ++ (secConn fl .qua m.qua ++
      (secTags fl .tri m.tri ++ (secTags fl .qua m.qua ++ (secConn fl .tet m.tet ++ (secConn fl .pyr m.pyr ++
      (secConn fl .pri m.pri ++ secConn fl .hex m.hex))))))))
  rw [← hraw] at hh
  rw [hh]
  simp only [hdrOf_getD0, Int.toNat_natCast]
  have hsmall : partHeaderHazard np (hdrOf m) = false := partHeaderHazard_wf m hw np hnp2
  rw [hsmall]
  simp only [Bool.false_eq_true, if_false]
  have hv : ∀ rest, rdVerts fl m.nodes.length (secNodes fl m ++ rest) = .ok (m.nodes, rest) :=
    fun rest => rdVerts_flatMap fl m.nodes rest
  rw [hv]
  simp only
  rw [partSections_raw cfg hcap fl m hw np hnp chunk hc1 hc2]

end Refine.Lemmas.Ugrid
