import Refine.Model.ReconPar
import Refine.Lemmas.ScalarReal

/-!
  k-exact clouds: `ref_recon_grow_cloud_one_layer` queries the cloud table `one_layer[..]` only at the global ids
  present in the cloud it grows, so two tables that agree there give the same grown cloud, and the first attempt of
  the layer loop of `ref_recon_kexact_gradient_hessian` (cloud grown once) gives the same result.
-/
namespace Refine.ReconParKexact
open Refine Refine.Model.Geom Refine.Model.Kexact

theorem foldl_storeAll_congr (layerW layerS : Int → List (Item ℝ)) :
    ∀ (ps : List (Item ℝ)) (acc : List (Item ℝ)), (∀ it ∈ ps, layerW it.g = layerS it.g) →
      ps.foldl (fun acc p => storeAll acc (layerW p.g)) acc = ps.foldl (fun acc p => storeAll acc (layerS p.g)) acc := by
  intro ps
  induction ps with
  | nil => intro acc _; rfl
  | cons p rest ih =>
    intro acc h
    simp only [List.foldl_cons]
    rw [h p List.mem_cons_self]
    exact ih _ (fun it hit => h it (List.mem_cons_of_mem _ hit))

theorem grow_congr (layerW layerS : Int → List (Item ℝ)) (c : List (Item ℝ))
    (h : ∀ it ∈ c, layerW it.g = layerS it.g) : grow layerW c = grow layerS c := by
  unfold grow
  exact foldl_storeAll_congr layerW layerS c c h

theorem grow_first (layerW layerS : Int → List (Item ℝ)) (c : Int)
    (h0 : layerW c = layerS c) (h1 : ∀ it ∈ layerS c, layerW it.g = layerS it.g) :
    grow layerW (layerW c) = grow layerS (layerS c) := by
  rw [h0]
  exact grow_congr layerW layerS _ h1

/-- when the first attempt (cloud grown once) is accepted, `layerLoop` returns its result -/
theorem layerLoop_first (layerOf : Int → List (Item ℝ)) (center : Int) (twod : Bool) (fuel : Nat)
    (cloud : List (Item ℝ))
    (hok : (kexactWithAux center (grow layerOf cloud) twod).1 = KSt.ok ∨
           (kexactWithAux center (grow layerOf cloud) twod).1 = KSt.notFound) :
    layerLoop layerOf center twod (fuel + 1) cloud =
      ((kexactWithAux center (grow layerOf cloud) twod).2.1, (kexactWithAux center (grow layerOf cloud) twod).2.2) := by
  unfold layerLoop
  simp only
  rcases hr : kexactWithAux center (grow layerOf cloud) twod with ⟨st, g, h⟩
  rw [hr] at hok
  simp only at hok
  rcases hok with rfl | rfl <;> rfl

theorem kexactNode_first (twod : Bool) (layerW layerS : Int → List (Item ℝ)) (c : Int)
    (h0 : layerW c = layerS c) (h1 : ∀ it ∈ layerS c, layerW it.g = layerS it.g)
    (hok : (kexactWithAux c (grow layerS (layerS c)) twod).1 = KSt.ok ∨
           (kexactWithAux c (grow layerS (layerS c)) twod).1 = KSt.notFound) :
    kexactNode layerW c twod = kexactNode layerS c twod := by
  have hg := grow_first layerW layerS c h0 h1
  have hokW : (kexactWithAux c (grow layerW (layerW c)) twod).1 = KSt.ok ∨
      (kexactWithAux c (grow layerW (layerW c)) twod).1 = KSt.notFound := by rw [hg]; exact hok
  unfold kexactNode
  rw [layerLoop_first layerW c twod 6 _ hokW, layerLoop_first layerS c twod 6 _ hok, hg]

end Refine.ReconParKexact
