import Refine.Lemmas.GatherMeshbNode
import Refine.Lemmas.ParCell
import Refine.Lemmas.CodecRoundtrip

/-!
  `ref_gather_meshb` (model `Refine.Model.GatherMeshb`) lays out exactly the file the serial writer's model
  `encodeMeshb` produces for the GATHERED mesh `globalMesh d`: vertices by global id, the cells of every group in
  (emitting rank, local order) order, the association records of every type in (emitting rank, local order) order,
  rank 0's CAD bytes.
-/
namespace Refine.Lemmas.GatherMeshb
open Refine.Model.Meshb Refine.Model.Par Refine.Model.GatherMeshb Refine.Lemmas.Par Refine.Lemmas.Codec Refine.Gen

/-! ## the gathered mesh -/

/-- a 2-D file stores no z -/
def flat (twod : Bool) (p : Vertex) : Vertex := if twod then ⟨p.x, p.y, 0⟩ else p

/-- the record as the file can hold it: node records (type 0) store neither parameters nor gref (the reader sets
    gref = id), edge records one parameter -/
def toRec (g : LGeom) : GeomRec :=
  { type := g.type, id := g.id, gref := if 0 < g.type then g.gref else g.id, node := (g.node : Int),
    p0 := if 0 < g.type then g.p0 else 0, p1 := if 1 < g.type then g.p1 else 0 }

/-- the records of type `t` the ranks `r, r+1, …` contribute, in (rank, local) order -/
def ownedGeomsFrom (t : Nat) : Nat → List Rank → List LGeom
  | _, [] => []
  | r, rk :: rest => geomsOwnedOf t r rk ++ ownedGeomsFrom t (r + 1) rest

def gatheredNodes (d : Dist) : List Vertex :=
  (List.range d.nglobal).map fun g => flat d.twod (payloadAt vzero (d.ranks.map nodeView) g)

def gatheredCells (d : Dist) : List (List (List Int)) :=
  cellInfos.zipIdx.map fun p => (gatherCell (d.ranks.map (cellView p.2))).map (packCell p.1)

def gatheredGeoms (d : Dist) : List GeomRec :=
  [0, 1, 2].flatMap fun t => (ownedGeomsFrom t 0 d.ranks).map toRec

/-- the mesh the parallel writer puts in the file -/
def globalMesh (d : Dist) : MeshFile :=
  { twod := d.twod, nodes := gatheredNodes d, cells := gatheredCells d, geoms := gatheredGeoms d, cad := cadOf d.ranks }

/-! ## cells -/

theorem alwaysId_true : GatherMeshb.alwaysId = true := by decide
theorem gatherCell0_eq : PyrPerm.gatherCell0 = PyrPerm.exportMeshb := by decide
theorem gatherCell1_eq : PyrPerm.gatherCell1 = PyrPerm.exportMeshb := by decide

theorem packCell_take (ci : CellInfo) (c : GCell) (h : c.nodes.length = ci.nodePer) :
    (packCell ci c).take ci.nodePer = c.nodes.map fun (g : Nat) => (g : Int) := by
  unfold packCell
  rw [List.take_left' (by simpa using h)]

theorem packCell_getD (ci : CellInfo) (c : GCell) (h : c.nodes.length = ci.nodePer) (hl : ci.lastId = true) :
    (packCell ci c).getD ci.nodePer 0 = c.id := by
  unfold packCell
  rw [hl, List.getD_eq_getElem?_getD, List.getElem?_append_right (by simp [h])]
  simp [h]

/-- FIRST copy (rank 0's own cells) writes the serial writer's record -/
theorem cellRecordOwn_eq (ci : CellInfo) (c : GCell) (h : c.nodes.length = ci.nodePer) :
    cellRecordOwn ci c = cellRecord ci (packCell ci c) := by
  unfold cellRecordOwn cellRecord
  rw [packCell_take ci c h, alwaysId_true, gatherCell0_eq, List.map_map]
  by_cases hl : ci.lastId = true
  · rw [packCell_getD ci c h hl]; simp [hl]; rfl
  · simp [hl]; rfl

/-- SECOND copy (cells received from a worker) writes the serial writer's record -/
theorem cellRecordRecv_eq (ci : CellInfo) (c : GCell) :
    cellRecordRecv ci (packCell ci c) = cellRecord ci (packCell ci c) := by
  unfold cellRecordRecv cellRecord
  rw [alwaysId_true, gatherCell1_eq]
  simp

theorem cellBytesFrom_eq (v : Nat) (ci : CellInfo) (k : Nat) (ranks : List Rank)
    (hshape : ∀ rk ∈ ranks, ∀ c ∈ rk.cells.getD k [], c.nodes.length = ci.nodePer) (r : Nat) :
    cellBytesFrom v ci k r ranks
      = (((emittedFrom r (ranks.map (cellView k))).flatten).map (packCell ci)).flatMap (encCell v ci) := by
  induction ranks generalizing r with
  | nil => simp [cellBytesFrom, emittedFrom]
  | cons rk rest ih =>
    have hrest : ∀ rk' ∈ rest, ∀ c ∈ rk'.cells.getD k [], c.nodes.length = ci.nodePer :=
      fun rk' h => hshape rk' (List.mem_cons_of_mem _ h)
    have hmem : ∀ c ∈ emitted r (cellView k rk), c.nodes.length = ci.nodePer := by
      intro c hc
      unfold emitted at hc
      exact hshape rk List.mem_cons_self c (List.mem_filter.1 hc).1
    simp only [cellBytesFrom, List.map_cons, emittedFrom, List.flatten_cons, List.map_append, List.flatMap_append]
    rw [ih hrest (r + 1)]
    congr 1
    by_cases h0 : r = 0
    · simp only [h0, if_true, List.flatMap_map]
      subst h0
      apply List.flatMap_congr
      intro c hc
      rw [encRecord, cellRecordOwn_eq ci c (hmem c hc), encCell_eq]
    · simp only [h0, if_false, List.flatMap_map]
      apply List.flatMap_congr
      intro c _
      rw [encRecord, cellRecordRecv_eq, encCell_eq]

theorem ncell_eq_length {α : Type} (w : List (RankView α)) : ncell w = (gatherCell w).length := by
  unfold ncell gatherCell
  exact emittedFrom_length 0 w

theorem zip_zipIdx_map {α β : Type} (l : List α) (n : Nat) (g : α × Nat → β) :
    l.zip ((l.zipIdx n).map g) = (l.zipIdx n).map fun p => (p.1, g p) := by
  induction l generalizing n with
  | nil => rfl
  | cons a l ih => simp [List.zipIdx_cons, ih]

/-! ## geometry associations -/

theorem ngeomFrom_eq (t r : Nat) (ranks : List Rank) : ngeomFrom t r ranks = (ownedGeomsFrom t r ranks).length := by
  induction ranks generalizing r with
  | nil => rfl
  | cons rk rest ih => simp [ngeomFrom, ownedGeomsFrom, ih]

theorem geomsOwnedOf_type {t r : Nat} {rk : Rank} {g : LGeom} (h : g ∈ geomsOwnedOf t r rk) : g.type = t := by
  unfold geomsOwnedOf at h
  have := (List.mem_filter.1 h).2
  simp only [Bool.and_eq_true, beq_iff_eq] at this
  exact this.1

theorem ownedGeomsFrom_type {t r : Nat} {ranks : List Rank} {g : LGeom} (h : g ∈ ownedGeomsFrom t r ranks) :
    g.type = t := by
  induction ranks generalizing r with
  | nil => simp [ownedGeomsFrom] at h
  | cons rk rest ih =>
    simp only [ownedGeomsFrom, List.mem_append] at h
    rcases h with h | h
    · exact geomsOwnedOf_type h
    · exact ih h

/-- FIRST record writer (rank 0's own records) writes the serial writer's record -/
theorem encGeomOwn_eq (v : Nat) (g : LGeom) : encGeomOwn v g.type g = encGeom v g.type (toRec g) := by
  unfold encGeomOwn encGeom toRec
  by_cases h0 : 0 < g.type <;> by_cases h1 : 1 < g.type <;> simp [h0, h1]

/-- SECOND record writer (records received from a worker) writes the serial writer's record, when the id is a
    `REF_INT` (the `(REF_INT)node_id[1 + 3 * geom]` cast is then the identity) -/
theorem encGeomRecv_eq (v : Nat) (g : LGeom) (hid : wrap32 g.id = g.id) :
    encGeomRecv v g.type (packGeom g.type g) = encGeom v g.type (toRec g) := by
  have hn : (packGeom g.type g).nodeId = [(g.node : Int), g.id, g.gref] := by
    unfold packGeom
    simp [show GatherMeshb.packNodeCol = 0 by decide, show GatherMeshb.packIdCol = 1 by decide,
      show GatherMeshb.packGrefCol = 2 by decide, List.replicate]
  unfold encGeomRecv encGeom toRec
  rw [hn]
  have hq : (packGeom g.type g).q0 = (if 0 < g.type then g.p0 else 0) ∧
      (packGeom g.type g).q1 = (if 1 < g.type then g.p1 else 0) := ⟨rfl, rfl⟩
  rw [hq.1, hq.2]
  simp only [show GatherMeshb.recvNodeCol = 0 by decide, show GatherMeshb.recvIdCol = 1 by decide,
    show GatherMeshb.recvGrefCol = 2 by decide]
  by_cases h0 : 0 < g.type <;> by_cases h1 : 1 < g.type <;> simp [h0, h1, hid]

theorem geomBytesFrom_eq (v t : Nat) (ranks : List Rank)
    (hid : ∀ rk ∈ ranks, ∀ g ∈ rk.geoms, wrap32 g.id = g.id) (r : Nat) :
    geomBytesFrom v t r ranks = ((ownedGeomsFrom t r ranks).map toRec).flatMap (encGeom v t) := by
  induction ranks generalizing r with
  | nil => simp [geomBytesFrom, ownedGeomsFrom]
  | cons rk rest ih =>
    have hrest : ∀ rk' ∈ rest, ∀ g ∈ rk'.geoms, wrap32 g.id = g.id := fun rk' h => hid rk' (List.mem_cons_of_mem _ h)
    simp only [geomBytesFrom, ownedGeomsFrom, List.map_append, List.flatMap_append]
    rw [ih hrest (r + 1)]
    congr 1
    by_cases h0 : r = 0
    · simp only [h0, if_true, List.flatMap_map]
      apply List.flatMap_congr
      intro g hg
      have ht := geomsOwnedOf_type hg
      subst ht
      exact encGeomOwn_eq v g
    · simp only [h0, if_false, List.flatMap_map]
      apply List.flatMap_congr
      intro g hg
      have ht := geomsOwnedOf_type hg
      subst ht
      have hmem : g ∈ rk.geoms := by
        unfold geomsOwnedOf at hg
        exact (List.mem_filter.1 hg).1
      exact encGeomRecv_eq v g (hid rk List.mem_cons_self g hmem)

theorem toRec_type (g : LGeom) : (toRec g).type = g.type := rfl

theorem geomsOf_block (t t' : Nat) (ranks : List Rank) :
    geomsOf t ((ownedGeomsFrom t' 0 ranks).map toRec) = if t' = t then (ownedGeomsFrom t' 0 ranks).map toRec else [] := by
  unfold geomsOf
  by_cases h : t' = t
  · rw [if_pos h, List.filter_eq_self]
    intro x hx
    obtain ⟨g, hg, rfl⟩ := List.mem_map.1 hx
    simp [toRec_type, ownedGeomsFrom_type hg, h]
  · rw [if_neg h, List.filter_eq_nil_iff]
    intro x hx
    obtain ⟨g, hg, rfl⟩ := List.mem_map.1 hx
    simp [toRec_type, ownedGeomsFrom_type hg, h]

theorem geomsOf_gathered (d : Dist) (t : Nat) (ht : t ≤ 2) :
    geomsOf t (gatheredGeoms d) = (ownedGeomsFrom t 0 d.ranks).map toRec := by
  have hsplit : ∀ l₁ l₂ : List GeomRec, geomsOf t (l₁ ++ l₂) = geomsOf t l₁ ++ geomsOf t l₂ := by
    intro l₁ l₂; simp [geomsOf]
  unfold gatheredGeoms
  simp only [List.flatMap_cons, List.flatMap_nil, List.append_nil]
  rw [hsplit, hsplit, geomsOf_block, geomsOf_block, geomsOf_block]
  rcases (by omega : t = 0 ∨ t = 1 ∨ t = 2) with rfl | rfl | rfl <;> simp

/-! ## the file -/

theorem length_gatheredNodes (d : Dist) : (gatheredNodes d).length = d.nglobal := by simp [gatheredNodes]

theorem encVertex_flat (v : Nat) (twod : Bool) (p : Vertex) : encVertex v twod (flat twod p) = encVertex v twod p := by
  unfold encVertex flat
  cases twod <;> simp

/-- what ref_gather_node writes on a healthy world (before the 2-D projection that the record encoder applies anyway) -/
def writtenNodes (d : Dist) : List Vertex := (List.range d.nglobal).map (payloadAt vzero (d.ranks.map nodeView))

theorem flatMap_written (v : Nat) (d : Dist) :
    (writtenNodes d).flatMap (encVertex v d.twod) = (gatheredNodes d).flatMap (encVertex v d.twod) := by
  unfold writtenNodes gatheredNodes
  rw [List.flatMap_map, List.flatMap_map]
  apply List.flatMap_congr
  intro g _
  rw [encVertex_flat]

/-- hypotheses on the shape of the stored cells and ids: every stored cell of group `k` has `node_per(k)` vertices, every
    association id is a `REF_INT` -/
structure Shaped (d : Dist) : Prop where
  cells : ∀ p ∈ cellInfos.zipIdx, ∀ rk ∈ d.ranks, ∀ c ∈ rk.cells.getD p.2 [], c.nodes.length = p.1.nodePer
  ids : ∀ rk ∈ d.ranks, ∀ g ∈ rk.geoms, wrap32 g.id = g.id

theorem masterG_eq (v : Nat) (d : Dist) (hN : 0 < d.nglobal) (hs : Shaped d) :
    masterG v d (writtenNodes d) = master v (globalMesh d) := by
  unfold masterG master
  have hdim : secDim v (dimMesh d.twod) = secDim v (globalMesh d) := rfl
  have hne : (!(globalMesh d).nodes.isEmpty) = true := by
    have : (globalMesh d).nodes.length = d.nglobal := length_gatheredNodes d
    cases hn : (globalMesh d).nodes with
    | nil => rw [hn] at this; simp at this; omega
    | cons a l => rfl
  have hverts : secVertsG v d.twod d.nglobal (writtenNodes d) = secVerts v (globalMesh d) := by
    unfold secVertsG secVerts
    have hl : (globalMesh d).nodes.length = d.nglobal := length_gatheredNodes d
    have hd : dim (globalMesh d) = if d.twod then 2 else 3 := rfl
    rw [hl, hd, flatMap_written]
    rfl
  have hcells : (cellInfos.zipIdx).map (fun p =>
        (decide (0 < ncell (d.ranks.map (cellView p.2))), secCellsG v p.1 p.2 d.ranks))
      = (cellInfos.zip (globalMesh d).cells).map (fun p => (!p.2.isEmpty, secCells v p.1 p.2)) := by
    have : (globalMesh d).cells = cellInfos.zipIdx.map fun p =>
        (gatherCell (d.ranks.map (cellView p.2))).map (packCell p.1) := rfl
    rw [this, zip_zipIdx_map, List.map_map]
    apply List.map_congr_left
    intro p hp
    simp only [Function.comp_def]
    have hb := cellBytesFrom_eq v p.1 p.2 d.ranks (hs.cells p hp) 0
    have hn := ncell_eq_length (d.ranks.map (cellView p.2))
    refine Prod.ext ?_ ?_
    · simp only [hn]
      cases hg : gatherCell (d.ranks.map (cellView p.2)) <;> simp
    · simp only [secCellsG, secCells, hn, hb, gatherCell, List.length_map]
  have hgeoms : [0, 1, 2].map (fun t => (decide (0 < ngeomFrom t 0 d.ranks), secGeomG v t d.ranks))
      = [0, 1, 2].map (fun t => (!(geomsOf t (globalMesh d).geoms).isEmpty,
          secGeom v t (geomsOf t (globalMesh d).geoms))) := by
    apply List.map_congr_left
    intro t ht
    have ht2 : t ≤ 2 := by
      simp only [List.mem_cons, List.not_mem_nil, or_false] at ht
      rcases ht with rfl | rfl | rfl <;> omega
    have hg : geomsOf t (globalMesh d).geoms = (ownedGeomsFrom t 0 d.ranks).map toRec := geomsOf_gathered d t ht2
    have hb := geomBytesFrom_eq v t d.ranks hs.ids 0
    have hn := ngeomFrom_eq t 0 d.ranks
    refine Prod.ext ?_ ?_
    · simp only [hg, hn]
      cases ownedGeomsFrom t 0 d.ranks <;> simp
    · simp only [secGeomG, secGeom, hg, hn, hb, List.length_map]
      congr 1
      by_cases h0 : 0 < t
      · simp only [h0, if_true]; ring
      · simp only [h0, if_false]; ring
  rw [hdim, hverts, hcells, hgeoms, hne]
  rfl

theorem fileBytes_eq (v : Nat) (d : Dist) (hN : 0 < d.nglobal) (hs : Shaped d) :
    fileBytes v d (writtenNodes d) = encodeMeshb v (globalMesh d) := by
  unfold fileBytes encodeMeshb sectionsG sections
  rw [masterG_eq v d hN hs]

end Refine.Lemmas.GatherMeshb
