import Refine.Lemmas.SearchTri

/-!
  Lemmas for C12: `Search.insert` sequences and the construction loop of `ref_phys_wall_distance`
  (`wallBuild`): invariant, which entries end up in the tree, and that every element lies in its sphere.
-/
namespace Refine.Lemmas.Search
open Refine Refine.Model.Geom Refine.Model.Search Refine.ScalarReal

/-- `Search.insert` either leaves the tree alone (error status) or homes one new entry -/
theorem insert_root (s : Search ℝ) (item : Int) (pos : V3 ℝ) (rad : ℝ) :
    ((s.insert item pos rad).1 = .ok ∧
        (s.insert item pos rad).2.root = s.root.home ⟨s.empty, item, pos, rad⟩) ∨
    ((s.insert item pos rad).1 ≠ .ok ∧ (s.insert item pos rad).2 = s) := by
  unfold Search.insert
  by_cases h1 : s.empty ≥ s.n
  · right; simp [h1]
  · by_cases h2 : item < 0
    · right; simp [h1, h2]
    · left; simp [h1, h2]

theorem insert_BallInv' (s : Search ℝ) (item : Int) (pos : V3 ℝ) (rad : ℝ) (h : BallInv s.root) :
    BallInv (s.insert item pos rad).2.root := by
  rcases insert_root s item pos rad with ⟨_, h2⟩ | ⟨_, h2⟩
  · rw [h2]; exact home_BallInv _ _ h
  · rw [h2]; exact h

/-- any sequence of `ref_search_insert` calls on a tree (statuses ignored, as a caller that continues would) -/
noncomputable def insertAll (s : Search ℝ) (ins : List (Int × V3 ℝ × ℝ)) : Search ℝ :=
  ins.foldl (fun s e => (s.insert e.1 e.2.1 e.2.2).2) s

theorem insertAll_BallInv (s : Search ℝ) (ins : List (Int × V3 ℝ × ℝ)) (h : BallInv s.root) :
    BallInv (insertAll s ins).root := by
  unfold insertAll
  induction ins generalizing s with
  | nil => exact h
  | cons e rest ih =>
    rw [List.foldl_cons]
    exact ih _ (insert_BallInv' _ _ _ _ h)

theorem create_BallInv (n : Int) (s0 : Search ℝ) (h0 : Search.create n = .ok s0) : BallInv s0.root := by
  unfold Search.create at h0
  split at h0
  · cases h0
  · cases h0; simp [BallInv]

/-- characterisation of a running minimum -/
theorem foldl_min_spec (L : List ℝ) (d : ℝ) :
    L.foldl min d ≤ d ∧ (∀ v ∈ L, L.foldl min d ≤ v) ∧ (L.foldl min d = d ∨ L.foldl min d ∈ L) :=
  ⟨foldl_min_le_init L d, fun v hv => foldl_min_le_mem L d v hv, foldl_min_mem L d⟩

/-- the entry `e` carries the inflated bounding sphere of element `cell` -/
def SphereOf (verts : Int → List (V3 ℝ)) (cell : Int) (e : Entry ℝ) : Prop :=
  e.item = cell ∧ e.pos = (boundingSphere (verts cell)).1 ∧
    e.rad = (inflate : ℝ) * (boundingSphere (verts cell)).2

theorem wallGo_spec (verts : Int → List (V3 ℝ)) (perm : List Int) (s : Search ℝ) (h : BallInv s.root) :
    BallInv (wallBuild.go verts s perm).2.root ∧
    (∀ e ∈ (wallBuild.go verts s perm).2.root.pre,
        e ∈ s.root.pre ∨ ∃ cell ∈ perm, SphereOf verts cell e) ∧
    (∀ e ∈ s.root.pre, e ∈ (wallBuild.go verts s perm).2.root.pre) ∧
    ((wallBuild.go verts s perm).1 = .ok →
        ∀ cell ∈ perm, ∃ e ∈ (wallBuild.go verts s perm).2.root.pre, SphereOf verts cell e) := by
  induction perm generalizing s with
  | nil =>
    simp only [wallBuild.go]
    exact ⟨h, fun e he => Or.inl he, fun e he => he, fun _ cell hc => by simp at hc⟩
  | cons cell rest ih =>
    simp only [wallBuild.go, mul_eq]
    rcases insert_root s cell (boundingSphere (verts cell)).1
        ((inflate : ℝ) * (boundingSphere (verts cell)).2) with ⟨h1, h2⟩ | ⟨h1, h2⟩
    · -- inserted
      generalize hs' : s.insert cell (boundingSphere (verts cell)).1
        ((inflate : ℝ) * (boundingSphere (verts cell)).2) = r at h1 h2
      obtain ⟨st, s'⟩ := r
      simp only at h1 h2
      subst h1
      simp only
      have hb' : BallInv s'.root := by rw [h2]; exact home_BallInv _ _ h
      obtain ⟨i1, i2, i3, i4⟩ := ih s' hb'
      refine ⟨i1, ?_, ?_, ?_⟩
      · intro e he
        rcases i2 e he with he' | ⟨c, hc, hsp⟩
        · rw [h2, mem_pre_home] at he'
          rcases he' with rfl | he'
          · right; exact ⟨cell, by simp, rfl, rfl, rfl⟩
          · left; exact he'
        · right; exact ⟨c, List.mem_cons_of_mem _ hc, hsp⟩
      · intro e he
        apply i3
        rw [h2, mem_pre_home]; right; exact he
      · intro hok c hc
        rcases List.mem_cons.mp hc with rfl | hc
        · refine ⟨⟨s.empty, c, (boundingSphere (verts c)).1, (inflate : ℝ) * (boundingSphere (verts c)).2⟩,
            ?_, rfl, rfl, rfl⟩
          apply i3
          rw [h2, mem_pre_home]; left; rfl
        · exact i4 hok c hc
    · -- rejected: the loop stops with that status
      generalize hs' : s.insert cell (boundingSphere (verts cell)).1
        ((inflate : ℝ) * (boundingSphere (verts cell)).2) = r at h1 h2
      obtain ⟨st, s'⟩ := r
      simp only at h1 h2
      subst h2
      cases st with
      | ok => exact absurd rfl h1
      | failure => exact ⟨h, fun e he => Or.inl he, fun e he => he, fun hok => by simp at hok⟩
      | invalid => exact ⟨h, fun e he => Or.inl he, fun e he => he, fun hok => by simp at hok⟩
      | increaseLimit => exact ⟨h, fun e he => Or.inl he, fun e he => he, fun hok => by simp at hok⟩

/-- what `wallBuild` returns: a tree with the invariant whose entries are exactly the inflated bounding
    spheres of the cells of `perm` (all of them when the status is ok) -/
theorem wallBuild_spec (ncell : Int) (verts : Int → List (V3 ℝ)) (perm : List Int) (st : Status)
    (s : Search ℝ) (hw : wallBuild ncell verts perm = (st, some s)) :
    BallInv s.root ∧ (∀ e ∈ s.root.pre, ∃ cell ∈ perm, SphereOf verts cell e) ∧
    (st = .ok → ∀ cell ∈ perm, ∃ e ∈ s.root.pre, SphereOf verts cell e) := by
  unfold wallBuild at hw
  unfold Search.create at hw
  by_cases hn : ncell < 0
  · simp [hn] at hw
  · simp only [hn, if_false] at hw
    have hspec := wallGo_spec verts perm ⟨ncell.toNat, 0, .nil⟩ (by simp [BallInv])
    generalize wallBuild.go verts ⟨ncell.toNat, 0, .nil⟩ perm = r at hw hspec
    obtain ⟨st', s'⟩ := r
    simp only [Prod.mk.injEq, Option.some.injEq] at hw
    obtain ⟨rfl, rfl⟩ := hw
    obtain ⟨i1, i2, _, i4⟩ := hspec
    refine ⟨i1, ?_, i4⟩
    intro e he
    rcases i2 e he with he' | h
    · simp [STree.pre] at he'
    · exact h

/-- every vertex of the element is inside the inflated sphere stored for it -/
theorem sphereOf_contains {verts : Int → List (V3 ℝ)} {cell : Int} {e : Entry ℝ}
    (h : SphereOf verts cell e) (p : V3 ℝ) (hp : p ∈ verts cell) : edist e.pos p ≤ e.rad := by
  obtain ⟨_, hpos, hrad⟩ := h
  rw [hpos, hrad]
  unfold boundingSphere
  simp only
  have h1 := sphereRadius_contains (sphereCenter (verts cell)) (verts cell) p hp
  have h2 := sphereRadius_nonneg (sphereCenter (verts cell)) (verts cell)
  have h3 := inflate_ge_one
  nlinarith

end Refine.Lemmas.Search
