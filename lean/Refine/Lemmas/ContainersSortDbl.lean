import Refine.Model.ContainersSort
import Refine.Lemmas.ContainersSort
import Mathlib.Data.List.Perm.Basic
import Mathlib.Order.Basic
import Mathlib.Order.Defs.LinearOrder
import Mathlib.Data.Nat.Basic
import Mathlib.Data.Int.Order.Basic

/-!
  `ref_sort.c`: `ref_sort_shuffle`, fuel irrelevance of the `ref_sort_search_int` loop, and
  `ref_sort_search_dbl` over a linear order.
-/
namespace Refine.Model.Sort
open List

/-! ### 1. `ref_sort_shuffle` -/

/-- loop invariant of `ref_sort_shuffle`: the array stays a permutation of `0..n-1` -/
theorem shuffleLoop_perm (n c i : Nat) (rs p : List Nat) (hc : i + c = n - 1)
    (hp : p.Perm (List.range n)) : (shuffleLoop n c i rs p).Perm (List.range n) := by
  induction c generalizing i rs p with
  | zero => simpa only [shuffleLoop] using hp
  | succ c ih =>
    simp only [shuffleLoop]
    have hlen : p.length = n := by simpa using hp.length_eq
    apply ih (i + 1) rs.tail _ (by omega)
    refine (swapAt_perm 0 p _ i ?_ (by omega)).trans hp
    rw [hlen]
    omega

theorem shuffle_perm (n : Nat) (rands : List Nat) : (shuffle n rands).Perm (List.range n) :=
  shuffleLoop_perm n (n - 1) 0 rands (List.range n) (by omega) (Perm.refl _)

theorem shuffle_length (n : Nat) (rands : List Nat) : (shuffle n rands).length = n := by
  simpa using (shuffle_perm n rands).length_eq

/-- every index `< n` occurs in the shuffled permutation, and only those -/
theorem mem_shuffle (n : Nat) (rands : List Nat) (k : Nat) : k ∈ shuffle n rands ↔ k < n := by
  rw [(shuffle_perm n rands).mem_iff, List.mem_range]

theorem shuffle_nodup (n : Nat) (rands : List Nat) : (shuffle n rands).Nodup :=
  (shuffle_perm n rands).nodup_iff.2 List.nodup_range

/-! ### 3. the `while ((lower < mid) && (mid < upper))` loop of `ref_sort_search_int` never runs
  out of fuel, on any input -/

theorem searchLoop_fuel (a : List Int) (t : Int) (fuel lo up mid : Nat) (h : up - lo ≤ fuel)
    (extra : Nat) : searchLoop a t (fuel + extra) lo up mid = searchLoop a t fuel lo up mid := by
  induction fuel generalizing lo up mid with
  | zero =>
    cases extra with
    | zero => rfl
    | succ e =>
      have hc : ¬ (lo < mid ∧ mid < up) := by omega
      simp only [searchLoop, Bool.and_eq_true, decide_eq_true_eq]
      rw [if_neg hc]
  | succ f ih =>
    have he : f + 1 + extra = (f + extra) + 1 := by omega
    rw [he]
    simp only [searchLoop, Bool.and_eq_true, decide_eq_true_eq]
    by_cases hc : lo < mid ∧ mid < up
    · rw [if_pos hc, if_pos hc, ih mid up _ (by omega), ih lo mid _ (by omega)]
    · rw [if_neg hc, if_neg hc]

theorem searchInt_fuel_enough (a : List Int) (t : Int) :
    ∀ extra, searchLoop a t (a.length + extra) 0 (a.length - 1) (a.length >>> 1) =
      searchLoop a t a.length 0 (a.length - 1) (a.length >>> 1) :=
  fun extra => searchLoop_fuel a t a.length 0 (a.length - 1) _ (by omega) extra

/-! ### 2. `ref_sort_search_dbl` over a linear order -/

section dbl
variable {α : Type} [LinearOrder α] [Inhabited α]

/-- `x <= y` of the C, as a Boolean -/
def leB (x y : α) : Bool := decide (x ≤ y)
/-- `x < y` of the C, as a Boolean -/
def ltB (x y : α) : Bool := decide (x < y)

omit [Inhabited α] in
theorem leB_eq : (leB : α → α → Bool) = fun x y => decide (x ≤ y) := rfl
omit [Inhabited α] in
theorem ltB_eq : (ltB : α → α → Bool) = fun x y => decide (x < y) := rfl

theorem pairwise_le_getD (a : List α) (hs : a.Pairwise (· ≤ ·)) (i j : Nat) (hij : i < j)
    (hj : j < a.length) : a.getD i default ≤ a.getD j default := by
  rw [List.pairwise_iff_getElem] at hs
  have := hs i j (by omega) hj hij
  rwa [getD_eq_getElem' _ _ (by omega : i < a.length), getD_eq_getElem' _ _ hj]

theorem brackets_iff (a : List α) (t : α) (k : Nat) :
    brackets leB ltB a t k = true ↔ a.getD k default ≤ t ∧ t < a.getD (k + 1) default := by
  simp only [brackets, leB, ltB, Bool.and_eq_true, decide_eq_true_eq]

/-- loop invariant of `while (lower < upper)`: `a[lower] <= t`, `t < a[upper]` or `t < a[upper+1]`,
    `mid` is the midpoint, and `upper - lower` iterations of fuel are enough.  No sortedness is
    needed: totality of the order is what makes the bisection terminate with a bracketing interval. -/
theorem searchDblLoop_spec (a : List α) (t : α)
    (fuel lo up mid : Nat) (hlu : lo < up) (hup : up + 1 < a.length)
    (hlo : a.getD lo default ≤ t)
    (hupv : t < a.getD up default ∨ t < a.getD (up + 1) default)
    (hmid : mid = (lo + up) / 2) (hfuel : up - lo ≤ fuel) :
    ∃ p : Nat, searchDblLoop leB ltB a t fuel lo up mid = some (Status.ok, (p : Int)) ∧
      p + 1 < a.length ∧ a.getD p default ≤ t ∧ t < a.getD (p + 1) default := by
  induction fuel generalizing lo up mid with
  | zero => omega
  | succ f ih =>
    simp only [searchDblLoop, Nat.shiftRight_eq_div_pow, Nat.pow_one]
    rw [if_pos hlu]
    by_cases hbl : brackets leB ltB a t lo = true
    · rw [if_pos hbl]
      have := (brackets_iff a t lo).1 hbl
      exact ⟨lo, rfl, by omega, this.1, this.2⟩
    rw [if_neg hbl]
    by_cases hbu : brackets leB ltB a t up = true
    · rw [if_pos hbu]
      have := (brackets_iff a t up).1 hbu
      exact ⟨up, rfl, hup, this.1, this.2⟩
    rw [if_neg hbu]
    by_cases hbm : brackets leB ltB a t mid = true
    · rw [if_pos hbm]
      have := (brackets_iff a t mid).1 hbm
      exact ⟨mid, rfl, by omega, this.1, this.2⟩
    rw [if_neg hbm]
    -- the interval has at least three points, otherwise `lower` or `upper` brackets the target
    have hgap : lo + 1 < up := by
      by_contra hc
      have hul : up = lo + 1 := by omega
      rw [brackets_iff] at hbl hbu
      rw [hul] at hupv hbu
      rcases hupv with h | h
      · exact hbl ⟨hlo, h⟩
      · apply hbu
        refine ⟨?_, h⟩
        by_contra hlt
        exact hbl ⟨hlo, not_le.1 hlt⟩
    by_cases hle : leB (a.getD mid default) t = true
    · rw [if_pos hle]
      have hle' : a.getD mid default ≤ t := by simpa [leB] using hle
      exact ih mid up _ (by omega) hup hle' hupv rfl (by omega)
    · rw [if_neg hle]
      have hlt : t < a.getD mid default := by simpa [leB] using hle
      exact ih lo mid _ (by omega) (by omega) hlo (Or.inl hlt) rfl (by omega)

/-- `ref_sort_search_dbl` over a linear order, for ANY list (sorted or not): the loop terminates
    (never `none`), the status is never `REF_FAILURE`, and the returned position `p` satisfies
    `a[p] <= t < a[p+1]` (clamped to the first / last interval outside `(a[0], a[n-1])`). -/
theorem searchDbl_spec_any (a : List α) (t : α) :
    (a.length = 0 → searchDbl leB ltB a t = some (Status.not_found, EMPTY)) ∧
    (a.length = 1 → searchDbl leB ltB a t = some (Status.ok, 0)) ∧
    (2 ≤ a.length → t ≤ a.getD 0 default → searchDbl leB ltB a t = some (Status.ok, 0)) ∧
    (2 ≤ a.length → ¬ t ≤ a.getD 0 default → a.getD (a.length - 1) default ≤ t →
        searchDbl leB ltB a t = some (Status.ok, ((a.length - 2 : Nat) : Int))) ∧
    (2 ≤ a.length → a.getD 0 default < t → t < a.getD (a.length - 1) default →
        ∃ p : Nat, searchDbl leB ltB a t = some (Status.ok, (p : Int)) ∧ p + 1 < a.length ∧
          a.getD p default ≤ t ∧ t < a.getD (p + 1) default) := by
  refine ⟨?_, ?_, ?_, ?_, ?_⟩
  · intro h
    simp only [searchDbl]
    rw [if_pos (by omega)]
  · intro h
    simp only [searchDbl]
    rw [if_neg (by omega), if_pos h]
  · intro h h0
    simp only [searchDbl]
    rw [if_neg (by omega), if_neg (by omega), if_pos (by simpa [leB] using h0)]
  · intro h h0 h1
    simp only [searchDbl]
    rw [if_neg (by omega), if_neg (by omega), if_neg (by simpa [leB] using h0),
      if_pos (by simpa [leB] using h1)]
  · intro h h0 h1
    simp only [searchDbl, Nat.zero_add, Nat.shiftRight_eq_div_pow, Nat.pow_one]
    rw [if_neg (by omega), if_neg (by omega), if_neg (by simpa [leB] using h0),
      if_neg (by simpa [leB] using h1)]
    by_cases hbm : brackets leB ltB a t ((a.length - 2) / 2) = true
    · rw [if_pos hbm]
      have := (brackets_iff a t _).1 hbm
      exact ⟨(a.length - 2) / 2, rfl, by omega, this.1, this.2⟩
    rw [if_neg hbm]
    have h3 : 0 < a.length - 2 := by
      by_contra hc
      have h2 : a.length - 2 = 0 := by omega
      have h11 : a.length - 1 = 0 + 1 := by omega
      rw [h2, brackets_iff] at hbm
      rw [h11] at h1
      exact hbm ⟨le_of_lt h0, h1⟩
    refine searchDblLoop_spec a t (2 * a.length) 0 (a.length - 2) _ h3 (by omega) (le_of_lt h0)
      (Or.inr ?_) (by simp) (by omega)
    have : a.length - 2 + 1 = a.length - 1 := by omega
    rw [this]
    exact h1

/-- in a non-decreasing list the bracketing interval `a[p] <= t < a[p+1]` is unique, so the position
    returned by `searchDbl_spec` in the interior case is THE interval holding the target -/
theorem bracket_unique (a : List α) (hs : a.Pairwise (· ≤ ·)) (t : α) (p q : Nat)
    (hp : p + 1 < a.length) (hq : q + 1 < a.length)
    (hp1 : a.getD p default ≤ t) (hp2 : t < a.getD (p + 1) default)
    (hq1 : a.getD q default ≤ t) (hq2 : t < a.getD (q + 1) default) : p = q := by
  have key : ∀ x y : Nat, y + 1 < a.length → x < y → t < a.getD (x + 1) default →
      a.getD y default ≤ t → False := by
    intro x y hy hxy h1 h2
    have h3 : a.getD (x + 1) default ≤ a.getD y default := by
      rcases Nat.lt_or_eq_of_le (by omega : x + 1 ≤ y) with h | h
      · exact pairwise_le_getD a hs (x + 1) y h (by omega)
      · rw [h]
    exact absurd (lt_of_lt_of_le h1 (le_trans h3 h2)) (lt_irrefl _)
  rcases Nat.lt_trichotomy p q with h | h | h
  · exact (key p q hq h hp2 hq1).elim
  · exact h
  · exact (key q p hp h hq2 hp1).elim

/-- `ref_sort_search_dbl` on a non-decreasing list (the sortedness hypothesis is not needed for the
    statement below, see `searchDbl_spec_any`; it makes the position unique, see `bracket_unique`) -/
theorem searchDbl_spec (a : List α) (hs : a.Pairwise (· ≤ ·)) (t : α) :
    (a.length = 0 → searchDbl leB ltB a t = some (Status.not_found, EMPTY)) ∧
    (a.length = 1 → searchDbl leB ltB a t = some (Status.ok, 0)) ∧
    (2 ≤ a.length → t ≤ a.getD 0 default → searchDbl leB ltB a t = some (Status.ok, 0)) ∧
    (2 ≤ a.length → ¬ t ≤ a.getD 0 default → a.getD (a.length - 1) default ≤ t →
        searchDbl leB ltB a t = some (Status.ok, ((a.length - 2 : Nat) : Int))) ∧
    (2 ≤ a.length → a.getD 0 default < t → t < a.getD (a.length - 1) default →
        ∃ p : Nat, searchDbl leB ltB a t = some (Status.ok, (p : Int)) ∧ p + 1 < a.length ∧
          a.getD p default ≤ t ∧ t < a.getD (p + 1) default) := by
  have _ := hs
  exact searchDbl_spec_any a t

/-- interior case on a sorted list, with uniqueness: the result is `p` for every (equivalently, the
    only) `p` with `a[p] <= t < a[p+1]` -/
theorem searchDbl_eq_of_bracket (a : List α) (hs : a.Pairwise (· ≤ ·)) (t : α) (p : Nat)
    (hp : p + 1 < a.length) (hp1 : a.getD p default ≤ t) (hp2 : t < a.getD (p + 1) default)
    (h0 : a.getD 0 default < t) : searchDbl leB ltB a t = some (Status.ok, (p : Int)) := by
  have hlast : t < a.getD (a.length - 1) default := by
    rcases Nat.lt_or_eq_of_le (by omega : p + 1 ≤ a.length - 1) with h | h
    · exact lt_of_lt_of_le hp2 (pairwise_le_getD a hs (p + 1) _ h (by omega))
    · rw [← h]; exact hp2
  obtain ⟨q, hq, hq0, hq1, hq2⟩ := (searchDbl_spec a hs t).2.2.2.2 (by omega) h0 hlast
  rw [hq, bracket_unique a hs t p q hp hq0 hp1 hp2 hq1 hq2]

/-- the same statement with the comparisons spelled out as `decide` lambdas -/
theorem searchDbl_spec' (a : List α) (hs : a.Pairwise (· ≤ ·)) (t : α) :
    (a.length = 0 → searchDbl (fun x y : α => decide (x ≤ y)) (fun x y : α => decide (x < y)) a t
        = some (Status.not_found, EMPTY)) ∧
    (a.length = 1 → searchDbl (fun x y : α => decide (x ≤ y)) (fun x y : α => decide (x < y)) a t
        = some (Status.ok, 0)) ∧
    (2 ≤ a.length → t ≤ a.getD 0 default →
        searchDbl (fun x y : α => decide (x ≤ y)) (fun x y : α => decide (x < y)) a t
        = some (Status.ok, 0)) ∧
    (2 ≤ a.length → ¬ t ≤ a.getD 0 default → a.getD (a.length - 1) default ≤ t →
        searchDbl (fun x y : α => decide (x ≤ y)) (fun x y : α => decide (x < y)) a t
        = some (Status.ok, ((a.length - 2 : Nat) : Int))) ∧
    (2 ≤ a.length → a.getD 0 default < t → t < a.getD (a.length - 1) default →
        ∃ p : Nat, searchDbl (fun x y : α => decide (x ≤ y)) (fun x y : α => decide (x < y)) a t
          = some (Status.ok, (p : Int)) ∧ p + 1 < a.length ∧
          a.getD p default ≤ t ∧ t < a.getD (p + 1) default) :=
  searchDbl_spec a hs t

/-- on sorted input the search always terminates with `REF_SUCCESS` (or `REF_NOT_FOUND` for `n = 0`);
    in particular never `none` (non-termination) and never `REF_FAILURE` -/
theorem searchDbl_total (a : List α) (hs : a.Pairwise (· ≤ ·)) (t : α) :
    ∃ st pos, searchDbl leB ltB a t = some (st, pos) ∧ st ≠ Status.failure := by
  obtain ⟨h0, h1, h2, h3, h4⟩ := searchDbl_spec a hs t
  by_cases hn0 : a.length = 0
  · exact ⟨_, _, h0 hn0, by decide⟩
  by_cases hn1 : a.length = 1
  · exact ⟨_, _, h1 hn1, by decide⟩
  have hn : 2 ≤ a.length := by omega
  by_cases c0 : t ≤ a.getD 0 default
  · exact ⟨_, _, h2 hn c0, by decide⟩
  by_cases c1 : a.getD (a.length - 1) default ≤ t
  · exact ⟨_, _, h3 hn c0 c1, by decide⟩
  obtain ⟨p, hp, -⟩ := h4 hn (not_le.1 c0) (not_le.1 c1)
  exact ⟨_, _, hp, by decide⟩

end dbl

/-! ### 4. non-vacuity -/

example : shuffle 5 [3, 7, 100, 2] = [3, 4, 0, 2, 1] := by decide
example : shuffle 0 [] = [] := by decide
example : shuffle 1 [5] = [0] := by decide

example : searchDbl (fun x y : Int => decide (x ≤ y)) (fun x y : Int => decide (x < y))
    [0, 10, 20] 15 = some (Status.ok, 1) := by decide
example : searchDbl (leB : Int → Int → Bool) ltB [0, 10, 20] 15 = some (Status.ok, 1) := by decide
example : searchDbl (leB : Int → Int → Bool) ltB [0, 10, 20, 30, 40, 50] 45 = some (Status.ok, 4) := by
  decide
example : searchDbl (leB : Int → Int → Bool) ltB [0, 10, 20] 25 = some (Status.ok, 1) := by decide
example : searchDbl (leB : Int → Int → Bool) ltB [0, 10, 20] (-5) = some (Status.ok, 0) := by decide
example : searchDbl (leB : Nat → Nat → Bool) ltB [] 3 = some (Status.not_found, EMPTY) := by decide
/-- in a linear order the search succeeds on unsorted lists too (`searchDbl_spec_any`) -/
example : searchDbl (leB : Int → Int → Bool) ltB [0, 50, 1, 60, 1, 70, 1, 80, 1, 90, 40] 20
    = some (Status.ok, 4) := by decide

/-- IEEE-like comparisons on `Option Int` with `none` playing NaN: every comparison with NaN is false -/
def leNaN : Option Int → Option Int → Bool
  | some x, some y => decide (x ≤ y)
  | _, _ => false
def ltNaN : Option Int → Option Int → Bool
  | some x, some y => decide (x < y)
  | _, _ => false

/-- totality of the order is what the theorems use: with a NaN as last element the `while` loop of the
    C never terminates (`lower = mid = 0`, `upper = 1` for ever), which the model reports as `none` -/
example : searchDbl leNaN ltNaN [some 0, some 1, none] (some 5) = none := by decide
/-- and with a NaN target the C returns `REF_FAILURE` -/
example : searchDbl leNaN ltNaN [some 0, some 1, some 2] none = some (Status.failure, EMPTY) := by
  decide
example : searchLoop [1, 3, 5, 7, 9] 7 5 0 4 2 = (Status.ok, 3) := by decide

end Refine.Model.Sort
