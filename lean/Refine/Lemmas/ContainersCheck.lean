import Refine.Model.ContainersCheck
import Refine.Lemmas.ContainersListDict

/-! the executable invariant checkers of `REF_LIST` / `REF_DICT` decide exactly `Inv` -/
namespace Refine.Model

theorem sortedLt_iff (l : List Int) : sortedLt l = true ↔ l.Pairwise (· < ·) := by
  induction l with
  | nil => simp [sortedLt]
  | cons x r ih =>
    cases r with
    | nil => simp [sortedLt]
    | cons y r =>
      rw [sortedLt, Bool.and_eq_true, decide_eq_true_eq, ih, List.pairwise_cons (a := x)]
      constructor
      · rintro ⟨hxy, hp⟩
        refine ⟨?_, hp⟩
        intro z hz
        rcases List.mem_cons.1 hz with rfl | hz
        · exact hxy
        · have := (List.pairwise_cons.1 hp).1 z hz; omega
      · rintro ⟨hall, hp⟩
        exact ⟨hall y List.mem_cons_self, hp⟩

theorem RDict.invCheck_iff (d : RDict) : d.invCheck = true ↔ RDict.Inv d := by
  simp only [RDict.invCheck, RDict.Inv, Bool.and_eq_true, sortedLt_iff, beq_iff_eq, decide_eq_true_eq]
  tauto

theorem RList.invCheck_iff (l : RList) : l.invCheck = true ↔ RList.Inv l := by
  simp only [RList.invCheck, RList.Inv, Bool.and_eq_true, beq_iff_eq, decide_eq_true_eq]

end Refine.Model
