import Refine.Lemmas.CavityReplace
import Mathlib.Data.List.Perm.Basic

/-!
  `replace` at grid level: on the success path the live tets of the grid are, as a multiset,
  `before − listed + newTets` (tris likewise).  Generic facts about `Slots` (rows + LIFO blank chain) first.
-/
namespace Refine.Lemmas.Cavity
open Refine.Model.Cavity

section slots
variable {β : Type}

theorem reduceOption_set_some (l : List (Option β)) (i : Nat) (x : β) (hi : i < l.length)
    (h : l.getD i none = none) : (l.set i (some x)).reduceOption.Perm (x :: l.reduceOption) := by
  induction l generalizing i with
  | nil => simp at hi
  | cons r t ih =>
    cases i with
    | zero =>
      simp only [List.getD_cons_zero] at h; subst h
      simp [List.reduceOption]
    | succ j =>
      have hj : j < t.length := by simpa using hi
      have := ih j hj (by simpa using h)
      cases r with
      | none => simpa [List.reduceOption] using this
      | some y =>
        simp only [List.set_cons_succ, List.reduceOption, List.filterMap_cons, id] at this ⊢
        exact (List.Perm.cons y this).trans (List.Perm.swap x y _)

theorem reduceOption_set_none (l : List (Option β)) (i : Nat) (x : β)
    (h : l.getD i none = some x) : l.reduceOption.Perm (x :: (l.set i none).reduceOption) := by
  induction l generalizing i with
  | nil => simp at h
  | cons r t ih =>
    cases i with
    | zero =>
      simp only [List.getD_cons_zero] at h; subst h
      simp [List.reduceOption]
    | succ j =>
      have := ih j (by simpa using h)
      cases r with
      | none => simpa [List.reduceOption] using this
      | some y =>
        simp only [List.set_cons_succ, List.reduceOption, List.filterMap_cons, id] at this ⊢
        exact (List.Perm.cons y this).trans (List.Perm.swap x y _)

theorem getD_lt_of_some (l : List (Option β)) (i : Nat) (x : β) (h : l.getD i none = some x) : i < l.length := by
  by_contra hn
  rw [List.getD_eq_getElem?_getD, List.getElem?_eq_none (by omega)] at h
  cases h

theorem Slots.grow_valid (s : Slots β) (m : Nat) : (s.grow m).valid = s.valid := by
  unfold Slots.grow Slots.valid
  split
  · simp [List.reduceOption, List.filterMap_append, List.filterMap_replicate_of_none]
  · rfl

theorem Slots.grow_getD (s : Slots β) (m : Nat) (j : Nat) (y : β) (h : s.rows.getD j none = some y) :
    (s.grow m).rows.getD j none = some y := by
  unfold Slots.grow
  split
  · have hj := getD_lt_of_some _ _ _ h
    rw [List.getD_eq_getElem?_getD, List.getElem?_append_left hj, ← List.getD_eq_getElem?_getD]; exact h
  · exact h

/-- `Slots.add`: the new row lands on a blank slot, everything live stays where it is -/
theorem Slots.add_spec (s : Slots β) (m : Nat) (hm : 0 < m) (x : β) (hinv : SlotsInv s) :
    SlotsInv (s.add m x).1 ∧ (s.add m x).1.valid.Perm (x :: s.valid) ∧
    (∀ j y, s.rows.getD j none = some y → (s.add m x).1.rows.getD j none = some y) ∧
    (∀ j y, (s.add m x).1.rows.getD j none = some y → s.rows.getD j none = some y ∨ y = x) := by
  have hgi := SlotsInv.grow hinv m
  have hne := grow_blank_ne s m hm
  simp only [Slots.add]
  cases hb : (s.grow m).blank with
  | nil => exact absurd hb hne
  | cons i rest =>
    have hnd := hgi.nodup
    rw [hb] at hnd
    have hi := hgi.blank i (by rw [hb]; simp)
    refine ⟨⟨(List.nodup_cons.mp hnd).2, ?_⟩, ?_, ?_, ?_⟩
    · intro j hj
      simp only [List.length_set]
      have hj' := hgi.blank j (by rw [hb]; exact List.mem_cons_of_mem _ hj)
      refine ⟨hj'.1, ?_⟩
      have hne : i ≠ j := by
        intro e; subst e; exact (List.nodup_cons.mp hnd).1 hj
      rw [List.getD_eq_getElem?_getD, List.getElem?_set_ne hne, ← List.getD_eq_getElem?_getD]
      exact hj'.2
    · have := reduceOption_set_some (s.grow m).rows i x hi.1 hi.2
      have hv := Slots.grow_valid s m
      simp only [Slots.valid] at this hv ⊢
      rw [← hv]; exact this
    · intro j y hy
      have hy' := Slots.grow_getD s m j y hy
      have hne : i ≠ j := by
        intro e; subst e; rw [hi.2] at hy'; cases hy'
      simp only
      rw [List.getD_eq_getElem?_getD, List.getElem?_set_ne hne, ← List.getD_eq_getElem?_getD]; exact hy'
    · intro j y hy
      simp only at hy
      by_cases e : i = j
      · subst e
        rw [List.getD_eq_getElem?_getD, List.getElem?_set_self hi.1] at hy
        right; simpa using hy.symm
      · left
        rw [List.getD_eq_getElem?_getD, List.getElem?_set_ne e, ← List.getD_eq_getElem?_getD] at hy
        unfold Slots.grow at hy
        split at hy
        · by_cases hj : j < s.rows.length
          · rw [List.getD_eq_getElem?_getD, List.getElem?_append_left hj, ← List.getD_eq_getElem?_getD] at hy
            exact hy
          · rw [List.getD_eq_getElem?_getD, List.getElem?_append_right (by omega)] at hy
            simp only [List.getElem?_replicate] at hy
            split at hy <;> cases hy
        · exact hy

/-- `Slots.remove` of a live row -/
theorem Slots.remove_spec (s : Slots β) (i : Nat) (x : β) (hinv : SlotsInv s) (h : s.rows.getD i none = some x) :
    SlotsInv (s.remove i) ∧ s.valid.Perm (x :: (s.remove i).valid) ∧
    (∀ j y, (s.remove i).rows.getD j none = some y → s.rows.getD j none = some y) := by
  have hi := getD_lt_of_some _ _ _ h
  have hnot : i ∉ s.blank := by
    intro hmem
    have := (hinv.blank i hmem).2
    rw [h] at this; cases this
  refine ⟨⟨?_, ?_⟩, reduceOption_set_none s.rows i x h, ?_⟩
  · simp only [Slots.remove, List.nodup_cons]; exact ⟨hnot, hinv.nodup⟩
  · intro j hj
    simp only [Slots.remove, List.mem_cons] at hj
    simp only [Slots.remove, List.length_set]
    rcases hj with rfl | hj
    · exact ⟨hi, by simp [List.getD_eq_getElem?_getD, hi]⟩
    · refine ⟨(hinv.blank j hj).1, ?_⟩
      have := (hinv.blank j hj).2
      rw [List.getD_eq_getElem?_getD, List.getElem?_set]
      split
      · simp
      · rw [← List.getD_eq_getElem?_getD]; exact this
  · intro j y hy
    simp only [Slots.remove] at hy
    by_cases e : i = j
    · subst e
      rw [List.getD_eq_getElem?_getD, List.getElem?_set_self hi] at hy; cases hy
    · rw [List.getD_eq_getElem?_getD, List.getElem?_set_ne e, ← List.getD_eq_getElem?_getD] at hy
      exact hy

end slots

/-! ### Tet: additions and removals in the tet store -/
section tetsec
variable {α : Type}

theorem Cells.get?_eq_tet (s : Cells Tet) (cell : Int) :
    s.get? cell = if cell < 0 then none else s.slots.rows.getD cell.toNat none := rfl

theorem addNewTets_spec (g g1 : Grid α) (ts : List Tet) (hinv : SlotsInv g.tets.slots)
    (h : addNewTets g ts = (.ok, g1)) :
    SlotsInv g1.tets.slots ∧ g1.tets.valid.Perm (ts ++ g.tets.valid) ∧
    g1.tris = g.tris ∧ g1.edgs = g.edgs ∧ g1.nodes = g.nodes ∧ g1.twod = g.twod ∧
    (∀ cell t, g.tets.get? cell = some t → g1.tets.get? cell = some t) ∧
    (∀ cell t, g1.tets.get? cell = some t → g.tets.get? cell = some t ∨ t ∈ ts) := by
  induction ts generalizing g with
  | nil =>
    simp only [addNewTets, Prod.mk.injEq, true_and] at h; subst h
    exact ⟨hinv, by simp, rfl, rfl, rfl, rfl, fun _ _ h => h, fun _ _ h => Or.inl h⟩
  | cons t rest ih =>
    unfold addNewTets at h
    split at h
    · simp at h
    · obtain ⟨hi1, hp1, hk1, hb1⟩ := Slots.add_spec g.tets.slots 5000 (by decide) t hinv
      obtain ⟨hi2, hp2, ho, he, hn, htw, hk2, hb2⟩ :=
        ih { g with tets := (g.tets.add t).1 } (by simpa [Cells.add] using hi1) h
      refine ⟨hi2, ?_, ho, he, hn, htw, ?_, ?_⟩
      · refine hp2.trans ?_
        have : ({ g with tets := (g.tets.add t).1 } : Grid α).tets.valid.Perm (t :: g.tets.valid) := by
          simpa [Cells.add, Cells.valid] using hp1
        exact (List.Perm.append_left rest this).trans (by simpa using List.perm_middle)
      · intro cell x hx
        apply hk2
        rw [Cells.get?_eq_tet] at hx ⊢
        split at hx
        · cases hx
        · next hneg => rw [if_neg hneg]; simpa [Cells.add] using hk1 _ _ hx
      · intro cell x hx
        rcases hb2 cell x hx with h1 | h1
        · rw [Cells.get?_eq_tet] at h1
          split at h1
          · cases h1
          · next hneg =>
            rcases hb1 cell.toNat x (by simpa [Cells.add] using h1) with h2 | h2
            · left; rw [Cells.get?_eq_tet, if_neg hneg]; exact h2
            · right; rw [h2]; exact List.mem_cons_self
        · right; exact List.mem_cons_of_mem _ h1

theorem rmTets_spec (g g2 : Grid α) (acc acc' : List Int) (cells : List Int) (hinv : SlotsInv g.tets.slots)
    (h : rmTets g acc cells = (.ok, g2, acc')) :
    SlotsInv g2.tets.slots ∧
    (∃ removed, List.Forall₂ (fun cell t => g.tets.get? cell = some t) cells removed ∧
      g.tets.valid.Perm (removed ++ g2.tets.valid)) ∧
    g2.tris = g.tris ∧ g2.edgs = g.edgs ∧ g2.nodes = g.nodes ∧ g2.twod = g.twod ∧
    (∀ cell t, g2.tets.get? cell = some t → g.tets.get? cell = some t) := by
  induction cells generalizing g acc with
  | nil =>
    simp only [rmTets, Prod.mk.injEq, true_and] at h
    obtain ⟨rfl, _⟩ := h
    exact ⟨hinv, ⟨[], List.Forall₂.nil, by simp⟩, rfl, rfl, rfl, rfl, fun _ _ h => h⟩
  | cons cell rest ih =>
    unfold rmTets at h
    split at h
    · simp at h
    · next t hget =>
      simp only at h
      split at h
      · simp at h
      · have hrow : g.tets.slots.rows.getD cell.toNat none = some t := by
          rw [Cells.get?_eq_tet] at hget
          split at hget
          · cases hget
          · exact hget
        obtain ⟨hi1, hp1, hb1⟩ := Slots.remove_spec g.tets.slots cell.toNat t hinv hrow
        obtain ⟨hi2, ⟨removed, hf, hp2⟩, ho, he, hn, htw, hb2⟩ :=
          ih { g with tets := g.tets.remove cell.toNat } _ (by simpa [Cells.remove] using hi1) h
        have back : ∀ c x, ({ g with tets := g.tets.remove cell.toNat } : Grid α).tets.get? c = some x →
            g.tets.get? c = some x := by
          intro c x hx
          rw [Cells.get?_eq_tet] at hx ⊢
          split at hx
          · cases hx
          · next hneg => rw [if_neg hneg]; exact hb1 _ _ (by simpa [Cells.remove] using hx)
        refine ⟨hi2, ⟨t :: removed, List.Forall₂.cons hget (hf.imp (fun {c x} hx => back c x hx)), ?_⟩,
          ho, he, hn, htw, fun c x hx => back c x (hb2 c x hx)⟩
        have : g.tets.valid.Perm (t :: ({ g with tets := g.tets.remove cell.toNat } : Grid α).tets.valid) := by
          simpa [Cells.remove, Cells.valid] using hp1
        exact this.trans (List.Perm.cons t hp2)

end tetsec

/-! ### Tri: additions and removals in the tet store -/
section trisec
variable {α : Type}

theorem Cells.get?_eq_tri (s : Cells Tri) (cell : Int) :
    s.get? cell = if cell < 0 then none else s.slots.rows.getD cell.toNat none := rfl

theorem addNewTris_spec (g g1 : Grid α) (ts : List Tri) (hinv : SlotsInv g.tris.slots)
    (h : addNewTris g ts = (.ok, g1)) :
    SlotsInv g1.tris.slots ∧ g1.tris.valid.Perm (ts ++ g.tris.valid) ∧
    g1.tets = g.tets ∧ g1.edgs = g.edgs ∧ g1.nodes = g.nodes ∧ g1.twod = g.twod ∧
    (∀ cell t, g.tris.get? cell = some t → g1.tris.get? cell = some t) ∧
    (∀ cell t, g1.tris.get? cell = some t → g.tris.get? cell = some t ∨ t ∈ ts) := by
  induction ts generalizing g with
  | nil =>
    simp only [addNewTris, Prod.mk.injEq, true_and] at h; subst h
    exact ⟨hinv, by simp, rfl, rfl, rfl, rfl, fun _ _ h => h, fun _ _ h => Or.inl h⟩
  | cons t rest ih =>
    unfold addNewTris at h
    split at h
    · simp at h
    · obtain ⟨hi1, hp1, hk1, hb1⟩ := Slots.add_spec g.tris.slots 5000 (by decide) t hinv
      obtain ⟨hi2, hp2, ho, he, hn, htw, hk2, hb2⟩ :=
        ih { g with tris := (g.tris.add t).1 } (by simpa [Cells.add] using hi1) h
      refine ⟨hi2, ?_, ho, he, hn, htw, ?_, ?_⟩
      · refine hp2.trans ?_
        have : ({ g with tris := (g.tris.add t).1 } : Grid α).tris.valid.Perm (t :: g.tris.valid) := by
          simpa [Cells.add, Cells.valid] using hp1
        exact (List.Perm.append_left rest this).trans (by simpa using List.perm_middle)
      · intro cell x hx
        apply hk2
        rw [Cells.get?_eq_tri] at hx ⊢
        split at hx
        · cases hx
        · next hneg => rw [if_neg hneg]; simpa [Cells.add] using hk1 _ _ hx
      · intro cell x hx
        rcases hb2 cell x hx with h1 | h1
        · rw [Cells.get?_eq_tri] at h1
          split at h1
          · cases h1
          · next hneg =>
            rcases hb1 cell.toNat x (by simpa [Cells.add] using h1) with h2 | h2
            · left; rw [Cells.get?_eq_tri, if_neg hneg]; exact h2
            · right; rw [h2]; exact List.mem_cons_self
        · right; exact List.mem_cons_of_mem _ h1

theorem rmTris_spec (g g2 : Grid α) (acc acc' : List Int) (cells : List Int) (hinv : SlotsInv g.tris.slots)
    (h : rmTris g acc cells = (.ok, g2, acc')) :
    SlotsInv g2.tris.slots ∧
    (∃ removed, List.Forall₂ (fun cell t => g.tris.get? cell = some t) cells removed ∧
      g.tris.valid.Perm (removed ++ g2.tris.valid)) ∧
    g2.tets = g.tets ∧ g2.edgs = g.edgs ∧ g2.nodes = g.nodes ∧ g2.twod = g.twod ∧
    (∀ cell t, g2.tris.get? cell = some t → g.tris.get? cell = some t) := by
  induction cells generalizing g acc with
  | nil =>
    simp only [rmTris, Prod.mk.injEq, true_and] at h
    obtain ⟨rfl, _⟩ := h
    exact ⟨hinv, ⟨[], List.Forall₂.nil, by simp⟩, rfl, rfl, rfl, rfl, fun _ _ h => h⟩
  | cons cell rest ih =>
    unfold rmTris at h
    split at h
    · simp at h
    · next t hget =>
      simp only at h
      split at h
      · simp at h
      · have hrow : g.tris.slots.rows.getD cell.toNat none = some t := by
          rw [Cells.get?_eq_tri] at hget
          split at hget
          · cases hget
          · exact hget
        obtain ⟨hi1, hp1, hb1⟩ := Slots.remove_spec g.tris.slots cell.toNat t hinv hrow
        obtain ⟨hi2, ⟨removed, hf, hp2⟩, ho, he, hn, htw, hb2⟩ :=
          ih { g with tris := g.tris.remove cell.toNat } _ (by simpa [Cells.remove] using hi1) h
        have back : ∀ c x, ({ g with tris := g.tris.remove cell.toNat } : Grid α).tris.get? c = some x →
            g.tris.get? c = some x := by
          intro c x hx
          rw [Cells.get?_eq_tri] at hx ⊢
          split at hx
          · cases hx
          · next hneg => rw [if_neg hneg]; exact hb1 _ _ (by simpa [Cells.remove] using hx)
        refine ⟨hi2, ⟨t :: removed, List.Forall₂.cons hget (hf.imp (fun {c x} hx => back c x hx)), ?_⟩,
          ho, he, hn, htw, fun c x hx => back c x (hb2 c x hx)⟩
        have : g.tris.valid.Perm (t :: ({ g with tris := g.tris.remove cell.toNat } : Grid α).tris.valid) := by
          simpa [Cells.remove, Cells.valid] using hp1
        exact this.trans (List.Perm.cons t hp2)

end trisec

/-! ### the steps of `replace` that leave tets and tris alone -/
section rest
variable {α : Type}

theorem rmNodes_cells (g : Grid α) (vs : List Int) :
    (rmNodes g vs).tets = g.tets ∧ (rmNodes g vs).tris = g.tris := by
  induction vs generalizing g with
  | nil => exact ⟨rfl, rfl⟩
  | cons v rest ih =>
    unfold rmNodes
    split
    · exact ih (g.removeNode v.toNat)
    · exact ih g

theorem edgReplaceNode_cells (g : Grid α) (a b : Int) :
    (edgReplaceNode g a b).tets = g.tets ∧ (edgReplaceNode g a b).tris = g.tris := by
  unfold edgReplaceNode; split <;> exact ⟨rfl, rfl⟩

theorem replaceEdgs_cells (g : Grid α) (c : Cav) :
    (replaceEdgs g c).tets = g.tets ∧ (replaceEdgs g c).tris = g.tris := by
  unfold replaceEdgs
  simp only
  repeat' split
  all_goals first
    | exact ⟨rfl, rfl⟩
    | exact ⟨(edgReplaceNode_cells _ _ _).1, (edgReplaceNode_cells _ _ _).2⟩

/-- the two verifications either return the cavity unchanged or flag it `inconsistent` -/
theorem verifyFaceManifold_cases (c : Cav) :
    verifyFaceManifold c = (.ok, c) ∨ verifyFaceManifold c = (.ok, { c with state := .inconsistent }) ∨
    verifyFaceManifold c = (.failure, c) := by
  unfold verifyFaceManifold
  split
  · left; rfl
  · split
    · left; rfl
    · right; left; rfl
    · right; right; rfl

theorem verifySegManifold_cases (c : Cav) :
    verifySegManifold c = (.ok, c) ∨ verifySegManifold c = (.ok, { c with state := .inconsistent }) ∨
    verifySegManifold c = (.failure, c) := by
  unfold verifySegManifold
  split
  · left; rfl
  · split
    · left; rfl
    · right; left; rfl
    · right; right; rfl

theorem notok {A : Type} {s : Refine.Model.Cavity.St} {a b : A} (h : (s, a) = (Refine.Model.Cavity.St.ok, b))
    (hs : s ≠ .ok) : False := hs (congrArg Prod.fst h)

/-- what a successful `ref_cavity_replace` did, step by step -/
theorem replace_ok (g g' : Grid α) (c c' : Cav) (h : replace g c = (.ok, c', g')) :
    c' = c ∧ c.state = .visible ∧ verifyFaceManifold c = (.ok, c) ∧ verifySegManifold c = (.ok, c) ∧
    ∃ g1 g2 g3 g4 acc1 acc2,
      addNewTets g (newTets c) = (.ok, g1) ∧ addNewTris g1 (newTris c) = (.ok, g2) ∧
      rmTets g2 [] c.tetList = (.ok, g3, acc1) ∧ rmTris g3 acc1 c.triList = (.ok, g4, acc2) ∧
      g'.tets = g4.tets ∧ g'.tris = g4.tris := by
  unfold replace at h
  split at h
  · simp at h
  · next hvis0 =>
    have hvis : c.state = .visible := by simpa using hvis0
    rcases verifyFaceManifold_cases c with hf | hf | hf <;> rw [hf] at h <;> simp only [] at h
    · rcases verifySegManifold_cases c with hs | hs | hs <;> rw [hs] at h <;> simp only [] at h
      · rw [if_neg (by simp [hvis])] at h
        split at h
        · exact (notok h (by decide)).elim
        · cases h1 : addNewTets g (newTets c) with | mk s1 g1 =>
          rw [h1] at h
          cases s1 <;> simp only [] at h <;>
            first | (exact (notok h (by decide)).elim) | skip
          cases h2 : addNewTris g1 (newTris c) with | mk s2 g2 =>
          rw [h2] at h
          cases s2 <;> simp only [] at h <;>
            first | (exact (notok h (by decide)).elim) | skip
          rcases h3 : rmTets g2 [] c.tetList with ⟨s3, g3, acc1⟩
          rw [h3] at h
          cases s3 <;> simp only [] at h <;>
            first | (exact (notok h (by decide)).elim) | skip
          rcases h4 : rmTris g3 acc1 c.triList with ⟨s4, g4, acc2⟩
          rw [h4] at h
          cases s4 <;> simp only [] at h <;>
            first | (exact (notok h (by decide)).elim) | skip
          split_ifs at h
          all_goals first
            | exact (notok h (by decide)).elim
            | (simp only [Prod.mk.injEq, true_and] at h
               obtain ⟨rfl, rfl⟩ := h
               exact ⟨rfl, hvis, hf, hs, g1, g2, g3, g4, acc1, acc2, rfl, h2, h3, h4,
                 (replaceEdgs_cells _ _).1.trans (rmNodes_cells _ _).1,
                 (replaceEdgs_cells _ _).2.trans (rmNodes_cells _ _).2⟩)
      · rw [if_pos (by decide)] at h; exact (notok h (by decide)).elim
      · exact (notok h (by decide)).elim
    · -- flagged inconsistent: the second verification returns at once, then the state test fails
      have : verifySegManifold { c with state := .inconsistent } = (.ok, { c with state := .inconsistent }) := by
        unfold verifySegManifold; simp
      rw [this] at h; simp only [] at h
      rw [if_pos (by decide)] at h; exact (notok h (by decide)).elim
    · exact (notok h (by decide)).elim

end rest

end Refine.Lemmas.Cavity
