import Refine.Model.Par
import Mathlib.Data.List.Perm.Basic

/-!
  The cell gather of `Refine.Model.Par` (ref_gather_cell with the owner filter of ref_cell_part): over a World
  that stores the global mesh `G` under the storage rule, every cell is emitted by exactly one rank.
-/
namespace Refine.Lemmas.Par
open Refine.Model.Par

variable {α : Type}

/-- owner of a cell as a function of the cell and the partition alone: the part of its smallest global -/
def cellOwner (part : Nat → Nat) (c : GCell) : Option Nat := (minGlobal c.nodes).map part

/-- storage rule: rank `q` stores `c` iff some vertex of `c` has `part = q` -/
def storedOn (part : Nat → Nat) (q : Nat) (c : GCell) : Bool := c.nodes.any fun g => part g == q

/-- rank `r`'s view `v` agrees with the global mesh `G` partitioned by `part` -/
structure Consistent (part : Nat → Nat) (G : List GCell) (r : Nat) (v : RankView α) : Prop where
  /-- it stores exactly the cells the storage rule gives it (in any order) -/
  cells : v.cells.Perm (G.filter (storedOn part r))
  /-- every node of a stored cell is stored, with the true part -/
  parts : ∀ c ∈ v.cells, ∀ g ∈ c.nodes, ∃ nd, localOf v g = some nd ∧ nd.part = part g

def ownerIn (part : Nat → Nat) (lo hi : Nat) (c : GCell) : Bool :=
  match cellOwner part c with
  | some q => decide (lo ≤ q) && decide (q < hi)
  | none => false

theorem foldl_min_mem (gs : List Nat) (g : Nat) :
    gs.foldl (fun m x => if x < m then x else m) g ∈ g :: gs := by
  induction gs generalizing g with
  | nil => simp
  | cons x xs ih =>
    simp only [List.foldl_cons]
    by_cases h : x < g
    · simp only [h, if_true]
      have := ih x
      simp only [List.mem_cons] at this ⊢
      rcases this with h1 | h1
      · right; left; exact h1
      · right; right; exact h1
    · simp only [h, if_false]
      have := ih g
      simp only [List.mem_cons] at this ⊢
      rcases this with h1 | h1
      · left; exact h1
      · right; right; exact h1

theorem minGlobal_mem (gs : List Nat) (m : Nat) (h : minGlobal gs = some m) : m ∈ gs := by
  cases gs with
  | nil => simp [minGlobal] at h
  | cons g gs =>
    simp only [minGlobal, Option.some.injEq] at h
    rw [← h]; exact foldl_min_mem gs g

/-- on a consistent view the local ref_cell_part is the global owner -/
theorem cellPart_eq (part : Nat → Nat) (G : List GCell) (r : Nat) (v : RankView α) (hc : Consistent part G r v)
    (c : GCell) (hcv : c ∈ v.cells) : cellPart v c = cellOwner part c := by
  unfold cellPart cellOwner
  cases hm : minGlobal c.nodes with
  | none => rfl
  | some m =>
    obtain ⟨nd, h1, h2⟩ := hc.parts c hcv m (minGlobal_mem _ _ hm)
    simp [h1, h2]

theorem owner_stored (part : Nat → Nat) (r : Nat) (c : GCell) (h : cellOwner part c = some r) :
    storedOn part r c = true := by
  unfold cellOwner at h
  cases hm : minGlobal c.nodes with
  | none => simp [hm] at h
  | some m =>
    simp only [hm, Option.map_some, Option.some.injEq] at h
    simp only [storedOn, List.any_eq_true, beq_iff_eq]
    exact ⟨m, minGlobal_mem _ _ hm, h⟩

/-- what rank `r` emits is, up to order, the cells of `G` it owns -/
theorem emitted_perm (part : Nat → Nat) (G : List GCell) (r : Nat) (v : RankView α) (hc : Consistent part G r v) :
    (emitted r v).Perm (G.filter fun c => cellOwner part c == some r) := by
  have h1 : emitted r v = v.cells.filter fun c => cellOwner part c == some r := by
    unfold emitted
    apply List.filter_congr
    intro c hcv
    rw [cellPart_eq part G r v hc c hcv]
  rw [h1]
  refine (hc.cells.filter _).trans ?_
  rw [List.filter_filter]
  apply List.Perm.of_eq
  apply List.filter_congr
  intro c _
  by_cases h : cellOwner part c = some r
  · simp [h, owner_stored part r c h]
  · simp [h]

theorem filter_append_disjoint {β : Type} (p q : β → Bool) (l : List β) (hd : ∀ a ∈ l, ¬ (p a = true ∧ q a = true)) :
    (l.filter p ++ l.filter q).Perm (l.filter fun a => p a || q a) := by
  induction l with
  | nil => simp
  | cons a l ih =>
    have ih' := ih fun b hb => hd b (List.mem_cons_of_mem _ hb)
    have ha := hd a List.mem_cons_self
    by_cases hp : p a = true
    · have hq : q a = false := by
        cases hqa : q a with
        | false => rfl
        | true => exact absurd ⟨hp, hqa⟩ ha
      simp only [List.filter_cons, hp, hq, if_true, Bool.true_or, List.cons_append, Bool.false_eq_true, if_false]
      exact ih'.cons a
    · have hp' : p a = false := by simpa using hp
      by_cases hq : q a = true
      · simp only [List.filter_cons, hp', hq, Bool.false_eq_true, if_false, if_true, Bool.false_or]
        exact List.perm_middle.trans (ih'.cons a)
      · have hq' : q a = false := by simpa using hq
        simp only [List.filter_cons, hp', hq', Bool.false_eq_true, if_false, Bool.or_false]
        exact ih'

theorem ownerIn_split (part : Nat → Nat) (r hi : Nat) (c : GCell) :
    ownerIn part r (r + 1 + hi) c = ((cellOwner part c == some r) || ownerIn part (r + 1) (r + 1 + hi) c) := by
  unfold ownerIn
  cases h : cellOwner part c with
  | none => simp
  | some q =>
    by_cases h1 : q = r
    · subst h1; simp; omega
    · have : (q == r) = false := by simpa using h1
      simp only [Option.some_beq_some, this, Bool.false_or]
      by_cases h2 : r ≤ q
      · have : r + 1 ≤ q := by omega
        simp [h2, this]
      · have : ¬ r + 1 ≤ q := by omega
        simp [h2, this]

/-- the ranks `r, r+1, …` of a consistent World emit, up to order, the cells of `G` whose owner is among them -/
theorem emittedFrom_perm (part : Nat → Nat) (G : List GCell) (r : Nat) (w : List (RankView α))
    (hc : ∀ i v, w[i]? = some v → Consistent part G (r + i) v) :
    (emittedFrom r w).flatten.Perm (G.filter (ownerIn part r (r + w.length))) := by
  induction w generalizing r with
  | nil =>
    simp only [emittedFrom, List.flatten_nil, List.length_nil, Nat.add_zero]
    have : G.filter (ownerIn part r r) = [] := by
      rw [List.filter_eq_nil_iff]
      intro c _
      unfold ownerIn
      cases cellOwner part c with
      | none => simp
      | some q => simp
    rw [this]
  | cons v vs ih =>
    simp only [emittedFrom, List.flatten_cons, List.length_cons]
    have h0 : Consistent part G r v := by simpa using hc 0 v (by simp)
    have hrest : ∀ i v', vs[i]? = some v' → Consistent part G (r + 1 + i) v' := by
      intro i v' hi
      have := hc (i + 1) v' (by simpa using hi)
      rwa [show r + (i + 1) = r + 1 + i by omega] at this
    have e1 := emitted_perm part G r v h0
    have e2 := ih (r + 1) hrest
    have hlen : r + (vs.length + 1) = r + 1 + vs.length := by omega
    rw [hlen]
    refine (e1.append e2).trans ?_
    have hfun : ownerIn part r (r + 1 + vs.length)
        = fun c => ((cellOwner part c == some r) || ownerIn part (r + 1) (r + 1 + vs.length) c) := by
      funext c; exact ownerIn_split part r vs.length c
    rw [hfun]
    apply filter_append_disjoint
    intro c _ ⟨h1, h2⟩
    simp only [beq_iff_eq] at h1
    unfold ownerIn at h2
    simp [h1] at h2
    omega

theorem emittedFrom_length (r : Nat) (w : List (RankView α)) :
    ((emittedFrom r w).map List.length).sum = (emittedFrom r w).flatten.length := by
  simp [List.length_flatten]

end Refine.Lemmas.Par
