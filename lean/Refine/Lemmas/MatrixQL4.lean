import Refine.Lemmas.MatrixQL3
import Refine.Lemmas.MatrixFun

/-!
  `diagM_similarity`, part 3: the whole routine, back in the fixed-shape `M6`, and the size of the residual.
-/
namespace Refine.Model.Matrix
open Refine Refine.ScalarReal
open _root_.Matrix

/-! ### `M6` side: sums, the off-diagonal contribution of dropped entries -/

noncomputable instance : Add (M6 ℝ) :=
  ⟨fun a b => ⟨a.m11 + b.m11, a.m12 + b.m12, a.m13 + b.m13, a.m22 + b.m22, a.m23 + b.m23, a.m33 + b.m33⟩⟩

theorem M6.add_def (a b : M6 ℝ) :
    a + b = ⟨a.m11 + b.m11, a.m12 + b.m12, a.m13 + b.m13, a.m22 + b.m22, a.m23 + b.m23, a.m33 + b.m33⟩ := rfl

theorem toMat_add (a b : M6 ℝ) : (a + b).toMat = a.toMat + b.toMat := by
  ext i j; fin_cases i <;> fin_cases j <;> simp [M6.toMat, M6.add_def]

theorem vtMv_add (a b : M6 ℝ) (x : Vec3 ℝ) : vtMv (a + b) x = vtMv a x + vtMv b x := by
  simp only [vtMv, M6.add_def, mul_eq, add_eq]; ring

theorem toMat_tridiagForm (d : Eig12 ℝ) (e0 e1 : ℝ) :
    (tridiagForm d e0 e1).toMat = d.V * triMat d.l0 d.l1 d.l2 e0 e1 * d.Vᵀ := by
  rw [Eig12.V_transpose]
  simp only [Eig12.V, triMat, mul_fin_three, M6.toMat, tridiagForm]
  ext i j; fin_cases i <;> fin_cases j <;> simp <;> ring

/-- `Q · offdiag(a, b) · Qᵀ` as an `M6`: entry `a` couples vectors 0 and 1 of `q`, entry `b` vectors 1 and 2 -/
noncomputable def offDiag (q : Eig12 ℝ) (a b : ℝ) : M6 ℝ := tridiagForm { q with l0 := 0, l1 := 0, l2 := 0 } a b

theorem toMat_offDiag (q : Eig12 ℝ) (a b : ℝ) : (offDiag q a b).toMat = dropMat q a b := by
  unfold offDiag dropMat; rw [toMat_tridiagForm]; rfl

theorem offDiag_zero (q : Eig12 ℝ) : offDiag q 0 0 = ⟨0, 0, 0, 0, 0, 0⟩ := by
  apply M6.ext' <;> simp [offDiag, tridiagForm]

theorem vtMv_offDiag (q : Eig12 ℝ) (a b : ℝ) (x : Vec3 ℝ) :
    vtMv (offDiag q a b) x =
      2 * a * (q.x0 * x.x + q.y0 * x.y + q.z0 * x.z) * (q.x1 * x.x + q.y1 * x.y + q.z1 * x.z) +
      2 * b * (q.x1 * x.x + q.y1 * x.y + q.z1 * x.z) * (q.x2 * x.x + q.y2 * x.y + q.z2 * x.z) := by
  simp only [vtMv, offDiag, tridiagForm, mul_eq, add_eq]; ring

/-- Parseval for an orthonormal system -/
theorem Orthonormal.parseval {q : Eig12 ℝ} (ho : Orthonormal q) (x : Vec3 ℝ) :
    (q.x0 * x.x + q.y0 * x.y + q.z0 * x.z) ^ 2 + (q.x1 * x.x + q.y1 * x.y + q.z1 * x.z) ^ 2 +
      (q.x2 * x.x + q.y2 * x.y + q.z2 * x.z) ^ 2 = x.x * x.x + x.y * x.y + x.z * x.z := by
  obtain ⟨r1, r2, r3, r4, r5, r6⟩ := ho.rows_eqs
  linear_combination (x.x * x.x) * r1 + (x.y * x.y) * r2 + (x.z * x.z) * r3 + (2 * x.x * x.y) * r4 +
    (2 * x.x * x.z) * r5 + (2 * x.y * x.z) * r6

/-- a dropped entry of size `|a|` moves the quadratic form by at most `|a| |x|²` (operator norm) -/
theorem vtMv_offDiag_le {q : Eig12 ℝ} (ho : Orthonormal q) (a b : ℝ) (x : Vec3 ℝ) :
    |vtMv (offDiag q a b) x| ≤ (|a| + |b|) * (x.x * x.x + x.y * x.y + x.z * x.z) := by
  rw [vtMv_offDiag, ← ho.parseval x]
  set u := q.x0 * x.x + q.y0 * x.y + q.z0 * x.z
  set v := q.x1 * x.x + q.y1 * x.y + q.z1 * x.z
  set w := q.x2 * x.x + q.y2 * x.y + q.z2 * x.z
  have h1 : |2 * a * u * v| ≤ |a| * (u ^ 2 + v ^ 2) := by
    rw [show 2 * a * u * v = a * (2 * u * v) by ring, abs_mul]
    apply mul_le_mul_of_nonneg_left _ (abs_nonneg a)
    rw [abs_le]; constructor <;> nlinarith [sq_nonneg (u - v), sq_nonneg (u + v)]
  have h2 : |2 * b * v * w| ≤ |b| * (v ^ 2 + w ^ 2) := by
    rw [show 2 * b * v * w = b * (2 * v * w) by ring, abs_mul]
    apply mul_le_mul_of_nonneg_left _ (abs_nonneg b)
    rw [abs_le]; constructor <;> nlinarith [sq_nonneg (v - w), sq_nonneg (v + w)]
  have h3 := abs_add_le (2 * a * u * v) (2 * b * v * w)
  nlinarith [abs_nonneg a, abs_nonneg b, sq_nonneg u, sq_nonneg v, sq_nonneg w]

/-! ### start and end of the routine -/

theorem reprMat0_rot0 (m : M6 ℝ) : (rot0 m).reprMat 0 = m.toMat := by
  obtain ⟨_, hT⟩ := rot0_spec m
  have hf := rot0_f m
  conv_rhs => rw [← hT]
  rw [toMat_tridiagForm]
  unfold QL.reprMat QL.Tmat
  simp [hf]

theorem reprMat3 (st : QL ℝ) : st.reprMat 3 = (formM st.d).toMat := by
  rw [← tridiagForm_zero, toMat_tridiagForm]
  unfold QL.reprMat QL.Tmat
  simp

/-- the trace of a successful run of `ref_matrix_diag_m`: the states after rows 0, 1, 2 -/
structure DiagRun (m : M6 ℝ) (d : Eig12 ℝ) where
  st1 : QL ℝ
  st2 : QL ℝ
  st3 : QL ℝ
  h1 : rowStep 0 (rot0 m) = .ok st1
  h2 : rowStep 1 st1 = .ok st2
  h3 : rowStep 2 st2 = .ok st3
  hd : st3.d = d

theorem diagM_run (m : M6 ℝ) (d : Eig12 ℝ) (h : diagM m = .ok d) : Nonempty (DiagRun m d) := by
  unfold diagM at h
  split_ifs at h
  split at h
  · exact absurd h (by simp)
  rename_i s1 h1
  split at h
  · exact absurd h (by simp)
  rename_i s2 h2
  split at h
  · exact absurd h (by simp)
  rename_i s3 h3
  injection h with h
  exact ⟨⟨s1, s2, s3, h1, h2, h3, h⟩⟩

theorem DiagRun.diagM_eq {m : M6 ℝ} {d : Eig12 ℝ} (r : DiagRun m d) : diagM m = .ok d := by
  unfold diagM
  simp only [M6.allFinite, isFinite_eq, Bool.and_self, Bool.not_true, Bool.false_eq_true, if_false]
  rw [r.h1]; dsimp only
  rw [r.h2]; dsimp only
  rw [r.h3]; dsimp only
  rw [r.hd]

/-- the three sub-diagonal entries the convergence test dropped during the run -/
noncomputable def DiagRun.eps0 {m : M6 ℝ} {d : Eig12 ℝ} (_ : DiagRun m d) : ℝ := rowEps 0 (rot0 m)
def DiagRun.eps1 {m : M6 ℝ} {d : Eig12 ℝ} (r : DiagRun m d) : ℝ := r.st1.e0
def DiagRun.eps2 {m : M6 ℝ} {d : Eig12 ℝ} (r : DiagRun m d) : ℝ := r.st2.e1

/-- the residual `m - Q diag(d) Qᵀ`: each dropped entry between the two vectors it coupled when it was dropped -/
noncomputable def DiagRun.resid {m : M6 ℝ} {d : Eig12 ℝ} (r : DiagRun m d) : M6 ℝ :=
  offDiag (rot0 m).d 0 r.eps0 + offDiag r.st1.d r.eps1 0 + offDiag r.st2.d 0 r.eps2

/-- the tolerance of the convergence test at the end of the run (`tst1` only grows) -/
noncomputable def DiagRun.tol {m : M6 ℝ} {d : Eig12 ℝ} (r : DiagRun m d) : ℝ := r.st3.tol

structure DiagRun.Facts {m : M6 ℝ} {d : Eig12 ℝ} (r : DiagRun m d) : Prop where
  o0 : Orthonormal (rot0 m).d
  o1 : Orthonormal r.st1.d
  o2 : Orthonormal r.st2.d
  b0 : |r.eps0| ≤ r.tol
  b1 : |r.eps1| ≤ r.tol
  b2 : |r.eps2| ≤ r.tol
  eq : m.toMat = (formM d).toMat + dropMat (rot0 m).d 0 r.eps0 + dropMat r.st1.d r.eps1 0 + dropMat r.st2.d 0 r.eps2

theorem DiagRun.facts {m : M6 ℝ} {d : Eig12 ℝ} (r : DiagRun m d) : r.Facts := by
  have o0 := (rot0_spec m).1
  have t0 : (0 : ℝ) ≤ (rot0 m).tst1 := by rw [rot0_tst1]
  obtain ⟨o1, t1⟩ := rowStep_inv 0 (by omega) _ _ o0 t0 r.h1
  obtain ⟨o2, t2⟩ := rowStep_inv 1 (by omega) _ _ o1 t1 r.h2
  obtain ⟨ε0, q0, a0, b0, c0, m0⟩ := rowStep_repr 0 (by omega) _ _ o0 t0 r.h1
  obtain ⟨ε1, q1, a1, b1, c1, m1⟩ := rowStep_repr 1 (by omega) _ _ o1 t1 r.h2
  obtain ⟨ε2, q2, a2, b2, c2, m2⟩ := rowStep_repr 2 (by omega) _ _ o2 t2 r.h3
  have e1 : ε1 = 0 := by rw [b1]; simp [rowEps]
  have e2 : ε2 = 0 := by rw [b2]; simp [rowEps]
  have l12 : r.st1.tol ≤ r.st3.tol := tol_mono (le_trans m1 m2)
  have l23 : r.st2.tol ≤ r.st3.tol := tol_mono m2
  refine ⟨o0, o1, o2, ?_, ?_, ?_, ?_⟩
  · show |rowEps 0 (rot0 m)| ≤ _
    rw [← b0]; exact le_trans a0 l12
  · exact le_trans c0 l12
  · exact le_trans c1 l23
  · rw [← reprMat0_rot0, q0, q1, q2, reprMat3, r.hd, e1, e2, b0]
    simp only [dropMat_zero, add_zero, if_true, if_false, one_ne_zero, OfNat.ofNat_ne_zero, OfNat.ofNat_ne_one]
    unfold DiagRun.eps0 DiagRun.eps1 DiagRun.eps2
    abel

end Refine.Model.Matrix
