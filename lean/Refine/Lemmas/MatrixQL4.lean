import Refine.Lemmas.MatrixQL3
import Refine.Lemmas.MatrixFun

/-!
  `diagM_similarity`, part 3: the whole routine, back in the fixed-shape `M6`, and the size of the residual.
-/
namespace Refine.Model.Matrix
open Refine Refine.ScalarReal
open _root_.Matrix

/-! ### `M6` side: sums, the off-diagonal contribution of dropped entries -/

noncomputable instance : Add (M6 ℝ) :=
  ⟨fun a b => ⟨a.m11 + b.m11, a.m12 + b.m12, a.m13 + b.m13, a.m22 + b.m22, a.m23 + b.m23, a.m33 + b.m33⟩⟩

theorem M6.add_def (a b : M6 ℝ) :
    a + b = ⟨a.m11 + b.m11, a.m12 + b.m12, a.m13 + b.m13, a.m22 + b.m22, a.m23 + b.m23, a.m33 + b.m33⟩ := rfl

theorem toMat_add (a b : M6 ℝ) : (a + b).toMat = a.toMat + b.toMat := by
  ext i j; fin_cases i <;> fin_cases j <;> simp [M6.toMat, M6.add_def]

theorem vtMv_add (a b : M6 ℝ) (x : Vec3 ℝ) : vtMv (a + b) x = vtMv a x + vtMv b x := by
  simp only [vtMv, M6.add_def, mul_eq, add_eq]; ring

theorem toMat_tridiagForm (d : Eig12 ℝ) (e0 e1 : ℝ) :
    (tridiagForm d e0 e1).toMat = d.V * triMat d.l0 d.l1 d.l2 e0 e1 * d.Vᵀ := by
  rw [Eig12.V_transpose]
  simp only [Eig12.V, triMat, mul_fin_three, M6.toMat, tridiagForm]
  ext i j; fin_cases i <;> fin_cases j <;> simp <;> ring

/-- `Q · offdiag(a, b) · Qᵀ` as an `M6`: entry `a` couples vectors 0 and 1 of `q`, entry `b` vectors 1 and 2 -/
noncomputable def offDiag (q : Eig12 ℝ) (a b : ℝ) : M6 ℝ := tridiagForm { q with l0 := 0, l1 := 0, l2 := 0 } a b

theorem toMat_offDiag (q : Eig12 ℝ) (a b : ℝ) : (offDiag q a b).toMat = dropMat q a b := by
  unfold offDiag dropMat; rw [toMat_tridiagForm]; rfl

theorem offDiag_zero (q : Eig12 ℝ) : offDiag q 0 0 = ⟨0, 0, 0, 0, 0, 0⟩ := by
  apply M6.ext' <;> simp [offDiag, tridiagForm]

theorem vtMv_offDiag (q : Eig12 ℝ) (a b : ℝ) (x : Vec3 ℝ) :
    vtMv (offDiag q a b) x =
      2 * a * (q.x0 * x.x + q.y0 * x.y + q.z0 * x.z) * (q.x1 * x.x + q.y1 * x.y + q.z1 * x.z) +
      2 * b * (q.x1 * x.x + q.y1 * x.y + q.z1 * x.z) * (q.x2 * x.x + q.y2 * x.y + q.z2 * x.z) := by
  simp only [vtMv, offDiag, tridiagForm, mul_eq, add_eq]; ring

/-- Parseval for an orthonormal system -/
theorem Orthonormal.parseval {q : Eig12 ℝ} (ho : Orthonormal q) (x : Vec3 ℝ) :
    (q.x0 * x.x + q.y0 * x.y + q.z0 * x.z) ^ 2 + (q.x1 * x.x + q.y1 * x.y + q.z1 * x.z) ^ 2 +
      (q.x2 * x.x + q.y2 * x.y + q.z2 * x.z) ^ 2 = x.x * x.x + x.y * x.y + x.z * x.z := by
  obtain ⟨r1, r2, r3, r4, r5, r6⟩ := ho.rows_eqs
  linear_combination (x.x * x.x) * r1 + (x.y * x.y) * r2 + (x.z * x.z) * r3 + (2 * x.x * x.y) * r4 +
    (2 * x.x * x.z) * r5 + (2 * x.y * x.z) * r6

/-- a dropped entry of size `|a|` moves the quadratic form by at most `|a| |x|²` (operator norm) -/
theorem vtMv_offDiag_le {q : Eig12 ℝ} (ho : Orthonormal q) (a b : ℝ) (x : Vec3 ℝ) :
    |vtMv (offDiag q a b) x| ≤ (|a| + |b|) * (x.x * x.x + x.y * x.y + x.z * x.z) := by
  rw [vtMv_offDiag, ← ho.parseval x]
  set u := q.x0 * x.x + q.y0 * x.y + q.z0 * x.z
  set v := q.x1 * x.x + q.y1 * x.y + q.z1 * x.z
  set w := q.x2 * x.x + q.y2 * x.y + q.z2 * x.z
  have h1 : |2 * a * u * v| ≤ |a| * (u ^ 2 + v ^ 2) := by
    rw [show 2 * a * u * v = a * (2 * u * v) by ring, abs_mul]
    apply mul_le_mul_of_nonneg_left _ (abs_nonneg a)
    rw [abs_le]; constructor <;> nlinarith [sq_nonneg (u - v), sq_nonneg (u + v)]
  have h2 : |2 * b * v * w| ≤ |b| * (v ^ 2 + w ^ 2) := by
    rw [show 2 * b * v * w = b * (2 * v * w) by ring, abs_mul]
    apply mul_le_mul_of_nonneg_left _ (abs_nonneg b)
    rw [abs_le]; constructor <;> nlinarith [sq_nonneg (v - w), sq_nonneg (v + w)]
  have h3 := abs_add_le (2 * a * u * v) (2 * b * v * w)
  nlinarith [abs_nonneg a, abs_nonneg b, sq_nonneg u, sq_nonneg v, sq_nonneg w]

/-! ### start and end of the routine -/

theorem reprMat0_rot0 (m : M6 ℝ) : (rot0 m).reprMat 0 = m.toMat := by
  obtain ⟨_, hT⟩ := rot0_spec m
  have hf := rot0_f m
  conv_rhs => rw [← hT]
  rw [toMat_tridiagForm]
  unfold QL.reprMat QL.Tmat
  simp [hf]

theorem reprMat3 (st : QL ℝ) : st.reprMat 3 = (formM st.d).toMat := by
  rw [← tridiagForm_zero, toMat_tridiagForm]
  unfold QL.reprMat QL.Tmat
  simp

/-- the trace of a successful run of `ref_matrix_diag_m`: the states after rows 0, 1, 2 -/
structure DiagRun (m : M6 ℝ) (d : Eig12 ℝ) where
  st1 : QL ℝ
  st2 : QL ℝ
  st3 : QL ℝ
  h1 : rowStep 0 (rot0 m) = .ok st1
  h2 : rowStep 1 st1 = .ok st2
  h3 : rowStep 2 st2 = .ok st3
  hd : st3.d = d

theorem diagM_run (m : M6 ℝ) (d : Eig12 ℝ) (h : diagM m = .ok d) : Nonempty (DiagRun m d) := by
  unfold diagM at h
  split_ifs at h
  split at h
  · exact absurd h (by simp)
  rename_i s1 h1
  split at h
  · exact absurd h (by simp)
  rename_i s2 h2
  split at h
  · exact absurd h (by simp)
  rename_i s3 h3
  injection h with h
  exact ⟨⟨s1, s2, s3, h1, h2, h3, h⟩⟩

theorem DiagRun.diagM_eq {m : M6 ℝ} {d : Eig12 ℝ} (r : DiagRun m d) : diagM m = .ok d := by
  unfold diagM
  simp only [M6.allFinite, isFinite_eq, Bool.and_self, Bool.not_true, Bool.false_eq_true, if_false]
  rw [r.h1]; dsimp only
  rw [r.h2]; dsimp only
  rw [r.h3]; dsimp only
  rw [r.hd]

/-- the three sub-diagonal entries the convergence test dropped during the run -/
noncomputable def DiagRun.eps0 {m : M6 ℝ} {d : Eig12 ℝ} (_ : DiagRun m d) : ℝ := rowEps 0 (rot0 m)
def DiagRun.eps1 {m : M6 ℝ} {d : Eig12 ℝ} (r : DiagRun m d) : ℝ := r.st1.e0
def DiagRun.eps2 {m : M6 ℝ} {d : Eig12 ℝ} (r : DiagRun m d) : ℝ := r.st2.e1

/-- the residual `m - Q diag(d) Qᵀ`: each dropped entry between the two vectors it coupled when it was dropped -/
noncomputable def DiagRun.resid {m : M6 ℝ} {d : Eig12 ℝ} (r : DiagRun m d) : M6 ℝ :=
  offDiag (rot0 m).d 0 r.eps0 + offDiag r.st1.d r.eps1 0 + offDiag r.st2.d 0 r.eps2

/-- the tolerance of the convergence test at the end of the run (`tst1` only grows) -/
noncomputable def DiagRun.tol {m : M6 ℝ} {d : Eig12 ℝ} (r : DiagRun m d) : ℝ := r.st3.tol

structure DiagRun.Facts {m : M6 ℝ} {d : Eig12 ℝ} (r : DiagRun m d) : Prop where
  o0 : Orthonormal (rot0 m).d
  o1 : Orthonormal r.st1.d
  o2 : Orthonormal r.st2.d
  b0 : |r.eps0| ≤ r.tol
  b1 : |r.eps1| ≤ r.tol
  b2 : |r.eps2| ≤ r.tol
  eq : m.toMat = (formM d).toMat + dropMat (rot0 m).d 0 r.eps0 + dropMat r.st1.d r.eps1 0 + dropMat r.st2.d 0 r.eps2

theorem DiagRun.facts {m : M6 ℝ} {d : Eig12 ℝ} (r : DiagRun m d) : r.Facts := by
  have o0 := (rot0_spec m).1
  have t0 : (0 : ℝ) ≤ (rot0 m).tst1 := by rw [rot0_tst1]
  obtain ⟨o1, t1⟩ := rowStep_inv 0 (by omega) _ _ o0 t0 r.h1
  obtain ⟨o2, t2⟩ := rowStep_inv 1 (by omega) _ _ o1 t1 r.h2
  obtain ⟨ε0, q0, a0, b0, c0, m0⟩ := rowStep_repr 0 (by omega) _ _ o0 t0 r.h1
  obtain ⟨ε1, q1, a1, b1, c1, m1⟩ := rowStep_repr 1 (by omega) _ _ o1 t1 r.h2
  obtain ⟨ε2, q2, a2, b2, c2, m2⟩ := rowStep_repr 2 (by omega) _ _ o2 t2 r.h3
  have e1 : ε1 = 0 := by rw [b1]; simp [rowEps]
  have e2 : ε2 = 0 := by rw [b2]; simp [rowEps]
  have l12 : r.st1.tol ≤ r.st3.tol := tol_mono (le_trans m1 m2)
  have l23 : r.st2.tol ≤ r.st3.tol := tol_mono m2
  refine ⟨o0, o1, o2, ?_, ?_, ?_, ?_⟩
  · show |rowEps 0 (rot0 m)| ≤ _
    rw [← b0]; exact le_trans a0 l12
  · exact le_trans c0 l12
  · exact le_trans c1 l23
  · rw [← reprMat0_rot0, q0, q1, q2, reprMat3, r.hd, e1, e2, b0]
    simp only [dropMat_zero, add_zero, if_true, if_false, one_ne_zero, OfNat.ofNat_ne_zero, OfNat.ofNat_ne_one]
    unfold DiagRun.eps0 DiagRun.eps1 DiagRun.eps2
    abel

/-- `m = Q diag(d) Qᵀ + resid`, entry by entry -/
theorem DiagRun.eq_add_resid {m : M6 ℝ} {d : Eig12 ℝ} (r : DiagRun m d) : m = formM d + r.resid := by
  apply M6.toMat_injective
  rw [r.facts.eq]
  simp only [toMat_add, toMat_offDiag, DiagRun.resid]
  abel

/-! ### runs without residual -/

/-- `diagM m` returned `d` and every sub-diagonal entry the convergence test dropped was exactly zero -/
def ZeroResidual (m : M6 ℝ) (d : Eig12 ℝ) : Prop := ∃ r : DiagRun m d, r.eps0 = 0 ∧ r.eps1 = 0 ∧ r.eps2 = 0

theorem DiagRun.isEigSys {m : M6 ℝ} {d : Eig12 ℝ} (r : DiagRun m d) (h0 : r.eps0 = 0) (h1 : r.eps1 = 0)
    (h2 : r.eps2 = 0) : IsEigSys d m := by
  refine ⟨diagM_orthonormal' m d r.diagM_eq, ?_⟩
  apply M6.toMat_injective
  have e := r.facts.eq
  rw [h0, h1, h2] at e
  simp only [dropMat_zero, add_zero] at e
  exact e.symm

/-- inputs whose tridiagonal form has e[1] = 0 and an e[0] that does not pass the convergence test: one sweep over
    the leading 2x2 block annihilates e[0] exactly, nothing non-zero is dropped -/
theorem zeroResidual_block2 (m : M6 ℝ) (he1 : (rot0 m).e1 = 0) (hs : (tstUpd 0 (rot0 m)).isSmall 0 = false) :
    ∃ d, ZeroResidual m d := by
  obtain ⟨d, hd⟩ := diagM_block2_ok m he1
  obtain ⟨r⟩ := diagM_run m d hd
  refine ⟨d, r, ?_, ?_, ?_⟩
  · unfold DiagRun.eps0 rowEps; rw [he1]; simp
  all_goals
    have ht : (0 : ℝ) ≤ (rot0 m).tst1 := by rw [rot0_tst1]
    obtain ⟨ud, u0, u1, u2, uf, ut⟩ := tstUpd_spec 0 (rot0 m) ht
    have e0ne : (tstUpd 0 (rot0 m)).e0 ≠ 0 := ne_zero_of_not_isSmall _ 0 ut hs
    obtain ⟨_, z0, z1⟩ := sweep01_repr (tstUpd 0 (rot0 m)) e0ne
    have h1 := r.h1
    rw [rowStep0_block2 (rot0 m) ht he1 hs] at h1
    injection h1 with h1
  · unfold DiagRun.eps1; rw [← h1, setD_e0]; exact z0
  · have s1e1 : r.st1.e1 = 0 := by rw [← h1, setD_e1]; exact z1
    have s1t : 0 ≤ r.st1.tst1 := by
      rw [← h1, setD_tst1, sweep_tst1]; exact ut
    obtain ⟨t1, _, q1⟩ := rowStep_of_zero 1 (by omega) r.st1 s1t s1e1
    have h2 := r.h2
    rw [q1] at h2
    injection h2 with h2
    unfold DiagRun.eps2
    rw [← h2]
    have := acceptRow_getE 1 1 r.st1 t1
    exact this.trans s1e1

/-- a diagonal matrix is decomposed without residual -/
theorem zeroResidual_diag (a b c : ℝ) : ZeroResidual ⟨a, 0, 0, b, 0, c⟩ ⟨a, b, c, 1, 0, 0, 0, 1, 0, 0, 0, 1⟩ := by
  obtain ⟨r⟩ := diagM_run _ _ (diagM_diagonal' a b c)
  have hrot : rot0 (⟨a, 0, 0, b, 0, c⟩ : M6 ℝ) =
      { d := ⟨a, b, c, 1, 0, 0, 0, 1, 0, 0, 0, 1⟩, e0 := 0, e1 := 0, e2 := 0, f := 0, tst1 := 0 } := by
    unfold rot0
    dsimp only
    have hL : Scalar.sqrt (Scalar.add (Scalar.mul (0 : ℝ) 0) (Scalar.mul (0 : ℝ) 0)) = 0 := by
      rw [sqrt_eq, add_eq, mul_eq]; simp
    rw [hL]
    have hd : Scalar.divisible (0 : ℝ) 0 = false := by
      rw [Bool.eq_false_iff]; intro h; exact divisible_ne_zero h rfl
    simp only [hd, Bool.false_and, Bool.false_eq_true, if_false, one_eq, zero_eq]
  have h1 := r.h1
  rw [hrot] at h1
  obtain ⟨t0, ht0, q0⟩ := rowStep_of_zero 0 (by omega)
    ({ d := ⟨a, b, c, 1, 0, 0, 0, 1, 0, 0, 0, 1⟩, e0 := 0, e1 := 0, e2 := 0, f := 0, tst1 := 0 } : QL ℝ) (le_refl _) rfl
  rw [q0] at h1
  injection h1 with h1
  have s1e0 : r.st1.e0 = 0 := by rw [← h1]; exact acceptRow_getE 0 0 _ t0
  have s1e1 : r.st1.e1 = 0 := by rw [← h1]; exact acceptRow_getE 0 1 _ t0
  have s1t : 0 ≤ r.st1.tst1 := by rw [← h1, acceptRow_tst1]; exact ht0
  obtain ⟨t1, _, q1⟩ := rowStep_of_zero 1 (by omega) r.st1 s1t s1e1
  have h2 := r.h2
  rw [q1] at h2
  injection h2 with h2
  refine ⟨r, ?_, s1e0, ?_⟩
  · unfold DiagRun.eps0 rowEps; rw [hrot]; simp
  · unfold DiagRun.eps2; rw [← h2]; exact (acceptRow_getE 1 1 r.st1 t1).trans s1e1

/-! ### a non-diagonal example: [[1,3,4],[3,2,0],[4,0,2]] (first rotation with L = 5, then one genuine QL sweep) -/

theorem rot0_example345 : rot0 (⟨1, 3, 4, 2, 0, 2⟩ : M6 ℝ) =
    { d := ⟨1, 2, 2, 1, 0, 0, 0, 3 / 5, 4 / 5, 0, 4 / 5, -(3 / 5)⟩, e0 := 5, e1 := 0, e2 := 0, f := 0, tst1 := 0 } := by
  have h5 : Real.sqrt (3 * 3 + 4 * 4) = 5 := by
    rw [show (3 * 3 + 4 * 4 : ℝ) = 5 * 5 by norm_num]; exact Real.sqrt_mul_self (by norm_num)
  unfold rot0
  simp only [mul_eq, add_eq, sqrt_eq, h5]
  have g3 : Scalar.divisible (3 : ℝ) 5 = true := by rw [divisible_iff]; norm_num
  have g4 : Scalar.divisible (4 : ℝ) 5 = true := by rw [divisible_iff]; norm_num
  simp only [g3, g4, Bool.and_self, if_true, div_eq, sub_eq, neg_eq, one_eq, zero_eq, two_eq]
  norm_num

theorem example345_not_small : (tstUpd 0 (rot0 (⟨1, 3, 4, 2, 0, 2⟩ : M6 ℝ))).isSmall 0 = false := by
  rw [rot0_example345]
  have ht : tstUpd 0 ({ d := ⟨1, 2, 2, 1, 0, 0, 0, 3 / 5, 4 / 5, 0, 4 / 5, -(3 / 5)⟩, e0 := 5, e1 := 0, e2 := 0, f := 0, tst1 := 0 } : QL ℝ) =
      { d := ⟨1, 2, 2, 1, 0, 0, 0, 3 / 5, 4 / 5, 0, 4 / 5, -(3 / 5)⟩, e0 := 5, e1 := 0, e2 := 0, f := 0, tst1 := 6 } := by
    unfold tstUpd
    simp only [QL.getD, QL.getE, cabs_eq, add_eq]
    have : Scalar.lt (0 : ℝ) (|1| + |5|) = true := by rw [lt_iff]; norm_num
    rw [if_pos this]
    norm_num
  rw [ht]
  unfold QL.isSmall
  simp only [QL.getE, cabs_eq, add_eq, sub_eq, mul_eq, ofDec_eq]
  cases relativeConvergence
  · simp only [Bool.false_eq_true, if_false]; rw [lt_false_iff]; norm_num
  · simp only [if_true]; rw [le_false_iff]; norm_num

/-! ### the dropped entries are the sub-diagonal entries left in `e[0]`, `e[1]` at the end of the run -/

theorem tstUpd_e (l : Nat) (st : QL ℝ) : (tstUpd l st).e0 = st.e0 ∧ (tstUpd l st).e1 = st.e1 := by
  unfold tstUpd; split_ifs <;> exact ⟨rfl, rfl⟩

theorem sweep12_e0 (st : QL ℝ) : (sweep 1 2 st).e0 = st.e0 := by
  rw [sweep12_eq]
  show (innerStep 1 (initSweep 2 (shift 1 st))).st.e0 = st.e0
  rw [innerStep1_st]
  show (shift 1 st).e0 = st.e0
  rw [shift1_eq]

theorem qlLoop12_e0 (fuel : Nat) (st st' : QL ℝ) (hq : qlLoop fuel 1 2 st = .ok st') : st'.e0 = st.e0 := by
  induction fuel generalizing st with
  | zero => unfold qlLoop at hq; exact absurd hq (by simp)
  | succ fuel ih =>
    unfold qlLoop at hq
    dsimp only at hq
    split_ifs at hq
    · injection hq with hq; rw [← hq]; exact sweep12_e0 st
    · rw [ih _ hq]; exact sweep12_e0 st

/-- rows 1 and 2 do not touch `e[0]` -/
theorem rowStep_e0 (l : Nat) (hl : 1 ≤ l) (st st' : QL ℝ) (h : rowStep l st = .ok st') : st'.e0 = st.e0 := by
  unfold rowStep at h
  dsimp only at h
  rw [tstUpd_def] at h
  have u0 := (tstUpd_e l st).1
  generalize tstUpd l st = st1 at *
  obtain ⟨f1, f2, _⟩ := findSmall_spec st1 (3 - l) l
  generalize st1.findSmall l (3 - l) = mm at h f1 f2
  split_ifs at h with h3 hne
  · split at h
    · rename_i st2 hq
      injection h with h
      have h3' : mm ≠ 3 := by simpa using h3
      have hne' : mm ≠ l := by simpa using hne
      have hl1 : l = 1 := by omega
      have hm2 : mm = 2 := by omega
      subst hl1; subst hm2
      rw [← h, setD_e0, qlLoop12_e0 30 st1 st2 hq, u0]
    · exact absurd h (by simp)
  · injection h with h
    rw [← h, setD_e0, u0]

/-- row 2 does not touch `e[1]` -/
theorem rowStep2_e1 (st st' : QL ℝ) (h : rowStep 2 st = .ok st') : st'.e1 = st.e1 := by
  unfold rowStep at h
  dsimp only at h
  rw [tstUpd_def] at h
  have u1 := (tstUpd_e 2 st).2
  generalize tstUpd 2 st = st1 at *
  obtain ⟨f1, f2, _⟩ := findSmall_spec st1 (3 - 2) 2
  generalize st1.findSmall 2 (3 - 2) = mm at h f1 f2
  split_ifs at h with h3 hne
  · have h3' : mm ≠ 3 := by simpa using h3
    have hne' : mm ≠ 2 := by simpa using hne
    omega
  · injection h with h
    rw [← h, setD_e1, u1]

theorem DiagRun.eps1_eq {m : M6 ℝ} {d : Eig12 ℝ} (r : DiagRun m d) : r.eps1 = r.st3.e0 := by
  unfold DiagRun.eps1
  rw [rowStep_e0 2 (by omega) _ _ r.h3, rowStep_e0 1 (by omega) _ _ r.h2]

theorem DiagRun.eps2_eq {m : M6 ℝ} {d : Eig12 ℝ} (r : DiagRun m d) : r.eps2 = r.st3.e1 := by
  unfold DiagRun.eps2
  rw [rowStep2_e1 _ _ r.h3]

end Refine.Model.Matrix
