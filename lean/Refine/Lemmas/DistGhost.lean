import Refine.Model.Dist
import Mathlib.Data.List.Nodup

/-!
  The store step of `ref_node_ghost_*` (`vector[i + ldim*local] = a_vector[i + ldim*node]` through
  `ref_node_local`): lemmas for `Refine/Props/C06.lean`.
-/
namespace Refine.Lemmas.DistGhost
open Refine.Model.Dist

variable {β : Type}

theorem modify_eq_map_of_unique (nodes : List (GNode β)) (g : Int) (f : GNode β → GNode β)
    (hnd : (nodes.map (·.glob)).Nodup) (i : Nat) (hi : nodes.findIdx? (fun nd => nd.glob == g) = some i) :
    nodes.modify i f = nodes.map fun nd => if nd.glob == g then f nd else nd := by
  induction nodes generalizing i with
  | nil => simp at hi
  | cons x xs ih =>
    rw [List.map_cons, List.nodup_cons] at hnd
    rw [List.findIdx?_cons] at hi
    by_cases hx : x.glob == g
    · simp only [hx, if_true, Option.some.injEq] at hi
      subst hi
      simp only [List.modify_zero_cons, List.map_cons, hx, if_true]
      congr 1
      symm
      rw [List.map_congr_left (g := id)]; simp
      intro nd hmem
      have : nd.glob ≠ g := by
        intro h
        have hxg : x.glob = g := by simpa using hx
        exact hnd.1 (by rw [hxg, ← h]; exact List.mem_map_of_mem hmem)
      simp [this]
    · simp only [hx, Bool.false_eq_true, if_false, Option.map_eq_some_iff] at hi
      obtain ⟨j, hj, rfl⟩ := hi
      simp only [List.modify_succ_cons, List.map_cons, hx, Bool.false_eq_true, if_false]
      rw [ih hnd.2 j hj]

/-- with distinct globals `storeVals` rewrites exactly the entry carrying that global -/
theorem storeVals_eq_map (nodes : List (GNode β)) (g : Int) (v : List β) (hnd : (nodes.map (·.glob)).Nodup) :
    storeVals nodes g v = nodes.map fun nd => if nd.glob == g then { nd with vals := v } else nd := by
  unfold storeVals
  cases h : nodes.findIdx? (fun nd => nd.glob == g) with
  | some i => simp only []; exact modify_eq_map_of_unique nodes g _ hnd i h
  | none =>
    simp only []
    rw [List.findIdx?_eq_none_iff] at h
    symm
    rw [List.map_congr_left (g := id)]; simp
    intro nd hmem
    have := h nd hmem
    simp [this]

/-- the whole store loop: every entry named by a received `(global, values)` pair takes those values, every other
    entry (all owned ones in particular) is unchanged -/
theorem foldl_storeVals (ps : List (Int × List β)) : ∀ (nodes : List (GNode β)),
    (nodes.map (·.glob)).Nodup → (ps.map (·.1)).Nodup →
    ps.foldl (fun ns gi => storeVals ns gi.1 gi.2) nodes
      = nodes.map fun nd => match ps.find? (fun gv => gv.1 == nd.glob) with
          | some gv => { nd with vals := gv.2 }
          | none => nd := by
  induction ps with
  | nil => intro nodes _ _; simp
  | cons p ps ih =>
    intro nodes hnd hps
    rw [List.map_cons, List.nodup_cons] at hps
    rw [List.foldl_cons, storeVals_eq_map nodes p.1 p.2 hnd]
    have hglob : ((nodes.map fun nd => if nd.glob == p.1 then { nd with vals := p.2 } else nd).map (·.glob))
        = nodes.map (·.glob) := by
      rw [List.map_map]; apply List.map_congr_left; intro nd _; simp only [Function.comp]; split <;> rfl
    rw [ih _ (by rw [hglob]; exact hnd) hps.2, List.map_map]
    apply List.map_congr_left
    intro nd _
    simp only [Function.comp, List.find?_cons]
    by_cases hg : nd.glob == p.1
    · have hg' : (p.1 == nd.glob) = true := by
        have : nd.glob = p.1 := by simpa using hg
        simp [this]
      have hnone : ps.find? (fun gv => gv.1 == nd.glob) = none := by
        rw [List.find?_eq_none]
        intro gv hgv hc
        have h1 : gv.1 = nd.glob := by simpa using hc
        have h2 : nd.glob = p.1 := by simpa using hg
        exact hps.1 (by rw [← h2, ← h1]; exact List.mem_map_of_mem hgv)
      simp [hg, hg', hnone]
    · have hg' : (p.1 == nd.glob) = false := by
        simp only [beq_eq_false_iff_ne, ne_eq]; intro h; exact hg (by simp [h])
      simp [hg, hg']

end Refine.Lemmas.DistGhost
