import Refine.Lemmas.QualityDeriv
import Refine.Lemmas.MatrixQL

/-!
  A concrete tet with four different vertex metrics (and four different stored log-metrics whose mean is 0, so that
  the averaged metric is the identity) used by the non-vacuity examples of `Props/C15Quality.lean`.
-/
namespace Refine.QualityExample
open Refine Refine.Model.Geom Refine.Model.Quality Refine.ScalarReal Refine.GeomReal Refine.QualityReal
open Refine.QualityDeriv

/-- four different vertex metrics (as stored: metric and log-metric), unit right tet -/
noncomputable def ex0 : QNode ℝ := ⟨⟨0, 0, 0⟩, ⟨1, 0, 0, 4, 0, 9⟩, ⟨1, 0, 0, 2, 0, 3⟩⟩
noncomputable def ex1 : QNode ℝ := ⟨⟨1, 0, 0⟩, ⟨2, 0, 0, 1, 0, 5⟩, ⟨-1, 0, 0, -2, 0, -3⟩⟩
noncomputable def ex2 : QNode ℝ := ⟨⟨0, 1, 0⟩, ⟨3, 0, 0, 3, 0, 1⟩, ⟨2, 0, 0, -1, 0, 0⟩⟩
noncomputable def ex3 : QNode ℝ := ⟨⟨0, 0, 1⟩, ⟨5, 0, 0, 2, 0, 2⟩, ⟨-2, 0, 0, 1, 0, 0⟩⟩

theorem ex_avg : toMx (avg4 ex0.l ex1.l ex2.l ex3.l) = (⟨0, 0, 0, 0, 0, 0⟩ : Model.Matrix.M6 ℝ) := by
  simp only [toMx, avg4, ex0, ex1, ex2, ex3, add_eq, div_eq, lit4_eq]
  norm_num

theorem ex_exp : Model.Matrix.expM (toMx (avg4 ex0.l ex1.l ex2.l ex3.l)) = .ok ⟨1, 0, 0, 1, 0, 1⟩ := by
  rw [ex_avg]
  unfold Model.Matrix.expM
  rw [Model.Matrix.diagM_diagonal']
  simp [Model.Matrix.formM, Model.Matrix.mapEig]

theorem ex_jac : ∃ j, Model.Matrix.jacobM (⟨1, 0, 0, 1, 0, 1⟩ : Model.Matrix.M6 ℝ) = .ok j := by
  unfold Model.Matrix.jacobM
  rw [Model.Matrix.diagM_diagonal']
  exact ⟨_, rfl⟩

theorem ex_vol : tetVol ex0.x ex1.x ex2.x ex3.x = 1 / 6 := by
  simp only [tetVol, ex0, ex1, ex2, ex3, sub_eq, mul_eq, add_eq, neg_eq, div_eq, ofInt_eq]; norm_num

theorem ex_det : Model.Matrix.detM (⟨1, 0, 0, 1, 0, 1⟩ : Model.Matrix.M6 ℝ) = 1 := by
  have h01 : Scalar.divisible (0 : ℝ) 1 = true := divisible_of_ne_zero_of_zero one_ne_zero
  simp [Model.Matrix.detM, Model.Matrix.detGen3, Model.Matrix.mFull, Model.Matrix.Vec3.axmy, h01]

theorem ex_l2 : tetJacL2 (ofMx (⟨1, 0, 0, 1, 0, 1⟩ : Model.Matrix.M6 ℝ)) ex0.x ex1.x ex2.x ex3.x = 9 := by
  simp only [tetJacL2, vtMv, V3.sub, ofMx, ex0, ex1, ex2, ex3, sub_eq, mul_eq, add_eq]; norm_num

end Refine.QualityExample
