import Refine.Model.Dist
import Refine.Lemmas.Dist
import Refine.Lemmas.Comm
import Refine.Props.C17

/-!
  The world-level unrolling of `syncGlobals` (C06 headline): under the id invariant the loop-by-loop model of
  `ref_node_synchronize_globals` equals the closed form `IdWorld.newId`.
-/
namespace Refine.Lemmas.DistSync
open Refine.Model.Dist Refine.Model.NodeIds Refine.Lemmas.Dist
open Refine.Model.Comm (World isum RefType GatherV)
open Refine.Lemmas.Comm (isum_eq_sum)

/-! ### list helpers -/

theorem zip_map_const {α β : Type} (l : List α) (c : β) : l.zip (l.map fun _ => c) = l.map fun s => (s, c) := by
  induction l with
  | nil => rfl
  | cons x xs ih => rw [List.map_cons, List.zip_cons_cons, ih, List.map_cons]

theorem mapIdx_map' {α β γ : Type} (l : List α) (g : α → β) (f : Nat → β → γ) :
    (l.map g).mapIdx f = l.mapIdx fun i x => f i (g x) := by
  apply List.ext_getElem
  · simp
  · intro i h1 h2; simp

/-! ### `ref_node_shift_new_globals` -/

theorem shiftNew_eq (w : World NodeIds) :
    shiftNew w = w.mapIdx fun r s => shiftRank (w.map newNodes) r s := by
  unfold shiftNew
  rw [Refine.Props.C17.allgather_spec RefType.int rfl, List.map_map]
  have : (w.map ((fun _ => (Refine.Model.Comm.Status.ok, w.map newNodes)) ∘ newNodes))
      = w.map fun _ => (Refine.Model.Comm.Status.ok, w.map newNodes) := rfl
  rw [this]
  show List.mapIdx _ (List.zip w (w.map fun _ => (Refine.Model.Comm.Status.ok, w.map newNodes))) = _
  rw [zip_map_const, mapIdx_map']

/-- descending list: shifting the leading run of entries `≥ old` is shifting every entry `≥ old` -/
theorem shift_prefix (old off : Int) (r : List (Int × Nat)) (hr : r.Pairwise fun a b => b.1 ≤ a.1) :
    (r.take (r.takeWhile fun e => decide (e.1 ≥ old)).length).map (fun e => (e.1 + off, e.2))
        ++ r.drop (r.takeWhile fun e => decide (e.1 ≥ old)).length
      = r.map fun e => (shiftId old off e.1, e.2) := by
  induction r with
  | nil => rfl
  | cons x xs ih =>
    rw [List.pairwise_cons] at hr
    by_cases hx : x.1 ≥ old
    · simp only [List.takeWhile_cons, hx, decide_true, if_true, List.length_cons, List.take_succ_cons,
        List.map_cons, List.drop_succ_cons, List.cons_append]
      rw [ih hr.2]
      simp [shiftId, hx]
    · simp only [List.takeWhile_cons, hx, decide_false, Bool.false_eq_true, if_false, List.length_nil,
        List.take_zero, List.map_nil, List.drop_zero, List.nil_append]
      symm
      have : ∀ e ∈ x :: xs, (shiftId old off e.1, e.2) = e := by
        intro e he
        have hle : e.1 ≤ x.1 := by
          rcases List.mem_cons.mp he with rfl | he
          · exact le_refl _
          · exact hr.1 e he
        have : ¬ e.1 ≥ old := by omega
        simp [shiftId, this]
      rw [List.map_congr_left this, List.map_id']

theorem shiftTail_eq (old off : Int) (sorted : List (Int × Nat)) (hs : (sorted.map (·.1)).Pairwise (· ≤ ·)) :
    shiftTail old off sorted = sorted.map fun e => (shiftId old off e.1, e.2) := by
  unfold shiftTail
  have hr : sorted.reverse.Pairwise fun a b => b.1 ≤ a.1 := by
    rw [List.pairwise_reverse]
    rw [List.pairwise_map] at hs
    exact hs
  simp only []
  rw [shift_prefix old off sorted.reverse hr, ← List.map_reverse, List.reverse_reverse]

/-- closed form of one rank after `ref_node_shift_new_globals` -/
def shiftedRank (old off total : Int) (s : NodeIds) : NodeIds :=
  { s with global := s.global.map fun g => if g ≥ 0 ∧ g ≥ old then g + off else g,
           sorted := s.sorted.map fun e => (shiftId old off e.1, e.2),
           unusedStk := s.unusedStk.map (shiftId old off),
           oldN := total + old, newN := total + old }

theorem shiftRank_eq (ev : List Int) (r : Nat) (s : NodeIds) (hs : s.keys.Pairwise (· ≤ ·)) :
    shiftRank ev r s = shiftedRank s.oldN (isum (ev.take r)) (isum ev) s := by
  unfold shiftRank shiftedRank
  by_cases h0 : isum (ev.take r) = 0
  · simp only [h0, ne_eq, not_true_eq_false, if_false, NodeIds.initNGlobal]
    have h1 : (s.global.map fun g => if g ≥ 0 ∧ g ≥ s.oldN then g + 0 else g) = s.global := by
      rw [List.map_congr_left (g := id)]; simp
      intro g _; split <;> simp
    have h2 : (s.sorted.map fun e => (shiftId s.oldN 0 e.1, e.2)) = s.sorted := by
      rw [List.map_congr_left (g := id)]; simp
      intro e _; simp [shiftId]
    have h3 : s.unusedStk.map (shiftId s.oldN 0) = s.unusedStk := by
      rw [List.map_congr_left (g := id)]; simp
      intro e _; simp [shiftId]
    rw [h1, h2, h3]
  · simp only [ne_eq, h0, not_false_eq_true, if_true, NodeIds.initNGlobal]
    rw [shiftTail_eq _ _ _ hs]
    rfl

/-! ### windows of a list of lists -/

theorem flatten_mapIdx_window {α β : Type} (f : List α → List β) (L : List (List α)) : ∀ a0 a1 : Nat,
    (L.mapIdx fun r u => if a0 ≤ r ∧ r < a1 then f u else []).flatten
      = (((L.take a1).drop a0).map f).flatten := by
  induction L with
  | nil => intro a0 a1; simp
  | cons u L ih =>
    intro a0 a1
    rw [List.mapIdx_cons]
    have hshift : (fun (i : Nat) (u : List α) => if a0 ≤ i + 1 ∧ i + 1 < a1 then f u else [])
        = fun i u => if a0 - 1 ≤ i ∧ i < a1 - 1 then f u else [] := by
      funext i u
      have : (a0 ≤ i + 1 ∧ i + 1 < a1) ↔ (a0 - 1 ≤ i ∧ i < a1 - 1) := by omega
      simp only [this]
    rw [hshift, List.flatten_cons, ih (a0 - 1) (a1 - 1)]
    cases a1 with
    | zero => simp
    | succ n =>
      cases a0 with
      | zero => simp
      | succ m => simp

theorem take_flatten_split {α : Type} (L : List (List α)) (a0 a1 : Nat) (h : a0 ≤ a1) :
    (L.take a1).flatten = (L.take a0).flatten ++ ((L.take a1).drop a0).flatten := by
  have : L.take a1 = (L.take a1).take a0 ++ (L.take a1).drop a0 := (List.take_append_drop a0 _).symm
  conv_lhs => rw [this]
  rw [List.flatten_append, List.take_take, Nat.min_eq_left h]

theorem sum_drop_take (l : List Int) (a b : Nat) (h0 : ∀ x ∈ l.take a, x = 0)
    (h1 : ∀ x ∈ (l.drop a).drop b, x = 0) : ((l.drop a).take b).sum = l.sum := by
  have hz : ∀ (m : List Int), (∀ x ∈ m, x = 0) → m.sum = 0 := by
    intro m hm
    induction m with
    | nil => rfl
    | cons x xs ih =>
      rw [List.sum_cons, hm x (by simp), ih (fun y hy => hm y (by simp [hy]))]; rfl
  have : l = l.take a ++ ((l.drop a).take b ++ (l.drop a).drop b) := by
    rw [List.take_append_drop, List.take_append_drop]
  conv_rhs => rw [this]
  rw [List.sum_append, List.sum_append, hz _ h0, hz _ h1]; omega

/-! ### the slice loop of `ref_node_eliminate_unused_globals` -/

/-- the sorted local unused list of one rank (`ref_sort_in_place_glob` at the top of the function) -/
def sortedUnused (s : NodeIds) : List Int := sortGlob (unusedArr s)
/-- per rank -/
def Us (w : World NodeIds) : List (List Int) := w.map sortedUnused
/-- the unused ids of the ranks already processed when the slice starting at rank `a` begins -/
def Pfx (w : World NodeIds) (a : Nat) : List Int := ((Us w).take a).flatten
/-- the loop state when the slice starting at rank `a` begins -/
def loopState (w : World NodeIds) (a : Nat) : World ElimSt :=
  w.mapIdx fun r s => ⟨s.keys.map (elim (Pfx w a)), if r < a then [] else (sortedUnused s).map (elim (Pfx w a))⟩
def countsOf (w : World NodeIds) : List Int := w.map fun s => (s.nUnused : Int)

structure ElimHyp (w : World NodeIds) : Prop where
  nodup : (Us w).flatten.Nodup
  keys_sorted : ∀ s ∈ w, s.keys.Pairwise (· ≤ ·)
  keys_disj : ∀ s ∈ w, ∀ g ∈ s.keys, g ∉ (Us w).flatten

theorem sortedUnused_length (s : NodeIds) : (sortedUnused s).length = s.nUnused := by
  unfold sortedUnused NodeIds.nUnused
  rw [(sortGlob_perm _).length_eq]; simp [unusedArr]

/-- the contribution of every rank to the gather of the slice `[a0, a1)` -/
def sliceLocals (w : World NodeIds) (a0 a1 : Nat) : List (List Int) :=
  w.mapIdx fun r s => if a0 ≤ r ∧ r < a1 then (sortedUnused s).map (elim (Pfx w a0)) else []

theorem activeCounts_eq (w : World NodeIds) (a0 a1 : Nat) :
    activeCounts (countsOf w) a0 a1 = Refine.Lemmas.Comm.lensI (sliceLocals w a0 a1) := by
  unfold activeCounts countsOf sliceLocals Refine.Lemmas.Comm.lensI
  apply List.ext_getElem
  · simp
  · intro i h1 h2
    simp only [List.getElem_mapIdx, List.getElem_map]
    split
    · simp [sortedUnused_length]
    · simp

theorem activeCounts_getElem (counts : List Int) (a0 a1 i : Nat) (h : i < (activeCounts counts a0 a1).length) :
    (activeCounts counts a0 a1)[i] = if a0 ≤ i ∧ i < a1 then counts[i]'(by simpa [activeCounts] using h) else 0 := by
  simp [activeCounts]

theorem loopState_length (w : World NodeIds) (a : Nat) : (loopState w a).length = w.length := by
  simp [loopState]

theorem sliceLocals_length (w : World NodeIds) (a0 a1 : Nat) : (sliceLocals w a0 a1).length = w.length := by
  simp [sliceLocals]

theorem sliceLocal_elem (w : World NodeIds) (a0 a1 : Nat) (i : Nat) (hi : i < w.length) :
    ((loopState w a0)[i]'(by rw [loopState_length]; exact hi)).unused.take
        ((activeCounts (countsOf w) a0 a1).getD i 0).toNat
      = (sliceLocals w a0 a1)[i]'(by rw [sliceLocals_length]; exact hi) := by
  have hac : (activeCounts (countsOf w) a0 a1).getD i 0
      = if a0 ≤ i ∧ i < a1 then ((w[i]).nUnused : Int) else 0 := by
    have hl : i < (activeCounts (countsOf w) a0 a1).length := by simpa [activeCounts, countsOf] using hi
    rw [List.getD_eq_getElem?_getD, List.getElem?_eq_getElem hl, activeCounts_getElem]
    simp [countsOf]
  rw [hac]
  simp only [loopState, sliceLocals, List.getElem_mapIdx]
  by_cases hwin : a0 ≤ i ∧ i < a1
  · have : ¬ i < a0 := by omega
    simp only [hwin, and_self, if_true, this, if_false, Int.toNat_natCast]
    rw [List.take_of_length_le]
    simp [sortedUnused_length]
  · simp only [hwin, if_false]
    simp

theorem slice_total (w : World NodeIds) (a0 a1 : Nat) (h01 : a0 ≤ a1) :
    (isum (((activeCounts (countsOf w) a0 a1).drop a0).take (a1 - a0))).toNat
      = (sliceLocals w a0 a1).flatten.length := by
  have hsum : ((((activeCounts (countsOf w) a0 a1).drop a0).take (a1 - a0))).sum
      = (activeCounts (countsOf w) a0 a1).sum := by
    apply sum_drop_take
    · intro x hx
      obtain ⟨i, hi, rfl⟩ := List.mem_iff_getElem.mp hx
      have hi' : i < a0 := by
        have := hi; simp only [List.length_take] at this; omega
      rw [List.getElem_take, activeCounts_getElem]
      have : ¬ (a0 ≤ i ∧ i < a1) := by omega
      simp [this]
    · intro x hx
      obtain ⟨i, hi, rfl⟩ := List.mem_iff_getElem.mp hx
      rw [List.getElem_drop, List.getElem_drop, activeCounts_getElem]
      have : ¬ (a0 ≤ a0 + (a1 - a0 + i) ∧ a0 + (a1 - a0 + i) < a1) := by omega
      rw [if_neg this]
  rw [isum_eq_sum, hsum, activeCounts_eq, Refine.Lemmas.Comm.lensI_sum]
  exact Int.toNat_natCast _

theorem gatherActive_eq (w : World NodeIds) (a0 a1 : Nat) (h01 : a0 ≤ a1) :
    gatherActive (countsOf w) a0 a1 (loopState w a0) = w.map fun _ => (sliceLocals w a0 a1).flatten := by
  unfold gatherActive
  simp only []
  have hargs : ((loopState w a0).mapIdx fun r s =>
        (⟨s.unused.take ((activeCounts (countsOf w) a0 a1).getD r 0).toNat, activeCounts (countsOf w) a0 a1,
          List.replicate (isum (((activeCounts (countsOf w) a0 a1).drop a0).take (a1 - a0))).toNat 0⟩ : GatherV Int))
      = Refine.Lemmas.Comm.gathervWorld (sliceLocals w a0 a1)
          (fun _ => List.replicate (isum (((activeCounts (countsOf w) a0 a1).drop a0).take (a1 - a0))).toNat 0) := by
    unfold Refine.Lemmas.Comm.gathervWorld
    apply List.ext_getElem
    · simp [loopState_length, sliceLocals_length]
    · intro i h1 h2
      have hi : i < w.length := by simpa [loopState_length] using h1
      simp only [List.getElem_mapIdx]
      rw [sliceLocal_elem w a0 a1 i hi]
      congr 1
      exact activeCounts_eq w a0 a1
  rw [hargs, Refine.Props.C17.allgatherv_spec RefType.long rfl]
  · simp [sliceLocals_length]
  · intro r _
    rw [List.length_replicate, slice_total w a0 a1 h01]

/-- one slice as seen by one sorted id list `gs` that was already offset by the processed prefix `P` -/
theorem step_list (P S gs : List Int) (hPS : (P ++ S).Nodup) (hg : gs.Pairwise (· ≤ ·))
    (hdis : ∀ g ∈ gs, g ∉ P ++ S) :
    elimOffset (gs.map (elim P)) (sortGlob (S.map (elim P))) = gs.map (elim (P ++ S)) := by
  have hP : P.Nodup := (List.nodup_append.mp hPS).1
  rw [elimOffset_eq_map _ _ (sortGlob_sorted _) (map_elim_sorted P gs hP hg), List.map_map]
  apply List.map_congr_left
  intro g hgm
  simp only [Function.comp]
  rw [elim_perm _ _ (sortGlob_perm _), elim_slices P S hPS g (hdis g hgm)]

theorem sliceLocals_flatten (w : World NodeIds) (a0 a1 : Nat) :
    (sliceLocals w a0 a1).flatten = ((((Us w).take a1).drop a0).flatten).map (elim (Pfx w a0)) := by
  have : sliceLocals w a0 a1
      = (Us w).mapIdx fun r u => if a0 ≤ r ∧ r < a1 then (List.map (elim (Pfx w a0))) u else [] := by
    unfold sliceLocals Us
    rw [mapIdx_map']
  rw [this, flatten_mapIdx_window, List.map_flatten]

theorem Pfx_succ (w : World NodeIds) (a0 a1 : Nat) (h : a0 ≤ a1) :
    Pfx w a1 = Pfx w a0 ++ (((Us w).take a1).drop a0).flatten := take_flatten_split _ a0 a1 h

theorem Pfx_sublist (w : World NodeIds) (a : Nat) : (Pfx w a).Sublist (Us w).flatten :=
  List.Sublist.flatten (List.take_sublist _ _)

theorem later_not_in_Pfx (w : World NodeIds) (hn : (Us w).flatten.Nodup) (a r : Nat) (har : a ≤ r)
    (hr : r < w.length) (u : Int) (hu : u ∈ sortedUnused (w[r])) : u ∉ Pfx w a := by
  have hsplit : (Us w).flatten = Pfx w a ++ ((Us w).drop a).flatten := by
    unfold Pfx
    rw [← List.flatten_append, List.take_append_drop]
  rw [hsplit] at hn
  have hdis := (List.nodup_append.mp hn).2.2
  intro hmem
  have hrU : r < (Us w).length := by simpa [Us] using hr
  have : u ∈ ((Us w).drop a).flatten := by
    rw [List.mem_flatten]
    refine ⟨sortedUnused (w[r]), ?_, hu⟩
    have h1 : r - a < ((Us w).drop a).length := by rw [List.length_drop]; omega
    rw [List.mem_iff_getElem]
    refine ⟨r - a, h1, ?_⟩
    simp only [List.getElem_drop, Us, List.getElem_map]
    have e : a + (r - a) = r := by omega
    simp only [e]
  exact hdis u hmem u this rfl

theorem sliceStep_eq (w : World NodeIds) (h : ElimHyp w) (a0 a1 : Nat) (h01 : a0 < a1) (h1 : a1 ≤ w.length) :
    sliceStep (countsOf w) a0 a1 (loopState w a0) = loopState w a1 := by
  unfold sliceStep
  simp only []
  rw [gatherActive_eq w a0 a1 (by omega), sliceLocals_flatten]
  generalize hS : (((Us w).take a1).drop a0).flatten = S
  have hP1 : Pfx w a1 = Pfx w a0 ++ S := by rw [← hS]; exact Pfx_succ w a0 a1 (by omega)
  have hPS : (Pfx w a0 ++ S).Nodup := by rw [← hP1]; exact (Pfx_sublist w a1).nodup h.nodup
  apply List.ext_getElem
  · simp [loopState]
  · intro i hi1 hi2
    have hi : i < w.length := by simpa [loopState] using hi2
    simp only [List.getElem_mapIdx, List.getElem_zip, List.getElem_map, loopState]
    have hkeys : elimOffset ((w[i]).keys.map (elim (Pfx w a0))) (sortGlob (S.map (elim (Pfx w a0))))
        = (w[i]).keys.map (elim (Pfx w a1)) := by
      have := step_list (Pfx w a0) S (w[i]).keys hPS (h.keys_sorted _ (List.getElem_mem hi))
        (by intro g hg hmem
            rw [← hP1] at hmem
            exact h.keys_disj _ (List.getElem_mem hi) g hg ((Pfx_sublist w a1).subset hmem))
      rw [← hP1] at this; exact this
    rw [hkeys]
    congr 1
    by_cases hwin : a0 ≤ i ∧ i < a1
    · have : i < a1 := hwin.2
      simp [hwin, this, elimOffset, elimOffsetGo]
    · by_cases hlo : i < a0
      · have : i < a1 := by omega
        simp [hwin, hlo, this, elimOffset, elimOffsetGo]
      · have hge : a1 ≤ i := by omega
        have hn1 : ¬ i < a1 := by omega
        rw [if_neg hwin, if_neg hlo, if_neg hn1]
        have := step_list (Pfx w a0) S (sortedUnused (w[i])) hPS (sortGlob_sorted _)
          (by intro g hg
              rw [← hP1]
              exact later_not_in_Pfx w h.nodup a1 i hge hi g hg)
        rw [← hP1] at this; exact this

theorem countsOf_length (w : World NodeIds) : (countsOf w).length = w.length := by simp [countsOf]

theorem elimLoop_eq (w : World NodeIds) (h : ElimHyp w) (chunk : Int) : ∀ (fuel a0 : Nat),
    a0 ≤ w.length → w.length ≤ a0 + fuel →
    elimLoop (countsOf w) chunk fuel a0 (loopState w a0) = loopState w w.length := by
  intro fuel
  induction fuel with
  | zero =>
    intro a0 h1 h2
    have : a0 = w.length := by omega
    subst this
    rfl
  | succ f ih =>
    intro a0 h1 h2
    unfold elimLoop
    rw [countsOf_length]
    by_cases hlt : a0 < w.length
    · simp only [hlt, if_true]
      have hp := activeParts_progress (countsOf w) chunk a0 (by rw [countsOf_length]; exact hlt)
      rw [countsOf_length] at hp
      rw [sliceStep_eq w h a0 _ hp.1 hp.2]
      exact ih _ hp.2 (by omega)
    · simp only [hlt, if_false]
      have : a0 = w.length := by omega
      subst this
      rfl

theorem Pfx_all (w : World NodeIds) : Pfx w w.length = (Us w).flatten := by
  unfold Pfx
  rw [List.take_of_length_le (by simp [Us])]

theorem elim_nil (g : Int) : elim [] g = g := by simp [elim, cntLt]

theorem loopState_zero (w : World NodeIds) :
    loopState w 0 = w.map fun s => ⟨s.keys, sortGlob (unusedArr s)⟩ := by
  unfold loopState
  apply List.ext_getElem
  · simp
  · intro i h1 h2
    have hP : Pfx w 0 = [] := by simp [Pfx]
    simp only [List.getElem_mapIdx, List.getElem_map, hP, Nat.not_lt_zero, if_false]
    have : ∀ l : List Int, l.map (elim []) = l := by
      intro l; rw [List.map_congr_left (g := id)]; simp; intro g _; exact elim_nil g
    rw [this, this]; rfl

theorem countsOf_eq_lens (w : World NodeIds) : countsOf w = Refine.Lemmas.Comm.lensI (Us w) := by
  simp [countsOf, Us, Refine.Lemmas.Comm.lensI, sortedUnused_length]

theorem zip_keys {α : Type} (f : Int → Int) (l : List (Int × α)) :
    (((l.map (·.1)).map f).zip l).map (fun ke => (ke.1, ke.2.2)) = l.map fun e => (f e.1, e.2) := by
  induction l with
  | nil => rfl
  | cons x xs ih => simp only [List.map_cons, List.zip_cons_cons, ih]

/-- closed form of `ref_node_eliminate_unused_globals` -/
def elimClosed (w : World NodeIds) : World NodeIds :=
  w.map fun s =>
    ({ s with sorted := s.sorted.map fun (e : Int × Nat) => (elim (Us w).flatten e.1, e.2),
              global := writeBack s.global (s.sorted.map fun (e : Int × Nat) => (elim (Us w).flatten e.1, e.2)),
              unusedStk := [] }).initNGlobal (s.oldN - ((Us w).flatten.length : Int))

theorem eliminateUnused_eq (w : World NodeIds) (h : ElimHyp w) : eliminateUnused w = elimClosed w := by
  unfold eliminateUnused
  simp only []
  have hcounts : headCounts (Refine.Model.Comm.allgather RefType.int (w.map fun s => (s.nUnused : Int)))
      = countsOf w := by
    rw [Refine.Props.C17.allgather_spec RefType.int rfl]
    unfold countsOf headCounts
    cases w with
    | nil => rfl
    | cons s t => rfl
  rw [hcounts, ← loopState_zero, elimLoop_eq w h _ _ 0 (Nat.zero_le _) (by omega)]
  have htot : isum (countsOf w) = ((Us w).flatten.length : Int) := by
    rw [isum_eq_sum, countsOf_eq_lens, Refine.Lemmas.Comm.lensI_sum]
  rw [htot]
  unfold elimClosed
  apply List.ext_getElem
  · simp [loopState]
  · intro i h1 h2
    have hi : i < w.length := by simpa using h2
    simp only [List.getElem_map, List.getElem_zip, loopState, List.getElem_mapIdx, hi, if_true, Pfx_all,
      List.reverse_nil]
    have hk : (w[i]).keys = (w[i]).sorted.map (·.1) := rfl
    rw [hk, zip_keys]

/-! ### the abstraction of a world of `NodeIds` and the final composition -/

/-- what `ref_node_synchronize_globals` sees of a world (see `IdWorld`) -/
def absWorld (old : Int) (w : World NodeIds) : IdWorld :=
  { old := old, k := w.map fun s => (newNodes s).toNat, live := w.map (·.keys), unused := w.map unusedArr }

/-- the hypotheses of the headline theorem on the concrete world -/
structure SyncInv (old : Int) (w : World NodeIds) : Prop where
  old_eq : ∀ s ∈ w, s.oldN = old
  new_ge : ∀ s ∈ w, s.oldN ≤ s.newN
  keys_sorted : ∀ s ∈ w, s.keys.Pairwise (· ≤ ·)
  inv : IdInv (absWorld old w)

/-- the state of rank `r` after `ref_node_synchronize_globals`, in closed form -/
def finalRank (A : IdWorld) (r : Nat) (s : NodeIds) : NodeIds :=
  { s with sorted := s.sorted.map fun (e : Int × Nat) => (A.newId r e.1, e.2),
           global := writeBack (s.global.map fun g => if g ≥ 0 ∧ g ≥ A.old then g + A.off r else g)
                      (s.sorted.map fun (e : Int × Nat) => (A.newId r e.1, e.2)),
           unusedStk := [], oldN := A.N, newN := A.N }

theorem flatten_perm_of_getElem (L1 : List (List Int)) : ∀ (L2 : List (List Int)), L1.length = L2.length →
    (∀ i (h1 : i < L1.length) (h2 : i < L2.length), (L1[i]).Perm (L2[i])) → L1.flatten.Perm L2.flatten := by
  induction L1 with
  | nil => intro L2 hl _; cases L2 with
    | nil => exact List.Perm.refl _
    | cons _ _ => simp at hl
  | cons x xs ih =>
    intro L2 hl h
    cases L2 with
    | nil => simp at hl
    | cons y ys =>
      simp only [List.flatten_cons]
      apply List.Perm.append (h 0 (by simp) (by simp))
      apply ih ys (by simpa using hl)
      intro i h1 h2
      exact h (i + 1) (by simp; omega) (by simp; omega)

theorem range_getD_sum (k : List Nat) : ∀ r, ((List.range r).map fun q => k.getD q 0).sum = (k.take r).sum := by
  induction k with
  | nil => intro r; simp
  | cons a k ih =>
    intro r
    cases r with
    | zero => simp
    | succ m =>
      rw [List.range_succ_eq_map, List.map_cons, List.map_map, List.sum_cons, List.take_succ_cons, List.sum_cons]
      have heq : (List.map ((fun q => (a :: k).getD q 0) ∘ Nat.succ) (List.range m))
          = List.map (fun q => k.getD q 0) (List.range m) := by
        apply List.map_congr_left; intro q _; simp
      rw [heq, ih m]; simp

theorem sum_cast (k : List Nat) : (k.map Int.ofNat).sum = ((k.sum : Nat) : Int) := by
  induction k with
  | nil => rfl
  | cons a k ih => simp [ih]

theorem sortedUnused_shifted (old : Int) (s : NodeIds) (off tot : Int) :
    (sortedUnused (shiftedRank old off tot s)).Perm ((unusedArr s).map (shiftId old off)) := by
  unfold sortedUnused
  refine (sortGlob_perm _).trans ?_
  simp [unusedArr, shiftedRank, List.map_reverse]

theorem keys_shifted (old : Int) (s : NodeIds) (off tot : Int) :
    (shiftedRank old off tot s).keys = s.keys.map (shiftId old off) := by
  simp [NodeIds.keys, shiftedRank, List.map_map, Function.comp]

section final
variable (old : Int) (w : World NodeIds) (h : SyncInv old w)
include h

theorem ev_eq : w.map newNodes = (absWorld old w).k.map Int.ofNat := by
  simp only [absWorld, List.map_map]
  apply List.map_congr_left
  intro s hs
  have := h.new_ge s hs
  simp only [Function.comp, newNodes]
  exact (Int.toNat_of_nonneg (by omega)).symm

theorem off_eq (r : Nat) : isum ((w.map newNodes).take r) = (absWorld old w).off r := by
  rw [isum_eq_sum, ev_eq old w h, ← List.map_take, sum_cast]
  unfold IdWorld.off
  have : (List.map (absWorld old w).kOf (List.range r))
      = List.map (fun q => (absWorld old w).k.getD q 0) (List.range r) := rfl
  rw [this, range_getD_sum]

theorem total_eq : isum (w.map newNodes) + old = (absWorld old w).M := by
  rw [isum_eq_sum, ev_eq old w h, sum_cast]
  unfold IdWorld.M
  have : (absWorld old w).old = old := rfl
  rw [this]; omega

theorem shiftNew_closed :
    shiftNew w = w.mapIdx fun r s => shiftedRank old ((absWorld old w).off r) (isum (w.map newNodes)) s := by
  rw [shiftNew_eq]
  apply List.ext_getElem
  · simp
  · intro i h1 h2
    have hi : i < w.length := by simpa using h2
    simp only [List.getElem_mapIdx]
    rw [shiftRank_eq _ _ _ (h.keys_sorted _ (List.getElem_mem hi)), h.old_eq _ (List.getElem_mem hi),
      off_eq old w h]

theorem Us_perm : (Us (shiftNew w)).flatten.Perm (absWorld old w).shiftedUnused := by
  rw [shiftNew_closed old w h]
  unfold IdWorld.shiftedUnused
  apply flatten_perm_of_getElem
  · simp [Us, absWorld]
  · intro i h1 h2
    have hi : i < w.length := by simpa [Us] using h1
    simp only [Us, List.getElem_map, List.getElem_mapIdx, absWorld]
    exact sortedUnused_shifted old _ _ _

theorem elimHyp_shiftNew : ElimHyp (shiftNew w) := by
  have hperm := Us_perm old w h
  refine ⟨hperm.nodup_iff.mpr h.inv.unused_nodup, ?_, ?_⟩
  · intro s' hs'
    rw [shiftNew_closed old w h] at hs'
    obtain ⟨i, hi, rfl⟩ := List.mem_iff_getElem.mp hs'
    have hi' : i < w.length := by simpa using hi
    simp only [List.getElem_mapIdx]
    rw [keys_shifted, List.pairwise_map]
    refine (h.keys_sorted _ (List.getElem_mem hi')).imp ?_
    intro a b hab
    rcases Int.lt_or_eq_of_le hab with hlt | heq
    · exact le_of_lt (shiftId_strictMono _ _ (off_nonneg _ i) a b hlt)
    · rw [heq]
  · intro s' hs' g hg hmem
    rw [shiftNew_closed old w h] at hs'
    obtain ⟨i, hi, rfl⟩ := List.mem_iff_getElem.mp hs'
    have hi' : i < w.length := by simpa using hi
    simp only [List.getElem_mapIdx] at hg
    rw [keys_shifted] at hg
    obtain ⟨g0, hg0, rfl⟩ := List.mem_map.mp hg
    have hlive : g0 ∈ (absWorld old w).liveOf i := by
      simp only [IdWorld.liveOf, absWorld]
      rw [List.getD_eq_getElem?_getD, List.getElem?_eq_getElem (by simpa using hi')]
      simpa using hg0
    exact h.inv.live_not_unused i g0 hlive (hperm.mem_iff.mp hmem)

/-- **the unrolling**: under the invariant the loop-by-loop model equals the closed form on every rank -/
theorem syncGlobals_eq : syncGlobals w = w.mapIdx fun r s => finalRank (absWorld old w) r s := by
  unfold syncGlobals
  rw [eliminateUnused_eq _ (elimHyp_shiftNew old w h)]
  have hperm := Us_perm old w h
  unfold elimClosed
  generalize hU : (Us (shiftNew w)).flatten = U at hperm
  rw [shiftNew_closed old w h]
  apply List.ext_getElem
  · simp
  · intro i h1 h2
    have hi : i < w.length := by simpa using h2
    simp only [List.getElem_map, List.getElem_mapIdx, shiftedRank, finalRank, NodeIds.initNGlobal, List.map_map]
    have hN : isum (w.map newNodes) + old - (U.length : Int) = (absWorld old w).N := by
      rw [total_eq old w h, hperm.length_eq]; rfl
    have hs : (List.map ((fun (e : Int × Nat) => (elim U e.1, e.2)) ∘ fun e => (shiftId old ((absWorld old w).off i) e.1, e.2))
        (w[i]).sorted) = List.map (fun (e : Int × Nat) => ((absWorld old w).newId i e.1, e.2)) (w[i]).sorted := by
      apply List.map_congr_left
      intro e _
      simp only [Function.comp, IdWorld.newId]
      rw [elim_perm U _ hperm]; rfl
    rw [hs, hN]
    rfl

end final

/-! ### reading the result through `global[]` -/

theorem writeBack_getD_not_mem (es : List (Int × Nat)) : ∀ (g : List Int) (l : Nat) (d : Int),
    l ∉ es.map (·.2) → (writeBack g es).getD l d = g.getD l d := by
  induction es with
  | nil => intro g l d _; rfl
  | cons e es ih =>
    intro g l d hl
    simp only [List.map_cons, List.mem_cons, not_or] at hl
    show (writeBack (g.set e.2 e.1) es).getD l d = _
    rw [ih _ l d hl.2]
    simp only [List.getD_eq_getElem?_getD, List.getElem?_set]
    have : e.2 ≠ l := fun h => hl.1 h.symm
    simp [this]

theorem writeBack_getD (es : List (Int × Nat)) : ∀ (g : List Int) (d : Int), (es.map (·.2)).Nodup →
    ∀ v l, (v, l) ∈ es → l < g.length → (writeBack g es).getD l d = v := by
  induction es with
  | nil => intro g d _ v l hm; simp at hm
  | cons e es ih =>
    intro g d hnd v l hm hl
    rw [List.map_cons, List.nodup_cons] at hnd
    show (writeBack (g.set e.2 e.1) es).getD l d = v
    rcases List.mem_cons.mp hm with heq | hm
    · subst heq
      rw [writeBack_getD_not_mem es _ _ d hnd.1]
      simp [List.getD_eq_getElem?_getD, List.getElem?_set, hl]
    · exact ih _ d hnd.2 v l hm (by simpa using hl)

end Refine.Lemmas.DistSync
