import Refine.Model.Dist
import Refine.Lemmas.Dist
import Refine.Lemmas.Comm
import Refine.Props.C17

/-!
  The world-level unrolling of `syncGlobals` (C06 headline): under the id invariant the loop-by-loop model of
  `ref_node_synchronize_globals` equals the closed form `IdWorld.newId`.
-/
namespace Refine.Lemmas.DistSync
open Refine.Model.Dist Refine.Model.NodeIds Refine.Lemmas.Dist
open Refine.Model.Comm (World isum RefType GatherV)
open Refine.Lemmas.Comm (isum_eq_sum)

/-! ### list helpers -/

theorem zip_map_const {α β : Type} (l : List α) (c : β) : l.zip (l.map fun _ => c) = l.map fun s => (s, c) := by
  induction l with
  | nil => rfl
  | cons x xs ih => rw [List.map_cons, List.zip_cons_cons, ih, List.map_cons]

theorem mapIdx_map' {α β γ : Type} (l : List α) (g : α → β) (f : Nat → β → γ) :
    (l.map g).mapIdx f = l.mapIdx fun i x => f i (g x) := by
  apply List.ext_getElem
  · simp
  · intro i h1 h2; simp

/-! ### `ref_node_shift_new_globals` -/

theorem shiftNew_eq (w : World NodeIds) :
    shiftNew w = w.mapIdx fun r s => shiftRank (w.map newNodes) r s := by
  unfold shiftNew
  rw [Refine.Props.C17.allgather_spec RefType.int rfl, List.map_map]
  have : (w.map ((fun _ => (Refine.Model.Comm.Status.ok, w.map newNodes)) ∘ newNodes))
      = w.map fun _ => (Refine.Model.Comm.Status.ok, w.map newNodes) := rfl
  rw [this]
  show List.mapIdx _ (List.zip w (w.map fun _ => (Refine.Model.Comm.Status.ok, w.map newNodes))) = _
  rw [zip_map_const, mapIdx_map']

/-- descending list: shifting the leading run of entries `≥ old` is shifting every entry `≥ old` -/
theorem shift_prefix (old off : Int) (r : List (Int × Nat)) (hr : r.Pairwise fun a b => b.1 ≤ a.1) :
    (r.take (r.takeWhile fun e => decide (e.1 ≥ old)).length).map (fun e => (e.1 + off, e.2))
        ++ r.drop (r.takeWhile fun e => decide (e.1 ≥ old)).length
      = r.map fun e => (shiftId old off e.1, e.2) := by
  induction r with
  | nil => rfl
  | cons x xs ih =>
    rw [List.pairwise_cons] at hr
    by_cases hx : x.1 ≥ old
    · simp only [List.takeWhile_cons, hx, decide_true, if_true, List.length_cons, List.take_succ_cons,
        List.map_cons, List.drop_succ_cons, List.cons_append]
      rw [ih hr.2]
      simp [shiftId, hx]
    · simp only [List.takeWhile_cons, hx, decide_false, Bool.false_eq_true, if_false, List.length_nil,
        List.take_zero, List.map_nil, List.drop_zero, List.nil_append]
      symm
      have : ∀ e ∈ x :: xs, (shiftId old off e.1, e.2) = e := by
        intro e he
        have hle : e.1 ≤ x.1 := by
          rcases List.mem_cons.mp he with rfl | he
          · exact le_refl _
          · exact hr.1 e he
        have : ¬ e.1 ≥ old := by omega
        simp [shiftId, this]
      rw [List.map_congr_left this, List.map_id']

theorem shiftTail_eq (old off : Int) (sorted : List (Int × Nat)) (hs : (sorted.map (·.1)).Pairwise (· ≤ ·)) :
    shiftTail old off sorted = sorted.map fun e => (shiftId old off e.1, e.2) := by
  unfold shiftTail
  have hr : sorted.reverse.Pairwise fun a b => b.1 ≤ a.1 := by
    rw [List.pairwise_reverse]
    rw [List.pairwise_map] at hs
    exact hs
  simp only []
  rw [shift_prefix old off sorted.reverse hr, ← List.map_reverse, List.reverse_reverse]

/-- closed form of one rank after `ref_node_shift_new_globals` -/
def shiftedRank (old off total : Int) (s : NodeIds) : NodeIds :=
  { s with global := s.global.map fun g => if g ≥ 0 ∧ g ≥ old then g + off else g,
           sorted := s.sorted.map fun e => (shiftId old off e.1, e.2),
           unusedStk := s.unusedStk.map (shiftId old off),
           oldN := total + old, newN := total + old }

theorem shiftRank_eq (ev : List Int) (r : Nat) (s : NodeIds) (hs : s.keys.Pairwise (· ≤ ·)) :
    shiftRank ev r s = shiftedRank s.oldN (isum (ev.take r)) (isum ev) s := by
  unfold shiftRank shiftedRank
  by_cases h0 : isum (ev.take r) = 0
  · simp only [h0, ne_eq, not_true_eq_false, if_false, NodeIds.initNGlobal]
    have h1 : (s.global.map fun g => if g ≥ 0 ∧ g ≥ s.oldN then g + 0 else g) = s.global := by
      rw [List.map_congr_left (g := id)]; simp
      intro g _; split <;> simp
    have h2 : (s.sorted.map fun e => (shiftId s.oldN 0 e.1, e.2)) = s.sorted := by
      rw [List.map_congr_left (g := id)]; simp
      intro e _; simp [shiftId]
    have h3 : s.unusedStk.map (shiftId s.oldN 0) = s.unusedStk := by
      rw [List.map_congr_left (g := id)]; simp
      intro e _; simp [shiftId]
    rw [h1, h2, h3]
  · simp only [ne_eq, h0, not_false_eq_true, if_true, NodeIds.initNGlobal]
    rw [shiftTail_eq _ _ _ hs]
    rfl

end Refine.Lemmas.DistSync
