import Refine.Model.MeshOps
import Mathlib.Data.List.Perm.Basic

/-!
  Lemmas about `Refine/Model/MeshOps.lean`: the literal remove/add loops of `ref_split_edge`,
  `ref_collapse_edge` are permutations of their specification (`flatMap` / `filter`+`map`).
-/
namespace Refine.Model.MeshOps
open List

/-! ### split -/

/-- specification of one split cell -/
def splitSpecCell (np : Nat) (n0 n1 new : Int) (c : Cell) : List Cell :=
  if has2 np n0 n1 c then [splitV1 np n0 n1 new c, splitV0 np n0 new c] else [c]

/-- specification of one group: every cell on the edge becomes its two halves, all others stay -/
def splitSpec (np : Nat) (n0 n1 new : Int) (cs : List Cell) : List Cell :=
  cs.flatMap (splitSpecCell np n0 n1 new)

theorem splitLoop_perm_congr (np : Nat) (n0 n1 new : Int) :
    ∀ (todo : List Cell) {cs cs' : List Cell}, cs ~ cs' →
      splitLoop np n0 n1 new todo cs ~ splitLoop np n0 n1 new todo cs'
  | [], _, _, h => h
  | c :: rest, _, _, h => by
    simp only [splitLoop]
    exact splitLoop_perm_congr np n0 n1 new rest ((h.erase c).cons _ |>.cons _)

theorem erase_append_cons_perm (acc t : List Cell) (a : Cell) : (acc ++ a :: t).erase a ~ acc ++ t := by
  have h : acc ++ a :: t ~ a :: (acc ++ t) := perm_middle
  have := h.erase a
  simpa using this

theorem splitLoop_spec_aux (np : Nat) (n0 n1 new : Int) :
    ∀ (t acc : List Cell),
      splitLoop np n0 n1 new (t.filter (has2 np n0 n1)) (acc ++ t) ~ acc ++ splitSpec np n0 n1 new t
  | [], acc => by simp [splitLoop, splitSpec]
  | a :: t, acc => by
    by_cases hp : has2 np n0 n1 a = true
    · have hf : (a :: t).filter (has2 np n0 n1) = a :: t.filter (has2 np n0 n1) := by simp [hp]
      rw [hf]
      simp only [splitLoop]
      have h1 : splitV1 np n0 n1 new a :: splitV0 np n0 new a :: (acc ++ a :: t).erase a ~
          (splitV1 np n0 n1 new a :: splitV0 np n0 new a :: acc) ++ t := by
        simpa using ((erase_append_cons_perm acc t a).cons (splitV0 np n0 new a)).cons (splitV1 np n0 n1 new a)
      refine (splitLoop_perm_congr np n0 n1 new _ h1).trans ?_
      refine (splitLoop_spec_aux np n0 n1 new t _).trans ?_
      have hs : splitSpec np n0 n1 new (a :: t) =
          splitV1 np n0 n1 new a :: splitV0 np n0 new a :: splitSpec np n0 n1 new t := by
        simp [splitSpec, splitSpecCell, hp]
      rw [hs]
      have : (splitV1 np n0 n1 new a :: splitV0 np n0 new a :: acc) ++ splitSpec np n0 n1 new t =
          [splitV1 np n0 n1 new a, splitV0 np n0 new a] ++ (acc ++ splitSpec np n0 n1 new t) := by simp
      rw [this]
      have h2 : acc ++ splitV1 np n0 n1 new a :: splitV0 np n0 new a :: splitSpec np n0 n1 new t =
          acc ++ ([splitV1 np n0 n1 new a, splitV0 np n0 new a] ++ splitSpec np n0 n1 new t) := by simp
      rw [h2]
      exact (perm_append_comm_assoc _ _ _)
    · have hp' : has2 np n0 n1 a = false := by simpa using hp
      have hf : (a :: t).filter (has2 np n0 n1) = t.filter (has2 np n0 n1) := by simp [hp']
      rw [hf]
      have h1 : acc ++ a :: t = (acc ++ [a]) ++ t := by simp
      rw [h1]
      refine (splitLoop_spec_aux np n0 n1 new t _).trans ?_
      have hs : splitSpec np n0 n1 new (a :: t) = a :: splitSpec np n0 n1 new t := by
        simp [splitSpec, splitSpecCell, hp']
      rw [hs]
      simp

/-- the literal loop of `ref_split_edge` is a permutation of the specification -/
theorem splitLoop_spec (np : Nat) (n0 n1 new : Int) (cs : List Cell) :
    splitLoop np n0 n1 new (cs.filter (has2 np n0 n1)) cs ~ splitSpec np n0 n1 new cs := by
  simpa using splitLoop_spec_aux np n0 n1 new cs []

/-! ### collapse -/

theorem removeLoop_perm_congr : ∀ (todo : List Cell) {cs cs' : List Cell}, cs ~ cs' →
    removeLoop todo cs ~ removeLoop todo cs'
  | [], _, _, h => h
  | c :: rest, _, _, h => by
    simp only [removeLoop]
    exact removeLoop_perm_congr rest (h.erase c)

theorem removeLoop_spec_aux (p : Cell → Bool) : ∀ (t acc : List Cell),
    removeLoop (t.filter p) (acc ++ t) ~ acc ++ t.filter (fun c => !p c)
  | [], acc => by simp [removeLoop]
  | a :: t, acc => by
    by_cases hp : p a = true
    · have hf : (a :: t).filter p = a :: t.filter p := by simp [hp]
      rw [hf]
      simp only [removeLoop]
      refine (removeLoop_perm_congr _ (erase_append_cons_perm acc t a)).trans ?_
      refine (removeLoop_spec_aux p t acc).trans ?_
      simp [hp]
    · have hp' : p a = false := by simpa using hp
      have hf : (a :: t).filter p = t.filter p := by simp [hp']
      rw [hf]
      have h1 : acc ++ a :: t = (acc ++ [a]) ++ t := by simp
      rw [h1]
      refine (removeLoop_spec_aux p t _).trans ?_
      simp [hp']

/-- the `ref_cell_remove` loop of `ref_collapse_edge` removes exactly the listed cells -/
theorem removeLoop_spec (p : Cell → Bool) (cs : List Cell) :
    removeLoop (cs.filter p) cs ~ cs.filter (fun c => !p c) := by
  simpa using removeLoop_spec_aux p cs []

/-- specification of one group of a collapse -/
def collapseSpec (np : Nat) (n0 n1 : Int) (cs : List Cell) : List Cell :=
  (cs.filter fun c => !has2 np n0 n1 c).map (subst np n1 n0)

theorem subst_self (np : Nat) (a : Int) (c : Cell) : subst np a a c = c := by
  unfold subst
  have : (c.take np).map (fun v => if v = a then a else v) = c.take np := by
    conv => rhs; rw [← List.map_id (c.take np)]
    apply List.map_congr_left
    intro v _
    by_cases h : v = a <;> simp [h]
  rw [this, List.take_append_drop]

theorem replaceNode_eq_map (np : Nat) (cs : List Cell) (old new : Int) :
    replaceNode np cs old new = cs.map (subst np old new) := by
  unfold replaceNode
  split
  · rename_i h
    subst h
    rw [List.map_congr_left (fun c _ => subst_self np old c)]
    simp
  · rfl

/-! ### vertex sets -/

theorem nodesOf_subst (np : Nat) (old new : Int) (c : Cell) :
    nodesOf np (subst np old new c) = (nodesOf np c).map fun v => if v = old then new else v := by
  unfold nodesOf subst
  rcases Nat.le_total np c.length with h | h
  · have hl : ((c.take np).map fun v => if v = old then new else v).length = np := by
      simp [List.length_take]; omega
    rw [List.take_append_of_le_length (by omega), List.take_of_length_le (by omega)]
  · have hd : c.drop np = [] := List.drop_of_length_le h
    have hl : ((c.take np).map fun v => if v = old then new else v).length ≤ np := by
      simp [List.length_take]; omega
    rw [hd, List.append_nil, List.take_of_length_le hl]

theorem drop_subst (np : Nat) (old new : Int) (c : Cell) (h : np ≤ c.length) :
    (subst np old new c).drop np = c.drop np := by
  unfold subst
  have hl : ((c.take np).map fun v => if v = old then new else v).length = np := by
    simp [List.length_take]; omega
  rw [List.drop_append_of_le_length (by omega)]
  rw [List.drop_of_length_le (by omega)]
  simp

theorem length_subst (np : Nat) (old new : Int) (c : Cell) : (subst np old new c).length = c.length := by
  unfold subst
  simp [List.length_take, List.length_drop]
  omega

/-- with a fresh `new` (not a vertex of the cell) the C's "undo" (`new ↦ node0`) restores the cell, so the
    node1 version is plainly `node1 ↦ new` -/
theorem splitV1_fresh (np : Nat) (n0 n1 new : Int) (c : Cell) (hf : new ∉ nodesOf np c) :
    splitV1 np n0 n1 new c = subst np n1 new c := by
  unfold splitV1
  congr 1
  unfold subst
  have hl : ((c.take np).map fun v => if v = n0 then new else v).length = (c.take np).length := by simp
  have htake : (((c.take np).map fun v => if v = n0 then new else v) ++ c.drop np).take np =
      (c.take np).map fun v => if v = n0 then new else v := by
    have := nodesOf_subst np n0 new c
    simpa [nodesOf, subst] using this
  have hdrop : (((c.take np).map fun v => if v = n0 then new else v) ++ c.drop np).drop np = c.drop np := by
    rcases Nat.le_total np c.length with h | h
    · exact drop_subst np n0 new c h
    · have hd : c.drop np = [] := List.drop_of_length_le h
      rw [hd, List.append_nil]
      apply List.drop_of_length_le
      simp [List.length_take]; omega
  rw [htake, hdrop, List.map_map]
  conv => rhs; rw [← List.take_append_drop np c]
  congr 1
  conv => rhs; rw [← List.map_id (c.take np)]
  apply List.map_congr_left
  intro v hv
  have hv' : v ≠ new := fun e => hf (by simpa [nodesOf, e] using hv)
  by_cases h0 : v = n0 <;> simp [h0, hv']

end Refine.Model.MeshOps
